/-
  Termination of the LR engine loop, part 3 (monadic): `engine_terminates`.

  For EVERY token source and EVERY family of semantic actions that respect a token budget
  `β : Local → Env → Nat` (a state measure: fetching a token other than the end marker costs at
  least one unit, semantic actions do not raise it) the variant

      μ c = pot c.stack + K · (β + [the look-ahead slot holds a token other than `$end`])

  strictly decreases with every iteration of `step`.  Hence `run T H fuel` with
  `rk 0 + K · β < fuel` never raises `outOfFuel "LRParser.parse"` of its own: the number of
  iterations is at most `rk 0 + K · (number of tokens the source can still deliver)`.
-/
import Bashlex.Props.C01Engine.Potential
import Bashlex.Proofs.HoareS

namespace Bashlex
namespace M

/-- total-correctness flavour of the loop rule: a variant that strictly decreases makes the fuel
    exception impossible (it need not be in `E`) -/
theorem SatS.loop_variant {σ α : Type} {site : String} {body : σ → M (σ ⊕ α)}
    {I : σ → Local → Env → Prop} {μ : σ → Local → Env → Nat}
    {R : α → Local → Env → Prop} {E : Exn → Prop}
    (hbody : ∀ s n, SatS (body s) (fun l e => I s l e ∧ μ s l e = n)
      (fun r l e => Sum.elim (fun s' => I s' l e ∧ μ s' l e < n) (fun a => R a l e) r) E) :
    ∀ fuel s, SatS (M.loop site body fuel s) (fun l e => I s l e ∧ μ s l e < fuel) R E := by
  intro fuel
  induction fuel with
  | zero => intro s l e hp; exact absurd hp.2 (Nat.not_lt_zero _)
  | succ k ih =>
    intro s
    refine SatS.intro_state ?_
    intro l0 e0 hp0
    show SatS (body s >>= _) _ R E
    refine SatS.bind (Q := fun r l e =>
      Sum.elim (fun s' => I s' l e ∧ μ s' l e < μ s l0 e0) (fun a => R a l e) r)
      ((hbody s (μ s l0 e0)).pre (by rintro l e ⟨rfl, rfl⟩; exact ⟨hp0.1, rfl⟩)) ?_
    intro r
    cases r with
    | inl s' =>
      refine (ih s').pre ?_
      intro l e h
      exact ⟨h.1, Nat.lt_of_lt_of_le h.2 (Nat.le_of_lt_succ hp0.2)⟩
    | inr a => exact SatS.pure (fun _ _ h => h)

/-- the variant as a GHOST index of the invariant -/
theorem SatS.loop_ghost {σ α : Type} {site : String} {body : σ → M (σ ⊕ α)}
    {I : σ → Nat → Local → Env → Prop} {R : α → Local → Env → Prop} {E : Exn → Prop}
    (hbody : ∀ s n, SatS (body s) (I s n)
      (fun r l e => Sum.elim (fun s' => ∃ n', n' < n ∧ I s' n' l e) (fun a => R a l e) r) E) :
    ∀ fuel s n, n < fuel → SatS (M.loop site body fuel s) (I s n) R E := by
  intro fuel
  induction fuel with
  | zero => intro s n h; exact absurd h (Nat.not_lt_zero _)
  | succ k ih =>
    intro s n hn
    show SatS (body s >>= _) _ R E
    refine SatS.bind (hbody s n) ?_
    intro r
    cases r with
    | inl s' =>
      refine SatS.exists_pre (fun n' => SatS.assume (fun hn' => ?_))
      exact ih s' n' (by omega)
    | inr a => exact SatS.pure (fun _ _ h => h)

/-- name the value of a state measure -/
theorem SatS.intro_nat {α : Type} {m : M α} {P : Local → Env → Prop}
    {Q : α → Local → Env → Prop} {E : Exn → Prop} (g : Local → Env → Nat)
    (h : ∀ n, SatS m (fun l e => P l e ∧ g l e = n) Q E) : SatS m P Q E := by
  intro l e hp; exact h (g l e) l e ⟨hp, rfl⟩

end M

namespace LR
open M
set_option linter.unusedSimpArgs false
set_option linter.unusedVariables false

variable {V : Type}

/-- 1 if the look-ahead is a token other than the end marker -/
def tokCost (T : Tables) (a : Nat) : Nat := if a = T.endTok then 0 else 1

def laFlag (T : Tables) : Option (Nat × V) → Nat
  | none => 0
  | some la => tokCost T la.1

/-- the hooks respect a token budget: `J n l e` = "the state of the parser object is fine and the
    token source can deliver at most `n` more tokens other than the end marker" (a GHOST index:
    `J` may be any family of state predicates, e.g. `J n l e := J₀ l e ∧ β l e ≤ n` for a state
    measure `β`, or an invariant that hides a frontier) -/
structure HooksBudget (T : Tables) (H : Hooks V) (J : Nat → Local → Env → Prop)
    (E : Exn → Prop) : Prop where
  /-- a token other than the end marker costs at least one unit of the budget -/
  next : ∀ n, SatS H.next (J n) (fun la l e => ∃ n', n' + tokCost T la.1 ≤ n ∧ J n' l e) E
  /-- semantic actions do not raise the budget -/
  act : ∀ p args n, SatS (H.act p args) (J n) (fun _ l e => ∃ n', n' ≤ n ∧ J n' l e) E
  onError : ∀ la n, SatS (H.onError la) (J n) (fun _ _ _ => True) E

/-- exceptions of the engine with termination proved: those of the hooks and the unmodelled
    error recovery — NOT `outOfFuel "LRParser.parse"` (unless a hook raises it) -/
def TermExn (E : Exn → Prop) (x : Exn) : Prop :=
  E x ∨ x = .foreign "NotModelled" "LRParser.parse(error recovery)"

section
variable {R : Raw} {wS rk : Nat → Nat} {B : Nat} {H : Hooks V}
  {J : Nat → Local → Env → Prop} {E : Exn → Prop}

abbrev TInv (R : Raw) (c : Cfg V) : Prop := Inv R.toTables (· ∈ R.reach) (fun _ _ => True) c

theorem arith_shift {K p p' b m f : Nat} (h1 : p' + 1 ≤ p + K) (h2 : b + 1 ≤ m + f) :
    p' + K * (b + 0) < p + K * (m + f) := by
  have h3 : K * (b + 1) ≤ K * (m + f) := Nat.mul_le_mul_left K h2
  rw [Nat.mul_add, Nat.mul_one] at h3
  rw [Nat.add_zero]
  omega

theorem arith_red {K p p' b m2 fl m f : Nat} (h1 : p' < p) (h2 : b ≤ m2) (h3 : m2 + fl ≤ m + f) :
    p' + K * (b + fl) < p + K * (m + f) := by
  have h4 : K * (b + fl) ≤ K * (m + f) := Nat.mul_le_mul_left K (by omega)
  omega

/-- one reduction: the potential drops, the look-ahead slot is untouched, the budget is not raised -/
theorem doReduce_var (hc : R.check = true) (hH : HooksBudget R.toTables H J E)
    (c : Cfg V) (p : Nat) (hinv : TInv R c)
    (hb : ∃ lhs rhs, R.toTables.prods[p]? = some (lhs, rhs) ∧
          BackOK R.toTables (· ∈ R.reach) R.accOf (topState c.stack) rhs.reverse lhs)
    (hred : R.rankRed wS rk (topState c.stack) p = true) (n : Nat) :
    SatS (doReduce R.toTables H c p) (J n)
      (fun r l e => ∃ n', J n' l e ∧ match r with
        | .inl c' => n' ≤ n ∧ pot wS rk c'.stack < pot wS rk c.stack ∧ c'.la = c.la
        | .inr _ => True) E := by
  have hwf := Raw.check_sound hc
  obtain ⟨⟨hp, hv, _⟩, _, _⟩ := hinv
  obtain ⟨lhs, rhs, hprod, hback⟩ := hb
  obtain ⟨es, rest, t, hpop, _, _, _, _, hg, _, _, _, _⟩ :=
    pop_of_back hwf rhs.reverse c.stack lhs hp hv hback
  simp only [List.length_reverse] at hpop
  have hprod' : R.prods[p]? = some (lhs, rhs) := hprod
  have hg' : R.goto (topState rest) lhs = some t := hg
  unfold doReduce
  simp only [hprod, hpop]
  refine SatS.bind (hH.act p _ n) ?_
  rintro ⟨v, accept⟩
  simp only [hg]
  by_cases hacc : accept = true
  · simp only [hacc, if_true]
    exact SatS.pure (fun l e ⟨n', _, hj⟩ => ⟨n', hj, True.intro⟩)
  · simp only [hacc]
    refine SatS.pure (fun l e ⟨n', hn, hj⟩ => ⟨n', hj, hn, ?_, rfl⟩)
    exact pot_reduce hc hp hprod' hred hpop hg' _ _

/-- **one iteration of the engine strictly decreases the variant**
    `pot stack + (B+1) · (budget + [look-ahead slot holds a token other than the end marker])` -/
theorem step_var (hc : R.check = true) (hk : R.rankCheck wS rk = true)
    (hB : ∀ t, wS t + rk t ≤ B) (hH : HooksBudget R.toTables H J E)
    (c : Cfg V) (hinv : TInv R c) (m : Nat) :
    SatS (step R.toTables H c) (J m)
      (fun r l e => ∃ m', J m' l e ∧ match r with
        | .inl c' => pot wS rk c'.stack + (B + 1) * (m' + laFlag R.toTables c'.la) <
                     pot wS rk c.stack + (B + 1) * (m + laFlag R.toTables c.la)
        | .inr _ => True) (TermExn E) := by
  have hwf := Raw.check_sound hc
  have hinv' := hinv
  obtain ⟨⟨hp, hv, hcons⟩, hvi, hvila⟩ := hinv
  have hr : topState c.stack ∈ R.reach := reach_top hwf hp
  unfold step
  simp only
  cases hd : R.toTables.dflt (topState c.stack) with
  | some p =>
    refine ((doReduce_var hc hH c p hinv' (hwf.redDflt _ p hr hd)
      (Raw.rankRed_of_dflt hk hr hd) m).weaken (fun _ _ h => h) ?_ (fun _ h => Or.inl h))
    rintro r l e ⟨m', hj, h⟩
    refine ⟨m', hj, ?_⟩
    cases r with
    | inl c' =>
      obtain ⟨hb, hpot, hla⟩ := h
      simp only at hb hpot hla ⊢
      rw [hla]
      exact arith_red hpot (Nat.le_refl _) (by omega)
    | inr _ => exact True.intro
  | none =>
    simp only
    -- the look-ahead: stored, or fetched at the price of the budget
    refine SatS.bind (Q := fun la l e => ∃ m1, m1 + tokCost R.toTables la.1 ≤
        m + laFlag R.toTables c.la ∧ J m1 l e) ?_ ?_
    · cases hla : c.la with
      | some la =>
        refine SatS.pure ?_
        intro l e h
        exact ⟨m, by simp only [laFlag]; omega, h⟩
      | none =>
        refine ((hH.next m).weaken (fun _ _ h => h) ?_ (fun _ h => Or.inl h))
        rintro la l e ⟨n', hn, hj⟩
        exact ⟨n', by simp only [laFlag]; omega, hj⟩
    rintro ⟨la, lv⟩
    simp only
    refine SatS.exists_pre (fun m1 => SatS.assume (fun hm1 => ?_))
    have hinvla : TInv R { c with la := some (la, lv) } :=
      ⟨⟨hp, hv, hcons⟩, hvi, fun _ _ => True.intro⟩
    split
    · exact SatS.pure (fun l e h => ⟨m1, h, True.intro⟩)
    · cases hact : R.toTables.action (topState c.stack) la with
      | none =>
        simp only
        refine SatS.bind (Q := fun _ _ _ => True)
          ((hH.onError _ m1).weaken (fun _ _ h => h) (fun _ _ _ h => h)
            (fun _ h => Or.inl h)) ?_
        intro _
        exact SatS.foreign (Or.inr rfl)
      | some a =>
        cases a with
        | shift t =>
          have hne : la ≠ R.endTok := Raw.noShiftEnd hk hr hact
          have hcost : tokCost R.toTables la = 1 := by
            simp only [tokCost, Raw.toTables]; exact if_neg hne
          simp only
          rw [hcost] at hm1
          split
          · refine SatS.pure ?_
            intro l e h
            refine ⟨m1, h, ?_⟩
            simp only [laFlag]
            exact arith_shift (by omega) hm1
          · refine SatS.pure ?_
            intro l e h
            refine ⟨m1, h, ?_⟩
            simp only [laFlag]
            have := pot_shift (wS := wS) (rk := rk) hB c.stack t (.leaf la) lv
            exact arith_shift (by omega) hm1
        | reduce p =>
          simp only
          refine ((doReduce_var hc hH _ p hinvla (hwf.redAct _ _ p hr hact)
            (Raw.rankRed_of_action hk hr hact) m1).weaken (fun _ _ h => h) ?_
            (fun _ h => Or.inl h))
          rintro r l e ⟨m', hj, h⟩
          refine ⟨m', hj, ?_⟩
          cases r with
          | inl c' =>
            obtain ⟨hb, hpot, hla⟩ := h
            simp only at hb hpot hla ⊢
            rw [hla]
            simp only [laFlag]
            exact arith_red hpot hb hm1
          | inr _ => exact True.intro
        | accept =>
          simp only
          split
          · exact SatS.pure (fun l e h => ⟨m1, h, True.intro⟩)
          · exact SatS.pure (fun l e h => ⟨m1, h, True.intro⟩)

/-- **engine_terminates**: for every token source and all semantic actions respecting a token
    budget, the engine started with budget `m` and `rk 0 + (B+1)·m < fuel` performs at most
    `rk 0 + (B+1)·m` iterations: it raises nothing but what its hooks raise and the unmodelled
    error recovery; `outOfFuel "LRParser.parse"` is impossible.  The state invariant of the
    hooks holds (with some budget) at every normal return. -/
theorem engine_terminates (hc : R.check = true) (hk : R.rankCheck wS rk = true)
    (hB : ∀ t, wS t + rk t ≤ B) (hH : HooksBudget R.toTables H J E) (fuel m : Nat)
    (hfuel : rk 0 + (B + 1) * m < fuel) :
    SatS (run R.toTables H fuel) (J m) (fun _ l e => ∃ m', J m' l e) (TermExn E) := by
  have hwf := Raw.check_sound hc
  have hHR : HooksRaise R.toTables H (fun _ _ => True) (fun _ => True) :=
    ⟨Sat.trivial _, fun _ _ _ _ _ _ => Sat.trivial _, fun _ => Sat.trivial _⟩
  unfold run
  refine (SatS.loop_ghost (I := fun c N l e => TInv R c ∧ ∃ m1, J m1 l e ∧
      pot wS rk c.stack + (B + 1) * (m1 + laFlag R.toTables c.la) = N)
    (R := fun _ l e => ∃ m', J m' l e) ?_ fuel {}
      (pot wS rk ({} : Cfg V).stack + (B + 1) * (m + laFlag R.toTables ({} : Cfg V).la))
      (by simpa [pot, sumW, topState, laFlag] using hfuel)).pre ?_
  · intro c n
    refine SatS.pre (P := fun l e => TInv R c ∧ ∃ m1, pot wS rk c.stack +
        (B + 1) * (m1 + laFlag R.toTables c.la) = n ∧ J m1 l e) ?_
      (fun l e ⟨h1, m1, h2, h3⟩ => ⟨h1, m1, h3, h2⟩)
    refine SatS.assume (fun hinv => SatS.exists_pre (fun m1 => SatS.assume (fun hn => ?_)))
    have h1 := step_var (wS := wS) (rk := rk) hc hk hB hH c hinv m1
    have h2 : Sat (step R.toTables H c)
        (Sum.elim (Inv R.toTables (· ∈ R.reach) (fun _ _ => True)) (fun _ => True))
        (fun _ => True) :=
      (step_sat hwf H hHR c hinv).weaken
        (fun r h => by cases r with
          | inl c' => exact h
          | inr _ => exact True.intro) (fun _ _ => True.intro)
    refine (SatS.and_sat h1 h2).post ?_
    rintro r l e ⟨⟨m', hJ, hlt⟩, hi⟩
    cases r with
    | inl c' =>
      simp only [Sum.elim_inl] at hi hlt ⊢
      exact ⟨_, by rw [← hn]; exact hlt, hi, m', hJ, rfl⟩
    | inr a => exact ⟨m', hJ⟩
  · intro l e h
    refine ⟨?_, m, h, rfl⟩
    refine ⟨⟨True.intro, True.intro, ⟨[], by simp [forestYield], by simp⟩⟩, ?_, ?_⟩
    · intro e he; cases he
    · intro la hla; cases hla

/-- the same for a state measure `β : Local → Env → Nat` (fetching a token other than the end
    marker lowers it, actions do not raise it) -/
theorem engine_terminates_measure (hc : R.check = true) (hk : R.rankCheck wS rk = true)
    (hB : ∀ t, wS t + rk t ≤ B) {J₀ : Local → Env → Prop} {β : Local → Env → Nat}
    (hnext : ∀ n, SatS H.next (fun l e => J₀ l e ∧ β l e = n)
      (fun la l e => J₀ l e ∧ β l e + tokCost R.toTables la.1 ≤ n) E)
    (hact : ∀ p args n, SatS (H.act p args) (fun l e => J₀ l e ∧ β l e = n)
      (fun _ l e => J₀ l e ∧ β l e ≤ n) E)
    (herr : ∀ la, SatS (H.onError la) J₀ (fun _ _ _ => True) E) (fuel : Nat) :
    SatS (run R.toTables H fuel) (fun l e => J₀ l e ∧ rk 0 + (B + 1) * β l e < fuel)
      (fun _ l e => J₀ l e) (TermExn E) := by
  have hH : HooksBudget R.toTables H (fun n l e => J₀ l e ∧ β l e ≤ n) E := by
    refine ⟨?_, ?_, ?_⟩
    · intro n
      refine SatS.intro_nat β (fun k => ?_)
      refine SatS.pre (P := fun l e => k ≤ n ∧ (J₀ l e ∧ β l e = k)) ?_
        (fun l e h => ⟨by rw [← h.2]; exact h.1.2, h.1.1, h.2⟩)
      refine SatS.assume (fun hk' => (hnext k).post ?_)
      rintro la l e ⟨h1, h2⟩
      exact ⟨β l e, by omega, h1, Nat.le_refl _⟩
    · intro p args n
      refine SatS.intro_nat β (fun k => ?_)
      refine SatS.pre (P := fun l e => k ≤ n ∧ (J₀ l e ∧ β l e = k)) ?_
        (fun l e h => ⟨by rw [← h.2]; exact h.1.2, h.1.1, h.2⟩)
      refine SatS.assume (fun hk' => (hact p args k).post ?_)
      rintro r l e ⟨h1, h2⟩
      exact ⟨β l e, by omega, h1, Nat.le_refl _⟩
    · intro la n
      exact (herr la).pre (fun _ _ h => h.1)
  intro l e hp
  have h := engine_terminates (wS := wS) (rk := rk) hc hk hB hH fuel (β l e) hp.2 l e
    ⟨hp.1, Nat.le_refl _⟩
  revert h
  rcases (run R.toTables H fuel).run l e with ⟨r, e'⟩
  cases r with
  | ok v => exact fun ⟨_, h, _⟩ => h
  | error x => exact fun h => h

end
end LR
end Bashlex
