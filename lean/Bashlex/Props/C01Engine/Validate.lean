/-
  Termination of the LR engine loop: cross-check BY EVALUATION of the hypothesis `TokBudget`
  (`Props/C01Engine.lean`) for the candidate budget `|line| - cursor`, and of the bound `16·n`.

  `budRun` is `parserRun` with these changes (none of them alters a result that passes):
    * the token source checks on every call of `token()`: `rem' + cost(t) ≤ rem`, where
      `rem = |line| - cursor` (truncated) and `cost(EOF) = 0`, `cost(other) = 1`;
    * every semantic action checks `rem' ≤ rem`;
    * a nested parser is created only on a string SHORTER than the source of its caller;
    * the engine loop counts its iterations `k` and checks `k ≤ 16·rem₀ + 1` at the end
      (`rem₀` = `|line| - cursor` when the engine starts).
  A failed check raises `foreign "BUD" …`; `report` counts the inputs on which one is raised.
-/
import Bashlex.Props.C05.TGValidate

namespace Bashlex.C01E.Val
open Bashlex

def remOf : M Nat := do
  let line ← tapeLine
  let i ← curIdx
  pure (line.length - i)

def budHooks (np : NestedParse) : LR.Hooks SVal :=
  { lrHooks np with
    next := do
      if (← get).eolLookahead.isSome then M.raise (.foreign "BUD" "slot not empty before token()")
      let r0 ← remOf
      let t ← nextToken
      let r1 ← remOf
      let cost := if t.ttype = some .EOF then 0 else 1
      if r1 + cost ≤ r0 then pure (symOfTok t, .tok t)
      else M.raise (.foreign "BUD" s!"token: rem {r0} -> {r1} {repr t}")
    act := fun p args => do
      let r0 ← remOf
      let r ← (lrHooks np).act p args
      let r1 ← remOf
      if r1 ≤ r0 then pure r
      else M.raise (.foreign "BUD" s!"action {Gen.prodFuncs.getD p ""}: rem {r0} -> {r1}") }

/-- `LR.run`, counting the iterations -/
def runCount {V : Type} (T : LR.Tables) (H : LR.Hooks V) (fuel : Nat) : M (LR.Res V × Nat) :=
  M.loop "LRParser.parse" (fun (ck : LR.Cfg V × Nat) => do
    match ← LR.step T H ck.1 with
    | .inl c' => pure (.inl (c', ck.2 + 1))
    | .inr r => pure (.inr (r, ck.2 + 1))) fuel ({}, 0)

def budRun : Nat → M (Option Node)
  | 0 => M.raise (.outOfFuel "nesting")
  | depth + 1 => do
    let np : NestedParse := fun string dolparen => do
      let outer ← get
      let src ← tapeSource
      if !(string.length < src.length) then
        M.raise (.foreign "BUD" s!"nested string {string.length} not shorter than {src.length}")
      let ps := if dolparen then { outer.ps with cmdsubst := true, eoftoken := true } else outer.ps
      set ({ tape := some (Tape.ofInput string), opts := some (true, false)
             lastReadToken := outer.lastReadToken, tokenBeforeThat := outer.tokenBeforeThat
             twoTokensAgo := outer.twoTokensAgo, ps := ps
             eofToken := if dolparen then some rparenEofToken else none
             limit := outer.limit.map (· - 1) } : Local)
      let r ← budRun depth
      let inner ← get
      set { outer with ps := inner.ps }
      pure r
    let r0 ← remOf
    let (res, k) ← runCount LR.realTables (budHooks np) 1073741824
    if !(k ≤ 16 * r0 + 1) then M.raise (.foreign "BUD" s!"{k} iterations, budget {r0}")
    let store := (← get).store
    match res with
    | .accepted (.node n) _ _ _ => pure (some (resolve store n))
    | _ => pure none

def chkOne (s : Str) (o : Opts) : Option String :=
  let env : Env := { tape := Tape.ofInput s, strict := o.strict, proceed := o.proceed }
  match (budRun 8).run { limit := o.limit } env with
  | (.error (.foreign "BUD" m), _) => some m
  | _ => none

def chkInput (s : String) : List String :=
  let l := s.toList
  (C04.suffixStarts l).filterMap fun i =>
    ((chkOne (l.drop i) {}).map (fun m => s!"[{i}] {m}")).orElse fun _ =>
      (chkOne (l.drop i) { strict := false, proceed := true }).map (fun m => s!"[{i},proceed] {m}")

def failing (l : List String) : List (String × List String) :=
  (l.map fun s => (s, chkInput s)).filter (fun p => !p.2.isEmpty)

/-- number of inputs, number of failing inputs, the first failures -/
def report (l : List String) : Nat × Nat × List (String × List String) :=
  let f := failing l
  (l.length, f.length, (f.take 5).map fun p => (p.1, (p.2.take 1).map fun m => (m.take 300).toString))

/-- the largest ratio iterations / budget seen (×100), to see how tight `16` is -/
def ratioOne (s : Str) : Nat :=
  let env : Env := { tape := Tape.ofInput s }
  match (do
      let r0 ← remOf
      let (_, k) ← runCount LR.realTables (lrHooks (fun _ _ => pure none)) 1073741824
      pure (if r0 = 0 then 0 else 100 * k / r0) : M Nat).run {} env with
  | (.ok (q, _), _) => q
  | _ => 0

def maxRatio (l : List String) : Nat := (l.map fun s => ratioOne s.toList).foldl max 0

#eval report C04.corpus
#eval report C05.TG.gapGrid
#eval report C05.TG.gapHand
#eval report C04.gridInputs
#eval maxRatio C04.corpus
#eval maxRatio ["a", "a b", "! a", "a|b", "a;b;c", "(a)", "{ a; }", "if a; then b; fi", "a>b", "a\n"]

end Bashlex.C01E.Val
