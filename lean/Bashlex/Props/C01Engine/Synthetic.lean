/-
  Termination of the LR engine loop, an UNCONDITIONAL instance: the engine on the real tables,
  driven by an ARBITRARY sequence of terminal numbers (the tape holds one character per token,
  its code is the terminal number; the end of the tape is `$end`) with trivial semantic actions,
  performs at most `16 · (number of tokens left)` iterations.  In particular the tables admit no
  infinite chain of reductions (and no cycle through default reductions) on any token sequence.
  This also shows that `HooksBudget` is satisfiable (non-vacuity of `engine_terminates`).
-/
import Bashlex.Props.C01Engine.Engine
import Bashlex.Props.C01Engine.Real
import Bashlex.Props.C10.Tape

namespace Bashlex.C01E
open Bashlex Bashlex.M Bashlex.LR Bashlex.C10
set_option linter.unusedSimpArgs false
set_option linter.unusedVariables false

/-- **the engine on the real tables, for every token source and all semantic actions**: with a
    token budget `m` (at most `m` tokens other than `$end` can still be fetched) and
    `realBound m < fuel`, the loop performs at most `realBound m + 1` iterations and
    `outOfFuel "LRParser.parse"` is not raised by the engine (`realBound m = realRk 0 + realK·m`,
    the constants of the checked certificate). -/
theorem real_engine_terminates_gen {V : Type} {H : Hooks V} {J : Nat → Local → Env → Prop}
    {E : Exn → Prop} (hH : HooksBudget realTables H J E) (fuel m : Nat)
    (hfuel : realBound m < fuel) :
    SatS (run realTables H fuel) (J m) (fun _ l e => ∃ m', J m' l e) (TermExn E) :=
  engine_terminates (R := realRaw) (wS := realW) (rk := realRk) (B := realB)
    real_check real_rankCheck realB_bound hH fuel m hfuel

/-- the same with the constant of the tables as they are: `C = 16` -/
theorem real_engine_terminates {V : Type} {H : Hooks V} {J : Nat → Local → Env → Prop}
    {E : Exn → Prop} (hH : HooksBudget realTables H J E) (fuel m : Nat) (hfuel : 16 * m < fuel) :
    SatS (run realTables H fuel) (J m) (fun _ l e => ∃ m', J m' l e) (TermExn E) :=
  real_engine_terminates_gen hH fuel m (by rw [realBound_val]; exact hfuel)

/-- a token source that reads terminal numbers off the tape; trivial actions; the error function
    raises -/
def seqHooks : Hooks Unit :=
  { next := do
      match ← getc false with
      | none => pure (0, ())
      | some c => pure (c.toNat, ())
    act := fun _ _ => pure ((), false)
    onError := fun _ => M.raise (.parsing "syntax error" [] 0)
    isNl := fun _ => false }

theorem tape_getc_false (t : Tape) :
    t.getc false (t.line.length + 1) =
      if t.idx < t.line.length then
        match t.line[t.idx]? with
        | some c => .ok (some c, { t with idx := t.idx + 1 })
        | none => .ok (none, t)
      else .ok (none, t) := by
  simp only [Tape.getc]
  split
  · cases t.line[t.idx]? with
    | none => rfl
    | some c => simp only [Bool.and_false, Bool.false_eq_true, if_false]
  · rfl

theorem putL_eol (l : Local) (t : Tape) : (putL l t).eolLookahead = l.eolLookahead := by
  unfold putL; split <;> rfl

/-- budget: the characters left on the tape -/
def SeqJ (n : Nat) (l : Local) (e : Env) : Prop :=
  l.eolLookahead = none ∧ (tapeOf l e).line.length - (tapeOf l e).idx ≤ n

def SeqE (x : Exn) : Prop := x = .parsing "syntax error" [] 0

theorem seq_budget : HooksBudget realTables seqHooks SeqJ SeqE := by
  refine ⟨?_, ?_, ?_⟩
  · intro n l e ⟨heol, hrem⟩
    have hnext : seqHooks.next = (getc false >>= fun r => match r with
        | none => pure (0, ())
        | some c => pure (c.toNat, ())) := rfl
    by_cases hlt : (tapeOf l e).idx < (tapeOf l e).line.length
    · have hsome : (tapeOf l e).line[(tapeOf l e).idx]? = some ((tapeOf l e).line[(tapeOf l e).idx]) :=
        List.getElem?_eq_getElem hlt
      have hrun : M.run seqHooks.next l e =
          (.ok ((((tapeOf l e).line[(tapeOf l e).idx]).toNat, ()),
            putL l { tapeOf l e with idx := (tapeOf l e).idx + 1 }),
            putE l e { tapeOf l e with idx := (tapeOf l e).idx + 1 }) := by
        rw [hnext, M.run_bind, run_getc false l e heol, tape_getc_false, if_pos hlt, hsome]
        rfl
      rw [hrun]
      refine ⟨n - 1, ?_, ?_, ?_⟩
      · have : tokCost realTables ((tapeOf l e).line[(tapeOf l e).idx]).toNat ≤ 1 := by
          unfold tokCost; split <;> omega
        show n - 1 + tokCost realTables ((tapeOf l e).line[(tapeOf l e).idx]).toNat ≤ n
        omega
      · rw [putL_eol]; exact heol
      · rw [tapeOf_put]; simp only []; omega
    · have hrun : M.run seqHooks.next l e =
          (.ok ((0, ()), putL l (tapeOf l e)), putE l e (tapeOf l e)) := by
        rw [hnext, M.run_bind, run_getc false l e heol, tape_getc_false, if_neg hlt]
        rfl
      rw [hrun]
      refine ⟨n, ?_, ?_, ?_⟩
      · show n + tokCost realTables 0 ≤ n
        have : tokCost realTables 0 = 0 := rfl
        omega
      · rw [putL_eol]; exact heol
      · rw [tapeOf_put]; exact hrem
  · intro p args n l e h
    exact ⟨n, Nat.le_refl _, h⟩
  · intro la n l e _
    exact rfl

/-- **for every sequence of terminals** (the rest of the tape from the cursor on) the engine on
    the real tables halts within `16 · (tokens left)` iterations: with that much fuel it returns
    or raises the syntax error of the error function — never `outOfFuel "LRParser.parse"`, never
    an internal error. -/
theorem seq_terminates (fuel : Nat) (l : Local) (e : Env) (heol : l.eolLookahead = none)
    (hfuel : 16 * ((tapeOf l e).line.length - (tapeOf l e).idx) < fuel) :
    match (run realTables seqHooks fuel).run l e with
    | (.ok _, _) => True
    | (.error x, _) => x = .parsing "syntax error" [] 0 ∨
        x = .foreign "NotModelled" "LRParser.parse(error recovery)" := by
  have h := real_engine_terminates seq_budget fuel
    ((tapeOf l e).line.length - (tapeOf l e).idx) hfuel l e ⟨heol, Nat.le_refl _⟩
  revert h
  rcases (run realTables seqHooks fuel).run l e with ⟨r, e'⟩
  cases r with
  | ok v => exact fun _ => True.intro
  | error x => exact fun h => h

/-- the same, for a list of terminal numbers given explicitly -/
theorem seq_terminates_list (w : List Nat) :
    match (run realTables seqHooks (16 * w.length + 1)).run
        { tape := some { line := w.map Char.ofNat } } default with
    | (.ok _, _) => True
    | (.error x, _) => x = .parsing "syntax error" [] 0 ∨
        x = .foreign "NotModelled" "LRParser.parse(error recovery)" := by
  refine seq_terminates _ _ _ rfl ?_
  simp [tapeOf]

end Bashlex.C01E
