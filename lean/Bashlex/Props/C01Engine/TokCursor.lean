/-
  Termination of the LR engine loop: the budget law of the REAL tokenizer, proved from the state
  invariant `TI` of C03 (`Props/C03/TokSpans.lean`) and the character-level statements of C05
  (`tokGaps_next`, `tokGaps_gather`).

  `rem l e = |line| - cursor` (truncated).  From every state satisfying `TI len f` (`len+1 < 2^30`):
    * `next_budget`:   `token()` pays: `rem' + cost(t) ≤ rem`, `cost(EOF) = 0`, `cost(other) = 1`;
    * `gather_budget`: `gatherheredocuments` does not raise it: `rem' ≤ rem`.
  With the index trick `TIb n len f l e := TI len f l e ∧ (len+1 < 2^30 → rem l e ≤ n)`:
    * `tokAct_TIb`: everything the parser does to the parser object besides `token()` keeps `TIb n`
      (C03's `TokAct`, hence `act_spans` / `wordContract_act` apply to it),
    * `next_TIb`: `token()` takes `TIb n len f` to `TIb n' len b` with `n' + cost(t) ≤ n`.
  This is the tokenizer half of the hypothesis `TokBudget` (`Props/C01Engine.lean`) in the form
  `engine_terminates_ord` consumes (`SI n := C03.SI (TIb n) len`).  What is NOT done: the
  init-free restatement of C03's `spans_hooks` for the family, the exception discipline of the
  semantic actions without the fuel marker, and "a nested parser runs on a shorter string".
-/
import Bashlex.Props.C05.TokGapsProof
import Bashlex.Props.C01Engine.EngineOrd

namespace Bashlex.C01E
open Bashlex Bashlex.M Bashlex.C10 Bashlex.C11 Bashlex.C03 Bashlex.C03.Tok Bashlex.C05 Bashlex.C05.TG
set_option linter.unusedSimpArgs false
set_option linter.unusedVariables false

/-- the characters left on the tape -/
def rem (l : Local) (e : Env) : Nat := (tapeOf l e).line.length - (tapeOf l e).idx

/-- what a token costs -/
def tokCostT (t : Token) : Nat := if t.ttype = some .EOF then 0 else 1

theorem tokCostT_le (t : Token) : tokCostT t ≤ 1 := by unfold tokCostT; split <;> omega

theorem tokCostT_eof : tokCostT eofTok = 0 := rfl

/-- **`token()` pays for every token other than EOF** -/
theorem next_budget (len f : Nat) (l0 : Local) (e0 : Env) (hti : TI len f l0 e0)
    (hlen : len + 1 < 1073741824) :
    SatS nextToken (fun l e => l = l0 ∧ e = e0)
      (fun t l e => rem l e + tokCostT t ≤ rem l0 e0) := by
  obtain ⟨L, ⟨hK, hnl⟩, hp, hc⟩ := hti
  rcases hc with hc | hc
  · obtain ⟨a1, a2, a3, a4, a5, a6, a7⟩ := hc
    refine satS_of_ht (HT.weaken (tokGaps_next (L := L) (sr := l0.store) (rk := l0.redirstack)
      (i0 := (tapeOf l0 e0).idx) hnl (lastNL_of_nl hnl) (by omega) hp.1 a2) ?_ ?_ (fun _ h => h))
    · rintro l e ⟨rfl, rfl⟩
      exact ⟨⟨a1, rfl, a2, a3, a4⟩, rfl, rfl⟩
    · intro t l e h
      obtain ⟨g1, _, _, hcase⟩ := h
      unfold rem
      rw [g1, a1]
      rcases hcase with ⟨rfl, _, hidx⟩ | ⟨a, hpos, hak, hsk, hty⟩
      · rw [hidx, tokCostT_eof]; omega
      · have hle := hsk.le
        have hcost := tokCostT_le t
        have haL : a < L.length := by
          rcases hty with ⟨_, hLa, _⟩ | ⟨_, hidx⟩
          · exact (List.getElem?_eq_some_iff.mp hLa).1
          · omega
        omega
  · refine satS_of_ht (HT.weaken (nextToken_dead (L := L) (sr := l0.store) (rk := l0.redirstack))
      ?_ ?_ (fun _ h => h))
    · rintro l e ⟨rfl, rfl⟩; exact ⟨hc, rfl, rfl⟩
    · rintro t l e ⟨rfl, hd, _, _⟩
      unfold rem
      have h1 := hd.1
      have h2 := hd.2.1
      rw [h1, tokCostT_eof]
      omega

/-- **`gatherheredocuments` does not move the cursor back** (from a state satisfying `TI`) -/
theorem gather_budget (len f : Nat) (l0 : Local) (e0 : Env) (hti : TI len f l0 e0)
    (hlen : len + 1 < 1073741824) :
    SatS gatherheredocuments (fun l e => l = l0 ∧ e = e0)
      (fun _ l e => rem l e ≤ rem l0 e0) := by
  refine (gather_raw len f l0 e0 hti hlen).post ?_
  intro _ l e h
  unfold rem
  rcases h with ⟨g1, _, _, g4, _⟩ | ⟨⟨h1, h2⟩, h3, _⟩
  · rw [g1]; omega
  · rw [h3]; omega

/-- the tokenizer invariant of C03 with a budget -/
def TIb (n : Nat) (len f : Nat) (l : Local) (e : Env) : Prop :=
  TI len f l e ∧ (len + 1 < 1073741824 → rem l e ≤ n)

theorem rem_env {l : Local} {e e' : Env} (h : e'.tape = e.tape) : rem l e' = rem l e := by
  unfold rem; rw [tapeOf_env h]

/-- **everything the parser does besides `token()` keeps `TIb n`** -/
theorem tokAct_TIb (n : Nat) : TokAct (TIb n) := by
  refine ⟨?_, ?_, ?_, ?_⟩
  · intro len f st
    refine SatS.intro_state (fun l0 e0 h0 => ?_)
    obtain ⟨⟨hti, hb⟩, hst⟩ := h0
    have hA : SatS gatherheredocuments (fun l e => l = l0 ∧ e = e0)
        (fun _ l e => TI len f l e ∧ StoreStep len f true st l.store) :=
      (tokSpans.gather len f st).pre (by rintro l e ⟨rfl, rfl⟩; exact ⟨hti, hst⟩)
    by_cases hlen : len + 1 < 1073741824
    · refine (SatS.and hA (gather_budget len f l0 e0 hti hlen)).post ?_
      rintro _ l e ⟨⟨h1, h2⟩, h3⟩
      exact ⟨⟨h1, fun _ => Nat.le_trans h3 (hb hlen)⟩, h2⟩
    · refine hA.post ?_
      rintro _ l e ⟨h1, h2⟩
      exact ⟨⟨h1, fun h => absurd h hlen⟩, h2⟩
  · rintro len f l e cell kill ⟨hti, hb⟩ h1 h2 h3
    exact ⟨tokSpans.queue len f l e cell kill hti h1 h2 h3, hb⟩
  · rintro len f l e ps ⟨hti, hb⟩
    exact ⟨tokSpans.ps len f l e ps hti, hb⟩
  · intro d len f st s b
    intro l e ⟨⟨hti, hb⟩, hst⟩
    rw [run_npOf]
    rcases hr : M.run (parserRun d) (nestedLocal l s b) e with ⟨r, e'⟩
    cases r with
    | error x => exact True.intro
    | ok v =>
      obtain ⟨r, l'⟩ := v
      have hE := C16.nestedEnv_thm d (nestedLocal l s b) e r l' e' rfl rfl hr
      refine ⟨⟨(tokSpans_ps len f l e l'.ps hti).env hE.1.symm hE.2.1.symm, fun hlen => ?_⟩, hst⟩
      have : rem { l with ps := l'.ps } e' = rem l e := by
        rw [rem_env hE.1.symm]; rfl
      rw [this]; exact hb hlen

/-- **`token()` moves along the family**: from `TIb n len f` to `TIb n' len b` with
    `n' + cost(t) ≤ n` (for inputs below the model's loop fuel) -/
theorem next_TIb (n len f : Nat) (st : List RedirCell) (hlen : len + 1 < 1073741824) :
    SatS nextToken (fun l e => TIb n len f l e ∧ l.store = st)
      (fun t l e => ∃ a b, f ≤ a ∧ TokAt len t a b ∧
        (∃ n', n' + tokCostT t ≤ n ∧ TIb n' len b l e) ∧ StoreStep len f false st l.store) := by
  refine SatS.intro_state (fun l0 e0 h0 => ?_)
  obtain ⟨⟨hti, hb⟩, hst⟩ := h0
  have hA : SatS nextToken (fun l e => l = l0 ∧ e = e0)
      (fun t l e => ∃ a b, f ≤ a ∧ TokAt len t a b ∧ TI len b l e ∧
        StoreStep len f false st l.store) :=
    (tokSpans.next len f st).pre (by rintro l e ⟨rfl, rfl⟩; exact ⟨hti, hst⟩)
  refine (SatS.and hA (next_budget len f l0 e0 hti hlen)).post ?_
  rintro t l e ⟨⟨a, b, h1, h2, h3, h4⟩, h5⟩
  have hb0 := hb hlen
  refine ⟨a, b, h1, h2, ⟨rem l e, by omega, h3, fun _ => Nat.le_refl _⟩, h4⟩

end Bashlex.C01E

#print axioms Bashlex.C01E.next_budget
#print axioms Bashlex.C01E.gather_budget
#print axioms Bashlex.C01E.tokAct_TIb
#print axioms Bashlex.C01E.next_TIb
