/-
  Termination of the LR engine loop: the lift to `parserRun` (every nesting depth), for the REAL
  token source and the REAL semantic actions.

  Hypotheses (both named, both about existing objects):
    * `C03.RootEnds` — the hypothesis C03/C05 already carry (needed by C03's span invariant
      for the nested parser's contract);
    * `TokValLen` — `token()`, called in a state satisfying C03's tokenizer invariant `TI len f`,
      delivers a token whose value is at most `len + 1` characters long (a consequence of the
      token-text relation `C04.tokText`: `a + |v| ≤ |line|`; not derived here because `C04.tokText`
      is stated for C11's invariant `Good`, not for `TI`).
  From them: the stack invariant `SIv n` = C03's `SI` for the budgeted tokenizer invariant `TIb n`
  plus "every token on the stack has a value of at most `len+1` characters" is closed under the
  engine's moves with exceptions in `AE (len+1) np` (`act_exn`: a semantic action raises the
  engine's fuel marker only if the nested parser does on a string SHORTER than a token value),
  hence `engine_terminates_ord` applies at every depth and the induction on the depth closes:
  **`parserRun_noLRFuel_rootEnds`**.
-/
import Bashlex.Props.C01Engine.RealOrd
import Bashlex.Props.C01Engine.ActExn

namespace Bashlex.C01E
open Bashlex Bashlex.Spec Bashlex.Node Bashlex.M Bashlex.LR Bashlex.C12 Bashlex.C03 Bashlex.C10
  Bashlex.C01
set_option linter.unusedSimpArgs false
set_option linter.unusedVariables false

/-- **hypothesis on the token source**: the value of a delivered token fits into the line -/
def TokValLen : Prop :=
  ∀ len f l0 e0, TI len f l0 e0 → len + 1 < 1073741824 →
    SatS nextToken (fun l e => l = l0 ∧ e = e0) (fun t _ _ => t.valueStr.length ≤ len + 1)

/-! ## no non-terminal holds a token -/

def isTokSort : Srt → Bool
  | .tok _ => true
  | _ => false

theorem lhs_not_tok : Gen.prodTable.all (fun pr => !isTokSort (sortOfSymbol pr.1)) = true := by
  decide +kernel

theorem hasSort_not_tok {σ : Srt} {t : Token} (hσ : isTokSort σ = false)
    (h : HasSort σ (.tok t)) : False := by
  cases σ with
  | tok ty => simp [isTokSort] at hσ
  | none => simp [HasSort] at h
  | node c => obtain ⟨n, hn, _⟩ := h; cases hn
  | optNode c =>
    rcases h with h | ⟨n, hn, _⟩
    · cases h
    · cases hn
  | nodes k => obtain ⟨l, hl, _⟩ := h; cases hl

theorem vi_lhs_not_tok {p lhs : Nat} {rhs : List Nat} (hp : realTables.prods[p]? = some (lhs, rhs))
    {v : SVal} (hv : VI lhs v) : ∀ t, v ≠ .tok t := by
  intro t hvt
  subst hvt
  have hp' : Gen.prodTable[p]? = some (lhs, rhs) := hp
  have hmem := List.mem_of_getElem? hp'
  have := List.all_eq_true.mp lhs_not_tok _ hmem
  simp only [Bool.not_eq_true'] at this
  exact hasSort_not_tok this hv

/-! ## token values on the stack -/

/-- every token among the values (and the look-ahead) has a value of at most `Bd` characters -/
@[reducible] def TokLens (Bd : Nat) (vs : List (Nat × SVal)) (la : Option (Nat × SVal)) : Prop :=
  (∀ x ∈ vs, ∀ t, x.2 = .tok t → t.valueStr.length ≤ Bd) ∧
  (∀ x, la = some x → ∀ t, x.2 = .tok t → t.valueStr.length ≤ Bd)

theorem argsBound_le {Bd : Nat} : ∀ {args : List SVal},
    (∀ v ∈ args, ∀ t, v = .tok t → t.valueStr.length ≤ Bd) → argsBound args ≤ Bd
  | [], _ => Nat.zero_le _
  | a :: rest, h => by
    have ih := argsBound_le (args := rest) (fun v hv => h v (List.mem_cons_of_mem _ hv))
    cases a with
    | tok t =>
      simp only [argsBound]
      have := h (.tok t) List.mem_cons_self t rfl
      omega
    | none => simpa only [argsBound] using ih
    | node n => simpa only [argsBound] using ih
    | nodes l => simpa only [argsBound] using ih

/-- the stack invariant: C03's, for the budgeted tokenizer invariant, plus bounded token values -/
@[reducible] def SIv (TIn : Nat → Nat → Nat → Local → Env → Prop) (len n : Nat)
    (vs : List (Nat × SVal)) (la : Option (Nat × SVal)) (l : Local) (e : Env) : Prop :=
  SI (TIn n) len vs la l e ∧ TokLens (len + 1) vs la

/-- the value of a token delivered from a state of the family fits into the line -/
def FamValLen (TIn : Nat → Nat → Nat → Local → Env → Prop) (len : Nat) : Prop :=
  ∀ n F l0 e0, TIn n len F l0 e0 →
    SatS nextToken (fun l e => l = l0 ∧ e = e0) (fun t _ _ => t.valueStr.length ≤ len + 1)

theorem famValLen_TIb (hVL : TokValLen) (len : Nat) (hlen : len + 1 < 1073741824) :
    FamValLen TIb len := fun n F l0 e0 h => hVL len F l0 e0 h.1 hlen

theorem satS_with_pure {α : Type} {m : M α} {P : Local → Env → Prop}
    {Q : α → Local → Env → Prop} {E : Exn → Prop} {C : Prop} (h : SatS m P Q E) :
    SatS m (fun l e => P l e ∧ C) (fun a l e => Q a l e ∧ C) E := by
  intro l e ⟨hp, hc⟩
  have := h l e hp
  revert this
  rcases m.run l e with ⟨r, e'⟩
  cases r with
  | ok v => exact fun h => ⟨h, hc⟩
  | error x => exact fun h => h

theorem nextTok_exn {B : Nat} {np : NestedParse} :
    Sat (lrHooks np).next (fun _ => True) (AE B np) := by
  show Sat (nextToken >>= fun t => pure (symOfTok t, SVal.tok t)) _ _
  exact sat_bindE (asat_of_tok tok_nextToken) (fun _ => Sat.pure True.intro)

theorem pError_ae {B : Nat} {np : NestedParse} (t : Token) :
    Sat (pError t) (fun _ => True) (AE B np) := by
  unfold pError
  refine sat_bindN noExn_tapeSource (fun src => ?_)
  split
  · exact Sat.raise ae_mkParsingError
  · exact Sat.raise ae_mkParsingError

theorem onError_ae {B : Nat} {np : NestedParse} (la : Nat × SVal) :
    Sat ((lrHooks np).onError la) (fun _ => True) (AE B np) := by
  obtain ⟨sym, v⟩ := la
  show Sat (match v with
    | .tok t => pError t
    | _ => M.foreign "AssertionError" "p_error") _ _
  split
  · exact pError_ae _
  · exact Sat.foreign (Or.inl (by intro h; cases h))

/-- the look-ahead `token()` delivers from a state satisfying the stack invariant has a bounded
    value -/
theorem next_vlen {TIn : Nat → Nat → Nat → Local → Env → Prop} {len n : Nat}
    (hVL : FamValLen TIn len) {np : NestedParse} (vs : List (Nat × SVal)) :
    SatS (lrHooks np).next (SI (TIn n) len vs none)
      (fun la _ _ => ∀ t, la.2 = .tok t → t.valueStr.length ≤ len + 1) := by
  refine SatS.intro_state ?_
  rintro l0 e0 ⟨⟨g, F, _, _, hti, _⟩, _⟩
  show SatS (nextToken >>= fun t => pure (symOfTok t, SVal.tok t)) _ _
  refine SatS.bind (hVL n F l0 e0 hti) (fun t => SatS.pure ?_)
  intro l e ht t' ht'
  cases ht'
  exact ht

/-- **the hooks of the real parser: budget-indexed closure with bounded token values, and
    exceptions in `AE (len+1)`** -/
theorem real_hooksOrdB_v {TIn : Nat → Nat → Nat → Local → Env → Prop} {len : Nat}
    (hR : RootEnds) (hF : BudFam TIn len) (hVL : FamValLen TIn len) (d : Nat) :
    HooksOrdT realTables (lrHooks (npOf (parserRun d))) (SIv TIn len) (Fin len)
      (AE (len + 1) (npOf (parserRun d))) := by
  have hbase := real_hooksOrdB_fam hR hF d
  refine ⟨fun n => ⟨?_, ?_, ?_, ?_, ?_, fun la => onError_ae la⟩, fun n vs => ?_⟩
  · -- next (same budget)
    intro vs
    refine satS_exn ?_ nextTok_exn
    have h1 := satS_with_pure (C := TokLens (len + 1) vs none) ((hbase.ord n).next vs)
    have h2 := (next_vlen (n := n) hVL (np := npOf (parserRun d)) vs).pre
      (P' := fun l e => SI (TIn n) len vs none l e ∧ TokLens (len + 1) vs none) (fun _ _ h => h.1)
    refine (SatS.and h1 h2).post ?_
    rintro la l e ⟨⟨hsi, htl⟩, hv⟩
    exact ⟨hsi, ⟨htl.1, fun x hx t ht => by cases hx; exact hv t ht⟩⟩
  · -- shift
    rintro vs la l e ⟨hsi, htl⟩
    refine ⟨(hbase.ord n).shift vs la l e hsi, ⟨?_, fun x hx => by cases hx⟩⟩
    intro x hx t ht
    rcases List.mem_append.mp hx with hx | hx
    · exact htl.1 x hx t ht
    · simp only [List.mem_singleton] at hx; subst hx; exact htl.2 _ rfl t ht
  · -- a NEWLINE dropped in state 0
    rintro la l e ⟨hsi, htl⟩
    exact ⟨(hbase.ord n).shiftNl la l e hsi, ⟨(fun x hx => by cases hx), (fun x hx => by cases hx)⟩⟩
  · -- the semantic actions
    intro p lhs rhs rest args la hprod hargs hrest hla
    have hb := (hbase.ord n).act p lhs rhs rest args la hprod hargs hrest hla
    rw [lrHooks_act] at hb ⊢
    -- exceptions: from the (pure) bound on the token values among the arguments
    refine SatS.pre (P := fun l e => TokLens (len + 1) (rest ++ args) la ∧
      SI (TIn n) len (rest ++ args) la l e) ?_ (fun l e h => ⟨h.2, h.1⟩)
    refine SatS.assume (fun htl => ?_)
    have hex : Sat (action (npOf (parserRun d)) (fn p) (args.map (·.2))) (fun _ => True)
        (AE (len + 1) (npOf (parserRun d))) := by
      have hle : argsBound (args.map (·.2)) ≤ len + 1 := by
        refine argsBound_le ?_
        intro v hv t hvt
        obtain ⟨x, hx, rfl⟩ := List.mem_map.mp hv
        exact htl.1 x (List.mem_append_right _ hx) t hvt
      have hex0 := act_exn (np := npOf (parserRun d)) (fn p) (args.map (·.2))
      exact Sat.weaken hex0 (fun _ h => h) (fun x hx => AE.mono hx hle)
    refine (satS_exn hb hex).post ?_
    intro r l e h1
    by_cases hacc : r.2 = true
    · simp only [hacc, if_true] at h1 ⊢; exact h1
    · simp only [hacc, if_false] at h1 ⊢
      refine ⟨h1, ⟨?_, htl.2⟩⟩
      intro x hx t ht
      rcases List.mem_append.mp hx with hx | hx
      · exact htl.1 x (List.mem_append_left _ hx) t ht
      · simp only [List.mem_singleton] at hx
        subst hx
        have hvi : VI lhs r.1 := h1.2.1 (lhs, r.1) (by simp)
        exact absurd ht (vi_lhs_not_tok hprod hvi t)
  · -- the `accept` entry
    rintro vs x la l e ⟨hsi, _⟩
    exact (hbase.ord n).accept vs x la l e hsi
  · -- next along the family
    refine satS_exn ?_ nextTok_exn
    have h1 := satS_with_pure (C := TokLens (len + 1) vs none) (hbase.next n vs)
    have h2 := (next_vlen (n := n) hVL (np := npOf (parserRun d)) vs).pre
      (P' := fun l e => SI (TIn n) len vs none l e ∧ TokLens (len + 1) vs none) (fun _ _ h => h.1)
    refine (SatS.and h1 h2).post ?_
    rintro la l e ⟨⟨⟨n', hn', hsi⟩, htl⟩, hv⟩
    exact ⟨n', hn', hsi, ⟨htl.1, fun x hx t ht => by cases hx; exact hv t ht⟩⟩

/-- **no parser run (top-level or nested, any nesting fuel) over an input `s` with
    `realBound (|s|+1) < 2^30` (= `16·(|s|+1)`, `realBound_val`) raises `outOfFuel "LRParser.parse"`** — for the real tokenizer and the
    real semantic actions, under `RootEnds` and `TokValLen` -/
theorem parserRun_noLRFuel_rootEnds (hR : RootEnds) (hVL : TokValLen) :
    ∀ d s, realBound (s.length + 1) < 1073741824 →
      SatS (parserRun d) (InitState s) (fun _ _ _ => True) NoLRFuel := by
  intro d
  induction d with
  | zero => intro s _; exact SatS.raise (noLRFuel_site (by decide))
  | succ d ih =>
    intro s hs
    rw [parserRun_succ]
    have hlen : s.length + 1 < 1073741824 := Nat.lt_of_le_of_lt (le_realBound _) hs
    have hH := real_hooksOrdB_v hR (budFam_TIb s.length hlen) (famValLen_TIb hVL s.length hlen) d
    have hrun := engine_terminates_ord (R := realRaw) (wS := realW) (rk := realRk) (B := realB)
      real_check real_rankCheck realB_bound hH 1073741824 (s.length + 1)
      hs
    -- exceptions of the engine run: not the marker
    have hexn : ∀ x, TermExn (AE (s.length + 1) (npOf (parserRun d))) x → NoLRFuel x := by
      rintro x ((hx | ⟨s', b, l, e, e', hlt, hr⟩) | hx)
      · exact hx
      · rw [run_npOf] at hr
        have hin := ih s' (Nat.lt_of_le_of_lt (realBound_mono (by omega)) hs) (C11.nestedLocal l s' b) e ⟨rfl, rfl, rfl, rfl, Or.inl rfl⟩
        rcases hr2 : M.run (parserRun d) (C11.nestedLocal l s' b) e with ⟨r, e2⟩
        rw [hr2] at hr hin
        cases r with
        | ok v => obtain ⟨r, l'⟩ := v; simp only [] at hr; cases hr
        | error y =>
          simp only [] at hr
          cases hr
          exact hin
      · rw [hx]; intro h; cases h
    refine SatS.bind (Q := fun _ _ _ => True) (SatS.weaken hrun ?_ (fun _ _ _ _ => True.intro) hexn)
      (fun res => ?_)
    · intro l e hinit
      refine ⟨⟨⟨0, 0, Nat.le_refl 0, Nat.le_refl 0,
        ⟨tokSpans.init s l e hinit, fun _ => rem_init hinit⟩, ?_⟩, ?_, ?_⟩, ?_, ?_⟩
      · intro x hx; cases hx
      · intro x hx; cases hx
      · intro x hx; cases hx
      · intro x hx; cases hx
      · intro x hx; cases hx
    · refine SatS.of_sat (sat_bindN noExn_get (fun l => ?_)) _
      split <;> exact Sat.pure trivial

end Bashlex.C01E

#print axioms Bashlex.C01E.act_exn
#print axioms Bashlex.C01E.real_hooksOrdB_v
#print axioms Bashlex.C01E.parserRun_noLRFuel_rootEnds
