/-
  Termination of the LR engine loop: the REAL hooks satisfy the budget-indexed relational closure
  `HooksOrdT` (`EngineOrd.lean`), conditional on C03's hypothesis `RootEnds` (which C03 needs for
  the span contract of nested parsers).

    * `spans_hooks_core`: C03's `spans_hooks` without `TokSpans.init` (same proof; it only uses
      `next` and `act`), so that it applies to the family `TIb n` (`TokCursor.lean`), whose
      members with a small `n` do not hold of a fresh parser object;
    * `spans_next_shift`: the `next` move along the family;
    * `real_hooksOrdB`: `HooksOrdT realTables (lrHooks (npOf (parserRun d))) (SI (TIb ·) len) …`;
    * **`real_run_terminates_rootEnds`**: the engine loop of every parser run (every depth) over
      an input `s` with `realBound (|s|+1) < 2^30` (= `16·(|s|+1)`, `realBound_val`) — started from a fresh parser object — returns, or
      raises an exception its HOOKS raise (`E`), or the unmodelled error recovery: it does not run
      out of fuel by itself.
-/
import Bashlex.Props.C01Engine.TokCursor
import Bashlex.Props.C01Engine.Synthetic
import Bashlex.Props.C03

namespace Bashlex.C03
open Bashlex Bashlex.Spec Bashlex.Node Bashlex.M Bashlex.LR Bashlex.C12
set_option linter.unusedSimpArgs false
set_option linter.unusedVariables false

section
variable {TI : Nat → Nat → Local → Env → Prop} {len : Nat}

/-- `spans_hooks` without `TokSpans.init` (the proof uses `next` and `act` only) -/
theorem spans_hooks_core
    (hnext : ∀ F st, SatS nextToken (fun l e => TI len F l e ∧ l.store = st)
      (fun t l e => ∃ a b, F ≤ a ∧ TokAt len t a b ∧ TI len b l e ∧
        StoreStep len F false st l.store))
    (hact : TokAct TI) {np : NestedParse} (hnp : NPOK np)
    (hW : ∀ F st, WordSat (StP TI len F st) np len) :
    HooksOrd realTables (lrHooks np) (SI TI len) (Fin len) (fun _ => True) := by
  have hC := hooks_ok sat_nextToken hnp
  refine ⟨?_, ?_, ?_, ?_, ?_, fun la => Sat.trivial _⟩
  · -- next
    intro vs
    have h1 : SatS (lrHooks np).next (SI TI len vs none)
        (fun la l e => SIs TI len vs (some la) l e ∧ ∀ x ∈ vs, VI x.1 x.2) := by
      refine SatS.intro_state ?_
      rintro l e ⟨⟨g, F, hseg, hlain, hti, hent⟩, hvi, _⟩
      show SatS (nextToken >>= fun t => pure (symOfTok t, SVal.tok t)) _ _
      refine SatS.bind (SatS.pre (hnext F l.store) ?_) ?_
      · rintro l1 e1 ⟨rfl, rfl⟩; exact ⟨hti, rfl⟩
      · intro t
        refine SatS.pure ?_
        rintro l' e' ⟨a, b, hFa, htok, hti', hstep⟩
        refine ⟨⟨g, b, hseg, ⟨t, a, b, rfl, ?_, Nat.le_refl _, htok⟩, hti', ?_⟩, hvi⟩
        · have : g ≤ F := hlain
          omega
        · intro x hx; exact entryOK_step hstep (hent x hx)
    refine SatS.post (SatS.and_sat h1 hC.next) ?_
    rintro la l e ⟨⟨hs, hvi⟩, hla⟩
    exact ⟨hs, hvi, by intro x hx; cases hx; exact hla⟩
  · -- shift
    rintro vs la l e ⟨⟨g, F, hseg, hlain, hti, hent⟩, hvi, hvila⟩
    obtain ⟨t, a, b, rfl, hga, hbF, htok⟩ := hlain
    refine ⟨⟨F, F, Seg.append hseg (seg_single.mpr (tokAt_valIn htok hga hbF)), Nat.le_refl F, hti, ?_⟩,
      ?_, by intro x hx; cases hx⟩
    · intro x hx
      rcases List.mem_append.mp hx with hx | hx
      · exact hent x hx
      · simp only [List.mem_singleton] at hx; subst hx; exact Or.inl fresh_tok
    · intro x hx
      rcases List.mem_append.mp hx with hx | hx
      · exact hvi x hx
      · simp only [List.mem_singleton] at hx; subst hx; exact hvila _ rfl
  · -- a NEWLINE shifted in state 0 is dropped
    rintro la l e ⟨⟨g, F, hseg, hlain, hti, hent⟩, hvi, hvila⟩
    exact ⟨⟨0, F, Nat.le_refl 0, Nat.zero_le F, hti, (by intro x hx; cases hx)⟩,
      ⟨(by intro x hx; cases hx), (by intro x hx; cases hx)⟩⟩
  · -- the semantic actions
    intro p lhs rhs rest args la hprod hargs hrest hla
    rw [lrHooks_act]
    refine SatS.intro_state ?_
    rintro l0 e0 ⟨hs0, hvi, hvila⟩
    have hvargs : ∀ x ∈ args, VI x.1 x.2 := fun x hx => hvi x (List.mem_append_right _ hx)
    have hvrest : ∀ x ∈ rest, VI x.1 x.2 := fun x hx => hvi x (List.mem_append_left _ hx)
    have hF2 : Forall2 VI rhs (args.map (·.2)) := by rw [← hargs]; exact forall2_vi args hvargs
    have hCact := hC.act p lhs rhs _ hprod hF2
    -- the grammar obligation of C12: the action is well-sorted
    have hp' : Gen.prodTable[p]? = some (lhs, rhs) := hprod
    have hlt : p < Gen.prodFuncs.length := by
      rw [prodFuncs_length]; exact (List.getElem?_eq_some_iff.mp hp').1
    have hfn : Gen.prodFuncs[p]? = some (fn p) := by
      simp [fn, List.getD_eq_getElem?_getD, List.getElem?_eq_getElem hlt]
    have hz : (List.zip Gen.prodFuncs Gen.prodTable)[p]? = some (fn p, (lhs, rhs)) :=
      List.getElem?_zip_eq_some.mpr ⟨hfn, hp'⟩
    have hg := grammar_ok
    unfold grammarCheck at hg
    have hthis := List.all_eq_true.mp hg _ (List.mem_of_getElem? hz)
    simp only [Bool.or_eq_true, beq_iff_eq] at hthis
    rcases hthis with he | hab
    · rw [he]
      exact SatS.weaken (SatS.of_sat action_unknown _) (fun _ _ _ => trivial)
        (fun _ _ _ h => h.elim) (fun _ h => h)
    · have hspan := satS_action_of_core (act_spans (len := len) hact hW hprod hargs hrest hla hab
        (forall2_hasSort_of_vi hF2))
      refine SatS.weaken (SatS.and_sat hspan
        (hCact.weaken (fun _ h => h.1) (fun _ _ => trivial))) ?_ ?_ (fun _ h => h)
      · rintro l e ⟨rfl, rfl⟩; exact hs0
      · rintro r l e ⟨hpost, hvr⟩
        unfold PostS at hpost
        by_cases hacc : r.2 = true
        · simp only [hacc, if_true] at hpost ⊢
          exact hpost
        · simp only [hacc, if_false] at hpost ⊢
          refine ⟨hpost, ?_, hvila⟩
          intro x hx
          rcases List.mem_append.mp hx with hx | hx
          · exact hvrest x hx
          · simp only [List.mem_singleton] at hx; subst hx; exact hvr
  · -- the `accept` entry
    rintro vs x la l e ⟨⟨g, F, hseg, hlain, hti, hent⟩, _⟩
    obtain ⟨m, _, hx⟩ := Seg.split hseg
    obtain ⟨sym, v⟩ := x
    exact fin_of_entry (seg_single.mp hx) (hent (sym, v) (by simp))

end

/-- the `next` move along a budget-indexed family of tokenizer invariants -/
theorem spans_next_shift {TIn : Nat → Nat → Nat → Local → Env → Prop} {len : Nat} (n : Nat)
    (cost : Token → Nat)
    (hnext : ∀ F st, SatS nextToken (fun l e => TIn n len F l e ∧ l.store = st)
      (fun t l e => ∃ a b, F ≤ a ∧ TokAt len t a b ∧
        (∃ n', n' + cost t ≤ n ∧ TIn n' len b l e) ∧ StoreStep len F false st l.store))
    {np : NestedParse} (hnp : NPOK np) (vs : List (Nat × SVal)) :
    SatS (lrHooks np).next (SI (TIn n) len vs none)
      (fun la l e => ∃ n' t, la = (symOfTok t, SVal.tok t) ∧ n' + cost t ≤ n ∧
        SI (TIn n') len vs (some la) l e) := by
  have hC := hooks_ok sat_nextToken hnp
  have h1 : SatS (lrHooks np).next (SI (TIn n) len vs none)
      (fun la l e => ∃ n' t, la = (symOfTok t, SVal.tok t) ∧ n' + cost t ≤ n ∧
        SIs (TIn n') len vs (some la) l e ∧ ∀ x ∈ vs, VI x.1 x.2) := by
    refine SatS.intro_state ?_
    rintro l e ⟨⟨g, F, hseg, hlain, hti, hent⟩, hvi, _⟩
    show SatS (nextToken >>= fun t => pure (symOfTok t, SVal.tok t)) _ _
    refine SatS.bind (SatS.pre (hnext F l.store) ?_) ?_
    · rintro l1 e1 ⟨rfl, rfl⟩; exact ⟨hti, rfl⟩
    · intro t
      refine SatS.pure ?_
      rintro l' e' ⟨a, b, hFa, htok, ⟨n', hn', hti'⟩, hstep⟩
      refine ⟨n', t, rfl, hn', ⟨g, b, hseg, ⟨t, a, b, rfl, ?_, Nat.le_refl _, htok⟩, hti', ?_⟩, hvi⟩
      · have : g ≤ F := hlain
        omega
      · intro x hx; exact entryOK_step hstep (hent x hx)
  refine SatS.post (SatS.and_sat h1 hC.next) ?_
  rintro la l e ⟨⟨n', t, hla', hn', hs, hvi⟩, hla⟩
  exact ⟨n', t, hla', hn', hs, hvi, by intro x hx; cases hx; exact hla⟩

end Bashlex.C03

namespace Bashlex.C01E
open Bashlex Bashlex.Spec Bashlex.Node Bashlex.M Bashlex.LR Bashlex.C12 Bashlex.C03 Bashlex.C10
set_option linter.unusedSimpArgs false
set_option linter.unusedVariables false

/-! ## symbols and costs -/

theorem sym_eq_zeroT (ty : TokType) : ty.sym = 0 ↔ ty = .EOF := by
  unfold TokType.sym
  constructor
  · intro h
    split at h
    · assumption
    · omega
  · intro h; rw [if_pos h]

theorem symOfTok_eq_zeroT (t : Token) : symOfTok t = 0 ↔ t.ttype = some .EOF := by
  unfold symOfTok
  cases hty : t.ttype with
  | none => simp
  | some ty =>
    simp only [Option.some.injEq]
    exact sym_eq_zeroT ty

theorem tokCost_symT (t : Token) : tokCost realTables (symOfTok t) = tokCostT t := by
  have hend : realTables.endTok = 0 := rfl
  unfold tokCost tokCostT
  rw [hend]
  by_cases h : t.ttype = some .EOF
  · rw [if_pos ((symOfTok_eq_zeroT t).mpr h), if_pos h]
  · rw [if_neg (fun h' => h ((symOfTok_eq_zeroT t).mp h')), if_neg h]

theorem TIb.mono {n n' len f : Nat} {l : Local} {e : Env} (h : TIb n' len f l e) (hn : n' ≤ n) :
    TIb n len f l e := ⟨h.1, fun hlen => Nat.le_trans (h.2 hlen) hn⟩

/-! ## exceptions of the hooks, semantically -/

/-- an exception some call of a hook raises (in some state) -/
def HookExn {V : Type} (H : Hooks V) (x : Exn) : Prop :=
  (∃ l e e', H.next.run l e = (.error x, e')) ∨
  (∃ p args l e e', (H.act p args).run l e = (.error x, e')) ∨
  (∃ la l e e', (H.onError la).run l e = (.error x, e'))

/-- the post-condition from one proof, the exception discipline from a state-agnostic one -/
theorem satS_exn {α : Type} {m : M α} {P : Local → Env → Prop} {Q : α → Local → Env → Prop}
    {E : Exn → Prop} (h1 : SatS m P Q (fun _ => True)) (h2 : Sat m (fun _ => True) E) :
    SatS m P Q E := by
  intro l e hp
  have a1 := h1 l e hp
  have a2 := h2 l e
  rcases hr : m.run l e with ⟨r, e'⟩
  rw [hr] at a1 a2
  cases r with
  | ok v => exact a1
  | error x => exact a2

theorem sat_of_run {α : Type} {m : M α} {E : Exn → Prop}
    (h : ∀ l e x e', m.run l e = (.error x, e') → E x) : Sat m (fun _ => True) E := by
  intro l e
  rcases hr : m.run l e with ⟨r, e'⟩
  cases r with
  | ok v => exact True.intro
  | error x => exact h l e x e' hr

/-- a closure proved without looking at exceptions holds with the exceptions the hooks raise -/
theorem hooksOrdB_hookExn {V : Type} {T : Tables} {H : Hooks V}
    {SI : Nat → List (Nat × V) → Option (Nat × V) → Local → Env → Prop}
    {Fin : V → Local → Env → Prop} (h : HooksOrdT T H SI Fin (fun _ => True)) :
    HooksOrdT T H SI Fin (HookExn H) := by
  refine ⟨fun n => ⟨?_, (h.ord n).shift, (h.ord n).shiftNl, ?_, (h.ord n).accept, ?_⟩, ?_⟩
  · intro vs
    exact satS_exn ((h.ord n).next vs) (sat_of_run (fun l e x e' hr => Or.inl ⟨l, e, e', hr⟩))
  · intro p lhs rhs rest args la h1 h2 h3 h4
    exact satS_exn ((h.ord n).act p lhs rhs rest args la h1 h2 h3 h4)
      (sat_of_run (fun l e x e' hr => Or.inr (Or.inl ⟨p, _, l, e, e', hr⟩)))
  · intro la
    exact sat_of_run (fun l e x e' hr => Or.inr (Or.inr ⟨la, l, e, e', hr⟩))
  · intro n vs
    exact satS_exn (h.next n vs) (sat_of_run (fun l e x e' hr => Or.inl ⟨l, e, e', hr⟩))

/-! ## the real hooks -/

/-- a budget-indexed family of tokenizer invariants (at a fixed input length `len`) -/
structure BudFam (TIn : Nat → Nat → Nat → Local → Env → Prop) (len : Nat) : Prop where
  /-- everything the parser does besides `token()` keeps every member -/
  act : ∀ n, TokAct (TIn n)
  /-- `token()` moves along the family and pays for the token -/
  next : ∀ n F st, SatS nextToken (fun l e => TIn n len F l e ∧ l.store = st)
    (fun t l e => ∃ a b, F ≤ a ∧ TokAt len t a b ∧
      (∃ n', n' + tokCostT t ≤ n ∧ TIn n' len b l e) ∧ StoreStep len F false st l.store)
  mono : ∀ n n' f l e, TIn n' len f l e → n' ≤ n → TIn n len f l e

/-- the family `TIb` -/
theorem budFam_TIb (len : Nat) (hlen : len + 1 < 1073741824) : BudFam TIb len :=
  ⟨tokAct_TIb, fun n F st => next_TIb n len F st hlen, fun n n' f l e h hn => h.mono hn⟩

/-- the contract of the nested parser for a tokenizer invariant the parser keeps
    (`C03.npSpans_npOf`, same proof) -/
theorem npSpans_fam {TI' : Nat → Nat → Local → Env → Prop} (hact : TokAct TI') (hR : RootEnds)
    (d : Nat) : NPSpans TI' (npOf (parserRun d)) := by
  intro s b len F st
  have h1 := hact.nested d len F st s b
  have ih := parserRun_spans tokSpans hR (wordContract tokSpans) d
  have h2 := npOf_result (b := b)
    (Φ := fun r => (∀ m, r = some m → TopOK s.length m) ∧ (∀ m, r = some m → RootEndOK s m))
    (SatS.and (ih s) (hR d s))
  refine SatS.post (SatS.and h1 (SatS.pre h2 (fun _ _ _ => trivial))) ?_
  rintro r l e ⟨hp, h3⟩
  exact ⟨hp, fun m hm => ⟨h3.1 m hm, h3.2 m hm⟩⟩

/-- **the hooks of the real parser satisfy the budget-indexed closure** (under `RootEnds`), for
    every budget-indexed family of tokenizer invariants -/
theorem real_hooksOrdB_fam {TIn : Nat → Nat → Nat → Local → Env → Prop} {len : Nat}
    (hR : RootEnds) (hF : BudFam TIn len) (d : Nat) :
    HooksOrdT realTables (lrHooks (npOf (parserRun d))) (fun n => SI (TIn n) len) (Fin len)
      (fun _ => True) := by
  refine ⟨fun n => ?_, fun n vs => ?_⟩
  · refine spans_hooks_core (fun F st => ?_) (hF.act n) (npok_npOf d)
      (wordContract_act (hF.act n) _ (npSpans_fam (hF.act n) hR d) len)
    refine (hF.next n F st).post ?_
    rintro t l e ⟨a, b, h1, h2, ⟨n', hn', h3⟩, h4⟩
    exact ⟨a, b, h1, h2, hF.mono n n' b l e h3 (by omega), h4⟩
  · refine (spans_next_shift (TIn := TIn) n tokCostT (hF.next n) (npok_npOf d) vs).post ?_
    rintro la l e ⟨n', t, rfl, hn', hsi⟩
    exact ⟨n', by rw [tokCost_symT]; exact hn', hsi⟩

theorem real_hooksOrdB (hR : RootEnds) (d len : Nat) (hlen : len + 1 < 1073741824) :
    HooksOrdT realTables (lrHooks (npOf (parserRun d))) (fun n => SI (TIb n) len) (Fin len)
      (fun _ => True) :=
  real_hooksOrdB_fam hR (budFam_TIb len hlen) d

theorem rem_init {s : Str} {l : Local} {e : Env} (h : InitState s l e) : rem l e ≤ s.length + 1 := by
  obtain ⟨_, _, _, _, h5⟩ := h
  have ht : tapeOf l e = Tape.ofInput s := by
    rcases h5 with h5 | ⟨h5, h6⟩
    · unfold tapeOf; rw [h5]
    · unfold tapeOf; rw [h5]; exact h6
  unfold rem
  rw [ht]
  have := (ofInput_line s).1
  omega

/-- **the engine loop of every real parser run terminates within its fuel** (under `RootEnds`):
    for every nesting depth and every input `s` with `realBound (|s|+1) < 2^30` (= `16·(|s|+1)`, `realBound_val`), the loop started from a
    fresh parser object over `s` returns, or raises an exception one of its hooks raises (the
    token source, a semantic action — which includes nested parser runs —, the error function),
    or the marker of the unmodelled error recovery.  It does not run out of fuel by itself. -/
theorem real_run_terminates_rootEnds (hR : RootEnds) (d : Nat) (s : Str)
    (hs : realBound (s.length + 1) < 1073741824) :
    SatS (LR.run realTables (lrHooks (npOf (parserRun d))) 1073741824) (InitState s)
      (fun _ _ _ => True) (TermExn (HookExn (lrHooks (npOf (parserRun d))))) := by
  have hlen : s.length + 1 < 1073741824 := Nat.lt_of_le_of_lt (le_realBound _) hs
  have hH := hooksOrdB_hookExn (real_hooksOrdB hR d s.length hlen)
  have hrun := engine_terminates_ord (R := realRaw) (wS := realW) (rk := realRk) (B := realB)
    real_check real_rankCheck realB_bound hH 1073741824 (s.length + 1)
    hs
  refine SatS.weaken hrun ?_ (fun _ _ _ _ => True.intro) (fun _ h => h)
  intro l e hinit
  refine ⟨⟨0, 0, Nat.le_refl 0, Nat.le_refl 0, ⟨tokSpans.init s l e hinit, fun _ => rem_init hinit⟩, ?_⟩,
    ?_, ?_⟩
  · intro x hx; cases hx
  · intro x hx; cases hx
  · intro x hx; cases hx

end Bashlex.C01E

#print axioms Bashlex.C03.spans_hooks_core
#print axioms Bashlex.C01E.real_hooksOrdB
#print axioms Bashlex.C01E.real_run_terminates_rootEnds
