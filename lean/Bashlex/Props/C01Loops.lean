/-
  C01, the remaining fuel markers above the tokenizer.

  1. `split` (`splitM`: a loop over `token()` on fuel `len(line) + 4`).  Every token other than
     EOF pays one unit of `|line| − cursor` (`next_budget`), word expansion leaves the tape alone,
     so the loop makes at most `|line| + 1` iterations: **`split_terminates`**,
     **`C01_partial_split_tight`** (for inputs with `|s| + 1 < 2^30`; `RootEnds` is used — it is
     proved in `Props/C03/RootEndsProof.lean` — because C03's tokenizer invariant is carried
     through word expansion by `keeps_expandwordinternal`, which asks for the nested parser's
     span contract).
  2. `nesting` (`parserRun` recurses on a nesting fuel, `maxDepth = 64`): the string handed to a
     nested parser holds FEWER opener characters (backquote, `$`, `<`, `>`) than the token value
     it is cut from (`Props/C01Loops/NestExn.lean`), and a token value holds no more than the
     line (`C04.tokText`); hence **`C01_nesting_bound`**: an input with fewer than 64 opener
     characters never raises `outOfFuel "nesting"` (`Props/C01Loops/NestLift.lean`).
     Opener CHARACTERS, not the pairs `$(`, `<(`, `>(`: a line continuation may separate the two
     characters of an opener in the input (`$\<newline>(a)` is a command substitution), so the
     pairs of the raw input do not bound the openers the tokenizer sees.
-/
import Bashlex.Props.C01Engine
import Bashlex.Props.C03.RootEndsProof
import Bashlex.Props.C01Loops.NestLift

namespace Bashlex.C01E
open Bashlex Bashlex.Spec Bashlex.Node Bashlex.M Bashlex.LR Bashlex.C12 Bashlex.C03 Bashlex.C10
  Bashlex.C01
set_option linter.unusedSimpArgs false
set_option linter.unusedVariables false

/-! ## 1. `split` -/

/-- the nested-parser wrapper of `splitM` is the one of `parserRun` -/
theorem splitM_eq (s : Str) : splitM s = (do
    let line ← tapeLine
    let added ← tapeAdded
    M.loop "split" (fun (acc : List Str) => do
        let t ← nextToken
        if t.is .EOF || (added && t.lexpos + 1 == line.length) then return .inr acc
        if t.is .WORD || t.is .ASSIGNMENT_WORD then
          let quoted := t.flags.contains .QUOTED
          let doublequoted ←
            if quoted then
              match t.valueStr.head? with
              | none => M.foreign "IndexError" "split"
              | some c => pure (c == '"')
            else pure false
          let (_, w) ← expandwordinternal (npOf (parserRun maxDepth)) t doublequoted
          return .inl (acc ++ [w])
        else
          return .inl (acc ++ [Str.slice s t.lexpos t.endlexpos]))
      (line.length + 4) []) := rfl

theorem tokCostT_one {t : Token} (h : t.is .EOF = false) : tokCostT t = 1 := by
  unfold tokCostT
  rw [if_neg]
  intro h'
  simp [Token.is, h'] at h

/-- the state of the loop: C03's tokenizer invariant with at most `n` characters left -/
def SplitI (len n : Nat) (l : Local) (e : Env) : Prop := ∃ f, TIb n len f l e

theorem keeps_pure_foreign {P : Local → Env → Prop} {α : Type} {a b : String} :
    SatS (M.foreign a b : M α) P (fun _ l e => P l e) := SatS.foreign True.intro

/-- word expansion keeps the loop invariant -/
theorem split_expand_keeps (hR : RootEnds) (len n : Nat) (t : Token) (dq : Bool) :
    SatS (expandwordinternal (npOf (parserRun maxDepth)) t dq) (SplitI len n)
      (fun _ l e => SplitI len n l e) := by
  refine SatS.exists_pre (fun f => ?_)
  refine SatS.intro_state (fun l0 e0 h0 => ?_)
  have hk := keeps_expandwordinternal (TI := TIb n) (len := len) (F := f) (st := l0.store)
    (npSpans_fam (tokAct_TIb n) hR maxDepth) t dq
  refine SatS.weaken hk ?_ ?_ (fun _ h => h)
  · rintro l e ⟨rfl, rfl⟩; exact ⟨h0, rfl⟩
  · rintro r l e ⟨⟨h1, _⟩, _⟩; exact ⟨f, h1⟩

/-- one iteration of the loop of `split`: it leaves the loop, or the budget drops -/
theorem split_body_var (hR : RootEnds) (wc : Token → Bool) (s line : Str) (added : Bool) (len n : Nat)
    (hlen : len + 1 < 1073741824) (acc : List Str) :
    SatS (do
        let t ← nextToken
        if t.is .EOF || (added && t.lexpos + 1 == line.length) then return .inr acc
        if wc t then
          let quoted := t.flags.contains .QUOTED
          let doublequoted ←
            if quoted then
              match t.valueStr.head? with
              | none => M.foreign "IndexError" "split"
              | some c => pure (c == '"')
            else pure false
          let (_, w) ← expandwordinternal (npOf (parserRun maxDepth)) t doublequoted
          return .inl (acc ++ [w])
        else
          return .inl (acc ++ [Str.slice s t.lexpos t.endlexpos]) : M (List Str ⊕ List Str))
      (SplitI len n)
      (fun r l e => Sum.elim (fun _ => ∃ n', n' < n ∧ SplitI len n' l e) (fun _ => True) r) := by
  refine SatS.bind (Q := fun t l e => ∃ n', n' + tokCostT t ≤ n ∧ SplitI len n' l e) ?_ ?_
  · refine SatS.exists_pre (fun f => ?_)
    refine SatS.intro_state (fun l0 e0 h0 => ?_)
    refine SatS.weaken (next_TIb n len f l0.store hlen) ?_ ?_ (fun _ h => h)
    · rintro l e ⟨rfl, rfl⟩; exact ⟨h0, rfl⟩
    · rintro t l e ⟨a, b, _, _, ⟨n', hn', hti⟩, _⟩
      exact ⟨n', hn', b, hti⟩
  intro t
  refine SatS.exists_pre (fun n' => SatS.assume (fun hn' => ?_))
  split
  · exact SatS.pure (fun _ _ _ => True.intro)
  · rename_i hcond
    have heof : t.is .EOF = false := by
      cases h : t.is .EOF with
      | false => rfl
      | true => simp [h] at hcond
    have hlt : n' < n := by have := tokCostT_one heof; omega
    have hjp : ∀ dq, SatS (do
          let x ← expandwordinternal (npOf (parserRun maxDepth)) t dq
          match x with
            | (_, w) => pure (Sum.inl (acc ++ [w])) : M (List Str ⊕ List Str))
        (SplitI len n')
        (fun r l e => Sum.elim (fun _ => ∃ n', n' < n ∧ SplitI len n' l e) (fun _ => True) r) := by
      intro dq
      refine SatS.bind (split_expand_keeps hR len n' t dq) (fun r => ?_)
      exact SatS.pure (fun l e h => ⟨n', hlt, h⟩)
    refine SatS.ite (fun _ => ?_) (fun _ => SatS.pure (fun l e h => ⟨n', hlt, h⟩))
    refine SatS.ite (fun _ => ?_) (fun _ => ?_)
    · split
      · exact SatS.bind (Q := fun _ l e => SplitI len n' l e) (SatS.foreign True.intro)
          (fun dq => hjp dq)
      · exact SatS.bind (Q := fun _ l e => SplitI len n' l e) (SatS.pure (fun _ _ h => h))
          (fun dq => hjp dq)
    · exact SatS.bind (Q := fun _ l e => SplitI len n' l e) (SatS.pure (fun _ _ h => h))
        (fun dq => hjp dq)

/-- what one iteration may raise (the proof of `C01.splitM_exn`, for the body) -/
theorem split_body_exn (wc : Token → Bool) (s line : Str) (added : Bool) (acc : List Str) :
    Sat (do
        let t ← nextToken
        if t.is .EOF || (added && t.lexpos + 1 == line.length) then return .inr acc
        if wc t then
          let quoted := t.flags.contains .QUOTED
          let doublequoted ←
            if quoted then
              match t.valueStr.head? with
              | none => M.foreign "IndexError" "split"
              | some c => pure (c == '"')
            else pure false
          let (_, w) ← expandwordinternal (npOf (parserRun maxDepth)) t doublequoted
          return .inl (acc ++ [w])
        else
          return .inl (acc ++ [Str.slice s t.lexpos t.endlexpos]) : M (List Str ⊕ List Str))
      (fun _ => True) Disciplined := by
  have hnp : NPE TokExn (npOf (parserRun maxDepth)) := by
    intro s b
    unfold npOf
    refine sat_bindN noExn_get (fun _ => sat_bindN (noExn_set _) (fun _ =>
      sat_bindE (parserRun_exn tok_nextToken tok_gatherheredocuments maxDepth) (fun r => ?_)))
    exact sat_bindN noExn_get (fun _ => sat_bindN (noExn_set _) (fun _ => Sat.pure trivial))
  have hexp : ∀ t dq, Sat (expandwordinternal (npOf (parserRun maxDepth)) t dq) (fun _ => True)
      Disciplined := fun t dq => sat_expandwordinternal hnp t dq
  have hT : Sat nextToken C01.TF Disciplined :=
    sat_conj sat_nextToken_tf (tok_nextToken.weaken (fun _ h => h) (fun _ h => allowed_tok h))
  refine Sat.bind hT (fun t ht => ?_)
  refine Sat.ite (fun _ => Sat.pure trivial) (fun _ => ?_)
  refine Sat.ite (fun _ => ?_) (fun _ => Sat.pure trivial)
  refine Sat.ite (fun hq => ?_) (fun _ => ?_)
  · split
    · rename_i hnone
      exfalso
      apply ht.2 hq
      cases hv : t.valueStr with
      | nil => rfl
      | cons a as => rw [hv] at hnone; cases hnone
    · exact sat_bindN (noExn_pure _) (fun _ => sat_bindE (hexp _ _) (fun _ => Sat.pure trivial))
  · exact sat_bindN (noExn_pure _) (fun _ => sat_bindE (hexp _ _) (fun _ => Sat.pure trivial))

/-- **the loop of `split` terminates within its fuel**: from a fresh parser object over `s`
    (`|s| + 1 < 2^30`) `splitM` raises only disciplined exceptions — not `outOfFuel "split"` -/
theorem splitM_terminates (hR : RootEnds) (s : Str) (hs : s.length + 1 < 1073741824) :
    SatS (splitM s) (InitState s) (fun _ _ _ => True) Disciplined := by
  rw [splitM_eq]
  refine SatS.intro_state (fun l0 e0 hinit => ?_)
  -- the two reads
  have hrd : ∀ {α : Type} (k : Str → Bool → M α) (Q : α → Local → Env → Prop),
      SatS (k (tapeOf l0 e0).line (tapeOf l0 e0).added) (fun l e => l = l0 ∧ e = e0) Q Disciplined →
      SatS (do let line ← tapeLine; let added ← tapeAdded; k line added)
        (fun l e => l = l0 ∧ e = e0) Q Disciplined := by
    intro α k Q h l e hle
    obtain ⟨rfl, rfl⟩ := hle
    simp only [M.run_bind, run_tapeLine, C11.run_tapeAdded]
    exact h l e ⟨rfl, rfl⟩
  refine hrd (fun line added => M.loop "split" _ (line.length + 4) []) _ ?_
  have hloop := SatS.loop_ghost (site := "split")
    (I := fun (_ : List Str) n l e => SplitI s.length n l e)
    (R := fun _ _ _ => True) (E := Disciplined)
    (fun acc n => satS_exn (split_body_var hR (fun t => t.is .WORD || t.is .ASSIGNMENT_WORD) s (tapeOf l0 e0).line (tapeOf l0 e0).added
      s.length n hs acc) (split_body_exn (fun t => t.is .WORD || t.is .ASSIGNMENT_WORD) s (tapeOf l0 e0).line (tapeOf l0 e0).added acc))
    ((tapeOf l0 e0).line.length + 4) [] (rem l0 e0) (by unfold rem; omega)
  refine hloop.pre ?_
  rintro l e ⟨rfl, rfl⟩
  exact ⟨0, tokSpans.init s l e hinit, fun _ => Nat.le_refl _⟩

theorem not_disciplined_split : ¬ Disciplined (.outOfFuel "split") := by
  rw [disciplined_iff]
  simp [knownForeign, tokForeign, fuelSites, tokFuel]

/-- **C01 (model level), `split`, without the marker of its loop** (inputs below 2^30 − 1
    characters): strings, or a disciplined exception -/
theorem C01_partial_split_tight_conditional (hR : RootEnds) (s : Str)
    (hs : s.length + 1 < 1073741824) :
    match (split s).1 with
    | .strs _ => True
    | .exn x => Disciplined x
    | _ => False := by
  unfold split
  simp only []
  have hi : InitState s ({} : Local) { tape := Tape.ofInput s } :=
    ⟨rfl, rfl, rfl, rfl, Or.inr ⟨rfl, rfl⟩⟩
  have h := splitM_terminates hR s hs _ _ hi
  rcases hrun : (splitM s).run {} { tape := Tape.ofInput s } with ⟨r, env'⟩
  rw [hrun] at h
  cases r with
  | ok v => exact True.intro
  | error x => exact h

theorem C01_partial_split_tight (s : Str) (hs : s.length + 1 < 1073741824) :
    match (split s).1 with
    | .strs _ => True
    | .exn x => Disciplined x
    | _ => False :=
  C01_partial_split_tight_conditional rootEnds s hs

/-- **`split` never runs out of the fuel of its token loop** -/
theorem split_terminates (s : Str) (hs : s.length + 1 < 1073741824) :
    (split s).1 ≠ .exn (.outOfFuel "split") := by
  have h := C01_partial_split_tight s hs
  intro hx
  rw [hx] at h
  exact not_disciplined_split h

/-! ## 2. `nesting` -/

section entry
variable {E : Exn → Prop} {short : Str → Prop}

theorem runParser_E (hrun : ∀ s, short s →
      SatS (parserRun maxDepth) (InitState s) (fun _ _ _ => True) E)
    {s : Str} {o : Opts} {t : List Char} {x : Exn} (hs : short s)
    (h : (runParser s o t).1 = .error x) : E x := by
  unfold runParser at h
  simp only [] at h
  have hi : InitState s ({ limit := o.limit } : Local)
      { tape := Tape.ofInput s, strict := o.strict, proceed := o.proceed, touched := t } :=
    ⟨rfl, rfl, rfl, rfl, Or.inr ⟨rfl, rfl⟩⟩
  have hr1 := hrun s hs _ _ hi
  rcases hr : (parserRun maxDepth).run { limit := o.limit }
      { tape := Tape.ofInput s, strict := o.strict, proceed := o.proceed, touched := t } with ⟨r, env'⟩
  rw [hr] at h hr1
  cases r with
  | ok v => simp only [Except.map] at h; cases h
  | error y =>
    simp only [Except.map] at h
    cases h
    exact hr1

theorem parseLoop_E (hrun : ∀ s, short s →
      SatS (parserRun maxDepth) (InitState s) (fun _ _ _ => True) E)
    (hE : E (.outOfFuel "parse")) (s : Str) (o : Opts) (hs : ∀ i, short (s.drop i)) :
    ∀ (fuel index : Nat) (parts : List Node) (touched : List Char) (x : Exn),
      (parseLoop s o fuel index parts touched).1 = .error x → E x := by
  intro fuel
  induction fuel with
  | zero =>
    intro index parts touched x h
    simp only [parseLoop] at h
    cases h
    exact hE
  | succ fuel ih =>
    intro index parts touched x h
    unfold parseLoop at h
    split at h
    · rcases hr : runParser (s.drop index) o touched with ⟨r, t⟩
      rw [hr] at h
      cases r with
      | error e =>
        simp only [] at h
        cases h
        exact runParser_E hrun (s := s.drop index) (hs index) (by rw [hr])
      | ok v =>
        cases v with
        | none => simp only [] at h; cases h
        | some part =>
          simp only [] at h
          exact ih _ _ _ x h
    · cases h

theorem entry_E (hrun : ∀ s, short s →
      SatS (parserRun maxDepth) (InitState s) (fun _ _ _ => True) E)
    (hE : E (.outOfFuel "parse")) (s : Str) (o : Opts) (hs : ∀ i, short (s.drop i)) :
    (∀ x, (parse s o).1 = .exn x → E x) ∧ (∀ x, (parsesingle s o).1 = .exn x → E x) := by
  have hs0 : short s := by simpa using hs 0
  constructor
  · intro x h
    unfold parse at h
    rcases hr : runParser s o [] with ⟨r, t⟩
    rw [hr] at h
    cases r with
    | error e =>
      simp only [] at h
      cases h
      exact runParser_E hrun hs0 (by rw [hr])
    | ok v =>
      cases v with
      | none => simp only [] at h; cases h
      | some first =>
        simp only [] at h
        rcases hl : parseLoop s o (s.length + 1) (max (nextIndex first) 1) [first] t with ⟨r2, t2⟩
        rw [hl] at h
        cases r2 with
        | error e =>
          simp only [] at h
          cases h
          exact parseLoop_E hrun hE s o hs _ _ _ _ _ (by rw [hl])
        | ok parts => simp only [] at h; cases h
  · intro x h
    unfold parsesingle at h
    rcases hr : runParser s o [] with ⟨r, t⟩
    rw [hr] at h
    cases r with
    | error e =>
      simp only [] at h
      cases h
      exact runParser_E hrun hs0 (by rw [hr])
    | ok v => simp only [] at h; cases h

end entry

/-- **`outOfFuel "nesting"` is reachable only with 64 opener characters**: on an input with fewer
    than `maxDepth = 64` characters among backquote, `$`, `<`, `>` (every substitution opener
    `$(`, backquote, `<(`, `>(` starts with one), for all options, neither `parse` nor
    `parsesingle` raises `outOfFuel "nesting"` -/
theorem C01_nesting_bound (s : Str) (o : Opts) (hs : Nest.ops s < 64) :
    (∀ x, (parse s o).1 = .exn x → x ≠ .outOfFuel "nesting") ∧
    (∀ x, (parsesingle s o).1 = .exn x → x ≠ .outOfFuel "nesting") :=
  entry_E (E := Nest.NoLRFuel) (short := fun s => Nest.ops s < 64)
    (fun s hs => Nest.parserRun_noNest maxDepth s hs) (Nest.noLRFuel_site (by decide)) s o
    (fun i => Nat.lt_of_le_of_lt (Nest.ops_drop_le s i) hs)

/-- one parser run with nesting fuel `d` -/
theorem C01_nesting_bound_run (d : Nat) (s : Str) (hs : Nest.ops s < d) :
    SatS (parserRun d) (InitState s) (fun _ _ _ => True) (fun x => x ≠ .outOfFuel "nesting") :=
  Nest.parserRun_noNest d s hs

/-! ## 3. `split`: the markers of its nested parsers -/

/-- an exception of a nested parser run started on a short string is not the engine's marker -/
theorem ae_noLRFuel {B : Nat} (hB : realBound B < 1073741824) {d : Nat} {x : Exn}
    (h : AE B (npOf (parserRun d)) x) : NoLRFuel x := by
  rcases h with hx | ⟨s', b, l, e, e', hlt, hr⟩
  · exact hx
  · rw [run_npOf] at hr
    have hin := parserRun_noLRFuel_rootEnds' rootEnds d s'
      (Nat.lt_of_le_of_lt (realBound_mono (by omega)) hB) (C11.nestedLocal l s' b) e
      ⟨rfl, rfl, rfl, rfl, Or.inl rfl⟩
    rcases hr2 : M.run (parserRun d) (C11.nestedLocal l s' b) e with ⟨r, e2⟩
    rw [hr2] at hr hin
    cases r with
    | ok v => obtain ⟨r, l'⟩ := v; simp only [] at hr; cases hr
    | error y => simp only [] at hr; cases hr; exact hin

/-- … and not the nesting marker when the string has few opener characters -/
theorem ae_noNest {B d : Nat} (hB : B ≤ d) {x : Exn}
    (h : Nest.AE B (npOf (parserRun d)) x) : Nest.NoLRFuel x := by
  rcases h with hx | ⟨s', b, l, e, e', hlt, hr⟩
  · exact hx
  · rw [run_npOf] at hr
    have hin := Nest.parserRun_noNest d s' (by omega) (C11.nestedLocal l s' b) e
      ⟨rfl, rfl, rfl, rfl, Or.inl rfl⟩
    rcases hr2 : M.run (parserRun d) (C11.nestedLocal l s' b) e with ⟨r, e2⟩
    rw [hr2] at hr hin
    cases r with
    | ok v => obtain ⟨r, l'⟩ := v; simp only [] at hr; cases hr
    | error y => simp only [] at hr; cases hr; exact hin

/-- neither marker -/
def NoMarkers (x : Exn) : Prop := NoLRFuel x ∧ Nest.NoLRFuel x

theorem noMarkers_tok {x : Exn} (h : TokExn x) : NoMarkers x :=
  ⟨noLRFuel_tokExn h, Nest.noLRFuel_tokExn h⟩

/-- the state of the loop, with C11's invariant (for the token-text relation) -/
def SplitG (g : C11.Ghost) (len n : Nat) (l : Local) (e : Env) : Prop := ∃ f, TIg g n len f l e

theorem split_expand_keeps_g (g : C11.Ghost) (len n : Nat) (t : Token) (dq : Bool) :
    SatS (expandwordinternal (npOf (parserRun maxDepth)) t dq) (SplitG g len n)
      (fun _ l e => SplitG g len n l e) := by
  refine SatS.exists_pre (fun f => ?_)
  refine SatS.intro_state (fun l0 e0 h0 => ?_)
  have hk := keeps_expandwordinternal (TI := TIg g n) (len := len) (F := f) (st := l0.store)
    (npSpans_fam (tokAct_TIg g n) rootEnds maxDepth) t dq
  refine SatS.weaken hk ?_ ?_ (fun _ h => h)
  · rintro l e ⟨rfl, rfl⟩; exact ⟨h0, rfl⟩
  · rintro r l e ⟨⟨h1, _⟩, _⟩; exact ⟨f, h1⟩

/-- one iteration, with the two markers excluded: the value of the token at hand fits the line and
    has no more opener characters than it -/
theorem split_body_var_g (g : C11.Ghost) (hg : C11.WFG g) (wc : Token → Bool) (s line : Str)
    (added : Bool) (len n : Nat) (hlen : len + 1 < 1073741824)
    (hL : realBound g.line.length < 1073741824) (hO : Nest.ops g.line ≤ maxDepth)
    (acc : List Str) :
    SatS (do
        let t ← nextToken
        if t.is .EOF || (added && t.lexpos + 1 == line.length) then return .inr acc
        if wc t then
          let quoted := t.flags.contains .QUOTED
          let doublequoted ←
            if quoted then
              match t.valueStr.head? with
              | none => M.foreign "IndexError" "split"
              | some c => pure (c == '"')
            else pure false
          let (_, w) ← expandwordinternal (npOf (parserRun maxDepth)) t doublequoted
          return .inl (acc ++ [w])
        else
          return .inl (acc ++ [Str.slice s t.lexpos t.endlexpos]) : M (List Str ⊕ List Str))
      (SplitG g len n)
      (fun r l e => Sum.elim (fun _ => ∃ n', n' < n ∧ SplitG g len n' l e) (fun _ => True) r)
      NoMarkers := by
  refine SatS.bind (Q := fun t l e => C04.TT g.line t ∧
      ∃ n', n' + tokCostT t ≤ n ∧ SplitG g len n' l e) ?_ ?_
  · refine satS_exn ?_ (tok_nextToken.weaken (fun _ h => h) (fun _ h => noMarkers_tok h))
    refine SatS.exists_pre (fun f => ?_)
    refine SatS.intro_state (fun l0 e0 h0 => ?_)
    have hA := ((budFam_TIg g len hlen).next n f l0.store).pre
      (P' := fun l e => l = l0 ∧ e = e0) (by rintro l e ⟨rfl, rfl⟩; exact ⟨h0, rfl⟩)
    have hB := (satS_of_HT (C04.tokText.next g hg)).pre
      (P' := fun l e => l = l0 ∧ e = e0)
      (by rintro l e ⟨rfl, rfl⟩; exact ⟨h0.2, ti_eol h0.1.1⟩)
    refine (SatS.and hA hB).post ?_
    rintro t l e ⟨⟨a, b, _, _, ⟨n', hn', hti⟩, _⟩, htt, _⟩
    exact ⟨htt, n', hn', b, hti⟩
  intro t
  refine SatS.assume (fun htt => ?_)
  refine SatS.exists_pre (fun n' => SatS.assume (fun hn' => ?_))
  have hvl : t.valueStr.length ≤ g.line.length := by have := htt.len; omega
  have hvo : Nest.ops t.valueStr ≤ Nest.ops g.line := Nest.tt_ops htt
  have hexp : ∀ dq, Sat (expandwordinternal (npOf (parserRun maxDepth)) t dq) (fun _ => True)
      NoMarkers := by
    intro dq l e
    have h1 := asat_expandwordinternal (np := npOf (parserRun maxDepth)) t dq l e
    have h2 := Nest.asat_expandwordinternal (np := npOf (parserRun maxDepth)) t dq l e
    revert h1 h2
    rcases (expandwordinternal (npOf (parserRun maxDepth)) t dq).run l e with ⟨r, e'⟩
    cases r with
    | ok v => exact fun _ _ => True.intro
    | error x =>
      intro h1 h2
      exact ⟨ae_noLRFuel (Nat.lt_of_le_of_lt (realBound_mono hvl) hL) h1,
        ae_noNest (Nat.le_trans hvo hO) h2⟩
  split
  · exact SatS.pure (fun _ _ _ => True.intro)
  · rename_i hcond
    have heof : t.is .EOF = false := by
      cases h : t.is .EOF with
      | false => rfl
      | true => simp [h] at hcond
    have hlt : n' < n := by have := tokCostT_one heof; omega
    have hjp : ∀ dq, SatS (do
          let x ← expandwordinternal (npOf (parserRun maxDepth)) t dq
          match x with
            | (_, w) => pure (Sum.inl (acc ++ [w])) : M (List Str ⊕ List Str))
        (SplitG g len n')
        (fun r l e => Sum.elim (fun _ => ∃ n', n' < n ∧ SplitG g len n' l e) (fun _ => True) r)
        NoMarkers := by
      intro dq
      refine SatS.bind (satS_exn (split_expand_keeps_g g len n' t dq) (hexp dq)) (fun r => ?_)
      exact SatS.pure (fun l e h => ⟨n', hlt, h⟩)
    refine SatS.ite (fun _ => ?_) (fun _ => SatS.pure (fun l e h => ⟨n', hlt, h⟩))
    refine SatS.ite (fun _ => ?_) (fun _ => ?_)
    · split
      · exact SatS.bind (Q := fun _ l e => SplitG g len n' l e)
          (SatS.foreign ⟨(by intro h; cases h), (by intro h; cases h)⟩) (fun dq => hjp dq)
      · exact SatS.bind (Q := fun _ l e => SplitG g len n' l e) (SatS.pure (fun _ _ h => h))
          (fun dq => hjp dq)
    · exact SatS.bind (Q := fun _ l e => SplitG g len n' l e) (SatS.pure (fun _ _ h => h))
        (fun dq => hjp dq)

theorem satS_exn_and {α : Type} {m : M α} {P : Local → Env → Prop}
    {Q : α → Local → Env → Prop} {E F : Exn → Prop} (h1 : SatS m P Q E)
    (h2 : Sat m (fun _ => True) F) : SatS m P Q (fun x => F x ∧ E x) := by
  intro l e hp
  have a1 := h1 l e hp
  have a2 := h2 l e
  rcases hr : m.run l e with ⟨r, e'⟩
  rw [hr] at a1 a2
  cases r with
  | ok v => exact a1
  | error x => exact ⟨a2, a1⟩

/-- `splitM` from a fresh parser object: disciplined exceptions other than the three markers -/
theorem splitM_tight (s : Str) (hs : realBound (s.length + 1) < 1073741824)
    (ho : Nest.ops s ≤ maxDepth) :
    SatS (splitM s) (InitState s) (fun _ _ _ => True) (fun x => Disciplined x ∧ NoMarkers x) := by
  rw [splitM_eq]
  have hlen : s.length + 1 < 1073741824 := Nat.lt_of_le_of_lt (le_realBound _) hs
  refine SatS.intro_state (fun l0 e0 hinit => ?_)
  let g := initGhost s l0 e0
  have hgL : g.line.length ≤ s.length + 1 := (ofInput_line s).1
  have hgO : Nest.ops g.line = Nest.ops s := Nest.ops_ofInput s
  have hrd : ∀ {α : Type} (k : Str → Bool → M α) (Q : α → Local → Env → Prop) (E : Exn → Prop),
      SatS (k (tapeOf l0 e0).line (tapeOf l0 e0).added) (fun l e => l = l0 ∧ e = e0) Q E →
      SatS (do let line ← tapeLine; let added ← tapeAdded; k line added)
        (fun l e => l = l0 ∧ e = e0) Q E := by
    intro α k Q E h l e hle
    obtain ⟨rfl, rfl⟩ := hle
    simp only [M.run_bind, run_tapeLine, C11.run_tapeAdded]
    exact h l e ⟨rfl, rfl⟩
  refine hrd (fun line added => M.loop "split" _ (line.length + 4) []) _ _ ?_
  have hloop := SatS.loop_ghost (site := "split")
    (I := fun (_ : List Str) n l e => SplitG g s.length n l e)
    (R := fun _ _ _ => True) (E := fun x => Disciplined x ∧ NoMarkers x)
    (fun acc n => satS_exn_and (split_body_var_g g (initGhost_wf s l0 e0)
        (fun t => t.is .WORD || t.is .ASSIGNMENT_WORD) s (tapeOf l0 e0).line
        (tapeOf l0 e0).added s.length n hlen
        (Nat.lt_of_le_of_lt (realBound_mono hgL) hs) (by rw [hgO]; exact ho) acc)
      (split_body_exn (fun t => t.is .WORD || t.is .ASSIGNMENT_WORD) s (tapeOf l0 e0).line
        (tapeOf l0 e0).added acc))
    ((tapeOf l0 e0).line.length + 4) [] (rem l0 e0) (by unfold rem; omega)
  refine hloop.pre ?_
  rintro l e ⟨rfl, rfl⟩
  exact ⟨0, ⟨tokSpans.init s l e hinit, fun _ => Nat.le_refl _⟩, good_init hinit⟩

/-- **C01 (model level), `split`, none of the three fuel markers above the tokenizer**: for inputs
    with `16·(|s|+1) < 2^30` and at most 64 opener characters, `split` returns strings or raises a
    disciplined exception that is neither `outOfFuel "split"` nor `outOfFuel "LRParser.parse"` nor
    `outOfFuel "nesting"` -/
theorem C01_partial_split_nofuel (s : Str) (hs : 16 * (s.length + 1) < 1073741824)
    (ho : Nest.ops s ≤ 64) :
    match (split s).1 with
    | .strs _ => True
    | .exn x => Disciplined x ∧ x ≠ .outOfFuel "split" ∧ x ≠ .outOfFuel "LRParser.parse" ∧
        x ≠ .outOfFuel "nesting"
    | _ => False := by
  unfold split
  simp only []
  have hi : InitState s ({} : Local) { tape := Tape.ofInput s } :=
    ⟨rfl, rfl, rfl, rfl, Or.inr ⟨rfl, rfl⟩⟩
  have h := splitM_tight s (by rw [realBound_val]; exact hs) ho _ _ hi
  rcases hrun : (splitM s).run {} { tape := Tape.ofInput s } with ⟨r, env'⟩
  rw [hrun] at h
  cases r with
  | ok v => exact True.intro
  | error x =>
    refine ⟨h.1, ?_, h.2.1, h.2.2⟩
    intro hx
    rw [hx] at h
    exact not_disciplined_split h.1

end Bashlex.C01E

#print axioms Bashlex.C01E.C01_partial_split_tight
#print axioms Bashlex.C01E.split_terminates
#print axioms Bashlex.C01E.C01_nesting_bound
#print axioms Bashlex.C01E.C01_partial_split_nofuel
