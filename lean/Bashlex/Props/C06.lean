/-
  Property C06 at model level: "the value recorded for a word is the word's source text after
  shell quote removal".

  The statement is FALSE of bashlex in general: `_expandwordinternal` strips quotes without
  keeping a quote state (every `"` goes, every `'` goes unless the word starts with `"`, every
  backslash goes and protects the next character, a word that starts and ends with `'` is cut
  to `string[1:-1]`).  This file states exactly where that coincides with quote removal.

    C06/Strip.lean   `stripPure`: the expander's scan as a pure function;
                     `expandwordinternal_plain`: on words without expansion characters
                     `_expandwordinternal` *equals* `pure ([], stripPure …)` (or the IndexError
                     of a final escape character) — for every nested parser, state, environment
    C06/Plain.lean   `C06_plain`: `stripPure t = quoteRemove t` for balanced words without the
                     deviation features K1…K5 (of `Spec.quoteFeatures`), K8, K9 (new, below)
    C06/Word.lean    `expandword_plain_run`: `parser._expandword` on such tokens
    C06/Param.lean   `C06_param`: the same for words with `$name`, `$1`, `$?`, `${…}` (value; the
                     parts are only shown to be parameter nodes over quote-free text, enough to
                     make the specification's `verbatimOf` irrelevant)

  Exclusions, each decidable, each necessary (kernel-checked witnesses below; all witnesses were
  also run through the Python implementation, `subst._expandwordinternal`):
    K1  'a'b'c'      value a'b'c   quote removal abc      (starts and ends with ')
    K2  a'b\c'       value abc     quote removal ab\c     (\ or " inside '…')
    K3  "a"'b'       value a'b'    quote removal ab       (starts with ", later a ')
    K4  a"'"         value a       quote removal a'       (' inside "…", word not starting with ")
    K5  "\a"         value a       quote removal \a       (\ before an ordinary character in "…")
    K8  "a\<nl>b"    value a<nl>b  quote removal ab       (NEW: backslash-newline outside '…';
                     unreachable through the tokenizer, which deletes line continuations, and
                     covered by the context `+cont` of the executable spec)
    K9  a\           IndexError    quote removal a        (NEW: final unquoted backslash;
                     unreachable through the tokenizer, whose input always ends in a newline)
    QUOTED flag: a token whose value starts with " but whose flags lack QUOTED gets
                     qdoublequotes = False:  "a'b" ↦ ab instead of a'b
    K7′ (words with parameters; generalises K7, which `Spec.featGo` never sets — its
        `verbatimOpen` argument is unused and it scans *through* `${…}`): a quote character or
        backslash inside a `${…}` the expander copies.
        ${a'}'\b'${c'}  value ${a'}b${c'}  quote removal (braces verbatim) ${a'}\b${c'}, and
        `quoteFeatures` reports NO feature: the executable spec yields the untagged signature
        `value-mismatch` on  echo ${a'}'\b'${c'}  (confirmed on the Python implementation).
-/
import Bashlex.Props.C06.Param

namespace Bashlex.C06
open Bashlex Bashlex.Spec Bashlex.M
set_option linter.unusedSimpArgs false
set_option linter.unusedVariables false

/-- all hypotheses of `C06_plain` on the source text of a word -/
def PlainOK (t : Str) : Bool :=
  noExp t && Balanced t && noK (quoteFeatures t) && !k8 t && !k9 t

theorem C06_plain' (t : Str) (h : PlainOK t = true) :
    stripPure t (t.head? == some '"') = some (quoteRemove (fun _ => false) t) := by
  simp only [PlainOK, Bool.and_eq_true, Bool.not_eq_true'] at h
  obtain ⟨⟨⟨⟨h1, h2⟩, h3⟩, h4⟩, h5⟩ := h
  exact C06_plain t h2 h3 h4 h5

/-- **C06_total**: `parser._expandword` on a token whose value satisfies `PlainOK` and whose
    QUOTED flag is consistent, in a parser whose expansion limit is not -1: returns — without
    exception, without running out of fuel, without touching the parser state or the environment
    — the word node whose value is the quote-removed source. -/
theorem C06_total (np : NestedParse) (tok : Token) (h : PlainOK tok.valueStr = true)
    (hq : QuotedOK tok) (l : Local) (e : Env) (hl : l.limit ≠ some (-1)) :
    (expandword np tok).run l e =
      (.ok (.word (tok.lexpos, tok.endlexpos) (quoteRemove (fun _ => false) tok.valueStr) [], l), e) := by
  have hn : noExp tok.valueStr = true := by
    simp only [PlainOK, Bool.and_eq_true] at h; exact h.1.1.1.1
  exact expandword_plain_run np tok _ hn hq (C06_plain' _ h) l e hl

/-- **C06_partial** (the `Sat` reading, with the precondition on the state spelled out) -/
theorem C06_partial (np : NestedParse) (tok : Token) (h : PlainOK tok.valueStr = true)
    (hq : QuotedOK tok) : ∀ l e, l.limit ≠ some (-1) →
      match (expandword np tok).run l e with
      | (.ok (n, _), _) => ∃ pos, n = .word pos (quoteRemove (fun _ => false) tok.valueStr) []
      | (.error _, _) => False := by
  intro l e hl
  rw [C06_total np tok h hq l e hl]
  exact ⟨_, rfl⟩

/-- for every state (limit -1 included: then the node carries the raw token value) -/
theorem C06_partial_sat (np : NestedParse) (tok : Token) (h : PlainOK tok.valueStr = true)
    (hq : QuotedOK tok) :
    Sat (expandword np tok) (fun n => ∃ pos,
      n = .word pos (quoteRemove (fun _ => false) tok.valueStr) [] ∨ n = .word pos tok.valueStr [])
      (fun _ => False) := by
  intro l e
  by_cases hl : l.limit = some (-1)
  · have : (expandword np tok).run l e =
        (.ok (.word (tok.lexpos, tok.endlexpos) tok.valueStr [], l), e) := by
      unfold expandword
      rw [run_get_bind]
      simp [hl]
      rfl
    rw [this]
    exact ⟨_, Or.inr rfl⟩
  · rw [C06_total np tok h hq l e hl]
    exact ⟨_, Or.inl rfl⟩

/-! ### non-vacuity: every exclusion is necessary, and the hypotheses are satisfiable -/

/-- the flags of `quoteFeatures` as a list K1…K7 -/
def feats (t : Str) : List Bool :=
  let f := quoteFeatures t; [f.k1, f.k2, f.k3, f.k4, f.k5, f.k6, f.k7]

/-- what the expander computes (with `qdoublequotes` as `_expandword` sets it) differs from
    quote removal, while `t` is balanced, has no expansion character, and its features are `fs`,
    `k8`, `k9` -/
def Deviates (t : Str) (fs : List Bool) (f8 f9 : Bool) : Bool :=
  noExp t && Balanced t && feats t == fs && k8 t == f8 && k9 t == f9 &&
  stripPure t (t.head? == some '"') != some (quoteRemove (fun _ => false) t)

-- K1 only:  'a'b'c'  ↦  a'b'c  ≠  abc
example : Deviates "'a'b'c'".toList [true, false, false, false, false, false, false] false false = true := by decide +kernel
-- K2 only:  a'b\c'  ↦  abc  ≠  ab\c
example : Deviates "a'b\\c'".toList [false, true, false, false, false, false, false] false false = true := by decide +kernel
-- K2 only:  a'"'  ↦  a  ≠  a"
example : Deviates "a'\"'".toList [false, true, false, false, false, false, false] false false = true := by decide +kernel
-- K3 only:  "a"'b'  ↦  a'b'  ≠  ab
example : Deviates "\"a\"'b'".toList [false, false, true, false, false, false, false] false false = true := by decide +kernel
-- K4 only:  a"'"  ↦  a  ≠  a'
example : Deviates "a\"'\"".toList [false, false, false, true, false, false, false] false false = true := by decide +kernel
-- K5 only:  "\a"  ↦  a  ≠  \a
example : Deviates "\"\\a\"".toList [false, false, false, false, true, false, false] false false = true := by decide +kernel
-- K8 only (NEW):  "a\<newline>b"  ↦  a<newline>b  ≠  ab      and unquoted  a\<newline>b
example : Deviates "\"a\\\nb\"".toList [false, false, false, false, false, false, false] true false = true := by decide +kernel
example : Deviates "a\\\nb".toList [false, false, false, false, false, false, false] true false = true := by decide +kernel
-- K9 only (NEW):  a\  ↦  IndexError,  quote removal gives a
example : Deviates "a\\".toList [false, false, false, false, false, false, false] false true = true := by decide +kernel
example : stripPure "a\\".toList false = none := by decide +kernel

-- the QUOTED hypothesis is necessary:  "a'b"  with qdoublequotes = False  ↦  ab  ≠  a'b
example : PlainOK "\"a'b\"".toList = true ∧
    stripPure "\"a'b\"".toList false ≠ some (quoteRemove (fun _ => false) "\"a'b\"".toList) := by decide +kernel

-- the hypotheses are satisfiable by non-trivial words
--   "a\"b 'c' \\"d\ e   ↦   a"b 'c' \d e
example : PlainOK "\"a\\\"b 'c' \\\\\"d\\ e".toList = true ∧
    quoteRemove (fun _ => false) "\"a\\\"b 'c' \\\\\"d\\ e".toList = "a\"b 'c' \\d e".toList := by decide +kernel
--   x'a b'"c\"d"\'e   ↦   xa bc"d'e
example : PlainOK "x'a b'\"c\\\"d\"\\'e".toList = true ∧
    quoteRemove (fun _ => false) "x'a b'\"c\\\"d\"\\'e".toList = "xa bc\"d'e".toList := by decide +kernel
--   'a "b" \c'   ↦   a "b" \c      (wholly single-quoted: K2 does not apply)
example : PlainOK "'a \"b\" \\c'".toList = true ∧
    quoteRemove (fun _ => false) "'a \"b\" \\c'".toList = "a \"b\" \\c".toList := by decide +kernel


/-! ### words with parameters -/

/-- **C06_param_spec**: link to the executable specification.  When the text of the source `s`
    under the token's span is the token's value (no line continuation inside the word), the
    clause `Spec.wordViol` of property C06 holds of the node `_expandword` returns (or, expansion
    limit -1, the node carries the raw token value and never reaches a tree). -/
theorem C06_param_spec (np : NestedParse) (tok : Token) (h : ParamOK tok.valueStr = true)
    (hq : QuotedOK tok) (s : Str) (ctx : String)
    (hs : Str.slice s tok.lexpos tok.endlexpos = tok.valueStr) :
    Sat (expandword np tok) (fun n =>
      wordViol s ctx n = [] ∨ n = .word (tok.lexpos, tok.endlexpos) tok.valueStr []) := by
  refine Sat.weaken (C06_param np tok h hq) ?_ (fun _ h => h)
  rintro n ⟨v, parts, rfl, ⟨_, hv⟩ | ⟨rfl, rfl⟩⟩
  · left
    simp only [wordViol, hs]
    rw [← hv s]
    simp
  · right; rfl

--   a"$foo"${x:-y}'$1 z'\$q$   ↦   a$foo${x:-y}$1 z$q$
example : ParamOK "a\"$foo\"${x:-y}'$1 z'\\$q$".toList = true ∧
    quoteRemove (fun _ => false) "a\"$foo\"${x:-y}'$1 z'\\$q$".toList =
      "a$foo${x:-y}$1 z$q$".toList := by decide +kernel
--   "${HOME}/$1"   ↦   ${HOME}/$1
example : ParamOK "\"${HOME}/$1\"".toList = true ∧
    quoteRemove (fun _ => false) "\"${HOME}/$1\"".toList = "${HOME}/$1".toList := by decide +kernel

-- K7′ is necessary, even against quote removal with the braces verbatim, and K1…K7 do not see it:
--   ${a'}'\b'${c'}   ↦   ${a'}b${c'}   ≠   ${a'}\b${c'}
example :
    let t := "${a'}'\\b'${c'}".toList
    (alphaOK t && Balanced t && feats t == [false, false, false, false, false, false, false] &&
     !k8 t && !k9 t && k7x t &&
     stripX t false != some (quoteRemove
       (verbatimOf 0 t [.parameter (0, 5) "a'".toList, .parameter (9, 14) "c'".toList]) t)) = true := by
  decide +kernel
-- … and against plain quote removal:   ${a'}'}   ↦   ${a'}}   ≠   ${a}}
example :
    let t := "${a'}'}".toList
    (alphaOK t && Balanced t && feats t == [false, false, false, false, false, false, false] &&
     !k8 t && !k9 t && k7x t &&
     stripX t false != some (quoteRemove (fun _ => false) t)) = true := by
  decide +kernel

end Bashlex.C06

#print axioms Bashlex.C06.expandwordinternal_plain
#print axioms Bashlex.C06.C06_plain
#print axioms Bashlex.C06.C06_total
#print axioms Bashlex.C06.C06_partial
#print axioms Bashlex.C06.C06_partial_sat
#print axioms Bashlex.C06.contGo_hasContinuation
#print axioms Bashlex.C06.sat_expandwordinternal_param
#print axioms Bashlex.C06.C06_param
#print axioms Bashlex.C06.C06_param_spec
