/-
  Property C05 (token-level half) at model level WITHOUT the hypothesis `RootEnds`: the run-time
  check of `Props/C03/RootEnds.lean` (`parserRunK`, `parseK`, the decidable per-input condition
  `C03.rootEndsChecked s o`) takes its place.  Same statements as `Props/C05Total.lean`.
-/
import Bashlex.Props.C05Total
import Bashlex.Props.C03.RootEnds

namespace Bashlex.C05
open Bashlex Bashlex.Spec Bashlex.Node Bashlex.M Bashlex.LR Bashlex.C12 Bashlex.C03
set_option linter.unusedSimpArgs false
set_option linter.unusedVariables false

/-- a logged tokenizer invariant that is C03's `TI` together with a fact about the log alone -/
def SplitsAs (TL : List Token → Nat → Nat → Local → Env → Prop)
    (Φ : List Token → Nat → Nat → Prop) : Prop :=
  ∀ tr len f l e, TL tr len f l e ↔ (C03.TI len f l e ∧ Φ tr len f)

theorem splitsAs_TLog : SplitsAs TLog (fun tr len f => ∀ t ∈ tr, Delivered len f t) :=
  fun _ _ _ _ _ => Iff.rfl

theorem splitsAs_TLs : SplitsAs (TLs TLog)
    (fun tr len f => (∀ t ∈ tr, Delivered len f t) ∧ LogSorted tr f) :=
  fun _ _ _ _ _ => ⟨fun ⟨⟨h1, h2⟩, h3⟩ => ⟨h1, h2, h3⟩, fun ⟨h1, h2, h3⟩ => ⟨⟨h1, h2⟩, h3⟩⟩

section
attribute [local instance] C16.stdEnvRel
variable {TL : List Token → Nat → Nat → Local → Env → Prop} {Φ : List Token → Nat → Nat → Prop}

/-- the contract of the checked nested parser, for the logged tokenizer invariant -/
theorem npSpans_npK_log (hS : SplitsAs TL Φ) (tr : List Token) (d : Nat) :
    NPSpans (TL tr) (npK true (parserRunK d)) := by
  intro s b len F st
  rintro l e ⟨htl, hst⟩
  obtain ⟨hti, hlog⟩ := (hS tr len F l e).mp htl
  have h := npSpans_npK d (parserRunK_spans d) s b len F st l e ⟨hti, hst⟩
  revert h
  rcases M.run (npK true (parserRunK d) s b) l e with ⟨r, e'⟩
  cases r with
  | error x => intro _; exact True.intro
  | ok v =>
    obtain ⟨r, l'⟩ := v
    rintro ⟨⟨h1, h2⟩, h3⟩
    exact ⟨⟨(hS tr len F l' e').mpr ⟨h1, hlog⟩, h2⟩, h3⟩

/-- **one checked parser run**: its leaves are covered by the delivered tokens; no hypothesis -/
theorem parserRunK_leaves (hL : TokLog TL) (hS : SplitsAs TL Φ) :
    ∀ d s, SatS (parserRunK d) (InitState s) (fun r _ _ => ∀ n, r = some n → RunOK TL s n) := by
  intro d
  cases d with
  | zero => intro s; exact SatS.raise trivial
  | succ d =>
    intro s
    rw [parserRunK_succ]
    unfold C16.level
    have hnps : ∀ tr, NPSpans (TL tr) (npK true (parserRunK d)) := fun tr => npSpans_npK_log hS tr d
    have hH := leaves_hooks (len := s.length) hL (npok_npK d)
      (fun tr => C03.wordContract_act (hL.act tr) _ (hnps tr) s.length)
    refine SatS.bind (SatS.weaken (run_sound_ordH real_WF accept_iu _ hH 1073741824) ?_
      (fun _ _ _ h => h) (fun _ _ => trivial)) (fun res => ?_)
    · intro l e hinit
      refine ⟨[], [], ⟨.nil, fun t ht => by cases ht⟩, .nil,
        ⟨0, 0, Nat.le_refl 0, Nat.le_refl 0, ?_, ?_⟩, ?_, ?_⟩
      · exact hL.init s l e hinit
      · intro x hx; cases hx
      · intro x hx; cases hx
      · intro x hx; cases hx
    · refine SatS.bind SatS.get (fun l => ?_)
      split
      · rename_i n _ _ _
        refine SatS.pure ?_
        rintro l' e' ⟨rfl, hgood⟩ m hm
        cases hm
        obtain ⟨hfin, hcov⟩ := hgood
        obtain ⟨hs, hroot, hseal, g, hends, hdone⟩ := hfin n rfl
        obtain ⟨ts, la, F, l1, e1, htl, hla, hno, hc⟩ := hcov n rfl
        refine ⟨⟨strict_resolve _ n hs hends hdone, noPend_resolve _ n hseal, ?_⟩,
          ts, la, F, l1, e1, htl, hla, hno, ?_⟩
        · rcases hroot with ht | hne
          · exact Or.inl (tainted_resolve _ n hdone ht)
          · obtain ⟨e1', e2'⟩ := ext_pos_resolve hdone
            right; omega
        · rw [leaves_resolve]
          refine fcovers_of_covers (g := g) hc ?_
          intro id p hh hmem c hc'
          obtain ⟨m, hm1, hm2⟩ := pend_mem id p hh n hmem
          exact ((hdone m hm1) id p hm2).2 c hc'
      · exact SatS.pure (fun _ _ _ n hn => by cases hn)

theorem runParserK_leaves (hL : TokLog TL) (hS : SplitsAs TL Φ) {s : Str} {o : Opts}
    {t : List Char} {n : Node}
    (h : (runParserK s o t).1 = .ok (some n)) : RunOK TL s n := by
  obtain ⟨l', e', hr⟩ := runParserK_ok h
  have hinit : InitState s ({ limit := o.limit } : Local)
      { tape := Tape.ofInput s, strict := o.strict, proceed := o.proceed, touched := t } :=
    ⟨rfl, rfl, rfl, rfl, Or.inr ⟨rfl, rfl⟩⟩
  exact (parserRunK_leaves hL hS maxDepth s).ok hinit hr n rfl

theorem parseLoopK_leaves (hL : TokLog TL) (hS : SplitsAs TL Φ) (s : Str) (o : Opts) :
    ∀ (fuel index : Nat) (acc : List Node) (touched : List Char) (ps : List Node),
      (parseLoopK s o fuel index acc touched).1 = .ok ps →
      ∃ rest, ps = acc ++ rest ∧ PartsFrom TL s index rest := by
  intro fuel
  induction fuel with
  | zero => intro index acc touched ps h; simp [parseLoopK] at h
  | succ fuel ih =>
    intro index acc touched ps h
    unfold parseLoopK at h
    split at h
    · rename_i hidx
      rcases hr : runParserK (s.drop index) o touched with ⟨r, t⟩
      rw [hr] at h
      cases r with
      | error e => simp only [] at h; cases h
      | ok v =>
        cases v with
        | none => simp only [] at h; cases h; exact ⟨[], by simp, .nil _⟩
        | some part =>
          simp only [] at h
          have hp : RunOK TL (s.drop index) part := runParserK_leaves hL hS (by rw [hr])
          obtain ⟨rest, hps, hrest⟩ := ih _ _ _ ps h
          exact ⟨part.shift index :: rest, by simp [hps], .cons (Nat.le_of_lt hidx) hp hrest⟩
    · cases h; exact ⟨[], by simp, .nil _⟩

theorem parseK_leaves (hL : TokLog TL) (hS : SplitsAs TL Φ) (s : Str) (o : Opts)
    (parts : List Node)
    (h : (parseK s o).1 = .parts parts) : PartsFrom TL s 0 parts := by
  unfold parseK at h
  rcases hr : runParserK s o [] with ⟨r, t⟩
  rw [hr] at h
  cases r with
  | error e => simp only [] at h; cases h
  | ok v =>
    cases v with
    | none => simp only [] at h; cases h; exact .nil _
    | some first =>
      simp only [] at h
      have hp : RunOK TL s first := runParserK_leaves hL hS (by rw [hr])
      rcases hl : parseLoopK s o (s.length + 1) (max (nextIndex first) 1) [first] t with ⟨r2, t2⟩
      rw [hl] at h
      cases r2 with
      | error e => simp only [] at h; cases h
      | ok ps =>
        simp only [] at h
        cases h
        obtain ⟨rest, hps, hrest⟩ := parseLoopK_leaves hL hS s o _ _ _ _ parts (by rw [hl])
        rw [hps]
        have h0 : first.shift 0 = first := Node.shift_zero first
        have := PartsFrom.cons (TL := TL) (s := s) (i := 0) (n := first) (rest := rest)
          (Nat.zero_le _) (by simpa using hp) (by rw [h0]; simpa using hrest)
        rw [h0] at this
        simpa using this

end

/-- **C05 (model level, token-level half), `parse`, for the real tokenizer, without hypothesis**:
    under the decidable per-input condition `C03.rootEndsChecked s o`, the parts `parse` returns
    are the successive parser runs' results and the leaves of each are covered by the tokens
    delivered to its run -/
theorem C05_total_checked (s : Str) (o : Opts) (parts : List Node)
    (hc : C03.rootEndsChecked s o = true) (h : (parse s o).1 = .parts parts) :
    PartsFrom TLog s 0 parts :=
  parseK_leaves tokLog splitsAs_TLog s o parts (C03.parseK_of_checked hc h)

/-- **C05, token level, spatially**, for the real tokenizer, without hypothesis -/
theorem C05_total_tokens_in_leaves_checked (s : Str) (o : Opts) (parts : List Node)
    (hc : C03.rootEndsChecked s o = true) (h : (parse s o).1 = .parts parts) : ∀ part ∈ parts,
      ∃ k n, k ≤ s.length ∧ part = n.shift k ∧
        ∃ ts la F l e, TLog (ts ++ la) (s.drop k).length F l e ∧ la.length ≤ 1 ∧ TokSorted ts ∧
          (∀ t ∈ ts, Droppable t ∨ IsTimeTok t ∨ InLeaf t (Spec.leaves n)) ∧
          (∀ x ∈ Spec.leaves n, (∃ t ∈ ts, x.1.1 = t.lexpos) ∨ x.2 = true ∨ x.1 = (0, 0)) := by
  intro part hp
  have hpf := parseK_leaves tokLog.sorted splitsAs_TLs s o parts (C03.parseK_of_checked hc h)
  obtain ⟨k, n, _, hk, rfl, hrun⟩ := hpf.mem part hp
  obtain ⟨ts, la, F, l, e, htl, hla, _, hs, hcv, hin⟩ := runOK_sorted hrun
  exact ⟨k, n, hk, rfl, ts, la, F, l, e, htl, hla, hs, hin, leaf_starts_at_token hcv⟩

end Bashlex.C05

#print axioms Bashlex.C05.parserRunK_leaves
#print axioms Bashlex.C05.C05_total_checked
#print axioms Bashlex.C05.C05_total_tokens_in_leaves_checked
