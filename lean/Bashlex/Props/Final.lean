/-
  Glue: the theorems of separate sub-developments combined.  `C03.rootEnds` (Props/C03/RootEndsProof.lean)
  discharges the hypothesis `RootEnds` of the engine-termination theorems (Props/C01Engine.lean) and the
  per-input condition `rootEndsChecked` of the final C05 theorems (Props/C05Final.lean).
-/
import Bashlex.Props.C01Engine
import Bashlex.Props.C05Final
import Bashlex.Props.Totals

namespace Bashlex.Final
open Bashlex

/-- **termination of the LR engine loop**, no hypothesis: on inputs with `16·(|s|+1) < 2^30` neither `parse`
    nor `parsesingle` raises the engine's out-of-fuel marker, for all options (every parser run, top-level
    and nested, performs at most `16·(|s|+1)+1` iterations; the constant comes from the kernel-checked
    ranking certificate regenerated with the tables) -/
theorem C01_engine_terminates (s : Str) (o : Opts) (hs : 16 * (s.length + 1) < 1073741824) :
    (∀ x, (parse s o).1 = .exn x → x ≠ .outOfFuel "LRParser.parse") ∧
    (∀ x, (parsesingle s o).1 = .exn x → x ≠ .outOfFuel "LRParser.parse") :=
  C01E.C01_engine_terminates_conditional C03.rootEnds s o hs

theorem C01_engine_terminates_run (s : Str) (o : Opts) (t : List Char) (x : Exn)
    (hs : 16 * (s.length + 1) < 1073741824) (h : (runParser s o t).1 = .error x) :
    x ≠ .outOfFuel "LRParser.parse" :=
  C01E.C01_engine_terminates_run_conditional C03.rootEnds s o t x hs h

/-- C01 for `parse` without the engine's fuel marker -/
theorem C01_partial_noLRFuel (s : Str) (o : Opts) (hs : 16 * (s.length + 1) < 1073741824) :
    match (parse s o).1 with
    | .parts _ => True
    | .exn x => C01.Disciplined x ∧ x ≠ .outOfFuel "LRParser.parse"
    | _ => False :=
  C01E.C01_partial_noLRFuel_conditional C03.rootEnds s o hs

/-- C05, character level, bodies are leaves: no per-input condition left but the model's fuel bound -/
theorem C05_chars_total (s : Str) (o : Opts) (parts : List Node) (hlen : s.length + 1 < 1073741824)
    (h : (parse s o).1 = .parts parts) :
    ∀ part ∈ parts, ∃ k n, k ≤ s.length ∧ part = n.shift k ∧
      Spec.leaves part = (Spec.leaves n).map (C05.shL k) ∧ C05.CharsTotal (s.drop k) n :=
  C05.C05_chars_total s o parts hlen (Totals.rootEndsChecked_all s o parts h) h

/-- C05, tokens + characters + parts in one statement, no per-input condition left -/
theorem C05_final (s : Str) (o : Opts) (parts : List Node) (hlen : s.length + 1 < 1073741824)
    (h : (parse s o).1 = .parts parts) : C05.PartsFinal s 0 parts :=
  C05.C05_final s o parts hlen (Totals.rootEndsChecked_all s o parts h) h

end Bashlex.Final

#print axioms Bashlex.Final.C01_engine_terminates
#print axioms Bashlex.Final.C01_engine_terminates_run
#print axioms Bashlex.Final.C01_partial_noLRFuel
#print axioms Bashlex.Final.C05_chars_total
#print axioms Bashlex.Final.C05_final
