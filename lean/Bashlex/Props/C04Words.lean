/-
  Property C04, the WORD clauses of `Spec.localTextViol` — part (U1) of what `Unlinked` of
  `Props/C04.lean` left open — at model level, for the nodes outside words (the SPINE), for every
  input and all options, WITHOUT hypotheses:

    `C04_word_starts`       `word-starts-late`: the character before a word / assignment node is a
                            break character (or the word starts the input) — or `StartOpen`:
                            it is a `-` (DASH after `<&` / `>&`, `<<-`; the clause additionally
                            asks for `<` / `&` before the `-`, which is FALSE of the model with a
                            continuation in between: witnesses `cat <&\⏎-x`, `cat <<\⏎-x⏎x⏎`
                            raise `word-starts-late` WITHOUT a context mark — a finding: the
                            clause is over-strict there, bash reads the same), or the word is the
                            first token of a later part of `parse` (what precedes the restart
                            index is not seen by that parser run; never needed on the corpus);
    `C04_word_ends`         `word-cut-short`: the character after the node is a break character or
                            the end of the input — or `EndOpen` (D31 + D32: the final backslash
                            of the input follows; `a<\`: no tree is returned at top level);
                            with D32 (`a<\⏎b`) the clause HOLDS (the span keeps `<\`, the next
                            character is the newline): the defect shows in `word-not-whole`;
    `C04_word_whole_plain`  `word-not-whole` for PLAIN words: a node whose text holds none of
                            `\ ' " backquote $ < >` is one whole shell word (77 % of the word
                            nodes of the corpus are plain);
    `C04_words_single`      the three for `parsesingle` (no restart index);
    `C04_total_conditional'` every signature of `Spec.textOK` is a recorded defect or `Unlinked'`,
                            which is `Unlinked` minus the three linked clauses (hypothesis:
                            C03's `RootEnds`, as for `C04_total_conditional`; it enters through
                            reserved-word / operator / pipe nodes only).

  Token level: `Props/C04/WordBounds.lean` (`tokWB`: every token read by `_readtokenword` starts
  and ends at a boundary and, when plain, holds no break character; the cursor between tokens is
  at a token boundary).

  Tree level (this file): the parametric provenance machinery of `Props/C04/Prov*.lean`,
  instantiated with "a word / assignment node sits at the span of a delivered WORD /
  ASSIGNMENT_WORD token that satisfies `WBTok`" (`LeafW`; the token TYPE needs the sorts of the
  grammar slots handed to `_expandword`: `Ctx.word` / `Ctx.bare` of `C04/Prov.lean` now carry it,
  `C04/Engine.lean` derives it from a kernel-decided check of the generated grammar), the state
  invariant of `Props/C04/Run.lean` extended by "the cursor is at a token boundary" (`I5`; the
  semantic actions keep it: `WB.b_action`; a nested parser runs on a tape of its own:
  `b_nestedOf`), `LR.run_sound_ord`, the loop of `parse`.

  NOT proved (stays in `Unlinked'`, explicitly): `word-not-whole` for words with quoting
  characters (needs the structure of what `_parse_matched_pair` / `_parse_comsub` return against
  `Spec.wordScan`'s own re-scan); the DASH case and the restart case of `StartOpen`; the word
  clauses BELOW words (nodes inside substitutions: other frames, `+cont`); parts, redirects.
  Cross-check by evaluation: `C04/WBValidate.lean` (token level); on the corpus all 10621 word
  nodes outside words satisfy the three statements (0 dash cases, restart case never needed).
-/
import Bashlex.Props.C04.WordBounds
import Bashlex.Props.C04.WBActions
import Bashlex.Props.C04Total

namespace Bashlex.C04
open Bashlex Bashlex.M Bashlex.Node Bashlex.LR Bashlex.Spec
set_option linter.unusedSimpArgs false
set_option linter.unusedVariables false
set_option linter.unnecessarySimpa false

/-! ## the provenance predicate -/

/-- what is known of a token delivered on `line` -/
def TkW (line : Str) (t : Token) : Prop := Tk line t ∧ WBTok line t

/-- a word / assignment node sits at the span of a delivered WORD / ASSIGNMENT_WORD token, moved
    by `j` (the type: the slots of the grammar handed to `_expandword` hold such tokens —
    `C04/Engine.lean`, `argCheck`, decided by the kernel on the generated grammar) -/
def LeafW (line : Str) (j : Nat) : Node → Prop
  | .word p _ _ => ∃ tok, TkW line tok ∧ isWordTy tok = true ∧
      p = (tok.lexpos + j, tok.endlexpos + j)
  | .assignment p _ _ => ∃ tok, TkW line tok ∧ isWordTy tok = true ∧
      p = (tok.lexpos + j, tok.endlexpos + j)
  | _ => True

def spineW (line : Str) (J : Nat) : Pred := ⟨false, LeafW line J⟩
abbrev SpineW (line : Str) (J : Nat) (n : Node) : Prop := G (spineW line J) n

theorem LeafW.shift {line : Str} {j : Nat} {m : Node} (h : LeafW line j m) (k : Nat) :
    LeafW line (j + k) (m.shift k) := by
  cases m with
  | word p w ps =>
    simp only [Node.shift, Node.mapPos, LeafW] at h ⊢
    obtain ⟨tok, h1, h2, rfl⟩ := h
    exact ⟨tok, h1, h2, by simp [Nat.add_assoc]⟩
  | assignment p w ps =>
    simp only [Node.shift, Node.mapPos, LeafW] at h ⊢
    obtain ⟨tok, h1, h2, rfl⟩ := h
    exact ⟨tok, h1, h2, by simp [Nat.add_assoc]⟩
  | _ => simp [Node.shift, Node.mapPos, LeafW]

theorem SpineW.shift {line : Str} {J : Nat} {n : Node} (h : SpineW line J n) (k : Nat) :
    SpineW line (J + k) (n.shift k) :=
  G_shift (W := spineW line J) (W' := spineW line (J + k)) rfl (fun w hw => LeafW.shift hw k) h

theorem ctx_spineW (line : Str) (d : Nat) :
    Ctx (spineW line 0) (TkW line) (C07.nestedOf d) := by
  refine ⟨?_, ?_, ?_, ?_, ?_, ?_, ?_⟩
  · intro tok hT hty
    have hty' : isWordTy tok = true := by
      unfold isWordTy; rcases hty with h | h <;> simp [h]
    refine (C07.C07_nested d tok).weaken ?_ (fun _ h => h)
    rintro w ⟨expanded, parts, rfl, hp⟩
    rw [G_word]
    exact ⟨⟨tok, hT, hty', by simp⟩, fun h => by cases h⟩
  · rintro p s ps h; exact h
  · intro tok hT hty
    have hty' : isWordTy tok = true := by
      unfold isWordTy; simp [hty]
    exact ⟨tok, hT, hty', by simp⟩
  · intro tok w hT hres hw
    exact ⟨True.intro, True.intro, True.intro⟩
  · rintro p w h; exact True.intro
  · exact True.intro
  · intro first op out o oa hd hid h1 h2 h3 ho p hp inp hi
    exact True.intro

theorem resolveOK_spineW (line : Str) (J : Nat) : ResolveOK (spineW line J) := by
  intro p i t o oa hd id p' hd' h hh
  exact True.intro

/-! ## the invariant along the LR stack -/

def VIw (g : C11.Ghost) (line : Str) (sym : Nat) (v : SVal) : Prop :=
  C11.VI g v ∧ C12.VI sym v ∧ GV (spineW line 0) (TkW line) v

/-- the state invariant: that of `C04/Run.lean` and the cursor at a token boundary -/
def I5 (g : C11.Ghost) (l : Local) (e : Env) : Prop := I4 g l e ∧ WB.BI g.line l e

def SIw (g : C11.Ghost) (line : Str) (vs : List (Nat × SVal)) (la : Option (Nat × SVal))
    (l : Local) (e : Env) : Prop :=
  I5 g l e ∧ (∀ x ∈ vs, VIw g line x.1 x.2) ∧ (∀ x, la = some x → VIw g line x.1 x.2)

def FinW (g : C11.Ghost) (line : Str) (v : SVal) (l : Local) (e : Env) : Prop :=
  ∃ sym, VIw g line sym v

theorem gb_of_I5 {g : C11.Ghost} {l : Local} {e : Env} (h : I5 g l e) : WB.GB g.line [] l e := by
  obtain ⟨⟨hgood, hslot⟩, hbi⟩ := h
  obtain ⟨⟨_, hline, _⟩, _, _, hps⟩ := hgood
  exact ⟨⟨hline, hslot, hps⟩, hbi.2⟩

section hooks
variable {g : C11.Ghost} {src : Str} {d : Nat}

/-- a nested parser runs on a parser object and a tape of its own: the caller's cursor stays -/
theorem b_nestedOf (L : Str) (d : Nat) (s : Str) (b : Bool) : WB.BSat L (C07.nestedOf d s b) := by
  intro l e h
  have hrw : M.run (C07.nestedOf d s b) l e =
      match M.run (parserRun d) (C11.nestedLocal l s b) e with
      | (.ok (r, l'), e') => (.ok (r, { l with ps := l'.ps }), e')
      | (.error x, e') => (.error x, e') := C11.run_nestedOf (parserRun d) s b l e
  rw [hrw]
  rcases hr : M.run (parserRun d) (C11.nestedLocal l s b) e with ⟨r, e'⟩
  cases r with
  | error x => exact True.intro
  | ok v =>
    obtain ⟨r, l'⟩ := v
    have hE := C16.nestedEnv_thm d (C11.nestedLocal l s b) e r l' e' rfl rfl hr
    have h' : WB.GB L [] l e' := h.env hE.1.symm
    exact ⟨True.intro, h'⟩

theorem next_W (hg : C11.WFG g) (hline : g.line = (Tape.ofInput src).line) :
    C11.HT (I5 g) nextToken
      (fun t l e => I5 g l e ∧ C11.TokOK g t ∧ TkW (Tape.ofInput src).line t) (fun _ => True) := by
  intro l e hI
  have a1 := next_C04 tokText hg hline l e hI.1
  have a2 := tokWB.next g hg l e ⟨hI.1.1, hI.1.2, hI.2⟩
  rcases hr : nextToken.run l e with ⟨r, e'⟩
  rw [hr] at a1 a2
  cases r with
  | error x => trivial
  | ok v =>
    obtain ⟨t, l'⟩ := v
    simp only [] at a1 a2 ⊢
    refine ⟨⟨a1.1, a2.2⟩, a1.2.1, a1.2.2, ?_⟩
    rw [← hline]; exact a2.1

theorem act_state_W (hnp11 : C11.NPOK g (fun _ => True) (C07.nestedOf d))
    (f : String) (args : List SVal) (hv11 : C11.ArgsOK g args) :
    C11.HT (I5 g) (action (C07.nestedOf d) f args)
      (fun r l e => I5 g l e ∧ C11.VI g r.1) (fun _ => True) := by
  intro l e hI
  have a1 := act_state tokText hnp11 f args hv11 l e hI.1
  have a2 := WB.b_action (L := g.line) (np := C07.nestedOf d) (b_nestedOf g.line d) f args l e
    (gb_of_I5 hI)
  rcases hr : (action (C07.nestedOf d) f args).run l e with ⟨r, e'⟩
  rw [hr] at a1 a2
  cases r with
  | error x => trivial
  | ok v =>
    obtain ⟨r, l'⟩ := v
    exact ⟨⟨a1.1, a2.2.bi⟩, a1.2⟩

theorem hooks_W (hg : C11.WFG g) (hline : g.line = (Tape.ofInput src).line)
    (hnp11 : C11.NPOK g (fun _ => True) (C07.nestedOf d)) :
    HooksOrd realTables (lrHooks (C07.nestedOf d)) (SIw g (Tape.ofInput src).line)
      (FinW g (Tape.ofInput src).line) (fun _ => True) := by
  have hnp12 : C12.NPOK (C07.nestedOf d) := by
    intro s b
    refine Sat.bind_any (fun _ => Sat.bind_any (fun _ => Sat.bind (C12.parserRun_ok C12.sat_nextToken d)
      (fun r hr => ?_)))
    exact Sat.bind_any (fun _ => Sat.bind_any (fun _ => Sat.pure hr))
  have h12 := C12.hooks_ok C12.sat_nextToken hnp12
  have hC0 := ctx_spineW (Tape.ofInput src).line d
  refine ⟨?_, ?_, ?_, ?_, ?_, fun la => Sat.trivial _⟩
  · -- next
    intro vs l e hsi
    obtain ⟨hI, hvs, _⟩ := hsi
    have a2 := h12.next l e
    have a3 : C11.HT (I5 g) (lrHooks (C07.nestedOf d)).next
        (fun la l e => I5 g l e ∧ C11.VI g la.2 ∧
          GV (spineW (Tape.ofInput src).line 0) (TkW (Tape.ofInput src).line) la.2)
        (fun _ => True) := by
      show C11.HT _ (nextToken >>= fun t => pure (symOfTok t, SVal.tok t)) _ _
      refine C11.HT.bind (next_W hg hline) (fun t => C11.HT.pure (fun l e hp => ?_))
      refine ⟨hp.1, ?_, hp.2.2⟩
      intro t' ht'; cases ht'; exact hp.2.1
    have a3' := a3 l e hI
    rcases hr : (lrHooks (C07.nestedOf d)).next.run l e with ⟨r, e'⟩
    rw [hr] at a2 a3'
    cases r with
    | error x => trivial
    | ok v =>
      obtain ⟨la, l'⟩ := v
      exact ⟨a3'.1, hvs, fun x hx => by cases hx; exact ⟨a3'.2.1, a2, a3'.2.2⟩⟩
  · -- shift
    rintro vs la l e ⟨hgood, hvs, hla⟩
    refine ⟨hgood, ?_, fun x hx => by cases hx⟩
    intro x hx
    rcases List.mem_append.mp hx with hx | hx
    · exact hvs x hx
    · simp at hx; subst hx; exact hla _ rfl
  · -- a NEWLINE shifted in state 0
    rintro la l e ⟨hgood, hvs, _⟩
    exact ⟨hgood, hvs, fun x hx => by cases hx⟩
  · -- act
    intro p lhs rhs rest args la hp hargs _ _ l e hsi
    obtain ⟨hI, hvs, hla⟩ := hsi
    have hA : ∀ x ∈ args, VIw g (Tape.ofInput src).line x.1 x.2 :=
      fun x hx => hvs x (List.mem_append_right _ hx)
    have hf2 : Forall2 (VIw g (Tape.ofInput src).line) rhs (args.map (·.2)) := by
      rw [← hargs]; exact forall2_of_mem args hA
    have hv11 : ∀ a, a ∈ args.map (·.2) → C11.VI g a := by
      intro a ha
      obtain ⟨x, hx, rfl⟩ := List.mem_map.mp ha
      exact (hA x hx).1
    have hv5 : ∀ a ∈ args.map (·.2),
        GV (spineW (Tape.ofInput src).line 0) (TkW (Tape.ofInput src).line) a := by
      intro a ha
      obtain ⟨x, hx, rfl⟩ := List.mem_map.mp ha
      exact (hA x hx).2.2
    have hf12 : Forall2 C12.VI rhs (args.map (·.2)) := forall2_imp (fun _ _ h => h.2.1) hf2
    have a1 := act_state_W hnp11 (Gen.prodFuncs.getD p "") _ hv11 l e hI
    have a2 := h12.act p lhs rhs _ hp hf12 l e
    have a4 := sat_action hC0 (fun t ht => ht.1.2) (fun t ht => tk_str ht.1) hp hf12 hv5 l e
    rcases hr : ((lrHooks (C07.nestedOf d)).act p (args.map (·.2))).run l e with ⟨r, e'⟩
    have hr' : (action (C07.nestedOf d) (Gen.prodFuncs.getD p "") (args.map (·.2))).run l e = (r, e') := hr
    rw [hr] at a2 ⊢
    rw [hr'] at a1 a4
    cases r with
    | error x => trivial
    | ok v =>
      obtain ⟨r, l'⟩ := v
      simp only [] at a1 a2 a4 ⊢
      have hall : VIw g (Tape.ofInput src).line lhs r.1 := ⟨a1.2, a2.1, a4⟩
      split
      · exact ⟨lhs, hall⟩
      · refine ⟨a1.1, ?_, hla⟩
        intro x hx
        rcases List.mem_append.mp hx with hx | hx
        · exact hvs x (List.mem_append_left _ hx)
        · simp at hx; subst hx; exact hall
  · -- accept
    rintro vs x la l e ⟨_, hvs, _⟩
    exact ⟨x.1, hvs x (List.mem_append_right _ (by simp))⟩

theorem hooksOK_state_W (hg : C11.WFG g) (hline : g.line = (Tape.ofInput src).line)
    (hnp11 : C11.NPOK g (fun _ => True) (C07.nestedOf d)) :
    C11.HooksOK (I5 g) (lrHooks (C07.nestedOf d)) (C11.VI g) (fun _ => True) := by
  refine ⟨?_, ?_, ?_, fun _ => ⟨trivial, trivial⟩, trivial⟩
  · show C11.SatI (I5 g) (nextToken >>= fun t => pure (symOfTok t, SVal.tok t)) _ _
    refine C11.HT.bind (next_W (src := src) hg hline) (fun t => C11.HT.pure (fun l e hp => ⟨?_, hp.1⟩))
    intro t' ht'; cases ht'; exact hp.2.1
  · intro p args hargs
    exact C11.HT.post (act_state_W hnp11 _ args hargs) (fun r l e h => ⟨h.2, h.1⟩)
  · rintro ⟨sym, v⟩ hv
    show C11.HT _ (match v with | .tok t => pError t | _ => M.foreign "AssertionError" "p_error") _ _
    split
    · rename_i t
      exact C11.HT.weaken (C11.pError_ht (g := g) (N := fun _ => True) (ps := []) t (hv t rfl).1)
        (fun l e h => h.1.1) (fun _ _ _ h => h) (fun _ _ => trivial)
    · exact C11.HT.foreign trivial

end hooks

/-! ## one parser run, `parse` -/

/-- **every parser run**: from a state satisfying the invariant, the word and assignment nodes
    outside words of the returned tree sit at the spans of delivered tokens satisfying `WBTok` -/
theorem parserRun_W : ∀ d src g, C11.WFG g → g.line = (Tape.ofInput src).line →
    C11.HT (I5 g) (parserRun d)
      (fun r _ _ => ∀ n, r = some n → SpineW (Tape.ofInput src).line 0 n) (fun _ => True) := by
  intro d
  cases d with
  | zero => intro src g _ _; exact C11.HT.raise trivial
  | succ d =>
    intro src g hg hline
    have hnp11 : C11.NPOK g (fun _ => True) (C07.nestedOf d) := by
      refine npok_of_run (fun g' hg' => ?_) g
      obtain ⟨s', hl', _⟩ := hg'
      exact C11.HT.post (parserRun_C04 tokText d s' g' ⟨s', hl', by assumption⟩ hl')
        (fun _ _ _ h => h.2)
    rw [C07.parserRun_succ]
    have hrun := run_sound_ord real_WF (lrHooks (C07.nestedOf d))
      (hooks_W (src := src) hg hline hnp11) 1073741824
    have hrunI := C11.run_ok realTables (lrHooks (C07.nestedOf d))
      (hooksOK_state_W (src := src) hg hline hnp11) 1073741824
    have hrun' : C11.HT (I5 g) (LR.run realTables (lrHooks (C07.nestedOf d)) 1073741824)
        (fun res l e => GoodO (FinW g (Tape.ofInput src).line) res l e ∧ I5 g l e)
        (fun _ => True) := by
      intro l e hI
      have h1 := hrun l e ⟨hI, fun x hx => (by cases hx), fun x hx => (by cases hx)⟩
      have h2 := hrunI l e hI
      rcases hr : (LR.run realTables (lrHooks (C07.nestedOf d)) 1073741824).run l e with ⟨r, e'⟩
      rw [hr] at h1 h2
      cases r with
      | ok v => exact ⟨h1, h2.2⟩
      | error x => trivial
    refine C11.HT.bind hrun' (fun res => ?_)
    refine C11.HT.bind C11.HT.get (fun l0 => ?_)
    split
    · rename_i n _ _ _
      refine C11.HT.pure ?_
      rintro l e ⟨_, hfin, hI⟩
      intro m hm
      cases hm
      obtain ⟨sym, _, h12, h5⟩ := hfin
      have hh := hidT_of_treeOK (treeOK_of_vi h12)
      exact G_resolve (resolveOK_spineW _ 0) _ n h5 hh
    · exact C11.HT.pure (fun _ _ h => fun n hn => (by cases hn))

theorem runParser_W {s : Str} {o : Opts} {t : List Char} {n : Node}
    (h : (runParser s o t).1 = .ok (some n)) : SpineW (Tape.ofInput s).line 0 n := by
  unfold runParser at h
  simp only [] at h
  rcases hrun : (parserRun maxDepth).run { limit := o.limit }
      { tape := Tape.ofInput s, strict := o.strict, proceed := o.proceed, touched := t } with ⟨r, env'⟩
  rw [hrun] at h
  simp only [] at h
  cases r with
  | error x => cases h
  | ok v =>
    obtain ⟨a, l'⟩ := v
    have ha : a = some n := by
      simp only [Except.map] at h
      cases h; rfl
    have hI : I5 (C11.topGhost s o) { limit := o.limit }
        { tape := Tape.ofInput s, strict := o.strict, proceed := o.proceed, touched := t } := by
      refine ⟨⟨C11.good_top s o t, rfl⟩, rfl, ?_⟩
      show bndB _ (Tape.ofInput s).idx = true
      rw [C11.ofInput_idx]
      exact bndB_zero _
    exact (C11.HT.ok (parserRun_W maxDepth s (C11.topGhost s o) (C11.topGhost_wf s o) rfl)
      hI hrun) n ha

/-- a top-level part of `parse s` was found by a parser run over `s.drop index`, moved by `index` -/
def PartW (s : Str) (n : Node) : Prop :=
  ∃ index, index ≤ s.length ∧ SpineW (Tape.ofInput (s.drop index)).line index n

theorem parseLoop_W (s : Str) (o : Opts) :
    ∀ (fuel index : Nat) (parts : List Node) (touched : List Char) (ps : List Node),
      (∀ n, n ∈ parts → PartW s n) → (parseLoop s o fuel index parts touched).1 = .ok ps →
      ∀ n, n ∈ ps → PartW s n := by
  intro fuel
  induction fuel with
  | zero => intro index parts touched ps _ h; simp [parseLoop] at h
  | succ fuel ih =>
    intro index parts touched ps hparts h
    unfold parseLoop at h
    split at h
    · rename_i hidx
      rcases hr : runParser (s.drop index) o touched with ⟨r, t⟩
      rw [hr] at h
      cases r with
      | error e => simp only [] at h; cases h
      | ok v =>
        cases v with
        | none => simp only [] at h; cases h; exact hparts
        | some part =>
          simp only [] at h
          have hp := runParser_W (s := s.drop index) (n := part) (by rw [hr])
          refine ih _ _ _ ps ?_ h
          intro n hn
          rcases List.mem_append.mp hn with hn | hn
          · exact hparts n hn
          · simp at hn; subst hn
            refine ⟨index, Nat.le_of_lt hidx, ?_⟩
            have := hp.shift index
            simpa using this
    · cases h; exact hparts

/-- **word provenance for `parse`** (all inputs, all options, no hypotheses) -/
theorem parse_W (s : Str) (o : Opts) (parts : List Node)
    (h : (parse s o).1 = .parts parts) : ∀ n ∈ parts, PartW s n := by
  unfold parse at h
  rcases hr : runParser s o [] with ⟨r, t⟩
  rw [hr] at h
  cases r with
  | error e => simp only [] at h; cases h
  | ok v =>
    cases v with
    | none => simp only [] at h; cases h; intro n hn; cases hn
    | some first =>
      simp only [] at h
      have hp := runParser_W (s := s) (n := first) (by rw [hr])
      rcases hl : parseLoop s o (s.length + 1) (max (nextIndex first) 1) [first] t with ⟨r2, t2⟩
      rw [hl] at h
      cases r2 with
      | error e => simp only [] at h; cases h
      | ok ps =>
        simp only [] at h
        cases h
        exact parseLoop_W s o (s.length + 1) (max (nextIndex first) 1) [first] t _
          (by intro n hn; simp at hn; subst hn
              exact ⟨0, Nat.zero_le _, by simpa using hp⟩)
          (by rw [hl])

theorem parsesingle_W (s : Str) (o : Opts) (n : Node)
    (h : (parsesingle s o).1 = .single (some n)) : SpineW (Tape.ofInput s).line 0 n := by
  unfold parsesingle at h
  rcases hr : runParser s o [] with ⟨r, t⟩
  rw [hr] at h
  cases r with
  | error e => simp only [] at h; cases h
  | ok v =>
    simp only [] at h
    cases h
    exact runParser_W (by rw [hr])

end Bashlex.C04

/-! ## the link to `Spec.localTextViol` -/

namespace Bashlex.C04
open Bashlex Bashlex.M Bashlex.Node Bashlex.LR Bashlex.Spec
set_option linter.unusedSimpArgs false
set_option linter.unusedVariables false

/-- the `word-starts-late` clause of `Spec.localTextViol` for a word at `p` -/
def startClause (s : Str) (p : Span) : Bool :=
  p.1 == 0 || (match s[p.1 - 1]? with
    | some c => isBreakChar c ||
        (c == '-' && p.1 ≥ 2 &&
          (let before := ((stripContinuations (s.take (p.1 - 1))).reverse.dropWhile shellblank)
           before.head? == some '<' || before.head? == some '&'))
    | none => false)

/-- the `word-cut-short` clause -/
def endClause (s : Str) (p : Span) : Bool :=
  match s[p.2]? with | some c => isBreakChar c | none => true

/-- the context mark of the word clauses -/
def rcMark (s : Str) (p : Span) : String :=
  if endsWith (Str.slice s p.1 p.2) ['<', '\\'] || endsWith (Str.slice s p.1 p.2) ['>', '\\'] then
    "+redircont" else ""

/-- the `word-not-whole` clause (linked for plain words: `C04_word_whole_plain`) -/
def wholeViol (s : Str) (p : Span) (ps : List Node) : List Viol :=
  let masked := maskSpans (Str.slice s p.1 p.2) p.1 ((ps.filter isSubst).map Node.pos)
  if isWholeWord masked then []
  else [(if hasSubstOpener masked then "word-not-whole+unrecsub" else "word-not-whole") ++ rcMark s p]

theorem localTextViol_word (s : Str) (p : Span) (w : Str) (ps : List Node) :
    localTextViol s (.word p w ps) =
      wholeViol s p ps ++ (if endClause s p then [] else ["word-cut-short" ++ rcMark s p]) ++
        (if startClause s p then [] else ["word-starts-late"]) := rfl

theorem localTextViol_assignment (s : Str) (p : Span) (w : Str) (ps : List Node) :
    localTextViol s (.assignment p w ps) =
      wholeViol s p ps ++ (if endClause s p then [] else ["word-cut-short" ++ rcMark s p]) ++
        (if startClause s p then [] else ["word-starts-late"]) := rfl

/-! ### from the line of the parser run to the input -/

section line
variable {s : Str} {J : Nat}

theorem line_get {k : Nat} (hk : k < (s.drop J).length) :
    (Tape.ofInput (s.drop J)).line[k]? = s[k + J]? := by
  have e : (s.drop J)[k]? = s[k + J]? := by rw [List.getElem?_drop, Nat.add_comm]
  rcases C13.ofInput_line (s.drop J) with hl | hl
  · rw [hl, e]
  · rw [hl, List.getElem?_append_left hk, e]

theorem line_len : (Tape.ofInput (s.drop J)).line.length ≤ (s.drop J).length + 1 := by
  rcases C13.ofInput_line (s.drop J) with hl | hl
  · rw [hl]; omega
  · rw [hl]; simp

theorem line_none {k : Nat} (hk : (s.drop J).length ≤ k) : s[k + J]? = none := by
  rw [List.getElem?_eq_none_iff]
  rw [List.length_drop] at hk
  omega

theorem line_pair {k : Nat} (h : (Tape.ofInput (s.drop J)).line.drop k = ['\\', '\n']) :
    s.drop (k + J) = ['\\'] ∨ s.drop (k + J) = ['\\', '\n'] := by
  have hd : s.drop (k + J) = (s.drop J).drop k := by rw [List.drop_drop, Nat.add_comm]
  rw [hd]
  rcases C13.ofInput_line (s.drop J) with hl | hl
  · rw [hl] at h; exact Or.inr h
  · rw [hl] at h
    left
    by_cases hle : k ≤ (s.drop J).length
    · rw [List.drop_append_of_le_length hle] at h
      have hlen := congrArg List.length h
      simp only [List.length_append, List.length_cons, List.length_nil] at hlen
      cases hx : (s.drop J).drop k with
      | nil => rw [hx] at hlen; simp at hlen
      | cons c r =>
        rw [hx] at h hlen
        cases r with
        | nil => simp at h; rw [h]
        | cons c' r' => simp at hlen
    · have : ((s.drop J) ++ ['\n']).drop k = [] := by
        apply List.drop_eq_nil_of_le
        rw [List.length_append]
        simp only [List.length_cons, List.length_nil]
        omega
      rw [this] at h; cases h

end line

/-- a token that is neither an operator nor EOF has a non-empty span inside the line -/
theorem tok_bounds {line : Str} {tok : Token} (h : Tk line tok) (hop : opTyB tok = false) :
    tok.lexpos < tok.endlexpos ∧ tok.endlexpos ≤ line.length := by
  cases hv : tok.value with
  | none =>
    exfalso
    obtain ⟨h1, _⟩ := h.1.none hv
    unfold opTyB at hop
    unfold Token.is at h1
    cases hty : tok.ttype with
    | none => rw [hty] at h1; simp at h1
    | some ty =>
      rw [hty] at h1 hop
      have : ty = .EOF := by simpa using h1
      subst this
      revert hop; decide
  | int k =>
    obtain ⟨_, a, e, hp, hae, hel⟩ := h.1.int hv
    simp only [Token.lexpos, Token.endlexpos, hp, Option.getD_some]
    exact ⟨hae, hel⟩
  | str v =>
    obtain ⟨a, e, hp, hae, _, _, _, _, _, halt⟩ := h.1.str hv
    simp only [Token.lexpos, Token.endlexpos, hp, Option.getD_some]
    refine ⟨hae, ?_⟩
    rcases halt with ⟨g1, _⟩ | hnl
    · exact g1
    · exfalso
      unfold nlOver at hnl
      simp only [Bool.and_eq_true, beq_iff_eq] at hnl
      have h1 := hnl.1.1
      unfold Token.is at h1
      unfold opTyB at hop
      cases hty : tok.ttype with
      | none => rw [hty] at h1; simp at h1
      | some ty =>
        rw [hty] at h1 hop
        have : ty = .NEWLINE := by simpa using h1
        subst this
        revert hop; decide

/-- **what is left open of the `word-starts-late` clause** for a word at `p` of a part parsed
    from `s.drop J`:
    * the character before the word is a `-` (the clause asks for `<` / `&` before it, blanks
      skipped: FALSE of the model with a line continuation between the operator and the `-`:
      witnesses `cat <&\⏎-x`, `cat <<\⏎-x⏎x⏎` raise `word-starts-late` without a mark; for
      `<&-x`, `<<-x` the clause holds — not linked here);
    * the word is the first token of a later part of `parse` (`J` is the restart index of the
      loop of `parse`; what precedes it is not seen by this parser run). -/
def StartOpen (s : Str) (J : Nat) (p : Span) : Prop :=
  s[p.1 - 1]? = some '-' ∨ (0 < J ∧ p.1 = J)

/-- **what is left open of the `word-cut-short` clause**: D31 + D32 — the word is followed by the
    final backslash of the input (`a<\`: the WORD `a` spans `a<`; at top level no tree is
    returned for this input: `unexpected EOF`). -/
def EndOpen (s : Str) (p : Span) : Prop :=
  s.drop p.2 = ['\\'] ∨ s.drop p.2 = ['\\', '\n']

theorem start_link {s : Str} {J : Nat} {tok : Token} (hJ : J ≤ s.length)
    (hT : TkW (Tape.ofInput (s.drop J)).line tok) (hW : isWordTy tok = true) :
    startClause s (tok.lexpos + J, tok.endlexpos + J) = true ∨
      StartOpen s J (tok.lexpos + J, tok.endlexpos + J) := by
  have hop' : opTyB tok = false := opTyB_word hW
  obtain ⟨hst, _⟩ := hT.2.facts hop'
  obtain ⟨hae, hel⟩ := tok_bounds hT.1 hop'
  have hlen := line_len (s := s) (J := J)
  · unfold startsB at hst
    simp only [Bool.or_eq_true, beq_iff_eq] at hst
    rcases hst with (h0 | hb) | hd
    · -- the word starts the line
      by_cases hJ0 : J = 0
      · left
        unfold startClause
        simp [h0, hJ0]
      · exact Or.inr (Or.inr ⟨by omega, by simp [h0]⟩)
    · by_cases ha0 : tok.lexpos = 0
      · by_cases hJ0 : J = 0
        · left
          unfold startClause
          simp [ha0, hJ0]
        · exact Or.inr (Or.inr ⟨by omega, by simp [ha0]⟩)
      · left
        unfold brkAt at hb
        have hk : tok.lexpos - 1 < (s.drop J).length := by omega
        rw [line_get hk] at hb
        have e : tok.lexpos - 1 + J = tok.lexpos + J - 1 := by omega
        rw [e] at hb
        unfold startClause
        simp only [Bool.or_eq_true]
        right
        cases hc : s[tok.lexpos + J - 1]? with
        | none => rw [hc] at hb; cases hb
        | some c =>
          rw [hc] at hb
          simp only [] at hb ⊢
          rw [hb]; rfl
    · by_cases ha0 : tok.lexpos = 0
      · by_cases hJ0 : J = 0
        · left
          unfold startClause
          simp [ha0, hJ0]
        · exact Or.inr (Or.inr ⟨by omega, by simp [ha0]⟩)
      · right; left
        have hk : tok.lexpos - 1 < (s.drop J).length := by omega
        rw [line_get hk] at hd
        have e : tok.lexpos - 1 + J = tok.lexpos + J - 1 := by omega
        rw [e] at hd
        exact hd

theorem end_link {s : Str} {J : Nat} {tok : Token} (hJ : J ≤ s.length)
    (hT : TkW (Tape.ofInput (s.drop J)).line tok) (hW : isWordTy tok = true) :
    endClause s (tok.lexpos + J, tok.endlexpos + J) = true ∨
      EndOpen s (tok.lexpos + J, tok.endlexpos + J) := by
  have hop' : opTyB tok = false := opTyB_word hW
  obtain ⟨_, hex⟩ := hT.2.facts hop'
  unfold exitB at hex
  simp only [Bool.or_eq_true, Bool.and_eq_true, decide_eq_true_eq, beq_iff_eq] at hex
  have hlen := line_len (s := s) (J := J)
  by_cases hk : tok.endlexpos < (s.drop J).length
  · rcases hex with (h | h) | h
    · have := line_len (s := s) (J := J)
      rcases C13.ofInput_line (s.drop J) with hl | hl
      · rw [hl] at h; omega
      · rw [hl, List.length_append] at h
        simp only [List.length_cons, List.length_nil] at h
        omega
    · left
      have hb := h.1
      unfold brkAt at hb
      rw [line_get hk] at hb
      unfold endClause
      show (match s[tok.endlexpos + J]? with | some c => isBreakChar c | none => true) = true
      cases hc : s[tok.endlexpos + J]? with
      | none => rfl
      | some c => rw [hc] at hb; exact hb
    · rcases line_pair h with h' | h'
      · exact Or.inr (Or.inl h')
      · exact Or.inr (Or.inr h')
  · left
    unfold endClause
    show (match s[tok.endlexpos + J]? with | some c => isBreakChar c | none => true) = true
    have hk' : (s.drop J).length ≤ tok.endlexpos := Nat.le_of_not_lt hk
    rw [line_none hk']

/-- the word and assignment nodes of the spine, with their tokens -/
theorem spine_word_tok (s : Str) (o : Opts) (parts : List Node)
    (h : (parse s o).1 = .parts parts) :
    ∀ n ∈ parts, ∃ J, J ≤ s.length ∧ ∀ m ∈ spine n, ∀ p w ps,
      (m = .word p w ps ∨ m = .assignment p w ps) →
      ∃ tok, TkW (Tape.ofInput (s.drop J)).line tok ∧ isWordTy tok = true ∧
        p = (tok.lexpos + J, tok.endlexpos + J) := by
  intro n hn
  obtain ⟨J, hJ, hsp⟩ := parse_W s o parts h n hn
  refine ⟨J, hJ, ?_⟩
  intro m hm p w ps hshape
  have hG : ∀ m ∈ nodesOf false n, isTextual m = true →
      LeafW (Tape.ofInput (s.drop J)).line J m := hsp
  have hm' : m ∈ nodesOf false n := by simpa [nodesOf] using hm
  rcases hshape with rfl | rfl
  · exact hG _ hm' rfl
  · exact hG _ hm' rfl

/-- **C04, `word-starts-late`, nodes outside words** — for every input and all options: every
    word / assignment node outside words of every tree `parse` returns satisfies the clause
    (the character before the word is a break character — or the word starts the input), or is
    in one of the explicit cases of `StartOpen` -/
theorem C04_word_starts (s : Str) (o : Opts) (parts : List Node)
    (h : (parse s o).1 = .parts parts) :
    ∀ n ∈ parts, ∃ J, J ≤ s.length ∧ ∀ m ∈ spine n, ∀ p w ps,
      (m = .word p w ps ∨ m = .assignment p w ps) →
      startClause s p = true ∨ StartOpen s J p := by
  intro n hn
  obtain ⟨J, hJ, hall⟩ := spine_word_tok s o parts h n hn
  refine ⟨J, hJ, ?_⟩
  intro m hm p w ps hshape
  obtain ⟨tok, hT, hW, rfl⟩ := hall m hm p w ps hshape
  exact start_link hJ hT hW

/-- **C04, `word-cut-short`, nodes outside words** -/
theorem C04_word_ends (s : Str) (o : Opts) (parts : List Node)
    (h : (parse s o).1 = .parts parts) :
    ∀ n ∈ parts, ∃ J, J ≤ s.length ∧ ∀ m ∈ spine n, ∀ p w ps,
      (m = .word p w ps ∨ m = .assignment p w ps) →
      endClause s p = true ∨ EndOpen s p := by
  intro n hn
  obtain ⟨J, hJ, hall⟩ := spine_word_tok s o parts h n hn
  refine ⟨J, hJ, ?_⟩
  intro m hm p w ps hshape
  obtain ⟨tok, hT, hW, rfl⟩ := hall m hm p w ps hshape
  exact end_link hJ hT hW

end Bashlex.C04

/-! ## the clause `word-not-whole` for plain words -/

namespace Bashlex.C04
open Bashlex Bashlex.M Bashlex.Node Bashlex.LR Bashlex.Spec
set_option linter.unusedSimpArgs false
set_option linter.unusedVariables false

/-- a word without quoting characters and without break characters is whole -/
theorem wordScan_plain : ∀ (v : Str) (fuel : Nat), plainV v = true → nbV v = true →
    v.length < fuel → wordScan fuel 0 [] v = true
  | [], fuel, _, _, _ => by
    cases fuel <;> simp [wordScan]
  | c :: rest, fuel, hp, hn, hf => by
    cases fuel with
    | zero => simp at hf
    | succ fuel =>
      simp only [plainV, nbV, List.all_cons, Bool.and_eq_true, Bool.not_eq_true'] at hp hn
      obtain ⟨hc, hp'⟩ := hp
      obtain ⟨hb, hn'⟩ := hn
      simp only [specialC, Bool.or_eq_false_iff, beq_eq_false_iff_ne, ne_eq] at hc
      obtain ⟨⟨⟨⟨⟨⟨h1, h2⟩, h3⟩, h4⟩, h5⟩, h6⟩, h7⟩ := hc
      have ih := wordScan_plain rest fuel hp' hn' (by simp at hf; omega)
      unfold wordScan
      simp [h1, h2, h3, h5, hb, ih]

theorem mask_all_aux (P : Char → Bool) (hx : P 'x' = true) (base : Nat) (spans : List Span) :
    ∀ (t : Str) (n : Nat), t.all P = true →
      ((t.zipIdx n).map fun (c, i) =>
        if spans.any (fun p => p.1 ≤ base + i && base + i < p.2) then 'x' else c).all P = true
  | [], _, _ => rfl
  | c :: rest, n, h => by
    simp only [List.all_cons, Bool.and_eq_true] at h
    rw [List.zipIdx_cons, List.map_cons, List.all_cons, mask_all_aux P hx base spans rest (n + 1) h.2]
    simp only [Bool.and_true]
    split
    · exact hx
    · exact h.1

/-- masking keeps a property of all characters that `x` has -/
theorem maskSpans_all (P : Char → Bool) (hx : P 'x' = true) (t : Str) (base : Nat)
    (spans : List Span) (h : t.all P = true) : (maskSpans t base spans).all P = true :=
  mask_all_aux P hx base spans t 0 h

theorem maskSpans_length (t : Str) (base : Nat) (spans : List Span) :
    (maskSpans t base spans).length = t.length := by
  unfold maskSpans; simp

/-- a plain text without break characters is a whole word, whatever is masked -/
theorem isWholeWord_plain {t : Str} (hne : t ≠ []) (hp : plainV t = true) (hn : nbV t = true)
    (base : Nat) (spans : List Span) : isWholeWord (maskSpans t base spans) = true := by
  have hl := maskSpans_length t base spans
  have hpos : 0 < t.length := List.length_pos_iff.mpr hne
  unfold isWholeWord
  have hne' : (maskSpans t base spans).isEmpty = false := by
    cases hm : maskSpans t base spans with
    | nil => rw [hm] at hl; simp at hl; omega
    | cons _ _ => rfl
  rw [hne']
  simp only [Bool.not_false, Bool.true_and]
  exact wordScan_plain _ _ (maskSpans_all _ (by decide) t base spans hp)
    (maskSpans_all _ (by decide) t base spans hn) (Nat.lt_succ_self _)

theorem plain_noBackslash : ∀ (t : Str), plainV t = true → t.contains '\\' = false
  | [], _ => rfl
  | c :: rest, h => by
    simp only [plainV, List.all_cons, Bool.and_eq_true, Bool.not_eq_true'] at h
    simp only [List.contains_cons, Bool.or_eq_false_iff, beq_eq_false_iff_ne, ne_eq]
    refine ⟨?_, plain_noBackslash rest h.2⟩
    rintro rfl
    have h1 := h.1
    revert h1; decide

theorem residue_plain {b : Bool} {line : Str} {e : Nat} {r : Str} (h : r ∈ residues b line e)
    (hp : plainV r = true) : r = [] := by
  unfold residues at h
  simp only [List.mem_append, List.mem_cons, List.mem_nil_iff, or_false] at h
  rcases h with ((h | h) | h) | h
  · exact h
  · split at h
    · simp only [List.mem_cons, List.mem_nil_iff, or_false] at h
      subst h; revert hp; decide
    · cases h
  · split at h
    · simp only [List.mem_cons, List.mem_nil_iff, or_false] at h
      rcases h with rfl | rfl <;> (revert hp; decide)
    · cases h
  · split at h
    · simp only [List.mem_cons, List.mem_nil_iff, or_false] at h
      rcases h with rfl | rfl <;> (revert hp; decide)
    · cases h

/-- the text of a word token whose text (in the input) holds no quoting character is its value,
    and holds no break character -/
theorem whole_plain_link {s : Str} {J : Nat} {tok : Token} (hJ : J ≤ s.length)
    (hT : TkW (Tape.ofInput (s.drop J)).line tok) (hW : isWordTy tok = true) (ps : List Node)
    (hp : plainV (Str.slice s (tok.lexpos + J) (tok.endlexpos + J)) = true) :
    wholeViol s (tok.lexpos + J, tok.endlexpos + J) ps = [] := by
  have hnum : tok.is .NUMBER = false ∧ tok.is .EOF = false := by
    unfold isWordTy Token.is at hW
    unfold Token.is
    cases hty : tok.ttype with
    | none => rw [hty] at hW; simp at hW
    | some ty =>
      rw [hty] at hW
      simp only [Bool.or_eq_true, beq_iff_eq, Option.some.injEq] at hW
      rcases hW with rfl | rfl <;> exact ⟨rfl, rfl⟩
  obtain ⟨v, hv⟩ := hT.1.1.value_str hnum.1 hnum.2
  obtain ⟨a, e, hpos, hae, hlen, _, _, _, _, halt⟩ := hT.1.1.str hv
  have hl : tok.lexpos = a := by simp [Token.lexpos, hpos]
  have he : tok.endlexpos = e := by simp [Token.endlexpos, hpos]
  have hvs : tok.valueStr = v := by simp [Token.valueStr, hv]
  have hpok := (hT.2.word hW).2.2
  rw [hvs] at hpok
  rw [hl, he] at hp ⊢
  rcases halt with ⟨g1, g2, g3, r, hr, hrel⟩ | hnl
  rotate_left
  · exfalso
    unfold nlOver at hnl
    simp only [Bool.and_eq_true, beq_iff_eq] at hnl
    have h1 := hnl.1.1
    unfold isWordTy at hW
    unfold Token.is at h1 hW
    cases hty : tok.ttype with
    | none => rw [hty] at h1; simp at h1
    | some ty =>
      rw [hty] at h1 hW
      have : ty = .NEWLINE := by simpa using h1
      subst this
      simp at hW
  have hdel : Del (Str.slice (Tape.ofInput (s.drop J)).line a e) (v ++ r) := delB_iff.mp hrel
  have hts : Str.slice s (a + J) (e + J) = Str.slice (s.drop J) a e := (slice_drop s J a e).symm
  rw [hts] at hp
  have hlpos : 0 < (Str.slice (Tape.ofInput (s.drop J)).line a e).length := by
    rw [slice_length _ g1]; omega
  -- the value is the text
  have key : v = Str.slice (s.drop J) a e ∧ v ≠ [] := by
    rcases C13.ofInput_line (s.drop J) with hline | hline
    · rw [hline] at hdel hlpos
      have hnc := hasCont_of_noBackslash _ (plain_noBackslash _ hp)
      have heq := hdel.eq_of_noCont hnc
      rw [heq, plainV_append, Bool.and_eq_true] at hp
      have hr0 := residue_plain hr hp.2
      rw [hr0, List.append_nil] at heq
      refine ⟨heq.symm, ?_⟩
      intro h0; rw [heq, h0] at hlpos; simp at hlpos
    · rw [hline] at hdel g1 g3 hlpos
      by_cases hle : e ≤ (s.drop J).length
      · have hsl : Str.slice (s.drop J ++ ['\n']) a e = Str.slice (s.drop J) a e := by
          unfold Str.slice
          rw [List.take_append_of_le_length hle]
        rw [hsl] at hdel hlpos
        have hnc := hasCont_of_noBackslash _ (plain_noBackslash _ hp)
        have heq := hdel.eq_of_noCont hnc
        rw [heq, plainV_append, Bool.and_eq_true] at hp
        have hr0 := residue_plain hr hp.2
        rw [hr0, List.append_nil] at heq
        refine ⟨heq.symm, ?_⟩
        intro h0; rw [heq, h0] at hlpos; simp at hlpos
      · -- the span would include the newline `tokenizer.__init__` appended: impossible
        exfalso
        rw [List.length_append] at g1 g3
        simp only [List.length_cons, List.length_nil] at g1 g3
        have hee : e = (s.drop J).length + 1 := by omega
        have hsl : Str.slice (s.drop J ++ ['\n']) a e = Str.slice (s.drop J) a e ++ ['\n'] := by
          unfold Str.slice
          rw [hee, List.take_of_length_le (by simp), List.take_of_length_le (by omega),
            List.drop_append_of_le_length (by omega)]
        rw [hsl] at hdel
        have hpl : plainV (Str.slice (s.drop J) a e ++ ['\n']) = true := by
          rw [plainV_append, hp]; rfl
        have hnc := hasCont_of_noBackslash _ (plain_noBackslash _ hpl)
        have heq := hdel.eq_of_noCont hnc
        rw [heq, plainV_append, Bool.and_eq_true] at hpl
        have hr0 := residue_plain hr hpl.2
        rw [hr0, List.append_nil] at heq
        -- the value ends in a newline: it is plain but holds a break character
        have hpv : plainV v = true := hpl.1
        unfold plainOKB at hpok
        rw [hpv] at hpok
        simp only [Bool.not_true, Bool.false_or] at hpok
        rw [← heq, nbV_append, Bool.and_eq_true] at hpok
        have := hpok.2
        revert this; decide
  obtain ⟨key, hvne⟩ := key
  -- no break character
  have hpv : plainV v = true := by rw [key]; exact hp
  unfold plainOKB at hpok
  rw [hpv] at hpok
  simp only [Bool.not_true, Bool.false_or] at hpok
  rw [key] at hpok
  have hne : Str.slice (s.drop J) a e ≠ [] := by rw [← key]; exact hvne
  unfold wholeViol
  simp only []
  rw [hts, isWholeWord_plain hne hp hpok]
  rfl

/-- **C04, `word-not-whole`, PLAIN words outside words** — for every input and all options: a
    word / assignment node outside words of a tree `parse` returns whose text (the input under
    its span) holds none of `\ ' " backquote $ < >` satisfies the clause: the text is one whole
    shell word (no blank, no metacharacter inside) -/
theorem C04_word_whole_plain (s : Str) (o : Opts) (parts : List Node)
    (h : (parse s o).1 = .parts parts) :
    ∀ n ∈ parts, ∀ m ∈ spine n, ∀ p w ps, (m = .word p w ps ∨ m = .assignment p w ps) →
      plainV (Str.slice s p.1 p.2) = true → wholeViol s p ps = [] := by
  intro n hn m hm p w ps hshape hp
  obtain ⟨J, hJ, hall⟩ := spine_word_tok s o parts h n hn
  obtain ⟨tok, hT, hW, rfl⟩ := hall m hm p w ps hshape
  exact whole_plain_link hJ hT hW ps hp

end Bashlex.C04

/-! ## `parsesingle` -/

namespace Bashlex.C04
open Bashlex Bashlex.M Bashlex.Node Bashlex.LR Bashlex.Spec
set_option linter.unusedSimpArgs false
set_option linter.unusedVariables false

/-- **C04, the three word clauses, `parsesingle`** (one parser run over the whole input: no
    restart index): every word / assignment node outside words satisfies `word-starts-late`
    unless the character before it is a `-`; satisfies `word-cut-short` unless it is followed by
    the final backslash of the input; and satisfies `word-not-whole` when its text holds no
    quoting character -/
theorem C04_words_single (s : Str) (o : Opts) (n : Node)
    (h : (parsesingle s o).1 = .single (some n)) :
    ∀ m ∈ spine n, ∀ p w ps, (m = .word p w ps ∨ m = .assignment p w ps) →
      (startClause s p = true ∨ s[p.1 - 1]? = some '-') ∧
      (endClause s p = true ∨ EndOpen s p) ∧
      (plainV (Str.slice s p.1 p.2) = true → wholeViol s p ps = []) := by
  intro m hm p w ps hshape
  have hsp := parsesingle_W s o n h
  have hG : ∀ m ∈ nodesOf false n, isTextual m = true → LeafW (Tape.ofInput s).line 0 m := hsp
  have hm' : m ∈ nodesOf false n := by simpa [nodesOf] using hm
  have hleaf : ∃ tok, TkW (Tape.ofInput (s.drop 0)).line tok ∧ isWordTy tok = true ∧
      p = (tok.lexpos + 0, tok.endlexpos + 0) := by
    rcases hshape with rfl | rfl
    · exact hG _ hm' rfl
    · exact hG _ hm' rfl
  obtain ⟨tok, hT, hW, rfl⟩ := hleaf
  refine ⟨?_, end_link (Nat.zero_le _) hT hW, whole_plain_link (Nat.zero_le _) hT hW ps⟩
  rcases start_link (Nat.zero_le _) hT hW with h1 | h1 | ⟨h1, _⟩
  · exact Or.inl h1
  · exact Or.inr h1
  · exact absurd h1 (Nat.lt_irrefl 0)

end Bashlex.C04

/-! ## a smaller `Unlinked` -/

namespace Bashlex.C04
open Bashlex Bashlex.M Bashlex.Node Bashlex.LR Bashlex.Spec
set_option linter.unusedSimpArgs false
set_option linter.unusedVariables false

/-- the context mark `textOKN` appends to the local signatures of a word at `p` with parts `ps` -/
def wordCtx (s : Str) (p : Span) (ps : List Node) : String :=
  let t0 := Str.slice s p.1 p.2
  let ctx' := if realCont 0 t0 || (hasContinuation t0 && ps.any isSubst) then addCtx "" "+cont" else ""
  if (ps.filter isSubst).any (fun q => !(localTextViol s q).isEmpty) then addCtx ctx' "+badsub"
  else ctx'

/-- the context in which `textOKN` checks the parts of a word -/
def wordSubCtx (s : Str) (p : Span) (ps : List Node) : String :=
  let t0 := Str.slice s p.1 p.2
  let ctx' := if realCont 0 t0 || (hasContinuation t0 && ps.any isSubst) then addCtx "" "+cont" else ""
  if (stripContinuations (Str.slice s p.1 p.2)).contains '\n' then addCtx ctx' "+nlword" else ctx'

theorem textOKN_word (s : Str) (p : Span) (w : Str) (ps : List Node) :
    textOKN false s "" (.word p w ps) =
      (localTextViol s (.word p w ps)).map (· ++ wordCtx s p ps ++ "") ++
        textOKL false s (wordSubCtx s p ps) ps := by
  unfold textOKN
  rfl

theorem textOKN_assignment (s : Str) (p : Span) (w : Str) (ps : List Node) :
    textOKN false s "" (.assignment p w ps) =
      (localTextViol s (.assignment p w ps)).map (· ++ wordCtx s p ps ++ "") ++
        textOKL false s (wordSubCtx s p ps) ps := by
  unfold textOKN
  rfl

/-- what is left open of the local clauses of a word at `p` (a signature `v0` before the context
    mark): the `word-not-whole` clause for words whose text holds a quoting character (one of
    `\ ' " backquote $ < >`); the two other clauses only in the cases `EndOpen` / `StartOpen` -/
def WordOpen (s : Str) (J : Nat) (p : Span) (ps : List Node) (v0 : String) : Prop :=
  (v0 ∈ wholeViol s p ps ∧ plainV (Str.slice s p.1 p.2) = false) ∨
  (v0 = "word-cut-short" ++ rcMark s p ∧ endClause s p = false ∧ EndOpen s p) ∨
  (v0 = "word-starts-late" ∧ startClause s p = false ∧ StartOpen s J p)

/-- **a smaller `Unlinked`**: as `Unlinked` (`Props/C04.lean`), but for a word / assignment node
    of the spine the signature comes from its parts, from the `word-not-whole` clause OF A WORD
    WHOSE TEXT HOLDS A QUOTING CHARACTER, or from the clauses `word-cut-short` /
    `word-starts-late` IN THE CASES `EndOpen` / `StartOpen` only -/
def Unlinked' (s : Str) (n : Node) (v : String) : Prop :=
  ∃ J, J ≤ s.length ∧ ∃ m ∈ spine n,
    (∀ p w, m ≠ .reservedword p w ∧ m ≠ .operator p w ∧ m ≠ .pipe p w) ∧
    (((∀ p w ps, m ≠ .word p w ps ∧ m ≠ .assignment p w ps) ∧
        (v ∈ textOKN false s "" m ∨ v ∈ localTextViol s m)) ∨
     (∃ p w ps, (m = .word p w ps ∨ m = .assignment p w ps) ∧
        (v ∈ textOKL false s (wordSubCtx s p ps) ps ∨
          ∃ v0, WordOpen s J p ps v0 ∧ v = v0 ++ wordCtx s p ps)))

theorem wordOpen_of_mem {s : Str} {J : Nat} {p : Span} {ps : List Node} {v0 : String}
    (hs : startClause s p = true ∨ StartOpen s J p) (he : endClause s p = true ∨ EndOpen s p)
    (hwp : plainV (Str.slice s p.1 p.2) = true → wholeViol s p ps = [])
    (h : v0 ∈ wholeViol s p ps ++ (if endClause s p then [] else ["word-cut-short" ++ rcMark s p]) ++
        (if startClause s p then [] else ["word-starts-late"])) : WordOpen s J p ps v0 := by
  simp only [List.mem_append] at h
  rcases h with (h | h) | h
  · left
    refine ⟨h, ?_⟩
    cases hpl : plainV (Str.slice s p.1 p.2) with
    | false => rfl
    | true => rw [hwp hpl] at h; cases h
  · cases hc : endClause s p with
    | true => rw [hc] at h; simp at h
    | false =>
      rw [hc] at h
      simp only [Bool.false_eq_true, if_false, List.mem_cons, List.mem_nil_iff, or_false] at h
      rcases he with he | he
      · rw [hc] at he; cases he
      · exact Or.inr (Or.inl ⟨h, hc, he⟩)
  · cases hc : startClause s p with
    | true => rw [hc] at h; simp at h
    | false =>
      rw [hc] at h
      simp only [Bool.false_eq_true, if_false, List.mem_cons, List.mem_nil_iff, or_false] at h
      rcases hs with hs | hs
      · rw [hc] at hs; cases hs
      · exact Or.inr (Or.inr ⟨h, hc, hs⟩)

/-- **C04 (model level) with the word-boundary clauses linked** — for the real tokenizer, for
    every input and all options: every signature `Spec.textOK` raises on a tree returned by
    `parse` is a recorded defect (`C04_known`), or is `Unlinked'`.  The only hypothesis left is
    C03's `RootEnds` (it enters through `C04_partial_spine` only: "the span lies in the input"
    for reserved-word / operator / pipe nodes). -/
theorem C04_total_conditional' (hR : C03.RootEnds) (s : Str) (o : Opts) (parts : List Node)
    (h : (parse s o).1 = .parts parts) :
    ∀ n ∈ parts, ∀ v ∈ Spec.textOK s n, C04_known v = true ∨ Unlinked' s n v := by
  intro n hn v hv
  obtain ⟨m, hm, ho⟩ := textOK_origin s n v hv
  obtain ⟨J, hJ, hall⟩ := spine_word_tok s o parts h n hn
  by_cases hk : ∃ p w, m = .reservedword p w ∨ m = .operator p w ∨ m = .pipe p w
  · obtain ⟨p, w, hshape⟩ := hk
    left
    rcases ho with ⟨hst, _⟩ | ⟨_, hloc⟩
    · rcases hshape with rfl | rfl | rfl <;> cases hst
    · exact C04_partial_spine tokText (C03.tokSpansAll_of_rootEnds hR) s o parts h n hn m hm p w
        hshape v hloc
  · right
    have hnk : ∀ p w, m ≠ .reservedword p w ∧ m ≠ .operator p w ∧ m ≠ .pipe p w := by
      intro p w
      refine ⟨?_, ?_, ?_⟩ <;> (intro he; exact hk ⟨p, w, by simp [he]⟩)
    refine ⟨J, hJ, m, hm, hnk, ?_⟩
    by_cases hw : ∃ p w ps, m = .word p w ps ∨ m = .assignment p w ps
    · right
      obtain ⟨p, w, ps, hshape⟩ := hw
      refine ⟨p, w, ps, hshape, ?_⟩
      obtain ⟨tok, hT, hW, hp⟩ := hall m hm p w ps hshape
      have hs' : startClause s p = true ∨ StartOpen s J p := by rw [hp]; exact start_link hJ hT hW
      have he' : endClause s p = true ∨ EndOpen s p := by rw [hp]; exact end_link hJ hT hW
      have hwp : plainV (Str.slice s p.1 p.2) = true → wholeViol s p ps = [] := by
        rw [hp]; exact whole_plain_link hJ hT hW ps
      have hmem : v ∈ textOKN false s "" m := by
        rcases ho with ⟨_, h1⟩ | ⟨hst, _⟩
        · exact h1
        · rcases hshape with rfl | rfl <;> cases hst
      rcases hshape with rfl | rfl
      · rw [textOKN_word, List.mem_append] at hmem
        rcases hmem with hmem | hmem
        · right
          obtain ⟨v0, hv0, rfl⟩ := List.mem_map.mp hmem
          rw [localTextViol_word] at hv0
          exact ⟨v0, wordOpen_of_mem hs' he' hwp hv0, by simp⟩
        · exact Or.inl hmem
      · rw [textOKN_assignment, List.mem_append] at hmem
        rcases hmem with hmem | hmem
        · right
          obtain ⟨v0, hv0, rfl⟩ := List.mem_map.mp hmem
          rw [localTextViol_assignment] at hv0
          exact ⟨v0, wordOpen_of_mem hs' he' hwp hv0, by simp⟩
        · exact Or.inl hmem
    · left
      refine ⟨?_, ?_⟩
      · intro p w ps
        refine ⟨?_, ?_⟩ <;> (intro he; exact hw ⟨p, w, ps, by simp [he]⟩)
      · rcases ho with ⟨_, h1⟩ | ⟨_, h2⟩
        · exact Or.inl h1
        · exact Or.inr h2

/-- `Unlinked'` is smaller than `Unlinked` -/
theorem unlinked_of_unlinked' {s : Str} {n : Node} {v : String} (h : Unlinked' s n v) :
    Unlinked s n v := by
  obtain ⟨J, hJ, m, hm, hnk, hcase⟩ := h
  refine ⟨m, hm, hnk, ?_⟩
  rcases hcase with ⟨_, h1⟩ | ⟨p, w, ps, hshape, h1⟩
  · exact h1
  · left
    rcases hshape with rfl | rfl
    · rw [textOKN_word, List.mem_append]
      rcases h1 with h1 | ⟨v0, hv0, rfl⟩
      · exact Or.inr h1
      · left
        refine List.mem_map.mpr ⟨v0, ?_, by simp⟩
        rw [localTextViol_word]
        simp only [List.mem_append]
        rcases hv0 with ⟨h, _⟩ | ⟨rfl, hc, _⟩ | ⟨rfl, hc, _⟩
        · exact Or.inl (Or.inl h)
        · exact Or.inl (Or.inr (by rw [hc]; simp))
        · exact Or.inr (by rw [hc]; simp)
    · rw [textOKN_assignment, List.mem_append]
      rcases h1 with h1 | ⟨v0, hv0, rfl⟩
      · exact Or.inr h1
      · left
        refine List.mem_map.mpr ⟨v0, ?_, by simp⟩
        rw [localTextViol_assignment]
        simp only [List.mem_append]
        rcases hv0 with ⟨h, _⟩ | ⟨rfl, hc, _⟩ | ⟨rfl, hc, _⟩
        · exact Or.inl (Or.inl h)
        · exact Or.inl (Or.inr (by rw [hc]; simp))
        · exact Or.inr (by rw [hc]; simp)

end Bashlex.C04

#print axioms Bashlex.C04.parse_W
#print axioms Bashlex.C04.C04_word_starts
#print axioms Bashlex.C04.C04_word_ends
#print axioms Bashlex.C04.C04_word_whole_plain
#print axioms Bashlex.C04.C04_words_single
#print axioms Bashlex.C04.C04_total_conditional'
#print axioms Bashlex.C04.unlinked_of_unlinked'
