/-
  C06 for `split`, part 1: the tokenizer on a plain word.
-/
import Bashlex.Props.C14.Prefix
import Bashlex.Props.C11.Tokens

namespace Bashlex.C06S
open Bashlex Bashlex.M Bashlex.C10 Bashlex.C14
set_option linter.unusedSimpArgs false
set_option linter.unusedVariables false

/-- the environment after a lookup of `sh_syntaxtab[c]` -/
def touch (e : Env) (c : Char) : Env := (e.answer (.syntab c)).2

@[simp] theorem touch_tape (e : Env) (c : Char) : (touch e c).tape = e.tape := by
  simp only [touch, Env.answer]; split <;> rfl

theorem run_syn' (c : Char) (l : Local) (e : Env) :
    M.run (syn c) l e = (.ok (synClass c, l), touch e c) := rfl

theorem run_shellquote (c : Char) (l : Local) (e : Env) :
    M.run (shellquote c) l e = (.ok ((synClass c).quote, l), touch e c) := rfl
theorem run_shellexp (c : Char) (l : Local) (e : Env) :
    M.run (shellexp c) l e = (.ok ((synClass c).exp, l), touch e c) := rfl
theorem run_shellbreak (c : Char) (l : Local) (e : Env) :
    M.run (shellbreak c) l e = (.ok ((synClass c).brk, l), touch e c) := rfl
theorem run_shellmeta (c : Char) (l : Local) (e : Env) :
    M.run (shellmeta c) l e = (.ok ((synClass c).metac, l), touch e c) := rfl

theorem run_currentDelimiter (l : Local) (e : Env) :
    M.run currentDelimiter l e = (.ok (l.dstack.getLast?, l), e) := rfl

/-! ## the character class -/

/-- plain characters: everything but blanks, newline, carriage return (white space for `shlex`),
    backslash, quotes, `$`, backquote, `~`, `#` and the shell metacharacters -/
def plainCh (c : Char) : Bool :=
  !(c == ' ' || c == '\t' || c == '\n' || c == '\r' || c == '\\' || c == '\'' || c == '"' ||
    c == '$' || c == '`' || c == '~' || c == '#' || c == '|' || c == '&' || c == ';' ||
    c == '(' || c == ')' || c == '<' || c == '>')

/-- the characters that end a plain word in a `split` input: blank, tab, the final newline -/
def endCh (c : Char) : Bool := c == ' ' || c == '\t' || c == '\n'

theorem plainCh_facts {c : Char} (h : plainCh c = true) :
    c ≠ ' ' ∧ c ≠ '\t' ∧ c ≠ '\n' ∧ c ≠ '\r' ∧ c ≠ '\\' ∧ c ≠ '\'' ∧ c ≠ '"' ∧ c ≠ '$' ∧ c ≠ '`' ∧
    c ≠ '~' ∧ c ≠ '#' ∧ c ≠ '|' ∧ c ≠ '&' ∧ c ≠ ';' ∧ c ≠ '(' ∧ c ≠ ')' ∧ c ≠ '<' ∧ c ≠ '>' := by
  simp only [plainCh, Bool.not_eq_true', Bool.or_eq_false_iff, beq_eq_false_iff_ne, ne_eq] at h
  obtain ⟨⟨⟨⟨⟨⟨⟨⟨⟨⟨⟨⟨⟨⟨⟨⟨⟨h1, h2⟩, h3⟩, h4⟩, h5⟩, h6⟩, h7⟩, h8⟩, h9⟩, h10⟩, h11⟩, h12⟩, h13⟩, h14⟩, h15⟩, h16⟩, h17⟩, h18⟩ := h
  exact ⟨h1, h2, h3, h4, h5, h6, h7, h8, h9, h10, h11, h12, h13, h14, h15, h16, h17, h18⟩

theorem plain_syn {c : Char} (h : plainCh c = true) :
    (synClass c).quote = false ∧ (synClass c).exp = false ∧ (synClass c).brk = false ∧
    (synClass c).metac = false := by
  obtain ⟨h1, h2, h3, h4, h5, h6, h7, h8, h9, h10, h11, h12, h13, h14, h15, h16, h17, h18⟩ :=
    plainCh_facts h
  simp [synClass, *]

theorem end_syn {c : Char} (h : endCh c = true) :
    (synClass c).quote = false ∧ (synClass c).exp = false ∧ (synClass c).brk = true ∧ c ≠ '\\' := by
  simp only [endCh, Bool.or_eq_true, beq_iff_eq] at h
  rcases h with (h | h) | h <;> subst h <;> decide

/-! ## the state invariant -/

/-- not the operator `<&` / `>&` (after which a word of digits or a dash is read differently) -/
def noLA (t : Token) : Prop := t.is .LESS_AND = false ∧ t.is .GREATER_AND = false

/-- a top-level tokenizer between two characters of a word: own tape in the environment, empty
    look-ahead slot, no open delimiter, no pending here-document, recorded positions `ps`,
    the parser-state flags `regexp`/`dblparen` (set by semantic actions only) clear -/
structure Inv (ps : List Nat) (l : Local) : Prop where
  tape : l.tape = none
  eol : l.eolLookahead = none
  dstack : l.dstack = []
  pos : l.positions = ps
  rs : l.redirstack = []
  regexp : l.ps.regexp = false
  dblparen : l.ps.dblparen = false
  last : noLA l.lastReadToken

/-! ## `_readtokenword`: one iteration -/

/-- a plain character is appended; the next character is read -/
theorem run_step_plain (st : RWState) (c d : Char) (ps : List Nat) (l : Local) (e : Env)
    (hinv : Inv ps l) (hc : st.c = some c) (hpn : st.passNext = false) (hp : plainCh c = true)
    (hlt : e.tape.idx < e.tape.line.length) (hd : e.tape.line[e.tape.idx]? = some d)
    (hdb : d ≠ '\\') :
    ∃ e', M.run (readtokenwordStep st) l e =
        (.ok (.inl { handleescapedchar st c with c := some d }, l), e') ∧
      e'.tape = { e.tape with idx := e.tape.idx + 1 } := by
  obtain ⟨q1, q2, q3, q4⟩ := plain_syn hp
  have hbs : c ≠ '\\' := (plainCh_facts hp).2.2.2.2.1
  unfold readtokenwordStep
  simp only [hc, hpn, Bool.false_eq_true, if_false, bind_assoc, pure_bind]
  rw [M.run_bind, run_currentDelimiter]
  simp only [hinv.dstack, List.getLast?_nil, beq_iff_eq, hbs, if_false]
  rw [M.run_bind, run_shellquote]
  simp only [q1, Bool.false_eq_true, if_false]
  rw [M.run_bind, run_shellexp]
  simp only [q2, Bool.false_eq_true, if_false, Bool.not_false, if_true, pure_bind]
  rw [M.run_bind, run_shellbreak]
  simp only [q3, Bool.false_eq_true, if_false, pure_bind]
  rw [M.run_bind, run_currentDelimiter]
  simp only [hinv.dstack, List.getLast?_nil]
  rw [M.run_bind]
  rw [run_getc_plain _ l _ d hinv.tape hinv.eol (by simpa using hlt) (by simpa using hd)
    (by simp [hdb])]
  simp only [M.run_pure]
  refine ⟨_, rfl, ?_⟩
  simp [envAt]

theorem run_ungetc_top (c : Option Char) (l : Local) (e : Env) (hl : l.tape = none)
    (h0 : e.tape.idx ≠ 0) (hle : e.tape.idx ≤ e.tape.line.length) :
    M.run (ungetc c) l e = (.ok ((), l), envAt e (e.tape.idx - 1)) := by
  rw [run_ungetc, tapeOf_none hl]
  have hne : e.tape.line.isEmpty = false := by
    cases hL : e.tape.line with
    | nil => rw [hL] at hle; simp at hle; exact absurd hle h0
    | cons a t => rfl
  have : e.tape.ungetc = (true, { e.tape with idx := e.tape.idx - 1 }) := by
    unfold Tape.ungetc
    simp [hne, h0, hle]
  rw [this]
  simp only [putL_none hl, putE_none hl]
  rfl

/-- a break character ends the word and is pushed back -/
theorem run_step_end (st : RWState) (b : Char) (ps : List Nat) (l : Local) (e : Env)
    (hinv : Inv ps l) (hc : st.c = some b) (hpn : st.passNext = false) (hb : endCh b = true)
    (h0 : e.tape.idx ≠ 0) (hle : e.tape.idx ≤ e.tape.line.length) :
    ∃ e', M.run (readtokenwordStep st) l e = (.ok (.inr st, l), e') ∧
      e'.tape = { e.tape with idx := e.tape.idx - 1 } := by
  obtain ⟨q1, q2, q3, hbs⟩ := end_syn hb
  unfold readtokenwordStep
  simp only [hc, hpn, Bool.false_eq_true, if_false, bind_assoc, pure_bind]
  rw [M.run_bind, run_currentDelimiter]
  simp only [hinv.dstack, List.getLast?_nil, beq_iff_eq, hbs, if_false]
  rw [M.run_bind, run_shellquote]
  simp only [q1, Bool.false_eq_true, if_false]
  rw [M.run_bind, run_shellexp]
  simp only [q2, Bool.false_eq_true, if_false, Bool.not_false, if_true, pure_bind]
  rw [M.run_bind, run_shellbreak]
  simp only [q3, if_true]
  rw [M.run_bind, run_ungetc_top _ _ _ hinv.tape (by simpa using h0) (by simpa using hle)]
  simp only [M.run_pure]
  obtain ⟨c0, ad, dp, q, pn, ca, tw⟩ := st
  simp only at hc hpn
  subst hc hpn
  exact ⟨_, rfl, by simp [envAt]⟩

/-! ## `_readtokenword`: the loop over a plain word -/

theorem drop_cons_facts {L : Str} {i : Nat} {d : Char} {r : Str} (h : L.drop i = d :: r) :
    i < L.length ∧ L[i]? = some d ∧ L.drop (i + 1) = r := by
  have h1 : L[i]? = some d := by rw [← List.head?_drop, h]; rfl
  have h2 : i < L.length := by
    rcases Nat.lt_or_ge i L.length with h | h
    · exact h
    · rw [List.getElem?_eq_none h] at h1; cases h1
  refine ⟨h2, h1, ?_⟩
  rw [← List.tail_drop, h]; rfl

/-- what the loop does to the dictionary `d` of `_readtokenword` on the plain characters `w` -/
structure WordSt (st st' : RWState) (w : Str) (b : Char) : Prop where
  c : st'.c = some b
  tw : st'.tokenword = st.tokenword ++ w
  dp : st'.dollarPresent = st.dollarPresent
  q : st'.quoted = st.quoted
  pn : st'.passNext = false
  ca : st'.compoundAssignment = st.compoundAssignment

theorem run_word_loop (ps : List Nat) (l : Local) (hinv : Inv ps l) (b : Char) (rest : Str)
    (hb : endCh b = true) :
    ∀ (w : Str) (st : RWState) (c : Char) (fuel : Nat) (e : Env),
      st.c = some c → st.passNext = false → plainCh c = true → (∀ x ∈ w, plainCh x = true) →
      e.tape.line.drop e.tape.idx = w ++ b :: rest → w.length + 2 ≤ fuel →
      ∃ st' e', M.run (M.loop "_readtokenword" readtokenwordStep fuel st) l e = (.ok (st', l), e') ∧
        e'.tape = { e.tape with idx := e.tape.idx + w.length } ∧ WordSt st st' (c :: w) b := by
  intro w
  induction w with
  | nil =>
    intro st c fuel e hc hpn hp _ hdrop hf
    obtain ⟨f, rfl⟩ : ∃ f, fuel = f + 2 := ⟨fuel - 2, by simp at hf; omega⟩
    obtain ⟨h1, h2, h3⟩ := drop_cons_facts hdrop
    obtain ⟨e1, hr1, he1⟩ := run_step_plain st c b ps l e hinv hc hpn hp h1 h2 (end_syn hb).2.2.2
    rw [run_loop_succ, hr1]
    simp only []
    obtain ⟨e2, hr2, he2⟩ := run_step_end { handleescapedchar st c with c := some b } b ps l e1 hinv
      rfl (by simp [handleescapedchar, hpn]) hb (by rw [he1]; simp) (by rw [he1]; simp; omega)
    rw [run_loop_succ, hr2]
    simp only []
    refine ⟨_, _, rfl, ?_, ?_⟩
    · rw [he2, he1]; simp
    · have hd : (c == '$') = false := by
        have := (plainCh_facts hp).2.2.2.2.2.2.2.1; simp [this]
      constructor <;> simp [handleescapedchar, hpn, hd]
  | cons x w ih =>
    intro st c fuel e hc hpn hp hw hdrop hf
    obtain ⟨f, rfl⟩ : ∃ f, fuel = f + 1 := ⟨fuel - 1, by simp at hf; omega⟩
    obtain ⟨h1, h2, h3⟩ := drop_cons_facts hdrop
    have hx : plainCh x = true := hw x (by simp)
    obtain ⟨e1, hr1, he1⟩ := run_step_plain st c x ps l e hinv hc hpn hp h1 h2
      (plainCh_facts hx).2.2.2.2.1
    rw [run_loop_succ, hr1]
    simp only []
    obtain ⟨st', e2, hr2, he2, hst⟩ := ih { handleescapedchar st c with c := some x } x f e1 rfl
      (by simp [handleescapedchar, hpn]) hx (fun y hy => hw y (by simp [hy]))
      (by rw [he1]; exact h3) (by simp at hf ⊢; omega)
    refine ⟨st', e2, hr2, ?_, ?_⟩
    · rw [he2, he1]; simp; omega
    · have hd : (c == '$') = false := by
        have := (plainCh_facts hp).2.2.2.2.2.2.2.1; simp [this]
      obtain ⟨a1, a2, a3, a4, a5, a6⟩ := hst
      constructor
      · exact a1
      · rw [a2]; simp [handleescapedchar]
      · rw [a3]; simp [handleescapedchar, hd]
      · rw [a4]; simp [handleescapedchar]
      · exact a5
      · rw [a6]; simp [handleescapedchar]

end Bashlex.C06S
