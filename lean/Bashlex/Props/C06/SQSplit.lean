/-
  C06 for `split`, quoted inputs, part 6: the loop of `split` over an input made of chunks.
-/
import Bashlex.Props.C06.SQNext
import Bashlex.Props.C06.SSplit
import Bashlex.Props.C06.SQSpec
import Bashlex.Props.C06

namespace Bashlex.C06S
open Bashlex Bashlex.M Bashlex.C10 Bashlex.C14 Bashlex.C06 Bashlex.Spec
set_option linter.unusedSimpArgs false
set_option linter.unusedVariables false

/-- an input of `split`: blanks and chunks; `cs` lists the chunks with their "holds a quoting
    character" flags -/
inductive QInputL : Str → List (Str × Bool) → Prop
  | nil : QInputL [] []
  | blank (b : Char) (r : Str) (cs : List (Str × Bool)) : shellblank b = true → QInputL r cs →
      QInputL (b :: r) cs
  | chunk (t : Str) (q : Bool) (r : Str) (cs : List (Str × Bool)) : Items t q → t ≠ [] →
      (r = [] ∨ ∃ b r', r = b :: r' ∧ shellblank b = true) → QInputL r cs →
      QInputL (t ++ r) ((t, q) :: cs)

theorem items_false_plain {t : Str} {q : Bool} (h : Items t q) (hq : q = false) :
    ∀ x ∈ t, plainCh x = true := by
  induction h with
  | nil => simp
  | plain c r q hp _ ih =>
    intro x hx
    rcases List.mem_cons.1 hx with rfl | hx
    · exact hp
    · exact ih hq x hx
  | esc => cases hq
  | sq => cases hq
  | dq => cases hq

theorem qr_plain : ∀ (t : Str), (∀ x ∈ t, plainCh x = true) → qr 0 t = t
  | [], _ => by rw [qr.eq_def]
  | c :: t, h => by
    obtain ⟨f1, f2, f3, f4, f5, f6, f7, _⟩ := plainCh_facts (h c (by simp))
    rw [qr0_ch c t f5 f6 f7, qr_plain t (fun x hx => h x (by simp [hx]))]

theorem specWords_qr : ∀ w ∈ specWords, quoteRemove (fun _ => false) w = w := by decide

/-- what `split` requires of a chunk beyond its shape: the hypotheses of `C06_plain` -/
def chunkGood (tq : Str × Bool) : Bool := PlainOK tq.1

/-- a chunk: the string yielded is its quote removal -/
theorem run_body_chunk (s line : Str) (acc : List Str) (l l' : Local) (e e' : Env) (tok : Token)
    (a b : Nat) (t : Str) (q : Bool) (hr : M.run nextToken l e = (.ok (tok, l'), e'))
    (htok : TokOK a b t q tok) (hslice : Str.slice s a b = t) (ht : Items t q) (hne : t ≠ [])
    (hgood : chunkGood (t, q) = true) (hn : a + 1 ≠ line.length) :
    M.run (splitBody s line true acc) l e =
      (.ok (.inl (acc ++ [quoteRemove (fun _ => false) t]), l'), e') := by
  have hpl : PlainOK t = true := hgood
  have hnoexp : noExp t = true := by
    simp only [PlainOK, Bool.and_eq_true] at hpl; exact hpl.1.1.1.1
  have hlex : tok.lexpos = a := by simp [Token.lexpos, htok.pos]
  have hend : tok.endlexpos = b := by simp [Token.endlexpos, htok.pos]
  unfold splitBody
  rw [M.run_bind, hr]
  simp only [htok.neof, hlex, hend, Bool.true_and, Bool.false_or, beq_iff_eq, hn, if_false]
  by_cases hW : wordLike tok = true
  · have hW2 : (tok.is .WORD || tok.is .ASSIGNMENT_WORD) = true := hW
    obtain ⟨hv, hq⟩ := htok.word hW
    have hvs : tok.valueStr = t := by simp [Token.valueStr, hv]
    have hC := C06_plain' t hpl
    cases t with
    | nil => exact absurd rfl hne
    | cons c t' =>
      have hbeq : ((c :: t').head? == some '"') = (c == '"') := by simp
      rw [hbeq] at hC
      cases q with
      | true =>
        simp only [hW2, if_true, hq, hvs, List.head?_cons, pure_bind]
        rw [expandwordinternal_plain splitNP tok _ (by rw [hvs]; exact hnoexp), hvs, hC]
        rfl
      | false =>
        have hc := (plainCh_facts (items_false_plain ht rfl c (by simp))).2.2.2.2.2.2.1
        have hcf : (c == '"') = false := by simp [hc]
        rw [hcf] at hC
        simp only [hW2, if_true, hq, hvs, Bool.false_eq_true, if_false, pure_bind]
        rw [expandwordinternal_plain splitNP tok _ (by rw [hvs]; exact hnoexp), hvs, hC]
        rfl
  · have hW' : wordLike tok = false := by simpa using hW
    have hW2 : (tok.is .WORD || tok.is .ASSIGNMENT_WORD) = false := hW'
    have hval : quoteRemove (fun _ => false) t = t := by
      rcases htok.nonword hW' with h | h
      · rw [quoteRemove_eq_qr, qr_plain t (items_false_plain ht h)]
      · exact specWords_qr t h
    simp only [hW2, Bool.false_eq_true, if_false, hslice, hval]
    rfl

theorem run_split_qloop (s : Str) (hlen : s.length + 3 ≤ 1073741824) :
    ∀ (r : Str) (cs : List (Str × Bool)), QInputL r cs →
    ∀ (bs : Str) (i : Nat) (acc : List Str) (l : Local) (e : Env) (fuel : Nat),
      (∀ x ∈ bs, shellblank x = true) → i + (bs ++ r).length = s.length → s.drop i = bs ++ r →
      InvT l → e.tape.line = s ++ ['\n'] → e.tape.idx = i → (bs ++ r).length + 2 ≤ fuel →
      (∀ tq ∈ cs, chunkGood tq = true) →
      ∃ l' e', M.run (M.loop "split" (splitBody s (s ++ ['\n']) true) fuel acc) l e =
        (.ok (acc ++ cs.map (fun tq => quoteRemove (fun _ => false) tq.1), l'), e') := by
  intro r cs h
  induction h with
  | nil =>
    intro bs i acc l e fuel hbs hi hdrop hinv hline hidx hf hgood
    simp only [List.append_nil] at hi hdrop hf
    obtain ⟨f, rfl⟩ : ∃ f, fuel = f + 1 := ⟨fuel - 1, by omega⟩
    have hile : i ≤ s.length := by omega
    have hld : e.tape.line.drop e.tape.idx = bs ++ ['\n'] := by
      rw [hline, hidx, List.drop_append_of_le_length hile, hdrop]
    have hll : e.tape.line.length + 2 ≤ 1073741824 := by rw [hline]; simp; omega
    have h1 := run_nextToken_end l hinv bs hbs e hld hll
    refine ⟨afterNL l (e.tape.idx + bs.length), envAt e (e.tape.idx + bs.length + 1), ?_⟩
    rw [run_loop_succ, run_body_end s _ acc l _ e _ _ h1 (by rw [hidx]; simp; omega)]
    simp
  | blank b r cs hb _ ih =>
    intro bs i acc l e fuel hbs hi hdrop hinv hline hidx hf hgood
    have e1 : bs ++ b :: r = (bs ++ [b]) ++ r := by simp
    refine ih (bs ++ [b]) i acc l e fuel ?_ (by rw [← e1]; exact hi) (by rw [← e1]; exact hdrop) hinv
      hline hidx (by rw [← e1]; exact hf) hgood
    intro x hx
    rcases List.mem_append.1 hx with hx | hx
    · exact hbs x hx
    · simp at hx; rw [hx]; exact hb
  | chunk t q r cs ht hne hr _ ih =>
    intro bs i acc l e fuel hbs hi hdrop hinv hline hidx hf hgood
    obtain ⟨f, rfl⟩ : ∃ f, fuel = f + 1 := ⟨fuel - 1, by omega⟩
    have hile : i ≤ s.length := by omega
    have hld : e.tape.line.drop e.tape.idx = (bs ++ (t ++ r)) ++ ['\n'] := by
      rw [hline, hidx, List.drop_append_of_le_length hile, hdrop]
    have hll : e.tape.line.length + 2 ≤ 1073741824 := by rw [hline]; simp; omega
    obtain ⟨x, t', rfl⟩ : ∃ x t', t = x :: t' := by
      cases t with
      | nil => exact absurd rfl hne
      | cons x t' => exact ⟨x, t', rfl⟩
    obtain ⟨b, rest, hbrest, hb⟩ : ∃ b rest, r ++ ['\n'] = b :: rest ∧ endCh b = true := by
      rcases hr with rfl | ⟨y, r', rfl, hy⟩
      · exact ⟨'\n', [], rfl, by decide⟩
      · exact ⟨y, r' ++ ['\n'], rfl, blank_endCh hy⟩
    have hld' : e.tape.line.drop e.tape.idx = bs ++ x :: (t' ++ b :: rest) := by
      rw [hld, ← hbrest]; simp
    obtain ⟨tok, l', e', hrun, hinv', he', htok⟩ :=
      run_nextToken_chunk l hinv x b bs t' rest q hbs ht hb e hld' hll
    have hsl : Str.slice s (e.tape.idx + bs.length) (e.tape.idx + bs.length + (x :: t').length) =
        x :: t' := by
      have := slice_word s i bs (x :: t') r hdrop
      rw [hidx]; exact this
    have hlens : (bs ++ (x :: t' ++ r)).length = bs.length + (x :: t').length + r.length := by
      simp; omega
    have hg1 : chunkGood (x :: t', q) = true := hgood _ (by simp)
    have hbody := run_body_chunk s (s ++ ['\n']) acc l l' e e' tok _ _ (x :: t') q hrun htok hsl ht hne hg1
      (by rw [hidx]; simp at hi ⊢; omega)
    have hidx' : e'.tape.idx = i + bs.length + (x :: t').length := by rw [he', hidx]
    obtain ⟨l2, e2, hfin⟩ := ih [] (i + bs.length + (x :: t').length)
      (acc ++ [quoteRemove (fun _ => false) (x :: t')]) l' e' f (by simp)
      (by simp only [List.nil_append]; rw [hlens] at hi; omega)
      (by
        simp only [List.nil_append]
        have : i + bs.length + (x :: t').length = i + (bs ++ (x :: t')).length := by simp; omega
        rw [this, ← List.drop_drop, hdrop]
        have : bs ++ (x :: t' ++ r) = (bs ++ x :: t') ++ r := by simp
        rw [this, List.drop_left])
      hinv' (by rw [he']; exact hline) hidx'
      (by simp only [List.nil_append]; rw [hlens] at hf; simp at hf ⊢; omega)
      (fun tq htq => hgood tq (by simp [htq]))
    refine ⟨l2, e2, ?_⟩
    rw [run_loop_succ, hbody]
    simp only []
    rw [hfin]
    simp

end Bashlex.C06S
