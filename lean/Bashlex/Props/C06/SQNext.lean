/-
  C06 for `split`, quoted inputs, part 5: `token()` on a chunk.
-/
import Bashlex.Props.C06.SQLoop

namespace Bashlex.C06S
open Bashlex Bashlex.M Bashlex.C10 Bashlex.C14
set_option linter.unusedSimpArgs false
set_option linter.unusedVariables false

/-- `run_skip` for a first character that may be a backslash -/
theorem run_skip' (l : Local) (hl : l.tape = none) (heol : l.eolLookahead = none) (c : Char)
    (rest : Str) (hc : shellblank c = false) (hcb : NextOK c rest) :
    ∀ (bs : Str) (F : Nat) (e : Env), (∀ x ∈ bs, shellblank x = true) →
      e.tape.line.drop e.tape.idx = bs ++ c :: rest → bs.length + 1 ≤ F →
      M.run (getc true >>= fun c0 => M.loop "_readtoken" blankBody F c0) l e =
        (.ok (some c, l), envAt e (e.tape.idx + bs.length + 1)) := by
  intro bs
  induction bs with
  | nil =>
    intro F e _ hd hF
    obtain ⟨f, rfl⟩ : ∃ f, F = f + 1 := ⟨F - 1, by simp at hF; omega⟩
    rw [M.run_bind, run_getc_true l hl heol e c rest hd hcb]
    simp only []
    rw [run_blankLoop_nonblank c hc f]
    rfl
  | cons b bs ih =>
    intro F e hbs hd hF
    obtain ⟨f, rfl⟩ : ∃ f, F = f + 1 := ⟨F - 1, by simp at hF; omega⟩
    obtain ⟨h1, h2, h3⟩ := drop_cons_facts hd
    have hb : shellblank b = true := hbs b (by simp)
    rw [M.run_bind, run_getc_plain true l e b hl heol h1 h2 (blank_not_bs hb)]
    simp only []
    rw [loop_blank_step b hb f]
    rw [ih f (envAt e (e.tape.idx + 1)) (fun x hx => hbs x (by simp [hx])) (by simpa [envAt] using h3)
      (by simp at hF ⊢; omega)]
    have : e.tape.idx + 1 + bs.length + 1 = e.tape.idx + (bs.length + 1) + 1 := by omega
    simp only [envAt, List.length_cons, this]

theorem run_readtoken_skip' (l : Local) (hl : l.tape = none) (heol : l.eolLookahead = none)
    (c : Char) (rest bs : Str) (hc : shellblank c = false) (hcb : NextOK c rest) (e : Env)
    (hbs : ∀ x ∈ bs, shellblank x = true) (hd : e.tape.line.drop e.tape.idx = bs ++ c :: rest)
    (hlen : e.tape.line.length + 2 ≤ 1073741824) :
    M.run readtoken l e = M.run (readtokenRest (some c)) l (envAt e (e.tape.idx + bs.length + 1)) := by
  have := drop_len hd
  rw [readtoken_eq', M.run_bind, run_skip' l hl heol c rest hc hcb bs _ e hbs hd (by omega)]

/-- the first character of a chunk -/
theorem items_head {x : Char} {r : Str} {q : Bool} (h : Items (x :: r) q) :
    (synClass x).metac = false ∧ x ≠ '#' ∧ x ≠ '\n' ∧ shellblank x = false := by
  cases h with
  | plain _ _ _ hp _ =>
    obtain ⟨f1, f2, f3, f4, f5, f6, f7, f8, f9, f10, f11, _⟩ := plainCh_facts hp
    exact ⟨(plain_syn hp).2.2.2, f11, f3, by simp [shellblank, f1, f2]⟩
  | esc => decide
  | sq => decide
  | dq => decide

theorem run_rest_chunk (l : Local) (hinv : Inv [] l) (x b : Char) (t' rest : Str) (q : Bool)
    (ht : Items (x :: t') q) (hb : endCh b = true) (e : Env) (p : Nat) (hidx : e.tape.idx = p + 1)
    (hd : e.tape.line.drop e.tape.idx = t' ++ b :: rest)
    (hlen : e.tape.line.length + 2 ≤ 1073741824) :
    ∃ tok l' e', M.run (readtokenRest (some x)) l e = (.ok (.inr tok, l'), e') ∧ Inv [] l' ∧
      e'.tape = { e.tape with idx := p + (x :: t').length } ∧
      TokOK p (p + (x :: t').length) (x :: t') q tok := by
  obtain ⟨q4, f11, f3, _⟩ := items_head ht
  have hle : e.tape.idx ≤ e.tape.line.length := by
    have := drop_len hd; omega
  have hwl := drop_len hd
  unfold readtokenRest
  simp only [pure_bind, beq_iff_eq, f11, f3, if_false, bind_assoc]
  rw [M.run_bind, run_recordpos]
  simp only [tapeOf_none hinv.tape, hinv.pos, List.nil_append]
  rw [M.run_bind, run_get]
  simp only [hinv.regexp, Bool.false_eq_true, if_false]
  rw [M.run_bind, run_shellmeta]
  simp only [q4, Bool.false_and, Bool.false_eq_true, if_false]
  rw [M.run_bind, run_get]
  simp only [hinv.last.1, hinv.last.2, Bool.or_false, Bool.and_false, Bool.false_eq_true, if_false]
  rw [M.run_bind, run_get]
  simp only [hinv.last.1, hinv.last.2, Bool.or_false, Bool.and_false, Bool.false_eq_true, if_false]
  have hinv1 : Inv [e.tape.idx - 1] { l with positions := [e.tape.idx - 1] } := hinv.setPos _
  obtain ⟨st', e2, hr2, he2, hst⟩ := run_items_loop [e.tape.idx - 1] _ hinv1 b rest hb (x :: t') q ht
    { c := some x, allDigit := isDigit x } x (t' ++ b :: rest) 1073741824 (touch e x) p rfl rfl rfl
    (by simpa using hd) (by simpa using hidx) (by simpa using hle) (by simpa using hlen)
    (by simp only [List.length_cons] at hwl ⊢; omega)
  unfold readtokenword loopFuel
  simp only [pure_bind]
  rw [M.run_bind, M.run_bind, show M.loop "_readtokenword" readtokenwordStep = wloop from rfl, hr2]
  simp only []
  have hidx2 : e2.tape.idx = p + (x :: t').length := by rw [he2]
  have hp1 : e.tape.idx - 1 = p := by omega
  obtain ⟨tok, l', hr3, hinv3, htok⟩ := run_finishWord st' (e.tape.idx - 1) (p + (x :: t').length) _ e2
    hinv1 hidx2 (by simp; omega) (by rw [hst.tw]; simp) hst.ca hst.dp
    (by rw [hst.c]; intro h; injection h with h; subst h; revert hb; decide)
    (by rw [hst.c]; intro h; injection h with h; subst h; revert hb; decide) q (by rw [hst.qd]; simp)
  rw [hr3]
  refine ⟨tok, l', e2, rfl, hinv3, ?_, ?_⟩
  · rw [he2]; simp
  · have : st'.tokenword = x :: t' := by rw [hst.tw]; simp
    rw [this, hp1] at htok; exact htok

/-- `token()` on a chunk after blanks: a token over exactly the chunk, `QUOTED` iff it holds a
    quoting character -/
theorem run_nextToken_chunk (l : Local) (hinv : InvT l) (x b : Char) (bs t' rest : Str) (q : Bool)
    (hbs : ∀ y ∈ bs, shellblank y = true) (ht : Items (x :: t') q) (hb : endCh b = true) (e : Env)
    (hd : e.tape.line.drop e.tape.idx = bs ++ x :: (t' ++ b :: rest))
    (hlen : e.tape.line.length + 2 ≤ 1073741824) :
    ∃ tok l' e', M.run nextToken l e = (.ok (tok, l'), e') ∧ InvT l' ∧
      e'.tape = { e.tape with idx := e.tape.idx + bs.length + (x :: t').length } ∧
      TokOK (e.tape.idx + bs.length) (e.tape.idx + bs.length + (x :: t').length) (x :: t') q tok := by
  obtain ⟨_, _, _, hxb⟩ := items_head ht
  have hd2 : (envAt e (e.tape.idx + bs.length + 1)).tape.line.drop
      (envAt e (e.tape.idx + bs.length + 1)).tape.idx = t' ++ b :: rest := by
    show e.tape.line.drop (e.tape.idx + bs.length + 1) = _
    rw [Nat.add_assoc, ← List.drop_drop, hd]
    simp
  obtain ⟨tok, l1, e1, hr1, hinv1, he1, htok⟩ := run_rest_chunk (histStep l) hinv.hist x b t' rest q ht hb
    (envAt e (e.tape.idx + bs.length + 1)) (e.tape.idx + bs.length) rfl hd2
    (by simpa [envAt] using hlen)
  rw [nextToken_eq, M.run_bind, run_modify]
  simp only []
  rw [M.run_bind,
    run_readtoken_skip' (histStep l) hinv.hist.tape hinv.hist.eol x _ bs hxb
      (items_next ht hb rfl) e hbs hd hlen, hr1]
  simp only [M.run_pure, M.run_bind, run_modify]
  refine ⟨tok, _, e1, rfl, ⟨hinv1.tape, hinv1.eol, hinv1.dstack, hinv1.pos, hinv1.rs, hinv1.regexp,
    hinv1.dblparen, htok.la⟩, ?_, ?_⟩
  · rw [he1]; simp [envAt]
  · exact htok

end Bashlex.C06S
