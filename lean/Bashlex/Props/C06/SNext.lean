/-
  C06 for `split`, part 3: `token()` on a plain word, and on the final newline.
-/
import Bashlex.Props.C06.SFinish

namespace Bashlex.C06S
open Bashlex Bashlex.M Bashlex.C10 Bashlex.C14
set_option linter.unusedSimpArgs false
set_option linter.unusedVariables false

/-! ## skipping blanks -/

theorem blank_not_bs {b : Char} (h : shellblank b = true) : (b == '\\' && true) = false := by
  unfold shellblank at h
  rcases Bool.or_eq_true_iff.1 h with h | h <;> rw [beq_iff_eq.1 h] <;> rfl

theorem loop_blank_step (b : Char) (hb : shellblank b = true) (f : Nat) (l : Local) (e : Env) :
    M.run (M.loop "_readtoken" blankBody (f + 1) (some b)) l e =
      M.run (getc true >>= fun c0 => M.loop "_readtoken" blankBody f c0) l e := by
  show M.run (blankBody (some b) >>= _) l e = _
  unfold blankBody
  simp only [hb, if_true, bind_assoc, pure_bind]

/-- the loop at the head of `_readtoken` skips the blanks `bs` and stops at `c` -/
theorem run_skip (l : Local) (hl : l.tape = none) (heol : l.eolLookahead = none) (c : Char)
    (rest : Str) (hc : shellblank c = false) (hcb : c ≠ '\\') :
    ∀ (bs : Str) (F : Nat) (e : Env), (∀ x ∈ bs, shellblank x = true) →
      e.tape.line.drop e.tape.idx = bs ++ c :: rest → bs.length + 1 ≤ F →
      M.run (getc true >>= fun c0 => M.loop "_readtoken" blankBody F c0) l e =
        (.ok (some c, l), envAt e (e.tape.idx + bs.length + 1)) := by
  intro bs
  induction bs with
  | nil =>
    intro F e _ hd hF
    obtain ⟨f, rfl⟩ : ∃ f, F = f + 1 := ⟨F - 1, by simp at hF; omega⟩
    obtain ⟨h1, h2, h3⟩ := drop_cons_facts hd
    rw [M.run_bind, run_getc_plain true l e c hl heol h1 h2 (by simp [hcb])]
    simp only []
    rw [run_blankLoop_nonblank c hc f]
    rfl
  | cons b bs ih =>
    intro F e hbs hd hF
    obtain ⟨f, rfl⟩ : ∃ f, F = f + 1 := ⟨F - 1, by simp at hF; omega⟩
    obtain ⟨h1, h2, h3⟩ := drop_cons_facts hd
    have hb : shellblank b = true := hbs b (by simp)
    rw [M.run_bind, run_getc_plain true l e b hl heol h1 h2 (blank_not_bs hb)]
    simp only []
    rw [loop_blank_step b hb f]
    rw [ih f (envAt e (e.tape.idx + 1)) (fun x hx => hbs x (by simp [hx])) (by simpa [envAt] using h3)
      (by simp at hF ⊢; omega)]
    have : e.tape.idx + 1 + bs.length + 1 = e.tape.idx + (bs.length + 1) + 1 := by omega
    simp only [envAt, List.length_cons, this]

/-! ## `_readtoken` after its loop, on the first character of a plain word -/

theorem drop_len {L : Str} {i : Nat} {w : Str} {b : Char} {r : Str} (h : L.drop i = w ++ b :: r) :
    i + w.length + 1 ≤ L.length := by
  have := congrArg List.length h
  simp at this
  omega

theorem run_rest_word (l : Local) (hinv : Inv [] l) (c b : Char) (w rest : Str)
    (hp : plainCh c = true) (hw : ∀ x ∈ w, plainCh x = true) (hb : endCh b = true) (e : Env)
    (h0 : e.tape.idx ≠ 0) (hd : e.tape.line.drop e.tape.idx = w ++ b :: rest)
    (hlen : e.tape.line.length + 2 ≤ 1073741824) :
    ∃ tok l' e', M.run (readtokenRest (some c)) l e = (.ok (.inr tok, l'), e') ∧ Inv [] l' ∧
      e'.tape = { e.tape with idx := e.tape.idx + w.length } ∧
      TokOK (e.tape.idx - 1) (e.tape.idx + w.length) (c :: w) false tok := by
  obtain ⟨q1, q2, q3, q4⟩ := plain_syn hp
  obtain ⟨f1, f2, f3, f4, f5, f6, f7, f8, f9, f10, f11, f12, f13, f14, f15, f16, f17, f18⟩ :=
    plainCh_facts hp
  unfold readtokenRest
  simp only [pure_bind, beq_iff_eq, f11, f3, if_false, bind_assoc]
  rw [M.run_bind, run_recordpos]
  simp only [tapeOf_none hinv.tape, hinv.pos, List.nil_append]
  rw [M.run_bind, run_get]
  simp only [hinv.regexp, Bool.false_eq_true, if_false]
  rw [M.run_bind, run_shellmeta]
  simp only [q4, Bool.false_and, Bool.false_eq_true, if_false]
  rw [M.run_bind, run_get]
  simp only [hinv.last.1, hinv.last.2, Bool.or_false, Bool.and_false, Bool.false_eq_true, if_false]
  rw [M.run_bind, run_get]
  simp only [hinv.last.1, hinv.last.2, Bool.or_false, Bool.and_false, Bool.false_eq_true, if_false]
  have hinv1 : Inv [e.tape.idx - 1] { l with positions := [e.tape.idx - 1] } := hinv.setPos _
  -- the loop
  have hwl := drop_len hd
  obtain ⟨st', e2, hr2, he2, hst⟩ := run_word_loop [e.tape.idx - 1] _ hinv1 b rest hb w
    { c := some c, allDigit := isDigit c } c 1073741824 (touch e c) rfl rfl hp hw
    (by simpa using hd) (by omega)
  unfold readtokenword loopFuel
  simp only [pure_bind]
  rw [M.run_bind, M.run_bind, hr2]
  simp only []
  have hidx2 : e2.tape.idx = e.tape.idx + w.length := by rw [he2]; simp
  obtain ⟨tok, l', hr3, hinv3, htok⟩ := run_finishWord st' (e.tape.idx - 1) (e.tape.idx + w.length) _ e2
    hinv1 hidx2 (by omega) (by rw [hst.tw]; simp) hst.ca hst.dp
    (by rw [hst.c]; intro h; injection h with h; subst h; revert hb; decide)
    (by rw [hst.c]; intro h; injection h with h; subst h; revert hb; decide) false hst.q
  rw [hr3]
  refine ⟨tok, l', e2, rfl, hinv3, ?_, ?_⟩
  · rw [he2]; simp
  · have : st'.tokenword = c :: w := by rw [hst.tw]; simp
    rw [this] at htok; exact htok

/-! ## `token()` -/

/-- the tokenizer of `split` between two tokens -/
structure InvT (l : Local) : Prop where
  tape : l.tape = none
  eol : l.eolLookahead = none
  dstack : l.dstack = []
  pos : l.positions = []
  rs : l.redirstack = []
  regexp : l.ps.regexp = false
  dblparen : l.ps.dblparen = false
  cur : noLA l.currentToken

theorem InvT.hist {l : Local} (h : InvT l) : Inv [] (histStep l) :=
  ⟨h.tape, h.eol, h.dstack, h.pos, h.rs, h.regexp, h.dblparen, h.cur⟩

theorem readtoken_eq' : readtoken =
    (getc true >>= fun c0 => M.loop "_readtoken" blankBody 1073741824 c0) >>= readtokenRest := by
  rw [readtoken_eq]; simp only [bind_assoc]

theorem run_readtoken_skip (l : Local) (hl : l.tape = none) (heol : l.eolLookahead = none)
    (c : Char) (rest bs : Str) (hc : shellblank c = false) (hcb : c ≠ '\\') (e : Env)
    (hbs : ∀ x ∈ bs, shellblank x = true) (hd : e.tape.line.drop e.tape.idx = bs ++ c :: rest)
    (hlen : e.tape.line.length + 2 ≤ 1073741824) :
    M.run readtoken l e = M.run (readtokenRest (some c)) l (envAt e (e.tape.idx + bs.length + 1)) := by
  have := drop_len hd
  rw [readtoken_eq', M.run_bind, run_skip l hl heol c rest hc hcb bs _ e hbs hd (by omega)]

theorem nextToken_eq : nextToken = (do
    modify histStep
    let cur ← match ← readtoken with
      | .inl ty => do
        recordpos
        createtoken ty ty.enumValue
      | .inr t => pure t
    modify fun l => { l with currentToken := cur }
    modify fun l => { l with ps := { l.ps with eoftoken := false } }
    return cur) := rfl

/-- `token()` on a plain word after blanks: a token over exactly the word -/
theorem run_nextToken_word (l : Local) (hinv : InvT l) (c b : Char) (bs w rest : Str)
    (hbs : ∀ x ∈ bs, shellblank x = true) (hp : plainCh c = true)
    (hw : ∀ x ∈ w, plainCh x = true) (hb : endCh b = true) (e : Env)
    (hd : e.tape.line.drop e.tape.idx = bs ++ c :: (w ++ b :: rest))
    (hlen : e.tape.line.length + 2 ≤ 1073741824) :
    ∃ tok l' e', M.run nextToken l e = (.ok (tok, l'), e') ∧ InvT l' ∧
      e'.tape = { e.tape with idx := e.tape.idx + bs.length + 1 + w.length } ∧
      TokOK (e.tape.idx + bs.length) (e.tape.idx + bs.length + 1 + w.length) (c :: w) false tok := by
  obtain ⟨f1, f2, f3, f4, f5, f6⟩ := plainCh_facts hp
  have hcb : shellblank c = false := by simp [shellblank, f1, f2]
  have hd2 : (envAt e (e.tape.idx + bs.length + 1)).tape.line.drop
      (envAt e (e.tape.idx + bs.length + 1)).tape.idx = w ++ b :: rest := by
    show e.tape.line.drop (e.tape.idx + bs.length + 1) = _
    rw [Nat.add_assoc, ← List.drop_drop, hd]
    simp
  obtain ⟨tok, l1, e1, hr1, hinv1, he1, htok⟩ := run_rest_word (histStep l) hinv.hist c b w rest hp hw hb
    (envAt e (e.tape.idx + bs.length + 1)) (by simp [envAt]) hd2 (by simpa [envAt] using hlen)
  rw [nextToken_eq, M.run_bind, run_modify]
  simp only []
  rw [M.run_bind,
    run_readtoken_skip (histStep l) hinv.hist.tape hinv.hist.eol c _ bs hcb f5 e hbs hd hlen, hr1]
  simp only [M.run_pure, M.run_bind, run_modify]
  refine ⟨tok, _, e1, rfl, ⟨hinv1.tape, hinv1.eol, hinv1.dstack, hinv1.pos, hinv1.rs, hinv1.regexp,
    hinv1.dblparen, htok.la⟩, ?_, ?_⟩
  · rw [he1]; simp [envAt]
  · simpa [envAt] using htok

/-- `token()` on trailing blanks and the final newline: the NEWLINE token -/
theorem run_nextToken_end (l : Local) (hinv : InvT l) (bs : Str)
    (hbs : ∀ x ∈ bs, shellblank x = true) (e : Env)
    (hd : e.tape.line.drop e.tape.idx = bs ++ ['\n'])
    (hlen : e.tape.line.length + 2 ≤ 1073741824) :
    M.run nextToken l e =
      (.ok (tokNL (e.tape.idx + bs.length), afterNL l (e.tape.idx + bs.length)),
        envAt e (e.tape.idx + bs.length + 1)) := by
  have hd2 : (envAt e (e.tape.idx + bs.length)).tape.line.drop
      (envAt e (e.tape.idx + bs.length)).tape.idx = [] ++ '\n' :: [] := by
    show e.tape.line.drop (e.tape.idx + bs.length) = _
    rw [← List.drop_drop, hd]
    simp
  have h1 := run_readtoken_skip (histStep l) hinv.hist.tape hinv.hist.eol '\n' [] bs (by decide)
    (by decide) e hbs hd hlen
  have h2 := run_readtoken_skip (histStep l) hinv.hist.tape hinv.hist.eol '\n' [] [] (by decide)
    (by decide) (envAt e (e.tape.idx + bs.length)) (by simp) hd2 (by simpa [envAt] using hlen)
  have h3 : M.run readtoken (histStep l) e =
      M.run readtoken (histStep l) (envAt e (e.tape.idx + bs.length)) := by
    rw [h1, h2]; rfl
  have h4 : M.run nextToken l e = M.run nextToken l (envAt e (e.tape.idx + bs.length)) := by
    rw [nextToken_eq, M.run_bind, run_modify, M.run_bind, run_modify]
    simp only []
    exact run_bind_congr _ h3
  obtain ⟨q1, q2, q3⟩ := drop_cons_facts hd2
  rw [h4, run_nextToken_nl l _ hinv.tape hinv.eol hinv.rs hinv.pos q1 q2]
  rfl

end Bashlex.C06S
