/-
  C06 for `split`, specification side, quoted inputs: POSIX `shlex.split` computes, for every raw
  chunk of the input, its shell quote removal — wherever the two state machines agree.
-/
import Bashlex.Props.C06.SWords

namespace Bashlex.C06S
open Bashlex Bashlex.Spec
set_option linter.unusedSimpArgs false
set_option linter.unusedVariables false

/-- `Spec.quoteRemoveGo` without fuel, index and verbatim mask -/
def qr : QState → Str → Str
  | _, [] => []
  | 1, c :: rest => if c == '\'' then qr 0 rest else c :: qr 1 rest
  | 2, c :: rest =>
    if c == '"' then qr 0 rest
    else if c == '\\' then
      match rest with
      | d :: rest' =>
        if d == '\n' then qr 2 rest'
        else if d == '$' || d == '`' || d == '"' || d == '\\' then d :: qr 2 rest'
        else c :: d :: qr 2 rest'
      | [] => [c]
    else c :: qr 2 rest
  | _, c :: rest =>
    if c == '\\' then
      match rest with
      | d :: rest' => if d == '\n' then qr 0 rest' else d :: qr 0 rest'
      | [] => []
    else if c == '\'' then qr 1 rest
    else if c == '"' then qr 2 rest
    else c :: qr 0 rest

theorem quoteRemoveGo_nil' (fuel : Nat) (st : QState) (i : Nat) :
    quoteRemoveGo (fun _ => false) fuel st i [] = [] := by
  cases fuel <;> simp [quoteRemoveGo]

theorem quoteRemoveGo_eq_qr : ∀ (n : Nat) (t : Str) (fuel : Nat) (st : QState) (i : Nat),
    t.length ≤ n → t.length < fuel → quoteRemoveGo (fun _ => false) fuel st i t = qr st t := by
  intro n
  induction n with
  | zero =>
    intro t fuel st i hn hf
    have : t = [] := List.eq_nil_of_length_eq_zero (by omega)
    subst this
    rw [quoteRemoveGo_nil']; rw [qr.eq_def]
  | succ n ih =>
    intro t fuel st i hn hf
    cases t with
    | nil => rw [quoteRemoveGo_nil']; rw [qr.eq_def]
    | cons c rest =>
      obtain ⟨f, rfl⟩ : ∃ f, fuel = f + 1 := ⟨fuel - 1, by simp at hf; omega⟩
      have hr : rest.length ≤ n := by simp at hn; omega
      have hrf : rest.length < f := by simp at hf; omega
      have ih0 := fun st i => ih rest f st i hr hrf
      cases rest with
      | nil =>
        rcases st with _ | _ | _ | st <;>
          simp [quoteRemoveGo, qr, quoteRemoveGo_nil']
      | cons d rest' =>
        have hr' : rest'.length ≤ n := by simp at hr; omega
        have hrf' : rest'.length < f := by simp at hrf; omega
        have ih1 := fun st i => ih rest' f st i hr' hrf'
        rcases st with _ | _ | _ | st
        · conv => rhs; rw [qr.eq_def]
          simp only [quoteRemoveGo, Bool.false_eq_true, if_false, ih0, ih1]
        · conv => rhs; rw [qr.eq_def]
          simp only [quoteRemoveGo, Bool.false_eq_true, if_false, ih0, ih1, Nat.zero_add]
        · conv => rhs; rw [qr.eq_def]
          simp only [quoteRemoveGo, Bool.false_eq_true, if_false, ih0, ih1, Nat.zero_add, Nat.reduceAdd]
          have key : (d == '$' || d == '`' || d == '"' || d == '\\') = false →
              qr 2 (d :: rest') = d :: qr 2 rest' := by
            intro h
            simp only [Bool.or_eq_false_iff] at h
            rw [qr.eq_def]; simp [h.1.2, h.2]
          cases hq : (d == '$' || d == '`' || d == '"' || d == '\\')
          · simp only [key hq, Bool.false_eq_true, if_false]
          · simp only [if_true]
        · conv => rhs; rw [qr.eq_def]
          simp only [quoteRemoveGo, Bool.false_eq_true, if_false, ih0, ih1]

theorem quoteRemove_eq_qr (t : Str) : quoteRemove (fun _ => false) t = qr 0 t :=
  quoteRemoveGo_eq_qr t.length t _ 0 0 (Nat.le_refl _) (by omega)

/-! ## one step of `qr` -/

theorem qr1_close (x : Str) : qr 1 ('\'' :: x) = qr 0 x := by rw [qr.eq_def]; simp
theorem qr1_ch (c : Char) (x : Str) (h : c ≠ '\'') : qr 1 (c :: x) = c :: qr 1 x := by
  rw [qr.eq_def]; simp [h]
theorem qr2_close (x : Str) : qr 2 ('"' :: x) = qr 0 x := by rw [qr.eq_def]; simp
theorem qr2_ch (c : Char) (x : Str) (h1 : c ≠ '"') (h2 : c ≠ '\\') : qr 2 (c :: x) = c :: qr 2 x := by
  rw [qr.eq_def]; simp [h1, h2]
theorem qr2_esc_q (d : Char) (x : Str) (h : d = '"' ∨ d = '\\') :
    qr 2 ('\\' :: d :: x) = d :: qr 2 x := by
  rw [qr.eq_def]; rcases h with rfl | rfl <;> simp
theorem qr2_esc_o (d : Char) (x : Str) (h1 : d ≠ '"') (h2 : d ≠ '\\') (h3 : d ≠ '\n')
    (h4 : d ≠ '$') (h5 : d ≠ '`') : qr 2 ('\\' :: d :: x) = '\\' :: d :: qr 2 x := by
  rw [qr.eq_def]; simp [h1, h2, h3, h4, h5]
theorem qr0_esc (d : Char) (x : Str) (h : d ≠ '\n') : qr 0 ('\\' :: d :: x) = d :: qr 0 x := by
  rw [qr.eq_def]; simp [h]
theorem qr0_sq (x : Str) : qr 0 ('\'' :: x) = qr 1 x := by rw [qr.eq_def]; simp
theorem qr0_dq (x : Str) : qr 0 ('"' :: x) = qr 2 x := by rw [qr.eq_def]; simp
theorem qr0_ch (c : Char) (x : Str) (h1 : c ≠ '\\') (h2 : c ≠ '\'') (h3 : c ≠ '"') :
    qr 0 (c :: x) = c :: qr 0 x := by
  rw [qr.eq_def]; simp [h1, h2, h3]

/-- where POSIX `shlex` and shell quote removal agree: no unquoted newline / carriage return
    (white space for `shlex`), no line continuation, inside "…" no backslash before `$`,
    backquote or newline (`shlex` keeps the backslash), quotes closed, no final backslash -/
def shOK : QState → Str → Bool
  | st, [] => st == 0
  | 1, c :: rest => if c == '\'' then shOK 0 rest else shOK 1 rest
  | 2, c :: rest =>
    if c == '"' then shOK 0 rest
    else if c == '\\' then
      match rest with
      | d :: rest' => !(d == '$' || d == '`' || d == '\n') && shOK 2 rest'
      | [] => false
    else shOK 2 rest
  | _, c :: rest =>
    if c == '\n' || c == '\r' then false
    else if c == '\\' then
      match rest with
      | d :: rest' => d != '\n' && shOK 0 rest'
      | [] => false
    else if c == '\'' then shOK 1 rest
    else if c == '"' then shOK 2 rest
    else shOK 0 rest

theorem app_cons (raw : Str) (c : Char) (x : Str) : raw ++ [c] ++ x = raw ++ c :: x := by simp
theorem app_cons2 (raw : Str) (c d : Char) (x : Str) : raw ++ [c, d] ++ x = raw ++ c :: d :: x := by
  simp
theorem isEmpty_app (raw : Str) (c : Char) : (raw ++ [c]).isEmpty = false := by cases raw <;> rfl
theorem isEmpty_app2 (raw : Str) (c d : Char) : (raw ++ [c, d]).isEmpty = false := by
  cases raw <;> rfl

/-- `shlex.split` and (raw chunks, quote removal) in lock step: `raw` is the chunk read so far,
    `cur` its quote-removed value, `st` the common quote state -/
theorem shlex_chunks : ∀ (n : Nat) (rest : Str), rest.length ≤ n →
    ∀ (fuel fuel' : Nat) (st : QState) (inTok : Bool) (cur raw : Str) (acc racc : List Str),
      rest.length < fuel → rest.length < fuel' → (st = 0 ∨ st = 1 ∨ st = 2) →
      shOK st rest = true → (∀ x, qr 0 (raw ++ x) = cur ++ qr st x) → inTok = !raw.isEmpty →
      acc = racc.map (qr 0) →
      shlexGo fuel st inTok cur rest acc =
        some ((rawChunksGo fuel' st raw rest racc).map (qr 0)) := by
  intro n
  induction n with
  | zero =>
    intro rest hn fuel fuel' st inTok cur raw acc racc hf hf' hst hok hinv hin hacc
    have : rest = [] := List.eq_nil_of_length_eq_zero (by omega)
    subst this
    obtain ⟨f, rfl⟩ : ∃ f, fuel = f + 1 := ⟨fuel - 1, by simp at hf; omega⟩
    obtain ⟨f', rfl⟩ : ∃ f', fuel' = f' + 1 := ⟨fuel' - 1, by simp at hf'; omega⟩
    have h0 : st = 0 := by rw [shOK.eq_def] at hok; simpa using hok
    subst h0
    have hc : cur = qr 0 raw := by have := hinv []; simp [qr] at this; exact this.symm
    rw [shlexGo.eq_def, rawChunksGo.eq_def]
    subst hin hacc hc
    cases raw <;> simp
  | succ n ih =>
    intro rest hn fuel fuel' st inTok cur raw acc racc hf hf' hst hok hinv hin hacc
    cases rest with
    | nil => exact ih [] (Nat.zero_le _) fuel fuel' st inTok cur raw acc racc hf hf' hst hok hinv hin hacc
    | cons c rest =>
      obtain ⟨f, rfl⟩ : ∃ f, fuel = f + 1 := ⟨fuel - 1, by simp at hf; omega⟩
      obtain ⟨f', rfl⟩ : ∃ f', fuel' = f' + 1 := ⟨fuel' - 1, by simp at hf'; omega⟩
      have hr : rest.length ≤ n := by simp at hn; omega
      have hrf : rest.length < f := by simp at hf; omega
      have hrf' : rest.length < f' := by simp at hf'; omega
      have step := fun st' inTok' cur' raw' acc' racc' => ih rest hr f f' st' inTok' cur' raw' acc' racc' hrf hrf'
      rw [shOK.eq_def] at hok
      rw [shlexGo.eq_def, rawChunksGo.eq_def]
      rcases hst with rfl | rfl | rfl
      · -- unquoted
        simp only [] at hok ⊢
        have hcur : cur = qr 0 raw := by have := hinv []; simp [qr] at this; exact this.symm
        by_cases hnl : (c == '\n' || c == '\r') = true
        · simp [hnl] at hok
        · have hnl' : (c == '\n' || c == '\r') = false := by simpa using hnl
          simp only [hnl', Bool.false_eq_true, if_false] at hok
          by_cases hbl : (c == ' ' || c == '\t') = true
          · have hbl4 : (c == ' ' || c == '\t' || c == '\n' || c == '\r') = true := by
              simp only [Bool.or_eq_true] at hbl ⊢; rcases hbl with h | h <;> simp [h]
            have hcs : (c == '\\') = false ∧ (c == '\'') = false ∧ (c == '"') = false := by
              simp only [Bool.or_eq_true, beq_iff_eq] at hbl
              rcases hbl with rfl | rfl <;> decide
            simp only [hcs.1, hcs.2.1, hcs.2.2, Bool.false_eq_true, if_false] at hok
            simp only [hbl4, hbl, if_true]
            refine step 0 false [] [] _ _ (Or.inl rfl) hok (fun x => by simp) rfl ?_
            subst hin hacc hcur
            cases raw <;> simp
          · have hbl' : (c == ' ' || c == '\t') = false := by simpa using hbl
            have hbl4 : (c == ' ' || c == '\t' || c == '\n' || c == '\r') = false := by
              simp only [Bool.or_eq_false_iff] at hbl' hnl' ⊢
              exact ⟨⟨hbl', hnl'.1⟩, hnl'.2⟩
            have hn12 : (c == '\n') = false ∧ (c == '\r') = false := by
              simp only [Bool.or_eq_false_iff] at hnl'; exact hnl'
            simp only [hbl4, hbl', hn12.1, hn12.2, Bool.or_false, Bool.false_eq_true, if_false]
            by_cases hb : c = '\\'
            · subst hb
              simp only [beq_self_eq_true, if_true] at hok ⊢
              cases rest with
              | nil => simp at hok
              | cons d rest' =>
                simp only [Bool.and_eq_true, bne_iff_ne, ne_eq] at hok
                obtain ⟨d1, hok'⟩ := hok
                have hr' : rest'.length ≤ n := by simp at hr; omega
                have hrf2 : rest'.length < f := by simp at hrf; omega
                have hrf2' : rest'.length < f' := by simp at hrf'; omega
                simp only [List.take_succ_cons, List.take_zero, List.drop_succ_cons, List.drop_zero]
                refine ih rest' hr' f f' 0 true (cur ++ [d]) (raw ++ ['\\', d]) acc racc hrf2 hrf2'
                  (Or.inl rfl) hok' ?_ (by rw [isEmpty_app2]; rfl) hacc
                intro x; rw [app_cons2, hinv, qr0_esc d x d1]; simp
            · have hb' : (c == '\\') = false := by simp [hb]
              simp only [hb', Bool.false_eq_true, if_false] at hok ⊢
              by_cases hs : c = '\''
              · subst hs
                simp only [beq_self_eq_true, if_true] at hok ⊢
                refine step 1 true cur (raw ++ ['\'']) acc racc (Or.inr (Or.inl rfl)) hok ?_
                  (by rw [isEmpty_app]; rfl) hacc
                intro x; rw [app_cons, hinv, qr0_sq]
              · have hs' : (c == '\'') = false := by simp [hs]
                simp only [hs', Bool.false_eq_true, if_false] at hok ⊢
                by_cases hd : c = '"'
                · subst hd
                  simp only [beq_self_eq_true, if_true] at hok ⊢
                  refine step 2 true cur (raw ++ ['"']) acc racc (Or.inr (Or.inr rfl)) hok ?_
                    (by rw [isEmpty_app]; rfl) hacc
                  intro x; rw [app_cons, hinv, qr0_dq]
                · have hd' : (c == '"') = false := by simp [hd]
                  simp only [hd', Bool.false_eq_true, if_false] at hok ⊢
                  refine step 0 true (cur ++ [c]) (raw ++ [c]) acc racc (Or.inl rfl) hok ?_
                    (by rw [isEmpty_app]; rfl) hacc
                  intro x; rw [app_cons, hinv, qr0_ch c x hb hs hd]; simp
      · -- inside '…'
        simp only [] at hok ⊢
        by_cases hc : c = '\''
        · subst hc
          simp only [beq_self_eq_true, if_true] at hok ⊢
          refine step 0 true cur (raw ++ ['\'']) acc racc (Or.inl rfl) hok ?_ (by rw [isEmpty_app]; rfl) hacc
          intro x; rw [app_cons, hinv, qr1_close]
        · have hc' : (c == '\'') = false := by simp [hc]
          simp only [hc', Bool.false_eq_true, if_false] at hok ⊢
          refine step 1 true (cur ++ [c]) (raw ++ [c]) acc racc (Or.inr (Or.inl rfl)) hok ?_
            (by rw [isEmpty_app]; rfl) hacc
          intro x; rw [app_cons, hinv, qr1_ch c x hc]; simp
      · -- inside "…"
        simp only [] at hok ⊢
        by_cases hq : c = '"'
        · subst hq
          simp only [beq_self_eq_true, if_true] at hok ⊢
          have hnb : ('"' == '\\') = false := by decide
          simp only [hnb, Bool.false_eq_true, if_false]
          refine step 0 true cur (raw ++ ['"']) acc racc (Or.inl rfl) hok ?_ (by rw [isEmpty_app]; rfl) hacc
          intro x; rw [app_cons, hinv, qr2_close]
        · have hq' : (c == '"') = false := by simp [hq]
          simp only [hq', Bool.false_eq_true, if_false] at hok ⊢
          by_cases hb : c = '\\'
          · subst hb
            simp only [beq_self_eq_true, if_true] at hok ⊢
            cases rest with
            | nil => simp at hok
            | cons d rest' =>
              simp only [Bool.and_eq_true, Bool.not_eq_true', Bool.or_eq_false_iff, beq_eq_false_iff_ne,
                ne_eq] at hok
              obtain ⟨⟨⟨d1, d2⟩, d3⟩, hok'⟩ := hok
              have hr' : rest'.length ≤ n := by simp at hr; omega
              have hrf2 : rest'.length < f := by simp at hrf; omega
              have hrf2' : rest'.length < f' := by simp at hrf'; omega
              simp only [List.take_succ_cons, List.take_zero, List.drop_succ_cons, List.drop_zero]
              by_cases hd : d = '"' ∨ d = '\\'
              · have hd' : (d == '"' || d == '\\') = true := by rcases hd with rfl | rfl <;> rfl
                simp only [hd', if_true]
                refine ih rest' hr' f f' 2 true (cur ++ [d]) (raw ++ ['\\', d]) acc racc hrf2 hrf2'
                  (Or.inr (Or.inr rfl)) hok' ?_ (by rw [isEmpty_app2]; rfl) hacc
                intro x; rw [app_cons2, hinv, qr2_esc_q d x hd]; simp
              · have hd' : (d == '"' || d == '\\') = false := by
                  simp only [not_or] at hd; simp [hd.1, hd.2]
                simp only [hd', Bool.false_eq_true, if_false]
                simp only [not_or] at hd
                refine ih rest' hr' f f' 2 true (cur ++ ['\\', d]) (raw ++ ['\\', d]) acc racc hrf2 hrf2'
                  (Or.inr (Or.inr rfl)) hok' ?_ (by rw [isEmpty_app2]; rfl) hacc
                intro x; rw [app_cons2, hinv, qr2_esc_o d x hd.1 hd.2 d3 d1 d2]; simp
          · have hb' : (c == '\\') = false := by simp [hb]
            simp only [hb', Bool.false_eq_true, if_false] at hok ⊢
            refine step 2 true (cur ++ [c]) (raw ++ [c]) acc racc (Or.inr (Or.inr rfl)) hok ?_
              (by rw [isEmpty_app]; rfl) hacc
            intro x; rw [app_cons, hinv, qr2_ch c x hq hb]; simp

/-- the raw chunks of `s` -/
def rawChunks (s : Str) : List Str := rawChunksGo (s.length + 1) 0 [] s []

/-- **the specification-level lemma**: on an input where the two state machines agree (`shOK`),
    POSIX `shlex.split` yields the shell quote removal of every raw chunk -/
theorem shlexSplit_chunks (s : Str) (h : shOK 0 s = true) :
    shlexSplit s = some ((rawChunks s).map (quoteRemove (fun _ => false))) := by
  unfold shlexSplit rawChunks
  have := shlex_chunks s.length s (Nat.le_refl _) (s.length + 1) (s.length + 1) 0 false [] [] [] []
    (by omega) (by omega) (Or.inl rfl) h (fun x => by simp) rfl rfl
  rw [this]
  congr 2
  funext t
  exact (quoteRemove_eq_qr t).symm

end Bashlex.C06S
