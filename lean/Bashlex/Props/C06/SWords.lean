/-
  C06 for `split`, specification side: the words of a string of plain characters and blanks, and
  `Spec.shlexSplit` on such a string.
-/
import Bashlex.Spec.Quote

namespace Bashlex.C06S
open Bashlex Bashlex.Spec
set_option linter.unusedSimpArgs false
set_option linter.unusedVariables false

/-- the words of `s` split at runs of blanks: `cur` is the word being read -/
def wordsGo : Str → Str → List Str
  | cur, [] => if cur.isEmpty then [] else [cur]
  | cur, c :: rest =>
    if shellblank c then (if cur.isEmpty then wordsGo [] rest else cur :: wordsGo [] rest)
    else wordsGo (cur ++ [c]) rest

/-- the maximal runs of non-blank characters of `s`, in order -/
def wordsOf (s : Str) : List Str := wordsGo [] s

theorem wordsGo_blank (cur : Str) (b : Char) (r : Str) (hb : shellblank b = true) :
    wordsGo cur (b :: r) = if cur.isEmpty then wordsGo [] r else cur :: wordsGo [] r := by
  rw [wordsGo]; simp [hb]

theorem wordsGo_nonblank (cur : Str) (c : Char) (r : Str) (hc : shellblank c = false) :
    wordsGo cur (c :: r) = wordsGo (cur ++ [c]) r := by
  rw [wordsGo]; simp [hc]

/-- a run of non-blank characters followed by the end or a blank is one word -/
theorem wordsGo_run : ∀ (w cur r : Str), (∀ x ∈ w, shellblank x = false) →
    (r = [] ∨ ∃ b r', r = b :: r' ∧ shellblank b = true) → (cur ++ w) ≠ [] →
    wordsGo cur (w ++ r) = (cur ++ w) :: wordsGo [] r
  | [], cur, r, _, hr, hne => by
    simp only [List.append_nil] at hne
    have hce : cur.isEmpty = false := by cases cur <;> simp_all
    rcases hr with rfl | ⟨b, r', rfl, hb⟩
    · simp [wordsGo, hce]
    · simp only [List.nil_append, List.append_nil]
      rw [wordsGo_blank cur b r' hb, hce]
      rw [wordsGo_blank [] b r' hb]
      simp
  | c :: w, cur, r, hw, hr, hne => by
    have hc : shellblank c = false := hw c (by simp)
    rw [List.cons_append, wordsGo_nonblank cur c _ hc,
      wordsGo_run w (cur ++ [c]) r (fun x hx => hw x (by simp [hx])) hr (by simp)]
    simp

/-- the equations that determine `wordsOf` -/
theorem wordsOf_nil : wordsOf [] = [] := rfl

theorem wordsOf_blanks : ∀ (bs r : Str), (∀ x ∈ bs, shellblank x = true) →
    wordsOf (bs ++ r) = wordsOf r
  | [], r, _ => rfl
  | b :: bs, r, h => by
    unfold wordsOf
    rw [List.cons_append, wordsGo_blank [] b _ (h b (by simp))]
    simp only [List.isEmpty_nil, if_true]
    exact wordsOf_blanks bs r (fun x hx => h x (by simp [hx]))

theorem wordsOf_word (w r : Str) (hw : ∀ x ∈ w, shellblank x = false) (hne : w ≠ [])
    (hr : r = [] ∨ ∃ b r', r = b :: r' ∧ shellblank b = true) :
    wordsOf (w ++ r) = w :: wordsOf r := by
  unfold wordsOf
  rw [wordsGo_run w [] r hw hr (by simpa using hne)]
  simp

/-! ## `shlex.split` -/

/-- plain characters (as in `STok.plainCh`, repeated here to keep this file free of the model) -/
def plainC (c : Char) : Bool :=
  !(c == ' ' || c == '\t' || c == '\n' || c == '\r' || c == '\\' || c == '\'' || c == '"' ||
    c == '$' || c == '`' || c == '~' || c == '#' || c == '|' || c == '&' || c == ';' ||
    c == '(' || c == ')' || c == '<' || c == '>')

/-- an input of plain characters, blanks and tabs -/
def plainInput (s : Str) : Bool := s.all fun c => plainC c || shellblank c

theorem plainC_shlex {c : Char} (h : plainC c = true) :
    (c == ' ' || c == '\t' || c == '\n' || c == '\r') = false ∧ (c == '\\') = false ∧
    (c == '\'') = false ∧ (c == '"') = false ∧ shellblank c = false := by
  simp only [plainC, Bool.not_eq_true', Bool.or_eq_false_iff] at h
  obtain ⟨⟨⟨⟨⟨⟨⟨⟨⟨⟨⟨⟨⟨⟨⟨⟨⟨h1, h2⟩, h3⟩, h4⟩, h5⟩, h6⟩, h7⟩, h8⟩, h9⟩, h10⟩, h11⟩, h12⟩, h13⟩, h14⟩, h15⟩, h16⟩, h17⟩, h18⟩ := h
  simp [shellblank, h1, h2, h3, h4, h5, h6, h7]

theorem blank_shlex {c : Char} (h : shellblank c = true) :
    (c == ' ' || c == '\t' || c == '\n' || c == '\r') = true := by
  simp only [shellblank, Bool.or_eq_true] at h ⊢
  rcases h with h | h <;> simp [h]

theorem shlexGo_plain : ∀ (rest cur : Str) (acc : List Str) (fuel : Nat),
    plainInput rest = true → rest.length < fuel →
    shlexGo fuel 0 (!cur.isEmpty) cur rest acc = some (acc ++ wordsGo cur rest)
  | [], cur, acc, fuel + 1, _, _ => by
    rw [shlexGo.eq_def]
    cases cur <;> simp [wordsGo]
  | c :: rest, cur, acc, fuel + 1, h, hf => by
    have hc : (plainC c || shellblank c) = true := by
      simp only [plainInput, List.all_cons, Bool.and_eq_true] at h; exact h.1
    have hrest : plainInput rest = true := by
      simp only [plainInput, List.all_cons, Bool.and_eq_true] at h; exact h.2
    have hf' : rest.length < fuel := by simp at hf; omega
    rw [shlexGo.eq_def]
    simp only []
    rcases Bool.or_eq_true_iff.1 hc with hp | hb
    · obtain ⟨a1, a2, a3, a4, a5⟩ := plainC_shlex hp
      simp only [a1, a2, a3, a4, Bool.false_eq_true, if_false]
      have := shlexGo_plain rest (cur ++ [c]) acc fuel hrest hf'
      have hne : (cur ++ [c]).isEmpty = false := by cases cur <;> rfl
      simp only [hne, Bool.not_false] at this
      rw [this, wordsGo_nonblank cur c rest a5]
    · simp only [blank_shlex hb, if_true]
      have := shlexGo_plain rest [] (if (!cur.isEmpty) = true then acc ++ [cur] else acc) fuel hrest hf'
      simp only [List.isEmpty_nil, Bool.not_true] at this
      rw [this, wordsGo_blank cur c rest hb]
      cases cur <;> simp

/-- `shlex.split` (POSIX mode) on plain characters and blanks: the words -/
theorem shlexSplit_plain (s : Str) (h : plainInput s = true) :
    shlexSplit s = some (wordsOf s) := by
  unfold shlexSplit wordsOf
  have := shlexGo_plain s [] [] (s.length + 1) h (by omega)
  simpa using this

end Bashlex.C06S
