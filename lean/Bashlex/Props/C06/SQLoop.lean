/-
  C06 for `split`, quoted inputs, part 4: the loop of `_readtokenword` over a chunk.
-/
import Bashlex.Props.C06.SQWord

namespace Bashlex.C06S
open Bashlex Bashlex.M Bashlex.C10 Bashlex.C14
set_option linter.unusedSimpArgs false
set_option linter.unusedVariables false

theorem contains_snoc (l : Str) (a c : Char) : (l ++ [a]).contains c = (l.contains c || decide (c = a)) := by
  induction l with
  | nil => simp
  | cons x l ih => simp [List.contains_cons, ih, Bool.or_assoc]

theorem run_items_loop (ps : List Nat) (l : Local) (hinv : Inv ps l) (b : Char) (rest : Str)
    (hb : endCh b = true) : ∀ (t : Str) (q : Bool), Items t q →
    ∀ (st : RWState) (x : Char) (z : Str) (fuel : Nat) (e : Env) (p : Nat),
      st.c = some x → st.passNext = false → x :: z = t ++ b :: rest →
      e.tape.line.drop e.tape.idx = z → e.tape.idx = p + 1 → e.tape.idx ≤ e.tape.line.length →
      e.tape.line.length + 2 ≤ 1073741824 → t.length + 2 ≤ fuel →
      ∃ st' e', M.run (wloop fuel st) l e = (.ok (st', l), e') ∧
        e'.tape = { e.tape with idx := p + t.length } ∧ WStep st st' t q b := by
  intro t q ht
  induction ht with
  | nil =>
    intro st x z fuel e p hc hpn hxz hd hidx hle hlen hf
    simp at hxz
    obtain ⟨rfl, rfl⟩ := hxz
    obtain ⟨f, rfl⟩ : ∃ f, fuel = f + 1 := ⟨fuel - 1, by simp at hf; omega⟩
    obtain ⟨e', hr, he'⟩ := run_step_end st x ps l e hinv hc hpn hb (by omega) hle
    refine ⟨st, e', ?_, ?_, ⟨hc, by simp, rfl, by simp, hpn, rfl⟩⟩
    · rw [show wloop (f + 1) st = _ from rfl, run_loop_succ, hr]
    · rw [he', hidx]; simp
  | plain c r q hp hr ih =>
    intro st x z fuel e p hc hpn hxz hd hidx hle hlen hf
    simp at hxz
    obtain ⟨rfl, rfl⟩ := hxz
    obtain ⟨y, z', hz⟩ := cons_of_app r b rest
    rw [hz] at hd
    obtain ⟨f, rfl⟩ : ∃ f, fuel = f + 1 := ⟨fuel - 1, by simp at hf; omega⟩
    obtain ⟨g1, g2, g3⟩ := drop_cons_facts hd
    obtain ⟨st1, e1, hl1, he1, w1⟩ := item_plain st x y z' ps l e hinv hc hpn hp hd
      (items_next hr hb hz.symm)
    obtain ⟨st2, e2, hl2, he2, w2⟩ := ih st1 y z' f e1 (p + 1) w1.c w1.pn hz.symm
      (by rw [he1]; exact g3) (by rw [he1]; simp; omega) (by rw [he1]; simp; omega)
      (by rw [he1]; exact hlen) (by simp at hf ⊢; omega)
    refine ⟨st2, e2, by rw [hl1, hl2], ?_, ?_⟩
    · rw [he2, he1]; simp; omega
    · have := w1.trans w2
      simpa using this
  | esc d r q h1 h2 hr ih =>
    intro st x z fuel e p hc hpn hxz hd hidx hle hlen hf
    simp at hxz
    obtain ⟨rfl, rfl⟩ := hxz
    obtain ⟨y, z', hz⟩ := cons_of_app r b rest
    rw [hz] at hd
    obtain ⟨f, rfl⟩ : ∃ f, fuel = f + 2 := ⟨fuel - 2, by simp at hf; omega⟩
    obtain ⟨g1, g2, g3⟩ := drop_cons_facts hd
    obtain ⟨k1, k2, k3⟩ := drop_cons_facts g3
    obtain ⟨st1, e1, hl1, he1, w1⟩ := item_esc st d y z' ps l e hinv hc hpn hd h1 h2
      (items_next hr hb hz.symm)
    obtain ⟨st2, e2, hl2, he2, w2⟩ := ih st1 y z' f e1 (p + 2) w1.c w1.pn hz.symm
      (by rw [he1]; exact k3) (by rw [he1]; simp; omega) (by rw [he1]; simp; omega)
      (by rw [he1]; exact hlen) (by simp at hf ⊢; omega)
    refine ⟨st2, e2, by rw [hl1, hl2], ?_, ?_⟩
    · rw [he2, he1]; simp; omega
    · have := w1.trans w2
      simpa using this
  | sq body r q h1 hr ih =>
    intro st x z fuel e p hc hpn hxz hd hidx hle hlen hf
    simp at hxz
    obtain ⟨rfl, rfl⟩ := hxz
    obtain ⟨y, z', hz⟩ := cons_of_app r b rest
    rw [hz] at hd
    obtain ⟨f, rfl⟩ : ∃ f, fuel = f + 1 := ⟨fuel - 1, by simp at hf; omega⟩
    have hdl : e.tape.idx + body.length + 2 ≤ e.tape.line.length := by
      have := congrArg List.length hd; simp at this; omega
    obtain ⟨st1, e1, hl1, he1, w1⟩ := item_quote '\'' (Or.inl rfl) st body y z' ps l e hinv hc hpn
      (fun l1 e1 a1 a2 a3 => run_pmp_sq 1048575 l1 a1 a2 body (y :: z') e1 h1 (by rw [a3]; exact hd)
        (by rw [a3]; exact hlen)) hd (items_next hr hb hz.symm) (by simp)
    have hd1 : e1.tape.line.drop e1.tape.idx = z' := by
      rw [he1]
      show e.tape.line.drop (e.tape.idx + body.length + 2) = z'
      have : e.tape.idx + body.length + 2 = e.tape.idx + (body ++ ['\'', y]).length := by simp; omega
      rw [this, ← List.drop_drop, hd]
      have : body ++ '\'' :: y :: z' = (body ++ ['\'', y]) ++ z' := by simp
      rw [this, List.drop_left]
    obtain ⟨st2, e2, hl2, he2, w2⟩ := ih st1 y z' f e1 (p + body.length + 2) w1.c w1.pn hz.symm
      hd1 (by rw [he1]; simp; omega) (by rw [he1]; simp; omega)
      (by rw [he1]; exact hlen)
      (by simp only [List.length_cons, List.length_append] at hf ⊢; omega)
    refine ⟨st2, e2, by rw [hl1, hl2], ?_, ?_⟩
    · rw [he2, he1]; simp; omega
    · have := w1.trans w2
      simpa using this
  | dq body r q h1 hr ih =>
    intro st x z fuel e p hc hpn hxz hd hidx hle hlen hf
    simp at hxz
    obtain ⟨rfl, rfl⟩ := hxz
    obtain ⟨y, z', hz⟩ := cons_of_app r b rest
    rw [hz] at hd
    obtain ⟨f, rfl⟩ : ∃ f, fuel = f + 1 := ⟨fuel - 1, by simp at hf; omega⟩
    have hdl : e.tape.idx + body.length + 2 ≤ e.tape.line.length := by
      have := congrArg List.length hd; simp at this; omega
    obtain ⟨st1, e1, hl1, he1, w1⟩ := item_quote '"' (Or.inr rfl) st body y z' ps l e hinv hc hpn
      (fun l1 e1 a1 a2 a3 => run_pmp_dq 1048575 l1 a1 a2 body (y :: z') e1 h1 (by rw [a3]; exact hd)
        (by rw [a3]; exact hlen)) hd (items_next hr hb hz.symm)
      (by rw [contains_snoc, dbody_no_dollar h1]; decide)
    have hd1 : e1.tape.line.drop e1.tape.idx = z' := by
      rw [he1]
      show e.tape.line.drop (e.tape.idx + body.length + 2) = z'
      have : e.tape.idx + body.length + 2 = e.tape.idx + (body ++ ['"', y]).length := by simp; omega
      rw [this, ← List.drop_drop, hd]
      have : body ++ '"' :: y :: z' = (body ++ ['"', y]) ++ z' := by simp
      rw [this, List.drop_left]
    obtain ⟨st2, e2, hl2, he2, w2⟩ := ih st1 y z' f e1 (p + body.length + 2) w1.c w1.pn hz.symm
      hd1 (by rw [he1]; simp; omega) (by rw [he1]; simp; omega)
      (by rw [he1]; exact hlen)
      (by simp only [List.length_cons, List.length_append] at hf ⊢; omega)
    refine ⟨st2, e2, by rw [hl1, hl2], ?_, ?_⟩
    · rw [he2, he1]; simp; omega
    · have := w1.trans w2
      simpa using this

end Bashlex.C06S
