/-
  C06 for `split`, quoted inputs, part 1: `_getc` in general position, `_parse_matched_pair` on a
  single-quoted and on a double-quoted string.
-/
import Bashlex.Props.C06.SNext

namespace Bashlex.C06S
open Bashlex Bashlex.M Bashlex.C10 Bashlex.C14
set_option linter.unusedSimpArgs false
set_option linter.unusedVariables false

/-! ## `_getc` -/

/-- a character that `_getc(remove_quoted_newline=True)` returns as it is: not a backslash that
    is followed by a newline -/
def NextOK (y : Char) (z : Str) : Prop := y = '\\' → ∃ d z', z = d :: z' ∧ d ≠ '\n'

theorem run_getc_false (l : Local) (hl : l.tape = none) (heol : l.eolLookahead = none) (e : Env)
    (y : Char) (z : Str) (hd : e.tape.line.drop e.tape.idx = y :: z) :
    M.run (getc false) l e = (.ok (some y, l), envAt e (e.tape.idx + 1)) := by
  obtain ⟨h1, h2, h3⟩ := drop_cons_facts hd
  exact run_getc_plain false l e y hl heol h1 h2 (by simp)

theorem run_getc_true (l : Local) (hl : l.tape = none) (heol : l.eolLookahead = none) (e : Env)
    (y : Char) (z : Str) (hd : e.tape.line.drop e.tape.idx = y :: z) (hy : NextOK y z) :
    M.run (getc true) l e = (.ok (some y, l), envAt e (e.tape.idx + 1)) := by
  obtain ⟨h1, h2, h3⟩ := drop_cons_facts hd
  by_cases hb : y = '\\'
  · obtain ⟨d, z', hz, hdn⟩ := hy hb
    subst hb
    rw [hz] at h3
    obtain ⟨g1, g2, g3⟩ := drop_cons_facts h3
    rw [run_getc true l e heol, tapeOf_none hl,
      tgetc_bs_other _ _ _ '\\' d h1 h2 rfl g2 (by simp [hdn])]
    simp only [putL_none hl, putE_none hl]
    rfl
  · exact run_getc_plain true l e y hl heol h1 h2 (by simp [hb])

/-! ## `_parse_matched_pair` -/

/-- one iteration of the loop of `_parse_matched_pair` -/
def pmpBody (fuel : Nat) (P : MPParams) (lookforcomments rdquote : Bool) (st : MPState) :
    M (MPState ⊕ Str) := do
  if st.count == 0 then return .inr st.ret
  match ← mpPre P lookforcomments st with
  | .cont s => return .inl s
  | .done r => return .inr r
  | .next s c =>
    let s' ← mpPost (parseMatchedPair fuel) (parseComsub fuel) P rdquote s c
    return .inl s'

theorem pmp_succ (fuel : Nat) (P : MPParams) : parseMatchedPair (fuel + 1) P = (do
    let x ← mpInit P
    let lf ← loopFuel
    M.loop "_parse_matched_pair" (pmpBody fuel P x.1 x.2) lf
      { dolbracestate := if P.dolbrace then .param else .empty }) := by
  rw [parseMatchedPair]
  rfl

/-- the parameters `handleshellquote` passes for the quote character `qc` -/
def PQ (qc : Char) : MPParams :=
  { doublequotes := some qc, opn := qc, close := qc, parsingcommand := qc == '`' }

theorem run_mpInit_sq (l : Local) (e : Env) :
    M.run (mpInit (PQ '\'')) l e = (.ok ((false, false), l), e) := rfl
theorem run_mpInit_dq (l : Local) (e : Env) :
    M.run (mpInit (PQ '"')) l e = (.ok ((false, true), l), e) := rfl

/-- inside '…': an ordinary character -/
theorem run_mpPre_sq_ch (st : MPState) (l : Local) (hl : l.tape = none)
    (heol : l.eolLookahead = none) (e : Env) (c : Char) (z : Str)
    (hd : e.tape.line.drop e.tape.idx = c :: z) (hc : c ≠ '\'')
    (h1 : st.insidecomment = false) (h2 : st.passnextchar = false) (h3 : st.count = 1) :
    M.run (mpPre (PQ '\'') false st) l e =
      (.ok (.cont { st with ret := st.ret ++ [c] }, l), envAt e (e.tape.idx + 1)) := by
  obtain ⟨cnt, dbs, ic, sd, pn, ret⟩ := st
  simp only at h1 h2 h3
  subst h1 h2 h3
  unfold mpPre
  simp only [PQ, bne_self_eq_false, Bool.false_and]
  rw [M.run_bind, run_getc_false l hl heol e c z hd]
  simp only [pure_bind, Bool.false_eq_true, if_false, Bool.false_and, Bool.and_false,
    beq_iff_eq, hc, Bool.not_false, Bool.true_and, bne_self_eq_false, Bool.and_true,
    Nat.one_ne_zero, if_true]
  rfl

/-- inside '…': the closing quote -/
theorem run_mpPre_sq_close (st : MPState) (l : Local) (hl : l.tape = none)
    (heol : l.eolLookahead = none) (e : Env) (z : Str)
    (hd : e.tape.line.drop e.tape.idx = '\'' :: z)
    (h1 : st.insidecomment = false) (h2 : st.passnextchar = false) (h3 : st.count = 1) :
    M.run (mpPre (PQ '\'') false st) l e =
      (.ok (.done (st.ret ++ ['\'']), l), envAt e (e.tape.idx + 1)) := by
  obtain ⟨cnt, dbs, ic, sd, pn, ret⟩ := st
  simp only at h1 h2 h3
  subst h1 h2 h3
  unfold mpPre
  simp only [PQ, bne_self_eq_false, Bool.false_and]
  rw [M.run_bind, run_getc_false l hl heol e '\'' z hd]
  simp only [pure_bind, Bool.false_eq_true, if_false, Bool.false_and, Bool.and_false,
    beq_self_eq_true, if_true, Nat.sub_self]
  rfl

theorem run_pmpBody_sq_ch (F : Nat) (st : MPState) (l : Local) (hl : l.tape = none)
    (heol : l.eolLookahead = none) (e : Env) (c : Char) (z : Str)
    (hd : e.tape.line.drop e.tape.idx = c :: z) (hc : c ≠ '\'')
    (h1 : st.insidecomment = false) (h2 : st.passnextchar = false) (h3 : st.count = 1) :
    M.run (pmpBody F (PQ '\'') false false st) l e =
      (.ok (.inl { st with ret := st.ret ++ [c] }, l), envAt e (e.tape.idx + 1)) := by
  rw [show pmpBody F (PQ '\'') false false st = (mpPre (PQ '\'') false st >>= fun r =>
      match r with
      | .cont s => pure (.inl s)
      | .done r => pure (.inr r)
      | .next s c => do
        let s' ← mpPost (parseMatchedPair F) (parseComsub F) (PQ '\'') false s c
        pure (.inl s')) from by unfold pmpBody; simp [h3]]
  rw [M.run_bind, run_mpPre_sq_ch st l hl heol e c z hd hc h1 h2 h3]
  rfl

theorem run_pmpBody_sq_close (F : Nat) (st : MPState) (l : Local) (hl : l.tape = none)
    (heol : l.eolLookahead = none) (e : Env) (z : Str)
    (hd : e.tape.line.drop e.tape.idx = '\'' :: z)
    (h1 : st.insidecomment = false) (h2 : st.passnextchar = false) (h3 : st.count = 1) :
    M.run (pmpBody F (PQ '\'') false false st) l e =
      (.ok (.inr (st.ret ++ ['\'']), l), envAt e (e.tape.idx + 1)) := by
  rw [show pmpBody F (PQ '\'') false false st = (mpPre (PQ '\'') false st >>= fun r =>
      match r with
      | .cont s => pure (.inl s)
      | .done r => pure (.inr r)
      | .next s c => do
        let s' ← mpPost (parseMatchedPair F) (parseComsub F) (PQ '\'') false s c
        pure (.inl s')) from by unfold pmpBody; simp [h3]]
  rw [M.run_bind, run_mpPre_sq_close st l hl heol e z hd h1 h2 h3]
  rfl

theorem run_pmp_sq_loop (F : Nat) (l : Local) (hl : l.tape = none) (heol : l.eolLookahead = none)
    (z : Str) : ∀ (body : Str) (st : MPState) (fuel : Nat) (e : Env),
      st.insidecomment = false → st.passnextchar = false → st.count = 1 →
      (∀ x ∈ body, x ≠ '\'') → e.tape.line.drop e.tape.idx = body ++ '\'' :: z →
      body.length + 1 ≤ fuel →
      M.run (M.loop "_parse_matched_pair" (pmpBody F (PQ '\'') false false) fuel st) l e =
        (.ok (st.ret ++ body ++ ['\''], l), envAt e (e.tape.idx + body.length + 1)) := by
  intro body
  induction body with
  | nil =>
    intro st fuel e h1 h2 h3 _ hd hf
    obtain ⟨f, rfl⟩ : ∃ f, fuel = f + 1 := ⟨fuel - 1, by simp at hf; omega⟩
    rw [run_loop_succ, run_pmpBody_sq_close F st l hl heol e z hd h1 h2 h3]
    simp
  | cons c body ih =>
    intro st fuel e h1 h2 h3 hb hd hf
    obtain ⟨f, rfl⟩ : ∃ f, fuel = f + 1 := ⟨fuel - 1, by simp at hf; omega⟩
    obtain ⟨q1, q2, q3⟩ := drop_cons_facts hd
    rw [run_loop_succ, run_pmpBody_sq_ch F st l hl heol e c _ hd (hb c (by simp)) h1 h2 h3]
    simp only []
    rw [ih { st with ret := st.ret ++ [c] } f (envAt e (e.tape.idx + 1)) h1 h2 h3
      (fun x hx => hb x (by simp [hx])) (by simpa [envAt] using q3) (by simp at hf; omega)]
    have : e.tape.idx + 1 + body.length + 1 = e.tape.idx + (body.length + 1) + 1 := by omega
    simp [envAt, this]

/-- **`_parse_matched_pair` on a single-quoted string**: the text up to and including the
    closing quote -/
theorem run_pmp_sq (F : Nat) (l : Local) (hl : l.tape = none) (heol : l.eolLookahead = none)
    (body z : Str) (e : Env) (hb : ∀ x ∈ body, x ≠ '\'')
    (hd : e.tape.line.drop e.tape.idx = body ++ '\'' :: z)
    (hlen : e.tape.line.length + 2 ≤ 1073741824) :
    M.run (parseMatchedPair (F + 1) (PQ '\'')) l e =
      (.ok (body ++ ['\''], l), envAt e (e.tape.idx + body.length + 1)) := by
  have := drop_len hd
  rw [pmp_succ, M.run_bind, run_mpInit_sq]
  simp only [loopFuel, pure_bind]
  rw [run_pmp_sq_loop F l hl heol z body _ 1073741824 e rfl rfl rfl hb hd (by omega)]
  simp

/-! ### double quotes -/

theorem pmpBody_count1 (F : Nat) (P : MPParams) (a b : Bool) (st : MPState) (h3 : st.count = 1) :
    pmpBody F P a b st = (mpPre P a st >>= fun r =>
      match r with
      | .cont s => pure (.inl s)
      | .done r => pure (.inr r)
      | .next s c => do
        let s' ← mpPost (parseMatchedPair F) (parseComsub F) P b s c
        pure (.inl s')) := by
  unfold pmpBody; simp [h3]

theorem dq_ne_sq : ((some '"' : Option Char) != some '\'') = true := by decide

/-- inside "…": an ordinary character -/
theorem run_mpPre_dq_ch (st : MPState) (l : Local) (hl : l.tape = none)
    (heol : l.eolLookahead = none) (e : Env) (c : Char) (z : Str)
    (hd : e.tape.line.drop e.tape.idx = c :: z) (c1 : c ≠ '"') (c2 : c ≠ '\\')
    (h1 : st.insidecomment = false) (h2 : st.passnextchar = false) (h3 : st.count = 1) :
    M.run (mpPre (PQ '"') false st) l e =
      (.ok (.next { st with ret := st.ret ++ [c] } c, l), envAt e (e.tape.idx + 1)) := by
  obtain ⟨cnt, dbs, ic, sd, pn, ret⟩ := st
  simp only at h1 h2 h3
  subst h1 h2 h3
  unfold mpPre
  simp only [PQ, dq_ne_sq, Bool.not_false, Bool.and_self]
  rw [M.run_bind, run_getc_true l hl heol e c z hd (fun h => absurd h c2)]
  simp only [pure_bind, Bool.false_eq_true, if_false, Bool.false_and, Bool.and_false,
    beq_iff_eq, c1, c2, Bool.not_false, Bool.true_and, bne_self_eq_false, Bool.and_true,
    Nat.one_ne_zero, if_true, show ¬ ('"' = '\'') from by decide]
  rfl

/-- inside "…": a backslash (followed by something other than a newline) -/
theorem run_mpPre_dq_bs (st : MPState) (l : Local) (hl : l.tape = none)
    (heol : l.eolLookahead = none) (e : Env) (d : Char) (z : Str)
    (hd : e.tape.line.drop e.tape.idx = '\\' :: d :: z) (hdn : d ≠ '\n')
    (h1 : st.insidecomment = false) (h2 : st.passnextchar = false) (h3 : st.count = 1) :
    M.run (mpPre (PQ '"') false st) l e =
      (.ok (.next { st with ret := st.ret ++ ['\\'], passnextchar := true } '\\', l),
        envAt e (e.tape.idx + 1)) := by
  obtain ⟨cnt, dbs, ic, sd, pn, ret⟩ := st
  simp only at h1 h2 h3
  subst h1 h2 h3
  unfold mpPre
  simp only [PQ, dq_ne_sq, Bool.not_false, Bool.and_self]
  rw [M.run_bind, run_getc_true l hl heol e '\\' (d :: z) hd (fun _ => ⟨d, z, rfl, hdn⟩)]
  simp only [pure_bind, Bool.false_eq_true, if_false, Bool.false_and, Bool.and_false,
    beq_iff_eq, Bool.not_false, Bool.true_and, bne_self_eq_false, Bool.and_true,
    Nat.one_ne_zero, if_true, show ¬ ('"' = '\'') from by decide,
    show ¬ ('\\' = '"') from by decide]
  rfl

/-- inside "…": the character after a backslash -/
theorem run_mpPre_dq_pass (st : MPState) (l : Local) (hl : l.tape = none)
    (heol : l.eolLookahead = none) (e : Env) (d : Char) (z : Str)
    (hd : e.tape.line.drop e.tape.idx = d :: z)
    (h1 : st.insidecomment = false) (h2 : st.passnextchar = true) :
    M.run (mpPre (PQ '"') false st) l e =
      (.ok (.cont { st with ret := st.ret ++ [d], passnextchar := false }, l),
        envAt e (e.tape.idx + 1)) := by
  obtain ⟨cnt, dbs, ic, sd, pn, ret⟩ := st
  simp only at h1 h2
  subst h1 h2
  unfold mpPre
  simp only [PQ, dq_ne_sq, Bool.not_true, Bool.and_false]
  rw [M.run_bind, run_getc_false l hl heol e d z hd]
  simp only [pure_bind, Bool.false_eq_true, if_false, Bool.false_and, Bool.and_false, if_true]
  rfl

/-- inside "…": the closing quote -/
theorem run_mpPre_dq_close (st : MPState) (l : Local) (hl : l.tape = none)
    (heol : l.eolLookahead = none) (e : Env) (z : Str)
    (hd : e.tape.line.drop e.tape.idx = '"' :: z)
    (h1 : st.insidecomment = false) (h2 : st.passnextchar = false) (h3 : st.count = 1) :
    M.run (mpPre (PQ '"') false st) l e =
      (.ok (.done (st.ret ++ ['"']), l), envAt e (e.tape.idx + 1)) := by
  obtain ⟨cnt, dbs, ic, sd, pn, ret⟩ := st
  simp only at h1 h2 h3
  subst h1 h2 h3
  unfold mpPre
  simp only [PQ, dq_ne_sq, Bool.not_false, Bool.and_self]
  rw [M.run_bind, run_getc_true l hl heol e '"' z hd (fun h => absurd h (by decide))]
  simp only [pure_bind, Bool.false_eq_true, if_false, Bool.false_and, Bool.and_false,
    beq_self_eq_true, if_true, Nat.sub_self]
  rfl

end Bashlex.C06S
