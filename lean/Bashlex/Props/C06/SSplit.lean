/-
  C06 for `split`, part 4: the loop of `split` on an input of plain characters and blanks.
-/
import Bashlex.Props.C06.SNext
import Bashlex.Props.C06.SWords
import Bashlex.Props.C06.Strip

namespace Bashlex.C06S
open Bashlex Bashlex.M Bashlex.C10 Bashlex.C14 Bashlex.C06
set_option linter.unusedSimpArgs false
set_option linter.unusedVariables false

/-- the nested parser `split` hands to the expander -/
def splitNP : NestedParse := fun string dolparen => do
  let outer ← get
  let ps := if dolparen then { outer.ps with cmdsubst := true, eoftoken := true } else outer.ps
  set ({ tape := some (Tape.ofInput string), opts := some (true, false)
         lastReadToken := outer.lastReadToken, tokenBeforeThat := outer.tokenBeforeThat
         twoTokensAgo := outer.twoTokensAgo, ps := ps
         eofToken := if dolparen then some rparenEofToken else none
         limit := outer.limit.map (· - 1) } : Local)
  let r ← parserRun maxDepth
  let inner ← get
  set { outer with ps := inner.ps }
  pure r

/-- one iteration of the loop of `split` -/
def splitBody (s line : Str) (added : Bool) (acc : List Str) : M (List Str ⊕ List Str) := do
  let t ← nextToken
  if t.is .EOF || (added && t.lexpos + 1 == line.length) then return .inr acc
  if t.is .WORD || t.is .ASSIGNMENT_WORD then
    let quoted := t.flags.contains .QUOTED
    let doublequoted ←
      if quoted then
        match t.valueStr.head? with
        | none => M.foreign "IndexError" "split"
        | some c => pure (c == '"')
      else pure false
    let (_, w) ← expandwordinternal splitNP t doublequoted
    return .inl (acc ++ [w])
  else
    return .inl (acc ++ [Str.slice s t.lexpos t.endlexpos])

theorem splitM_eq (s : Str) : splitM s = (do
    let line ← tapeLine
    let added ← tapeAdded
    M.loop "split" (splitBody s line added) (line.length + 4) []) := rfl

/-! ## the expander on a plain word -/

theorem plain_noExp : ∀ (w : Str), (∀ x ∈ w, plainCh x = true) → noExp w = true
  | [], _ => rfl
  | c :: w, h => by
    rw [noExp_cons]
    refine ⟨?_, plain_noExp w (fun x hx => h x (by simp [hx]))⟩
    obtain ⟨f1, f2, f3, f4, f5, f6, f7, f8, f9, f10, f11, f12, f13, f14, f15, f16, f17, f18⟩ :=
      plainCh_facts (h c (by simp))
    simp [isExpChar, f8, f9, f17, f18, f10]

theorem stripGo_plainW : ∀ (w : Str), (∀ x ∈ w, plainCh x = true) → stripGo false w = some w
  | [], _ => stripGo_nil false
  | c :: w, h => by
    obtain ⟨f1, f2, f3, f4, f5, f6, f7, f8⟩ := plainCh_facts (h c (by simp))
    rw [stripGo_plain false c w f5 f7 f6, stripGo_plainW w (fun x hx => h x (by simp [hx]))]
    rfl

theorem stripPure_plainW (w : Str) (h : ∀ x ∈ w, plainCh x = true) : stripPure w false = some w := by
  unfold stripPure
  have : wholeSQ w = false := by
    cases w with
    | nil => rfl
    | cons c w =>
      have := (plainCh_facts (h c (by simp))).2.2.2.2.2.1
      simp [wholeSQ, this]
  rw [this]
  simp only [Bool.false_eq_true, if_false]
  exact stripGo_plainW w h

/-! ## one iteration -/

/-- a plain word: whatever type the tokenizer gave the token (WORD, a reserved word, an
    assignment word), the string yielded is the word -/
theorem run_body_word (s line : Str) (acc : List Str) (l l' : Local) (e e' : Env) (tok : Token)
    (a b : Nat) (w : Str) (hr : M.run nextToken l e = (.ok (tok, l'), e'))
    (htok : TokOK a b w false tok) (hslice : Str.slice s a b = w)
    (hw : ∀ x ∈ w, plainCh x = true) (hne : a + 1 ≠ line.length) :
    M.run (splitBody s line true acc) l e = (.ok (.inl (acc ++ [w]), l'), e') := by
  have hlex : tok.lexpos = a := by simp [Token.lexpos, htok.pos]
  have hend : tok.endlexpos = b := by simp [Token.endlexpos, htok.pos]
  unfold splitBody
  rw [M.run_bind, hr]
  simp only [htok.neof, hlex, hend, Bool.true_and, Bool.false_or, beq_iff_eq, hne, if_false]
  by_cases hW : wordLike tok = true
  · obtain ⟨hv, hq⟩ := htok.word hW
    have hvs : tok.valueStr = w := by simp [Token.valueStr, hv]
    have hW2 : (tok.is .WORD || tok.is .ASSIGNMENT_WORD) = true := hW
    simp only [hW2, if_true, hq, Bool.false_eq_true, if_false, pure_bind]
    rw [expandwordinternal_plain splitNP tok false (by rw [hvs]; exact plain_noExp w hw), hvs,
      stripPure_plainW w hw]
    rfl
  · have hW2 : (tok.is .WORD || tok.is .ASSIGNMENT_WORD) = false := by simpa [wordLike] using hW
    simp only [hW2, Bool.false_eq_true, if_false, hslice]
    rfl

/-- the final NEWLINE token ends the loop -/
theorem run_body_end (s line : Str) (acc : List Str) (l l' : Local) (e e' : Env) (i : Nat)
    (hr : M.run nextToken l e = (.ok (tokNL i, l'), e')) (hi : i + 1 = line.length) :
    M.run (splitBody s line true acc) l e = (.ok (.inr acc, l'), e') := by
  unfold splitBody
  rw [M.run_bind, hr]
  have h1 : (tokNL i).lexpos = i := rfl
  simp only [h1, hi, beq_self_eq_true, Bool.and_self, Bool.or_true, if_true]
  rfl

/-! ## the loop -/

theorem spanP (p : Char → Bool) : ∀ r : Str, ∃ a b, r = a ++ b ∧ (∀ x ∈ a, p x = true) ∧
    (b = [] ∨ ∃ y b', b = y :: b' ∧ p y = false)
  | [] => ⟨[], [], rfl, by simp, Or.inl rfl⟩
  | x :: r => by
    by_cases hx : p x = true
    · obtain ⟨a, b, h1, h2, h3⟩ := spanP p r
      refine ⟨x :: a, b, by rw [h1]; rfl, ?_, h3⟩
      intro y hy
      rcases List.mem_cons.1 hy with rfl | hy
      · exact hx
      · exact h2 y hy
    · exact ⟨[], x :: r, rfl, by simp, Or.inr ⟨x, r, rfl, by simpa using hx⟩⟩

theorem plainC_eq : plainC = plainCh := rfl

theorem plain_nonblank {c : Char} (h : plainCh c = true) : shellblank c = false := by
  obtain ⟨f1, f2, _⟩ := plainCh_facts h
  simp [shellblank, f1, f2]

theorem blank_endCh {c : Char} (h : shellblank c = true) : endCh c = true := by
  simp only [shellblank, Bool.or_eq_true] at h
  simp only [endCh, Bool.or_eq_true]
  exact Or.inl h

theorem slice_word (s : Str) (i : Nat) (bs w r3 : Str) (h : s.drop i = bs ++ (w ++ r3)) :
    Str.slice s (i + bs.length) (i + bs.length + w.length) = w := by
  unfold Str.slice
  rw [List.drop_take, ← List.drop_drop, h]
  simp

/-- one iteration of the loop of `split` from a token boundary -/
theorem split_iter (s : Str) (hs : plainInput s = true) (hlen : s.length + 3 ≤ 1073741824)
    (r : Str) (i : Nat) (acc : List Str) (l : Local) (e : Env) (f : Nat)
    (hi : i ≤ s.length) (hdrop : s.drop i = r) (hinv : InvT l)
    (hline : e.tape.line = s ++ ['\n']) (hidx : e.tape.idx = i) :
    (∃ l' e', M.run (M.loop "split" (splitBody s (s ++ ['\n']) true) (f + 1) acc) l e =
        (.ok (acc, l'), e') ∧ wordsOf r = []) ∨
    (∃ w r3 l' e', M.run (M.loop "split" (splitBody s (s ++ ['\n']) true) (f + 1) acc) l e =
        M.run (M.loop "split" (splitBody s (s ++ ['\n']) true) f (acc ++ [w])) l' e' ∧
      InvT l' ∧ e'.tape.line = s ++ ['\n'] ∧ e'.tape.idx + r3.length = s.length ∧
      s.drop e'.tape.idx = r3 ∧ r3.length < r.length ∧ wordsOf r = w :: wordsOf r3) := by
  have hmem : ∀ x ∈ r, (plainCh x || shellblank x) = true := by
    intro x hx
    have hx' : x ∈ s := by rw [← hdrop] at hx; exact List.mem_of_mem_drop hx
    have := List.all_eq_true.1 hs x hx'
    rw [plainC_eq] at this; exact this
  have hrlen : i + r.length = s.length := by
    have := congrArg List.length hdrop; simp at this; omega
  have hld : e.tape.line.drop e.tape.idx = r ++ ['\n'] := by
    rw [hline, hidx, List.drop_append_of_le_length hi, hdrop]
  have hll : e.tape.line.length + 2 ≤ 1073741824 := by rw [hline]; simp; omega
  obtain ⟨bs, r1, hr, hbs, hr1⟩ := spanP shellblank r
  rcases hr1 with rfl | ⟨c, r2, rfl, hc⟩
  · -- only blanks are left
    left
    simp only [List.append_nil] at hr
    subst hr
    have h1 := run_nextToken_end l hinv r hbs e hld hll
    refine ⟨afterNL l (e.tape.idx + r.length), envAt e (e.tape.idx + r.length + 1), ?_, ?_⟩
    · rw [run_loop_succ, run_body_end s _ acc l _ e _ _ h1 (by rw [hidx]; simp; omega)]
    · have := wordsOf_blanks r [] hbs
      rw [List.append_nil] at this; rw [this]; rfl
  · -- a word
    right
    have hcp : plainCh c = true := by
      have := hmem c (by rw [hr]; simp)
      rw [hc, Bool.or_false] at this; exact this
    obtain ⟨w, r3, hr2, hw, hr3⟩ := spanP plainCh r2
    have hmem3 : ∀ y r3', r3 = y :: r3' → plainCh y = false → shellblank y = true := by
      intro y r3' h3 hy
      have := hmem y (by rw [hr, hr2, h3]; simp)
      rw [hy, Bool.false_or] at this; exact this
    obtain ⟨b, rest, hbrest, hb⟩ : ∃ b rest, r3 ++ ['\n'] = b :: rest ∧ endCh b = true := by
      rcases hr3 with rfl | ⟨y, r3', rfl, hy⟩
      · exact ⟨'\n', [], rfl, by decide⟩
      · exact ⟨y, r3' ++ ['\n'], rfl, blank_endCh (hmem3 y r3' rfl hy)⟩
    have hld' : e.tape.line.drop e.tape.idx = bs ++ c :: (w ++ b :: rest) := by
      rw [hld, hr, hr2, ← hbrest]; simp
    obtain ⟨tok, l', e', hrun, hinv', he', htok⟩ :=
      run_nextToken_word l hinv c b bs w rest hbs hcp hw hb e hld' hll
    have hsl : Str.slice s (e.tape.idx + bs.length) (e.tape.idx + bs.length + 1 + w.length) = c :: w := by
      have := slice_word s i bs (c :: w) r3 (by rw [hdrop, hr, hr2]; simp)
      rw [hidx]; simpa [Nat.add_assoc, Nat.add_comm 1] using this
    have hlens : r.length = bs.length + 1 + w.length + r3.length := by
      rw [hr, hr2]; simp; omega
    refine ⟨c :: w, r3, l', e', ?_, hinv', ?_, ?_, ?_, ?_, ?_⟩
    · rw [run_loop_succ, run_body_word s _ acc l l' e e' tok _ _ (c :: w) hrun htok hsl
        (by intro x hx; rcases List.mem_cons.1 hx with rfl | hx; exact hcp; exact hw x hx)
        (by rw [hidx]; simp; omega)]
    · rw [he']; exact hline
    · rw [he']; simp; omega
    · rw [he']
      show s.drop (e.tape.idx + bs.length + 1 + w.length) = r3
      have : e.tape.idx + bs.length + 1 + w.length = i + (bs ++ c :: w).length := by
        rw [hidx]; simp; omega
      rw [this, ← List.drop_drop, hdrop, hr, hr2]
      have : bs ++ c :: (w ++ r3) = (bs ++ c :: w) ++ r3 := by simp
      rw [this, List.drop_left]
    · omega
    · rw [hr, wordsOf_blanks bs _ hbs, hr2]
      have : c :: (w ++ r3) = (c :: w) ++ r3 := rfl
      rw [this]
      refine wordsOf_word (c :: w) r3 ?_ (by simp) ?_
      · intro x hx
        rcases List.mem_cons.1 hx with rfl | hx
        · exact hc
        · exact plain_nonblank (hw x hx)
      · rcases hr3 with rfl | ⟨y, r3', rfl, hy⟩
        · exact Or.inl rfl
        · exact Or.inr ⟨y, r3', rfl, hmem3 y r3' rfl hy⟩

theorem run_split_loop (s : Str) (hs : plainInput s = true) (hlen : s.length + 3 ≤ 1073741824) :
    ∀ (n : Nat) (r : Str) (i : Nat) (acc : List Str) (l : Local) (e : Env) (fuel : Nat),
      r.length ≤ n → i ≤ s.length → s.drop i = r → InvT l → e.tape.line = s ++ ['\n'] →
      e.tape.idx = i → r.length + 2 ≤ fuel →
      ∃ l' e', M.run (M.loop "split" (splitBody s (s ++ ['\n']) true) fuel acc) l e =
        (.ok (acc ++ wordsOf r, l'), e') := by
  intro n
  induction n with
  | zero =>
    intro r i acc l e fuel hn hi hdrop hinv hline hidx hf
    obtain ⟨f, rfl⟩ : ∃ f, fuel = f + 1 := ⟨fuel - 1, by omega⟩
    rcases split_iter s hs hlen r i acc l e f hi hdrop hinv hline hidx with
      ⟨l', e', h1, h2⟩ | ⟨w, r3, l', e', h1, h2, h3, h4, h5, h6, h7⟩
    · exact ⟨l', e', by rw [h1, h2]; simp⟩
    · omega
  | succ n ih =>
    intro r i acc l e fuel hn hi hdrop hinv hline hidx hf
    obtain ⟨f, rfl⟩ : ∃ f, fuel = f + 1 := ⟨fuel - 1, by omega⟩
    rcases split_iter s hs hlen r i acc l e f hi hdrop hinv hline hidx with
      ⟨l', e', h1, h2⟩ | ⟨w, r3, l', e', h1, h2, h3, h4, h5, h6, h7⟩
    · exact ⟨l', e', by rw [h1, h2]; simp⟩
    · obtain ⟨l2, e2, hfin⟩ := ih r3 e'.tape.idx (acc ++ [w]) l' e' f (by omega) (by omega) h5 h2 h3
        rfl (by omega)
      exact ⟨l2, e2, by rw [h1, hfin, h7]; simp⟩

end Bashlex.C06S
