/-
  C06, part 4: words with parameters `$name`, `$1`, `$?`, `${…}` (no command, process, arithmetic
  substitution, no tilde).  Value part only: which nodes are recorded is property C07.

  At a `$` (in *every* quote state, single quotes included) the expander calls `_paramexpand`
  and copies the text it consumed, `string[tindex:sindex]`, as it is.
-/
import Bashlex.Props.C06.Word

namespace Bashlex.C06
open Bashlex Bashlex.Spec Bashlex.M
set_option linter.unusedSimpArgs false
set_option linter.unusedVariables false

/-! ### how far `_paramexpand` reads -/

/-- number of leading name characters -/
def nameLen : Str → Nat
  | [] => 0
  | c :: r => if !isAlnum c && c != '_' then 0 else nameLen r + 1

/-- index of the first `}` -/
def findClose : Str → Option Nat
  | [] => none
  | x :: xs => if x == '}' then some 0 else (findClose xs).map (· + 1)

def specials : List Char := "0123456789$#?-!*@".toList

/-- the length of the text `_paramexpand` consumes at a `$`, as a function of the text `rest`
    after the `$` (which must not start with `(` or `[`): `$` alone when no name follows or a
    `${` is not closed -/
def paramLen (rest : Str) : Nat :=
  match rest with
  | [] => 1
  | c :: r =>
    if specials.contains c then 2
    else if c == '{' then (match findClose r with | none => 1 | some k => k + 3)
    else nameLen rest + 1

theorem nameLen_le : ∀ r : Str, nameLen r ≤ r.length
  | [] => by simp [nameLen]
  | c :: r => by
    have := nameLen_le r
    simp only [nameLen]; split <;> simp <;> omega

theorem findClose_lt : ∀ (r : Str) (k : Nat), findClose r = some k → k < r.length
  | [], k, h => by simp [findClose] at h
  | x :: xs, k, h => by
    simp only [findClose] at h
    split at h
    · cases h; simp
    · cases hx : findClose xs with
      | none => rw [hx] at h; cases h
      | some j =>
        rw [hx] at h; simp at h; subst h
        have := findClose_lt xs j hx
        simp; omega

theorem paramLen_pos (rest : Str) : 1 ≤ paramLen rest := by
  unfold paramLen
  split
  · exact Nat.le_refl _
  · split
    · omega
    · split
      · split <;> omega
      · omega

theorem paramLen_le (rest : Str) : paramLen rest ≤ rest.length + 1 := by
  unfold paramLen
  split
  · simp
  · rename_i c r
    split
    · simp
    · split
      · split
        · simp
        · rename_i k hk
          have := findClose_lt r k hk
          simp; omega
      · have := nameLen_le (c :: r); omega

theorem scanName_eq (string : Str) : ∀ (fuel : Nat) (pre rest : Str), string = pre ++ rest →
    nameLen rest < fuel → scanName string fuel pre.length = pre.length + nameLen rest := by
  intro fuel
  induction fuel with
  | zero => intro pre rest _ h; omega
  | succ fuel ih =>
    intro pre rest hs hf
    cases rest with
    | nil =>
      have : string[pre.length]? = none := by rw [hs]; simp
      simp [scanName, this, nameLen]
    | cons c r =>
      have hc : string[pre.length]? = some c := by rw [hs]; simp
      simp only [scanName, hc, nameLen]
      split
      · simp
      · have := ih (pre ++ [c]) r (by rw [hs]; simp) (by
          simp only [nameLen] at hf
          rename_i hcc
          rw [if_neg hcc] at hf; omega)
        simp at this
        rw [this]; omega

theorem findFrom_go_eq : ∀ (r : Str) (i : Nat),
    Str.findFrom.go '}' r i = (findClose r).map (· + i)
  | [], i => by simp [Str.findFrom.go, findClose]
  | x :: xs, i => by
    simp only [Str.findFrom.go, findClose]
    split
    · simp
    · rw [findFrom_go_eq xs (i + 1)]
      cases findClose xs <;> simp <;> omega

theorem drop_mid (pre suf : Str) : (pre ++ suf).drop pre.length = suf := by simp

/-- `_paramexpand` at a `$` not followed by `(` or `[`: it returns, and the index it returns is
    `paramLen` past the `$` -/
theorem sat_paramexpand_len (np : NestedParse) (pre rest : Str)
    (h1 : rest.head? ≠ some '(') (h2 : rest.head? ≠ some '[') :
    Sat (paramexpand np (pre ++ '$' :: rest) pre.length)
      (fun r => r.2 = pre.length + paramLen rest) (fun _ => False) := by
  unfold paramexpand
  simp only []
  cases rest with
  | nil =>
    have hz : (pre ++ ['$'])[pre.length + 1]? = none := by simp
    simp only [hz]
    refine Sat.pure ?_
    have := scanName_eq (pre ++ ['$']) ((pre ++ ['$']).length + 1) (pre ++ ['$']) [] (by simp)
      (by simp [nameLen])
    simp [nameLen] at this
    simp [paramLen, this]
  | cons c r =>
    have hz : (pre ++ '$' :: c :: r)[pre.length + 1]? = some c := by
      have : pre ++ '$' :: c :: r = (pre ++ ['$']) ++ c :: r := by simp
      rw [this]
      have h := getElem?_mid (pre ++ ['$']) c r
      simp at h ⊢
    simp only [hz]
    have hc1 : c ≠ '(' := by intro h; subst h; simp at h1
    have hc2 : c ≠ '[' := by intro h; subst h; simp at h2
    have hlen : pre.length + 1 < (pre ++ '$' :: c :: r).length := by simp
    by_cases hs : specials.contains c = true
    · have hs' : "0123456789$#?-!*@".toList.contains c = true := hs
      rw [if_pos hs']
      refine Sat.pure ?_
      have hm : c ∈ specials := by simpa using hs
      simp [paramLen, hm, hlen]
    · have hs' : ¬ "0123456789$#?-!*@".toList.contains c = true := hs
      rw [if_neg hs']
      have hm : ¬ c ∈ specials := by simpa using hs
      by_cases hb : c = '{'
      · subst hb
        simp only [beq_self_eq_true, if_true]
        have hf : Str.findFrom (pre ++ '$' :: '{' :: r) '}' (pre.length + 1 + 1) =
            (findClose r).map (· + (pre.length + 2)) := by
          unfold Str.findFrom
          have : pre ++ '$' :: '{' :: r = (pre ++ ['$', '{']) ++ r := by simp
          have hd : (pre ++ '$' :: '{' :: r).drop (pre.length + 1 + 1) = r := by
            rw [this]
            exact List.drop_left' (by simp)
          rw [hd, findFrom_go_eq]
        rw [hf]
        cases hk : findClose r with
        | none =>
          simp only [Option.map_none]
          refine Sat.pure ?_
          simp [paramLen, hm, hk]
        | some k =>
          simp only [Option.map_some]
          refine Sat.pure ?_
          have := findClose_lt r k hk
          have hlt : k + (pre.length + 2) < pre.length + (r.length + 1 + 1) := by omega
          simp [paramLen, hm, hk, hlt]
          omega
      · have hb' : (c == '{') = false := by simpa using hb
        have hb1 : (c == '(') = false := by simpa using hc1
        have hb2 : (c == '[') = false := by simpa using hc2
        simp only [hb', hb1, hb2, Bool.false_eq_true, if_false]
        refine Sat.pure ?_
        have := scanName_eq (pre ++ '$' :: c :: r) ((pre ++ '$' :: c :: r).length + 1)
          (pre ++ ['$']) (c :: r) (by simp) (by
            have := nameLen_le (c :: r); simp at this ⊢; omega)
        simp at this
        simp [paramLen, hm, hb, this]
        omega

/-! ### the loop body at a `$` -/

theorem step_dollar (np : NestedParse) (tok : Token) (string : Str) (q : Bool) (st : ExpSt)
    (h : string[st.sindex]? = some '$') (hl : 1 < string.length) :
    expandStep np tok string q st = (paramexpand np string st.sindex >>= fun r =>
      pure (.inl { st with
        parts := (match r.1 with | some n => st.parts ++ [n] | none => st.parts)
        istring := st.istring ++ Str.slice string st.sindex r.2
        sindex := r.2 })) := by
  have hne : st.sindex ≠ string.length := by
    intro h'; rw [h', List.getElem?_eq_none (Nat.le_refl _)] at h; cases h
  unfold expandStep
  simp [h, hne, hl]
  rfl

theorem step_dollar_single (np : NestedParse) (tok : Token) (string : Str) (q : Bool) (st : ExpSt)
    (h : string[st.sindex]? = some '$') (hl : ¬ 1 < string.length) :
    expandStep np tok string q st = pure (.inl { st with
        istring := st.istring ++ ['$'], sindex := st.sindex + 1 }) := by
  have hne : st.sindex ≠ string.length := by
    intro h'; rw [h', List.getElem?_eq_none (Nat.le_refl _)] at h; cases h
  unfold expandStep
  simp [h, hne, hl]

/-! ### the pure scan with parameters -/

/-- characters at which the expander may start a nested parse or a tilde scan -/
def isSubChar (c : Char) : Bool := c == '`' || c == '<' || c == '>' || c == '~'

/-- no backquote, `<`, `>`, `~`, and no `$(`, `$[` -/
def alphaOK : Str → Bool
  | [] => true
  | c :: r => !isSubChar c && !(c == '$' && (r.head? == some '(' || r.head? == some '[')) && alphaOK r

/-- the expander's scan over a word satisfying `alphaOK`; the first argument counts the
    characters still to be copied as part of the parameter text being consumed -/
def stripXGo (qdq : Bool) : Nat → Str → Option Str
  | _, [] => some []
  | k + 1, c :: rest => (stripXGo qdq k rest).map (c :: ·)
  | 0, c :: rest =>
    if c == '$' then (stripXGo qdq (paramLen rest - 1) rest).map (c :: ·)
    else if c == '\\' then
      match rest with
      | [] => none
      | d :: rest' => (stripXGo qdq 0 rest').map (d :: ·)
    else if c == '"' then stripXGo qdq 0 rest
    else if c == '\'' && !qdq then stripXGo qdq 0 rest
    else (stripXGo qdq 0 rest).map (c :: ·)

def stripX (string : Str) (qdq : Bool) : Option Str :=
  if wholeSQ string then some (string.drop 1).dropLast else stripXGo qdq 0 string

theorem stripXGo_nil (q : Bool) (k : Nat) : stripXGo q k [] = some [] := by
  rw [stripXGo.eq_def]
theorem stripXGo_succ (q : Bool) (k : Nat) (c : Char) (r : Str) :
    stripXGo q (k + 1) (c :: r) = (stripXGo q k r).map (c :: ·) := by
  conv => lhs; rw [stripXGo.eq_def]
theorem stripXGo_dollar (q : Bool) (r : Str) :
    stripXGo q 0 ('$' :: r) = (stripXGo q (paramLen r - 1) r).map ('$' :: ·) := by
  conv => lhs; rw [stripXGo.eq_def]
  simp
theorem stripXGo_bs_nil (q : Bool) : stripXGo q 0 ['\\'] = none := by
  rw [stripXGo.eq_def]; simp
theorem stripXGo_bs_cons (q : Bool) (d : Char) (r : Str) :
    stripXGo q 0 ('\\' :: d :: r) = (stripXGo q 0 r).map (d :: ·) := by
  conv => lhs; rw [stripXGo.eq_def]
  simp
theorem stripXGo_dq (q : Bool) (r : Str) : stripXGo q 0 ('"' :: r) = stripXGo q 0 r := by
  conv => lhs; rw [stripXGo.eq_def]
  simp
theorem stripXGo_sq (q : Bool) (r : Str) :
    stripXGo q 0 ('\'' :: r) = if q then (stripXGo q 0 r).map ('\'' :: ·) else stripXGo q 0 r := by
  conv => lhs; rw [stripXGo.eq_def]
  cases q <;> simp
theorem stripXGo_plain (q : Bool) (c : Char) (r : Str) (h0 : c ≠ '$') (h1 : c ≠ '\\') (h2 : c ≠ '"')
    (h3 : c ≠ '\'') : stripXGo q 0 (c :: r) = (stripXGo q 0 r).map (c :: ·) := by
  conv => lhs; rw [stripXGo.eq_def]
  simp [h0, h1, h2, h3]

theorem stripXGo_skip (q : Bool) : ∀ (seg : Str) (k : Nat) (rest : Str),
    stripXGo q (seg.length + k) (seg ++ rest) = (stripXGo q k rest).map (seg ++ ·)
  | [], k, rest => by simp
  | c :: seg, k, rest => by
    have : (c :: seg).length + k = (seg.length + k) + 1 := by simp; omega
    rw [this, List.cons_append, stripXGo_succ, stripXGo_skip q seg k rest]
    cases stripXGo q k rest <;> simp

/-- at a `$` the scan copies `paramLen` characters -/
theorem stripXGo_dollar_jump (q : Bool) (r : Str) :
    stripXGo q 0 ('$' :: r) =
      (stripXGo q 0 (('$' :: r).drop (paramLen r))).map (('$' :: r).take (paramLen r) ++ ·) := by
  rw [stripXGo_dollar]
  have h1 := paramLen_pos r
  have h2 := paramLen_le r
  obtain ⟨n, hn⟩ : ∃ n, paramLen r = n + 1 := ⟨paramLen r - 1, by omega⟩
  rw [hn]
  simp only [Nat.add_sub_cancel, List.take_succ_cons, List.drop_succ_cons]
  have hlen : (r.take n).length = n := by simp; omega
  have := stripXGo_skip q (r.take n) 0 (r.drop n)
  rw [List.take_append_drop, hlen, Nat.add_zero] at this
  rw [this]
  cases stripXGo q 0 (r.drop n) <;> simp

theorem alphaOK_cons {c : Char} {r : Str} (h : alphaOK (c :: r) = true) :
    isSubChar c = false ∧ (c = '$' → r.head? ≠ some '(' ∧ r.head? ≠ some '[') ∧ alphaOK r = true := by
  simp only [alphaOK, Bool.and_eq_true, Bool.not_eq_true', Bool.and_eq_false_iff,
    Bool.or_eq_false_iff] at h
  refine ⟨h.1.1, ?_, h.2⟩
  intro hc
  subst hc
  rcases h.1.2 with h' | h'
  · simp at h'
  · simp at h'; exact h'

theorem alphaOK_drop : ∀ (n : Nat) (t : Str), alphaOK t = true → alphaOK (t.drop n) = true
  | 0, t, h => by simpa using h
  | n + 1, [], h => by simp [alphaOK]
  | n + 1, c :: r, h => by
    simp only [List.drop_succ_cons]
    exact alphaOK_drop n r (alphaOK_cons h).2.2

theorem findFrom_lt (s : Str) (start z : Nat) (h : Str.findFrom s '}' start = some z) :
    z < s.length := by
  unfold Str.findFrom at h
  rw [findFrom_go_eq] at h
  cases hk : findClose (s.drop start) with
  | none => rw [hk] at h; cases h
  | some k =>
    rw [hk] at h
    simp at h
    have := findClose_lt _ k hk
    simp at this
    omega

/-- the node `_paramexpand` returns (if any) is a parameter spanning the consumed text -/
theorem sat_paramexpand_node (np : NestedParse) (string : Str) (sindex : Nat)
    (h1 : string[sindex + 1]? ≠ some '(') (h2 : string[sindex + 1]? ≠ some '[') :
    Sat (paramexpand np string sindex)
      (fun r => ∀ n, r.1 = some n → ∃ v, n = .parameter (sindex, r.2) v) (fun _ => False) := by
  unfold paramexpand
  simp only []
  split
  · exact Sat.pure (fun n hn => by cases hn; exact ⟨_, rfl⟩)
  · rename_i c hc
    have hlt : sindex + 1 < string.length := by
      apply Classical.byContradiction
      intro hcon
      rw [List.getElem?_eq_none (by omega)] at hc
      cases hc
    split
    · refine Sat.pure (fun n hn => ?_)
      simp only [hlt, if_true] at hn ⊢
      cases hn; exact ⟨_, rfl⟩
    · split
      · split
        · exact Sat.pure (fun n hn => by cases hn)
        · rename_i z hz
          have := findFrom_lt _ _ _ hz
          refine Sat.pure (fun n hn => ?_)
          simp only [this, if_true] at hn ⊢
          cases hn; exact ⟨_, rfl⟩
      · split
        · rename_i hp
          simp at hp; subst hp
          exact absurd hc h1
        · split
          · rename_i hp
            simp at hp; subst hp
            exact absurd hc h2
          · exact Sat.pure (fun n hn => by cases hn; exact ⟨_, rfl⟩)

theorem slice_take (pre suf : Str) (n : Nat) :
    Str.slice (pre ++ suf) pre.length (pre.length + n) = suf.take n := by
  unfold Str.slice
  rw [List.take_append, List.drop_append]
  simp

/-! ### the scan with parameters against the scan without -/

def isQuoting (c : Char) : Bool := c == '\\' || c == '\'' || c == '"'

/-- K7′ (generalises K7): a quote character or a backslash inside a text that `_paramexpand`
    consumes — necessarily inside `${…}`, the other forms consist of name characters and the
    special parameters.  (`Spec.featGo` ignores its `verbatimOpen` argument and scans through
    `${…}`, so the features K1…K5 are not meaningful for such words.) -/
def segQuoteGo : Nat → Str → Bool
  | _, [] => false
  | k + 1, c :: rest => isQuoting c || segQuoteGo k rest
  | 0, c :: rest =>
    if c == '$' then segQuoteGo (paramLen rest - 1) rest
    else if c == '\\' then (match rest with | [] => false | _ :: rest' => segQuoteGo 0 rest')
    else segQuoteGo 0 rest

def k7x (t : Str) : Bool := segQuoteGo 0 t


theorem segQuoteGo_nil (k : Nat) : segQuoteGo k [] = false := by rw [segQuoteGo.eq_def]
theorem segQuoteGo_succ (k : Nat) (c : Char) (r : Str) :
    segQuoteGo (k + 1) (c :: r) = (isQuoting c || segQuoteGo k r) := by
  conv => lhs; rw [segQuoteGo.eq_def]
theorem segQuoteGo_dollar (r : Str) : segQuoteGo 0 ('$' :: r) = segQuoteGo (paramLen r - 1) r := by
  conv => lhs; rw [segQuoteGo.eq_def]
  simp
theorem segQuoteGo_bs_cons (d : Char) (r : Str) : segQuoteGo 0 ('\\' :: d :: r) = segQuoteGo 0 r := by
  conv => lhs; rw [segQuoteGo.eq_def]
  simp
theorem segQuoteGo_other (c : Char) (r : Str) (h0 : c ≠ '$') (h1 : c ≠ '\\') :
    segQuoteGo 0 (c :: r) = segQuoteGo 0 r := by
  conv => lhs; rw [segQuoteGo.eq_def]
  simp [h0, h1]

theorem segQuoteGo_skip : ∀ (seg : Str) (k : Nat) (rest : Str),
    segQuoteGo (seg.length + k) (seg ++ rest) = (seg.any isQuoting || segQuoteGo k rest)
  | [], k, rest => by simp
  | c :: seg, k, rest => by
    have : (c :: seg).length + k = (seg.length + k) + 1 := by simp; omega
    rw [this, List.cons_append, segQuoteGo_succ, segQuoteGo_skip seg k rest]
    simp [Bool.or_assoc]

/-- at a `$` the text consumed is free of quote characters, and the scan goes on behind it -/
theorem segQuoteGo_dollar_jump (r : Str) (h : segQuoteGo 0 ('$' :: r) = false) :
    (('$' :: r).take (paramLen r)).any isQuoting = false ∧
    segQuoteGo 0 (('$' :: r).drop (paramLen r)) = false := by
  rw [segQuoteGo_dollar] at h
  have h1 := paramLen_pos r
  have h2 := paramLen_le r
  obtain ⟨n, hn⟩ : ∃ n, paramLen r = n + 1 := ⟨paramLen r - 1, by omega⟩
  rw [hn] at h ⊢
  simp only [Nat.add_sub_cancel, List.take_succ_cons, List.drop_succ_cons] at h ⊢
  have hlen : (r.take n).length = n := by simp; omega
  have := segQuoteGo_skip (r.take n) 0 (r.drop n)
  rw [List.take_append_drop, hlen, Nat.add_zero, h] at this
  have := this.symm
  simp only [Bool.or_eq_false_iff] at this
  refine ⟨?_, this.2⟩
  simp only [List.any_cons, this.1, Bool.or_false]
  decide

/-- a parameter node (positions relative to `base`) over a stretch of `string` without quote
    characters and backslashes -/
def PlainParam (string : Str) (base : Nat) (p : Node) : Prop :=
  ∃ a b v, p = .parameter (a + base, b + base) v ∧
    ∀ j c, a ≤ j → j < b → string[j]? = some c → isQuoting c = false

theorem plain_seg (pre suf : Str) (n : Nat) (h : (suf.take n).any isQuoting = false) :
    ∀ j c, pre.length ≤ j → j < pre.length + n → (pre ++ suf)[j]? = some c → isQuoting c = false := by
  intro j c h1 h2 h3
  rw [List.getElem?_append_right h1] at h3
  have h4 : (suf.take n)[j - pre.length]? = some c := by
    rw [List.getElem?_take_of_lt (by omega)]; exact h3
  have hm : c ∈ suf.take n := List.mem_of_getElem? h4
  cases hq : isQuoting c with
  | false => rfl
  | true =>
    have : (suf.take n).any isQuoting = true := List.any_eq_true.mpr ⟨c, hm, hq⟩
    rw [h] at this; cases this

/-- loop invariant: the cursor is past the end (the next iteration raises IndexError), or it
    stands at the start of a suffix from which the pure scan yields the rest of the value;
    and, when K7′ is absent, the parts so far are parameters over plain text -/
def Inv (string : Str) (q : Bool) (st : ExpSt) : Prop :=
  (string.length < st.sindex ∨
    ∃ pre suf, string = pre ++ suf ∧ st.sindex = pre.length ∧ alphaOK suf = true ∧
      (stripXGo q 0 suf).map (st.istring ++ ·) = stripXGo q 0 string ∧
      (k7x string = false → segQuoteGo 0 suf = false)) ∧
  (k7x string = false → ∀ p ∈ st.parts, PlainParam string 0 p)

/-- what the loop returns -/
def Post (string : Str) (q : Bool) (r : List Node × Str × Bool) : Prop :=
  stripXGo q 0 string = some r.2.1 ∧ r.2.2 = false ∧
  (k7x string = false → ∀ p ∈ r.1, PlainParam string 0 p)

theorem Inv.mk' {string : Str} {q : Bool} {st : ExpSt} (pre suf : Str) (h1 : string = pre ++ suf)
    (h2 : st.sindex = pre.length) (h3 : alphaOK suf = true)
    (h4 : (stripXGo q 0 suf).map (st.istring ++ ·) = stripXGo q 0 string)
    (h5 : k7x string = false → segQuoteGo 0 suf = false)
    (h6 : k7x string = false → ∀ p ∈ st.parts, PlainParam string 0 p) : Inv string q st :=
  ⟨Or.inr ⟨pre, suf, h1, h2, h3, h4, h5⟩, h6⟩

theorem sat_expandStep_param (np : NestedParse) (tok : Token) (string : Str) (q : Bool)
    (hw : wholeSQ string = false) (st : ExpSt) (hI : Inv string q st) :
    Sat (expandStep np tok string q st) (Sum.elim (Inv string q) (Post string q)) := by
  obtain ⟨hI, hP⟩ := hI
  rcases hI with hI | ⟨pre, suf, hs, hi, ha, hv, hk⟩
  · rw [step_oob np tok string q st hI]; exact Sat.foreign trivial
  cases suf with
  | nil =>
    rw [step_end np tok string q st (by rw [hi, hs]; simp)]
    refine Sat.pure ?_
    simp only [Sum.elim_inr]
    refine ⟨?_, rfl, hP⟩
    rw [← hv, stripXGo_nil]; simp
  | cons c rest =>
    have hc : string[st.sindex]? = some c := by rw [hs, hi]; exact getElem?_mid pre c rest
    obtain ⟨hsub, hdol, ha'⟩ := alphaOK_cons ha
    have hs' : string = (pre ++ [c]) ++ rest := by rw [hs]; simp
    by_cases h0 : c = '$'
    · subst h0
      obtain ⟨hp1, hp2⟩ := hdol rfl
      -- both branches end in the same kind of state
      have fin : ∀ (parts : List Node) (si : Nat), si = pre.length + paramLen rest →
          (k7x string = false → ∀ p ∈ parts, PlainParam string 0 p) →
          Inv string q { st with
            parts := parts
            istring := st.istring ++ Str.slice string st.sindex si
            sindex := si } := by
        intro parts si hsi hparts
        have hle := paramLen_le rest
        refine Inv.mk' (pre ++ ('$' :: rest).take (paramLen rest)) (('$' :: rest).drop (paramLen rest))
          (by rw [hs, List.append_assoc, List.take_append_drop]) ?_ (alphaOK_drop _ _ ha) ?_
          (fun h7 => (segQuoteGo_dollar_jump rest (hk h7)).2) hparts
        · simp [hsi]; omega
        · simp only []
          rw [← hv, stripXGo_dollar_jump, hsi, hi, hs, slice_take]
          cases stripXGo q 0 (List.drop (paramLen rest) ('$' :: rest)) <;> simp
      have hseg : k7x string = false → ∀ j c, pre.length ≤ j → j < pre.length + paramLen rest →
          string[j]? = some c → isQuoting c = false := by
        intro h7
        rw [hs]
        exact plain_seg pre ('$' :: rest) (paramLen rest) (segQuoteGo_dollar_jump rest (hk h7)).1
      by_cases hl : 1 < string.length
      · rw [step_dollar np tok string q st hc hl]
        have hlen := sat_paramexpand_len np pre rest hp1 hp2
        have hz : string[st.sindex + 1]? = rest.head? := by
          rw [hs, hi]
          have : pre ++ '$' :: rest = (pre ++ ['$']) ++ rest := by simp
          rw [this, List.getElem?_append_right (by simp)]
          cases rest <;> simp
        have hnode := sat_paramexpand_node np string st.sindex (by rw [hz]; exact hp1)
          (by rw [hz]; exact hp2)
        rw [← hs, ← hi] at hlen
        refine Sat.bind (Sat.weaken (Sat.and hlen hnode) (fun _ h => h) (fun _ h => h.elim))
          (fun r hr => Sat.pure ?_)
        simp only [Sum.elim_inl]
        refine fin _ _ (by rw [hr.1, hi]) (fun h7 p hp => ?_)
        cases hr1 : r.1 with
        | none => rw [hr1] at hp; exact hP h7 p hp
        | some n =>
          rw [hr1] at hp
          rcases List.mem_append.mp hp with hp | hp
          · exact hP h7 p hp
          · simp at hp; subst hp
            obtain ⟨v, hv'⟩ := hr.2 p hr1
            refine ⟨st.sindex, r.2, v, by simpa using hv', ?_⟩
            intro j c' hj1 hj2 hj3
            exact hseg h7 j c' (by omega) (by rw [hr.1] at hj2; omega) hj3
      · rw [step_dollar_single np tok string q st hc hl]
        refine Sat.pure ?_
        simp only [Sum.elim_inl]
        have hr : rest = [] := by
          cases rest with
          | nil => rfl
          | cons d r => exfalso; apply hl; rw [hs]; simp; omega
        have hp : pre = [] := by
          cases pre with
          | nil => rfl
          | cons d r => exfalso; apply hl; rw [hs]; simp; omega
        have := fin st.parts (st.sindex + 1) (by rw [hr, hi]; simp [paramLen]) hP
        have hsl : Str.slice string st.sindex (st.sindex + 1) = ['$'] := by
          rw [hs, hi, hr, hp]; rfl
        rw [hsl] at this
        exact this
    · have hsub' := hsub
      simp only [isSubChar, Bool.or_eq_false_iff, beq_eq_false_iff_ne, ne_eq] at hsub'
      obtain ⟨⟨⟨s1, s2⟩, s3⟩, s4⟩ := hsub'
      have hce : isExpChar c = false := by simp [isExpChar, h0, s1, s2, s3, s4]
      have hlen : (pre ++ [c]).length = st.sindex + 1 := by simp [hi]
      by_cases h1 : c = '\\'
      · subst h1
        rw [step_backslash np tok string q st hc]
        refine Sat.pure ?_
        simp only [Sum.elim_inl]
        cases rest with
        | nil => exact ⟨Or.inl (by simp [hs, hi]), hP⟩
        | cons d rest' =>
          refine Inv.mk' (pre ++ ['\\', d]) rest' (by rw [hs]; simp) (by simp [hi])
            (alphaOK_cons ha').2.2 ?_ (fun h7 => by rw [← segQuoteGo_bs_cons d rest']; exact hk h7) hP
          simp only []
          rw [← hv, stripXGo_bs_cons, hs, hi, slice_next]
          cases stripXGo q 0 rest' <;> simp
      · have hk' : k7x string = false → segQuoteGo 0 rest = false :=
          fun h7 => by rw [← segQuoteGo_other c rest h0 h1]; exact hk h7
        by_cases h2 : c = '"'
        · subst h2
          rw [step_dquote np tok string q st hc]
          refine Sat.pure ?_
          simp only [Sum.elim_inl]
          refine Inv.mk' (pre ++ ['"']) rest hs' (by simp [hi]) ha' ?_ hk' hP
          simp only []
          rw [← hv, stripXGo_dq]
        · by_cases h3 : c = '\''
          · subst h3
            have hq0 : ¬ (st.sindex = 0 ∧ string.getLast? = some '\'') := by
              rintro ⟨a, b⟩
              have hp : pre = [] := List.eq_nil_of_length_eq_zero (by omega)
              rw [hp] at hs
              simp [wholeSQ, hs] at hw
              rw [hs] at b
              exact hw b
            rw [step_squote np tok string q st hc hq0]
            refine Sat.pure ?_
            simp only [Sum.elim_inl]
            refine Inv.mk' (pre ++ ['\'']) rest hs' (by cases q <;> simp [hi]) ha' ?_ hk'
              (by cases q <;> exact hP)
            rw [← hv, stripXGo_sq]
            cases q <;> simp
            cases stripXGo true 0 rest <;> simp
          · rw [step_plain np tok string q st c hc hce h1 h2 h3]
            refine Sat.pure ?_
            simp only [Sum.elim_inl]
            refine Inv.mk' (pre ++ [c]) rest hs' (by simp [hi]) ha' ?_ hk' hP
            simp only []
            rw [← hv, stripXGo_plain q c rest h0 h1 h2 h3]
            cases stripXGo q 0 rest <;> simp

theorem expandwordinternal_wholeSQ (np : NestedParse) (tok : Token) (q : Bool)
    (hw : wholeSQ tok.valueStr = true) :
    expandwordinternal np tok q = pure ([], (tok.valueStr.drop 1).dropLast) := by
  unfold expandwordinternal
  simp only []
  have hw' := hw
  simp only [wholeSQ, Bool.and_eq_true, beq_iff_eq] at hw'
  have hc : tok.valueStr[0]? = some '\'' := by
    rw [← List.head?_eq_getElem?]; exact hw'.1
  have h2 : 2 * tok.valueStr.length + 4 = (2 * tok.valueStr.length + 3) + 1 := rfl
  rw [h2, loop_succ, step_squote_whole np tok _ q _ hc rfl hw'.2, pure_bind]
  simp

theorem plainParam_shift {string : Str} {p : Node} (k : Nat) (h : PlainParam string 0 p) :
    PlainParam string k (p.shift k) := by
  obtain ⟨a, b, v, rfl, hab⟩ := h
  exact ⟨a, b, v, by simp [Node.shift, Node.mapPos], hab⟩

/-- **Part 4, model side**: the value `_expandwordinternal` returns for a word with parameters
    (but without nested parses and tildes) is the pure scan `stripX`; without K7′ the parts are
    parameter nodes over text free of quote characters -/
theorem sat_expandwordinternal_param (np : NestedParse) (tok : Token) (q : Bool)
    (ha : alphaOK tok.valueStr = true) :
    Sat (expandwordinternal np tok q) (fun r => stripX tok.valueStr q = some r.2 ∧
      (k7x tok.valueStr = false → ∀ p ∈ r.1, PlainParam tok.valueStr tok.lexpos p)) := by
  by_cases hw : wholeSQ tok.valueStr = true
  · rw [expandwordinternal_wholeSQ np tok q hw]
    refine Sat.pure ⟨?_, fun _ p hp => by cases hp⟩
    simp [stripX, hw]
  · have hw' : wholeSQ tok.valueStr = false := by simpa using hw
    unfold expandwordinternal
    simp only []
    have hinit : Inv tok.valueStr q { flags := tok.flags } := by
      refine Inv.mk' [] tok.valueStr rfl rfl ha ?_ (fun h => h) (fun _ p hp => by cases hp)
      cases stripXGo q 0 tok.valueStr <;> simp
    refine Sat.bind (Sat.loop (I := Inv tok.valueStr q) trivial
      (fun s hs => sat_expandStep_param np tok tok.valueStr q hw' s hs) _ _ hinit) ?_
    rintro ⟨parts, istring, early⟩ ⟨hr, hearly, hparts⟩
    simp only [] at hearly
    subst hearly
    have hr' : stripX tok.valueStr q = some istring := by
      simp only [stripX, hw', Bool.false_eq_true, if_false]; exact hr
    simp only []
    split
    · rename_i hcond
      refine Sat.pure ⟨hr', fun h7 p hp => ?_⟩
      -- early exit does not occur here; `parts` is empty
      simp at hcond; simp only [] at hp; rw [hcond] at hp; cases hp
    · have hres : ∀ p ∈ parts.map (·.shift tok.lexpos), k7x tok.valueStr = false →
          PlainParam tok.valueStr tok.lexpos p := by
        intro p hp h7
        obtain ⟨p0, hp0, rfl⟩ := List.mem_map.mp hp
        exact plainParam_shift _ (hparts h7 p0 hp0)
      split
      · exact Sat.bind_any (fun _ => Sat.pure ⟨hr', fun h7 p hp => hres p hp h7⟩)
      · exact Sat.pure ⟨hr', fun h7 p hp => hres p hp h7⟩

theorem stripXGo_eq_stripGo (q : Bool) : ∀ (t : Str) (k : Nat), segQuoteGo k t = false →
    stripXGo q k t = stripGo q t
  | [], k, _ => by rw [stripXGo_nil, stripGo_nil]
  | c :: rest, k + 1, h => by
    rw [segQuoteGo.eq_def] at h
    simp only [Bool.or_eq_false_iff] at h
    obtain ⟨hc, hr⟩ := h
    simp only [isQuoting, Bool.or_eq_false_iff, beq_eq_false_iff_ne, ne_eq] at hc
    rw [stripXGo_succ, stripGo_plain q c rest hc.1.1 hc.2 hc.1.2, stripXGo_eq_stripGo q rest k hr]
  | [c], 0, h => by
    by_cases h0 : c = '$'
    · subst h0
      rw [stripXGo_dollar, stripXGo_nil, stripGo_plain q '$' [] (by decide) (by decide) (by decide),
        stripGo_nil]
    · by_cases h1 : c = '\\'
      · subst h1; rw [stripXGo_bs_nil, stripGo_bs_nil]
      · by_cases h2 : c = '"'
        · subst h2; rw [stripXGo_dq, stripGo_dq, stripXGo_nil, stripGo_nil]
        · by_cases h3 : c = '\''
          · subst h3; rw [stripXGo_sq, stripGo_sq, stripXGo_nil, stripGo_nil]
          · rw [stripXGo_plain q c [] h0 h1 h2 h3, stripGo_plain q c [] h1 h2 h3, stripXGo_nil,
              stripGo_nil]
  | c :: d :: rest, 0, h => by
    have ih1 := stripXGo_eq_stripGo q (d :: rest)
    have ih2 := stripXGo_eq_stripGo q rest
    rw [segQuoteGo.eq_def] at h
    by_cases h0 : c = '$'
    · subst h0
      simp at h
      rw [stripXGo_dollar, stripGo_plain q '$' _ (by decide) (by decide) (by decide), ih1 _ h]
    · by_cases h1 : c = '\\'
      · subst h1
        simp at h
        rw [stripXGo_bs_cons, stripGo_bs_cons, ih2 0 h]
      · simp [h0, h1] at h
        by_cases h2 : c = '"'
        · subst h2; rw [stripXGo_dq, stripGo_dq, ih1 0 h]
        · by_cases h3 : c = '\''
          · subst h3; rw [stripXGo_sq, stripGo_sq, ih1 0 h]
          · rw [stripXGo_plain q c _ h0 h1 h2 h3, stripGo_plain q c _ h1 h2 h3, ih1 0 h]

theorem stripX_eq_stripPure (t : Str) (q : Bool) (h : k7x t = false) :
    stripX t q = stripPure t q := by
  unfold stripX stripPure
  split
  · rfl
  · exact stripXGo_eq_stripGo q t 0 h


/-- `_expandword` in terms of `_expandwordinternal` with the `qdoublequotes` it computes: the
    word node carries the value and a sublist of the parts (substitutions are filtered when the
    expansion limit is 0), or — expansion limit -1 — the raw token value -/
theorem sat_expandword_of (np : NestedParse) (tok : Token) (hq : QuotedOK tok)
    (P : List Node × Str → Prop)
    (h : Sat (expandwordinternal np tok (tok.valueStr.head? == some '"')) P) :
    Sat (expandword np tok) (fun n =>
      (∃ r parts, n = .word (tok.lexpos, tok.endlexpos) r.2 parts ∧ P r ∧ ∀ p ∈ parts, p ∈ r.1) ∨
      n = .word (tok.lexpos, tok.endlexpos) tok.valueStr []) := by
  unfold expandword
  refine Sat.bind (Sat.get (P := fun _ => True) (fun _ => trivial)) (fun l _ => ?_)
  simp only []
  split
  · exact Sat.pure (Or.inr rfl)
  · have key : ∀ d : Bool, d = (tok.valueStr.head? == some '"') →
        Sat ((pure d : M Bool) >>= fun doublequoted => expandwordinternal np tok doublequoted >>= fun x =>
          pure (Node.word (tok.lexpos, tok.endlexpos) x.2
            (if (l.limit == some 0) = true then x.1.filter (fun n => !isSubstitution n) else x.1)))
          (fun n =>
            (∃ r parts, n = .word (tok.lexpos, tok.endlexpos) r.2 parts ∧ P r ∧ ∀ p ∈ parts, p ∈ r.1) ∨
            n = .word (tok.lexpos, tok.endlexpos) tok.valueStr []) := by
      intro d hd
      subst hd
      rw [pure_bind]
      refine Sat.bind h (fun r hr => Sat.pure ?_)
      refine Or.inl ⟨r, _, rfl, hr, ?_⟩
      intro p hp
      split at hp
      · exact (List.mem_filter.mp hp).1
      · exact hp
    by_cases hqq : tok.flags.contains .QUOTED = true
    · rw [if_pos hqq]
      have := hq.2 hqq
      cases hvs : tok.valueStr with
      | nil => exact absurd hvs this
      | cons c r =>
        simp only [List.head?_cons]
        have := key (c == '"') (by rw [hvs]; simp)
        rw [hvs] at this
        exact this
    · rw [if_neg hqq]
      refine key false ?_
      cases hh : (tok.valueStr.head? == some '"') with
      | false => rfl
      | true => exact absurd (hq.1 (by simpa using hh)) hqq

/-- positions marked verbatim that carry no quote character or backslash do not matter -/
theorem quoteRemoveGo_verbatim (vb : Nat → Bool) : ∀ (fuel : Nat) (st : QState) (i : Nat) (suf : Str),
    (st = 0 ∨ st = 1 ∨ st = 2) →
    (∀ j c, vb (i + j) = true → suf[j]? = some c → isQuoting c = false) →
    quoteRemoveGo vb fuel st i suf = quoteRemoveGo V0 fuel st i suf := by
  intro fuel
  induction fuel with
  | zero => intros; simp [quoteRemoveGo]
  | succ fuel ih =>
    intro st i suf hst h
    cases suf with
    | nil => simp [quoteRemoveGo]
    | cons c rest =>
      have hrest : ∀ j c', vb (i + 1 + j) = true → rest[j]? = some c' → isQuoting c' = false :=
        fun j c' h1 h2 => h (j + 1) c' (by rw [← h1]; congr 1; omega) (by simpa using h2)
      have ih1 := fun st hst => ih st (i + 1) rest hst hrest
      have ih2 : ∀ st d rest', rest = d :: rest' → (st = 0 ∨ st = 1 ∨ st = 2) →
          quoteRemoveGo vb fuel st (i + 2) rest' = quoteRemoveGo V0 fuel st (i + 2) rest' := by
        intro st d rest' hr hst
        refine ih st (i + 2) rest' hst (fun j c' h1 h2 => h (j + 2) c' (by rw [← h1]; congr 1; omega) ?_)
        rw [hr]; simpa using h2
      by_cases hv : vb i = true
      · have hc := h 0 c (by simpa using hv) (by simp)
        simp only [isQuoting, Bool.or_eq_false_iff, beq_eq_false_iff_ne, ne_eq] at hc
        obtain ⟨⟨c1, c2⟩, c3⟩ := hc
        rcases hst with rfl | rfl | rfl
        · simp [quoteRemoveGo, hv, c1, c2, c3, ih1 0 (Or.inl rfl)]
        · simp [quoteRemoveGo, hv, c1, c2, c3, ih1 1 (Or.inr (Or.inl rfl))]
        · simp [quoteRemoveGo, hv, c1, c2, c3, ih1 2 (Or.inr (Or.inr rfl))]
      · have hv' : vb i = false := by simpa using hv
        rcases hst with rfl | rfl | rfl
        · cases rest with
          | nil => simp [quoteRemoveGo, hv', ih1 0 (Or.inl rfl), ih1 1 (Or.inr (Or.inl rfl)), ih1 2 (Or.inr (Or.inr rfl))]
          | cons d rest' =>
            simp [quoteRemoveGo, hv', ih1 0 (Or.inl rfl), ih1 1 (Or.inr (Or.inl rfl)), ih1 2 (Or.inr (Or.inr rfl)), ih2 0 d rest' rfl (Or.inl rfl)]
        · simp [quoteRemoveGo, hv', ih1 0 (Or.inl rfl), ih1 1 (Or.inr (Or.inl rfl))]
        · cases rest with
          | nil => simp [quoteRemoveGo, hv', ih1 0 (Or.inl rfl), ih1 2 (Or.inr (Or.inr rfl))]
          | cons d rest' =>
            simp [quoteRemoveGo, hv', ih1 0 (Or.inl rfl), ih1 2 (Or.inr (Or.inr rfl)), ih2 2 d rest' rfl (Or.inr (Or.inr rfl))]


theorem quoteRemove_verbatim (vb : Nat → Bool) (t : Str)
    (h : ∀ j c, vb j = true → t[j]? = some c → isQuoting c = false) :
    quoteRemove vb t = quoteRemove (fun _ => false) t := by
  unfold quoteRemove
  exact quoteRemoveGo_verbatim vb _ 0 0 t (Or.inl rfl) (fun j c h1 h2 => h j c (by simpa using h1) h2)

/-- the verbatim positions computed from parameter parts over plain text are irrelevant -/
theorem verbatimOf_plain (t : Str) (base : Nat) (src : Str) (parts : List Node)
    (h : ∀ p ∈ parts, PlainParam t base p) :
    ∀ j c, verbatimOf base src parts j = true → t[j]? = some c → isQuoting c = false := by
  intro j c hv hc
  unfold verbatimOf at hv
  obtain ⟨p, hp, hpv⟩ := List.any_eq_true.mp hv
  obtain ⟨a, b, v, rfl, hab⟩ := h p hp
  simp only [Node.pos, Bool.and_eq_true, decide_eq_true_eq] at hpv
  obtain ⟨⟨_, h1⟩, h2⟩ := hpv
  have h1' := of_decide_eq_true h1
  have h2' := of_decide_eq_true h2
  exact hab j c (by omega) (by omega) hc

/-- all hypotheses on the source text of a word with parameters -/
def ParamOK (t : Str) : Bool :=
  alphaOK t && Balanced t && noK (quoteFeatures t) && !k8 t && !k9 t && !k7x t

/-- **C06_param**: `parser._expandword` on a token whose value may contain `$name`, `$1`, `$?`,
    `${…}` (no nested parses, no tilde): the word node's value is the quote-removed source —
    with nothing verbatim, and equally with the verbatim positions the executable specification
    derives from the node's own parts, over any source `src`.  (Second disjunct: expansion
    limit -1, the node carries the raw token value.) -/
theorem C06_param (np : NestedParse) (tok : Token) (h : ParamOK tok.valueStr = true)
    (hq : QuotedOK tok) :
    Sat (expandword np tok) (fun n => ∃ v parts, n = .word (tok.lexpos, tok.endlexpos) v parts ∧
      ((v = quoteRemove (fun _ => false) tok.valueStr ∧
        ∀ src, v = quoteRemove (verbatimOf tok.lexpos src parts) tok.valueStr) ∨
       (v = tok.valueStr ∧ parts = []))) := by
  simp only [ParamOK, Bool.and_eq_true, Bool.not_eq_true'] at h
  obtain ⟨⟨⟨⟨⟨ha, hb⟩, hk⟩, h8⟩, h9⟩, h7⟩ := h
  have hint := sat_expandwordinternal_param np tok (tok.valueStr.head? == some '"') ha
  refine Sat.weaken (sat_expandword_of np tok hq _ hint) ?_ (fun _ h => h)
  intro n hn
  rcases hn with ⟨r, parts, rfl, ⟨hv, hparts⟩, hsub⟩ | rfl
  · refine ⟨r.2, parts, rfl, Or.inl ?_⟩
    have hval : r.2 = quoteRemove (fun _ => false) tok.valueStr := by
      rw [stripX_eq_stripPure _ _ h7, C06_plain _ hb hk h8 h9] at hv
      exact (Option.some.inj hv).symm
    refine ⟨hval, fun src => ?_⟩
    rw [hval]
    exact (quoteRemove_verbatim _ _
      (verbatimOf_plain tok.valueStr tok.lexpos src parts (fun p hp => hparts h7 p (hsub p hp)))).symm
  · exact ⟨_, _, rfl, Or.inr ⟨rfl, rfl⟩⟩

end Bashlex.C06
