/-
  C06 for `split`, quoted inputs, part 2: `_parse_matched_pair` on a double-quoted string.
-/
import Bashlex.Props.C06.SQTok

namespace Bashlex.C06S
open Bashlex Bashlex.M Bashlex.C10 Bashlex.C14
set_option linter.unusedSimpArgs false
set_option linter.unusedVariables false

/-- the body of a double-quoted string as the tokenizer of `split` can read it: ordinary
    characters (no `"`, backslash, backquote, `$`), and backslash-character pairs -/
inductive DBody : Str → Prop
  | nil : DBody []
  | ch (c : Char) (r : Str) : c ≠ '"' → c ≠ '\\' → c ≠ '`' → c ≠ '$' → DBody r → DBody (c :: r)
  | esc (d : Char) (r : Str) : d ≠ '\n' → d ≠ '$' → DBody r → DBody ('\\' :: d :: r)

theorem run_mpPost_dq (pmp : MPParams → M Str) (pcs : CSParams → M Str) (s : MPState) (c : Char)
    (hs : s.sawdollar = false) (c3 : c ≠ '`') (c4 : c ≠ '$') (l : Local) (e : Env) :
    M.run (mpPost pmp pcs (PQ '"') true s c) l e = (.ok (s, l), e) := by
  obtain ⟨cnt, dbs, ic, sd, pn, ret⟩ := s
  simp only at hs
  subst hs
  unfold mpPost
  simp only [PQ, bne_self_eq_false, Bool.false_eq_true, if_false, beq_self_eq_true, Bool.true_and,
    beq_iff_eq, c3, c4, Bool.false_and, Bool.and_false, pure_bind]
  have : (c == '$') = false := by simp [c4]
  rw [this]
  rfl

variable (F : Nat) (l : Local) (hl : l.tape = none) (heol : l.eolLookahead = none)
include hl heol

theorem run_pmpBody_dq_ch (st : MPState) (e : Env) (c : Char) (z : Str)
    (hd : e.tape.line.drop e.tape.idx = c :: z) (c1 : c ≠ '"') (c2 : c ≠ '\\') (c3 : c ≠ '`')
    (c4 : c ≠ '$')
    (h1 : st.insidecomment = false) (h2 : st.passnextchar = false) (h3 : st.count = 1)
    (h4 : st.sawdollar = false) :
    M.run (pmpBody F (PQ '"') false true st) l e =
      (.ok (.inl { st with ret := st.ret ++ [c] }, l), envAt e (e.tape.idx + 1)) := by
  rw [pmpBody_count1 F _ _ _ st h3, M.run_bind, run_mpPre_dq_ch st l hl heol e c z hd c1 c2 h1 h2 h3]
  simp only []
  rw [M.run_bind, run_mpPost_dq _ _ { st with ret := st.ret ++ [c] } c h4 c3 c4]
  rfl

theorem run_pmpBody_dq_bs (st : MPState) (e : Env) (d : Char) (z : Str)
    (hd : e.tape.line.drop e.tape.idx = '\\' :: d :: z) (hdn : d ≠ '\n')
    (h1 : st.insidecomment = false) (h2 : st.passnextchar = false) (h3 : st.count = 1)
    (h4 : st.sawdollar = false) :
    M.run (pmpBody F (PQ '"') false true st) l e =
      (.ok (.inl { st with ret := st.ret ++ ['\\'], passnextchar := true }, l),
        envAt e (e.tape.idx + 1)) := by
  rw [pmpBody_count1 F _ _ _ st h3, M.run_bind, run_mpPre_dq_bs st l hl heol e d z hd hdn h1 h2 h3]
  simp only []
  rw [M.run_bind, run_mpPost_dq _ _ { st with ret := st.ret ++ ['\\'], passnextchar := true } '\\' h4
    (by decide) (by decide)]
  rfl

theorem run_pmpBody_dq_pass (st : MPState) (e : Env) (d : Char) (z : Str)
    (hd : e.tape.line.drop e.tape.idx = d :: z)
    (h1 : st.insidecomment = false) (h2 : st.passnextchar = true) (h3 : st.count = 1) :
    M.run (pmpBody F (PQ '"') false true st) l e =
      (.ok (.inl { st with ret := st.ret ++ [d], passnextchar := false }, l),
        envAt e (e.tape.idx + 1)) := by
  rw [pmpBody_count1 F _ _ _ st h3, M.run_bind, run_mpPre_dq_pass st l hl heol e d z hd h1 h2]
  rfl

theorem run_pmpBody_dq_close (st : MPState) (e : Env) (z : Str)
    (hd : e.tape.line.drop e.tape.idx = '"' :: z)
    (h1 : st.insidecomment = false) (h2 : st.passnextchar = false) (h3 : st.count = 1) :
    M.run (pmpBody F (PQ '"') false true st) l e =
      (.ok (.inr (st.ret ++ ['"']), l), envAt e (e.tape.idx + 1)) := by
  rw [pmpBody_count1 F _ _ _ st h3, M.run_bind, run_mpPre_dq_close st l hl heol e z hd h1 h2 h3]
  rfl

theorem run_pmp_dq_loop (z : Str) : ∀ (body : Str), DBody body →
    ∀ (st : MPState) (fuel : Nat) (e : Env),
      st.insidecomment = false → st.passnextchar = false → st.count = 1 → st.sawdollar = false →
      e.tape.line.drop e.tape.idx = body ++ '"' :: z → body.length + 1 ≤ fuel →
      M.run (M.loop "_parse_matched_pair" (pmpBody F (PQ '"') false true) fuel st) l e =
        (.ok (st.ret ++ body ++ ['"'], l), envAt e (e.tape.idx + body.length + 1)) := by
  intro body hb
  induction hb with
  | nil =>
    intro st fuel e h1 h2 h3 h4 hd hf
    obtain ⟨f, rfl⟩ : ∃ f, fuel = f + 1 := ⟨fuel - 1, by simp at hf; omega⟩
    rw [run_loop_succ, run_pmpBody_dq_close F l hl heol st e z hd h1 h2 h3]
    simp
  | ch c r c1 c2 c3 c4 _ ih =>
    intro st fuel e h1 h2 h3 h4 hd hf
    obtain ⟨f, rfl⟩ : ∃ f, fuel = f + 1 := ⟨fuel - 1, by simp at hf; omega⟩
    obtain ⟨q1, q2, q3⟩ := drop_cons_facts hd
    rw [run_loop_succ, run_pmpBody_dq_ch F l hl heol st e c _ hd c1 c2 c3 c4 h1 h2 h3 h4]
    simp only []
    rw [ih { st with ret := st.ret ++ [c] } f (envAt e (e.tape.idx + 1)) h1 h2 h3 h4
      (by simpa [envAt] using q3) (by simp at hf; omega)]
    have : e.tape.idx + 1 + r.length + 1 = e.tape.idx + (r.length + 1) + 1 := by omega
    simp [envAt, this]
  | esc d r d1 d2 _ ih =>
    intro st fuel e h1 h2 h3 h4 hd hf
    obtain ⟨f, rfl⟩ : ∃ f, fuel = f + 2 := ⟨fuel - 2, by simp at hf; omega⟩
    obtain ⟨q1, q2, q3⟩ := drop_cons_facts hd
    obtain ⟨p1, p2, p3⟩ := drop_cons_facts q3
    rw [run_loop_succ, run_pmpBody_dq_bs F l hl heol st e d _ hd d1 h1 h2 h3 h4]
    simp only []
    rw [run_loop_succ, run_pmpBody_dq_pass F l hl heol
      { st with ret := st.ret ++ ['\\'], passnextchar := true } (envAt e (e.tape.idx + 1)) d _
      (by simpa [envAt] using q3) h1 rfl h3]
    simp only []
    have henv : envAt (envAt e (e.tape.idx + 1)) ((envAt e (e.tape.idx + 1)).tape.idx + 1) =
        envAt e (e.tape.idx + 1 + 1) := rfl
    rw [henv]
    rw [ih { st with ret := st.ret ++ ['\\'] ++ [d], passnextchar := false }
      f (envAt e (e.tape.idx + 1 + 1)) h1 rfl h3 h4 (by simpa [envAt] using p3)
      (by simp at hf; omega)]
    have : e.tape.idx + 1 + 1 + r.length + 1 = e.tape.idx + (r.length + 1 + 1) + 1 := by omega
    simp [envAt, this]

/-- **`_parse_matched_pair` on a double-quoted string** -/
theorem run_pmp_dq (body z : Str) (e : Env) (hb : DBody body)
    (hd : e.tape.line.drop e.tape.idx = body ++ '"' :: z)
    (hlen : e.tape.line.length + 2 ≤ 1073741824) :
    M.run (parseMatchedPair (F + 1) (PQ '"')) l e =
      (.ok (body ++ ['"'], l), envAt e (e.tape.idx + body.length + 1)) := by
  have := drop_len hd
  rw [pmp_succ, M.run_bind, run_mpInit_dq]
  simp only [loopFuel, pure_bind]
  rw [run_pmp_dq_loop F l hl heol z body hb _ 1073741824 e rfl rfl rfl rfl hd (by omega)]
  simp

end Bashlex.C06S
