/-
  C06, part 3: the entry point `parser._expandword` on words without expansion characters.
-/
import Bashlex.Props.C06.Plain

namespace Bashlex.C06
open Bashlex Bashlex.Spec Bashlex.M
set_option linter.unusedSimpArgs false
set_option linter.unusedVariables false

theorem run_get_bind {α : Type} (f : Local → M α) (l : Local) (e : Env) :
    ((get : M Local) >>= f).run l e = (f l).run l e := rfl

/-- what `_expandword` needs of the QUOTED flag: it is set when the value starts with `"`, and
    it is not set on an empty value (`tokenword.value[0]` would raise IndexError).  The tokenizer
    sets QUOTED when it meets a quote character or an unquoted backslash. -/
def QuotedOK (tok : Token) : Prop :=
  (tok.valueStr.head? = some '"' → tok.flags.contains .QUOTED = true) ∧
  (tok.flags.contains .QUOTED = true → tok.valueStr ≠ [])

/-- QUOTED iff the value contains a quote character or a backslash -/
theorem QuotedOK.of_iff {tok : Token}
    (h : tok.flags.contains .QUOTED = tok.valueStr.any (fun c => c == '\'' || c == '"' || c == '\\')) :
    QuotedOK tok := by
  constructor
  · intro hh
    rw [h]
    cases hv : tok.valueStr with
    | nil => rw [hv] at hh; cases hh
    | cons c r => rw [hv] at hh; simp at hh; subst hh; simp
  · intro hq hv
    rw [h, hv] at hq
    cases hq

/-- `_expandword` on a word without expansion characters: total, pure, state unchanged -/
theorem expandword_plain_run (np : NestedParse) (tok : Token) (v : Str)
    (hn : noExp tok.valueStr = true) (hq : QuotedOK tok)
    (hv : stripPure tok.valueStr (tok.valueStr.head? == some '"') = some v)
    (l : Local) (e : Env) (hl : l.limit ≠ some (-1)) :
    (expandword np tok).run l e = (.ok (.word (tok.lexpos, tok.endlexpos) v [], l), e) := by
  unfold expandword
  rw [run_get_bind]
  have hl' : (l.limit == some (-1)) = false := by simpa using hl
  simp only [hl']
  simp only [Bool.false_eq_true, if_false]
  have key : ∀ d : Bool, d = (tok.valueStr.head? == some '"') →
      ((pure d : M Bool) >>= fun doublequoted => expandwordinternal np tok doublequoted >>= fun x =>
        pure (Node.word (tok.lexpos, tok.endlexpos) x.2
          (if (l.limit == some 0) = true then x.1.filter (fun n => !isSubstitution n) else x.1))).run l e
      = (.ok (.word (tok.lexpos, tok.endlexpos) v [], l), e) := by
    intro d hd
    subst hd
    rw [pure_bind, expandwordinternal_plain np tok _ hn, hv]
    simp
    rfl
  by_cases hqq : tok.flags.contains .QUOTED = true
  · rw [if_pos hqq]
    have := hq.2 hqq
    cases hvs : tok.valueStr with
    | nil => exact absurd hvs this
    | cons c r =>
      simp only [List.head?_cons]
      exact key (c == '"') (by rw [hvs]; simp)
  · rw [if_neg hqq]
    refine key false ?_
    cases hh : (tok.valueStr.head? == some '"') with
    | false => rfl
    | true => exact absurd (hq.1 (by simpa using hh)) hqq

end Bashlex.C06
