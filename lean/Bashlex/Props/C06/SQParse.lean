/-
  C06 for `split`, quoted inputs, part 8: a decidable parser for the input class `QInputL`.
-/
import Bashlex.Props.C06.SQChunks

namespace Bashlex.C06S
open Bashlex Bashlex.Spec
set_option linter.unusedSimpArgs false
set_option linter.unusedVariables false

/-- after an opening `'`: the body and what follows the closing quote -/
def takeSq : Str → Option (Str × Str)
  | [] => none
  | c :: r => if c == '\'' then some ([], r) else (takeSq r).map fun p => (c :: p.1, p.2)

/-- after an opening `"`: the body (no backquote, no `$`, backslash before anything but a newline
    or `$`) and what follows the closing quote -/
def takeDq : Str → Option (Str × Str)
  | [] => none
  | c :: r =>
    if c == '"' then some ([], r)
    else if c == '\\' then
      match r with
      | d :: r' =>
        if d == '\n' || d == '$' then none else (takeDq r').map fun p => ('\\' :: d :: p.1, p.2)
      | [] => none
    else if c == '`' || c == '$' then none
    else (takeDq r).map fun p => (c :: p.1, p.2)

/-- the chunk at the head of the input, its "holds a quoting character" flag, and the rest -/
def takeChunk : Nat → Str → Option (Str × Bool × Str)
  | 0, _ => none
  | _ + 1, [] => some ([], false, [])
  | n + 1, c :: r =>
    if shellblank c then some ([], false, c :: r)
    else if plainCh c then (takeChunk n r).map fun p => (c :: p.1, p.2.1, p.2.2)
    else if c == '\\' then
      match r with
      | d :: r' =>
        if d == '\n' || d == '$' then none
        else (takeChunk n r').map fun p => ('\\' :: d :: p.1, true, p.2.2)
      | [] => none
    else if c == '\'' then
      (takeSq r).bind fun b => (takeChunk n b.2).map fun p => ('\'' :: (b.1 ++ '\'' :: p.1), true, p.2.2)
    else if c == '"' then
      (takeDq r).bind fun b => (takeChunk n b.2).map fun p => ('"' :: (b.1 ++ '"' :: p.1), true, p.2.2)
    else none

def parseGo : Nat → Str → Option (List (Str × Bool))
  | 0, _ => none
  | _ + 1, [] => some []
  | n + 1, c :: r =>
    if shellblank c then parseGo n r
    else (takeChunk (r.length + 2) (c :: r)).bind fun p =>
      if p.1.isEmpty then none else (parseGo n p.2.2).map fun cs => (p.1, p.2.1) :: cs

/-- the chunks of an input of the class treated here (`none`: outside the class) -/
def parseInput (s : Str) : Option (List (Str × Bool)) := parseGo (s.length + 1) s

theorem takeSq_sound : ∀ (r b r' : Str), takeSq r = some (b, r') →
    r = b ++ '\'' :: r' ∧ ∀ x ∈ b, x ≠ '\''
  | [], b, r', h => by simp [takeSq] at h
  | c :: r, b, r', h => by
    rw [takeSq] at h
    by_cases hc : c = '\''
    · subst hc
      simp at h
      obtain ⟨rfl, rfl⟩ := h
      simp
    · have hc' : (c == '\'') = false := by simp [hc]
      simp only [hc', Bool.false_eq_true, if_false, Option.map_eq_some_iff] at h
      obtain ⟨⟨b0, r0⟩, h0, h1⟩ := h
      simp only [Prod.mk.injEq] at h1
      obtain ⟨rfl, rfl⟩ := h1
      obtain ⟨e1, e2⟩ := takeSq_sound r b0 r0 h0
      refine ⟨by rw [e1]; simp, ?_⟩
      intro x hx
      rcases List.mem_cons.1 hx with rfl | hx
      · exact hc
      · exact e2 x hx

theorem takeDq_sound : ∀ (n : Nat) (r : Str), r.length ≤ n → ∀ (b r' : Str),
    takeDq r = some (b, r') → r = b ++ '"' :: r' ∧ DBody b := by
  intro n
  induction n with
  | zero =>
    intro r hn b r' h
    have : r = [] := List.eq_nil_of_length_eq_zero (by omega)
    subst this; simp [takeDq] at h
  | succ n ih =>
    intro r hn b r' h
    cases r with
    | nil => simp [takeDq] at h
    | cons c r =>
      have hr : r.length ≤ n := by simp at hn; omega
      rw [takeDq.eq_def] at h
      simp only [] at h
      by_cases hq : c = '"'
      · subst hq
        simp at h
        obtain ⟨rfl, rfl⟩ := h
        exact ⟨by simp, DBody.nil⟩
      · have hq' : (c == '"') = false := by simp [hq]
        simp only [hq', Bool.false_eq_true, if_false] at h
        by_cases hb : c = '\\'
        · subst hb
          simp only [beq_self_eq_true, if_true] at h
          cases r with
          | nil => simp at h
          | cons d r2 =>
            simp only [] at h
            by_cases hd : (d == '\n' || d == '$') = true
            · simp [hd] at h
            · have hd' : (d == '\n' || d == '$') = false := by simpa using hd
              simp only [hd', Bool.false_eq_true, if_false, Option.map_eq_some_iff] at h
              obtain ⟨⟨b0, r0⟩, h0, h1⟩ := h
              simp only [Prod.mk.injEq] at h1
              obtain ⟨rfl, rfl⟩ := h1
              obtain ⟨e1, e2⟩ := ih r2 (by simp at hr; omega) b0 r0 h0
              simp only [Bool.or_eq_false_iff, beq_eq_false_iff_ne, ne_eq] at hd'
              exact ⟨by rw [e1]; simp, DBody.esc d b0 hd'.1 hd'.2 e2⟩
        · have hb' : (c == '\\') = false := by simp [hb]
          simp only [hb', Bool.false_eq_true, if_false] at h
          by_cases hx : (c == '`' || c == '$') = true
          · simp [hx] at h
          · have hx' : (c == '`' || c == '$') = false := by simpa using hx
            simp only [hx', Bool.false_eq_true, if_false, Option.map_eq_some_iff] at h
            obtain ⟨⟨b0, r0⟩, h0, h1⟩ := h
            simp only [Prod.mk.injEq] at h1
            obtain ⟨rfl, rfl⟩ := h1
            obtain ⟨e1, e2⟩ := ih r hr b0 r0 h0
            simp only [Bool.or_eq_false_iff, beq_eq_false_iff_ne, ne_eq] at hx'
            exact ⟨by rw [e1]; simp, DBody.ch c b0 hq hb hx'.1 hx'.2 e2⟩

def Bnd (x : Str) : Prop := x = [] ∨ ∃ b x', x = b :: x' ∧ shellblank b = true

theorem takeChunk_sound : ∀ (n : Nat) (r t : Str) (q : Bool) (x : Str),
    takeChunk n r = some (t, q, x) → r = t ++ x ∧ Items t q ∧ Bnd x := by
  intro n
  induction n with
  | zero => intro r t q x h; simp [takeChunk] at h
  | succ n ih =>
    intro r t q x h
    cases r with
    | nil =>
      simp [takeChunk] at h
      obtain ⟨rfl, rfl, rfl⟩ := h
      exact ⟨rfl, Items.nil, Or.inl rfl⟩
    | cons c r =>
      rw [takeChunk.eq_def] at h
      simp only [] at h
      by_cases hbl : shellblank c = true
      · simp only [hbl, if_true, Option.some.injEq, Prod.mk.injEq] at h
        obtain ⟨rfl, rfl, rfl⟩ := h
        exact ⟨rfl, Items.nil, Or.inr ⟨c, r, rfl, hbl⟩⟩
      · simp only [hbl, Bool.false_eq_true, if_false] at h
        by_cases hp : plainCh c = true
        · simp only [hp, if_true, Option.map_eq_some_iff] at h
          obtain ⟨⟨t0, q0, x0⟩, h0, h1⟩ := h
          simp only [Prod.mk.injEq] at h1
          obtain ⟨rfl, rfl, rfl⟩ := h1
          obtain ⟨e1, e2, e3⟩ := ih r t0 q0 x0 h0
          exact ⟨by rw [e1]; simp, Items.plain c t0 q0 hp e2, e3⟩
        · simp only [hp, Bool.false_eq_true, if_false] at h
          by_cases hb : c = '\\'
          · subst hb
            simp only [beq_self_eq_true, if_true] at h
            cases r with
            | nil => simp at h
            | cons d r2 =>
              simp only [] at h
              by_cases hd : (d == '\n' || d == '$') = true
              · simp [hd] at h
              · have hd' : (d == '\n' || d == '$') = false := by simpa using hd
                simp only [hd', Bool.false_eq_true, if_false, Option.map_eq_some_iff] at h
                obtain ⟨⟨t0, q0, x0⟩, h0, h1⟩ := h
                simp only [Prod.mk.injEq] at h1
                obtain ⟨rfl, rfl, rfl⟩ := h1
                obtain ⟨e1, e2, e3⟩ := ih r2 t0 q0 x0 h0
                simp only [Bool.or_eq_false_iff, beq_eq_false_iff_ne, ne_eq] at hd'
                exact ⟨by rw [e1]; simp, Items.esc d t0 q0 hd'.1 hd'.2 e2, e3⟩
          · have hb' : (c == '\\') = false := by simp [hb]
            simp only [hb', Bool.false_eq_true, if_false] at h
            by_cases hs : c = '\''
            · subst hs
              simp only [beq_self_eq_true, if_true, Option.bind_eq_some_iff,
                Option.map_eq_some_iff] at h
              obtain ⟨⟨b0, r0⟩, hsq, ⟨t0, q0, x0⟩, h0, h1⟩ := h
              simp only [Prod.mk.injEq] at h1
              obtain ⟨rfl, rfl, rfl⟩ := h1
              obtain ⟨s1, s2⟩ := takeSq_sound r b0 r0 hsq
              obtain ⟨e1, e2, e3⟩ := ih r0 t0 q0 x0 h0
              exact ⟨by rw [s1, e1]; simp, Items.sq b0 t0 q0 s2 e2, e3⟩
            · have hs' : (c == '\'') = false := by simp [hs]
              simp only [hs', Bool.false_eq_true, if_false] at h
              by_cases hd : c = '"'
              · subst hd
                simp only [beq_self_eq_true, if_true, Option.bind_eq_some_iff,
                  Option.map_eq_some_iff] at h
                obtain ⟨⟨b0, r0⟩, hdq, ⟨t0, q0, x0⟩, h0, h1⟩ := h
                simp only [Prod.mk.injEq] at h1
                obtain ⟨rfl, rfl, rfl⟩ := h1
                obtain ⟨s1, s2⟩ := takeDq_sound r.length r (Nat.le_refl _) b0 r0 hdq
                obtain ⟨e1, e2, e3⟩ := ih r0 t0 q0 x0 h0
                exact ⟨by rw [s1, e1]; simp, Items.dq b0 t0 q0 s2 e2, e3⟩
              · have hd' : (c == '"') = false := by simp [hd]
                simp [hd'] at h

theorem parseGo_sound : ∀ (n : Nat) (s : Str) (cs : List (Str × Bool)),
    parseGo n s = some cs → QInputL s cs := by
  intro n
  induction n with
  | zero => intro s cs h; simp [parseGo] at h
  | succ n ih =>
    intro s cs h
    cases s with
    | nil =>
      simp [parseGo] at h
      subst h
      exact QInputL.nil
    | cons c r =>
      rw [parseGo.eq_def] at h
      simp only [] at h
      by_cases hbl : shellblank c = true
      · simp only [hbl, if_true] at h
        exact QInputL.blank c r cs hbl (ih r cs h)
      · simp only [hbl, Bool.false_eq_true, if_false, Option.bind_eq_some_iff] at h
        obtain ⟨⟨t, q, x⟩, h0, h1⟩ := h
        simp only [] at h1
        by_cases hte : t.isEmpty = true
        · simp [hte] at h1
        · simp only [hte, Bool.false_eq_true, if_false, Option.map_eq_some_iff] at h1
          obtain ⟨cs0, h2, rfl⟩ := h1
          obtain ⟨e1, e2, e3⟩ := takeChunk_sound _ _ t q x h0
          rw [e1]
          exact QInputL.chunk t q x cs0 e2 (by intro h; subst h; simp at hte) e3 (ih x cs0 h2)

theorem parseInput_sound (s : Str) (cs : List (Str × Bool)) (h : parseInput s = some cs) :
    QInputL s cs := parseGo_sound _ s cs h

end Bashlex.C06S
