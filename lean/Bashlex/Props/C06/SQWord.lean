/-
  C06 for `split`, quoted inputs, part 3: `_readtokenword` on a chunk made of plain characters,
  backslash escapes, '…' and "…".
-/
import Bashlex.Props.C06.SQTok2

namespace Bashlex.C06S
open Bashlex Bashlex.M Bashlex.C10 Bashlex.C14
set_option linter.unusedSimpArgs false
set_option linter.unusedVariables false

/-- the effect of one item of a word on the dictionary `d` of `_readtokenword` -/
structure WStep (st st' : RWState) (added : Str) (q : Bool) (y : Char) : Prop where
  c : st'.c = some y
  tw : st'.tokenword = st.tokenword ++ added
  dp : st'.dollarPresent = st.dollarPresent
  qd : st'.quoted = (st.quoted || q)
  pn : st'.passNext = false
  ca : st'.compoundAssignment = st.compoundAssignment

abbrev wloop := M.loop "_readtokenword" readtokenwordStep

/-- a plain character; the next character is `y` -/
theorem item_plain (st : RWState) (c y : Char) (z : Str) (ps : List Nat) (l : Local) (e : Env)
    (hinv : Inv ps l) (hc : st.c = some c) (hpn : st.passNext = false) (hp : plainCh c = true)
    (hd : e.tape.line.drop e.tape.idx = y :: z) (hy : NextOK y z) :
    ∃ st' e', (∀ f, M.run (wloop (f + 1) st) l e = M.run (wloop f st') l e') ∧
      e'.tape = { e.tape with idx := e.tape.idx + 1 } ∧ WStep st st' [c] false y := by
  obtain ⟨q1, q2, q3, q4⟩ := plain_syn hp
  obtain ⟨f1, f2, f3, f4, f5, f6, f7, f8, f9⟩ := plainCh_facts hp
  have hrun : M.run (readtokenwordStep st) l e =
      (.ok (.inl { handleescapedchar st c with c := some y }, l),
        envAt (touch (touch (touch e c) c) c) (e.tape.idx + 1)) := by
    unfold readtokenwordStep
    simp only [hc, hpn, Bool.false_eq_true, if_false, bind_assoc, pure_bind]
    rw [M.run_bind, run_currentDelimiter]
    simp only [hinv.dstack, List.getLast?_nil, beq_iff_eq, f5, if_false]
    rw [M.run_bind, run_shellquote]
    simp only [q1, Bool.false_eq_true, if_false]
    rw [M.run_bind, run_shellexp]
    simp only [q2, Bool.false_eq_true, if_false, Bool.not_false, if_true, pure_bind]
    rw [M.run_bind, run_shellbreak]
    simp only [q3, Bool.false_eq_true, if_false, pure_bind]
    rw [M.run_bind, run_currentDelimiter]
    simp only [hinv.dstack, List.getLast?_nil]
    have hflag : ((none : Option Char) != some '\'' && !(handleescapedchar st c).passNext) = true := by
      simp [handleescapedchar, hpn]
    rw [M.run_bind, hflag]
    rw [run_getc_true l hinv.tape hinv.eol _ y z (by simpa using hd) hy]
    simp only [M.run_pure, touch_tape]
  refine ⟨_, _, fun f => by rw [show wloop (f + 1) st = _ from rfl, run_loop_succ, hrun], ?_, ?_⟩
  · simp [envAt]
  · have hd' : (c == '$') = false := by simp [f8]
    constructor <;> simp [handleescapedchar, hpn, hd']

/-- a backslash: the escape character is recorded, the next character is read raw -/
theorem run_step_bs (st : RWState) (d : Char) (z : Str) (ps : List Nat) (l : Local) (e : Env)
    (hinv : Inv ps l) (hc : st.c = some '\\') (hpn : st.passNext = false)
    (hd : e.tape.line.drop e.tape.idx = d :: z) (hdn : d ≠ '\n') :
    M.run (readtokenwordStep st) l e =
      (.ok (.inl { handleescapedchar { st with passNext := true, quoted := true } '\\' with c := some d },
        l), envAt e (e.tape.idx + 1)) := by
  obtain ⟨h1, h2, h3⟩ := drop_cons_facts hd
  obtain ⟨c0, ad, dp, q, pn, ca, tw⟩ := st
  simp only at hc hpn
  subst hc hpn
  unfold readtokenwordStep
  simp only [Bool.false_eq_true, if_false, bind_assoc, pure_bind]
  rw [M.run_bind, run_currentDelimiter]
  simp only [hinv.dstack, List.getLast?_nil, beq_self_eq_true, if_true]
  rw [M.run_bind, run_getc_false l hinv.tape hinv.eol e d z hd]
  have hdn' : (some d == some '\n') = false := by simp [hdn]
  simp only [hdn', Bool.false_eq_true, if_false]
  rw [M.run_bind, run_ungetc_top _ _ _ hinv.tape (by simp [envAt]) (by simp [envAt]; omega)]
  simp only [Option.isNone_none, Bool.true_or, if_true, pure_bind, Bool.not_true, Bool.false_eq_true,
    if_false]
  rw [M.run_bind, run_currentDelimiter]
  simp only [hinv.dstack, List.getLast?_nil]
  simp only [handleescapedchar, Bool.not_true, Bool.and_false]
  rw [M.run_bind, run_getc_false l hinv.tape hinv.eol _ d z (by simpa [envAt] using hd)]
  simp only [M.run_pure]
  simp [envAt]

/-- the character after a backslash is copied; the next character is `y` -/
theorem run_step_pass (st : RWState) (d y : Char) (z : Str) (ps : List Nat) (l : Local) (e : Env)
    (hinv : Inv ps l) (hc : st.c = some d) (hpn : st.passNext = true)
    (hd : e.tape.line.drop e.tape.idx = y :: z) (hy : NextOK y z) :
    M.run (readtokenwordStep st) l e =
      (.ok (.inl { handleescapedchar { st with passNext := false } d with c := some y }, l),
        envAt e (e.tape.idx + 1)) := by
  obtain ⟨c0, ad, dp, q, pn, ca, tw⟩ := st
  simp only at hc hpn
  subst hc hpn
  unfold readtokenwordStep
  simp only [if_true, bind_assoc, pure_bind]
  rw [M.run_bind, run_currentDelimiter]
  simp only [hinv.dstack, List.getLast?_nil]
  simp only [handleescapedchar, Bool.not_false, Bool.and_true,
    show ((none : Option Char) != some '\'') = true from rfl]
  rw [M.run_bind, run_getc_true l hinv.tape hinv.eol _ y z hd hy]
  simp only [M.run_pure]

/-- a backslash and the character it protects -/
theorem item_esc (st : RWState) (d y : Char) (z : Str) (ps : List Nat) (l : Local) (e : Env)
    (hinv : Inv ps l) (hc : st.c = some '\\') (hpn : st.passNext = false)
    (hd : e.tape.line.drop e.tape.idx = d :: y :: z) (hdn : d ≠ '\n') (hdd : d ≠ '$')
    (hy : NextOK y z) :
    ∃ st' e', (∀ f, M.run (wloop (f + 2) st) l e = M.run (wloop f st') l e') ∧
      e'.tape = { e.tape with idx := e.tape.idx + 2 } ∧ WStep st st' ['\\', d] true y := by
  obtain ⟨h1, h2, h3⟩ := drop_cons_facts hd
  have r1 := run_step_bs st d (y :: z) ps l e hinv hc hpn hd hdn
  have r2 := run_step_pass
    { handleescapedchar { st with passNext := true, quoted := true } '\\' with c := some d } d y z ps l
    (envAt e (e.tape.idx + 1)) hinv rfl (by simp [handleescapedchar]) (by simpa [envAt] using h3) hy
  refine ⟨{ handleescapedchar { (
      { handleescapedchar { st with passNext := true, quoted := true } '\\' with c := some d } : RWState)
        with passNext := false } d with c := some y },
    envAt (envAt e (e.tape.idx + 1)) ((envAt e (e.tape.idx + 1)).tape.idx + 1), fun f => ?_, ?_, ?_⟩
  · rw [show wloop (f + 2) st = M.loop "_readtokenword" readtokenwordStep (f + 1 + 1) st from rfl,
      run_loop_succ, r1]
    simp only []
    rw [run_loop_succ, r2]
  · simp [envAt]
  · have hd' : (d == '$') = false := by simp [hdd]
    constructor <;> simp [handleescapedchar, hpn, hd']

theorem inv_push_pop {ps : List Nat} {l : Local} (hinv : Inv ps l) (c : Char) :
    ({ l with dstack := ({ l with dstack := l.dstack ++ [c] } : Local).dstack.dropLast } : Local) = l := by
  have := hinv.dstack
  cases l
  simp_all

/-- a quoted string `qc body qc`; the next character is `y` -/
theorem item_quote (qc : Char) (hq : qc = '\'' ∨ qc = '"') (st : RWState) (body : Str) (y : Char)
    (z : Str) (ps : List Nat) (l : Local) (e : Env) (hinv : Inv ps l) (hc : st.c = some qc)
    (hpn : st.passNext = false)
    (hpmp : ∀ (l1 : Local) (e1 : Env), l1.tape = none → l1.eolLookahead = none → e1.tape = e.tape →
      M.run (parseMatchedPair (1048575 + 1) (PQ qc)) l1 e1 =
        (.ok (body ++ [qc], l1), envAt e1 (e1.tape.idx + body.length + 1)))
    (hd : e.tape.line.drop e.tape.idx = body ++ qc :: y :: z) (hy : NextOK y z)
    (hnd : (qc == '"' && (body ++ [qc]).contains '$') = false) :
    ∃ st' e', (∀ f, M.run (wloop (f + 1) st) l e = M.run (wloop f st') l e') ∧
      e'.tape = { e.tape with idx := e.tape.idx + body.length + 2 } ∧
      WStep st st' (qc :: body ++ [qc]) true y := by
  have hsyn : (synClass qc).quote = true ∧ qc ≠ '\\' := by
    rcases hq with rfl | rfl <;> decide
  have hdy : (envAt (touch e qc) ((touch e qc).tape.idx + body.length + 1)).tape.line.drop
      (envAt (touch e qc) ((touch e qc).tape.idx + body.length + 1)).tape.idx = y :: z := by
    show (touch e qc).tape.line.drop ((touch e qc).tape.idx + body.length + 1) = _
    rw [touch_tape]
    have : e.tape.idx + body.length + 1 = e.tape.idx + (body ++ [qc]).length := by simp; omega
    rw [this, ← List.drop_drop, hd]
    have : body ++ qc :: y :: z = (body ++ [qc]) ++ y :: z := by simp
    rw [this, List.drop_left]
  obtain ⟨c0, ad, dp, q, pn, ca, tw⟩ := st
  simp only at hc hpn
  subst hc hpn
  have hrun : M.run (readtokenwordStep
        { c := some qc, allDigit := ad, dollarPresent := dp, quoted := q, passNext := false,
          compoundAssignment := ca, tokenword := tw }) l e =
      (.ok (.inl { c := some y, allDigit := false, dollarPresent := dp, quoted := true,
                   passNext := false, compoundAssignment := ca,
                   tokenword := tw ++ [qc] ++ (body ++ [qc]) }, l),
        envAt (envAt (touch e qc) ((touch e qc).tape.idx + body.length + 1))
          ((envAt (touch e qc) ((touch e qc).tape.idx + body.length + 1)).tape.idx + 1)) := by
    unfold readtokenwordStep
    simp only [Bool.false_eq_true, if_false, bind_assoc, pure_bind]
    rw [M.run_bind, run_currentDelimiter]
    simp only [hinv.dstack, List.getLast?_nil, beq_iff_eq, hsyn.2, if_false]
    rw [M.run_bind, run_shellquote]
    simp only [hsyn.1, if_true]
    unfold handleshellquote pushDelimiter popDelimiter depthFuel
    simp only [bind_assoc, pure_bind]
    rw [M.run_bind, run_modify]
    simp only []
    rw [M.run_bind]
    have := hpmp { l with dstack := l.dstack ++ [qc] } (touch e qc) hinv.tape hinv.eol (touch_tape e qc)
    rw [show (1048576 : Nat) = 1048575 + 1 from rfl]
    rw [show ({ doublequotes := some qc, opn := qc, close := qc, parsingcommand := qc == '`' } : MPParams)
      = PQ qc from rfl, this]
    simp only []
    rw [M.run_bind, run_get]
    simp only [hinv.dstack, List.nil_append, List.isEmpty_cons, Bool.false_eq_true, if_false]
    rw [M.run_bind, run_set]
    have hdl : ([qc] : List Char).dropLast = [] := rfl
    simp only [hdl, pure_bind, Bool.not_true, Bool.false_eq_true, if_false]
    rw [M.run_bind, run_currentDelimiter]
    simp only [List.getLast?_nil, Bool.not_false, Bool.and_true,
      show ((none : Option Char) != some '\'') = true from rfl]
    rw [M.run_bind]
    have hl2 : ({ l with dstack := [] } : Local) = l := by
      have := hinv.dstack; cases l; simp_all
    rw [hl2]
    rw [run_getc_true l hinv.tape hinv.eol _ y z hdy hy]
    simp only [M.run_pure, hnd]
    cases dp <;> rfl
  refine ⟨_, _, fun f => by rw [show wloop (f + 1) _ = _ from rfl, run_loop_succ, hrun], ?_, ?_⟩
  · simp [envAt]
  · constructor <;> simp

/-! ## chunks -/

/-- the text of one word of a `split` input: plain characters, backslash-character pairs,
    '…' strings and "…" strings; the flag says whether any quoting occurs -/
inductive Items : Str → Bool → Prop
  | nil : Items [] false
  | plain (c : Char) (r : Str) (q : Bool) : plainCh c = true → Items r q → Items (c :: r) q
  | esc (d : Char) (r : Str) (q : Bool) : d ≠ '\n' → d ≠ '$' → Items r q →
      Items ('\\' :: d :: r) true
  | sq (body r : Str) (q : Bool) : (∀ x ∈ body, x ≠ '\'') → Items r q →
      Items ('\'' :: (body ++ '\'' :: r)) true
  | dq (body r : Str) (q : Bool) : DBody body → Items r q → Items ('"' :: (body ++ '"' :: r)) true

theorem items_next {t : Str} {q : Bool} (h : Items t q) {b : Char} (hb : endCh b = true)
    {rest : Str} {y : Char} {z : Str} (hyz : y :: z = t ++ b :: rest) : NextOK y z := by
  intro hy
  cases h with
  | nil =>
    simp at hyz
    have := (end_syn hb).2.2.2
    rw [← hyz.1, hy] at this; exact absurd rfl this
  | plain c r q hp hr =>
    simp at hyz
    have := (plainCh_facts hp).2.2.2.2.1
    rw [← hyz.1, hy] at this; exact absurd rfl this
  | esc d r q h1 h2 hr =>
    simp at hyz
    exact ⟨d, r ++ b :: rest, hyz.2, h1⟩
  | sq body r q h1 hr =>
    simp at hyz
    rw [hy] at hyz; exact absurd hyz.1 (by decide)
  | dq body r q h1 hr =>
    simp at hyz
    rw [hy] at hyz; exact absurd hyz.1 (by decide)

theorem dbody_no_dollar {body : Str} (h : DBody body) : body.contains '$' = false := by
  induction h with
  | nil => rfl
  | ch c r c1 c2 c3 c4 _ ih =>
    simp only [List.contains_cons, Bool.or_eq_false_iff]
    exact ⟨by simp [Ne.symm c4], ih⟩
  | esc d r d1 d2 _ ih =>
    simp only [List.contains_cons, Bool.or_eq_false_iff]
    exact ⟨by decide, by simp [Ne.symm d2], ih⟩

theorem WStep.trans {st st1 st2 : RWState} {a1 a2 : Str} {q1 q2 : Bool} {y1 y2 : Char}
    (h1 : WStep st st1 a1 q1 y1) (h2 : WStep st1 st2 a2 q2 y2) :
    WStep st st2 (a1 ++ a2) (q1 || q2) y2 :=
  ⟨h2.c, by rw [h2.tw, h1.tw]; simp, by rw [h2.dp, h1.dp], by rw [h2.qd, h1.qd]; simp [Bool.or_assoc],
   h2.pn, by rw [h2.ca, h1.ca]⟩

theorem cons_of_app (r : Str) (b : Char) (rest : Str) : ∃ y z, r ++ b :: rest = y :: z := by
  cases r with
  | nil => exact ⟨b, rest, rfl⟩
  | cons a r => exact ⟨a, r ++ b :: rest, rfl⟩

theorem drop_idx_le {L : Str} {i : Nat} {z : Str} (h : L.drop i = z) (hz : z ≠ []) :
    i + z.length = L.length := by
  have := congrArg List.length h
  simp at this
  have : z.length ≠ 0 := by intro h0; exact hz (List.eq_nil_of_length_eq_zero h0)
  omega

end Bashlex.C06S
