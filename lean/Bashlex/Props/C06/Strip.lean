/-
  C06, part 1: the quote logic of `_expandwordinternal` as a pure function.

  On a word without expansion characters (`$`, backquote, `<`, `>`, `~`) one iteration of the
  expander's loop is `pure` of a function of the loop state: the nested parser is never called,
  no query is made, the state of the parser object is not touched.  `stripPure string qdq` is
  what the loop computes (`none`: the IndexError the implementation raises when the word ends
  in a backslash that the scan reaches as an escape character).

  The statements are *equations* in the model monad (stronger than `Sat`): they also say that the
  fuel of the model loop suffices and that nothing is raised.
-/
import Bashlex.Model.Subst
import Bashlex.Proofs.Hoare

namespace Bashlex.C06
open Bashlex Bashlex.M
set_option linter.unusedSimpArgs false
set_option linter.unusedVariables false

/-- characters at which `_expandwordinternal` leaves the plain quote logic -/
def isExpChar (c : Char) : Bool := c == '$' || c == '`' || c == '<' || c == '>' || c == '~'

/-- no expansion character occurs -/
def noExp (t : Str) : Bool := t.all fun c => !isExpChar c

/-- `string[0] == "'" and string[-1] == "'"`: the expander returns `string[1:-1]` unscanned -/
def wholeSQ (s : Str) : Bool := s.head? == some '\'' && s.getLast? == some '\''

/-- the scan of `_expandwordinternal` over a suffix without expansion characters:
    every `"` disappears; a `'` disappears unless `qdq`; a backslash disappears and the next
    character is copied (`none`: there is no next character — `sindex` runs past the end and
    `string[sindex]` raises IndexError) -/
def stripGo (qdq : Bool) : Str → Option Str
  | [] => some []
  | c :: rest =>
    if c == '\\' then
      match rest with
      | [] => none
      | d :: rest' => (stripGo qdq rest').map (d :: ·)
    else if c == '"' then stripGo qdq rest
    else if c == '\'' && !qdq then stripGo qdq rest
    else (stripGo qdq rest).map (c :: ·)

/-- the expanded word of `_expandwordinternal(…, qdoublequotes = qdq, …)` for a word without
    expansion characters; `none` = IndexError -/
def stripPure (string : Str) (qdq : Bool) : Option Str :=
  if wholeSQ string then some (string.drop 1).dropLast else stripGo qdq string

theorem stripGo_nil (q : Bool) : stripGo q [] = some [] := by rw [stripGo]
theorem stripGo_bs_nil (q : Bool) : stripGo q ['\\'] = none := by rw [stripGo]; simp
theorem stripGo_bs_cons (q : Bool) (d : Char) (r : Str) :
    stripGo q ('\\' :: d :: r) = (stripGo q r).map (d :: ·) := by
  conv => lhs; rw [stripGo.eq_def]
  simp
theorem stripGo_dq (q : Bool) (r : Str) : stripGo q ('"' :: r) = stripGo q r := by
  conv => lhs; rw [stripGo.eq_def]
  simp
theorem stripGo_sq (q : Bool) (r : Str) :
    stripGo q ('\'' :: r) = if q then (stripGo q r).map ('\'' :: ·) else stripGo q r := by
  conv => lhs; rw [stripGo.eq_def]
  cases q <;> simp
theorem stripGo_plain (q : Bool) (c : Char) (r : Str) (h1 : c ≠ '\\') (h2 : c ≠ '"')
    (h3 : c ≠ '\'') : stripGo q (c :: r) = (stripGo q r).map (c :: ·) := by
  conv => lhs; rw [stripGo.eq_def]
  simp [h1, h2, h3]

/-! ### the loop body is pure on plain characters -/

theorem loop_succ {σ α : Type} (site : String) (body : σ → M (σ ⊕ α)) (fuel : Nat) (s : σ) :
    M.loop site body (fuel + 1) s =
      body s >>= fun r => match r with
        | .inl s' => M.loop site body fuel s'
        | .inr a => pure a := rfl

variable (np : NestedParse) (tok : Token) (string : Str) (q : Bool)

theorem step_end (st : ExpSt) (h : st.sindex = string.length) :
    expandStep np tok string q st = pure (.inr (st.parts, st.istring, false)) := by
  unfold expandStep
  simp [h]

theorem step_oob (st : ExpSt) (h : string.length < st.sindex) :
    expandStep np tok string q st = M.foreign "IndexError" "_expandwordinternal" := by
  unfold expandStep
  have h1 : st.sindex ≠ string.length := by omega
  have h2 : string[st.sindex]? = none := List.getElem?_eq_none (by omega)
  simp [h1, h2]

theorem step_backslash (st : ExpSt) (h : string[st.sindex]? = some '\\') :
    expandStep np tok string q st = pure (.inl { st with
        istring := st.istring ++ Str.slice string (st.sindex + 1) (st.sindex + 2)
        sindex := st.sindex + 2 }) := by
  have hne : st.sindex ≠ string.length := by
    intro h'; rw [h', List.getElem?_eq_none (Nat.le_refl _)] at h; cases h
  unfold expandStep
  simp [h, hne]

theorem step_dquote (st : ExpSt) (h : string[st.sindex]? = some '"') :
    expandStep np tok string q st = pure (.inl { st with sindex := st.sindex + 1 }) := by
  have hne : st.sindex ≠ string.length := by
    intro h'; rw [h', List.getElem?_eq_none (Nat.le_refl _)] at h; cases h
  unfold expandStep
  simp [h, hne]

theorem step_squote_whole (st : ExpSt) (h : string[st.sindex]? = some '\'')
    (h0 : st.sindex = 0) (hl : string.getLast? = some '\'') :
    expandStep np tok string q st = pure (.inr ([], (string.drop 1).dropLast, true)) := by
  have hne : st.sindex ≠ string.length := by
    intro h'; rw [h', List.getElem?_eq_none (Nat.le_refl _)] at h; cases h
  unfold expandStep
  rw [h0] at h hne
  simp [h, hne, h0, hl]

theorem step_squote (st : ExpSt) (h : string[st.sindex]? = some '\'')
    (h0 : ¬ (st.sindex = 0 ∧ string.getLast? = some '\'')) :
    expandStep np tok string q st = pure (.inl
      (if q then { st with istring := st.istring ++ ['\''], sindex := st.sindex + 1 }
       else { st with sindex := st.sindex + 1 })) := by
  have hne : st.sindex ≠ string.length := by
    intro h'; rw [h', List.getElem?_eq_none (Nat.le_refl _)] at h; cases h
  unfold expandStep
  cases q <;> simp [h, hne, h0]

theorem step_plain (st : ExpSt) (c : Char) (h : string[st.sindex]? = some c)
    (he : isExpChar c = false) (h1 : c ≠ '\\') (h2 : c ≠ '"') (h3 : c ≠ '\'') :
    expandStep np tok string q st = pure (.inl { st with
        istring := st.istring ++ [c], sindex := st.sindex + 1 }) := by
  have hne : st.sindex ≠ string.length := by
    intro h'; rw [h', List.getElem?_eq_none (Nat.le_refl _)] at h; cases h
  simp only [isExpChar, Bool.or_eq_false_iff, beq_eq_false_iff_ne, ne_eq] at he
  obtain ⟨⟨⟨⟨e1, e2⟩, e3⟩, e4⟩, e5⟩ := he
  unfold expandStep
  simp [h, hne, e1, e2, e3, e4, e5, h1, h2, h3]

end Bashlex.C06

namespace Bashlex.C06
open Bashlex Bashlex.M
set_option linter.unusedSimpArgs false
set_option linter.unusedVariables false

theorem getElem?_mid (pre : Str) (c : Char) (rest : Str) :
    (pre ++ c :: rest)[pre.length]? = some c := by simp

theorem slice_next (pre : Str) (c d : Char) (rest : Str) :
    Str.slice (pre ++ c :: d :: rest) (pre.length + 1) (pre.length + 2) = [d] := by
  unfold Str.slice
  have : pre ++ c :: d :: rest = (pre ++ [c, d]) ++ rest := by simp
  rw [this, List.take_left' (by simp)]
  have : pre ++ [c, d] = (pre ++ [c]) ++ [d] := by simp
  rw [this, List.drop_left' (by simp)]

theorem slice_next_end (pre : Str) (c : Char) :
    Str.slice (pre ++ [c]) (pre.length + 1) (pre.length + 2) = [] := by
  unfold Str.slice
  rw [List.take_of_length_le (by simp), List.drop_of_length_le (by simp)]

theorem noExp_cons {c : Char} {t : Str} : noExp (c :: t) = true ↔ isExpChar c = false ∧ noExp t = true := by
  simp [noExp]

/-- the model loop from a state standing at the start of the suffix `suf` -/
theorem loop_strip (np : NestedParse) (tok : Token) (string : Str) (q : Bool) :
    ∀ (suf pre : Str) (st : ExpSt) (fuel : Nat), string = pre ++ suf → st.sindex = pre.length →
      noExp suf = true → (pre = [] → wholeSQ string = false) → suf.length < fuel →
      M.loop "_expandwordinternal" (expandStep np tok string q) fuel st =
        match stripGo q suf with
        | some v => pure (st.parts, st.istring ++ v, false)
        | none => M.foreign "IndexError" "_expandwordinternal"
  | [], pre, st, fuel + 1, hs, hi, _, _, _ => by
    rw [loop_succ, step_end np tok string q st (by rw [hi, hs]; simp), pure_bind]
    simp [stripGo_nil]
  | c :: rest, pre, st, fuel + 1, hs, hi, hn, hw, hf => by
    have hc : string[st.sindex]? = some c := by rw [hs, hi]; exact getElem?_mid pre c rest
    obtain ⟨hce, hn'⟩ := noExp_cons.mp hn
    have hs' : string = (pre ++ [c]) ++ rest := by rw [hs]; simp
    have hne : pre ++ [c] = [] → wholeSQ string = false := by intro h; simp at h
    have hf' : rest.length < fuel := by simp at hf; omega
    rw [loop_succ]
    by_cases h1 : c = '\\'
    · subst h1
      rw [step_backslash np tok string q st hc, pure_bind]
      simp only []
      cases rest with
      | nil =>
        cases fuel with
        | zero => simp at hf
        | succ fuel =>
          rw [loop_succ, step_oob np tok string q _ (by simp [hs, hi])]
          rw [stripGo_bs_nil]
          rfl
      | cons d rest' =>
        obtain ⟨hde, hn''⟩ := noExp_cons.mp hn'
        have := loop_strip np tok string q rest' (pre ++ ['\\', d])
          { st with istring := st.istring ++ Str.slice string (st.sindex + 1) (st.sindex + 2)
                    sindex := st.sindex + 2 } fuel (by rw [hs]; simp) (by simp [hi]) hn''
          (by intro h; simp at h) (by simp at hf'; omega)
        rw [this, hs, hi, slice_next]
        rw [stripGo_bs_cons]
        cases stripGo q rest' <;> simp
    · by_cases h2 : c = '"'
      · subst h2
        rw [step_dquote np tok string q st hc, pure_bind]
        simp only []
        rw [loop_strip np tok string q rest (pre ++ ['"']) _ fuel hs' (by simp [hi]) hn' hne hf']
        rw [stripGo_dq]
      · by_cases h3 : c = '\''
        · subst h3
          have h0 : ¬ (st.sindex = 0 ∧ string.getLast? = some '\'') := by
            rintro ⟨a, b⟩
            have hp : pre = [] := List.eq_nil_of_length_eq_zero (by omega)
            have := hw hp
            rw [hp] at hs
            simp [wholeSQ, hs] at this
            rw [hs] at b
            exact this b
          rw [step_squote np tok string q st hc h0, pure_bind]
          simp only []
          rw [loop_strip np tok string q rest (pre ++ ['\'']) _ fuel hs' (by cases q <;> simp [hi]) hn' hne hf']
          rw [stripGo_sq]
          cases q <;> simp
          cases stripGo true rest <;> simp
        · rw [step_plain np tok string q st c hc hce h1 h2 h3, pure_bind]
          simp only []
          rw [loop_strip np tok string q rest (pre ++ [c]) _ fuel hs' (by simp [hi]) hn' hne hf']
          rw [stripGo_plain q c rest h1 h2 h3]
          cases stripGo q rest <;> simp

end Bashlex.C06

namespace Bashlex.C06
open Bashlex Bashlex.M
set_option linter.unusedSimpArgs false
set_option linter.unusedVariables false

theorem raise_bind {α β : Type} (x : Exn) (f : α → M β) : (M.raise x : M α) >>= f = M.raise x := rfl
theorem foreign_bind {α β : Type} (a b : String) (f : α → M β) :
    (M.foreign a b : M α) >>= f = M.foreign a b := rfl

/-- **Part 1**: on a word without expansion characters `_expandwordinternal` is the pure function
    `stripPure` of the word's text, for every nested parser, in every state and environment:
    no parts, no exception other than the IndexError of a final escape character, fuel suffices. -/
theorem expandwordinternal_plain (np : NestedParse) (tok : Token) (q : Bool)
    (h : noExp tok.valueStr = true) :
    expandwordinternal np tok q =
      match stripPure tok.valueStr q with
      | some v => pure ([], v)
      | none => M.foreign "IndexError" "_expandwordinternal" := by
  unfold expandwordinternal stripPure
  simp only []
  by_cases hw : wholeSQ tok.valueStr = true
  · rw [if_pos hw]
    have hw' := hw
    simp only [wholeSQ, Bool.and_eq_true, beq_iff_eq] at hw'
    have hc : tok.valueStr[0]? = some '\'' := by
      rw [← List.head?_eq_getElem?]; exact hw'.1
    have h2 : 2 * tok.valueStr.length + 4 = (2 * tok.valueStr.length + 3) + 1 := rfl
    rw [h2, loop_succ, step_squote_whole np tok _ q _ hc rfl hw'.2, pure_bind]
    simp
  · rw [if_neg hw]
    have hw' : wholeSQ tok.valueStr = false := by simpa using hw
    rw [loop_strip np tok tok.valueStr q tok.valueStr [] { flags := tok.flags } _ rfl rfl h
      (fun _ => hw') (by omega)]
    cases stripGo q tok.valueStr with
    | none => exact foreign_bind _ _ _
    | some v => simp

/-- the `Sat` form of part 1 -/
theorem sat_expandwordinternal_plain (np : NestedParse) (tok : Token) (q : Bool)
    (h : noExp tok.valueStr = true) :
    Sat (expandwordinternal np tok q) (fun r => stripPure tok.valueStr q = some r.2 ∧ r.1 = [])
      (fun x => stripPure tok.valueStr q = none ∧ x = .foreign "IndexError" "_expandwordinternal") := by
  rw [expandwordinternal_plain np tok q h]
  cases stripPure tok.valueStr q with
  | none => exact Sat.foreign ⟨rfl, rfl⟩
  | some v => exact Sat.pure ⟨rfl, rfl⟩

end Bashlex.C06
