/-
  C06 for `split`, part 2: the part of `_readtokenword` after `# got_token`, as a total statement.
-/
import Bashlex.Props.C06.STok

namespace Bashlex.C06S
open Bashlex Bashlex.M Bashlex.C10 Bashlex.C14
set_option linter.unusedSimpArgs false
set_option linter.unusedVariables false

theorem Inv.upd {ps : List Nat} {l l' : Local} (h : Inv ps l) (h1 : l'.tape = l.tape)
    (h2 : l'.eolLookahead = l.eolLookahead) (h3 : l'.dstack = l.dstack)
    (h4 : l'.positions = l.positions) (h5 : l'.redirstack = l.redirstack)
    (h6 : l'.ps.regexp = l.ps.regexp) (h7 : l'.ps.dblparen = l.ps.dblparen)
    (h8 : l'.lastReadToken = l.lastReadToken) : Inv ps l' :=
  ⟨h1 ▸ h.tape, h2 ▸ h.eol, h3 ▸ h.dstack, h4 ▸ h.pos, h5 ▸ h.rs, h6 ▸ h.regexp, h7 ▸ h.dblparen,
   h8 ▸ h.last⟩

theorem Inv.setPos {ps : List Nat} {l : Local} (h : Inv ps l) (ps' : List Nat) :
    Inv ps' { l with positions := ps' } :=
  ⟨h.tape, h.eol, h.dstack, rfl, h.rs, h.regexp, h.dblparen, h.last⟩

/-- the types `_specialcasetokens` may answer -/
def specTy (ty : TokType) : Prop :=
  ty ≠ .LESS_AND ∧ ty ≠ .GREATER_AND ∧ ty ≠ .WORD ∧ ty ≠ .EOF ∧ ty ≠ .ASSIGNMENT_WORD

/-- the spellings `_specialcasetokens` recognises -/
def specWords : List Str :=
  [['i', 'n'], ['d', 'o'], ['e', 's', 'a', 'c'], ['{'], ['}'], ['-', 'p'], ['-', '-'], [']', ']']]

/-- outcome of a state-only program: a normal return, the environment untouched -/
def OkSt {α : Type} (e : Env) (Q : α → Local → Prop) (x : Except Exn (α × Local) × Env) : Prop :=
  ∃ a l', x = (.ok (a, l'), e) ∧ Q a l'

theorem OkSt.mk {α : Type} {e : Env} {Q : α → Local → Prop} {a : α} {l' : Local} (h : Q a l') :
    OkSt e Q (.ok (a, l'), e) := ⟨a, l', rfl, h⟩

theorem OkSt.ite {α : Type} {e : Env} {Q : α → Local → Prop} {c : Prop} [Decidable c] {a b : M α}
    {l : Local} (ha : c → OkSt e Q (M.run a l e)) (hb : ¬ c → OkSt e Q (M.run b l e)) :
    OkSt e Q (M.run (if c then a else b) l e) := by
  split
  · exact ha ‹_›
  · exact hb ‹_›

set_option maxHeartbeats 1000000 in
/-- `_specialcasetokens` raises nothing, asks nothing and keeps the invariant -/
theorem run_specialcasetokens (w : Str) (ps : List Nat) (l : Local) (e : Env) (hinv : Inv ps l) :
    OkSt e (fun r l' => Inv ps l' ∧ (∀ ty, r = some ty → specTy ty ∧ w ∈ specWords))
      (M.run (specialcasetokens w) l e) := by
  unfold specialcasetokens
  repeat' (first
    | simp only [M.run_bind, run_get, run_set, run_modify, M.run_pure, bind_assoc, pure_bind]
    | refine OkSt.ite (fun _ => ?_) (fun _ => ?_))
  all_goals first
    | (refine OkSt.mk ⟨?_, ?_⟩
       · exact hinv.upd rfl rfl rfl rfl rfl rfl rfl rfl
       · intro ty h; cases h <;> refine ⟨⟨by decide, by decide, by decide, by decide, by decide⟩, ?_⟩ <;>
           simp_all [specWords])

theorem OkSt.bind {α β : Type} {e : Env} {P : α → Local → Prop} {Q : β → Local → Prop}
    {m : M α} {f : α → M β} {l : Local} (hm : OkSt e P (M.run m l e))
    (hf : ∀ a l', P a l' → OkSt e Q (M.run (f a) l' e)) : OkSt e Q (M.run (m >>= f) l e) := by
  obtain ⟨a, l', h, hp⟩ := hm
  rw [M.run_bind, h]
  exact hf a l' hp

theorem run_ct (ty : TokType) (v : TVal) (fl : WordFlags) (l : Local) (e : Env) (a b : Nat)
    (hp : l.positions = [a, b]) (hab : a < b) :
    M.run (createtoken ty v fl) l e =
      (.ok ({ ttype := some ty, value := v, pos := some (a, b), flags := fl },
          { l with positions := [] }), e) := by
  rw [C11.run_createtoken ty v fl l e a b hp, if_pos hab]

/-- the answer of `_is_assignment` on a non-empty string -/
def isAsgB : Str → Bool
  | [] => false
  | c :: r => if !isAlpha c && c != '_' then false else isAssignmentLoop (c :: r)

theorem run_isAssignment (w : Str) (h : w ≠ []) (l : Local) (e : Env) :
    M.run (isAssignment w) l e = (.ok (isAsgB w, l), e) := by
  cases w with
  | nil => exact absurd rfl h
  | cons c r =>
    unfold isAssignment isAsgB
    simp only []
    split <;> rfl

theorem lookup_facts {s : Str} {ty : TokType}
    (h : List.lookup s reservedFirstCommandChars = some ty) :
    ty ≠ .LESS_AND ∧ ty ≠ .GREATER_AND ∧ ty ≠ .WORD ∧ ty ≠ .EOF ∧ ty ≠ .ASSIGNMENT_WORD := by
  have hmem := C12.mem_of_lookup h
  have hall : ∀ kv, kv ∈ reservedFirstCommandChars →
      kv.2 ≠ .LESS_AND ∧ kv.2 ≠ .GREATER_AND ∧ kv.2 ≠ .WORD ∧ kv.2 ≠ .EOF ∧
        kv.2 ≠ .ASSIGNMENT_WORD := by decide
  exact hall _ hmem

/-- the tokens `split` hands to the expander -/
def wordLike (tok : Token) : Bool := tok.is .WORD || tok.is .ASSIGNMENT_WORD

/-- what `split` needs to know of a delivered word-like token -/
structure TokOK (a b : Nat) (w : Str) (q : Bool) (tok : Token) : Prop where
  pos : tok.pos = some (a, b)
  la : noLA tok
  neof : tok.is .EOF = false
  nonword : wordLike tok = false → q = false ∨ w ∈ specWords
  word : wordLike tok = true → tok.value = .str w ∧ tok.flags.contains .QUOTED = q

set_option maxHeartbeats 4000000 in
theorem run_finishWord (st : RWState) (a b : Nat) (l : Local) (e : Env) (hinv : Inv [a] l)
    (hidx : e.tape.idx = b) (hab : a < b) (hne : st.tokenword ≠ [])
    (hca : st.compoundAssignment = false) (hdp : st.dollarPresent = false)
    (hc1 : st.c ≠ some '<') (hc2 : st.c ≠ some '>') (q : Bool) (hq : st.quoted = q) :
    OkSt e (fun tok l' => Inv [] l' ∧ TokOK a b st.tokenword q tok)
      (M.run (finishWord st) l e) := by
  have hcr : (st.c == some '<' || st.c == some '>') = false := by simp [hc1, hc2]
  unfold finishWord
  rw [M.run_bind, run_recordpos]
  simp only [tapeOf_none hinv.tape, hidx, Nat.sub_zero, hinv.pos, List.cons_append, List.nil_append]
  rw [M.run_bind, run_get]
  simp only [hcr, hdp, hca, hq, beq_iff_eq, Bool.or_false, Bool.false_or, hinv.last.1, hinv.last.2,
    Bool.and_false, Bool.false_and, Bool.false_eq_true, if_false, Bool.not_false, Bool.true_and]
  refine OkSt.bind (run_specialcasetokens st.tokenword [a, b] _ e
    (hinv.setPos [a, b])) ?_
  intro r l1 ⟨hinv1, hr⟩
  cases r with
  | some ty =>
    simp only []
    rw [run_ct _ _ _ _ e a b hinv1.pos hab]
    obtain ⟨⟨t1, t2, t3, t4, t6⟩, t5⟩ := hr ty rfl
    refine OkSt.mk ⟨⟨hinv1.tape, hinv1.eol, hinv1.dstack, rfl, hinv1.rs, hinv1.regexp,
      hinv1.dblparen, hinv1.last⟩, ⟨rfl, ?_, ?_, ?_, ?_⟩⟩
    · simp [noLA, Token.is, t1, t2]
    · simp [Token.is, t4]
    · exact fun _ => Or.inr t5
    · intro h; simp [wordLike, Token.is, t3, t6] at h
  | none =>
    simp only [pure_bind]
    rw [M.run_bind, run_get]
    simp only []
    have hct := fun ty v fl (l : Local) (hp : l.positions = [a, b]) =>
      run_ct ty v fl l e a b hp hab
    rcases hlk : reservedFirstCommandChars.lookup st.tokenword with _ | ttype
    all_goals cases q
    all_goals
      repeat' (first
        | simp only [M.run_bind, run_get, run_set, run_modify, M.run_pure, bind_assoc, pure_bind,
            run_isAssignment _ hne, hct, hinv1.pos, hcr, Bool.and_false,
            Bool.false_eq_true, if_false, if_true, legalIdentifier, timeCommandAcceptable, Bool.not_false,
            Bool.not_true, Bool.true_and, Bool.false_and]
        | with_reducible refine OkSt.ite (fun _ => ?_) (fun _ => ?_))
    all_goals
      refine OkSt.mk ?_
      refine ⟨⟨hinv1.tape, hinv1.eol, hinv1.dstack, rfl, hinv1.rs, hinv1.regexp,
        hinv1.dblparen, hinv1.last⟩, ⟨rfl, ?_, ?_, ?_, ?_⟩⟩
    all_goals first
      | rfl
      | exact fun _ => Or.inl rfl
      | exact ⟨rfl, rfl⟩
      | (intro _; exact ⟨rfl, rfl⟩)
      | (have := lookup_facts hlk; simp [noLA, Token.is, this]; done)
      | (have := lookup_facts hlk; intro h; simp [wordLike, Token.is, this] at h; done)
      | (intro h; simp [wordLike, Token.is] at h; done)

end Bashlex.C06S
