/-
  C06, "expansions are kept verbatim": whenever an iteration of `_expandwordinternal` records a
  part (command / process substitution, parameter, tilde), the expanded word grows by exactly
  the source text the iteration covered — for every nested parser.
-/
import Bashlex.Props.C07.Word
import Bashlex.Props.C07.Parts
import Bashlex.Props.C03.Expand

namespace Bashlex.C06S
open Bashlex Bashlex.M Bashlex.C07
set_option linter.unusedSimpArgs false
set_option linter.unusedVariables false

/-- what one iteration does to the expanded word -/
def OutSpec (v : Str) (st : ExpSt) : ExpSt ⊕ (List Node × Str × Bool) → Prop
  | .inl st' => ∃ o, st'.istring = st.istring ++ o ∧
      (st'.parts = st.parts ∨ o = Str.slice v st.sindex st'.sindex)
  | .inr r => (r.1 = st.parts ∧ r.2.1 = st.istring ∧ r.2.2 = false) ∨ r.1 = []

theorem sat_expandStep_out (np : NestedParse) (tok : Token) (v : Str) (q : Bool) (st : ExpSt) :
    Sat (expandStep np tok v q st) (OutSpec v st) := by
  unfold expandStep
  simp only []
  refine Sat.ite (fun hend => Sat.pure (Or.inl ⟨rfl, rfl, rfl⟩)) (fun _ => ?_)
  split
  · exact Sat.foreign trivial
  rename_i c hc
  refine Sat.ite (fun hlt => Sat.ite (fun hcond => Sat.pure ?_) (fun hcond => ?_)) (fun hlt => ?_)
  · exact ⟨[c], rfl, Or.inl rfl⟩
  · refine Sat.bind_any (fun r => Sat.pure ?_)
    refine ⟨_, rfl, Or.inr ?_⟩
    show Str.slice v (st.sindex + 2 - 2) (r.2 + 1) = Str.slice v st.sindex (r.2 + 1)
    rw [Nat.add_sub_cancel]
  refine Sat.ite (fun hct => Sat.ite (fun hcond => Sat.pure ?_) (fun hcond => Sat.pure ?_)) (fun hct => ?_)
  · exact ⟨[c], rfl, Or.inl rfl⟩
  · exact ⟨_, rfl, Or.inr rfl⟩
  refine Sat.ite (fun hd => ?_) (fun hd => ?_)
  · exact Sat.bind_any (fun r => Sat.pure ⟨_, rfl, Or.inr rfl⟩)
  refine Sat.ite (fun hbq => Sat.ite (fun hbb => Sat.pure ?_) (fun hbb => ?_)) (fun hbq => ?_)
  · exact ⟨['`', '`'], rfl, Or.inl rfl⟩
  · split
    · exact Sat.bind_any (fun _ => Sat.raise trivial)
    · exact Sat.bind_any (fun r => Sat.bind_any (fun cmd => Sat.pure ⟨_, rfl, Or.inr rfl⟩))
  refine Sat.ite (fun hbs => Sat.pure ?_) (fun hbs => ?_)
  · exact ⟨_, rfl, Or.inl rfl⟩
  refine Sat.ite (fun hdq => Sat.pure ?_) (fun hdq => ?_)
  · exact ⟨[], by simp, Or.inl rfl⟩
  refine Sat.ite (fun hsq => Sat.ite (fun hw => Sat.pure ?_) (fun hw => ?_)) (fun hsq => Sat.pure ?_)
  · exact Or.inr rfl
  · exact Sat.ite (fun _ => Sat.pure ⟨[], by simp, Or.inl rfl⟩) (fun _ => Sat.pure ⟨[c], rfl, Or.inl rfl⟩)
  · exact ⟨[c], rfl, Or.inl rfl⟩

/-- the expanded word is `o₀ ++ text(p₁) ++ o₁ ++ … ++ text(pₙ) ++ oₙ` for the recorded parts
    `p₁ … pₙ` in order, `text(p)` the source text under the span of `p` -/
inductive Verb (v : Str) : List Node → Str → Prop
  | nil (o : Str) : Verb v [] o
  | snoc (parts : List Node) (s : Str) (p : Node) (o : Str) : Verb v parts s →
      Verb v (parts ++ [p]) (s ++ Str.slice v p.pos.1 p.pos.2 ++ o)

theorem Verb.app {v : Str} {parts : List Node} {s : Str} (h : Verb v parts s) (o : Str) :
    Verb v parts (s ++ o) := by
  cases h with
  | nil o' => exact Verb.nil _
  | snoc parts s p o' h =>
    have := Verb.snoc parts s p (o' ++ o) h
    simpa [List.append_assoc] using this

/-- … in particular the text of every part occurs in the word -/
theorem Verb.mem {v : Str} {parts : List Node} {s : Str} (h : Verb v parts s) :
    ∀ p ∈ parts, ∃ pre post, s = pre ++ Str.slice v p.pos.1 p.pos.2 ++ post := by
  induction h with
  | nil o => intro p hp; cases hp
  | snoc parts s p o h ih =>
    intro p' hp'
    rcases List.mem_append.1 hp' with h1 | h1
    · obtain ⟨pre, post, e⟩ := ih p' h1
      exact ⟨pre, post ++ Str.slice v p.pos.1 p.pos.2 ++ o, by rw [e]; simp⟩
    · simp at h1; subst h1
      exact ⟨s, o, rfl⟩

/-- the shifted parts: spans relative to the word start `k` -/
theorem Verb.shift {v : Str} {parts : List Node} {s : Str} (h : Verb v parts s) (k : Nat) :
    ∃ segs : List (Str × Node), segs.map (·.2) = parts.map (·.shift k) ∧
      ∃ o0, s = o0 ++ (segs.map fun sp =>
        Str.slice v (sp.2.pos.1 - k) (sp.2.pos.2 - k) ++ sp.1).flatten := by
  induction h with
  | nil o => exact ⟨[], rfl, o, by simp⟩
  | snoc parts s p o h ih =>
    obtain ⟨segs, e1, o0, e2⟩ := ih
    refine ⟨segs ++ [(o, p.shift k)], by simp [e1], o0, ?_⟩
    rw [e2]
    simp [C03.pos_shift, List.append_assoc]

theorem sat_loop_verb (np : NestedParse) (tok : Token) (v : Str) (q : Bool) (fl0 : WordFlags)
    (fuel : Nat) :
    Sat (M.loop "_expandwordinternal" (expandStep np tok v q) fuel { flags := fl0 })
      (fun r => Verb v r.1 r.2.1 ∧ (r.2.2 = true → r.1 = [])) := by
  refine Sat.loop (I := fun st => Verb v st.parts st.istring) trivial ?_ fuel _ (Verb.nil _)
  intro st hst
  refine (Sat.and (C07.sat_expandStep (C07.npspec_true np) tok v q st)
    (sat_expandStep_out np tok v q st)).weaken ?_ (fun _ h => h)
  intro r hr
  obtain ⟨h1, h2⟩ := hr
  cases r with
  | inl st' =>
    obtain ⟨out, hv, hp⟩ := h1
    obtain ⟨o, ho, hcase⟩ := h2
    show Verb v st'.parts st'.istring
    rw [hp, ho]
    cases out with
    | none => simpa using hst.app o
    | some n =>
      have hpos := (C07.Visit.spec hv).2.2.2 n rfl
      rcases hcase with hsame | hsl
      · rw [hp] at hsame
        have := congrArg List.length hsame
        simp at this
      · have := Verb.snoc st.parts st.istring n [] hst
        rw [hsl]
        simpa [hpos] using this
  | inr res =>
    show Verb v res.1 res.2.1 ∧ (res.2.2 = true → res.1 = [])
    rcases h2 with ⟨e1, e2, e3⟩ | e1
    · refine ⟨?_, fun h => by rw [e3] at h; cases h⟩
      rw [e1, e2]; exact hst
    · refine ⟨?_, fun _ => e1⟩
      rw [e1]; exact Verb.nil _

/-- **C06_verbatim**: for every nested parser, every token and both values of `qdoublequotes`:
    the expanded word `_expandwordinternal` returns is
    `o₀ ++ text(p₁) ++ o₁ ++ … ++ text(pₙ) ++ oₙ`, where `p₁ … pₙ` are the parts it returns, in
    order — command substitutions (`$(…)`, backquotes), process substitutions, parameters,
    tildes — and `text(p)` is the source text of the token under the span of `p`: every
    expansion is copied as it is. -/
theorem C06_verbatim (np : NestedParse) (tok : Token) (q : Bool) :
    Sat (expandwordinternal np tok q) (fun r =>
      ∃ segs : List (Str × Node), segs.map (·.2) = r.1 ∧
        ∃ o0, r.2 = o0 ++ (segs.map fun sp =>
          Str.slice tok.valueStr (sp.2.pos.1 - tok.lexpos) (sp.2.pos.2 - tok.lexpos) ++ sp.1).flatten) := by
  unfold expandwordinternal
  simp only []
  refine Sat.bind (sat_loop_verb np tok _ q tok.flags _) ?_
  rintro ⟨parts, istring, early⟩ ⟨hverb, hearly⟩
  simp only [] at hverb hearly ⊢
  refine Sat.ite (fun hemp => Sat.pure ?_) (fun hne => ?_)
  · have : parts = [] := by
      rcases Bool.or_eq_true_iff.1 hemp with h | h
      · exact hearly h
      · simpa using h
    subst this
    exact ⟨[], rfl, istring, by simp⟩
  · refine Sat.ite (fun _ => Sat.bind (P := fun _ => False) (Sat.foreign trivial) (fun _ h => h.elim))
      (fun _ => Sat.pure ?_)
    exact hverb.shift tok.lexpos

/-- corollary: the text of every part occurs in the expanded word -/
theorem C06_verbatim_mem (np : NestedParse) (tok : Token) (q : Bool) :
    Sat (expandwordinternal np tok q) (fun r => ∀ p ∈ r.1, ∃ pre post,
      r.2 = pre ++ Str.slice tok.valueStr (p.pos.1 - tok.lexpos) (p.pos.2 - tok.lexpos) ++ post) := by
  refine (C06_verbatim np tok q).weaken ?_ (fun _ h => h)
  rintro ⟨parts, val⟩ ⟨segs, e1, o0, e2⟩
  simp only [] at e1 e2 ⊢
  subst e1
  intro p hp
  simp only [List.mem_map] at hp
  obtain ⟨sp, hsp, rfl⟩ := hp
  obtain ⟨a, b, hab⟩ := List.append_of_mem hsp
  refine ⟨o0 ++ (a.map fun sp => Str.slice tok.valueStr (sp.2.pos.1 - tok.lexpos)
      (sp.2.pos.2 - tok.lexpos) ++ sp.1).flatten,
    sp.1 ++ (b.map fun sp => Str.slice tok.valueStr (sp.2.pos.1 - tok.lexpos)
      (sp.2.pos.2 - tok.lexpos) ++ sp.1).flatten, ?_⟩
  rw [e2, hab]
  simp [List.append_assoc]

/-- the same for the word node `_expandword` builds (expansion limit -1: no parts at all) -/
theorem C06_verbatim_word (np : NestedParse) (tok : Token) :
    Sat (expandword np tok) (fun w => ∃ val parts, w = .word (tok.lexpos, tok.endlexpos) val parts ∧
      ∀ p ∈ parts, ∃ pre post,
        val = pre ++ Str.slice tok.valueStr (p.pos.1 - tok.lexpos) (p.pos.2 - tok.lexpos) ++ post) := by
  unfold expandword
  simp only []
  refine Sat.bind_any (fun l => ?_)
  have hfin : ∀ qd, Sat (do
      let x ← expandwordinternal np tok qd
      pure (Node.word (tok.lexpos, tok.endlexpos) x.snd
        (if (l.limit == some 0) = true then List.filter (fun n => !isSubstitution n) x.fst
         else x.fst)) : M Node) (fun w => ∃ val parts, w = .word (tok.lexpos, tok.endlexpos) val parts ∧
      ∀ p ∈ parts, ∃ pre post,
        val = pre ++ Str.slice tok.valueStr (p.pos.1 - tok.lexpos) (p.pos.2 - tok.lexpos) ++ post) := by
    intro qd
    refine Sat.bind (C06_verbatim_mem np tok qd) (fun r hr => Sat.pure ⟨_, _, rfl, ?_⟩)
    intro p hp
    split at hp
    · exact hr p (List.mem_filter.1 hp).1
    · exact hr p hp
  refine Sat.ite (fun _ => Sat.pure ⟨_, _, rfl, fun p hp => by cases hp⟩) (fun _ => ?_)
  refine Sat.ite (fun hq => ?_) (fun hq => ?_)
  · split
    · exact Sat.bind (P := fun _ => False) (Sat.foreign trivial) (fun _ h => h.elim)
    · exact Sat.bind_any (fun b => hfin b)
  · exact Sat.bind_any (fun b => hfin b)

end Bashlex.C06S

#print axioms Bashlex.C06S.C06_verbatim
#print axioms Bashlex.C06S.C06_verbatim_mem
#print axioms Bashlex.C06S.C06_verbatim_word
