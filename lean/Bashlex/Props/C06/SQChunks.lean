/-
  C06 for `split`, quoted inputs, part 7: `Spec.rawChunksGo` on an input made of chunks.
-/
import Bashlex.Props.C06.SQSplit

namespace Bashlex.C06S
open Bashlex Bashlex.Spec
set_option linter.unusedSimpArgs false
set_option linter.unusedVariables false

theorem rc_nil (F : Nat) (st : QState) (cur : Str) (acc : List Str) :
    rawChunksGo (F + 1) st cur [] acc = if cur.isEmpty then acc else acc ++ [cur] := by
  rw [rawChunksGo.eq_def]

theorem rc_sq (rest : Str) (acc : List Str) : ∀ (body : Str) (f : Nat) (cur : Str),
    (∀ x ∈ body, x ≠ '\'') →
    rawChunksGo (f + body.length + 1) 1 cur (body ++ '\'' :: rest) acc =
      rawChunksGo f 0 (cur ++ body ++ ['\'']) rest acc
  | [], f, cur, _ => by
    rw [rawChunksGo.eq_def]; simp
  | c :: body, f, cur, h => by
    have hc : (c == '\'') = false := by simp [h c (by simp)]
    have := rc_sq rest acc body f (cur ++ [c]) (fun x hx => h x (by simp [hx]))
    rw [show f + (c :: body).length + 1 = (f + body.length + 1) + 1 from by simp; omega]
    rw [rawChunksGo.eq_def]
    simp only [List.cons_append, hc, Bool.false_eq_true, if_false]
    rw [this]; simp

theorem rc_dq (rest : Str) (acc : List Str) : ∀ (body : Str), DBody body →
    ∀ (F n : Nat) (cur : Str), body.length + 1 + n ≤ F →
    ∃ F', n ≤ F' ∧ rawChunksGo F 2 cur (body ++ '"' :: rest) acc =
      rawChunksGo F' 0 (cur ++ body ++ ['"']) rest acc := by
  intro body hb
  induction hb with
  | nil =>
    intro F n cur hF
    obtain ⟨f, rfl⟩ : ∃ f, F = f + 1 := ⟨F - 1, by simp at hF; omega⟩
    refine ⟨f, by simp at hF; omega, ?_⟩
    rw [rawChunksGo.eq_def]; simp
  | ch c r c1 c2 c3 c4 _ ih =>
    intro F n cur hF
    obtain ⟨f, rfl⟩ : ∃ f, F = f + 1 := ⟨F - 1, by simp at hF; omega⟩
    obtain ⟨F', h1, h2⟩ := ih f n (cur ++ [c]) (by simp at hF; omega)
    refine ⟨F', h1, ?_⟩
    rw [rawChunksGo.eq_def]
    have e1 : (c == '\\') = false := by simp [c2]
    have e2 : (c == '"') = false := by simp [c1]
    simp only [List.cons_append, e1, e2, Bool.false_eq_true, if_false]
    rw [h2]; simp
  | esc d r d1 d2 _ ih =>
    intro F n cur hF
    obtain ⟨f, rfl⟩ : ∃ f, F = f + 1 := ⟨F - 1, by simp at hF; omega⟩
    obtain ⟨F', h1, h2⟩ := ih f n (cur ++ ['\\', d]) (by simp at hF; omega)
    refine ⟨F', h1, ?_⟩
    rw [rawChunksGo.eq_def]
    simp only [List.cons_append, beq_self_eq_true, if_true, List.take_succ_cons, List.take_zero,
      List.drop_succ_cons, List.drop_zero]
    rw [h2]; simp

theorem rc_items (rest : Str) (acc : List Str) : ∀ (t : Str) (q : Bool), Items t q →
    ∀ (F n : Nat) (cur : Str), t.length + n ≤ F →
    ∃ F', n ≤ F' ∧ rawChunksGo F 0 cur (t ++ rest) acc = rawChunksGo F' 0 (cur ++ t) rest acc := by
  intro t q ht
  induction ht with
  | nil =>
    intro F n cur hF
    exact ⟨F, by simpa using hF, by simp⟩
  | plain c r q hp _ ih =>
    intro F n cur hF
    obtain ⟨f, rfl⟩ : ∃ f, F = f + 1 := ⟨F - 1, by simp at hF; omega⟩
    obtain ⟨F', h1, h2⟩ := ih f n (cur ++ [c]) (by simp at hF; omega)
    refine ⟨F', h1, ?_⟩
    obtain ⟨f1, f2, f3, f4, f5, f6, f7, _⟩ := plainCh_facts hp
    rw [rawChunksGo.eq_def]
    have e1 : (c == ' ' || c == '\t') = false := by simp [f1, f2]
    have e2 : (c == '\\') = false := by simp [f5]
    have e3 : (c == '\'') = false := by simp [f6]
    have e4 : (c == '"') = false := by simp [f7]
    simp only [List.cons_append, e1, e2, e3, e4, Bool.false_eq_true, if_false]
    rw [h2]; simp
  | esc d r q d1 d2 _ ih =>
    intro F n cur hF
    obtain ⟨f, rfl⟩ : ∃ f, F = f + 1 := ⟨F - 1, by simp at hF; omega⟩
    obtain ⟨F', h1, h2⟩ := ih f n (cur ++ ['\\', d]) (by simp at hF; omega)
    refine ⟨F', h1, ?_⟩
    rw [rawChunksGo.eq_def]
    have e1 : ('\\' == ' ' || '\\' == '\t') = false := by decide
    simp only [List.cons_append, e1, beq_self_eq_true, if_true, Bool.false_eq_true, if_false,
      List.take_succ_cons, List.take_zero, List.drop_succ_cons, List.drop_zero]
    rw [h2]; simp
  | sq body r q h1 _ ih =>
    intro F n cur hF
    obtain ⟨f, rfl⟩ : ∃ f, F = (f + body.length + 1) + 1 :=
      ⟨F - (body.length + 2), by simp at hF; omega⟩
    obtain ⟨F', g1, g2⟩ := ih f n (cur ++ ['\''] ++ body ++ ['\'']) (by simp at hF; omega)
    refine ⟨F', g1, ?_⟩
    rw [rawChunksGo.eq_def]
    have e1 : ('\'' == ' ' || '\'' == '\t') = false := by decide
    have e2 : ('\'' == '\\') = false := by decide
    simp only [List.cons_append, e1, e2, beq_self_eq_true, if_true, Bool.false_eq_true, if_false]
    rw [show (body ++ '\'' :: r) ++ rest = body ++ '\'' :: (r ++ rest) from by simp,
      rc_sq (r ++ rest) acc body f (cur ++ ['\'']) h1, g2]
    simp
  | dq body r q h1 _ ih =>
    intro F n cur hF
    obtain ⟨f, rfl⟩ : ∃ f, F = f + 1 := ⟨F - 1, by simp at hF; omega⟩
    obtain ⟨F1, k1, k2⟩ := rc_dq (r ++ rest) acc body h1 f (r.length + n) (cur ++ ['"'])
      (by simp at hF; omega)
    obtain ⟨F', g1, g2⟩ := ih F1 n (cur ++ ['"'] ++ body ++ ['"']) k1
    refine ⟨F', g1, ?_⟩
    rw [rawChunksGo.eq_def]
    have e1 : ('"' == ' ' || '"' == '\t') = false := by decide
    have e2 : ('"' == '\\') = false := by decide
    have e3 : ('"' == '\'') = false := by decide
    simp only [List.cons_append, e1, e2, e3, beq_self_eq_true, if_true, Bool.false_eq_true, if_false]
    rw [show (body ++ '"' :: r) ++ rest = body ++ '"' :: (r ++ rest) from by simp, k2, g2]
    simp

theorem rc_blank (f : Nat) (cur : Str) (b : Char) (r : Str) (acc : List Str)
    (hb : shellblank b = true) :
    rawChunksGo (f + 1) 0 cur (b :: r) acc =
      rawChunksGo f 0 [] r (if cur.isEmpty then acc else acc ++ [cur]) := by
  rw [rawChunksGo.eq_def]
  have : (b == ' ' || b == '\t') = true := hb
  simp only [this, if_true]

theorem rc_input : ∀ (s : Str) (cs : List (Str × Bool)), QInputL s cs →
    ∀ (F : Nat) (acc : List Str), s.length < F →
      rawChunksGo F 0 [] s acc = acc ++ cs.map (·.1) := by
  intro s cs h
  induction h with
  | nil =>
    intro F acc hF
    obtain ⟨f, rfl⟩ : ∃ f, F = f + 1 := ⟨F - 1, by simp at hF; omega⟩
    rw [rc_nil]; simp
  | blank b r cs hb _ ih =>
    intro F acc hF
    obtain ⟨f, rfl⟩ : ∃ f, F = f + 1 := ⟨F - 1, by simp at hF; omega⟩
    rw [rc_blank f [] b r acc hb]
    simp only [List.isEmpty_nil, if_true]
    exact ih f acc (by simp at hF; omega)
  | chunk t q r cs ht hne hr _ ih =>
    intro F acc hF
    obtain ⟨F', g1, g2⟩ := rc_items r acc t q ht F (r.length + 1) [] (by simp at hF; omega)
    rw [g2]
    simp only [List.nil_append]
    obtain ⟨f', rfl⟩ : ∃ f', F' = f' + 1 := ⟨F' - 1, by omega⟩
    have hte : t.isEmpty = false := by cases t with
      | nil => exact absurd rfl hne
      | cons a t => rfl
    rcases hr with rfl | ⟨b, r', rfl, hb⟩
    · have := ih 1 (acc ++ [t]) (by simp)
      rw [rc_nil] at this
      simp only [List.isEmpty_nil, if_true] at this
      rw [rc_nil, hte]
      simp only [Bool.false_eq_true, if_false, List.map_cons]
      rw [show acc ++ t :: List.map (·.1) cs = (acc ++ [t]) ++ List.map (·.1) cs from by simp, ← this]
    · have := ih (f' + 1) (acc ++ [t]) (by simp at g1 ⊢; omega)
      rw [rc_blank f' [] b r' _ hb] at this
      simp only [List.isEmpty_nil, if_true] at this
      rw [rc_blank f' t b r' acc hb, hte]
      simp only [Bool.false_eq_true, if_false, List.map_cons]
      rw [this]; simp

theorem rawChunks_input (s : Str) (cs : List (Str × Bool)) (h : QInputL s cs) :
    rawChunks s = cs.map (·.1) := by
  unfold rawChunks
  rw [rc_input s cs h (s.length + 1) [] (by omega)]
  simp

end Bashlex.C06S
