/-
  C06 for `split`, quoted inputs, part 9: a chunk of the class `Items` has balanced quotes, no
  line continuation (K8) and no final backslash (K9): three hypotheses of `C06_plain` come for
  free from the shape of the input.
-/
import Bashlex.Props.C06.SQParse

namespace Bashlex.C06S
open Bashlex Bashlex.Spec Bashlex.C06
set_option linter.unusedSimpArgs false
set_option linter.unusedVariables false

theorem endState_sq (x : Str) : ∀ (body : Str), (∀ c ∈ body, c ≠ '\'') →
    endState 1 (body ++ '\'' :: x) = endState 0 x
  | [], _ => by rw [List.nil_append, endState.eq_def]; simp
  | c :: body, h => by
    have hc : (c == '\'') = false := by simp [h c (by simp)]
    rw [List.cons_append, endState.eq_def]
    simp only [hc, Bool.false_eq_true, if_false]
    exact endState_sq x body (fun y hy => h y (by simp [hy]))

theorem endState_dq (x : Str) : ∀ (body : Str), DBody body →
    endState 2 (body ++ '"' :: x) = endState 0 x := by
  intro body hb
  induction hb with
  | nil => rw [List.nil_append, endState.eq_def]; simp
  | ch c r c1 c2 c3 c4 _ ih =>
    have e1 : (c == '"') = false := by simp [c1]
    have e2 : (c == '\\') = false := by simp [c2]
    rw [List.cons_append, endState.eq_def]
    simp only [e1, e2, Bool.false_eq_true, if_false]
    exact ih
  | esc d r d1 d2 _ ih =>
    have e3 : (d == '\n') = false := by simp [d1]
    rw [List.cons_append, List.cons_append, endState.eq_def]
    simp only [show ('\\' == '"') = false from by decide, beq_self_eq_true, if_true,
      Bool.false_eq_true, if_false, e3, Bool.false_or]
    exact ih

theorem endState_items (x : Str) : ∀ (t : Str) (q : Bool), Items t q → endState 0 (t ++ x) = endState 0 x := by
  intro t q ht
  induction ht with
  | nil => rfl
  | plain c r q hp _ ih =>
    obtain ⟨f1, f2, f3, f4, f5, f6, f7, _⟩ := plainCh_facts hp
    have e1 : (c == '\\') = false := by simp [f5]
    have e2 : (c == '\'') = false := by simp [f6]
    have e3 : (c == '"') = false := by simp [f7]
    rw [List.cons_append, endState.eq_def]
    simp only [e1, e2, e3, Bool.false_eq_true, if_false]
    exact ih
  | esc d r q d1 d2 _ ih =>
    have e3 : (d == '\n') = false := by simp [d1]
    rw [List.cons_append, List.cons_append, endState.eq_def]
    simp only [beq_self_eq_true, if_true, e3, Bool.false_or]
    exact ih
  | sq body r q h1 _ ih =>
    rw [List.cons_append, endState.eq_def]
    simp only [show ('\'' == '\\') = false from by decide, beq_self_eq_true, if_true,
      Bool.false_eq_true, if_false]
    rw [show (body ++ '\'' :: r) ++ x = body ++ '\'' :: (r ++ x) from by simp, endState_sq _ body h1]
    exact ih
  | dq body r q h1 _ ih =>
    rw [List.cons_append, endState.eq_def]
    simp only [show ('"' == '\\') = false from by decide, show ('"' == '\'') = false from by decide,
      beq_self_eq_true, if_true, Bool.false_eq_true, if_false]
    rw [show (body ++ '"' :: r) ++ x = body ++ '"' :: (r ++ x) from by simp, endState_dq _ body h1]
    exact ih

theorem contGo_sq (x : Str) : ∀ (body : Str), (∀ c ∈ body, c ≠ '\'') →
    contGo 1 (body ++ '\'' :: x) = contGo 0 x
  | [], _ => by rw [List.nil_append, contGo.eq_def]; simp
  | c :: body, h => by
    have hc : (c == '\'') = false := by simp [h c (by simp)]
    rw [List.cons_append, contGo.eq_def]
    simp only [hc, Bool.false_eq_true, if_false]
    exact contGo_sq x body (fun y hy => h y (by simp [hy]))

theorem contGo_dq (x : Str) : ∀ (body : Str), DBody body →
    contGo 2 (body ++ '"' :: x) = contGo 0 x := by
  intro body hb
  induction hb with
  | nil => rw [List.nil_append, contGo.eq_def]; simp
  | ch c r c1 c2 c3 c4 _ ih =>
    have e1 : (c == '"') = false := by simp [c1]
    have e2 : (c == '\\') = false := by simp [c2]
    rw [List.cons_append, contGo.eq_def]
    simp only [e1, e2, Bool.false_eq_true, if_false]
    exact ih
  | esc d r d1 d2 _ ih =>
    have e3 : (d == '\n') = false := by simp [d1]
    rw [List.cons_append, List.cons_append, contGo.eq_def]
    simp only [show ('\\' == '"') = false from by decide, beq_self_eq_true, if_true,
      Bool.false_eq_true, if_false, e3, Bool.false_or]
    exact ih

theorem contGo_items (x : Str) : ∀ (t : Str) (q : Bool), Items t q → contGo 0 (t ++ x) = contGo 0 x := by
  intro t q ht
  induction ht with
  | nil => rfl
  | plain c r q hp _ ih =>
    obtain ⟨f1, f2, f3, f4, f5, f6, f7, _⟩ := plainCh_facts hp
    have e1 : (c == '\\') = false := by simp [f5]
    have e2 : (c == '\'') = false := by simp [f6]
    have e3 : (c == '"') = false := by simp [f7]
    rw [List.cons_append, contGo.eq_def]
    simp only [e1, e2, e3, Bool.false_eq_true, if_false]
    exact ih
  | esc d r q d1 d2 _ ih =>
    have e3 : (d == '\n') = false := by simp [d1]
    rw [List.cons_append, List.cons_append, contGo.eq_def]
    simp only [beq_self_eq_true, if_true, e3, Bool.false_or]
    exact ih
  | sq body r q h1 _ ih =>
    rw [List.cons_append, contGo.eq_def]
    simp only [show ('\'' == '\\') = false from by decide, beq_self_eq_true, if_true,
      Bool.false_eq_true, if_false]
    rw [show (body ++ '\'' :: r) ++ x = body ++ '\'' :: (r ++ x) from by simp, contGo_sq _ body h1]
    exact ih
  | dq body r q h1 _ ih =>
    rw [List.cons_append, contGo.eq_def]
    simp only [show ('"' == '\\') = false from by decide, show ('"' == '\'') = false from by decide,
      beq_self_eq_true, if_true, Bool.false_eq_true, if_false]
    rw [show (body ++ '"' :: r) ++ x = body ++ '"' :: (r ++ x) from by simp, contGo_dq _ body h1]
    exact ih

theorem dangGo_sq (x : Str) : ∀ (body : Str), (∀ c ∈ body, c ≠ '\'') →
    dangGo 1 (body ++ '\'' :: x) = dangGo 0 x
  | [], _ => by rw [List.nil_append, dangGo.eq_def]; simp
  | c :: body, h => by
    have hc : (c == '\'') = false := by simp [h c (by simp)]
    rw [List.cons_append, dangGo.eq_def]
    simp only [hc, Bool.false_eq_true, if_false]
    exact dangGo_sq x body (fun y hy => h y (by simp [hy]))

theorem dangGo_dq (x : Str) : ∀ (body : Str), DBody body →
    dangGo 2 (body ++ '"' :: x) = dangGo 0 x := by
  intro body hb
  induction hb with
  | nil => rw [List.nil_append, dangGo.eq_def]; simp
  | ch c r c1 c2 c3 c4 _ ih =>
    have e1 : (c == '"') = false := by simp [c1]
    have e2 : (c == '\\') = false := by simp [c2]
    rw [List.cons_append, dangGo.eq_def]
    simp only [e1, e2, Bool.false_eq_true, if_false]
    exact ih
  | esc d r d1 d2 _ ih =>
    have e3 : (d == '\n') = false := by simp [d1]
    rw [List.cons_append, List.cons_append, dangGo.eq_def]
    simp only [show ('\\' == '"') = false from by decide, beq_self_eq_true, if_true,
      Bool.false_eq_true, if_false, e3, Bool.false_or]
    exact ih

theorem dangGo_items (x : Str) : ∀ (t : Str) (q : Bool), Items t q → dangGo 0 (t ++ x) = dangGo 0 x := by
  intro t q ht
  induction ht with
  | nil => rfl
  | plain c r q hp _ ih =>
    obtain ⟨f1, f2, f3, f4, f5, f6, f7, _⟩ := plainCh_facts hp
    have e1 : (c == '\\') = false := by simp [f5]
    have e2 : (c == '\'') = false := by simp [f6]
    have e3 : (c == '"') = false := by simp [f7]
    rw [List.cons_append, dangGo.eq_def]
    simp only [e1, e2, e3, Bool.false_eq_true, if_false]
    exact ih
  | esc d r q d1 d2 _ ih =>
    have e3 : (d == '\n') = false := by simp [d1]
    rw [List.cons_append, List.cons_append, dangGo.eq_def]
    simp only [beq_self_eq_true, if_true, e3, Bool.false_or]
    exact ih
  | sq body r q h1 _ ih =>
    rw [List.cons_append, dangGo.eq_def]
    simp only [show ('\'' == '\\') = false from by decide, beq_self_eq_true, if_true,
      Bool.false_eq_true, if_false]
    rw [show (body ++ '\'' :: r) ++ x = body ++ '\'' :: (r ++ x) from by simp, dangGo_sq _ body h1]
    exact ih
  | dq body r q h1 _ ih =>
    rw [List.cons_append, dangGo.eq_def]
    simp only [show ('"' == '\\') = false from by decide, show ('"' == '\'') = false from by decide,
      beq_self_eq_true, if_true, Bool.false_eq_true, if_false]
    rw [show (body ++ '"' :: r) ++ x = body ++ '"' :: (r ++ x) from by simp, dangGo_dq _ body h1]
    exact ih

/-- a chunk of the class has balanced quotes, no line continuation, no final backslash -/
theorem items_shape {t : Str} {q : Bool} (h : Items t q) :
    Balanced t = true ∧ k8 t = false ∧ k9 t = false := by
  have a := endState_items [] t q h
  have b := contGo_items [] t q h
  have c := dangGo_items [] t q h
  rw [List.append_nil] at a b c
  refine ⟨?_, ?_, ?_⟩
  · unfold Balanced; rw [a]; rfl
  · unfold k8; rw [b]; rfl
  · unfold k9; rw [c]; rfl

end Bashlex.C06S
