/-
  C06, part 2: where the quote stripping of `_expandwordinternal` (`stripPure`) coincides with
  shell quote removal (`Spec.quoteRemove`).  `C06_plain` is a statement about two pure functions
  and needs no restriction of the alphabet (`$` and the other expansion characters are ordinary
  characters for both); the alphabet matters only for `stripPure` being what the model computes.
-/
import Bashlex.Props.C06.Strip
import Bashlex.Spec.Quote

namespace Bashlex.C06
open Bashlex Bashlex.Spec
set_option linter.unusedSimpArgs false
set_option linter.unusedVariables false

/-! ### the hypotheses: balanced quotes, and two deviation classes not among K1…K7 -/

/-- the state in which the state machine of `quoteRemove` ends (0 unquoted, 1 in '…', 2 in "…") -/
def endState : QState → Str → QState
  | st, [] => st
  | 1, c :: rest => if c == '\'' then endState 0 rest else endState 1 rest
  | 2, c :: rest =>
    if c == '"' then endState 0 rest
    else if c == '\\' then (match rest with | [] => 2 | _ :: rest' => endState 2 rest')
    else endState 2 rest
  | _, c :: rest =>
    if c == '\\' then (match rest with | [] => 0 | _ :: rest' => endState 0 rest')
    else if c == '\'' then endState 1 rest
    else if c == '"' then endState 2 rest
    else endState 0 rest

/-- every quote is closed -/
def Balanced (t : Str) : Bool := endState 0 t == 0

/-- K8: a backslash-newline pair outside single quotes (where the backslash is not itself
    quoted).  Quote removal deletes the pair, the expander keeps the newline.
    (Such a pair is a line continuation, which the tokenizer deletes before a word value is
    formed; `Spec.hasContinuation` — context `+cont` of the executable spec — covers it.) -/
def contGo : QState → Str → Bool
  | _, [] => false
  | 1, c :: rest => if c == '\'' then contGo 0 rest else contGo 1 rest
  | 2, c :: rest =>
    if c == '"' then contGo 0 rest
    else if c == '\\' then (match rest with | [] => false | d :: rest' => d == '\n' || contGo 2 rest')
    else contGo 2 rest
  | _, c :: rest =>
    if c == '\\' then (match rest with | [] => false | d :: rest' => d == '\n' || contGo 0 rest')
    else if c == '\'' then contGo 1 rest
    else if c == '"' then contGo 2 rest
    else contGo 0 rest

def k8 (t : Str) : Bool := contGo 0 t

/-- K9: the word ends in an unquoted backslash that quotes nothing.  Quote removal drops it,
    the expander raises IndexError (`sindex` runs past the end of the string). -/
def dangGo : QState → Str → Bool
  | _, [] => false
  | 1, c :: rest => if c == '\'' then dangGo 0 rest else dangGo 1 rest
  | 2, c :: rest =>
    if c == '"' then dangGo 0 rest
    else if c == '\\' then (match rest with | [] => false | _ :: rest' => dangGo 2 rest')
    else dangGo 2 rest
  | _, c :: rest =>
    if c == '\\' then (match rest with | [] => true | _ :: rest' => dangGo 0 rest')
    else if c == '\'' then dangGo 1 rest
    else if c == '"' then dangGo 2 rest
    else dangGo 0 rest

def k9 (t : Str) : Bool := dangGo 0 t

/-- none of the deviation features K1…K5 of `Spec.quoteFeatures`.
    (K6, `$'…'`/`$"…"`, is no deviation from `Spec.quoteRemove`, which like the expander reads it
    as `$` followed by a quoted string; K7 is never set by `Spec.featGo`.) -/
def noK (f : QFeat) : Bool := !f.k1 && !f.k2 && !f.k3 && !f.k4 && !f.k5

/-! ### features, once set, stay set -/

def Fle (f g : QFeat) : Prop :=
  (f.k2 = true → g.k2 = true) ∧ (f.k3 = true → g.k3 = true) ∧
  (f.k4 = true → g.k4 = true) ∧ (f.k5 = true → g.k5 = true)

theorem Fle.refl (f : QFeat) : Fle f f := ⟨id, id, id, id⟩
theorem Fle.trans {f g h : QFeat} (a : Fle f g) (b : Fle g h) : Fle f h :=
  ⟨fun x => b.1 (a.1 x), fun x => b.2.1 (a.2.1 x), fun x => b.2.2.1 (a.2.2.1 x),
   fun x => b.2.2.2 (a.2.2.2 x)⟩

theorem featGo_mono (vo : Nat → Bool) (sd : Bool) :
    ∀ (fuel : Nat) (st : QState) (i : Nat) (suf : Str) (f : QFeat),
      Fle f (featGo vo sd fuel st i suf f) := by
  intro fuel
  induction fuel with
  | zero => intro st i suf f; simp only [featGo]; exact Fle.refl f
  | succ fuel ih =>
    intro st i suf f
    cases suf with
    | nil => simp only [featGo]; exact Fle.refl f
    | cons c rest =>
      simp only [featGo]
      have step : ∀ (g : QFeat) st' i' r, Fle f g → Fle f (featGo vo sd fuel st' i' r g) :=
        fun g st' i' r h => Fle.trans h (ih st' i' r g)
      split
      · split
        · exact ih _ _ _ _
        · apply step; split <;> simp [Fle]
      · split
        · exact ih _ _ _ _
        · split
          · split
            · apply step; split <;> simp [Fle]
            · exact Fle.refl f
          · apply step; split
            · split <;> simp [Fle]
            · simp [Fle]
      · split
        · exact ih _ _ _ _
        · split
          · apply step; simp [Fle]
          · split
            · apply step; split <;> simp [Fle]
            · split
              · exact ih _ _ _ _
              · exact ih _ _ _ _

end Bashlex.C06

namespace Bashlex.C06
open Bashlex Bashlex.Spec
set_option linter.unusedSimpArgs false
set_option linter.unusedVariables false

/-- nothing is verbatim: there are no expansions in the words of this file -/
abbrev V0 : Nat → Bool := fun _ => false

theorem isExpChar_false {c : Char} (h : isExpChar c = false) :
    c ≠ '$' ∧ c ≠ '`' ∧ c ≠ '<' ∧ c ≠ '>' ∧ c ≠ '~' := by
  simp only [isExpChar, Bool.or_eq_false_iff, beq_eq_false_iff_ne, ne_eq] at h
  obtain ⟨⟨⟨⟨e1, e2⟩, e3⟩, e4⟩, e5⟩ := h
  exact ⟨e1, e2, e3, e4, e5⟩

/-- the scan of the expander and the state machine of quote removal, in lock step -/
theorem strip_eq_quoteRemoveGo (sd : Bool) :
    ∀ (fuel : Nat) (st : QState) (i : Nat) (suf : Str) (f : QFeat),
      suf.length < fuel → (st = 0 ∨ st = 1 ∨ st = 2) →
      endState st suf = 0 → contGo st suf = false → dangGo st suf = false →
      (featGo V0 sd fuel st i suf f).k2 = false →
      (sd = true → (featGo V0 sd fuel st i suf f).k3 = false) →
      (featGo V0 sd fuel st i suf f).k4 = false →
      (featGo V0 sd fuel st i suf f).k5 = false →
      (st = 1 → sd = false) →
      (sd = true → i = 0 → suf.head? = some '"') →
      stripGo sd suf = some (quoteRemoveGo V0 fuel st i suf) := by
  intro fuel
  induction fuel with
  | zero => intro st i suf f hl; simp at hl
  | succ fuel ih =>
    intro st i suf f hl hst hend hcont hdang hk2 hk3 hk4 hk5 hsd hi
    cases suf with
    | nil => simp [stripGo_nil, quoteRemoveGo]
    | cons c rest =>
      have hl' : rest.length < fuel := by simp at hl; omega
      have hi' : sd = true → i + 1 = 0 → rest.head? = some '"' := fun _ h => by omega
      have hi'' : ∀ r : Str, sd = true → i + 2 = 0 → r.head? = some '"' := fun _ _ h => by omega
      rcases hst with rfl | rfl | rfl
      · -- unquoted
        by_cases h1 : c = '\\'
        · subst h1
          cases rest with
          | nil => rw [dangGo.eq_def] at hdang; simp at hdang
          | cons d rest' =>
            by_cases hd : d = '\n'
            · subst hd; rw [contGo.eq_def] at hcont; simp at hcont
            · simp [featGo] at hk2 hk3 hk4 hk5
              rw [endState.eq_def] at hend; simp at hend
              rw [contGo.eq_def] at hcont; simp [hd] at hcont
              rw [dangGo.eq_def] at hdang; simp at hdang
              have := ih 0 (i + 2) rest' f (by simp at hl'; omega) (Or.inl rfl) hend hcont hdang
                hk2 hk3 hk4 hk5 (by simp) (hi'' rest')
              rw [stripGo_bs_cons, this]
              simp [quoteRemoveGo, hd]
        · by_cases h2 : c = '"'
          · subst h2
            simp [featGo] at hk2 hk3 hk4 hk5
            rw [endState.eq_def] at hend; simp at hend
            rw [contGo.eq_def] at hcont; simp at hcont
            rw [dangGo.eq_def] at hdang; simp at hdang
            have := ih 2 (i + 1) rest f hl' (Or.inr (Or.inr rfl)) hend hcont hdang
              hk2 hk3 hk4 hk5 (by simp) hi'
            rw [stripGo_dq, this]
            simp [quoteRemoveGo]
          · by_cases h3 : c = '\''
            · subst h3
              have hsd0 : sd = false := by
                cases sd with
                | false => rfl
                | true =>
                  exfalso
                  by_cases hi0 : i = 0
                  · have := hi rfl hi0; simp at this
                  · have hk3' := hk3 rfl
                    simp [featGo, hi0] at hk3'
                    have hpos : 0 < i := by omega
                    simp [hpos] at hk3'
                    have := (featGo_mono V0 true fuel 1 (i + 1) rest { f with k3 := true }).2.1 rfl
                    rw [this] at hk3'; cases hk3'
              subst hsd0
              simp [featGo] at hk2 hk4 hk5
              rw [endState.eq_def] at hend; simp at hend
              rw [contGo.eq_def] at hcont; simp at hcont
              rw [dangGo.eq_def] at hdang; simp at hdang
              have := ih 1 (i + 1) rest f hl' (Or.inr (Or.inl rfl)) hend hcont hdang
                hk2 (by simp) hk4 hk5 (by simp) (by simp)
              rw [stripGo_sq]
              simp [quoteRemoveGo]
              exact this
            · have key : ∃ f', featGo V0 sd (fuel + 1) 0 i (c :: rest) f =
                  featGo V0 sd fuel 0 (i + 1) rest f' := by
                by_cases h6 : c = '$' ∧ (rest.head? = some '\'' ∨ rest.head? = some '"')
                · exact ⟨{ f with k6 := true }, by simp [featGo, h1, h6]⟩
                · exact ⟨f, by simp [featGo, h1, h2, h3, h6]⟩
              obtain ⟨f', hf'⟩ := key
              rw [hf'] at hk2 hk3 hk4 hk5
              rw [endState.eq_def] at hend; simp [h1, h2, h3] at hend
              rw [contGo.eq_def] at hcont; simp [h1, h2, h3] at hcont
              rw [dangGo.eq_def] at hdang; simp [h1, h2, h3] at hdang
              have := ih 0 (i + 1) rest f' hl' (Or.inl rfl) hend hcont hdang
                hk2 hk3 hk4 hk5 (by simp) hi'
              rw [stripGo_plain sd c rest h1 h2 h3, this]
              simp [quoteRemoveGo, h1, h2, h3]
      · -- inside '…'
        have hsd' : sd = false := hsd rfl
        subst hsd'
        by_cases h1 : c = '\''
        · subst h1
          simp [featGo] at hk2 hk4 hk5
          rw [endState.eq_def] at hend; simp at hend
          rw [contGo.eq_def] at hcont; simp at hcont
          rw [dangGo.eq_def] at hdang; simp at hdang
          rw [stripGo_sq]
          simp [quoteRemoveGo]
          exact ih 0 (i + 1) rest f hl' (Or.inl rfl) hend hcont hdang hk2 (by simp) hk4 hk5
            (by simp) (by simp)
        · by_cases h2 : c = '\\' ∨ c = '"'
          · exfalso
            simp [featGo, h1, h2] at hk2
            have := (featGo_mono V0 false fuel 1 (i + 1) rest { f with k2 := true }).1 rfl
            rw [this] at hk2; cases hk2
          · have h2a : c ≠ '\\' := fun h => h2 (Or.inl h)
            have h2b : c ≠ '"' := fun h => h2 (Or.inr h)
            simp [featGo, h1, h2a, h2b] at hk2 hk4 hk5
            rw [endState.eq_def] at hend; simp [h1] at hend
            rw [contGo.eq_def] at hcont; simp [h1] at hcont
            rw [dangGo.eq_def] at hdang; simp [h1] at hdang
            have := ih 1 (i + 1) rest f hl' (Or.inr (Or.inl rfl)) hend hcont hdang
              hk2 (by simp) hk4 hk5 (by simp) (by simp)
            rw [stripGo_plain false c rest h2a h2b h1, this]
            simp [quoteRemoveGo, h1]
      · -- inside "…"
        by_cases h2 : c = '"'
        · subst h2
          simp [featGo] at hk2 hk3 hk4 hk5
          rw [endState.eq_def] at hend; simp at hend
          rw [contGo.eq_def] at hcont; simp at hcont
          rw [dangGo.eq_def] at hdang; simp at hdang
          have := ih 0 (i + 1) rest f hl' (Or.inl rfl) hend hcont hdang
            hk2 hk3 hk4 hk5 (by simp) hi'
          rw [stripGo_dq, this]
          simp [quoteRemoveGo]
        · by_cases h1 : c = '\\'
          · subst h1
            cases rest with
            | nil => rw [endState.eq_def] at hend; simp at hend
            | cons d rest' =>
              by_cases hd : d = '\n'
              · subst hd; rw [contGo.eq_def] at hcont; simp at hcont
              · by_cases hq : ((d = '$' ∨ d = '`') ∨ d = '"') ∨ d = '\\'
                · have hq5 : (((d = '$' ∨ d = '`') ∨ d = '"') ∨ d = '\\') ∨ d = '\n' := Or.inl hq
                  simp [featGo, hq5] at hk2 hk3 hk4 hk5
                  rw [endState.eq_def] at hend; simp at hend
                  rw [contGo.eq_def] at hcont; simp [hd] at hcont
                  rw [dangGo.eq_def] at hdang; simp at hdang
                  have := ih 2 (i + 2) rest' f (by simp at hl'; omega) (Or.inr (Or.inr rfl))
                    hend hcont hdang hk2 hk3 hk4 hk5 (by simp) (hi'' rest')
                  rw [stripGo_bs_cons, this]
                  simp [quoteRemoveGo, hd, hq]
                · exfalso
                  have hq' : ¬ ((((d = '$' ∨ d = '`') ∨ d = '"') ∨ d = '\\') ∨ d = '\n') := by
                    intro h
                    rcases h with h | h
                    · exact hq h
                    · exact hd h
                  simp [featGo, hq'] at hk5
                  have := (featGo_mono V0 sd fuel 2 (i + 2) rest' { f with k5 := true }).2.2.2 rfl
                  rw [this] at hk5; cases hk5
          · by_cases h3 : c = '\''
            · subst h3
              cases sd with
              | false =>
                exfalso
                simp [featGo] at hk4
                have := (featGo_mono V0 false fuel 2 (i + 1) rest { f with k4 := true }).2.2.1 rfl
                rw [this] at hk4; cases hk4
              | true =>
                simp [featGo] at hk2 hk3 hk4 hk5
                rw [endState.eq_def] at hend; simp at hend
                rw [contGo.eq_def] at hcont; simp at hcont
                rw [dangGo.eq_def] at hdang; simp at hdang
                have := ih 2 (i + 1) rest f hl' (Or.inr (Or.inr rfl)) hend hcont hdang
                  hk2 (fun _ => hk3) hk4 hk5 (by simp) hi'
                rw [stripGo_sq]
                simp [quoteRemoveGo, this]
            · simp [featGo, h1, h2, h3] at hk2 hk3 hk4 hk5
              rw [endState.eq_def] at hend; simp [h1, h2, h3] at hend
              rw [contGo.eq_def] at hcont; simp [h1, h2, h3] at hcont
              rw [dangGo.eq_def] at hdang; simp [h1, h2, h3] at hdang
              have := ih 2 (i + 1) rest f hl' (Or.inr (Or.inr rfl)) hend hcont hdang
                hk2 hk3 hk4 hk5 (by simp) hi'
              rw [stripGo_plain sd c rest h1 h2 h3, this]
              simp [quoteRemoveGo, h1, h2, h3]

end Bashlex.C06

namespace Bashlex.C06
open Bashlex Bashlex.Spec
set_option linter.unusedSimpArgs false
set_option linter.unusedVariables false

/-! ### the features of `Spec.quoteFeatures` in terms of the scan `featGo` -/

theorem qf_k4 (t : Str) : (quoteFeatures t).k4 =
    (featGo V0 (t.head? == some '"') (t.length + 1) 0 0 t {}).k4 := by
  simp only [quoteFeatures]
  split <;> split <;> split <;> rfl

theorem qf_k5 (t : Str) : (quoteFeatures t).k5 =
    (featGo V0 (t.head? == some '"') (t.length + 1) 0 0 t {}).k5 := by
  simp only [quoteFeatures]
  split <;> split <;> split <;> rfl

theorem qf_k3 (t : Str) (h : (t.head? == some '"') = true) : (quoteFeatures t).k3 =
    (featGo V0 (t.head? == some '"') (t.length + 1) 0 0 t {}).k3 := by
  simp only [quoteFeatures]
  split <;> split <;> split <;> first | rfl | contradiction

theorem qf_k2 (t : Str) (h : wholeSQ t = false) : (quoteFeatures t).k2 =
    (featGo V0 (t.head? == some '"') (t.length + 1) 0 0 t {}).k2 := by
  have hc : ¬ ((t.head? == some '\'' && t.getLast? == some '\'' &&
      !((t.drop 1).dropLast).contains '\'') = true) := by
    intro hc
    rw [Bool.and_eq_true] at hc
    rw [wholeSQ, hc.1] at h
    cases h
  simp only [quoteFeatures]
  rw [if_neg hc]
  split <;> split <;> rfl

theorem qf_k1 (t : Str) (h : (quoteFeatures t).k1 = false) :
    ¬ ((t.head? == some '\'' && t.getLast? == some '\'' && decide (t.length ≥ 2) &&
        ((t.drop 1).dropLast).contains '\'') = true) := by
  intro hc
  simp only [quoteFeatures] at h
  rw [if_pos hc] at h
  revert h
  split <;> split <;> simp

/-! ### wholly single-quoted words -/

theorem quoteRemoveGo_nil (v : Nat → Bool) (fuel : Nat) (st : QState) (i : Nat) :
    quoteRemoveGo v fuel st i [] = [] := by
  cases fuel <;> simp [quoteRemoveGo]

theorem quoteRemoveGo_sq_inner : ∀ (inner : Str) (fuel i : Nat), inner.length < fuel →
    inner.contains '\'' = false →
    quoteRemoveGo V0 fuel 1 i (inner ++ ['\'']) = inner
  | [], fuel + 1, i, _, _ => by simp [quoteRemoveGo, quoteRemoveGo_nil]
  | c :: inner, fuel + 1, i, hl, hc => by
    have hc1 : c ≠ '\'' := by intro h; subst h; simp at hc
    have hc2 : inner.contains '\'' = false := by
      simp at hc ⊢; exact hc.2
    have := quoteRemoveGo_sq_inner inner fuel (i + 1) (by simp at hl; omega) hc2
    simp [quoteRemoveGo, hc1, this]

theorem wholeSQ_shape {t : Str} (hw : wholeSQ t = true) (hb : Balanced t = true) :
    t = '\'' :: ((t.drop 1).dropLast ++ ['\'']) := by
  simp only [wholeSQ, Bool.and_eq_true, beq_iff_eq] at hw
  obtain ⟨h1, h2⟩ := hw
  cases t with
  | nil => simp at h1
  | cons c r =>
    simp at h1; subst h1
    cases r with
    | nil => simp [Balanced, endState] at hb
    | cons d r' =>
      have hne : d :: r' ≠ [] := by simp
      have hl : (d :: r').getLast hne = '\'' := by
        have := List.getLast?_eq_some_getLast hne
        rw [List.getLast?_cons_cons] at h2
        rw [this] at h2
        exact Option.some.inj h2
      simp only [List.drop_one, List.tail_cons]
      conv => lhs; rw [← List.dropLast_concat_getLast hne, hl]


/-- **C06_plain**: on a word with balanced quotes and none of the deviation features K1…K5,
    K8 (backslash-newline outside '…') and K9 (final unquoted backslash), the quote stripping of
    `_expandwordinternal` *is* shell quote removal. -/
theorem C06_plain (t : Str) (hb : Balanced t = true)
    (hk : noK (quoteFeatures t) = true) (h8 : k8 t = false) (h9 : k9 t = false) :
    stripPure t (t.head? == some '"') = some (quoteRemove (fun _ => false) t) := by
  simp only [noK, Bool.and_eq_true, Bool.not_eq_true'] at hk
  obtain ⟨⟨⟨⟨hk1, hk2⟩, hk3⟩, hk4⟩, hk5⟩ := hk
  unfold stripPure
  by_cases hw : wholeSQ t = true
  · rw [if_pos hw]
    have hshape := wholeSQ_shape hw hb
    have h1 := qf_k1 t hk1
    generalize (t.drop 1).dropLast = inner at hshape h1
    subst hshape
    have hin : inner.contains '\'' = false := by
      cases hc : inner.contains '\'' with
      | false => rfl
      | true =>
        exfalso; apply h1
        have hl : ('\'' :: (inner ++ ['\''])).getLast? = some '\'' := by
          rw [← List.cons_append, List.getLast?_concat]
        rw [hl, hc]; simp
    congr 1
    unfold quoteRemove
    simp [quoteRemoveGo]
    exact (quoteRemoveGo_sq_inner inner (inner.length + 1 + 1) 1 (by omega) hin).symm
  · have hw' : wholeSQ t = false := by simpa using hw
    rw [if_neg hw]
    unfold quoteRemove
    rw [qf_k2 t hw'] at hk2
    rw [qf_k4] at hk4
    rw [qf_k5] at hk5
    exact strip_eq_quoteRemoveGo (t.head? == some '"') (t.length + 1) 0 0 t {} (by omega)
      (Or.inl rfl) (by simpa [Balanced] using hb) h8 h9 hk2
      (fun h => by rw [← qf_k3 t h]; exact hk3) hk4 hk5 (by simp)
      (fun h _ => by simpa using h)

/-! ### K8 and the specification's `+cont` context -/

theorem hasCont_cons (c : Char) (r : Str) (h : hasContinuation r = true) :
    hasContinuation (c :: r) = true := by
  rw [hasContinuation.eq_def]
  split
  · rfl
  · rename_i heq; cases heq; exact h
  · rename_i heq; cases heq

/-- K8 lies inside the context `+cont` (`Spec.hasContinuation`) of the executable specification -/
theorem contGo_hasContinuation : ∀ (t : Str) (st : QState), contGo st t = true →
    hasContinuation t = true
  | [], st, h => by rw [contGo.eq_def] at h; simp at h
  | [c], st, h => by
    exfalso
    have hnil : ∀ st, contGo st [] = false := fun st => by rw [contGo.eq_def]
    rw [contGo.eq_def] at h
    split at h
    · cases h
    · rename_i heq; cases heq
      split at h <;> simp [hnil] at h
    · rename_i heq; cases heq
      split at h
      · simp [hnil] at h
      · split at h <;> simp [hnil] at h
    · rename_i heq; cases heq
      split at h
      · simp [hnil] at h
      · split at h
        · simp [hnil] at h
        · split at h <;> simp [hnil] at h
  | c :: d :: rest, st, h => by
    have ih1 := contGo_hasContinuation (d :: rest)
    have ih2 := contGo_hasContinuation rest
    rw [contGo.eq_def] at h
    split at h
    · cases h
    · rename_i heq; cases heq
      split at h
      · exact hasCont_cons _ _ (ih1 _ h)
      · exact hasCont_cons _ _ (ih1 _ h)
    · rename_i heq; cases heq
      split at h
      · exact hasCont_cons _ _ (ih1 _ h)
      · split at h
        · rename_i hc
          simp at hc; subst hc
          simp at h
          rcases h with h | h
          · subst h; rfl
          · exact hasCont_cons _ _ (hasCont_cons _ _ (ih2 _ h))
        · exact hasCont_cons _ _ (ih1 _ h)
    · rename_i heq; cases heq
      split at h
      · rename_i hc
        simp at hc; subst hc
        simp at h
        rcases h with h | h
        · subst h; rfl
        · exact hasCont_cons _ _ (hasCont_cons _ _ (ih2 _ h))
      · split at h
        · exact hasCont_cons _ _ (ih1 _ h)
        · split at h
          · exact hasCont_cons _ _ (ih1 _ h)
          · exact hasCont_cons _ _ (ih1 _ h)
end Bashlex.C06
