/-
  C14More — layout invariance beyond a blank prefix: comment lines and continuations in the prefix,
  the `parse`-level theorem, trailing layout, layout between two top-level commands.

  ## Results (all at model level, for the real tokenizer, all options except `proceedonerror`)

  `Layout` (`Props/C14/MComment.lean`) is the language `([ \t\n] | #[^\n]*\n | \\\n)*`: lines of
  blanks and tabs, each optionally ending in a comment, each ended by a newline, followed by blanks
  and tabs; a backslash-newline pair may stand wherever a blank may (inside a comment a
  backslash-newline is NOT a continuation: `_discard_until` reads with `_getc(False)`, and the
  definition follows the tokenizer).  `BlankNL pre → Layout pre`; `Layout` is decidable
  (`layout_iff_layoutB`).

  1. **`runParser_layout`**, **`runParser_layout_all`** — `runParser_shift` with `Layout pre` in
     place of `BlankNL pre` (`_all`: and without the artefact `B ∉ {"", "⏎"}`): one parser run on
     `pre ++ B` ends like the run on `B` moved by `|pre|` (`RunRel pre`);
     `parsesingle_layout_prefix`: the same for `parsesingle`.
     `consumeX`: a comment costs fuel only (one iteration of the `_discard_until` loop per
     character) and delivers the NEWLINE token of its newline, which the engine drops in state 0;
     a continuation is skipped inside `_getc(True)` itself (`run_getc_cont`).
  2. **`runParser_layout_only`**, **`parse_layout_only`** — a run on layout only returns no node.
  3. **`parse_layout_prefix`** (+ `_parts`, `_exn`) — `ParseRel pre (parse B o).1 (parse (pre ++ B) o).1`:
     ALL parts moved by `|pre|`; an exception is the same, except that a `ParsingError` of the first
     top-level run carries `pre ++ src`, `p + |pre|` (later parts: unchanged, D15).  No restriction
     on `B` (the artefact `B ∉ {"", "⏎"}` of `runParser_shift` is gone at this level).
  4. **`parse_layout_suffix`** — `parse (B ++ post) = parse B` (same parts, same spans) for layout
     `post`, when `B` ends in a newline or `post` starts with one, the runs of `parse B` are local
     and what `parse B` left unparsed is layout.
  5. **`C13_partial_layout`** — `parse (A ++ sep ++ B) = parse A ++ shift (parse B)` for a layout
     separator (comment lines between two top-level commands): interior layout AT a top-level
     command boundary; `C14_insert_between`: inserting layout `ins` there leaves the parts of `A`
     unchanged and moves every later part by `|ins|`.

  ## Hypotheses, and which of them are exclusions
  * `o.proceed = false` — exclusion, defect D19 (`C14.D19_witness`; with a comment line as prefix:
    `D19_comment_witness` below; `D19_comment_parsed`: `parse "#c⏎time⏎⏎"` with `proceedonerror`
    returns the text of the comment as a command).
  * `Joinable B post` (suffix theorem) — exclusion: `"a"` followed by `"#x⏎"` is the word `a#x`
    (`joinable_witness`).  A blank in front of the comment (`"a"` then `" #x⏎"`) is not covered
    (interior layout: the cell after `a` changes from `⏎` to a blank); not a defect, a gap.
  * `parseLocal B o` (suffix theorem, `C13_partial_layout`) — exclusion: in non-strict mode
    `"cat <<E⏎"` parses (missing here-document tolerated), `"cat <<E⏎" ++ "⏎"` raises
    `ParsingError` (`local_witness`).
  * no run out of (model) fuel on the longer input — model artefact, as in `C14.lean`; a comment of
    2^30 characters exhausts the loop of `_discard_until`.
  * `hpos` (prefix theorem: the first part of `B` does not end at index 0, or `pre = ""`) — decidable
    per input; NO witness with `proceedonerror` off is known (the only parts with `nextIndex = 0`
    are D19's `time` nodes): a proof gap (it needs `0 < pos.2` for the root of a run, a C03 fact).
    It is needed as a hypothesis because `parse` resumes at `max(end, 1)` after the first part.
  * `parseStop B o ≤ |B|`, `Layout (B.drop (parseStop B o))` (suffix theorem) — decidable per
    input; proof gaps: the first needs "spans end inside the input" (C03), the second "a run that
    returns no node was a run on layout" (a completeness statement about the engine).  For `B`
    ending in its last command (`parseStop B o = |B|`) both are trivial.

  ## Not done (goal 3, interior layout inside a command)
  `Sim pre …` relates spans by the constant shift `|pre|` (≈ 370 uses in `Props/C14/*`); widening
  a gap INSIDE a command needs the piecewise map `i ↦ if |X| ≤ i then i + k else i` on a state
  that holds old (unmoved) tokens on the engine stack and new (moved) ones: every lemma of
  `Access`/`Act*`/`Expand`/`Engine` has to be restated for a monotone map.  The tape surgery
  "`X ++ blanks ++ Y` from the boundary on is `blanks ++ X ++ Y` from `|X| + k` on" (cells below
  the cursor are dead) reduces the tape side to `TapeRel blanks`, but `LocRel` still demands that
  the old spans in the state are moved too.  No theorem claimed.
-/
import Bashlex.Props.C14.MParse

namespace Bashlex.C14
open Bashlex Bashlex.C13
set_option linter.unusedSimpArgs false
set_option linter.unusedVariables false

/-! ## helpers for kernel-decided hypotheses -/

def notOOFB {α : Type} : Except Exn α → Bool
  | .error (.outOfFuel _) => false
  | _ => true

theorem notOOF_of_isOk {α : Type} {r : Except Exn α} (h : notOOFB r = true) (site : String) :
    r ≠ .error (.outOfFuel site) := by
  intro e; rw [e] at h; cases h

def exnB : Outcome → Exn → Bool
  | .exn x, y => decide (x = y)
  | _, _ => false

theorem exn_of_check {x : Outcome} {y : Exn} (h : exnB x y = true) : x = .exn y := by
  cases x <;> simp [exnB] at h
  rw [h]

def posB (r : Except Exn (Option Node)) : Bool :=
  match r with
  | .ok (some part) => decide (0 < nextIndex part)
  | _ => true

theorem pos_of_posB {r : Except Exn (Option Node)} (h : posB r = true) (part : Node)
    (hp : r = .ok (some part)) : 0 < nextIndex part := by
  rw [hp] at h
  simpa [posB] using h

/-! ## non-vacuity: the hypotheses hold on concrete inputs (kernel evaluation) -/

namespace Examples
open C13.Examples

/-- `# c⏎ ⏎⇥#d\⏎  ` (the second comment ends in a backslash: no continuation there) -/
def pre1 : Str := "# c\n \n\t#d\\\n  ".toList

theorem layout_pre1 : Layout pre1 := by decide +kernel

/-- `parse "# c⏎ ⏎⇥#d\⏎  c | d"` from `parse "c | d"`, by the theorem -/
theorem ex_prefix : (parse (pre1 ++ B1) {}).1 = .parts (psB1.map (Node.shift 13)) :=
  parse_layout_prefix_parts pre1 B1 {} psB1 layout_pre1 rfl
    (notOOF_of_isOk (by decide +kernel))
    (.inr (pos_of_posB (by decide +kernel))) hB1

/-- a prefix with continuations: `\⏎ \⏎# x\⏎\⏎` (`# x\` is a comment; the pair after it is a
    continuation) -/
def pre2 : Str := "\\\n \\\n# x\\\n\\\n".toList

theorem layout_pre2 : Layout pre2 := by decide +kernel

theorem ex_prefix_cont : (parse (pre2 ++ B1) {}).1 = .parts (psB1.map (Node.shift 12)) :=
  parse_layout_prefix_parts pre2 B1 {} psB1 layout_pre2 rfl
    (notOOF_of_isOk (by decide +kernel))
    (.inr (pos_of_posB (by decide +kernel))) hB1

/-- an error of the first run moves: `parse ")"` raises at 0, `parse "#⏎\⏎)"` at 4 with the longer
    source -/
theorem ex_prefix_exn :
    ∃ y, (parse ("#\n\\\n".toList ++ [')']) {}).1 = .exn y ∧
      ExnRel "#\n\\\n".toList (.parsing "unexpected token ')'" [')'] 0) y :=
  parse_layout_prefix_exn "#\n\\\n".toList [')'] {} _
    (.comment [] (by decide) (.cont .nil)) rfl
    (notOOF_of_isOk (by decide +kernel))
    (.inr (pos_of_posB (by decide +kernel)))
    (exn_of_check (by decide +kernel))

/-- trailing layout: `parse "a b" = parse "a b⏎# c⏎⏎  "` -/
def post1 : Str := "\n# c\n\n  ".toList

theorem ex_suffix : (parse (A1 ++ post1) {}).1 = .parts psA1 :=
  parse_layout_suffix A1 post1 {} psA1 (by decide) hA1 hloc1 (by decide +kernel)
    (layout_of_layoutB (by decide +kernel)) (layout_of_layoutB (by decide +kernel))
    (notOOF_of_isOk (by decide +kernel))

/-- a comment line between two commands: `a b⏎# c⏎c | d` -/
def sep1 : Str := "\n# c\n".toList

theorem ex_between :
    (parse (A1 ++ sep1 ++ B1) {}).1 = .parts (psA1 ++ psB1.map (Node.shift 8)) :=
  C13_partial_layout A1 sep1 B1 {} psA1 psB1 (by decide) hA1 hB1 hloc1 (by decide +kernel)
    (layout_of_layoutB (by decide +kernel)) rfl
    (notOOF_of_isOk (by decide +kernel)) (pos_of_posB (by decide +kernel))

end Examples

/-! ## witnesses of the exclusions (kernel evaluation) -/

/-- D19 with a comment line as prefix: with `proceedonerror` the run on `"#c⏎time a"` is not the
    run on `"time a"` moved by 3 -/
theorem D19_comment_witness :
    C13.blankSkipB "#c\n".toList Btime { proceed := true } = false := by
  decide +kernel

/-- … and at `parse` level the damage is worse than a wrong span: with `proceedonerror`,
    `parse "#c⏎time⏎⏎"` returns the TEXT OF THE COMMENT as a command — the `time` node of D19 ends
    at 0, so the loop of `parse` resumes at index `max(0, 1) = 1`, inside the comment (this is why
    `parse_layout_prefix` needs `hpos`; no such input is known with `proceedonerror` off) -/
theorem D19_comment_parsed :
    C13.partsB (parse "#c\ntime\n\n".toList { proceed := true }).1
      [.pipeline (0, 0) [.reservedword (0, 0) ['!']],
       .command (1, 2) [.word (1, 2) ['c'] []],
       .pipeline (2, 2) [.reservedword (2, 2) ['!']],
       .pipeline (3, 3) [.reservedword (3, 3) ['!']],
       .command (4, 7) [.word (4, 7) ['i', 'm', 'e'] []]] = true := by
  decide +kernel

/-- `Joinable` is needed: `B = "a"`, `post = "#x⏎"` (layout; all other hypotheses of
    `parse_layout_suffix` hold) — `parse "a#x⏎"` is the word `a#x` -/
theorem joinable_witness :
    C13.partsB (parse (['a'] ++ "#x\n".toList) {}).1 (C13.partsOf (parse ['a'] {}).1) = false ∧
    parseLocal ['a'] {} = true ∧ parseStop ['a'] {} = 1 ∧ layoutB false "#x\n".toList = true := by
  decide +kernel

/-- locality is needed: in non-strict mode `"cat <<E⏎"` parses, `"cat <<E⏎⏎"` raises -/
theorem local_witness :
    C13.isParts (parse "cat <<E\n".toList { strict := false }).1 = true ∧
    C13.isParts (parse ("cat <<E\n".toList ++ ['\n']) { strict := false }).1 = false ∧
    parseLocal "cat <<E\n".toList { strict := false } = false := by
  decide +kernel

end Bashlex.C14

/-! ## Axioms -/
#print axioms Bashlex.C14.consumeX
#print axioms Bashlex.C14.runParser_layout
#print axioms Bashlex.C14.runParser_layout_all
#print axioms Bashlex.C14.parsesingle_layout_prefix
#print axioms Bashlex.C14.runParser_layout_only
#print axioms Bashlex.C14.parse_layout_only
#print axioms Bashlex.C14.parse_layout_prefix
#print axioms Bashlex.C14.parse_layout_prefix_parts
#print axioms Bashlex.C14.parse_layout_prefix_exn
#print axioms Bashlex.C14.parse_layout_suffix
#print axioms Bashlex.C14.C13_partial_layout
#print axioms Bashlex.C14.C14_insert_between
#print axioms Bashlex.C14.Examples.ex_prefix
#print axioms Bashlex.C14.Examples.ex_prefix_cont
#print axioms Bashlex.C14.Examples.ex_prefix_exn
#print axioms Bashlex.C14.Examples.ex_suffix
#print axioms Bashlex.C14.Examples.ex_between
#print axioms Bashlex.C14.D19_comment_witness
#print axioms Bashlex.C14.D19_comment_parsed
#print axioms Bashlex.C14.joinable_witness
#print axioms Bashlex.C14.local_witness
