/-
  C04, token text, part 7: the position stack, `_createtoken`, the part of `_readtokenword` after
  `# got_token`, `_readtokenword`: the token delivered spans from the recorded start to the cursor
  and its value is `tokenword` (or the number it denotes).
-/
import Bashlex.Props.C04.TTWord3

namespace Bashlex.C04.TTP
open Bashlex Bashlex.M Bashlex.C10 Bashlex.C11 Bashlex.C03.Tok Bashlex.C04
set_option linter.unusedSimpArgs false
set_option linter.unusedVariables false

section
variable {L : Str} {ps : List Nat} {k : Nat}

theorem recordpos_tp (rel : Nat) :
    HT (Tp L ps k) (recordpos rel) (fun _ l e => Tp L (ps ++ [k - rel]) k l e) ET := by
  intro l e h
  rw [C11.run_recordpos]
  obtain ⟨a1, a2, a3, a4, a5⟩ := h
  refine ⟨a1, a2, a3, a4, ?_⟩
  show l.positions ++ _ = _
  rw [a5, a2]

/-- position and value of a token made by `_createtoken` -/
def CT (a b : Nat) (v : TVal) (t : Token) : Prop := t.pos = some (a, b) ∧ a < b ∧ t.value = v

theorem createtoken_tp (ty : TokType) (v : TVal) (fl : WordFlags) (a b : Nat) :
    HT (Tp L [a, b] k) (createtoken ty v fl)
      (fun t l e => (CT a b v t ∧ t.ttype = some ty) ∧ Tp L [] k l e) ET := by
  intro l e h
  obtain ⟨a1, a2, a3, a4, a5⟩ := h
  rw [run_createtoken ty v fl l e a b a5]
  by_cases hab : a < b
  · rw [if_pos hab]; exact ⟨⟨⟨rfl, hab, rfl⟩, rfl⟩, a1, a2, a3, a4, rfl⟩
  · rw [if_neg hab]; exact True.intro

theorem CT.of_eq {a b : Nat} {v : TVal} {t t' : Token} (h : CT a b v t) (hp : t'.pos = t.pos)
    (hv : t'.value = t.value) : CT a b v t' := by
  unfold CT at h ⊢
  rw [hp, hv]; exact h

end

macro_rules | `(tactic| jp_side) => `(tactic| exact CT.of_eq ‹CT _ _ _ _› rfl rfl)
macro_rules | `(tactic| jp_side) => `(tactic|
  exact absurd ‹legalIdentifier _ = true› Bool.false_ne_true)

/-- as `w_walk`, keeping position and value of the token: `pure` leaves decorate the token -/
macro "k_walk_v" : tactic => `(tactic| repeat' (first
  | ((with_reducible refine SatW.pure (fun _ _ h => h) ?_); jp_side)
  | ((with_reducible refine AtW.pure (fun _ _ h => h) ?_); jp_side)
  | w_step))

section
variable {L : Str} {k : Nat}

/-- the value of a token read by `_readtokenword` -/
def WordVal (tw : Str) (t : Token) : Prop :=
  t.value = .str tw ∨
    (t.value = .int (digitsToNat tw) ∧ legalNumber tw = true ∧ t.ttype = some .NUMBER)

/-- a token read by `_readtokenword` -/
def WordTok (a k : Nat) (tw : Str) (t : Token) : Prop :=
  t.pos = some (a, k) ∧ a < k ∧ WordVal tw t

theorem wordTok_of_ct {a b : Nat} {tw : Str} {t : Token} (h : CT a b (.str tw) t) :
    WordTok a b tw t := ⟨h.1, h.2.1, Or.inl h.2.2⟩

theorem ct_str {ty : TokType} {tw : Str} {fl : WordFlags} {a b : Nat} :
    HT (Tp L [a, b] k) (createtoken ty (.str tw) fl)
      (fun t l e => WordTok a b tw t ∧ Tp L [] k l e) ET :=
  HT.post (createtoken_tp ty (.str tw) fl a b) (fun t l e h => ⟨wordTok_of_ct h.1.1, h.2⟩)

/-- `_createtoken`, then code that only decorates the token -/
theorem ct_switch_tp {ty : TokType} {tw : Str} {fl : WordFlags} {a b : Nat}
    {f : Token → M Token}
    (h : ∀ tok, CT a b (.str tw) tok →
      SatW (Tp L [] k) (Tp L [] k) (f tok) (CT a b (.str tw))) :
    HT (Tp L [a, b] k) (createtoken ty (.str tw) fl >>= f)
      (fun t l e => WordTok a b tw t ∧ Tp L [] k l e) ET :=
  HT.bind (createtoken_tp ty (.str tw) fl a b) (fun tok => HT.pre_pure (fun ht =>
    HT.post (h tok ht.1) (fun t l e h => ⟨wordTok_of_ct h.1, h.2⟩)))

end

macro_rules | `(tactic| q_leaf) => `(tactic| with_reducible exact ct_str)
macro_rules | `(tactic| q_leaf) => `(tactic|
  ((with_reducible refine ct_switch_tp (fun _ _ => ?_)); focus (k_walk_v; done)))

section
variable {L : Str} {k : Nat}

set_option maxHeartbeats 2000000 in
/-- the part of `_readtokenword` after `# got_token` -/
theorem finishWord_tt (st : RWState) (a : Nat) :
    HT (Tp L [a] k) (finishWord st)
      (fun t l e => WordTok a k st.tokenword t ∧ Tp L [] k l e) ET := by
  unfold finishWord
  refine HT.bind (recordpos_tp 0) (fun _ => ?_)
  show HT (Tp L [a, k] k) _ _ _
  jp_step
  jp_step
  refine HT.get_bind (fun l0 => ?_)
  refine HTQAt.ite (fun hnum => ?_) (fun hnum => ?_)
  · -- NUMBER
    have hleg : legalNumber st.tokenword = true := by
      simp only [Bool.and_eq_true] at hnum
      exact hnum.2
    refine HTQAt.ofHT ?_
    refine HT.post (createtoken_tp .NUMBER _ [] a k) (fun t l e h => ?_)
    exact ⟨⟨h.1.1.1, h.1.1.2.1, Or.inr ⟨h.1.1.2.2, hleg, h.1.2⟩⟩, h.2⟩
  · let jpInv : Token → Prop := CT a k (.str st.tokenword)
    q_walk

/-- **`_readtokenword(c)`**, entered with the invariant of its loop -/
theorem readtokenword_tt (hS : ScanHyp) (hnl : NL L) (c : Char) (a : Nat) :
    HT (RWI L a { c := some c, allDigit := isDigit c }) (readtokenword c)
      (fun t l e => ∃ k, (∃ tw, SpanW L a k tw ∧ WordTok a k tw t) ∧ Tp L [] k l e) ET := by
  unfold readtokenword
  refine HT.bind (Q := fun _ l e => RWI L a { c := some c, allDigit := isDigit c } l e)
    (HT.pure (fun _ _ h => h)) (fun fuel => ?_)
  refine HT.bind (rtwLoop_tt hS hnl fuel _) (fun st => ?_)
  refine HT.pre_exists (fun k => HT.pre_pure (fun hk => ?_))
  refine HT.post (finishWord_tt st a) ?_
  intro t l e h
  exact ⟨k, ⟨st.tokenword, hk, h.1⟩, h.2⟩

end

end Bashlex.C04.TTP
