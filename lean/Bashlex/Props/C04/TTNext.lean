/-
  C04, token text, part 9 (layer A, end): `gatherheredocuments` keeps line, empty slot and
  position stack (`G2`: no constraint on the cursor — this is also `TokText.gather`);
  `_discard_until`; `_readtoken`; `token()`; the relation `TT` from the facts collected.
-/
import Bashlex.Props.C04.TTFinish
import Bashlex.Props.C04.TTTypes

namespace Bashlex.C04.TTP
open Bashlex Bashlex.M Bashlex.C10 Bashlex.C11 Bashlex.C03.Tok Bashlex.C04
set_option linter.unusedSimpArgs false
set_option linter.unusedVariables false

/-! ## `gatherheredocuments` -/

/-- line, empty slot, positions (no constraint on the cursor) -/
def G2 (L : Str) (ps : List Nat) (l : Local) (e : Env) : Prop :=
  (tapeOf l e).line = L ∧ l.eolLookahead = none ∧ l.positions = ps

section
variable {L : Str} {ps : List Nat}

theorem G2.env {l : Local} {e e' : Env} (h : G2 L ps l e) (h1 : e'.tape = e.tape) :
    G2 L ps l e' := by
  unfold G2 at h ⊢
  rw [tapeOf_env h1]; exact h

instance : EnvStable (G2 L ps) := ⟨fun _ _ _ h h1 _ => h.env h1⟩

theorem G2.put {l : Local} {e : Env} (h : G2 L ps l e) {t' : Tape} (h1 : t'.line = L) :
    G2 L ps (putL l t') (putE l e t') := by
  obtain ⟨a1, a2, a3⟩ := h
  unfold G2
  rw [tapeOf_put, putL_eol, putL_positions']
  exact ⟨h1, a2, a3⟩

theorem Tp.g2 {i : Nat} {l : Local} {e : Env} (h : Tp L ps i l e) : G2 L ps l e :=
  ⟨h.1, h.2.2.2.1, h.2.2.2.2⟩

theorem getc_g2 (rqn : Bool) : SatW (G2 L ps) (G2 L ps) (getc rqn) (fun _ => True) := by
  intro l e h
  have h0 := h
  obtain ⟨a1, a2, a3⟩ := h
  rw [run_getc rqn l e a2]
  cases hgc : (tapeOf l e).getc rqn ((tapeOf l e).line.length + 1) with
  | error u => cases u; exact True.intro
  | ok v =>
    obtain ⟨c, t'⟩ := v
    obtain ⟨b1, _⟩ := getc_spec rqn _ _ _ _ hgc
    exact ⟨True.intro, h0.put (b1.trans a1)⟩

theorem peekc_g2 (rqn : Bool) : SatW (G2 L ps) (G2 L ps) (peekc rqn) (fun _ => True) := by
  intro l e h
  have h0 := h
  obtain ⟨a1, a2, a3⟩ := h
  unfold peekc
  rw [M.run_bind, run_getc rqn l e a2]
  cases hgc : (tapeOf l e).getc rqn ((tapeOf l e).line.length + 1) with
  | error u => cases u; exact True.intro
  | ok v =>
    obtain ⟨c, t'⟩ := v
    obtain ⟨b1, b2, b3, b4, b5, b6⟩ := getc_spec rqn _ _ _ _ hgc
    obtain ⟨m1, m2⟩ := tape_getc_mono rqn _ _ _ _ hgc
    simp only []
    cases c with
    | none =>
      simp only [Option.isSome_none, Bool.false_eq_true, if_false, M.run_bind, M.run_pure]
      exact ⟨True.intro, h0.put (b1.trans a1)⟩
    | some ch =>
      simp only [Option.isSome_some, if_true, M.run_bind]
      rw [run_ungetc, tapeOf_put]
      have hlt := b5 rfl
      have hle := b4 (by omega)
      obtain ⟨n1, _⟩ := m2 ch rfl
      have hu : t'.ungetc = (true, { t' with idx := t'.idx - 1 }) := by
        unfold Tape.ungetc
        rw [if_pos]
        rw [b1]
        have hne : (tapeOf l e).line ≠ [] := by
          intro hl; rw [hl] at hlt; simp at hlt
        simp only [Bool.and_eq_true, Bool.not_eq_true', List.isEmpty_eq_false_iff, ne_eq, bne_iff_ne,
          decide_eq_true_eq]
        exact ⟨⟨hne, by omega⟩, hle⟩
      rw [hu]
      simp only [M.run_pure]
      rw [putL_putL, putE_putE]
      exact ⟨True.intro, h0.put (b1.trans a1)⟩

theorem bumpIdx_g2 : SatW (G2 L ps) (G2 L ps) bumpIdx (fun _ => True) := by
  intro l e h
  rw [run_bumpIdx]
  exact ⟨True.intro, h.put h.1⟩

end

macro_rules | `(tactic| w_atom) => `(tactic| exact getc_g2 _)
macro_rules | `(tactic| w_atom) => `(tactic| exact peekc_g2 _)
macro_rules | `(tactic| w_atom) => `(tactic| exact bumpIdx_g2)

section
variable {L : Str} {ps : List Nat}

theorem readline_false_g2 : SatW (G2 L ps) (G2 L ps) (readline false) (fun _ => True) := by
  unfold readline; simp only [Bool.and_false, Bool.false_eq_true, if_false]; w_walk

end
macro_rules | `(tactic| w_atom) => `(tactic| exact readline_false_g2)

section
variable {L : Str} {ps : List Nat}
theorem makeheredoc_g2 (id : Nat) (kill : Bool) :
    SatW (G2 L ps) (G2 L ps) (makeheredoc id kill) (fun _ => True) := by
  unfold makeheredoc; (try simp only []); w_walk
end
macro_rules | `(tactic| w_atom) => `(tactic| exact makeheredoc_g2 _ _)

section
variable {L : Str} {ps : List Nat}

/-- `gatherheredocuments` keeps the line, the empty slot and the position stack -/
theorem gather_g2 : SatW (G2 L ps) (G2 L ps) gatherheredocuments (fun _ => True) := by
  unfold gatherheredocuments; (try simp only []); w_walk

/-- **`TokText.gather`** -/
theorem keepsEol_gather : C10.KeepsEol gatherheredocuments := by
  intro l e a l' e' hl hr
  have h := gather_g2 (L := (tapeOf l e).line) (ps := l.positions) l e ⟨rfl, hl, rfl⟩
  rw [hr] at h
  exact h.2.2.1

end

/-! ## the relation `TT` from the facts collected -/

theorem tt_eof (L : Str) : TT L eofTok := by
  unfold TT ttOK eofTok
  rfl

theorem all_digit_noBackslash : ∀ (s : Str), s.all isDigit = true → s.contains '\\' = false
  | [], _ => rfl
  | c :: s, h => by
    simp only [List.all_cons, Bool.and_eq_true] at h
    simp only [List.contains_cons, Bool.or_eq_false_iff, beq_eq_false_iff_ne, ne_eq]
    refine ⟨?_, all_digit_noBackslash s h.2⟩
    rintro rfl
    have h1 := h.1
    revert h1; decide

/-- a bare token -/
theorem tt_bare {L : Str} {a e : Nat} {ty : TokType} {v : Str} {t : Token}
    (hp : t.pos = some (a, e)) (hae : a < e) (hval : t.value = .str v) (hty : t.ttype = some ty)
    (hv : ty.strValueChars = some v) (hne : ty ≠ .EOF)
    (h : (ty = .NEWLINE ∧ L[a]? = some '\n') ∨
      (e ≤ L.length ∧ a + v.length < L.length ∧
        ∃ r ∈ residues false L e, Del (Str.slice L a e) (v ++ r))) : TT L t := by
  obtain ⟨b1, b2, b3, b4⟩ := bare_noBackslash hv
  unfold TT ttOK
  rw [hval, hp]
  simp only [Bool.and_eq_true, Bool.or_eq_true, Bool.not_eq_true', decide_eq_true_eq,
    List.any_eq_true, beq_iff_eq]
  have hlen : a + v.length ≤ L.length := by
    rcases h with ⟨rfl, hl⟩ | ⟨_, hl, _⟩
    · have := (List.getElem?_eq_some_iff.mp hl).1
      cases hv
      simp only [List.length_cons, List.length_nil]; omega
    · omega
  refine ⟨⟨⟨⟨⟨⟨?_, ?_⟩, ?_⟩, hae⟩, hlen⟩, Or.inr b1⟩, ?_⟩
  · simp [Token.is, hty, b2]
  · simp [Token.is, hty, hne]
  · rw [hty]; rfl
  · rcases h with ⟨rfl, hl⟩ | ⟨h1, h2, r, hr, hd⟩
    · right
      cases hv
      unfold nlOver
      simp only [Bool.and_eq_true, beq_iff_eq]
      exact ⟨by simp [Token.is, hty], slice_head L hl hae⟩
    · left
      have hl := hd.length_le
      rw [slice_length L h1, List.length_append] at hl
      exact ⟨⟨⟨h1, by omega⟩, Or.inr h2⟩, r, residues_mono hr, hd.delB⟩

/-- a token read by `_readtokenword` -/
theorem tt_word {L : Str} {a k : Nat} {tw : Str} {t : Token} (hs : SpanW L a k tw)
    (hw : WordTok a k tw t) (hty : WTy t) : TT L t := by
  obtain ⟨s1, s2, s3, s4, r, hr, hd⟩ := hs
  obtain ⟨hp, hak, hval⟩ := hw
  obtain ⟨ty, hty1, hty2, hty3⟩ := hty
  have hl := hd.length_le
  rw [slice_length L s2, List.length_append] at hl
  unfold TT ttOK
  rcases hval with hval | ⟨hval, hleg, htyn⟩
  · obtain ⟨q1, q2⟩ := hty3 tw hval
    rw [hval, hp]
    simp only [Bool.and_eq_true, Bool.or_eq_true, Bool.not_eq_true', decide_eq_true_eq,
      List.any_eq_true, beq_iff_eq]
    refine ⟨⟨⟨⟨⟨⟨?_, ?_⟩, ?_⟩, hak⟩, by omega⟩, q2⟩, Or.inl ?_⟩
    · simp [Token.is, hty1, q1]
    · simp [Token.is, hty1, hty2]
    · rw [hty1]; rfl
    · refine ⟨⟨⟨s2, by omega⟩, Or.inr s3⟩, r, ?_, hd.delB⟩
      rw [s4]; exact hr
  · rw [hval, hp]
    simp only [Bool.and_eq_true, decide_eq_true_eq, List.any_eq_true, beq_iff_eq]
    refine ⟨⟨⟨by simp [Token.is, htyn], hak⟩, s2⟩, r, hr, ?_⟩
    have hdig : tw.all isDigit = true := by
      unfold legalNumber at hleg
      simp only [Bool.and_eq_true] at hleg
      exact hleg.2
    have hc : Spec.hasContinuation (tw ++ r) = false :=
      hasCont_append_of_noNL (hasCont_of_noBackslash tw (all_digit_noBackslash tw hdig))
        (res_noNL hr)
    have hstrip := hd.strip hc
    simp only [hstrip, List.length_append, Nat.add_sub_cancel, List.take_left', List.drop_left',
      Nat.le_add_left, hleg, and_self, true_and]

end Bashlex.C04.TTP
