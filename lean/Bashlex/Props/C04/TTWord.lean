/-
  C04, token text, part 4 (layers B and C): the loop of `_readtokenword`, above the hypothesis
  `ScanHyp` on the two recursive scanners (layer D).

  The ghost relation: while a word is read, the text between the token's start `a` and the cursor
  spells `tokenword` followed by the character in hand, up to deleted backslash-newline pairs
  (`Hand.read`).  Two more shapes of "the character in hand": the `<` / `>` of a process
  substitution, handed over by `_readtoken` with the cursor on the `(` after skipped pairs
  (`Hand.procsub`), and the final newline of the line re-read after an `_ungetc(None)` left the
  cursor inside the last continuation pair (`Hand.d31`).  The loop is left
    * at the end of the line (`c is None`),
    * through `_ungetc(c)` of a break character (residue: none, or D31),
    * through the DOUBLE `_ungetc` after `<` / `>` (`handleshellexp` looked ahead): residue none,
      D32 (`<\`: the look-ahead skipped continuation pairs) or D31+D32 (`<`: it ran into the end).
-/
import Bashlex.Props.C04.TTOps

namespace Bashlex.C04.TTP
open Bashlex Bashlex.M Bashlex.C10 Bashlex.C11 Bashlex.C03.Tok Bashlex.C04
set_option linter.unusedSimpArgs false
set_option linter.unusedVariables false

/-! ## the hypothesis on the scanners (layer D) -/

def MPGood (P : MPParams) : Prop := P.close ≠ '\n' ∧ P.opn ≠ '\n'
def CSGood (P : CSParams) : Prop := P.close ≠ '\n' ∧ P.opn ≠ '\n'

/-- what a scanner called at cursor `i` returns: at cursor `j`, inside the line, the text
    consumed spells the value returned up to deleted backslash-newline pairs, followed by nothing
    or by the D31 residue (the scanner's last look-ahead ran through a continuation into the end of
    the line and `_ungetc(None)` left the cursor on the newline of that pair) -/
def ScanQ (L : Str) (ps : List Nat) (i : Nat) (r : Str) (l : Local) (e : Env) : Prop :=
  ∃ j, (i ≤ j ∧ j < L.length ∧ ∃ res ∈ residues false L j, Del (Str.slice L i j) (r ++ res)) ∧
    Tp L ps j l e

/-- **hypothesis (layer D)**: `_parse_matched_pair` and `_parse_comsub` return exactly the text
    they consume, continuations removed, up to the D31 residue -/
structure ScanHyp : Prop where
  pmp : ∀ (L : Str) (ps : List Nat) (i fuel : Nat) (P : MPParams), NL L → i < L.length → MPGood P →
    HT (Tp L ps i) (parseMatchedPair fuel P) (ScanQ L ps i) ET
  pcs : ∀ (L : Str) (ps : List Nat) (i fuel : Nat) (P : CSParams), NL L → i < L.length → CSGood P →
    HT (Tp L ps i) (parseComsub fuel P) (ScanQ L ps i) ET

/-! ## `readtokenwordStep`, restated -/

/-- the end of an iteration: read the next character -/
def rwTail (st : RWState) : M (RWState ⊕ RWState) := do
  let cd ← currentDelimiter
  let nc ← getc (cd != some '\'' && !st.passNext)
  return .inl { st with c := nc }

/-- `if not gotonext:` -/
def rwBreak (st : RWState) (c : Char) (gotonext : Bool) : M (RWState ⊕ RWState) :=
  if !gotonext then do
    if ← shellbreak c then
      ungetc (some c)
      return .inr { st with c := some c }
    else rwTail (handleescapedchar st c)
  else rwTail st

def rwCond (cd peek : Option Char) : M Bool := do
  if cd.isNone || cd == some '`' then pure true
  else if cd == some '"' then
    match peek with
    | none => pure false
    | some p => pure (← syn p).dquote
  else pure false

theorem readtokenwordStep_eq (st : RWState) : readtokenwordStep st =
    (match st.c with
    | none => pure (.inr st)
    | some c0 =>
      if st.passNext then rwTail (handleescapedchar { st with passNext := false } c0)
      else do
        let cd ← currentDelimiter
        if c0 == '\\' then do
          let peek ← getc false
          if peek == some '\n' then rwBreak st '\n' true
          else do
            ungetc peek
            let cond ← rwCond cd peek
            if cond then
              rwBreak (handleescapedchar { st with passNext := true, quoted := true } c0) c0 true
            else rwBreak st c0 false
        else do
          if ← shellquote c0 then do
            let st ← handleshellquote st c0
            rwBreak st c0 true
          else do
            if ← shellexp c0 then do
              let x ← handleshellexp st c0 cd
              rwBreak x.1 c0 (!x.2)
            else rwBreak st c0 false) := by
  unfold readtokenwordStep rwBreak rwTail rwCond
  rfl

/-! ## `wordPathV` -/

theorem wp_nonbreak {c : Char} {x : Str} (h : (synClass c).brk = false) : wordPathV (c :: x) = true := by
  unfold wordPathV
  simp [Spec.isBreakChar, h]

theorem wp_procsub {c : Char} {x : Str} (h : c = '<' ∨ c = '>') : wordPathV (c :: '(' :: x) = true := by
  unfold wordPathV
  rcases h with rfl | rfl <;> simp [List.isPrefixOf]

theorem wp_append {tw x : Str} (h : wordPathV tw = true) (hne : tw ≠ []) :
    wordPathV (tw ++ x) = true := by
  unfold wordPathV at h ⊢
  cases tw with
  | nil => exact absurd rfl hne
  | cons t ts =>
    simp only [List.isEmpty_cons, Bool.false_or, Bool.or_eq_true, Bool.not_eq_true',
      List.cons_append] at h ⊢
    rcases h with (h | h) | h
    · left; left
      rw [← List.cons_append, List.all_append, h, Bool.false_and]
    · left; right
      cases ts with
      | nil => simp [List.isPrefixOf] at h
      | cons s ss => simpa [List.isPrefixOf] using h
    · right
      cases ts with
      | nil => simp [List.isPrefixOf] at h
      | cons s ss => simpa [List.isPrefixOf] using h

theorem wp_ext {tw x : Str} (h : wordPathV tw = true) (hx : wordPathV x = true) :
    wordPathV (tw ++ x) = true := by
  by_cases hne : tw = []
  · subst hne; exact hx
  · exact wp_append h hne

theorem exp_brk {c : Char} (h1 : (synClass c).exp = true) (h2 : (synClass c).brk = true) :
    c = '<' ∨ c = '>' := by
  simp only [synClass, Bool.or_eq_true, beq_iff_eq] at h1 h2
  rcases h1 with (rfl | h) | h
  · revert h2; decide
  · exact Or.inl h
  · exact Or.inr h

theorem exp_cases {c : Char} (h1 : (synClass c).exp = true) : c = '$' ∨ c = '<' ∨ c = '>' := by
  simp only [synClass, Bool.or_eq_true, beq_iff_eq] at h1
  rcases h1 with (h | h) | h
  · exact Or.inl h
  · exact Or.inr (Or.inl h)
  · exact Or.inr (Or.inr h)

theorem brk_nl : (synClass '\n').brk = true := by decide

theorem drop_single {L : Str} {k : Nat} {c : Char} (h : L.drop k = [c]) :
    L[k]? = some c ∧ k + 1 = L.length := by
  have h1 : (L.drop k).length = 1 := by rw [h]; rfl
  rw [List.length_drop] at h1
  refine ⟨?_, by omega⟩
  have := List.head?_drop (l := L) (i := k)
  rw [h] at this
  exact this.symm

theorem res_false_cases {L : Str} {k : Nat} {r : Str} (h : r ∈ residues false L k) :
    r = [] ∨ (r = ['\\'] ∧ L.drop k = ['\n']) := by
  unfold residues at h
  simp only [Bool.false_and, Bool.false_eq_true, if_false, List.append_nil, List.mem_append,
    List.mem_cons, List.mem_nil_iff, or_false] at h
  rcases h with h | h
  · exact Or.inl h
  · split at h
    · rename_i hd
      simp only [List.mem_cons, List.mem_nil_iff, or_false] at h
      exact Or.inr ⟨h, by simpa using hd⟩
    · cases h

/-! ## the invariant of the loop -/

/-- the character in hand (see the header) -/
inductive Hand (L : Str) (a : Nat) (tw : Str) (i : Nat) : Option Char → Prop
  | read (i0 : Nat) (rqn : Bool) (c : Option Char) : a ≤ i0 → Del (Str.slice L a i0) tw →
      GetcR rqn L i0 i c → Hand L a tw i c
  | procsub (c : Char) : tw = [] → (c = '<' ∨ c = '>') → L[a]? = some c → a + 1 ≤ i →
      Del (Str.slice L (a + 1) i) [] → L[i]? = some '(' → Hand L a tw i (some c)
  | d31 : i = L.length → L.drop (i - 1) = ['\n'] → a ≤ i - 1 →
      Del (Str.slice L a (i - 1)) (tw ++ ['\\']) → Hand L a tw i (some '\n')

structure WInv (L : Str) (a : Nat) (st : RWState) (i : Nat) : Prop where
  hand : Hand L a st.tokenword i st.c
  len : a + st.tokenword.length < L.length
  wp : wordPathV st.tokenword = true
  pn : st.passNext = true → ∃ i0 rqn p, p ≠ '\n' ∧ st.c = some p ∧ a ≤ i0 ∧
    Del (Str.slice L a i0) st.tokenword ∧ GetcR rqn L i0 i (some p) ∧ st.tokenword ≠ []

def RWI (L : Str) (a : Nat) (st : RWState) (l : Local) (e : Env) : Prop :=
  ∃ i, WInv L a st i ∧ Tp L [a] i l e

/-- the word read, with the cursor at its end `k` -/
def SpanW (L : Str) (a k : Nat) (tw : Str) : Prop :=
  a ≤ k ∧ k ≤ L.length ∧ a + tw.length < L.length ∧ wordPathV tw = true ∧
  ∃ r ∈ residues true L k, Del (Str.slice L a k) (tw ++ r)

def ExitQ (L : Str) (a : Nat) (st : RWState) (l : Local) (e : Env) : Prop :=
  ∃ k, SpanW L a k st.tokenword ∧ Tp L [a] k l e

def StepQ (L : Str) (a : Nat) (r : RWState ⊕ RWState) (l : Local) (e : Env) : Prop :=
  match r with
  | .inl st => RWI L a st l e
  | .inr st => ExitQ L a st l e

/-- the state after a branch that goes on to the next character (`gotonext`) -/
def GoQ (L : Str) (a : Nat) (st : RWState) (l : Local) (e : Env) : Prop :=
  ∃ j, (a ≤ j ∧ j < L.length ∧ st.passNext = false ∧ wordPathV st.tokenword = true ∧
    ∃ res ∈ residues false L j, Del (Str.slice L a j) (st.tokenword ++ res)) ∧ Tp L [a] j l e

section
variable {L : Str} {a : Nat}

/-- the end of an iteration -/
theorem rwTail_tt (st : RWState) {k : Nat} (hak : a ≤ k)
    (hlen : a + st.tokenword.length < L.length) (hwp : wordPathV st.tokenword = true)
    (hmid : (Del (Str.slice L a k) st.tokenword ∧
              (st.passNext = true → st.tokenword ≠ [] ∧ ∃ p, L[k]? = some p ∧ p ≠ '\n')) ∨
            (st.passNext = false ∧ L.drop k = ['\n'] ∧
              Del (Str.slice L a k) (st.tokenword ++ ['\\']))) :
    HT (Tp L [a] k) (rwTail st) (StepQ L a) ET := by
  unfold rwTail
  refine keep_bind k_currentDelimiter (fun cd _ => ?_)
  refine getc_bind (fun nc i hg => ?_)
  refine HT.pure (fun l e h => ?_)
  show RWI L a { st with c := nc } l e
  refine ⟨i, ?_, h⟩
  rcases hmid with ⟨hd, hp⟩ | ⟨hp, hdrop, hd⟩
  · refine ⟨Hand.read k _ nc hak hd hg, hlen, hwp, ?_⟩
    intro hpass
    have hpass' : st.passNext = true := hpass
    obtain ⟨hne, p, hp1, hp2⟩ := hp hpass'
    have hr : (cd != some '\'' && !st.passNext) = false := by rw [hpass']; simp
    obtain ⟨e1, e2⟩ := hg.exact hp1 (Or.inr hr)
    subst e1
    exact ⟨k, _, p, hp2, rfl, hak, hd, hg, hne⟩
  · obtain ⟨q1, q2⟩ := drop_single hdrop
    obtain ⟨e1, e2⟩ := hg.exact q1 (Or.inl (by decide))
    subst e1
    have hi : i = L.length := by omega
    refine ⟨?_, hlen, hwp, fun hpass => ?_⟩
    · refine Hand.d31 hi ?_ (by omega) ?_
      · have : i - 1 = k := by omega
        rw [this]; exact hdrop
      · have : i - 1 = k := by omega
        rw [this]; exact hd
    · have hpass' : st.passNext = true := hpass
      rw [hp] at hpass'; cases hpass'

theorem rwTail_of_go (st : RWState) {j : Nat} (h1 : a ≤ j) (h2 : j < L.length)
    (h3 : st.passNext = false) (h4 : wordPathV st.tokenword = true) {res : Str}
    (hr : res ∈ residues false L j) (hd : Del (Str.slice L a j) (st.tokenword ++ res)) :
    HT (Tp L [a] j) (rwTail st) (StepQ L a) ET := by
  have hl := hd.length_le
  rw [slice_length L (by omega), List.length_append] at hl
  refine rwTail_tt st h1 (by omega) h4 ?_
  rcases res_false_cases hr with rfl | ⟨rfl, hdrop⟩
  · left
    exact ⟨by simpa using hd, fun hp => by rw [h3] at hp; cases hp⟩
  · right
    exact ⟨h3, hdrop, hd⟩

theorem rwBreak_true (st : RWState) (c : Char) : rwBreak st c true = rwTail st := by
  unfold rwBreak; simp

/-- a character in hand that is no expansion character: `_ungetc` and leave if it is a break
    character, else append it -/
theorem plain_tt (hnl : NL L) (st : RWState) (c : Char) {i : Nat} (hc : st.c = some c)
    (hw : WInv L a st i) (hpn : st.passNext = false) (hnexp : (synClass c).exp = false) :
    HT (Tp L [a] i) (rwBreak st c false) (StepQ L a) ET := by
  obtain ⟨hhand, hlen, hwp, _⟩ := hw
  unfold rwBreak
  simp only [Bool.not_false, if_true]
  refine keep_bind (v_shellbreak c) (fun b hb => ?_)
  subst hb
  rw [hc] at hhand
  refine HT.ite (fun hbrk => ?_) (fun hbrk => ?_)
  · -- a break character: put back
    cases hhand with
    | read i0 rqn _ h0 hdel hg =>
      obtain ⟨g1, g2, g3⟩ := hg.char c rfl
      refine ungetc_bind (by omega) ?_
      refine HT.pure (fun l e h => ⟨i - 1, ⟨by omega, by have := hg.le'; omega, hlen, hwp, [],
        res_nil _ _ _, ?_⟩, h⟩)
      rw [List.append_nil, ← slice_cat L h0 (by omega : i0 ≤ i - 1) (by have := hg.le'; omega)]
      simpa using hdel.append g3
    | procsub _ _ hcc =>
      exfalso
      rcases hcc with rfl | rfl <;> revert hnexp <;> decide
    | d31 hi hdrop hai hd =>
      have hpos : 0 < L.length := by
        have := congrArg List.length hdrop
        rw [List.length_drop] at this; simp at this; omega
      refine ungetc_bind (by omega) ?_
      exact HT.pure (fun l e h => ⟨i - 1, ⟨hai, by omega, hlen, hwp, ['\\'], res_d31 hdrop, hd⟩, h⟩)
  · -- an ordinary character: append
    have hbrk' : (synClass c).brk = false := by simpa using hbrk
    have hcn : c ≠ '\n' := by rintro rfl; rw [brk_nl] at hbrk'; cases hbrk'
    cases hhand with
    | read i0 rqn _ h0 hdel hg =>
      obtain ⟨g1, g2, g3⟩ := hg.char c rfl
      have hi : i < L.length := nl_lt hnl g2 hcn (by omega)
      have hd : Del (Str.slice L a i) (st.tokenword ++ [c]) := by
        rw [← slice_cat L h0 hg.le hg.le']
        exact hdel.append hg.del
      have hl := hd.length_le
      rw [slice_length L (by omega), List.length_append] at hl
      simp only [List.length_cons, List.length_nil] at hl
      refine rwTail_tt (handleescapedchar st c) (by omega) ?_ ?_ (Or.inl ⟨hd, fun hp => ?_⟩)
      · show a + (st.tokenword ++ [c]).length < L.length
        rw [List.length_append]; simp only [List.length_cons, List.length_nil]; omega
      · show wordPathV (st.tokenword ++ [c]) = true
        exact wp_ext hwp (wp_nonbreak hbrk')
      · have : st.passNext = true := hp
        rw [hpn] at this; cases this
    | procsub _ _ hcc =>
      exfalso
      rcases hcc with rfl | rfl <;> revert hnexp <;> decide
    | d31 _ _ _ _ => exact absurd rfl hcn

/-! ## quotes (layer C) -/

theorem quote_ne_nl {c : Char} (h : (synClass c).quote = true) : c ≠ '\n' := by
  rintro rfl; revert h; decide

theorem quote_nonbreak {c : Char} (h : (synClass c).quote = true) : (synClass c).brk = false := by
  simp only [synClass, Bool.or_eq_true, beq_iff_eq] at h
  rcases h with (rfl | rfl) | rfl <;> decide

/-- closure `handleshellquote`: the opening quote, then what `_parse_matched_pair` returns -/
theorem handleshellquote_tt (hS : ScanHyp) (hnl : NL L) (st : RWState) (c : Char)
    (hq : (synClass c).quote = true) {i : Nat} (hai : a ≤ i) (hi : i < L.length)
    (hd : Del (Str.slice L a i) (st.tokenword ++ [c])) (hpn : st.passNext = false)
    (hwp : wordPathV st.tokenword = true) :
    HT (Tp L [a] i) (handleshellquote st c) (GoQ L a) ET := by
  unfold handleshellquote
  refine keep_bind (k_pushDelimiter c) (fun _ _ => ?_)
  refine keep_bind w_depthFuel (fun fuel _ => ?_)
  refine HT.bind (hS.pmp L [a] i fuel _ hnl hi ⟨quote_ne_nl hq, quote_ne_nl hq⟩) (fun ttok => ?_)
  refine HT.pre_exists (fun j => HT.pre_pure (fun hj => ?_))
  obtain ⟨h1, h2, res, hr, hdel⟩ := hj
  refine keep_bind k_popDelimiter (fun _ _ => ?_)
  refine HT.pure (fun l e h => ⟨j, ⟨by omega, h2, hpn, ?_, res, hr, ?_⟩, h⟩)
  · show wordPathV (st.tokenword ++ [c] ++ ttok) = true
    rw [List.append_assoc]
    exact wp_ext hwp (wp_nonbreak (quote_nonbreak hq))
  · show Del (Str.slice L a j) (st.tokenword ++ [c] ++ ttok ++ res)
    rw [← slice_cat L hai h1 (by omega), List.append_assoc]
    exact hd.append hdel

end

end Bashlex.C04.TTP
