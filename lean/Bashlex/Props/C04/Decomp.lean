/-
  C04, part 10: where the signatures of `Spec.textOK` come from.  `textOKN` walks the spine with
  the empty context and reports `localTextViol` of every node there; below a word, assignment or
  substitution node the context may change (`+cont`, `+mlsub`, …): `textOKN_spine` stops there.
-/
import Bashlex.Props.C04.Sig

namespace Bashlex.C04
open Bashlex Bashlex.Node Bashlex.Spec
set_option linter.unusedSimpArgs false
set_option linter.unusedVariables false

/-- the walk of `textOKN` with the empty context stops here (the context may change below) -/
def stops : Node → Bool
  | .word .. | .assignment .. | .commandsubstitution .. | .processsubstitution .. => true
  | _ => false

/-- where a signature of `textOK` comes from: the local clause of a spine node (reported as it
    is: the context is empty), or — for a word, assignment or substitution node — that node's
    subtree -/
def Origin (s : Str) (v : String) (m : Node) : Prop :=
  (stops m = true ∧ v ∈ textOKN false s "" m) ∨ (stops m = false ∧ v ∈ localTextViol s m)

theorem mem_map_tag {s : Str} {n : Node} {v : String}
    (h : v ∈ (localTextViol s n).map (· ++ "" ++ tag false n)) : v ∈ localTextViol s n := by
  obtain ⟨x, hx, rfl⟩ := List.mem_map.mp h
  simpa [tag] using hx

mutual
theorem textOKN_spine (s : Str) : ∀ (n : Node) (v : String), v ∈ textOKN false s "" n →
    ∃ m ∈ spine n, Origin s v m
  | .word p w ps, v, h => ⟨_, by simp [spine], Or.inl ⟨rfl, h⟩⟩
  | .assignment p w ps, v, h => ⟨_, by simp [spine], Or.inl ⟨rfl, h⟩⟩
  | .commandsubstitution p c, v, h => ⟨_, by simp [spine], Or.inl ⟨rfl, h⟩⟩
  | .processsubstitution p c, v, h => ⟨_, by simp [spine], Or.inl ⟨rfl, h⟩⟩
  | .list p ps, v, h | .pipeline p ps, v, h | .ifN p ps, v, h | .forN p ps, v, h
  | .whileN p ps, v, h | .untilN p ps, v, h | .caseN p ps, v, h | .pattern p ps, v, h
  | .command p ps, v, h | .unimplemented p ps, v, h | .function p _ _ ps, v, h => by
    simp only [textOKN, List.mem_append] at h
    rcases h with h | h
    · exact ⟨_, by simp [spine], Or.inr ⟨rfl, mem_map_tag h⟩⟩
    · obtain ⟨m, hm, ho⟩ := textOKL_spine s ps v h
      exact ⟨m, by simp [spine, hm], ho⟩
  | .compound p l r, v, h => by
    unfold textOKN at h
    simp only [List.mem_append] at h
    rcases h with (h | h) | h
    · exact ⟨_, by simp [spine], Or.inr ⟨rfl, mem_map_tag h⟩⟩
    · obtain ⟨m, hm, ho⟩ := textOKL_spine s l v h
      exact ⟨m, by simp [spine, hm], ho⟩
    · obtain ⟨m, hm, ho⟩ := textOKL_spine s r v h
      exact ⟨m, by simp [spine, hm], ho⟩
  | .redirect p i t o oa hd hid, v, h => by
    unfold textOKN at h
    simp only [List.mem_append] at h
    rcases h with (h | h) | h
    · exact ⟨_, by simp [spine], Or.inr ⟨rfl, mem_map_tag h⟩⟩
    · cases o with
      | none => simp at h
      | some w =>
        obtain ⟨m, hm, ho⟩ := textOKN_spine s w v h
        exact ⟨m, by simp [spine, spineO, hm], ho⟩
    · cases hd with
      | none => simp at h
      | some b =>
        obtain ⟨m, hm, ho⟩ := textOKN_spine s b v h
        exact ⟨m, by simp [spine, spineO, hm], ho⟩
  | .operator p w, v, h | .reservedword p w, v, h | .pipe p w, v, h | .parameter p w, v, h
  | .tilde p w, v, h | .heredoc p w, v, h => by
    simp only [textOKN] at h
    exact ⟨_, by simp [spine], Or.inr ⟨rfl, mem_map_tag h⟩⟩
theorem textOKL_spine (s : Str) : ∀ (l : List Node) (v : String), v ∈ textOKL false s "" l →
    ∃ m ∈ spineL l, Origin s v m
  | [], v, h => by simp [textOKL] at h
  | n :: ns, v, h => by
    simp only [textOKL, List.mem_append] at h
    rcases h with h | h
    · obtain ⟨m, hm, ho⟩ := textOKN_spine s n v h
      exact ⟨m, by simp [spineL, hm], ho⟩
    · obtain ⟨m, hm, ho⟩ := textOKL_spine s ns v h
      exact ⟨m, by simp [spineL, hm], ho⟩
end

/-- **every signature of `Spec.textOK`** is the local clause of a spine node, or comes from the
    subtree of a word, assignment or substitution node of the spine -/
theorem textOK_origin (s : Str) (n : Node) : ∀ v ∈ Spec.textOK s n, ∃ m ∈ spine n, Origin s v m :=
  fun v hv => textOKN_spine s n v hv

end Bashlex.C04
