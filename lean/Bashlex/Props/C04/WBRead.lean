/-
  C04, word boundaries, part 3: `_readtoken` and `token()`.

  From a cursor `i0` at a token boundary (`bndB L i0`):
    * the cursor after the token is at a token boundary again;
    * a token read by `_readtokenword` at `(a, k)` starts after a break character, a `-`, or at
      the start (`startsB L a`) — it does not start ON a break character that does not open a
      process substitution (`oddStartB`; with `ps.regexp` / `ps.dblparen` set `_readtoken` would
      enter `_readtokenword` so: no token is delivered then, `WBOdd.lean`) — and the loop was left
      as `exitB L k` says.
-/
import Bashlex.Props.C04.WBWord
import Bashlex.Props.C04.WBGather
import Bashlex.Props.C04.WBOdd
import Bashlex.Props.C04.WBPlain

namespace Bashlex.C04
open Bashlex Bashlex.Spec

/-- the word starts ON a break character that does not open a process substitution -/
def oddStartB (L : Str) (a : Nat) : Bool := brkAt L a && !procSubAtB L a

end Bashlex.C04

namespace Bashlex.C04.WB
open Bashlex Bashlex.M Bashlex.C10 Bashlex.C11 Bashlex.C03.Tok Bashlex.C04 Bashlex.C04.TTP
set_option linter.unusedSimpArgs false
set_option linter.unusedVariables false

/-! ## operators end in a break character or `-` -/

/-- the spelling of the token type ends in a break character or `-` -/
def opEnd (ty : TokType) : Bool :=
  match ty.strValueChars with
  | some v => (match v.getLast? with
    | some c => Spec.isBreakChar c || c == '-'
    | none => false)
  | none => false

theorem opEnd_facts {ty : TokType} (h : opEnd ty = true) :
    ty ≠ .WORD ∧ ty ≠ .ASSIGNMENT_WORD ∧ ∃ v c, ty.strValueChars = some v ∧ v.getLast? = some c ∧
      ((synClass c).brk = true ∨ c = '-') := by
  cases ty <;> first
    | (exfalso; revert h; decide)
    | exact ⟨by decide, by decide, _, _, rfl, rfl, by decide⟩

theorem sat_tokentypeOfChar_op (c : Char) (hm : (synClass c).metac = true ∨ c = '-' ∨ c = '\n') :
    Sat (tokentypeOfChar c) (fun t => opEnd t = true) := by
  unfold tokentypeOfChar
  split
  · rename_i t ht
    refine Sat.pure ?_
    have hc : c = '(' ∨ c = ')' ∨ c = '<' ∨ c = '>' ∨ c = ';' ∨ c = '&' ∨ c = '|' ∨ c = '-' ∨
        c = '\n' := by
      rcases hm with hm | hm | hm
      · simp only [synClass, Bool.or_eq_true, beq_iff_eq] at hm
        rcases hm with (((((h | h) | h) | h) | h) | h) | h <;> simp [h]
      · simp [hm]
      · simp [hm]
    rcases hc with rfl | rfl | rfl | rfl | rfl | rfl | rfl | rfl | rfl <;>
      (have : TokType.ofChar _ = some t := ht
       simp only [TokType.ofChar] at this
       cases this
       decide)
  · exact Sat.foreign trivial

macro "sat_walk_op" : tactic => `(tactic| repeat' (first
  | refine Sat.ite (fun _ => ?_) (fun _ => ?_)
  | exact Sat.foreign trivial
  | exact Sat.raise trivial
  | refine Sat.bind (sat_tokentypeOfChar_op _ (Or.inl (by assumption))) (fun _ _ => ?_)
  | refine Sat.bind_any (fun _ => ?_)
  | refine Sat.pure ?_))

/-- every operator `readtokenMeta` returns ends in a break character -/
theorem sat_readtokenMeta_op (c : Char) (hm : (synClass c).metac = true) :
    Sat (readtokenMeta c) (fun r => ∀ t, r = some t → opEnd t = true) := by
  unfold readtokenMeta
  simp only []
  sat_walk_op
  all_goals (intro t ht; cases ht <;> first | decide | assumption)

/-! ## the cursor after an operator -/

theorem getLast?_cons_ne {c : Char} {s : Str} (hs : s ≠ []) : (c :: s).getLast? = s.getLast? := by
  cases s with
  | nil => exact absurd rfl hs
  | cons d s' => rw [List.getLast?_cons_cons]

/-- the last character of a text with pairs deleted is the last character of the text, unless the
    text ends in a pair -/
theorem del_last : ∀ {s w : Str}, Del s w → w ≠ [] →
    s.getLast? = w.getLast? ∨ s.getLast? = some '\n'
  | _, _, .nil, h => absurd rfl h
  | _, _, .keep c (s := s) (w := w) h, _ => by
    by_cases hw : w = []
    · subst hw
      by_cases hs : s = []
      · subst hs; exact Or.inl rfl
      · obtain ⟨s', e1, _⟩ := del_nil_snoc h hs
        right
        rw [e1]
        simp [List.getLast?_cons]
    · have hs : s ≠ [] := by
        intro hs; subst hs; exact hw h.nil_left
      rcases del_last h hw with ih | ih
      · left
        rw [getLast?_cons_ne hs, getLast?_cons_ne hw]
        exact ih
      · right
        rw [getLast?_cons_ne hs]
        exact ih
  | _, _, .skip (s := s) (w := w) h, hw => by
    have hs : s ≠ [] := by
      intro hs; subst hs; exact hw h.nil_left
    have e : ('\\' :: '\n' :: s).getLast? = s.getLast? := by
      rw [getLast?_cons_ne (by simp), getLast?_cons_ne hs]
    rw [e]
    exact del_last h hw

theorem slice_getLast {L : Str} {a j : Nat} (haj : a < j) (hj : j ≤ L.length) :
    (Str.slice L a j).getLast? = L[j - 1]? := by
  have hlt : j - 1 < L.length := by omega
  have g : L[j - 1]? = some L[j - 1] := List.getElem?_eq_getElem hlt
  have := slice_snoc L g (a := a) (by omega)
  have e : j - 1 + 1 = j := by omega
  rw [e] at this
  rw [this, g]
  simp

/-- the cursor after an operator is at a token boundary -/
theorem bnd_of_op {L : Str} {a j : Nat} {ty : TokType} {v r : Str} (hop : opEnd ty = true)
    (hv : ty.strValueChars = some v) (hr : r ∈ residues false L j) (hj : j ≤ L.length)
    (hd : Del (Str.slice L a j) (v ++ r)) : bndB L j = true := by
  obtain ⟨_, _, v', c, hv', hc, hcb⟩ := opEnd_facts hop
  rw [hv] at hv'
  cases hv'
  have hvne : v ≠ [] := by
    intro h; rw [h] at hc; cases hc
  rcases res_false_cases hr with rfl | ⟨rfl, hdrop⟩
  · rw [List.append_nil] at hd
    have hlen := hd.length_le
    rw [slice_length L hj] at hlen
    have hvl : 0 < v.length := List.length_pos_iff.mpr hvne
    have haj : a < j := by omega
    have hl := slice_getLast haj hj
    rcases del_last hd hvne with h | h
    · rw [hl, hc] at h
      exact bndB_of_prev (by omega) h hcb
    · rw [hl] at h
      exact bndB_of_prev (by omega) h (Or.inl (by decide))
  · obtain ⟨q1, q2⟩ := drop_single hdrop
    exact bndB_of_exitB (exitB_brk q1 (by decide) (Or.inl ⟨by decide, by decide⟩))

/-! ## `_readtoken` -/

/-- line and cursor at a token boundary (nothing else: this is what survives `recordpos`,
    `_createtoken` and the writes of `token()`) -/
def BI (L : Str) (l : Local) (e : Env) : Prop :=
  (tapeOf l e).line = L ∧ bndB L (tapeOf l e).idx = true

theorem BI.env {L : Str} {l : Local} {e e' : Env} (h : BI L l e) (h1 : e'.tape = e.tape) :
    BI L l e' := by
  unfold BI at h ⊢
  rw [tapeOf_env h1]; exact h

instance {L : Str} : EnvStable (BI L) := ⟨fun _ _ _ h h1 _ => h.env h1⟩

theorem GB.bi {L : Str} {ps : List Nat} {l : Local} {e : Env} (h : GB L ps l e) : BI L l e :=
  ⟨h.1.1, h.2⟩

theorem bi_of_tp {L : Str} {ps : List Nat} {k : Nat} {l : Local} {e : Env} (h : Tp L ps k l e)
    (hb : bndB L k = true) : BI L l e := ⟨h.1, by rw [h.2.1]; exact hb⟩

/-- what `_readtoken` returns -/
def ReadW (L : Str) (r : TokType ⊕ Token) (l : Local) (e : Env) : Prop :=
  BI L l e ∧
  match r with
  | .inl ty => opEnd ty = true
  | .inr t => t = eofTok ∨
      ∃ a k, (∃ tw, WordTok a k tw t ∧ plainOKB tw = true) ∧ startsB L a = true ∧
        exitB L k = true

section
variable {L : Str}

/-- **`_readtokenword(c)`**: the text relation, how the loop was left, and the plain-word fact -/
theorem readtokenword_wbp (hS : ScanHyp) (hnl : NL L) (c : Char) (a : Nat) :
    HT (RWI L a { c := some c, allDigit := isDigit c }) (readtokenword c)
      (fun t l e => ∃ k, (∃ tw, SpanW L a k tw ∧ WordTok a k tw t ∧ exitB L k = true ∧
        plainOKB tw = true) ∧ Tp L [] k l e) ET := by
  unfold readtokenword
  refine HT.bind (Q := fun _ l e => RWI L a { c := some c, allDigit := isDigit c } l e)
    (HT.pure (fun _ _ h => h)) (fun fuel => ?_)
  refine HT.bind (HT.exn (HT.and_sat (rtwLoop_wb hS hnl fuel _)
    (sat_rtwLoop_p fuel _ (pinv_init c))) (fun _ _ => True.intro)) (fun st => ?_)
  refine HT.pre_pure (fun hpi => ?_)
  refine HT.pre_exists (fun k => HT.pre_pure (fun hk => ?_))
  refine HT.post (finishWord_tt st a) ?_
  intro t l e h
  exact ⟨k, ⟨st.tokenword, hk.1, h.1, hk.2, plainOKB_of hpi⟩, h.2⟩

theorem word_leaf_w (hS : ScanHyp) (hnl : NL L) (c : Char) (a : Nat)
    (hst : startsB L a = true) :
    HT (RWI L a { c := some c, allDigit := isDigit c })
      (do let t ← readtokenword c; pure (Sum.inr t) : M (TokType ⊕ Token)) (ReadW L) ET := by
  refine HT.bind (readtokenword_wbp hS hnl c a) (fun t => ?_)
  refine HT.pure (fun l e h => ?_)
  obtain ⟨k, ⟨tw, h1, h2, h3, h5⟩, h4⟩ := h
  exact ⟨bi_of_tp h4 (bndB_of_exitB h3), Or.inr ⟨a, k, ⟨tw, h2, h5⟩, hst, h3⟩⟩

theorem bare_leaf_w {a j : Nat} {ty : TokType} (hop : opEnd ty = true) (hb : bndB L j = true) :
    HT (Tp L [a] j) (pure (Sum.inl ty) : M (TokType ⊕ Token)) (ReadW L) ET := by
  exact HT.pure (fun l e h => ⟨bi_of_tp h hb, hop⟩)

/-- a run of pairs before `a`: the character before `a` is the newline of the last pair -/
theorem nl_before {i' a : Nat} (hd : Del (Str.slice L i' a) []) (hlt : i' < a) (ha : a ≤ L.length) :
    brkAt L (a - 1) = true := by
  obtain ⟨_, q2, _⟩ := pairs_back hd hlt ha
  exact brkAt_of q2 (by decide)

/-- where a token may start -/
theorem start_ok {i0 i' a : Nat} {ch : Char} (hb : bndB L i0 = true)
    (hstart : i' = i0 ∨ (i0 < i' ∧ brkAt L (i' - 1) = true)) (hia : i' ≤ a)
    (hd : Del (Str.slice L i' a) []) (hch : L[a]? = some ch) (hpk : some ch = peekC L i') :
    startsB L a = true ∨ oddStartB L a = true := by
  have halt : a < L.length := (List.getElem?_eq_some_iff.mp hch).1
  rcases Nat.lt_or_ge i' a with hlt | hge
  · left
    unfold startsB
    simp only [Bool.or_eq_true]
    exact Or.inl (Or.inr (nl_before hd hlt (by omega)))
  · have hia' : i' = a := by omega
    subst hia'
    rcases hstart with rfl | ⟨_, hbr⟩
    · unfold bndB at hb
      simp only [Bool.or_eq_true, Bool.and_eq_true, decide_eq_true_eq, beq_iff_eq] at hb
      rcases hb with ((((h | h) | h) | h) | h) | h
      · left; unfold startsB; simp [h]
      · omega
      · left; unfold startsB; simp [h]
      · left; unfold startsB; simp [h]
      · right; unfold oddStartB; simp [h.1, h.2]
      · exfalso
        unfold peekC at hpk
        rw [h, skipPairs_pair, skipPairs_nil] at hpk
        cases hpk
    · left; unfold startsB; simp [hbr]

set_option maxHeartbeats 2000000 in
/-- **`_readtoken`** from a cursor at a token boundary -/
theorem readtoken_w (hS : ScanHyp) (hnl : NL L) (hlast : L ≠ [] → L.getLast? = some '\n')
    {i0 : Nat} (hb : bndB L i0 = true) :
    HT (Tp L [] i0) readtoken (ReadW L) ET := by
  unfold readtoken
  simp only []
  refine keep_bind w_loopFuel (fun fuel _ => ?_)
  refine getc_peek_bind (fun c0 i1 hpk0 hg0 => ?_)
  refine HT.bind (Q := fun c l e => ∃ i, (∃ i', (GetcR true L i' i c ∧ c = peekC L i') ∧
      (i' = i0 ∨ (i0 < i' ∧ brkAt L (i' - 1) = true))) ∧ Tp L [] i l e) ?_ (fun c1 => ?_)
  · -- skipping blanks
    refine HT.pre (HT.loop (E := ET)
      (I := fun c l e => ∃ i, (∃ i', (GetcR true L i' i c ∧ c = peekC L i') ∧
        (i' = i0 ∨ (i0 < i' ∧ brkAt L (i' - 1) = true))) ∧ Tp L [] i l e) True.intro
      (fun c => ?_) fuel c0) (fun l e h => ⟨i1, ⟨i0, ⟨hg0, hpk0⟩, Or.inl rfl⟩, h⟩)
    refine HT.pre_exists (fun i => HT.pre_pure (fun hi => ?_))
    cases c with
    | none => exact HT.pure (fun l e h => ⟨i, hi, h⟩)
    | some ch =>
      simp only []
      refine HT.ite (fun hbl => ?_) (fun _ => HT.pure (fun l e h => ⟨i, hi, h⟩))
      refine getc_peek_bind (fun c' i' hpk' hg' => ?_)
      refine HT.pure (fun l e h => ⟨i', ⟨i, ⟨hg', hpk'⟩, Or.inr ?_⟩, h⟩)
      obtain ⟨i'', ⟨hg, _⟩, hs⟩ := hi
      obtain ⟨g1, g2, g3⟩ := hg.char ch rfl
      refine ⟨by rcases hs with rfl | ⟨h, _⟩ <;> omega, brkAt_of g2 ?_⟩
      have hbl' : shellblank ch = true := hbl
      simp only [shellblank, Bool.or_eq_true, beq_iff_eq] at hbl'
      rcases hbl' with rfl | rfl <;> decide
  refine HT.pre_exists (fun i => HT.pre_pure (fun hi => ?_))
  obtain ⟨i', ⟨hg, hpk⟩, hstart⟩ := hi
  -- the newline branch, from a state with the cursor right after a newline
  have nlTail : ∀ (a j : Nat) (u : Local → Local), (∀ l e, GB L [a] l e → GB L [a] (u l) e) →
      0 < j → L[j - 1]? = some '\n' →
      HT (Tp L [a] j) (do
        gatherheredocuments
        modify u
        let t ← tokentypeOfChar '\n'
        pure (Sum.inl t) : M (TokType ⊕ Token)) (ReadW L) ET := by
    intro a j u hu hj hLa
    refine HT.pre (P := GB L [a]) ?_
      (fun l e h => ⟨h.g2, by rw [h.2.1]; exact bndB_of_prev hj hLa (Or.inl (by decide))⟩)
    refine keep_bind gather_b (fun _ _ => ?_)
    refine HT.bind (Q := fun _ l e => GB L [a] l e) (HT.modify hu) (fun _ => ?_)
    refine keep_bind (v_tokentypeOfChar '\n') (fun t ht => ?_)
    have : t = .NEWLINE := by
      have : TokType.ofChar '\n' = some .NEWLINE := rfl
      rw [this] at ht; cases ht; rfl
    subst this
    have hnlop : opEnd .NEWLINE = true := by decide
    exact HT.pure (fun l e h => ⟨h.bi, hnlop⟩)
  cases c1 with
  | none =>
    refine HT.pure (fun l e h => ⟨bi_of_tp h (bndB_of_len ?_), Or.inl rfl⟩)
    have := (hg.atEnd rfl).1
    omega
  | some ch =>
    simp only [pure_bind]
    obtain ⟨g1, g2, g3⟩ := hg.char ch rfl
    refine HT.ite (fun hsharp => ?_) (fun hsharp => ?_)
    · -- a comment: skipped, then the newline
      refine HT.bind discardUntil_tt (fun _ => ?_)
      refine HT.pre_exists (fun j => HT.pre_pure (fun hj => ?_))
      refine getc_bind (fun c2 j2 hg2 => ?_)
      refine HT.bind (recordpos_tp 1) (fun _ => ?_)
      show HT (Tp L [j2 - 1] j2) _ _ _
      have hpos : 0 < L.length := by
        have := hg.le'; omega
      have hLa : 0 < j2 ∧ L[j2 - 1]? = some '\n' := by
        rcases hj with hj | hj
        · obtain ⟨e1, e2⟩ := hg2.exact hj (Or.inr rfl)
          rw [e2]; exact ⟨Nat.succ_pos _, by simpa using hj⟩
        · have hj2 : j2 = L.length := by
            have := hg2.le; have := hg2.le'; omega
          rw [hj2, ← List.getLast?_eq_getElem?]
          exact ⟨hpos, hlast (by intro h0; rw [h0] at hpos; simp at hpos)⟩
      refine HT.ite (fun _ => ?_) (fun h => absurd rfl h)
      exact nlTail _ _ _ (fun _ _ h => h) hLa.1 hLa.2
    · refine HT.bind (recordpos_tp 1) (fun _ => ?_)
      show HT (Tp L [i - 1] i) _ _ _
      have hii : i = i - 1 + 1 := by omega
      have hia : i' ≤ i - 1 := by omega
      generalize i - 1 = a at g2 g3 hii hia
      subst hii
      refine HT.ite (fun hn => ?_) (fun hn => ?_)
      · have : ch = '\n' := by simpa using hn
        subst this
        exact nlTail _ _ _ (fun _ _ h => h) (Nat.succ_pos _) (by simpa using g2)
      have hne : ch ≠ '\n' := by simpa using hn
      have hlt : a + 2 ≤ L.length := hnl _ _ g2 hne
      have hst : startsB L a = true ∨ oddStartB L a = true :=
        start_ok hb hstart hia g3 g2 hpk
      have hodd : oddStartB L a = true → (synClass ch).brk = true ∧ procSubAtB L a = false := by
        intro ho
        unfold oddStartB brkAt at ho
        rw [g2] at ho
        simp only [Bool.and_eq_true, Bool.not_eq_true'] at ho
        exact ⟨ho.1, ho.2⟩
      have hword : HT (Tp L [a] (a + 1))
          (do let t ← readtokenword ch; pure (Sum.inr t) : M (TokType ⊕ Token)) (ReadW L) ET := by
        rcases hst with hs | ho
        · exact HT.pre (word_leaf_w hS hnl ch a hs) (fun l e h => ⟨a + 1, winv_init g2 hne hnl, h⟩)
        · exact readtokenword_brk ch g2 (hodd ho).1 (hodd ho).2
      have hdash : ch = '-' → HT (Tp L [a] (a + 1))
          (do let t ← tokentypeOfChar ch; pure (Sum.inl t) : M (TokType ⊕ Token)) (ReadW L) ET := by
        intro hd
        refine HT.bind (HT.exn (HT.and_sat (Q := fun _ l e => Tp L [a] (a + 1) l e)
          (HT.post (k_tokentypeOfChar ch) (fun _ _ _ h => h.2))
          (sat_tokentypeOfChar_op ch (Or.inr (Or.inl hd)))) (fun _ _ => True.intro)) (fun t => ?_)
        refine HT.pre_pure (fun hop => ?_)
        refine bare_leaf_w hop (bndB_of_prev (Nat.succ_pos _) (by simpa using g2) (Or.inr hd))
      refine HT.get_bind (fun l1 => ?_)
      refine HTQAt.ite (fun _ => HTQAt.ofHT hword) (fun _ => HTQAt.ofHT ?_)
      refine keep_bind (v_shellmeta ch) (fun b hbm => ?_)
      subst hbm
      refine HT.get_bind (fun l2 => ?_)
      refine HTQAt.ite (fun hm => HTQAt.ofHT ?_) (fun _ => HTQAt.ofHT ?_)
      · have hmeta : (synClass ch).metac = true := by
          simp only [Bool.and_eq_true] at hm; exact hm.1
        refine HT.bind (HT.exn (HT.and_sat (readtokenMeta_tt hnl g2 hne)
          (sat_readtokenMeta_op ch hmeta)) (fun _ _ => True.intro)) (fun r => ?_)
        refine HT.pre_pure (fun hop => ?_)
        refine HT.pre_exists (fun j => ?_)
        cases r with
        | some ty =>
          simp only []
          refine HT.pre (P := fun l e => (∃ v, ty.strValueChars = some v ∧ a + v.length < L.length ∧
            ∃ r ∈ residues false L j, Del (Str.slice L a j) (v ++ r)) ∧ Tp L [a] j l e)
            ?_ (fun l e h => ⟨h.2, h.1⟩)
          refine HT.pre_pure (fun hv => ?_)
          obtain ⟨v, h1, h2, r, h3, h4⟩ := hv
          refine HT.pure (fun l e h => ?_)
          exact ⟨bi_of_tp h (bnd_of_op (hop ty rfl) h1 h3 h.2.2.1 h4), hop ty rfl⟩
        | none =>
          simp only []
          refine HT.pre (P := fun l e => ((ch = '<' ∨ ch = '>') ∧ a + 1 ≤ j ∧
            Del (Str.slice L (a + 1) j) [] ∧ L[j]? = some '(') ∧ Tp L [a] j l e)
            (HT.pre_pure (fun hv => ?_)) (fun l e h => ⟨h.2, h.1⟩)
          obtain ⟨hcc, h1, h2, h3⟩ := hv
          refine HT.get_bind (fun l3 => ?_)
          refine HTQAt.ite (fun hd => ?_) (fun _ => HTQAt.ofHT ?_)
          · exfalso
            simp only [Bool.and_eq_true, beq_iff_eq] at hd
            rcases hcc with rfl | rfl <;> exact absurd hd.1 (by decide)
          · have hps : procSubAtB L a = true := by
              unfold procSubAtB
              rw [g2, peekC_of_del h1 h2 h3 (by rintro ⟨hx, _⟩; cases hx)]
              rcases hcc with rfl | rfl <;> rfl
            have hs : startsB L a = true := by
              rcases hst with hs | ho
              · exact hs
              · rw [(hodd ho).2] at hps; cases hps
            refine HT.pre (word_leaf_w hS hnl ch a hs) (fun l e h => ⟨j, ?_, h⟩)
            exact ⟨Hand.procsub ch rfl hcc g2 h1 h2 h3, by show a + 0 < L.length; omega, rfl,
              fun h => by cases h⟩
      · refine HT.get_bind (fun l3 => ?_)
        refine HTQAt.ite (fun hd => HTQAt.ofHT (hdash ?_)) (fun _ => HTQAt.ofHT hword)
        simp only [Bool.and_eq_true, beq_iff_eq] at hd
        exact hd.1

end

end Bashlex.C04.WB
