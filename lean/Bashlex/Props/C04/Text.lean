/-
  C04, part 8: from provenance to text.

  `Src.slice_eq`: in a frame below which no enclosing word's value differs from its source text
  (`fr.cont = false`), slices of the frame's line that end within the frame are slices of the
  source of the outermost run, moved by the frame's offset.  (Above it: `TT` — the value of a
  word token is a prefix of the text it spans when that text holds no line continuation — and
  `IsBody`: a nested parser runs over a piece of the token value.)
-/
import Bashlex.Props.C04.Run
import Bashlex.Props.C13.Indep

namespace Bashlex.C04
open Bashlex Bashlex.M Bashlex.Node Bashlex.Spec
set_option linter.unusedSimpArgs false
set_option linter.unusedVariables false

/-! ## slices -/

theorem slice_nil_of_le (l : Str) {a b : Nat} (h : b ≤ a) : Str.slice l a b = [] := by
  unfold Str.slice
  apply List.drop_eq_nil_of_le
  exact Nat.le_trans (List.length_take_le _ _) h

theorem slice_append_left (x y : Str) {a b : Nat} (h : b ≤ x.length) :
    Str.slice (x ++ y) a b = Str.slice x a b := by
  unfold Str.slice
  rw [List.take_append_of_le_length h]

theorem slice_drop (v : Str) (k a b : Nat) :
    Str.slice (v.drop k) a b = Str.slice v (a + k) (b + k) := by
  unfold Str.slice
  rw [List.take_drop, List.drop_drop, Nat.add_comm k b, Nat.add_comm k a]

theorem slice_slice (l : Str) (x y a b : Nat) (h : b + x ≤ y) :
    Str.slice (Str.slice l x y) a b = Str.slice l (a + x) (b + x) := by
  unfold Str.slice
  rw [List.take_drop, List.drop_drop, List.take_take, Nat.add_comm x b, Nat.min_eq_left h,
    Nat.add_comm x a]

theorem slice_of_prefix {v sl : Str} (h : v.isPrefixOf sl = true) {a b : Nat} (hb : b ≤ v.length) :
    Str.slice v a b = Str.slice sl a b := by
  obtain ⟨t, rfl⟩ := List.isPrefixOf_iff_prefix.mp h
  exact (slice_append_left v t hb).symm

theorem slice_length_le (l : Str) (a b : Nat) : (Str.slice l a b).length ≤ b - a := by
  unfold Str.slice
  rw [List.length_drop]
  have := List.length_take_le b l
  omega

theorem ofInput_length (s : Str) : (Tape.ofInput s).line.length ≤ s.length + 1 := by
  rcases C13.ofInput_line s with h | h <;> rw [h] <;> simp

theorem slice_ofInput (s : Str) {a b : Nat} (h : b ≤ s.length) :
    Str.slice (Tape.ofInput s).line a b = Str.slice s a b := by
  rcases C13.ofInput_line s with e | e <;> rw [e]
  exact slice_append_left s _ h

/-! ## frames -/

theorem Src.bound {src : Str} {fr : Frame} (h : Src src fr) :
    fr.off ≤ fr.lim ∧ fr.line.length ≤ fr.lim - fr.off + 1 := by
  cases h with
  | root => exact ⟨Nat.zero_le _, by simpa using ofInput_length src⟩
  | sub _ _ _ _ e1 e2 e3 _ _ =>
    rw [e1, e2, e3]
    refine ⟨by omega, ?_⟩
    have := ofInput_length ‹Str›
    omega

/-- the value of a delivered token other than NEWLINE ends before the last character of the line -/
theorem Tk.value_bound {line : Str} {tok : Token} (h : Tk line tok) (hne : tok.valueStr ≠ ['\n']) :
    tok.valueStr = [] ∨
      (tok.lexpos + tok.valueStr.length < line.length ∧
        tok.valueStr.length ≤ tok.endlexpos - tok.lexpos) := by
  cases hv : tok.value with
  | none => left; simp [Token.valueStr, hv]
  | int k => left; simp [Token.valueStr, hv]
  | str v =>
    right
    have hvs : tok.valueStr = v := by simp [Token.valueStr, hv]
    obtain ⟨a, e, hp, _, _, _, _, _, _, halt⟩ := h.1.str hv
    have hl : tok.lexpos = a := by simp [Token.lexpos, hp]
    have he : tok.endlexpos = e := by simp [Token.endlexpos, hp]
    rw [hvs, hl, he]
    rw [hvs] at hne
    rcases halt with ⟨_, g2, g3, _⟩ | hnl
    · rcases g3 with g3 | g3
      · exact absurd g3 hne
      · exact ⟨g3, g2⟩
    · unfold nlOver at hnl
      simp only [Bool.and_eq_true, beq_iff_eq] at hnl
      exact absurd hnl.1.2 hne

/-- **transport of slices**: in a frame with `cont = false`, a slice of the frame's line that
    ends within the frame is the corresponding slice of the source -/
theorem Src.slice_eq {src : Str} {fr : Frame} (h : Src src fr) (hc : fr.cont = false) :
    ∀ a b, b + fr.off ≤ fr.lim → Str.slice fr.line a b = Str.slice src (a + fr.off) (b + fr.off) := by
  induction h with
  | root =>
    intro a b hb
    simp only [Nat.add_zero] at hb ⊢
    exact slice_ofInput src hb
  | @sub fr fr' tok body k h0 hT hB hne e1 e2 e3 e4 e5 ih =>
    intro a b hb
    rw [e4] at hc
    simp only [Bool.or_eq_false_iff, Bool.not_eq_false'] at hc
    obtain ⟨hc0, hfaith⟩ := hc
    by_cases hab : b ≤ a
    · rw [slice_nil_of_le _ hab, slice_nil_of_le _ (by omega)]
    have hab' : a < b := by omega
    have hbl : b ≤ body.length := by omega
    obtain ⟨rest, hrest⟩ := hB
    have hvl : k + body.length ≤ tok.valueStr.length := by
      have := congrArg List.length hrest
      rw [List.length_drop, List.length_append] at this
      omega
    have hvne : tok.valueStr ≠ [] := by
      intro h; rw [h] at hvl; simp only [List.length_nil] at hvl; omega
    rcases hT.value_bound hne with h | ⟨hv1, hv2⟩
    · exact absurd h hvne
    rw [e1, slice_ofInput body hbl]
    -- body → value
    have s1 : Str.slice body a b = Str.slice (tok.valueStr.drop k) a b := by
      rw [hrest]; exact (slice_append_left body rest hbl).symm
    rw [s1, slice_drop]
    -- value → spanned text
    rw [slice_of_prefix hfaith (by omega)]
    -- spanned text → line
    rw [slice_slice _ _ _ _ _ (by omega)]
    -- line → source
    have hbd := h0.bound
    rw [ih hc0 _ _ (by omega), e2]
    congr 1 <;> omega

theorem Src.root_of {src : Str} {fr : Frame} (h : Src src fr) (hn : fr.nested = false) :
    fr.line = (Tape.ofInput src).line ∧ fr.off = 0 ∧ fr.lim = src.length ∧ fr.cont = false := by
  cases h with
  | root => exact ⟨rfl, rfl, rfl, rfl⟩
  | sub _ _ _ _ _ _ _ _ e5 => rw [e5] at hn; cases hn

/-- a span of the input that lies in a frame with `cont = false`: the text of the input under it
    is the text of the frame's line under the span moved back -/
theorem slice_in_frame {s : Str} {J : Nat} {fr : Frame} (hs : Src (s.drop J) fr)
    (hc : fr.cont = false) {p : Span} (h1 : fr.off + J ≤ p.1) (h2 : p.2 ≤ fr.lim + J) :
    Str.slice s p.1 p.2 = Str.slice fr.line (p.1 - (fr.off + J)) (p.2 - (fr.off + J)) := by
  by_cases hp : p.2 ≤ p.1
  · rw [slice_nil_of_le _ hp, slice_nil_of_le _ (by omega)]
  rw [hs.slice_eq hc _ _ (by omega), slice_drop]
  congr 1 <;> omega

/-! ## the text under a token-built leaf -/

/-- the text `t` (a slice of `line` ending at `e`) spells `w`, up to the defect shapes:
    line continuations are removed; a residue (`residues`: D31, D32) may follow; the NEWLINE
    operator read while here-documents were pending extends over their bodies -/
def TokTextAt (line : Str) (e : Nat) (t w : Str) : Prop :=
  (∃ r ∈ residues (wordPathV w) line e,
      stripContinuations t = stripContinuations w ++ r ∧ (hasContinuation t = false → t = w ++ r)) ∨
  (w = ['\n'] ∧ t.head? = some '\n')

/-- the text `t` is `w` followed by a residue, up to deleted backslash-newline pairs (`Del`);
    this is what holds of EVERY delivered token with a string value.  `TokTextAt` follows when
    the value holds no adjacent backslash-newline (`TokDelAt.textAt`); witness that it does not
    hold in general: the word `"\\\⏎⏎"`, see `TokText.lean`. -/
def TokDelAt (line : Str) (e : Nat) (t w : Str) : Prop :=
  (∃ r ∈ residues (wordPathV w) line e, Del t (w ++ r)) ∨ (w = ['\n'] ∧ t.head? = some '\n')

theorem residues_noNL {b : Bool} {line : Str} {e : Nat} {r : Str} (h : r ∈ residues b line e) :
    r.contains '\n' = false := by
  unfold residues at h
  simp only [List.mem_append, List.mem_cons, List.mem_nil_iff, or_false] at h
  rcases h with ((rfl | h) | h) | h
  · rfl
  · split at h
    · simp only [List.mem_cons, List.mem_nil_iff, or_false] at h; subst h; decide
    · cases h
  · split at h
    · simp only [List.mem_cons, List.mem_nil_iff, or_false] at h
      rcases h with rfl | rfl <;> decide
    · cases h
  · split at h
    · simp only [List.mem_cons, List.mem_nil_iff, or_false] at h
      rcases h with rfl | rfl <;> decide
    · cases h

theorem TokDelAt.textAt {line : Str} {e : Nat} {t w : Str} (h : TokDelAt line e t w)
    (hw : hasContinuation w = false) : TokTextAt line e t w := by
  rcases h with ⟨r, hr, hd⟩ | h
  · left
    have hc : hasContinuation (w ++ r) = false := hasCont_append_of_noNL hw (residues_noNL hr)
    refine ⟨r, hr, ?_, fun ht => hd.eq_of_noCont ht⟩
    rw [hd.strip hc, strip_of_noCont w hw]
  · exact Or.inr h

theorem stripContinuations_of_no_backslash : ∀ (w : Str), w.contains '\\' = false →
    stripContinuations w = w
  | [], _ => rfl
  | [c], h => by
    have : c ≠ '\\' := by intro hc; subst hc; simp at h
    simp [stripContinuations, this]
  | c :: d :: rest, h => by
    have hc : c ≠ '\\' := by intro hc; subst hc; simp at h
    have hr : (d :: rest).contains '\\' = false := by
      simp only [List.contains_cons, Bool.or_eq_false_iff] at h ⊢
      exact h.2
    unfold stripContinuations
    split
    · rename_i heq; cases heq; exact absurd rfl hc
    · rename_i heq
      cases heq
      rw [stripContinuations_of_no_backslash _ hr]
    · rename_i heq; cases heq

theorem Reserved.notWord {t : Token} (h : Reserved t) : isWordTy t = false := by
  obtain ⟨ty, hty, hres⟩ := h
  unfold isWordTy Token.is
  rw [hty]
  cases ty <;> first | rfl | (exfalso; revert hres; decide)

/-- **the text under a leaf built from one token** -/
theorem FromTok.text {line : Str} {j : Nat} {p : Span} {w : Str} (h : FromTok line j p w) :
    j ≤ p.1 ∧ p.1 < p.2 ∧ w.contains '\\' = false ∧
      TokTextAt line (p.2 - j) (Str.slice line (p.1 - j) (p.2 - j)) w := by
  obtain ⟨tok, hT, hres, hw, rfl⟩ := h
  obtain ⟨a, e, hp, hae, _, _, _, _, hbs, halt⟩ := hT.1.str hw
  have hl : tok.lexpos = a := by simp [Token.lexpos, hp]
  have he : tok.endlexpos = e := by simp [Token.endlexpos, hp]
  have hnb : w.contains '\\' = false := by
    rcases hbs with h | h
    · rw [hres.notWord] at h; cases h
    · exact h
  simp only [hl, he, Nat.add_sub_cancel]
  refine ⟨Nat.le_add_left _ _, by omega, hnb, ?_⟩
  refine TokDelAt.textAt ?_ (hasCont_of_noBackslash w hnb)
  rcases halt with ⟨_, _, _, r, hr, hrel⟩ | hnl
  · left
    exact ⟨r, hr, Del.of_delB _ _ hrel⟩
  · right
    unfold nlOver at hnl
    simp only [Bool.and_eq_true, beq_iff_eq] at hnl
    exact ⟨hnl.1.2, hnl.2⟩

/-- **reserved-word, operator and pipe nodes** in a given frame -/
theorem leaf_text_fr {line : Str} {j : Nat} {m : Node} {p : Span} {w : Str}
    (hm : m = .reservedword p w ∨ m = .operator p w ∨ m = .pipe p w) (hl : LeafOK line j m) :
    (m = .reservedword p ['!'] ∧ p.1 = p.2) ∨
    (j ≤ p.1 ∧ p.1 < p.2 ∧ w.contains '\\' = false ∧
      TokTextAt line (p.2 - j) (Str.slice line (p.1 - j) (p.2 - j)) w) := by
  rcases hm with rfl | rfl | rfl
  · simp only [LeafOK] at hl
    rcases hl with hl | ⟨hp, rfl⟩
    · exact Or.inr hl.text
    · left; rw [hp]; exact ⟨rfl, rfl⟩
  · simp only [LeafOK] at hl
    exact Or.inr hl.text
  · simp only [LeafOK] at hl
    exact Or.inr hl.text

/-- **reserved-word, operator and pipe nodes**: what `NodeOK` says about their text -/
theorem leaf_text {src : Str} {J : Nat} {m : Node} {p : Span} {w : Str}
    (hm : m = .reservedword p w ∨ m = .operator p w ∨ m = .pipe p w) (h : NodeOK src J m) :
    (m = .reservedword p ['!'] ∧ p.1 = p.2) ∨
    ∃ fr, Src src fr ∧ fr.off + J ≤ p.1 ∧ p.1 < p.2 ∧ w.contains '\\' = false ∧
      (fr.nested = true → p.2 ≤ fr.lim + J) ∧
      TokTextAt fr.line (p.2 - (fr.off + J))
        (Str.slice fr.line (p.1 - (fr.off + J)) (p.2 - (fr.off + J))) w := by
  obtain ⟨fr, hs, hl, hb⟩ := h
  have hpos : fr.nested = true → p.2 ≤ fr.lim + J := by
    intro hn
    have := hb hn
    rcases hm with rfl | rfl | rfl <;> exact this
  rcases leaf_text_fr hm hl with h | ⟨h1, h2, h3, h4⟩
  · exact Or.inl h
  · exact Or.inr ⟨fr, hs, h1, h2, h3, hpos, h4⟩

/-! ## tokens of redirects and words -/

/-- the text under a delivered token with a string value (any type) -/
theorem Tk.del {line : Str} {tok : Token} {v : Str} (h : Tk line tok) (hv : tok.value = .str v) :
    tok.lexpos < tok.endlexpos ∧
      TokDelAt line tok.endlexpos (Str.slice line tok.lexpos tok.endlexpos) v := by
  obtain ⟨a, e, hp, hae, _, _, _, _, _, halt⟩ := h.1.str hv
  have hl : tok.lexpos = a := by simp [Token.lexpos, hp]
  have he : tok.endlexpos = e := by simp [Token.endlexpos, hp]
  rw [hl, he]
  refine ⟨hae, ?_⟩
  rcases halt with ⟨_, _, _, r, hr, hrel⟩ | hnl
  · left
    exact ⟨r, hr, Del.of_delB _ _ hrel⟩
  · right
    unfold nlOver at hnl
    simp only [Bool.and_eq_true, beq_iff_eq] at hnl
    exact ⟨hnl.1.2, hnl.2⟩

/-- the same in the `stripContinuations` form, for a value that holds no adjacent
    backslash-newline -/
theorem Tk.text {line : Str} {tok : Token} {v : Str} (h : Tk line tok) (hv : tok.value = .str v)
    (hc : hasContinuation v = false) :
    tok.lexpos < tok.endlexpos ∧
      TokTextAt line tok.endlexpos (Str.slice line tok.lexpos tok.endlexpos) v :=
  ⟨(h.del hv).1, (h.del hv).2.textAt hc⟩

/-- the text `t` is a string of digits denoting `k` (continuations removed, possibly followed by
    a residue) -/
def NumTextAt (line : Str) (e : Nat) (t : Str) (k : Nat) : Prop :=
  ∃ r ∈ residues true line e, ∃ d, stripContinuations t = d ++ r ∧ legalNumber d = true ∧
    digitsToNat d = k

/-- the text under a NUMBER token -/
theorem Tk.num {line : Str} {tok : Token} {k : Nat} (h : Tk line tok) (hv : tok.value = .int k) :
    tok.lexpos < tok.endlexpos ∧
      NumTextAt line tok.endlexpos (Str.slice line tok.lexpos tok.endlexpos) k := by
  have h1 := h.1
  unfold TT ttOK at h1
  rw [hv] at h1
  cases hp : tok.pos with
  | none => rw [hp] at h1; simp at h1
  | some p =>
    obtain ⟨a, e⟩ := p
    rw [hp] at h1
    have hl : tok.lexpos = a := by simp [Token.lexpos, hp]
    have he : tok.endlexpos = e := by simp [Token.endlexpos, hp]
    rw [hl, he]
    simp only [Bool.and_eq_true, decide_eq_true_eq, List.any_eq_true, beq_iff_eq] at h1
    obtain ⟨⟨⟨_, hae⟩, _⟩, r, hr, ⟨⟨hlen, hdrop⟩, hleg⟩, hdig⟩ := h1
    refine ⟨hae, r, hr, _, ?_, hleg, hdig⟩
    conv => lhs; rw [← List.take_append_drop ((stripContinuations (Str.slice line a e)).length - r.length)
      (stripContinuations (Str.slice line a e))]
    rw [hdrop]

/-- the output of a redirect built from the token `out`, moved by `j`: a word at the token's
    span, or a file descriptor / `-` taken from the token's value -/
def OutAt (j : Nat) (out : Token) (o : Option Node) (oa : RedirIn) : Prop :=
  match o with
  | some w => w.pos = (out.lexpos + j, out.endlexpos + j) ∧ oa = .none
  | none => oa = redirIn out.value

/-- **redirect nodes** -/
theorem redirect_prov {src : Str} {J : Nat} {p : Span} {inp : RedirIn} {ty : Str} {o : Option Node}
    {oa : RedirIn} {hd : Option Node} {hid : Option Nat}
    (h : NodeOK src J (.redirect p inp ty o oa hd hid)) :
    ∃ fr first op out, Src src fr ∧ Tk fr.line first ∧ Tk fr.line op ∧ Tk fr.line out ∧
      ty = op.valueStr ∧ ((first = op ∧ inp = .none) ∨ inp = redirIn first.value) ∧
      OutAt (fr.off + J) out o oa ∧
      (hid = none → ¬ hereTy ty →
        p = (first.lexpos + (fr.off + J), out.endlexpos + (fr.off + J))) ∧
      (fr.nested = true → hereTy ty ∨ p.2 ≤ fr.lim + J) := by
  obtain ⟨fr, hs, hl, hb⟩ := h
  simp only [LeafOK] at hl
  obtain ⟨first, op, out, h1, h2, h3, h4, h5, h6, h7⟩ := hl
  exact ⟨fr, first, op, out, hs, h1, h2, h3, h4, h5, h6, h7, hb⟩

/-- **word and assignment nodes** -/
theorem word_prov {src : Str} {J : Nat} {m : Node} {p : Span} {w : Str} {ps : List Node}
    (hm : m = .word p w ps ∨ m = .assignment p w ps) (h : NodeOK src J m) :
    ∃ fr tok, Src src fr ∧ Tk fr.line tok ∧
      p = (tok.lexpos + (fr.off + J), tok.endlexpos + (fr.off + J)) ∧
      (∃ d, C07.PartsOK (C07.RNested d) tok.valueStr (C07.qOf tok) p.1 p.2 ps) ∧
      (fr.nested = true → p.2 ≤ fr.lim + J) := by
  obtain ⟨fr, hs, hl, hb⟩ := h
  rcases hm with rfl | rfl
  · simp only [LeafOK] at hl
    obtain ⟨tok, hT, hp, hparts⟩ := hl
    exact ⟨fr, tok, hs, hT, hp, hparts, hb⟩
  · simp only [LeafOK] at hl
    obtain ⟨tok, hT, hp, hparts⟩ := hl
    exact ⟨fr, tok, hs, hT, hp, hparts, hb⟩

end Bashlex.C04
