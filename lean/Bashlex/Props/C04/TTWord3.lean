/-
  C04, token text, part 6 (layers B and C, end): one iteration of the loop of `_readtokenword`,
  the loop, the part after `# got_token`, `_readtokenword`.
-/
import Bashlex.Props.C04.TTWord2

namespace Bashlex.C04.TTP
open Bashlex Bashlex.M Bashlex.C10 Bashlex.C11 Bashlex.C03.Tok Bashlex.C04
set_option linter.unusedSimpArgs false
set_option linter.unusedVariables false

section
variable {L : Str} {a : Nat}

theorem k_rwCond {ps : List Nat} {i : Nat} (cd peek : Option Char) : KSat L ps i (rwCond cd peek) := by
  unfold rwCond; (try simp only []); w_walk

/-- a character in hand other than `<`, `>`, newline was read by the last `_getc` -/
theorem Hand.read_of {tw : Str} {i : Nat} {c : Char} (h : Hand L a tw i (some c)) (h1 : c ≠ '<')
    (h2 : c ≠ '>') (h3 : c ≠ '\n') :
    ∃ i0 rqn, a ≤ i0 ∧ Del (Str.slice L a i0) tw ∧ GetcR rqn L i0 i (some c) := by
  cases h with
  | read i0 rqn _ h0 hdel hg => exact ⟨i0, rqn, h0, hdel, hg⟩
  | procsub _ _ hcc => rcases hcc with rfl | rfl <;> contradiction
  | d31 _ _ _ _ => contradiction

/-- the text up to the cursor spells `tokenword` and the character in hand -/
theorem Hand.del_some (hnl : NL L) {tw : Str} {i : Nat} {c : Char} (h : Hand L a tw i (some c))
    (hc : c ≠ '\n') : a ≤ i ∧ i < L.length ∧ Del (Str.slice L a i) (tw ++ [c]) := by
  cases h with
  | read i0 rqn _ h0 hdel hg =>
    obtain ⟨g1, g2, g3⟩ := hg.char c rfl
    refine ⟨by omega, nl_lt hnl g2 hc (by omega), ?_⟩
    rw [← slice_cat L h0 hg.le hg.le']
    exact hdel.append hg.del
  | procsub _ htw hcc hca hai hp hpar =>
    subst htw
    have hlt : i < L.length := (List.getElem?_eq_some_iff.mp hpar).1
    refine ⟨by omega, hlt, ?_⟩
    rw [slice_cons L hca (by omega)]
    exact .keep c hp
  | d31 _ _ _ _ => exact absurd rfl hc

set_option maxHeartbeats 1000000 in
/-- **one iteration of the loop of `_readtokenword`** -/
theorem step_tt (hS : ScanHyp) (hnl : NL L) (st : RWState) {i : Nat} (hw : WInv L a st i) :
    HT (Tp L [a] i) (readtokenwordStep st) (StepQ L a) ET := by
  rw [readtokenwordStep_eq]
  have hw0 := hw
  obtain ⟨hhand, hlen, hwp, hpn⟩ := hw
  cases hc : st.c with
  | none =>
    simp only []
    rw [hc] at hhand
    cases hhand with
    | read i0 rqn _ h0 hdel hg =>
      obtain ⟨e1, e2⟩ := hg.atEnd rfl
      refine HT.pure (fun l e h => ⟨i, ⟨by have := hg.le; omega, hg.le', hlen, hwp, [],
        res_nil _ _ _, ?_⟩, h⟩)
      rw [List.append_nil, ← slice_cat L h0 hg.le hg.le']
      simpa using hdel.append e2
  | some c0 =>
    simp only []
    rw [hc] at hhand
    by_cases hp : st.passNext = true
    · -- the character after a backslash
      rw [if_pos hp]
      obtain ⟨i0, rqn, p, hpne, hcp, h0, hdel, hg, htne⟩ := hpn hp
      rw [hc] at hcp
      cases hcp
      have hi : i < L.length := lt_of_some hnl hg hpne
      have hd : Del (Str.slice L a i) (st.tokenword ++ [c0]) := by
        rw [← slice_cat L h0 hg.le hg.le']
        exact hdel.append hg.del
      have hl := hd.length_le
      rw [slice_length L (by omega), List.length_append] at hl
      simp only [List.length_cons, List.length_nil] at hl
      have := hg.le
      refine rwTail_tt (handleescapedchar { st with passNext := false } c0) (by omega) ?_ ?_
        (Or.inl ⟨hd, fun h => by cases h⟩)
      · show a + (st.tokenword ++ [c0]).length < L.length
        rw [List.length_append]; simp only [List.length_cons, List.length_nil]; omega
      · show wordPathV (st.tokenword ++ [c0]) = true
        exact wp_append hwp htne
    · rw [if_neg hp]
      have hpf : st.passNext = false := by
        cases h : st.passNext with
        | true => exact absurd h hp
        | false => rfl
      refine keep_bind k_currentDelimiter (fun cd _ => ?_)
      refine HT.ite (fun hbs => ?_) (fun hbs => ?_)
      · -- a backslash
        have hc0 : c0 = '\\' := by simpa using hbs
        subst hc0
        obtain ⟨i0, rqn, h0, hdel, hg⟩ := hhand.read_of (by decide) (by decide) (by decide)
        obtain ⟨g1, g2, g3⟩ := hg.char '\\' rfl
        have hi : i < L.length := nl_lt hnl g2 (by decide) (by omega)
        refine getc_bind (fun peek j2 hg2 => ?_)
        have hp' : L[i]? = some L[i] := List.getElem?_eq_getElem hi
        obtain ⟨e1, e2⟩ := hg2.exact hp' (Or.inr rfl)
        subst e1 e2
        refine HT.ite (fun hn => ?_) (fun hn => ?_)
        · -- a continuation (read without `remove_quoted_newline`): both characters dropped
          have hn' : L[i] = '\n' := by simpa using hn
          rw [rwBreak_true]
          refine rwTail_tt st (by omega) hlen hwp (Or.inl ⟨?_, fun h => by rw [hpf] at h; cases h⟩)
          rw [← slice_cat L h0 (by omega : i0 ≤ i + 1) (by omega)]
          have s1 : Str.slice L i0 (i + 1) = Str.slice L i0 (i - 1) ++ ['\\', '\n'] := by
            have e1 : i - 1 + 1 = i := by omega
            have t1 := slice_snoc L g2 (a := i0) (by omega)
            rw [e1] at t1
            rw [slice_snoc L hp' (by omega), t1, hn']
            simp
          rw [s1]
          simpa using hdel.append g3.snoc_pair
        · have hn' : L[i] ≠ '\n' := by simpa using hn
          refine ungetc_bind (Nat.succ_pos i) ?_
          show HT (Tp L [a] i) _ _ _
          refine keep_bind (k_rwCond cd _) (fun cond _ => ?_)
          refine HT.ite (fun _ => ?_) (fun _ => ?_)
          · -- quoted: the next character is taken as it stands
            rw [rwBreak_true]
            have hd : Del (Str.slice L a i) (st.tokenword ++ ['\\']) := by
              rw [← slice_cat L h0 hg.le hg.le']
              exact hdel.append hg.del
            have hl := hd.length_le
            rw [slice_length L (by omega), List.length_append] at hl
            simp only [List.length_cons, List.length_nil] at hl
            refine rwTail_tt (handleescapedchar { st with passNext := true, quoted := true } '\\')
              (by omega) ?_ ?_ (Or.inl ⟨hd, fun _ => ⟨by simp [handleescapedchar], L[i], hp', hn'⟩⟩)
            · show a + (st.tokenword ++ ['\\']).length < L.length
              rw [List.length_append]; simp only [List.length_cons, List.length_nil]; omega
            · show wordPathV (st.tokenword ++ ['\\']) = true
              exact wp_ext hwp (wp_nonbreak (by decide))
          · exact plain_tt hnl st '\\' hc hw0 hpf (by decide)
      · refine keep_bind (v_shellquote c0) (fun b hb => ?_)
        subst hb
        refine HT.ite (fun hq => ?_) (fun hq => ?_)
        · -- a quote
          have hcn : c0 ≠ '\n' := quote_ne_nl hq
          obtain ⟨d1, d2, d3⟩ := hhand.del_some hnl hcn
          refine HT.bind (handleshellquote_tt hS hnl st c0 hq d1 d2 d3 hpf hwp) (fun st' => ?_)
          refine HT.pre_exists (fun j => HT.pre_pure (fun hj => ?_))
          obtain ⟨j1, j2, j3, j4, res, j5, j6⟩ := hj
          rw [rwBreak_true]
          exact rwTail_of_go st' j1 j2 j3 j4 j5 j6
        · refine keep_bind (v_shellexp c0) (fun b hb => ?_)
          subst hb
          refine HT.ite (fun hx => ?_) (fun hx => ?_)
          · -- `$`, `<`, `>`
            have hcn : c0 ≠ '\n' := by rintro rfl; revert hx; decide
            obtain ⟨d1, d2, d3⟩ := hhand.del_some hnl hcn
            refine HT.bind (handleshellexp_tt hS hnl st c0 cd hx d1 d2 d3 hpf hwp) (fun x => ?_)
            obtain ⟨st', r⟩ := x
            refine HT.pre_or ?_ ?_
            · refine HT.pre_pure (fun hr => ?_)
              simp only [] at hr
              subst hr
              refine HT.pre_exists (fun j => HT.pre_pure (fun hj => ?_))
              obtain ⟨j1, j2, j3, j4, res, j5, j6⟩ := hj
              show HT _ (rwBreak st' c0 (!false)) _ _
              rw [Bool.not_false, rwBreak_true]
              exact rwTail_of_go st' j1 j2 j3 j4 j5 j6
            · refine HT.pre_pure (fun hr => ?_)
              simp only [] at hr
              subst hr
              refine HT.pre_pure (fun hst => ?_)
              simp only [] at hst
              refine HT.pre_exists (fun j1 => HT.pre_pure (fun hj => ?_))
              obtain ⟨peek, hg, hne, _⟩ := hj
              show HT _ (rwBreak st' c0 (!true)) _ _
              rw [Bool.not_true, hst]
              exact expBack_tt hnl st c0 hc hw0 hpf hx hg hne
          · exact plain_tt hnl st c0 hc hw0 hpf (by simpa using hx)

/-- the loop of `_readtokenword` -/
theorem rtwLoop_tt (hS : ScanHyp) (hnl : NL L) (fuel : Nat) (st : RWState) :
    HT (RWI L a st) (M.loop "_readtokenword" readtokenwordStep fuel st) (ExitQ L a) ET := by
  refine HT.loop (I := RWI L a) True.intro (fun s => ?_) fuel st
  refine HT.pre_exists (fun i => HT.pre_pure (fun hw => ?_))
  refine HT.post (step_tt hS hnl s hw) ?_
  intro r l e h
  cases r with
  | inl s' => exact h
  | inr s' => exact h

end

end Bashlex.C04.TTP
