/-
  C04, token text, part 8: the stateless facts about tokens read by `_readtokenword`: a type other
  than EOF; a string value goes with a type other than NUMBER; a value holding a backslash
  belongs to a WORD / ASSIGNMENT_WORD token (the words `_specialcasetokens` and the reserved-word
  table recognise hold none).  Same walk as `C12.sat_finishWord`.
-/
import Bashlex.Props.C12.Tokens
import Bashlex.Props.C04.TokText

namespace Bashlex.C04.TTP
open Bashlex Bashlex.M Bashlex.C04
set_option linter.unusedVariables false
set_option linter.unusedSimpArgs false
set_option linter.tactic.unusedName false

/-- the type of a token read by `_readtokenword` -/
def WTy (t : Token) : Prop :=
  ∃ ty, t.ttype = some ty ∧ ty ≠ .EOF ∧
    ∀ v, t.value = .str v → ty ≠ .NUMBER ∧ (isWordTy t = true ∨ v.contains '\\' = false)

theorem sat_createtoken' {ty : TokType} {v : TVal} {flags : WordFlags} :
    Sat (createtoken ty v flags) (fun t => t.ttype = some ty ∧ t.value = v) := C12.sat_createtoken

theorem wty_mk {t : Token} {ty : TokType} {v : TVal} (h : t.ttype = some ty ∧ t.value = v)
    (h1 : ty ≠ .EOF)
    (h2 : ∀ s, v = .str s → ty ≠ .NUMBER ∧ s.contains '\\' = false) : WTy t := by
  refine ⟨ty, h.1, h1, fun s hs => ?_⟩
  rw [h.2] at hs
  exact ⟨(h2 s hs).1, Or.inr (h2 s hs).2⟩

theorem sat_createtoken_wty {ty : TokType} {v : TVal} {flags : WordFlags} (h1 : ty ≠ .EOF)
    (h2 : ∀ s, v = .str s → ty ≠ .NUMBER ∧ s.contains '\\' = false) :
    Sat (createtoken ty v flags) WTy :=
  sat_createtoken'.weaken (fun _ h => wty_mk h h1 h2) (fun _ h => h)

theorem wty_wordlike {t : Token} (h : C12.WordLike t) : WTy t := by
  rcases h with h | h
  · exact ⟨.WORD, h, by decide, fun v _ => ⟨by decide, Or.inl (by simp [isWordTy, Token.is, h])⟩⟩
  · exact ⟨.ASSIGNMENT_WORD, h, by decide,
      fun v _ => ⟨by decide, Or.inl (by simp [isWordTy, Token.is, h])⟩⟩

theorem sat_specialcasetokens' (s : Str) :
    Sat (specialcasetokens s)
      (fun r => ∀ ty, r = some ty → s.contains '\\' = false ∧ C12.resOK ty = true) := by
  unfold specialcasetokens
  simp only []
  sat_walk_h
  all_goals (intro ty hty; cases hty <;> refine ⟨?_, rfl⟩ <;> simp_all)

theorem lookup_facts {s : Str} {ty : TokType}
    (h : List.lookup s reservedFirstCommandChars = some ty) :
    ty ≠ .EOF ∧ ty ≠ .NUMBER ∧ s.contains '\\' = false := by
  have hmem := C12.mem_of_lookup h
  have hall : ∀ kv, kv ∈ reservedFirstCommandChars →
      kv.2 ≠ .EOF ∧ kv.2 ≠ .NUMBER ∧ kv.1.contains '\\' = false := by decide
  exact hall _ hmem

theorem resOK_ne {ty : TokType} (h : C12.resOK ty = true) : ty ≠ .EOF ∧ ty ≠ .NUMBER := by
  constructor <;> (rintro rfl; revert h; decide)

open C12 in
theorem sat_finishWord_ty (st : RWState) : Sat (finishWord st) WTy := by
  unfold finishWord
  refine Sat.bind_any (fun _ => ?_)
  extract_lets -underBinder tokenword cIsRedir
  refine Sat.bind_any (fun l => ?_)
  refine Sat.ite (fun _ => sat_createtoken_wty (by decide) (fun s hs => by cases hs)) (fun _ => ?_)
  refine Sat.bind (sat_specialcasetokens' _) (fun r hr => ?_)
  split
  · rename_i ty
    obtain ⟨h1, h2⟩ := hr _ rfl
    exact sat_createtoken_wty (resOK_ne h2).1 (fun s hs => by cases hs; exact ⟨(resOK_ne h2).2, h1⟩)
  refine Sat.bind_any (fun l => ?_)
  extract_lets -underBinder jp1
  have key1 : ∀ r, Sat (jp1 r) WTy := by
    intro r
    show Sat (_ >>= _) _
    refine Sat.bind sat_createtoken (fun tok htok => ?_)
    have htok' : WordLike tok := Or.inl htok.1
    extract_lets -underBinder jp2 tok1
    have key2 : ∀ r t, WordLike t → Sat (jp2 r t) WTy := by
      intro r t ht
      simp -zeta only [jp2]
      extract_lets -underBinder jp3 tok2
      have key3 : ∀ r t, WordLike t → Sat (jp3 r t) WTy := by
        intro r t ht
        simp -zeta only [jp3]
        extract_lets -underBinder jp4
        have key4 : ∀ r, Sat (jp4 r) WTy := by
          intro r
          simp -zeta only [jp4]
          refine Sat.bind_any (fun l => Sat.bind_any (fun b => ?_))
          extract_lets -underBinder jp5 tok3 tok4 tok5
          have key5 : ∀ r t, WordLike t → Sat (jp5 r t) WTy := by
            intro r t ht
            simp -zeta only [jp5]
            extract_lets -underBinder jp6 tok6 jp7 tok7
            have key6 : ∀ r t, WordLike t → Sat (jp6 r t) WTy := by
              intro r t ht
              exact Sat.pure (wty_wordlike ht)
            have key7 : ∀ r t, WordLike t → Sat (jp7 r t) WTy := by
              intro r t ht
              simp -zeta only [jp7]
              extract_lets -underBinder jp8
              have key8 : ∀ r, Sat (jp8 r) WTy := fun r => Sat.pure (wty_wordlike ht)
              jp_leafs key8, ht
            refine Sat.ite (fun _ => Sat.ite (fun h => ?_) (fun _ => key6 () _ ht)) (fun _ => ?_)
            · exfalso; simp [legalIdentifier] at h
            · jp_leafs key7, ht
          jp_leafs key5, ht
        jp_leafs key4, ht
      jp_leafs key3, ht
    jp_leafs key2, htok'
  clear_value jp1
  refine Sat.ite (fun _ => ?_) (fun _ => key1 _)
  split
  · rename_i ttype hlook
    obtain ⟨q1, q2, q3⟩ := lookup_facts hlook
    extract_lets -underBinder ps jp9
    have key9 : ∀ r, Sat (jp9 r) WTy := fun r =>
      sat_createtoken_wty q1 (fun s hs => by cases hs; exact ⟨q2, q3⟩)
    jp_leafs key9, key9
  · exact key1 _

theorem sat_readtokenword_ty (c : Char) : Sat (readtokenword c) WTy := by
  unfold readtokenword
  exact Sat.bind_any (fun _ => Sat.bind_any (fun st => sat_finishWord_ty st))

theorem ofChar_ne_eof {c : Char} {t : TokType} (h : TokType.ofChar c = some t) : t ≠ .EOF := by
  unfold TokType.ofChar at h
  split at h <;> first | (cases h; decide) | cases h

theorem sat_tokentypeOfChar_ne (c : Char) : Sat (tokentypeOfChar c) (fun t => t ≠ .EOF) := by
  unfold tokentypeOfChar
  split
  · rename_i t ht
    exact Sat.pure (ofChar_ne_eof ht)
  · exact Sat.foreign trivial

macro "sat_walk_ne" : tactic => `(tactic| repeat' (first
  | refine Sat.ite (fun _ => ?_) (fun _ => ?_)
  | exact Sat.foreign trivial
  | exact Sat.raise trivial
  | refine Sat.bind (sat_tokentypeOfChar_ne _) (fun _ _ => ?_)
  | refine Sat.bind_any (fun _ => ?_)
  | refine Sat.pure ?_))

/-- `readtokenMeta` never returns the type EOF -/
theorem sat_readtokenMeta_ne (c : Char) :
    Sat (readtokenMeta c) (fun r => ∀ t, r = some t → t ≠ .EOF) := by
  unfold readtokenMeta
  simp only []
  sat_walk_ne
  all_goals (intro t ht; cases ht <;> first | decide | assumption)

/-- the spelling of a bare token type holds no backslash -/
theorem bare_noBackslash {ty : TokType} {v : Str} (h : ty.strValueChars = some v) :
    v.contains '\\' = false ∧ ty ≠ .NUMBER ∧ ty ≠ .WORD ∧ ty ≠ .ASSIGNMENT_WORD := by
  have hall : ∀ ty ∈ TokType.all, ∀ v, ty.strValueChars = some v →
      v.contains '\\' = false ∧ ty ≠ .NUMBER ∧ ty ≠ .WORD ∧ ty ≠ .ASSIGNMENT_WORD := by decide
  exact hall ty (by cases ty <;> decide) v h

end Bashlex.C04.TTP
