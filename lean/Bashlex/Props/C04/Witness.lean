/-
  C04: the known signatures are really produced by the model (kernel-evaluated runs of `parse`
  and of the executable specification), and they are recognised by `C04_known`.

  `violsOf` evaluates `Spec.textOK` (kernel evaluation is feasible for the signatures without a
  context mark: `textOKN` builds the marks with `String.splitOn`, which the kernel cannot run in
  reasonable time); `localViolsOf` evaluates `Spec.localTextViol` on every node of the pre-order
  (no context marks).  The marked signatures, as printed by `#eval` (scratch file, same model):
    `a $(b )`     [["word-not-whole+badsub@2-7", "substitution-stops-before-blanks-and-paren@2-6"]]   (D27)
    `a $(b⏎c)`    [["word-not-whole+badsub@2-8", "commandsubstitution-text+nlword+mlsub@2-6"]]        (D9)
    `$(a\⏎b)`     [["word-not-whole+cont+badsub@0-7", "commandsubstitution-text+cont@0-5"]]           (D10)
    `a<\⏎b`       [["word-not-whole+redircont@0-3"], []]                                               (D32)
-/
import Bashlex.Props.C04

namespace Bashlex.C04
open Bashlex

/-- the signature lists of the trees `parse` returns (`[]` if it does not return trees) -/
def violsOf (s : String) (o : Opts := {}) : List (List String) :=
  match (parse s.toList o).1 with
  | .parts ps => ps.map (Spec.textOK s.toList ·)
  | _ => []

/-- the local signatures (no context marks) of all nodes of all trees, in visiting order -/
def localViolsOf (s : String) (o : Opts := {}) : List String :=
  match (parse s.toList o).1 with
  | .parts ps => (ps.flatMap Node.preorder).flatMap (Spec.localTextViol s.toList)
  | _ => []

/-- D31: `a &\`: the operator covers the backslash of the continuation that ends the input -/
theorem witness_d31 : violsOf "a &\\" = [["operator-span-includes-final-backslash"]] := by
  decide +kernel

/-- D31 on a pipe's neighbour: `a;\` -/
theorem witness_d31_semi : violsOf "a;\\" = [["operator-span-includes-final-backslash"]] := by
  decide +kernel

/-- `{ a <<E⏎x⏎E⏎b; }`: the NEWLINE token read while the here-document was pending spans the body -/
theorem witness_nl_heredoc :
    violsOf "{ a <<E\nx\nE\nb; }" = [["newline-operator-extended-over-heredoc"]] := by
  decide +kernel

/-- D32: `if a; then<\⏎b; fi`: the double unget leaves `<\` in the reserved word's span -/
theorem witness_d32 : violsOf "if a; then<\\\nb; fi" = [["reservedword-text+redircont"]] := by
  decide +kernel

/-- D32 on a word: `a<\⏎b` -/
theorem witness_d32_word : violsOf "a<\\\nb" = [["word-not-whole+redircont"], []] := by
  decide +kernel

/-- D32 with a continuation inside the reserved word: the specification's excuse (raw text)
    does not match — finding -/
theorem witness_d32_cont : violsOf "if a; t\\\nhen<\\\nb; fi" = [["reservedword-text"]] := by
  decide +kernel

/-- D19: `time -p a` with `proceedonerror`: the `!` sits at (0,0) -/
theorem witness_d19 : violsOf "time -p a" { proceed := true } = [["reservedword-text"]] := by
  decide +kernel

/-- D27: `a $(b )`: the substitution stops before the blank and the parenthesis -/
theorem witness_d27 : localViolsOf "a $(b )" =
    ["word-not-whole", "substitution-stops-before-blanks-and-paren"] := by
  decide +kernel

/-- D9: `a $(b⏎c)`: only the first line of the substitution is parsed -/
theorem witness_d9 : localViolsOf "a $(b\nc)" =
    ["word-not-whole", "commandsubstitution-text"] := by
  decide +kernel

/-- D10: `$(a\⏎b)`: offsets are offsets into the token value -/
theorem witness_d10 : localViolsOf "$(a\\\nb)" =
    ["word-not-whole", "commandsubstitution-text"] := by
  decide +kernel

theorem witnesses_known :
    (["operator-span-includes-final-backslash", "reservedword-text+redircont",
      "word-not-whole+redircont", "reservedword-text", "word-not-whole+badsub",
      "substitution-stops-before-blanks-and-paren", "commandsubstitution-text+nlword+mlsub",
      "word-not-whole+cont+badsub", "commandsubstitution-text+cont",
      "newline-operator-extended-over-heredoc"].all C04_known) = true := by
  decide +kernel

theorem unknown_not_known :
    (["operator-text", "pipe-text", "word-not-whole", "word-cut-short", "redirect-text",
      "parameter-text", "commandsubstitution-text"].any C04_known) = false := by
  decide +kernel

end Bashlex.C04

#print axioms Bashlex.C04.witness_d31
#print axioms Bashlex.C04.witness_d32_cont
#print axioms Bashlex.C04.witness_d19
#print axioms Bashlex.C04.witness_d27
