/-
  C04, word boundaries, part 0: definitions (all decidable; the same definitions are evaluated on
  the model in `WBValidate.lean`), generic rules of the Hoare logic, and the pure specification of
  what one `_getc()` (with `remove_quoted_newline`) delivers: `peekC L i`, the first character
  after the backslash-newline pairs at `i`.

    brkAt L i       the character at `i` is a shell break character
    procSubAtB L i  `<` / `>` at `i`, then (after line continuations) `(`
    bndB L i        the cursor `i` is at a token boundary
    startsB L a     a word may start at `a`
    exitB L k       how the loop of `_readtokenword` is left at `k`
    endsB L k       a word may end at `k` (weaker than `exitB`)
-/
import Bashlex.Props.C04.TTRead

namespace Bashlex.C04
open Bashlex Bashlex.Spec

def brkAt (L : Str) (i : Nat) : Bool := match L[i]? with | some c => isBreakChar c | none => false

/-- drop leading backslash-newline pairs -/
def skipPairs : Str → Str
  | '\\' :: '\n' :: r => skipPairs r
  | r => r

/-- what `_getc(remove_quoted_newline=True)` delivers from cursor `i` (when it does not raise) -/
def peekC (L : Str) (i : Nat) : Option Char := (skipPairs (L.drop i)).head?

/-- `<` / `>` at `i`, then (after continuations) `(` -/
def procSubAtB (L : Str) (i : Nat) : Bool :=
  (L[i]? == some '<' || L[i]? == some '>') && peekC L (i + 1) == some '('

/-- the cursor is at a token boundary: the start, the end, after a break character, after a `-`
    (DASH, `<<-`), on a break character that does not open a process substitution, or before the
    final continuation (D31 + D32) -/
def bndB (L : Str) (i : Nat) : Bool :=
  i == 0 || decide (L.length ≤ i) || brkAt L (i - 1) || L[i - 1]? == some '-' ||
  (brkAt L i && !procSubAtB L i) || L.drop i == ['\\', '\n']

/-- a word may start at `a`: the character before it is a break character, or a `-` -/
def startsB (L : Str) (a : Nat) : Bool := a == 0 || brkAt L (a - 1) || L[a - 1]? == some '-'

/-- how the loop of `_readtokenword` is left: at the end, on a break character that does not open
    a process substitution, or before the final continuation (D31 + D32) -/
def exitB (L : Str) (k : Nat) : Bool :=
  decide (L.length ≤ k) || (brkAt L k && !procSubAtB L k) || L.drop k == ['\\', '\n']

/-- a word may end at `k` -/
def endsB (L : Str) (k : Nat) : Bool :=
  decide (L.length ≤ k) || brkAt L k || L.drop k == ['\\', '\n']

theorem endsB_of_exitB {L : Str} {k : Nat} (h : exitB L k = true) : endsB L k = true := by
  unfold exitB at h
  unfold endsB
  simp only [Bool.or_eq_true, Bool.and_eq_true] at h ⊢
  rcases h with (h | h) | h
  · exact Or.inl (Or.inl h)
  · exact Or.inl (Or.inr h.1)
  · exact Or.inr h

theorem bndB_of_exitB {L : Str} {k : Nat} (h : exitB L k = true) : bndB L k = true := by
  unfold exitB at h
  unfold bndB
  simp only [Bool.or_eq_true, Bool.and_eq_true] at h ⊢
  rcases h with (h | h) | h
  · exact Or.inl (Or.inl (Or.inl (Or.inl (Or.inr h))))
  · exact Or.inl (Or.inr h)
  · exact Or.inr h

theorem bndB_zero (L : Str) : bndB L 0 = true := by unfold bndB; simp

theorem bndB_of_len {L : Str} {i : Nat} (h : L.length ≤ i) : bndB L i = true := by
  unfold bndB; simp [h]

theorem brkAt_of {L : Str} {i : Nat} {c : Char} (h : L[i]? = some c) (hc : (synClass c).brk = true) :
    brkAt L i = true := by
  unfold brkAt; rw [h]; exact hc

theorem bndB_of_prev {L : Str} {i : Nat} {c : Char} (hi : 0 < i) (h : L[i - 1]? = some c)
    (hc : (synClass c).brk = true ∨ c = '-') : bndB L i = true := by
  unfold bndB
  simp only [Bool.or_eq_true]
  rcases hc with hc | rfl
  · exact Or.inl (Or.inl (Or.inl (Or.inr (brkAt_of h hc))))
  · exact Or.inl (Or.inl (Or.inr (by rw [h]; rfl)))

/-! ## `skipPairs` -/

theorem skipPairs_pair (r : Str) : skipPairs ('\\' :: '\n' :: r) = skipPairs r := by
  simp [skipPairs]

theorem skipPairs_nil : skipPairs [] = [] := by simp [skipPairs]

theorem skipPairs_cons {c : Char} {r : Str} (h : ¬ (c = '\\' ∧ r.head? = some '\n')) :
    skipPairs (c :: r) = c :: r := by
  cases r with
  | nil => simp [skipPairs]
  | cons d r' =>
    unfold skipPairs
    split
    · rename_i heq
      cases heq
      exact absurd ⟨rfl, rfl⟩ h
    · rfl

theorem skipPairs_of_del : ∀ {s : Str}, Del s [] → ∀ (r : Str), skipPairs (s ++ r) = skipPairs r
  | _, .nil, r => rfl
  | _, .skip h, r => by
    rw [List.cons_append, List.cons_append, skipPairs_pair]
    exact skipPairs_of_del h r

end Bashlex.C04

namespace Bashlex.C04.WB
open Bashlex Bashlex.M Bashlex.C10 Bashlex.C11 Bashlex.C03.Tok Bashlex.C04 Bashlex.C04.TTP
set_option linter.unusedSimpArgs false
set_option linter.unusedVariables false

/-! ## generic rules -/

/-- every program satisfies the trivial post-condition -/
theorem HT.triv {α : Type} {P : Local → Env → Prop} {m : M α} :
    HT P m (fun _ _ _ => True) ET := by
  intro l e _
  rcases m.run l e with ⟨r, e'⟩
  cases r with
  | ok v => exact True.intro
  | error x => exact True.intro

/-- two triples about the same program -/
theorem HT.and {α : Type} {P P' : Local → Env → Prop} {m : M α} {Q Q' : α → Local → Env → Prop}
    (h1 : HT P m Q ET) (h2 : HT P' m Q' ET) :
    HT (fun l e => P l e ∧ P' l e) m (fun a l e => Q a l e ∧ Q' a l e) ET := by
  intro l e hp
  have a1 := h1 l e hp.1
  have a2 := h2 l e hp.2
  rcases hr : m.run l e with ⟨r, e'⟩
  rw [hr] at a1 a2
  cases r with
  | ok v => exact ⟨a1, a2⟩
  | error x => exact True.intro

/-- a pure fact of the pre-condition; the state is forgotten -/
theorem HT.forget {α : Type} {φ : Prop} {P : Local → Env → Prop} {m : M α}
    {Q : α → Local → Env → Prop} (h : φ → HT (fun _ _ => True) m Q ET) :
    HT (fun l e => φ ∧ P l e) m Q ET := by
  intro l e hp
  exact h hp.1 l e True.intro

/-- skip a computation whose result and effect do not matter -/
theorem HT.skip {α β : Type} {P : Local → Env → Prop} {m : M α} {f : α → M β}
    {Q : β → Local → Env → Prop} (hf : ∀ a, HT (fun _ _ => True) (f a) Q ET) :
    HT P (m >>= f) Q ET :=
  HT.bind (HT.triv (P := P)) hf

/-! ## `_getc` is a function of the line and the cursor -/

theorem tape_getc_skip : ∀ (fuel : Nat) (t : Tape) (c : Option Char) (t' : Tape),
    t.getc true fuel = .ok (c, t') → t.line.length - t.idx < fuel → c = peekC t.line t.idx := by
  intro fuel
  induction fuel with
  | zero => intro t c t' _ hf; exact absurd hf (Nat.not_lt_zero _)
  | succ fuel ih =>
    intro t c t' h hf
    unfold Tape.getc at h
    split at h
    · rename_i hlt
      split at h
      · rename_i hn
        have := List.getElem?_eq_none_iff.mp hn
        omega
      · rename_i c0 hc
        simp only [] at h
        have hdrop : t.line.drop t.idx = c0 :: t.line.drop (t.idx + 1) := by
          rw [List.drop_eq_getElem_cons hlt]
          congr 1
          exact (List.getElem?_eq_some_iff.mp hc).2
        split at h
        · rename_i hbs
          have hc0 : c0 = '\\' := by
            simp only [Bool.and_eq_true, beq_iff_eq] at hbs; exact hbs.1
          subst hc0
          split at h
          · cases h
          · rename_i d hd
            have hd' : t.idx + 1 < t.line.length := (List.getElem?_eq_some_iff.mp hd).1
            have hdrop2 : t.line.drop (t.idx + 1) = d :: t.line.drop (t.idx + 2) := by
              rw [List.drop_eq_getElem_cons hd']
              congr 1
              exact (List.getElem?_eq_some_iff.mp hd).2
            split at h
            · rename_i hdn
              have hdn' : d = '\n' := by simpa using hdn
              subst hdn'
              have := ih _ _ _ h (by simp only []; omega)
              simp only [] at this
              rw [this]
              unfold peekC
              rw [hdrop, hdrop2, skipPairs_pair]
            · rename_i hdn
              cases h
              unfold peekC
              rw [hdrop, hdrop2, skipPairs_cons]
              · rfl
              · rintro ⟨_, hh⟩
                simp only [List.head?_cons, Option.some.injEq] at hh
                apply hdn; simp [hh]
        · rename_i hbs
          cases h
          unfold peekC
          rw [hdrop, skipPairs_cons]
          · rfl
          · rintro ⟨rfl, _⟩
            apply hbs; simp
    · rename_i hge
      cases h
      unfold peekC
      rw [List.drop_eq_nil_of_le (by omega), skipPairs_nil]
      rfl

section
variable {L : Str} {ps : List Nat} {i : Nat}

/-- **`_getc()`** from an exact cursor: the character delivered is `peekC L i` -/
theorem getc_peek :
    HT (Tp L ps i) (getc true)
      (fun c l e => c = peekC L i ∧ ∃ j, GetcR true L i j c ∧ Tp L ps j l e) ET := by
  intro l e h
  have h0 := h
  obtain ⟨a1, a2, a3, a4, a5⟩ := h
  rw [run_getc true l e a4]
  cases hgc : (tapeOf l e).getc true ((tapeOf l e).line.length + 1) with
  | error u => cases u; exact True.intro
  | ok v =>
    obtain ⟨c, t'⟩ := v
    obtain ⟨b1, b2⟩ := tape_getc_R true _ _ _ _ hgc (by rw [a1, a2]; exact a3) (by omega)
    have b3 := tape_getc_skip _ _ _ _ hgc (by omega)
    rw [a1, a2] at b2 b3
    exact ⟨b3, t'.idx, b2, h0.put (b1.trans a1) rfl b2.le'⟩

theorem getc_peek_bind {β : Type} {f : Option Char → M β} {Q : β → Local → Env → Prop}
    (h : ∀ c j, c = peekC L i → GetcR true L i j c → HT (Tp L ps j) (f c) Q ET) :
    HT (Tp L ps i) (getc true >>= f) Q ET :=
  HT.bind getc_peek (fun c => HT.pre_pure (fun hc =>
    HT.pre_exists (fun j => HT.pre_pure (fun hg => h c j hc hg))))

/-- a run of pairs from `i`, then the character `c` at `j`: that is what `_getc` delivers -/
theorem peekC_of_del {j : Nat} {c : Char} (hij : i ≤ j) (hd : Del (Str.slice L i j) [])
    (hc : L[j]? = some c) (hnp : ¬ (c = '\\' ∧ L[j + 1]? = some '\n')) : peekC L i = some c := by
  have hlt : j < L.length := (List.getElem?_eq_some_iff.mp hc).1
  unfold peekC
  have e1 : L.drop i = Str.slice L i j ++ L.drop j := by
    rw [← slice_full_drop L i, ← slice_full_drop L j]
    exact (slice_cat L hij (by omega) (Nat.le_refl _)).symm
  have e2 : L.drop j = c :: L.drop (j + 1) := by
    rw [List.drop_eq_getElem_cons hlt]
    congr 1
    exact (List.getElem?_eq_some_iff.mp hc).2
  rw [e1, skipPairs_of_del hd, e2, skipPairs_cons]
  · rfl
  · rintro ⟨h1, h2⟩
    apply hnp
    refine ⟨h1, ?_⟩
    rw [← h2, List.head?_drop]

end

end Bashlex.C04.WB
