/-
  C04, token text, part 3 (layer A): the operators.  `readtokenMeta` from the state right after the
  metacharacter `ch` was read at `a`: the type returned spells the text consumed, up to a D31
  residue (the look-ahead ran into the end of the line through a continuation and was put back
  with `_ungetc(None)`); `None` (a process substitution follows) leaves the cursor on the `(`.
-/
import Bashlex.Props.C04.TTRes

namespace Bashlex.C04.TTP
open Bashlex Bashlex.M Bashlex.C10 Bashlex.C11 Bashlex.C03.Tok Bashlex.C04
set_option linter.unusedSimpArgs false
set_option linter.unusedVariables false

/-- one step of a walk through code that keeps the cursor, towards an arbitrary post-condition;
    pieces proved beforehand are picked up by `assumption` -/
macro "t_step" : tactic => `(tactic| first
  | assumption
  | ((with_reducible refine HTQAt.ofHT ?_); assumption)
  | jp_step
  | with_reducible refine HT.ite (fun _ => ?_) (fun _ => ?_)
  | with_reducible refine HTQAt.ite (fun _ => ?_) (fun _ => ?_)
  | with_reducible refine HTQAt.ite_bind (fun _ => ?_) (fun _ => ?_)
  | with_reducible use_hyp
  | with_reducible refine HT.get_bind (fun _ => ?_)
  | ((with_reducible refine QW.modify ?_ ?_); focus (intro _ _ h; exact h))
  | ((with_reducible refine HTQAt.set_bind ?_ ?_); focus (intro _ h; exact h))
  | with_reducible exact HTQAt.foreign_bind True.intro
  | with_reducible exact HTQAt.foreign True.intro
  | with_reducible refine HTQAt.pure_bind ?_
  | split_head
  | with_reducible refine HTQAt.ofHT ?_
  | with_reducible exact HT.foreign True.intro
  | with_reducible exact HT.raise True.intro
  | ((with_reducible refine QW.bindSame ?_ (fun _ => ?_)); focus (with_reducible w_atom; done)))

macro "t_walk" : tactic => `(tactic| repeat' t_step)

theorem ofChar_str {c : Char} {t : TokType} (h : TokType.ofChar c = some t) :
    t.strValueChars = some [c] := by
  unfold TokType.ofChar at h
  split at h <;> first | (cases h; rfl) | cases h

theorem v_tokentypeOfChar {I : Local → Env → Prop} (c : Char) :
    SatW I I (tokentypeOfChar c) (fun t => TokType.ofChar c = some t) := by
  unfold tokentypeOfChar
  split
  · rename_i t ht; exact SatW.pure (fun _ _ h => h) ht
  · exact SatW.foreign

/-- what `readtokenMeta` returns (see the header) -/
def MetaQ (L : Str) (a : Nat) (ch : Char) (r : Option TokType) (l : Local) (e : Env) : Prop :=
  ∃ j, Tp L [a] j l e ∧
    match r with
    | some ty => ∃ v, ty.strValueChars = some v ∧ a + v.length < L.length ∧
        ∃ r ∈ residues false L j, Del (Str.slice L a j) (v ++ r)
    | none => (ch = '<' ∨ ch = '>') ∧ a + 1 ≤ j ∧ Del (Str.slice L (a + 1) j) [] ∧
        L[j]? = some '('

section
variable {L : Str} {a : Nat} {ch : Char}

theorem metaQ_leaf {ty : TokType} {v r : Str} {j : Nat} (hv : ty.strValueChars = some v)
    (hlen : a + v.length < L.length) (hr : r ∈ residues false L j)
    (hd : Del (Str.slice L a j) (v ++ r)) :
    HT (Tp L [a] j) (pure (some ty) : M (Option TokType)) (MetaQ L a ch) ET :=
  HT.pure (fun l e h => ⟨j, h, v, hv, hlen, r, hr, hd⟩)

/-- an operator that ends at the cursor, its last character not being a newline -/
theorem metaQ_exact (hnl : NL L) {ty : TokType} {v : Str} {j : Nat} (hv : ty.strValueChars = some v)
    (hd : Del (Str.slice L a j) v) (hj : j < L.length) (haj : a ≤ j) :
    HT (Tp L [a] j) (pure (some ty) : M (Option TokType)) (MetaQ L a ch) ET := by
  refine metaQ_leaf hv ?_ (res_nil _ _ _) (by simpa using hd)
  have := hd.length_le
  rw [slice_length L (by omega)] at this
  omega

/-- an operator, then `_getc` … `_ungetc` -/
theorem metaQ_back {rqn : Bool} {ty : TokType} {v : Str} {i j : Nat} {x : Option Char}
    (hv : ty.strValueChars = some v) (hd : Del (Str.slice L a i) v) (hai : a ≤ i)
    (hg : GetcR rqn L i j x) (hi : i < L.length) :
    HT (Tp L [a] j) (do ungetc x; pure (some ty) : M (Option TokType)) (MetaQ L a ch) ET := by
  obtain ⟨h1, h2, r, hr, hd', hl⟩ := del_back1 hd hai hg hi
  refine ungetc_bind h1 ?_
  exact metaQ_leaf hv (by omega) hr hd'

theorem del2 {p : Char} {j1 : Nat} (hch : L[a]? = some ch) (hg : GetcR true L (a + 1) j1 (some p)) :
    Del (Str.slice L a j1) [ch, p] := by
  have := hg.le
  rw [← slice_cat L (Nat.le_succ a) hg.le hg.le', slice_one L hch]
  exact (Del.keep ch .nil).append hg.del

theorem del3 {p q : Char} {j1 j2 : Nat} (hch : L[a]? = some ch)
    (hg : GetcR true L (a + 1) j1 (some p)) (hg2 : GetcR true L j1 j2 (some q)) :
    Del (Str.slice L a j2) [ch, p, q] := by
  have := hg.le
  have := hg2.le
  rw [← slice_cat L (by omega : a ≤ j1) hg2.le hg2.le']
  exact (del2 hch hg).append hg2.del

theorem lt_of_some (hnl : NL L) {rqn : Bool} {i j : Nat} {p : Char} (hg : GetcR rqn L i j (some p))
    (hp : p ≠ '\n') : j < L.length := by
  obtain ⟨h1, h2, _⟩ := hg.char p rfl
  exact nl_lt hnl h2 hp (by omega)

set_option maxHeartbeats 1000000 in
/-- **`readtokenMeta`** -/
theorem readtokenMeta_tt (hnl : NL L) (hch : L[a]? = some ch) (hne : ch ≠ '\n') :
    HT (Tp L [a] (a + 1)) (readtokenMeta ch) (MetaQ L a ch) ET := by
  have ha2 : a + 2 ≤ L.length := hnl _ _ hch hne
  have d1 : Del (Str.slice L a (a + 1)) [ch] := by rw [slice_one L hch]; exact Del.refl _
  unfold readtokenMeta
  refine keep_bind (SatW.modifyT (fun _ _ h => h)) (fun _ _ => ?_)
  refine getc_bind (fun peek j1 hg => ?_)
  jp_step
  · -- the tail: `_ungetc(peek)`, parser-state flags, the one-character operator
    rename_i u
    obtain ⟨h1, h2, r, hr, hd', hl⟩ := del_back1 d1 (Nat.le_succ a) hg (by omega)
    refine ungetc_bind h1 ?_
    have hfin : HT (Tp L [a] (j1 - 1))
        (if (!(ch == '<' || ch == '>') || peek != some '(') = true then do
            let t ← tokentypeOfChar ch
            pure (some t)
          else pure none : M (Option TokType)) (MetaQ L a ch) ET := by
      refine HT.ite (fun hc => ?_) (fun hc => ?_)
      · refine keep_bind (v_tokentypeOfChar ch) (fun t ht => ?_)
        exact metaQ_leaf (ofChar_str ht) (by simp only [List.length_cons, List.length_nil]; omega)
          hr hd'
      · have hpk : peek = some '(' := by
          apply Classical.byContradiction
          intro hp
          apply hc
          simp [hp]
        have hcc : ch = '<' ∨ ch = '>' := by
          apply Classical.byContradiction
          intro hcc
          apply hc
          simp only [not_or] at hcc
          simp [hcc.1, hcc.2]
        subst hpk
        obtain ⟨b1, b2, b3⟩ := hg.char '(' rfl
        exact HT.pure (fun l e h => ⟨j1 - 1, h, hcc, by omega, b3, b2⟩)
    t_walk
  · rename_i jp hjp
    have hjp' : HT (Tp L [a] j1) (jp ()) (MetaQ L a ch) ET := hjp ()
    refine HT.ite (fun hpk => ?_) (fun hpk => ?_)
    · -- a doubled character
      have hpk' : peek = some ch := by simpa using hpk
      subst hpk'
      have hj1 : j1 < L.length := lt_of_some hnl hg hne
      have haj : a + 1 ≤ j1 := hg.le
      refine HT.ite (fun h1 => ?_) (fun h1 => ?_)
      · have : ch = '<' := by simpa using h1
        subst this
        refine getc_bind (fun p j2 hg2 => ?_)
        have := hg2.le
        refine HT.ite (fun h2 => ?_) (fun h2 => ?_)
        · have : p = some '-' := by simpa using h2
          subst this
          exact metaQ_exact hnl rfl (del3 hch hg hg2) (lt_of_some hnl hg2 (by decide)) (by omega)
        refine HT.ite (fun h3 => ?_) (fun h3 => ?_)
        · have : p = some '<' := by simpa using h3
          subst this
          exact metaQ_exact hnl rfl (del3 hch hg hg2) (lt_of_some hnl hg2 (by decide)) (by omega)
        · exact metaQ_back rfl (del2 hch hg) (by omega) hg2 hj1
      refine HT.ite (fun h2 => ?_) (fun h2 => ?_)
      · have : ch = '>' := by simpa using h2
        subst this
        exact metaQ_exact hnl rfl (del2 hch hg) hj1 (by omega)
      refine HT.ite (fun h3 => ?_) (fun h3 => ?_)
      · have : ch = ';' := by simpa using h3
        subst this
        refine QW.modify (fun _ _ h => h) ?_
        refine getc_bind (fun p j2 hg2 => ?_)
        have := hg2.le
        refine HT.ite (fun h4 => ?_) (fun h4 => ?_)
        · have : p = some '&' := by simpa using h4
          subst this
          exact metaQ_exact hnl rfl (del3 hch hg hg2) (lt_of_some hnl hg2 (by decide)) (by omega)
        · exact metaQ_back rfl (del2 hch hg) (by omega) hg2 hj1
      refine HT.ite (fun h4 => ?_) (fun h4 => ?_)
      · have : ch = '&' := by simpa using h4
        subst this
        exact metaQ_exact hnl rfl (del2 hch hg) hj1 (by omega)
      refine HT.ite (fun h5 => ?_) (fun h5 => hjp')
      · have : ch = '|' := by simpa using h5
        subst this
        exact metaQ_exact hnl rfl (del2 hch hg) hj1 (by omega)
    · -- two different characters
      have two : ∀ (c p : Char) (ty : TokType), (ch == c && peek == some p) = true →
          ty.strValueChars = some [c, p] → p ≠ '\n' →
          HT (Tp L [a] j1) (pure (some ty) : M (Option TokType)) (MetaQ L a ch) ET := by
        intro c p ty hc hty hp
        simp only [Bool.and_eq_true, beq_iff_eq] at hc
        obtain ⟨rfl, rfl⟩ := hc
        have := hg.le
        exact metaQ_exact hnl hty (del2 hch hg) (lt_of_some hnl hg hp) (by omega)
      refine HT.ite (fun h1 => two _ _ _ h1 rfl (by decide)) (fun _ => ?_)
      refine HT.ite (fun h1 => two _ _ _ h1 rfl (by decide)) (fun _ => ?_)
      refine HT.ite (fun h1 => two _ _ _ h1 rfl (by decide)) (fun _ => ?_)
      refine HT.ite (fun h1 => two _ _ _ h1 rfl (by decide)) (fun _ => ?_)
      refine HT.ite (fun h1 => ?_) (fun _ => ?_)
      · simp only [Bool.and_eq_true, beq_iff_eq] at h1
        obtain ⟨rfl, rfl⟩ := h1
        have hj1 : j1 < L.length := lt_of_some hnl hg (by decide)
        have haj : a + 1 ≤ j1 := hg.le
        refine getc_bind (fun p j2 hg2 => ?_)
        have := hg2.le
        refine HT.ite (fun h4 => ?_) (fun h4 => ?_)
        · have : p = some '>' := by simpa using h4
          subst this
          exact metaQ_exact hnl rfl (del3 hch hg hg2) (lt_of_some hnl hg2 (by decide)) (by omega)
        · exact metaQ_back rfl (del2 hch hg) (by omega) hg2 hj1
      refine HT.ite (fun h1 => two _ _ _ h1 rfl (by decide)) (fun _ => ?_)
      refine HT.ite (fun h1 => two _ _ _ h1 rfl (by decide)) (fun _ => hjp')

end

end Bashlex.C04.TTP
