/-
  C04, token text, part 15 (layer D, end): the loops of `_parse_matched_pair` and `_parse_comsub`,
  induction on the depth fuel: **`scanHyp : ScanHyp`**.

  Invariant of both loops at cursor `k` (`SInv`): the text `L[i:k]` spells `ret` (`Sp`, up to the
  D31 residue), and the cursor is inside the line when `count` is `0`; or the state is doomed
  (`Dm`: the cursor is on the last character or behind it) and `count` is not `0` — from then on
  every `_getc` delivers the final newline or `None`, `count` stays, and the scanner raises.
-/
import Bashlex.Props.C04.TTScanCS2

namespace Bashlex.C04.TTP
open Bashlex Bashlex.M Bashlex.C10 Bashlex.C11 Bashlex.C03.Tok Bashlex.C04
set_option linter.unusedSimpArgs false
set_option linter.unusedVariables false

def SInv (L : Str) (i k : Nat) (ret : Str) (cnt : Nat) : Prop :=
  i ≤ k ∧ ((Sp L i k ret ∧ (cnt = 0 → k < L.length)) ∨ (Dm L k ∧ cnt ≠ 0))

section
variable {L : Str} {ps : List Nat}

theorem scanQ_of {i k : Nat} {r : Str} (h1 : i ≤ k) (h2 : k < L.length) (h3 : Sp L i k r)
    {l : Local} {e : Env} (h : Tp L ps k l e) : ScanQ L ps i r l e :=
  ⟨k, ⟨h1, h2, h3⟩, h⟩

/-- the state after the second half of an iteration -/
theorem sinv_post {i k k'' : Nat} {c : Char} {ret0 ret1 : Str} {cnt0 cnt1 : Nat} (hik : i ≤ k)
    (hA : Sp L i k ret0 ∨ (Dm L k ∧ c = '\n')) (hcnt : cnt0 ≠ 0)
    (hpost : PostR L k c ret0 cnt0 ret1 cnt1 k'') : SInv L i k'' ret1 cnt1 := by
  obtain ⟨hk, hcase⟩ := hpost
  refine ⟨by omega, ?_⟩
  rcases hcase with ⟨r1, r2, r3⟩ | ⟨hc, hlt, x, r1, r2⟩
  · rw [r1, r2, r3]
    rcases hA with h | h
    · exact Or.inl ⟨h, fun h0 => absurd h0 hcnt⟩
    · exact Or.inr ⟨h.1, hcnt⟩
  · rw [r1]
    rcases hA with h | h
    · exact Or.inl ⟨sp_scan h hik hk hlt r2, fun _ => hlt⟩
    · exact absurd h.2 hc

set_option maxHeartbeats 1000000 in
/-- **`_parse_matched_pair`**, one more level of depth -/
theorem pmp_succ_tt (hnl : NL L) {fuel : Nat}
    (ih : ScanIH L ps (parseMatchedPair fuel) (parseComsub fuel)) (P : MPParams) (hP : MPGood P)
    {i : Nat} (hiL : i < L.length) :
    HT (Tp L ps i) (parseMatchedPair (fuel + 1) P) (ScanQ L ps i) ET := by
  unfold parseMatchedPair
  refine keep_bind (k_mpInit P) (fun x _ => ?_)
  obtain ⟨lfc, rdq⟩ := x
  simp only []
  refine keep_bind w_loopFuel (fun lf _ => ?_)
  refine HT.pre (HT.loop (E := ET)
    (I := fun st l e => ∃ k, SInv L i k st.ret st.count ∧ Tp L ps k l e) True.intro
    (fun st => ?_) lf _) ?_
  · -- one iteration
    refine HT.pre_exists (fun k => HT.pre_pure (fun hinv => ?_))
    obtain ⟨hik, hcase⟩ := hinv
    refine HT.ite (fun hz => ?_) (fun hz => ?_)
    · have hz' : st.count = 0 := by simpa using hz
      rcases hcase with ⟨hsp, hlt⟩ | ⟨_, hne⟩
      · exact HT.pure (fun l e h => scanQ_of hik (hlt hz') hsp h)
      · exact absurd hz' hne
    · have hcnt : st.count ≠ 0 := by simpa using hz
      refine HT.bind (mpPre_tt P lfc st) (fun r => ?_)
      refine HT.pre_exists (fun k' => HT.pre_pure (fun hr => ?_))
      obtain ⟨rqn, c, hg, hR⟩ := hr
      have hkk := hg.le
      have hA : Sp L i k' (st.ret ++ [c]) ∨ (Dm L k' ∧ c = '\n') := by
        rcases hcase with ⟨hsp, _⟩ | ⟨hdm, _⟩
        · exact sp_getc hsp hik hg
        · exact Or.inr (dm_getc hnl hdm hg)
      cases r with
      | cont s =>
        simp only []
        obtain ⟨e1, e2⟩ := hR
        refine HT.pure (fun l e h => ⟨k', ⟨by omega, ?_⟩, h⟩)
        rw [e1]
        rcases hA with h | h
        · exact Or.inl ⟨h, fun h0 => absurd h0 (e2 hcnt)⟩
        · exact Or.inr ⟨h.1, e2 hcnt⟩
      | done ret =>
        simp only []
        obtain ⟨e1, e2⟩ := hR
        have hc : c ≠ '\n' := by rw [e2 hcnt]; exact hP.1
        refine HT.pure (fun l e h => scanQ_of (by omega) (lt_of_some hnl hg hc) ?_ h)
        rw [e1]
        rcases hA with h | h
        · exact h
        · exact absurd h.2 hc
      | next s c' =>
        simp only []
        obtain ⟨rfl, e1, e2⟩ := hR
        refine HT.bind (mpPost_tt ih P rdq s c' (fun hc => lt_of_some hnl hg hc)) (fun s' => ?_)
        refine HT.pre_exists (fun k'' => HT.pre_pure (fun hpost => ?_))
        refine HT.pure (fun l e h => ⟨k'', ?_, h⟩)
        exact sinv_post (by omega) (by rw [e1]; exact hA) (e2 hcnt) hpost
  · intro l e h
    exact ⟨i, ⟨Nat.le_refl _, Or.inl ⟨sp_nil i, fun h0 => by cases h0⟩⟩, h⟩

set_option maxHeartbeats 1000000 in
/-- **`_parse_comsub`**, one more level of depth -/
theorem pcs_succ_tt (hnl : NL L) {fuel : Nat}
    (ih : ScanIH L ps (parseMatchedPair fuel) (parseComsub fuel)) (P : CSParams) (hP : CSGood P)
    {i : Nat} (hiL : i < L.length) :
    HT (Tp L ps i) (parseComsub (fuel + 1) P) (ScanQ L ps i) ET := by
  unfold parseComsub
  -- the look-ahead for `((`
  refine getc_bind (fun peek j hg => ?_)
  have hp' : L[i]? = some L[i] := List.getElem?_eq_getElem hiL
  obtain ⟨e1, e2⟩ := hg.exact hp' (Or.inr rfl)
  subst e1 e2
  refine ungetc_bind (Nat.succ_pos i) ?_
  show HT (Tp L ps i) _ _ _
  refine HT.ite (fun _ => ?_) (fun _ => ?_)
  · exact ih.pmp i _ hiL (mpgood (c := P.close) (o := P.opn) rfl rfl hP.1 hP.2)
  simp only []
  refine keep_bind w_loopFuel (fun lf _ => ?_)
  refine HT.pre (HT.loop (E := ET)
    (I := fun st l e => ∃ k, SInv L i k st.ret st.count ∧ Tp L ps k l e) True.intro
    (fun st => ?_) lf _) ?_
  · -- one iteration
    refine HT.pre_exists (fun k => HT.pre_pure (fun hinv => ?_))
    obtain ⟨hik, hcase⟩ := hinv
    refine HT.ite (fun hz => ?_) (fun hz => ?_)
    · have hz' : st.count = 0 := by simpa using hz
      rcases hcase with ⟨hsp, hlt⟩ | ⟨_, hne⟩
      · exact HT.pure (fun l e h => scanQ_of hik (hlt hz') hsp h)
      · exact absurd hz' hne
    · have hcnt : st.count ≠ 0 := by simpa using hz
      have hM : Mid L i k st.ret := by
        rcases hcase with ⟨hsp, _⟩ | ⟨hdm, _⟩
        · exact Or.inl hsp
        · exact Or.inr hdm
      refine HT.bind (csPre_tt hnl P hP _ st hM hcnt hik hiL) (fun r => ?_)
      refine HT.pre_exists (fun k' => HT.pre_pure (fun hr => ?_))
      obtain ⟨hk', hR⟩ := hr
      cases r with
      | cont s =>
        simp only []
        obtain ⟨e1, e2⟩ := hR
        refine HT.pure (fun l e h => ⟨k', ⟨hk', ?_⟩, h⟩)
        rcases e1 with h | h
        · exact Or.inl ⟨h, fun h0 => absurd h0 e2⟩
        · exact Or.inr ⟨h, e2⟩
      | done ret =>
        simp only []
        exact HT.pure (fun l e h => scanQ_of hk' hR.2 hR.1 h)
      | next s c =>
        simp only []
        obtain ⟨e1, e2, e3⟩ := hR
        refine HT.bind (csPost_tt ih P s c e3) (fun s' => ?_)
        refine HT.pre_exists (fun k'' => HT.pre_pure (fun hpost => ?_))
        refine HT.pure (fun l e h => ⟨k'', ?_, h⟩)
        exact sinv_post hk' e1 e2 hpost
  · intro l e h
    exact ⟨i, ⟨Nat.le_refl _, Or.inl ⟨sp_nil i, fun h0 => by cases h0⟩⟩, h⟩

/-- both scanners, at every depth -/
theorem scan_all (hnl : NL L) : ∀ fuel, ScanIH L ps (parseMatchedPair fuel) (parseComsub fuel)
  | 0 => by
    refine ⟨fun i P _ _ => ?_, fun i P _ _ => ?_⟩
    · unfold parseMatchedPair; exact HT.raise True.intro
    · unfold parseComsub; exact HT.raise True.intro
  | fuel + 1 =>
    have ih := scan_all hnl fuel
    ⟨fun i P hi hP => pmp_succ_tt hnl ih P hP hi, fun i P hi hP => pcs_succ_tt hnl ih P hP hi⟩

end

/-- **layer D**: `_parse_matched_pair` and `_parse_comsub` return exactly the text they consume,
    continuations removed, up to the D31 residue -/
theorem scanHyp : ScanHyp where
  pmp := fun L ps i fuel P hnl hi hP => (scan_all hnl fuel).pmp i P hi hP
  pcs := fun L ps i fuel P hnl hi hP => (scan_all hnl fuel).pcs i P hi hP

end Bashlex.C04.TTP
