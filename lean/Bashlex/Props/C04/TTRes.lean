/-
  C04, token text, part 2: the residues.  What the text between a position and the cursor looks
  like after `_ungetc` moved the cursor back into a run of backslash-newline pairs that `_getc`
  had skipped (D31: at the end of the line; D32: the second `_ungetc`).
-/
import Bashlex.Props.C04.TTTape

namespace Bashlex.C04.TTP
open Bashlex Bashlex.M Bashlex.C10 Bashlex.C11 Bashlex.C03.Tok Bashlex.C04
set_option linter.unusedSimpArgs false
set_option linter.unusedVariables false

/-! ## membership in `residues` -/

theorem res_nil (b : Bool) (L : Str) (e : Nat) : [] ∈ residues b L e := by
  unfold residues; simp

theorem res_d31 {b : Bool} {L : Str} {e : Nat} (h : L.drop e = ['\n']) :
    ['\\'] ∈ residues b L e := by
  unfold residues
  rw [h]
  simp

theorem res_d32 {L : Str} {e : Nat} {c : Char} (h : L[e]? = some '\n') (hc : c = '<' ∨ c = '>') :
    [c, '\\'] ∈ residues true L e := by
  unfold residues
  rw [h]
  rcases hc with rfl | rfl <;> simp

theorem res_d3132 {L : Str} {e : Nat} {c : Char} (h : L.drop e = ['\\', '\n'])
    (hc : c = '<' ∨ c = '>') : [c] ∈ residues true L e := by
  unfold residues
  rw [h]
  rcases hc with rfl | rfl <;> simp

theorem residues_mono {b : Bool} {L : Str} {e : Nat} {r : Str} (h : r ∈ residues false L e) :
    r ∈ residues b L e := by
  unfold residues at h ⊢
  simp only [Bool.false_and, Bool.false_eq_true, if_false, List.append_nil, List.mem_append] at h
  simp only [List.mem_append]
  rcases h with h | h
  · exact Or.inl (Or.inl (Or.inl h))
  · exact Or.inl (Or.inl (Or.inr h))

theorem res_noNL {b : Bool} {L : Str} {e : Nat} {r : Str} (h : r ∈ residues b L e) :
    r.contains '\n' = false := by
  unfold residues at h
  simp only [List.mem_append, List.mem_cons, List.mem_nil_iff, or_false] at h
  rcases h with ((rfl | h) | h) | h
  · rfl
  · split at h
    · simp only [List.mem_cons, List.mem_nil_iff, or_false] at h; subst h; decide
    · cases h
  · split at h
    · simp only [List.mem_cons, List.mem_nil_iff, or_false] at h
      rcases h with rfl | rfl <;> decide
    · cases h
  · split at h
    · simp only [List.mem_cons, List.mem_nil_iff, or_false] at h
      rcases h with rfl | rfl <;> decide
    · cases h

/-! ## runs of pairs -/

/-- a non-empty run of pairs ends in a pair -/
theorem del_nil_snoc : ∀ {s : Str}, Del s [] → s ≠ [] → ∃ s', s = s' ++ ['\\', '\n'] ∧ Del s' []
  | _, .skip (s := s) h, _ => by
    by_cases hs : s = []
    · subst hs; exact ⟨[], rfl, .nil⟩
    · obtain ⟨s', e1, e2⟩ := del_nil_snoc h hs
      exact ⟨'\\' :: '\n' :: s', by rw [e1]; rfl, .skip e2⟩

theorem drop_last_one {L : Str} {k : Nat} (h : L[k]? = some '\n') (hk : k + 1 = L.length) :
    L.drop k = ['\n'] := by
  have hlt : k < L.length := by omega
  rw [List.drop_eq_getElem_cons hlt]
  have := (List.getElem?_eq_some_iff.mp h).2
  rw [this, List.drop_eq_nil_of_le (by omega)]

theorem drop_last_two {L : Str} {k : Nat} (h1 : L[k]? = some '\\') (h2 : L[k + 1]? = some '\n')
    (hk : k + 2 = L.length) : L.drop k = ['\\', '\n'] := by
  have hlt : k < L.length := by omega
  rw [List.drop_eq_getElem_cons hlt]
  have := (List.getElem?_eq_some_iff.mp h1).2
  rw [this, drop_last_one h2 (by omega)]

/-- moving back into a non-empty run of pairs `L[i:k]` -/
theorem pairs_back {L : Str} {i k : Nat} (h : Del (Str.slice L i k) []) (hik : i < k)
    (hk : k ≤ L.length) :
    i + 2 ≤ k ∧ L[k - 1]? = some '\n' ∧ L[k - 2]? = some '\\' ∧
      Del (Str.slice L i (k - 1)) ['\\'] ∧ Del (Str.slice L i (k - 2)) [] := by
  have hlen := slice_length L (a := i) hk
  have hne : Str.slice L i k ≠ [] := by
    intro h0; rw [h0] at hlen; simp at hlen; omega
  obtain ⟨s', e1, e2⟩ := del_nil_snoc h hne
  have hl' : s'.length + 2 = k - i := by
    rw [← hlen, e1]; simp
  have hk2 : i + 2 ≤ k := by omega
  -- the two last characters
  have hx : (k - 2) < L.length := by omega
  have hy : (k - 1) < L.length := by omega
  have gx : L[k - 2]? = some L[k - 2] := List.getElem?_eq_getElem hx
  have gy : L[k - 1]? = some L[k - 1] := List.getElem?_eq_getElem hy
  have s1 : Str.slice L i (k - 1) = Str.slice L i (k - 2) ++ [L[k - 2]] := by
    have := slice_snoc L gx (a := i) (by omega)
    have e : k - 2 + 1 = k - 1 := by omega
    rwa [e] at this
  have s2 : Str.slice L i k = Str.slice L i (k - 1) ++ [L[k - 1]] := by
    have := slice_snoc L gy (a := i) (by omega)
    have e : k - 1 + 1 = k := by omega
    rwa [e] at this
  have s3 : Str.slice L i (k - 2) ++ [L[k - 2], L[k - 1]] = s' ++ ['\\', '\n'] := by
    rw [← e1, s2, s1]; simp
  have hl2 : (Str.slice L i (k - 2)).length = s'.length := by
    rw [slice_length L (by omega)]; omega
  obtain ⟨q1, q2⟩ := List.append_inj s3 hl2
  simp only [List.cons.injEq, and_true] at q2
  refine ⟨hk2, by rw [gy, q2.2], by rw [gx, q2.1], ?_, by rw [q1]; exact e2⟩
  rw [s1, q1, q2.1]
  exact e2.snoc '\\'

/-! ## the cursor after `_getc` … `_ungetc` -/

/-- what `_ungetc` leaves after a `_getc` from `i < |L|` (the character before `i` is not the
    last one): the cursor `j - 1` is inside the line, the text `L[i:j-1]` is a run of pairs — or,
    when `_getc` ran into the end of the line (D31), a run of pairs and the backslash of the last
    pair, the rest of the line being its newline -/
theorem back1 {L : Str} {rqn : Bool} {i j : Nat} {x : Option Char} (hg : GetcR rqn L i j x)
    (hi : i < L.length) :
    0 < j ∧ i ≤ j - 1 ∧ j - 1 < L.length ∧
      ((∃ p, x = some p ∧ L[j - 1]? = some p ∧ Del (Str.slice L i (j - 1)) []) ∨
       (x = none ∧ j = L.length ∧ L.drop (j - 1) = ['\n'] ∧ Del (Str.slice L i (j - 1)) ['\\'])) := by
  cases x with
  | some p =>
    obtain ⟨h1, h2, h3⟩ := hg.char p rfl
    have hlt : j - 1 < L.length := (List.getElem?_eq_some_iff.mp h2).1
    exact ⟨by omega, by omega, hlt, Or.inl ⟨p, rfl, h2, h3⟩⟩
  | none =>
    obtain ⟨h1, h2⟩ := hg.atEnd rfl
    obtain ⟨b1, b2, b3, b4, b5⟩ := pairs_back h2 (by omega) (by omega)
    refine ⟨by omega, by omega, by omega, Or.inr ⟨rfl, h1, ?_, b4⟩⟩
    exact drop_last_one b2 (by omega)

/-- the residue form of `back1` -/
theorem back1_res {L : Str} {rqn : Bool} {i j : Nat} {x : Option Char} (hg : GetcR rqn L i j x)
    (hi : i < L.length) :
    0 < j ∧ i ≤ j - 1 ∧ j - 1 < L.length ∧
      ∃ r ∈ residues false L (j - 1), Del (Str.slice L i (j - 1)) r ∧ r.length ≤ 1 := by
  obtain ⟨h1, h2, h3, h4⟩ := back1 hg hi
  refine ⟨h1, h2, h3, ?_⟩
  rcases h4 with ⟨p, _, _, hd⟩ | ⟨_, _, hdrop, hd⟩
  · exact ⟨[], res_nil _ _ _, hd, by simp⟩
  · exact ⟨['\\'], res_d31 hdrop, hd, by simp⟩

/-- text consumed up to `i`, then `_getc` … `_ungetc` -/
theorem del_back1 {L : Str} {rqn : Bool} {a i j : Nat} {x : Option Char} {v : Str}
    (hv : Del (Str.slice L a i) v) (hai : a ≤ i) (hg : GetcR rqn L i j x) (hi : i < L.length) :
    0 < j ∧ j - 1 < L.length ∧
      ∃ r ∈ residues false L (j - 1), Del (Str.slice L a (j - 1)) (v ++ r) ∧
        a + v.length + r.length ≤ j - 1 := by
  obtain ⟨h1, h2, h3, r, hr, hd, _⟩ := back1_res hg hi
  refine ⟨h1, h3, r, hr, ?_, ?_⟩
  · rw [← slice_cat L hai h2 (by omega)]
    exact hv.append hd
  · have l1 := hv.length_le
    have l2 := hd.length_le
    rw [slice_length L (by omega)] at l1 l2
    omega

end Bashlex.C04.TTP
