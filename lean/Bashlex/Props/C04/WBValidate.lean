/-
  C04, word boundaries: cross-check by evaluation of the statements proved in `WB*.lean` /
  `WordBounds.lean` (`tokWB`, `WB.b_action`).
  Same harness as `Validate.lean`: the token source checks, in the parser states that really
  occur (nested parsers included), that
    * the cursor satisfies `bndB` whenever the parser asks for a token (this also checks that the
      semantic actions and `gatherheredocuments` keep it), and after the token;
    * every token delivered satisfies `wbOK` (every token that is not an operator or EOF starts
      and ends at a boundary), and the cursor after a WORD / ASSIGNMENT_WORD token is its end.
  Inputs: the corpus and the two grids of `Validate.lean`, and `gridInputs3` (all strings of
  length ≤ 4 over `a - < > & ( ) ␣ \ ⏎ 2`: the DASH / process-substitution shapes).  The `#eval`s
  print the number of failing inputs: `0`.
-/
import Bashlex.Props.C04.Validate
import Bashlex.Props.C04.WordBounds

namespace Bashlex.C04
open Bashlex Bashlex.Spec

def wbHooks (np : NestedParse) : LR.Hooks SVal :=
  { lrHooks np with
    next := do
      let line ← tapeLine
      let i0 ← curIdx
      if !bndB line i0 then M.raise (.foreign "WB" s!"cursor {i0} not at a boundary before token() line={repr (String.ofList line)}")
      let t ← nextToken
      let i1 ← curIdx
      if !bndB line i1 then M.raise (.foreign "WB" s!"cursor {i1} not at a boundary after {repr t} line={repr (String.ofList line)}")
      if !wbOK line t then M.raise (.foreign "WB" s!"wbOK {repr t} line={repr (String.ofList line)}")
      if isWordTy t then
        if t.endlexpos != i1 then M.raise (.foreign "WB" s!"cursor {i1} after {repr t} line={repr (String.ofList line)}")
      pure (symOfTok t, .tok t) }

def wbRun : Nat → M (Option Node)
  | 0 => M.raise (.outOfFuel "nesting")
  | depth + 1 => do
    let np : NestedParse := fun string dolparen => do
      let outer ← get
      let ps := if dolparen then { outer.ps with cmdsubst := true, eoftoken := true } else outer.ps
      set ({ tape := some (Tape.ofInput string), opts := some (true, false)
             lastReadToken := outer.lastReadToken, tokenBeforeThat := outer.tokenBeforeThat
             twoTokensAgo := outer.twoTokensAgo, ps := ps
             eofToken := if dolparen then some rparenEofToken else none
             limit := outer.limit.map (· - 1) } : Local)
      let r ← wbRun depth
      let inner ← get
      set { outer with ps := inner.ps }
      pure r
    let res ← LR.run LR.realTables (wbHooks np) 1073741824
    let store := (← get).store
    match res with
    | .accepted (.node n) _ _ _ => pure (some (resolve store n))
    | _ => pure none

def wbOne (s : Str) (o : Opts) : Option String :=
  let env : Env := { tape := Tape.ofInput s, strict := o.strict, proceed := o.proceed }
  match (wbRun 8).run { limit := o.limit } env with
  | (.error (.foreign "WB" m), _) => some m
  | _ => none

def wbInput (s : String) : List String :=
  let l := s.toList
  (suffixStarts l).filterMap fun i =>
    ((wbOne (l.drop i) {}).map (fun m => s!"[{i}] {m}")).orElse fun _ =>
      (wbOne (l.drop i) { strict := false, proceed := true }).map (fun m => s!"[{i},proceed] {m}")

def wbReport (l : List String) : Nat × Nat × List (String × List String) :=
  let f := (l.map fun s => (s, wbInput s)).filter (fun p => !p.2.isEmpty)
  (l.length, f.length, (f.take 8).map fun p => (p.1, (p.2.take 1).map fun m => (m.take 300).toString))

def gridAlpha3 : List Char := ['a', '-', '<', '>', '&', '(', ')', ' ', '\\', '\n', '2']
def gridK : Nat → List (List Char)
  | 0 => [[]]
  | n+1 => (gridK n).flatMap fun w => gridAlpha3.map fun c => c :: w
def gridInputs3 : List String := ((List.range 5).flatMap gridK) |>.map String.ofList

#eval wbReport corpus
#eval wbReport gridInputs
#eval wbReport gridInputs2
#eval wbReport gridInputs3
#eval wbReport (witnesses ++ ["cat <&\\\n-x", "cat <<\\\n-x\nx\n", "cat <&-x", "a<(b)", "<(b) a", "a <<-E\n\tx\nE\nb"])

end Bashlex.C04
