/-
  C04, word boundaries, part 6: a token value without quoting characters holds no break character
  (towards the clause `word-not-whole` of `Spec.localTextViol` for PLAIN words).

  `plainV v`: none of `\ ' " backquote $ < >` occurs in `v`.  The loop of `_readtokenword` appends
  a break character to `tokenword` only after a backslash (`passNext`), inside what a quote or an
  expansion returns, or as the `<` / `>` of a process substitution — so, in a value without these
  characters, every character was appended by the plain branch and is no break character.
  State-agnostic (`Sat`): the invariant `PInv` speaks about the loop state only.
-/
import Bashlex.Props.C04.WBDefs

namespace Bashlex.C04
open Bashlex Bashlex.Spec

/-- the characters that quote, expand or open a process substitution -/
def specialC (c : Char) : Bool :=
  c == '\\' || c == '\'' || c == '"' || c == '`' || c == '$' || c == '<' || c == '>'

/-- none of them occurs -/
def plainV (v : Str) : Bool := v.all (fun c => !specialC c)

/-- no break character occurs -/
def nbV (v : Str) : Bool := v.all (fun c => !isBreakChar c)

/-- a value without quoting characters holds no break character -/
def plainOKB (v : Str) : Bool := !plainV v || nbV v

theorem plainV_append (a b : Str) : plainV (a ++ b) = (plainV a && plainV b) := by
  unfold plainV; rw [List.all_append]

theorem nbV_append (a b : Str) : nbV (a ++ b) = (nbV a && nbV b) := by
  unfold nbV; rw [List.all_append]

end Bashlex.C04

namespace Bashlex.C04.WB
open Bashlex Bashlex.M Bashlex.C10 Bashlex.C11 Bashlex.C03.Tok Bashlex.C04 Bashlex.C04.TTP
set_option linter.unusedSimpArgs false
set_option linter.unusedVariables false

/-- the invariant of the loop of `_readtokenword` -/
structure PInv (st : RWState) : Prop where
  nb : plainV st.tokenword = true → nbV st.tokenword = true
  pn : st.passNext = true → plainV st.tokenword = false

theorem pinv_special {st st' : RWState} {c : Char} {x : Str} (hc : specialC c = true)
    (htw : st'.tokenword = st.tokenword ++ [c] ++ x) (hpn : st'.passNext = false) : PInv st' := by
  have hp : plainV st'.tokenword = false := by
    rw [htw, plainV_append, plainV_append]
    simp [plainV, hc]
  exact ⟨fun h => (by rw [hp] at h; cases h), fun h => (by rw [hpn] at h; cases h)⟩

theorem pinv_special2 {st st' : RWState} {c q : Char} {x : Str} (hc : specialC c = true)
    (htw : st'.tokenword = st.tokenword ++ [c, q] ++ x) (hpn : st'.passNext = false) : PInv st' :=
  pinv_special (st := st) (c := c) (x := [q] ++ x) hc (by rw [htw]; simp) hpn

theorem pinv_dollar {st st' : RWState} (htw : st'.tokenword = st.tokenword ++ ['$', '$'])
    (hpn : st'.passNext = false) : PInv st' :=
  pinv_special (st := st) (c := '$') (x := ['$']) (by decide) (by rw [htw]; simp) hpn

theorem pinv_special0 {st st' : RWState} {c : Char} {x y : Str} (hc : specialC c = true)
    (htw : st'.tokenword = st.tokenword ++ [c] ++ x ++ y) (hpn : st'.passNext = false) : PInv st' :=
  pinv_special (st := st) (c := c) (x := x ++ y) hc (by rw [htw]; simp) hpn

theorem pinv_of_false {st' : RWState} (hp : plainV st'.tokenword = false) : PInv st' :=
  ⟨fun h => (by rw [hp] at h; cases h), fun _ => hp⟩

/-! ## values of the syntax-class queries, state-agnostic -/

theorem sat_syn (c : Char) : Sat (syn c) (fun r => r = synClass c) := by
  intro l e
  show match (M.ask (.syntab c)).run l e with | (.ok (a, _), _) => a = synClass c | (.error x, _) => True
  rw [C10.run_ask]
  rfl

theorem sat_shellbreak (c : Char) : Sat (shellbreak c) (fun r => r = (synClass c).brk) := by
  unfold shellbreak
  exact Sat.bind (sat_syn c) (fun r hr => Sat.pure (by rw [hr]))
theorem sat_shellquote (c : Char) : Sat (shellquote c) (fun r => r = (synClass c).quote) := by
  unfold shellquote
  exact Sat.bind (sat_syn c) (fun r hr => Sat.pure (by rw [hr]))
theorem sat_shellexp (c : Char) : Sat (shellexp c) (fun r => r = (synClass c).exp) := by
  unfold shellexp
  exact Sat.bind (sat_syn c) (fun r hr => Sat.pure (by rw [hr]))

theorem special_of_quote {c : Char} (h : (synClass c).quote = true) : specialC c = true := by
  simp only [synClass, Bool.or_eq_true, beq_iff_eq] at h
  rcases h with (rfl | rfl) | rfl <;> decide

theorem special_of_exp {c : Char} (h : (synClass c).exp = true) : specialC c = true := by
  rcases exp_cases h with rfl | rfl | rfl <;> decide

/-! ## the closures -/

theorem sat_handleshellquote_p (st : RWState) (c : Char) (hq : (synClass c).quote = true)
    (hpn : st.passNext = false) : Sat (handleshellquote st c) PInv := by
  unfold handleshellquote
  refine Sat.bind_any (fun _ => Sat.bind_any (fun _ => Sat.bind_any (fun ttok =>
    Sat.bind_any (fun _ => Sat.pure ?_))))
  exact pinv_special (st := st) (x := ttok) (special_of_quote hq) rfl hpn

/-- walk through `handleshellexp` -/
macro "exp_walk" : tactic => `(tactic| repeat' (first
  | with_reducible refine Sat.ite (fun _ => ?_) (fun _ => ?_)
  | with_reducible refine Sat.bind_any (fun _ => ?_)
  | with_reducible refine Sat.pure ?_))

set_option maxHeartbeats 1000000 in
theorem sat_handleshellexp_p (st : RWState) (c : Char) (cd : Option Char)
    (hx : (synClass c).exp = true) (hpn : st.passNext = false) :
    Sat (handleshellexp st c cd)
      (fun x => (x.2 = true → x.1 = st) ∧ (x.2 = false → PInv x.1)) := by
  have hsp := special_of_exp hx
  unfold handleshellexp
  simp only []
  exp_walk
  all_goals (refine ⟨fun h1 => ?_, fun h2 => ?_⟩)
  all_goals first
    | rfl
    | (cases h1; done)
    | (cases h2; done)
    | exact pinv_special0 (st := st) (c := c) hsp rfl hpn
    | exact pinv_special2 (st := st) (c := c) hsp rfl hpn
    | exact pinv_dollar (st := st) rfl hpn

/-! ## one iteration -/

/-- the post-condition of one iteration -/
def PStep (r : RWState ⊕ RWState) : Prop :=
  match r with
  | .inl s => PInv s
  | .inr s => PInv s

theorem sat_rwTail_p (st : RWState) (h : PInv st) : Sat (rwTail st) PStep := by
  unfold rwTail
  refine Sat.bind_any (fun _ => Sat.bind_any (fun nc => Sat.pure ?_))
  exact ⟨h.nb, h.pn⟩

theorem sat_rwBreak_true_p (st : RWState) (c : Char) (h : PInv st) :
    Sat (rwBreak st c true) PStep := by
  rw [rwBreak_true]; exact sat_rwTail_p st h

/-- a plain character in hand: put back (a break character), or appended (no break character) -/
theorem sat_rwBreak_false_p (st : RWState) (c : Char) (h : PInv st) (hpn : st.passNext = false) :
    Sat (rwBreak st c false) PStep := by
  unfold rwBreak
  simp only [Bool.not_false, if_true]
  refine Sat.bind (sat_shellbreak c) (fun b hb => ?_)
  subst hb
  refine Sat.ite (fun hbrk => ?_) (fun hbrk => ?_)
  · refine Sat.bind_any (fun _ => Sat.pure ?_)
    exact ⟨h.nb, h.pn⟩
  · have hbrk' : (synClass c).brk = false := by simpa using hbrk
    refine sat_rwTail_p (handleescapedchar st c) ⟨?_, ?_⟩
    · intro hp
      have hp' : plainV (st.tokenword ++ [c]) = true := hp
      rw [plainV_append, Bool.and_eq_true] at hp'
      show nbV (st.tokenword ++ [c]) = true
      rw [nbV_append, h.nb hp'.1]
      simp [nbV, Spec.isBreakChar, hbrk']
    · intro hp
      have : st.passNext = true := hp
      rw [hpn] at this; cases this

set_option maxHeartbeats 1000000 in
/-- **one iteration of the loop of `_readtokenword`** keeps `PInv` -/
theorem sat_step_p (st : RWState) (h : PInv st) : Sat (readtokenwordStep st) PStep := by
  rw [readtokenwordStep_eq]
  cases hc : st.c with
  | none => exact Sat.pure ⟨h.nb, h.pn⟩
  | some c0 =>
    simp only []
    by_cases hp : st.passNext = true
    · -- the character after a backslash: `tokenword` already holds the backslash
      rw [if_pos hp]
      refine sat_rwTail_p _ ?_
      apply pinv_of_false
      show plainV (st.tokenword ++ [c0]) = false
      rw [plainV_append, h.pn hp]; rfl
    · rw [if_neg hp]
      have hpf : st.passNext = false := by
        cases h' : st.passNext with
        | true => exact absurd h' hp
        | false => rfl
      refine Sat.bind_any (fun cd => ?_)
      refine Sat.ite (fun hbs => ?_) (fun hbs => ?_)
      · have hc0 : c0 = '\\' := by simpa using hbs
        subst hc0
        refine Sat.bind_any (fun peek => ?_)
        refine Sat.ite (fun _ => sat_rwBreak_true_p st _ h) (fun _ => ?_)
        refine Sat.bind_any (fun _ => Sat.bind_any (fun cond => ?_))
        refine Sat.ite (fun _ => ?_) (fun _ => ?_)
        · refine sat_rwBreak_true_p _ _ ?_
          apply pinv_of_false
          show plainV (st.tokenword ++ ['\\']) = false
          rw [plainV_append]; simp [plainV, specialC]
        · exact sat_rwBreak_false_p st '\\' h hpf
      · refine Sat.bind (sat_shellquote c0) (fun b hb => ?_)
        subst hb
        refine Sat.ite (fun hq => ?_) (fun hq => ?_)
        · refine Sat.bind (sat_handleshellquote_p st c0 hq hpf) (fun st' hst' => ?_)
          exact sat_rwBreak_true_p st' c0 hst'
        · refine Sat.bind (sat_shellexp c0) (fun b hb => ?_)
          subst hb
          refine Sat.ite (fun hx => ?_) (fun hx => ?_)
          · refine Sat.bind (sat_handleshellexp_p st c0 cd hx hpf) (fun x hx' => ?_)
            obtain ⟨st', r⟩ := x
            cases r with
            | false =>
              show Sat (rwBreak st' c0 (!false)) _
              rw [Bool.not_false]
              exact sat_rwBreak_true_p st' c0 (hx'.2 rfl)
            | true =>
              show Sat (rwBreak st' c0 (!true)) _
              rw [Bool.not_true]
              have : st' = st := hx'.1 rfl
              subst this
              exact sat_rwBreak_false_p st' c0 h hpf
          · exact sat_rwBreak_false_p st c0 h hpf

/-- the loop of `_readtokenword` -/
theorem sat_rtwLoop_p (fuel : Nat) (st : RWState) (h : PInv st) :
    Sat (M.loop "_readtokenword" readtokenwordStep fuel st) PInv := by
  refine Sat.loop (I := PInv) (R := PInv) True.intro (fun s hs => ?_) fuel st h
  refine (sat_step_p s hs).weaken ?_ (fun _ h => h)
  intro r hr
  cases r with
  | inl s' => exact hr
  | inr s' => exact hr

theorem pinv_init (c : Char) : PInv { c := some c, allDigit := isDigit c } :=
  ⟨fun _ => rfl, fun h => (by cases h)⟩

theorem plainOKB_of {st : RWState} (h : PInv st) : plainOKB st.tokenword = true := by
  unfold plainOKB
  cases hp : plainV st.tokenword with
  | false => rfl
  | true => simp [h.nb hp]

end Bashlex.C04.WB
