/-
  C04, token text, part 5 (layers B and C, continued): `handleshellexp`, one iteration of the loop
  of `_readtokenword`, the loop.
-/
import Bashlex.Props.C04.TTWord

namespace Bashlex.C04.TTP
open Bashlex Bashlex.M Bashlex.C10 Bashlex.C11 Bashlex.C03.Tok Bashlex.C04
set_option linter.unusedSimpArgs false
set_option linter.unusedVariables false

theorem HT.pre_or {α : Type} {P1 P2 : Local → Env → Prop} {m : M α} {Q : α → Local → Env → Prop}
    {E : Exn → Prop} (h1 : HT P1 m Q E) (h2 : HT P2 m Q E) :
    HT (fun l e => P1 l e ∨ P2 l e) m Q E := by
  intro l e hp
  rcases hp with hp | hp
  · exact h1 l e hp
  · exact h2 l e hp

/-- what `handleshellexp` returns: an expansion was appended (`gotonext`), or nothing was
    consumed but the look-ahead, which was put back -/
def ExpQ (L : Str) (a i : Nat) (st : RWState) (x : RWState × Bool) (l : Local) (e : Env) : Prop :=
  (x.2 = false ∧ GoQ L a x.1 l e) ∨
  (x.2 = true ∧ x.1 = st ∧
    ∃ j1, (∃ peek, GetcR true L i j1 peek ∧ peek ≠ some '(' ∧ 0 < j1) ∧ Tp L [a] (j1 - 1) l e)

theorem mpgood {P : MPParams} {c o : Char} (h1 : P.close = c) (h2 : P.opn = o) (hc : c ≠ '\n')
    (ho : o ≠ '\n') : MPGood P := ⟨by rw [h1]; exact hc, by rw [h2]; exact ho⟩
theorem csgood {P : CSParams} {c o : Char} (h1 : P.close = c) (h2 : P.opn = o) (hc : c ≠ '\n')
    (ho : o ≠ '\n') : CSGood P := ⟨by rw [h1]; exact hc, by rw [h2]; exact ho⟩

section
variable {L : Str} {a : Nat}

/-- a scanner called at `j1`, the text up to `j1` spelling `w1` -/
theorem scan_then {β : Type} {w1 : Str} {j1 : Nat} (hd1 : Del (Str.slice L a j1) w1) (haj : a ≤ j1)
    {m : M Str} (hm : HT (Tp L [a] j1) m (ScanQ L [a] j1) ET) {k : Str → M β}
    {Q : β → Local → Env → Prop}
    (hk : ∀ ttok j res, j1 ≤ j → j < L.length → res ∈ residues false L j →
      Del (Str.slice L a j) (w1 ++ ttok ++ res) → HT (Tp L [a] j) (k ttok) Q ET) :
    HT (Tp L [a] j1) (m >>= k) Q ET := by
  refine HT.bind hm (fun ttok => ?_)
  refine HT.pre_exists (fun j => HT.pre_pure (fun hj => ?_))
  obtain ⟨h1, h2, res, hr, hdel⟩ := hj
  refine hk ttok j res h1 h2 hr ?_
  rw [← slice_cat L haj h1 (by omega), List.append_assoc]
  exact hd1.append hdel

set_option maxHeartbeats 1000000 in
/-- closure `handleshellexp` -/
theorem handleshellexp_tt (hS : ScanHyp) (hnl : NL L) (st : RWState) (c : Char) (cd : Option Char)
    (hexp : (synClass c).exp = true) {i : Nat} (hai : a ≤ i) (hi : i < L.length)
    (hd : Del (Str.slice L a i) (st.tokenword ++ [c])) (hpn : st.passNext = false)
    (hwp : wordPathV st.tokenword = true) :
    HT (Tp L [a] i) (handleshellexp st c cd) (ExpQ L a i st) ET := by
  unfold handleshellexp
  simp only []
  refine getc_bind (fun peek j1 hg => ?_)
  have hij := hg.le
  -- the text up to the cursor when a character was looked at
  have hd2 : ∀ p, peek = some p → Del (Str.slice L a j1) (st.tokenword ++ [c] ++ [p]) := by
    intro p hp
    subst hp
    rw [← slice_cat L hai hg.le hg.le']
    exact hd.append hg.del
  -- the result of an expansion
  have leaf : ∀ (st' : RWState) (j : Nat) (res : Str), a ≤ j → j < L.length →
      st'.passNext = false → wordPathV st'.tokenword = true → res ∈ residues false L j →
      Del (Str.slice L a j) (st'.tokenword ++ res) →
      HT (Tp L [a] j) (pure (st', false) : M (RWState × Bool)) (ExpQ L a i st) ET := by
    intro st' j res h1 h2 h3 h4 h5 h6
    exact HT.pure (fun l e h => Or.inl ⟨rfl, j, ⟨h1, h2, h3, h4, res, h5, h6⟩, h⟩)
  -- `c` is `$`, or `(` follows
  have hwp1 : ∀ (p : Char) (x : Str), (c = '$' ∨ p = '(') →
      wordPathV (st.tokenword ++ [c] ++ [p] ++ x) = true := by
    intro p x hcp
    rw [List.append_assoc, List.append_assoc]
    refine wp_ext hwp ?_
    rcases exp_cases hexp with rfl | hc
    · exact wp_nonbreak (by decide)
    · rcases hcp with rfl | rfl
      · rcases hc with h | h <;> cases h
      · exact wp_procsub hc
  refine HT.ite (fun h1 => ?_) (fun h1 => ?_)
  · -- `$(`, `<(`, `>(`, `${`, `$[`
    have hpk : ∃ p, peek = some p ∧ p ≠ '\n' ∧ (c = '$' ∨ p = '(') := by
      simp only [Bool.or_eq_true, Bool.and_eq_true, beq_iff_eq] at h1
      rcases h1 with h | ⟨hc, h | h⟩
      · exact ⟨'(', h, by decide, Or.inr rfl⟩
      · exact ⟨'{', h, by decide, Or.inl hc⟩
      · exact ⟨'[', h, by decide, Or.inl hc⟩
    obtain ⟨p, rfl, hpn', hcp⟩ := hpk
    have hj1 : j1 < L.length := lt_of_some hnl hg hpn'
    have fin : ∀ (st' : RWState) ttok j res, j1 ≤ j → j < L.length → res ∈ residues false L j →
        Del (Str.slice L a j) (st.tokenword ++ [c] ++ [p] ++ ttok ++ res) →
        st'.passNext = false → st'.tokenword = st.tokenword ++ [c] ++ [p] ++ ttok →
        HT (Tp L [a] j) (pure (st', false) : M (RWState × Bool)) (ExpQ L a i st) ET := by
      intro st' ttok j res g1 g2 g3 g4 g5 g6
      refine leaf st' j res (by omega) g2 g5 ?_ g3 ?_
      · rw [g6]; exact hwp1 p ttok hcp
      · rw [g6]; exact g4
    refine HT.ite (fun h2 => ?_) (fun h2 => ?_)
    · refine keep_bind w_depthFuel (fun fuel _ => ?_)
      exact scan_then (hd2 p rfl) (by omega)
        (hS.pmp L [a] j1 fuel _ hnl hj1 (mpgood (c := '}') (o := '{') rfl rfl (by decide) (by decide)))
        (fun ttok j res g1 g2 g3 g4 => fin _ ttok j res g1 g2 g3 g4 hpn rfl)
    refine HT.ite (fun h3 => ?_) (fun h3 => ?_)
    · refine keep_bind (k_pushDelimiter '(') (fun _ _ => ?_)
      refine keep_bind w_depthFuel (fun fuel _ => ?_)
      refine scan_then (hd2 p rfl) (by omega)
        (hS.pcs L [a] j1 fuel _ hnl hj1 (csgood (c := ')') (o := '(') rfl rfl (by decide) (by decide))) ?_
      intro ttok j res g1 g2 g3 g4
      refine keep_bind k_popDelimiter (fun _ _ => ?_)
      rw [pure_bind]
      exact fin _ ttok j res g1 g2 g3 g4 hpn rfl
    · refine keep_bind w_depthFuel (fun fuel _ => ?_)
      exact scan_then (hd2 p rfl) (by omega)
        (hS.pmp L [a] j1 fuel _ hnl hj1 (mpgood (c := ']') (o := '[') rfl rfl (by decide) (by decide)))
        (fun ttok j res g1 g2 g3 g4 => fin _ ttok j res g1 g2 g3 g4 hpn rfl)
  refine HT.ite (fun h2 => ?_) (fun h2 => ?_)
  · -- `$'`, `$"`
    have hpk : c = '$' ∧ ∃ p, peek = some p ∧ (p = '\'' ∨ p = '"') := by
      simp only [Bool.and_eq_true, Bool.or_eq_true, beq_iff_eq] at h2
      obtain ⟨hc, h | h⟩ := h2
      · exact ⟨hc, '\'', h, Or.inl rfl⟩
      · exact ⟨hc, '"', h, Or.inr rfl⟩
    obtain ⟨hc, p, rfl, hp⟩ := hpk
    have hpn' : p ≠ '\n' := by rcases hp with rfl | rfl <;> decide
    have hj1 : j1 < L.length := lt_of_some hnl hg hpn'
    show HT _ (pushDelimiter p >>= _) _ _
    refine keep_bind (k_pushDelimiter p) (fun _ _ => ?_)
    refine keep_bind w_depthFuel (fun fuel _ => ?_)
    refine scan_then (hd2 p rfl) (by omega)
      (hS.pmp L [a] j1 fuel _ hnl hj1 ⟨hpn', hpn'⟩) ?_
    intro ttok j res g1 g2 g3 g4
    refine keep_bind k_popDelimiter (fun _ _ => ?_)
    refine leaf _ j res (by omega) g2 hpn ?_ g3 ?_
    · show wordPathV (st.tokenword ++ [c, p] ++ ttok) = true
      have := hwp1 p ttok (Or.inl hc)
      simpa using this
    · show Del (Str.slice L a j) (st.tokenword ++ [c, p] ++ ttok ++ res)
      simpa using g4
  refine HT.ite (fun h3 => ?_) (fun h3 => ?_)
  · -- `$$`
    simp only [Bool.and_eq_true, beq_iff_eq] at h3
    obtain ⟨hc, rfl⟩ := h3
    subst hc
    have hj1 : j1 < L.length := lt_of_some hnl hg (by decide)
    refine leaf _ j1 [] (by omega) hj1 hpn ?_ (res_nil _ _ _) ?_
    · show wordPathV (st.tokenword ++ ['$', '$']) = true
      exact wp_ext hwp (wp_nonbreak (by decide))
    · show Del (Str.slice L a j1) (st.tokenword ++ ['$', '$'] ++ [])
      have := hd2 '$' rfl
      simpa using this
  · -- nothing: put the look-ahead back
    have hne : peek ≠ some '(' := by
      intro h; apply h1; rw [h]; rfl
    obtain ⟨b1, _⟩ := back1 hg hi
    refine ungetc_bind b1 ?_
    exact HT.pure (fun l e h => Or.inr ⟨rfl, rfl, j1, ⟨peek, hg, hne, b1⟩, h⟩)

/-- after `handleshellexp` put its look-ahead back: the SECOND `_ungetc` if the character in hand
    is a break character (`<`, `>`), else (`$`) it is appended -/
theorem expBack_tt (hnl : NL L) (st : RWState) (c : Char) {i : Nat} (hc : st.c = some c)
    (hw : WInv L a st i) (hpn : st.passNext = false) (hexp : (synClass c).exp = true)
    {j1 : Nat} {peek : Option Char} (hg : GetcR true L i j1 peek) (hne : peek ≠ some '(') :
    HT (Tp L [a] (j1 - 1)) (rwBreak st c false) (StepQ L a) ET := by
  obtain ⟨hhand, hlen, hwp, _⟩ := hw
  rw [hc] at hhand
  -- the character in hand was read
  have hread : ∃ i0 rqn, a ≤ i0 ∧ Del (Str.slice L a i0) st.tokenword ∧ GetcR rqn L i0 i (some c) := by
    cases hhand with
    | read i0 rqn _ h0 hdel hg0 => exact ⟨i0, rqn, h0, hdel, hg0⟩
    | procsub _ _ _ _ _ _ hpar =>
      exfalso
      exact hne (hg.exact hpar (Or.inl (by decide))).1
    | d31 _ _ _ _ => exfalso; revert hexp; decide
  obtain ⟨i0, rqn, h0, hdel, hg0⟩ := hread
  obtain ⟨g1, g2, g3⟩ := hg0.char c rfl
  have hcn : c ≠ '\n' := by rintro rfl; revert hexp; decide
  have hi : i < L.length := nl_lt hnl g2 hcn (by omega)
  have hdc : Del (Str.slice L a i) (st.tokenword ++ [c]) := by
    rw [← slice_cat L h0 hg0.le hg0.le']
    exact hdel.append hg0.del
  have hlc := hdc.length_le
  rw [slice_length L (by omega), List.length_append] at hlc
  simp only [List.length_cons, List.length_nil] at hlc
  obtain ⟨b1, b2, b3, b4⟩ := back1 hg hi
  unfold rwBreak
  simp only [Bool.not_false, if_true]
  refine keep_bind (v_shellbreak c) (fun b hb => ?_)
  subst hb
  refine HT.ite (fun hbrk => ?_) (fun hbrk => ?_)
  · -- `<` / `>`: the second `_ungetc`
    have hcc := exp_brk hexp hbrk
    refine ungetc_bind (by omega) ?_
    have hleaf : ∀ (r : Str), a ≤ j1 - 1 - 1 → r ∈ residues true L (j1 - 1 - 1) →
        Del (Str.slice L a (j1 - 1 - 1)) (st.tokenword ++ r) →
        HT (Tp L [a] (j1 - 1 - 1))
          (pure (Sum.inr { st with c := some c }) : M (RWState ⊕ RWState)) (StepQ L a) ET := by
      intro r h1 h2 h3
      exact HT.pure (fun l e h => ⟨j1 - 1 - 1, ⟨h1, by omega, hlen, hwp, r, h2, h3⟩, h⟩)
    rcases b4 with ⟨p, rfl, hp1, hp2⟩ | ⟨rfl, hj, hdrop, hp2⟩
    · by_cases hji : j1 - 1 = i
      · -- no pair was skipped: back before the character
        refine hleaf [] (by omega) (res_nil _ _ _) ?_
        have e1 : j1 - 1 - 1 = i - 1 := by omega
        rw [e1, List.append_nil, ← slice_cat L h0 (by omega : i0 ≤ i - 1) (by omega)]
        simpa using hdel.append g3
      · -- D32: back inside the last pair
        obtain ⟨q1, q2, q3, q4, q5⟩ := pairs_back hp2 (by omega) (by omega)
        refine hleaf [c, '\\'] (by omega) (res_d32 q2 hcc) ?_
        rw [← slice_cat L (by omega : a ≤ i) (by omega : i ≤ j1 - 1 - 1) (by omega)]
        have := hdc.append q4
        simpa using this
    · -- D31 + D32: the look-ahead ran into the end of the line
      obtain ⟨q0, q00⟩ := hg.atEnd rfl
      rw [q0] at q00
      obtain ⟨q1, q2, q3, q4, q5⟩ := pairs_back q00 (by omega) (Nat.le_refl _)
      have e1 : j1 - 1 - 1 = L.length - 2 := by omega
      rw [e1]
      rw [e1] at hleaf
      refine hleaf [c] (by omega) (res_d3132 (drop_last_two q3 ?_ (by omega)) hcc) ?_
      · have : L.length - 2 + 1 = L.length - 1 := by omega
        rw [this]; exact q2
      · rw [← slice_cat L (by omega : a ≤ i) (by omega : i ≤ L.length - 2) (by omega)]
        have := hdc.append q5
        simpa using this
  · -- `$`: appended
    have hbrk' : (synClass c).brk = false := by simpa using hbrk
    refine rwTail_tt (handleescapedchar st c) (by omega) ?_ ?_ ?_
    · show a + (st.tokenword ++ [c]).length < L.length
      rw [List.length_append]; simp only [List.length_cons, List.length_nil]; omega
    · show wordPathV (st.tokenword ++ [c]) = true
      exact wp_ext hwp (wp_nonbreak hbrk')
    · rcases b4 with ⟨p, rfl, hp1, hp2⟩ | ⟨rfl, hj, hdrop, hp2⟩
      · left
        refine ⟨?_, fun hp => ?_⟩
        · show Del (Str.slice L a (j1 - 1)) (st.tokenword ++ [c])
          rw [← slice_cat L (by omega : a ≤ i) b2 (by omega)]
          simpa using hdc.append hp2
        · have : st.passNext = true := hp
          rw [hpn] at this; cases this
      · right
        refine ⟨hpn, hdrop, ?_⟩
        show Del (Str.slice L a (j1 - 1)) (st.tokenword ++ [c] ++ ['\\'])
        rw [← slice_cat L (by omega : a ≤ i) b2 (by omega)]
        exact hdc.append hp2

end

end Bashlex.C04.TTP
