/-
  C04, word boundaries, part 2: `gatherheredocuments` leaves the cursor at a token boundary.

  `readline(False)` ends after a newline character or at the end of the line; `makeheredoc`
  reads at least one line and nothing moves the cursor after its last `readline`; the
  non-strict skip (`_shell_input_line_index += 1`) happens at the end of the line only.
-/
import Bashlex.Props.C04.WBDefs

namespace Bashlex.C04.WB
open Bashlex Bashlex.M Bashlex.C10 Bashlex.C11 Bashlex.C03.Tok Bashlex.C04 Bashlex.C04.TTP
set_option linter.unusedSimpArgs false
set_option linter.unusedVariables false

/-- line, empty slot, positions, and the cursor at a token boundary -/
def GB (L : Str) (ps : List Nat) (l : Local) (e : Env) : Prop :=
  G2 L ps l e ∧ bndB L (tapeOf l e).idx = true

/-- where the cursor is after `_getc` delivered `c` -/
def AfterC (L : Str) (c : Option Char) (j : Nat) : Prop :=
  match c with
  | none => L.length ≤ j
  | some ch => 0 < j ∧ L[j - 1]? = some ch

/-- state after a `_getc` that delivered `c` -/
def GC (L : Str) (ps : List Nat) (c : Option Char) (l : Local) (e : Env) : Prop :=
  AfterC L c (tapeOf l e).idx ∧ G2 L ps l e

section
variable {L : Str} {ps : List Nat}

theorem GB.env {l : Local} {e e' : Env} (h : GB L ps l e) (h1 : e'.tape = e.tape) :
    GB L ps l e' := by
  unfold GB at h ⊢
  rw [tapeOf_env h1]; exact ⟨h.1.env h1, h.2⟩

instance : EnvStable (GB L ps) := ⟨fun _ _ _ h h1 _ => h.env h1⟩

theorem getc_gc (rqn : Bool) : HT (G2 L ps) (getc rqn) (fun c l e => GC L ps c l e) ET := by
  intro l e h
  have h0 := h
  obtain ⟨a1, a2, a3⟩ := h
  rw [run_getc rqn l e a2]
  cases hgc : (tapeOf l e).getc rqn ((tapeOf l e).line.length + 1) with
  | error u => cases u; exact True.intro
  | ok v =>
    obtain ⟨c, t'⟩ := v
    obtain ⟨b1, b2, b3, b4, b5, b6⟩ := getc_spec rqn _ _ _ _ hgc
    obtain ⟨m1, m2⟩ := tape_getc_mono rqn _ _ _ _ hgc
    refine ⟨?_, h0.put (b1.trans a1)⟩
    rw [tapeOf_put]
    cases c with
    | none =>
      show L.length ≤ t'.idx
      have := b6 rfl (by omega)
      rw [a1] at this; exact this
    | some ch =>
      obtain ⟨n1, n2⟩ := m2 ch rfl
      rw [a1] at n2
      exact ⟨by omega, n2⟩

theorem gb_of_gc_none {l : Local} {e : Env} (h : GC L ps none l e) : GB L ps l e :=
  ⟨h.2, bndB_of_len h.1⟩

theorem gb_of_gc_nl {l : Local} {e : Env} (h : GC L ps (some '\n') l e) : GB L ps l e :=
  ⟨h.2, bndB_of_prev h.1.1 h.1.2 (Or.inl (by decide))⟩

/-- `readline(False)` ends at a token boundary -/
theorem readline_up : SatW (G2 L ps) (GB L ps) (readline false) (fun _ => True) := by
  unfold readline
  simp only [Bool.and_false, Bool.false_eq_true, if_false]
  refine HT.bind (Q := fun _ l e => G2 L ps l e) (HT.pure (fun _ _ h => h)) (fun fuel => ?_)
  refine HT.loop (E := ET) (I := fun _ l e => G2 L ps l e) True.intro (fun st => ?_) fuel _
  refine HT.bind (getc_gc true) (fun c0 => ?_)
  cases c0 with
  | none =>
    simp only [Option.isNone_none, Bool.true_and, Option.getD_none]
    refine HT.ite (fun _ => ?_) (fun _ => ?_)
    · exact HT.pure (fun l e h => ⟨True.intro, gb_of_gc_none h⟩)
    · refine HT.ite (fun _ => ?_) (fun _ => ?_)
      · refine HT.ite (fun _ => ?_) (fun hc => absurd rfl hc)
        exact HT.pure (fun l e h => ⟨True.intro, gb_of_gc_none h⟩)
      · refine HT.ite (fun _ => ?_) (fun hc => absurd rfl hc)
        exact HT.pure (fun l e h => ⟨True.intro, gb_of_gc_none h⟩)
  | some ch =>
    simp only [Option.isNone_some, Bool.false_and, Option.getD_some, Bool.false_eq_true, if_false]
    refine HT.ite (fun _ => ?_) (fun _ => ?_)
    · refine HT.ite (fun hc => ?_) (fun hc => ?_)
      · have : ch = '\n' := by simpa using hc
        subst this
        exact HT.pure (fun l e h => ⟨True.intro, gb_of_gc_nl h⟩)
      · exact HT.pure (fun l e h => h.2)
    · refine HT.ite (fun hc => ?_) (fun hc => ?_)
      · have : ch = '\n' := by simpa using hc
        subst this
        exact HT.pure (fun l e h => ⟨True.intro, gb_of_gc_nl h⟩)
      · exact HT.pure (fun l e h => h.2)

theorem readline_keep : SatW (GB L ps) (GB L ps) (readline false) (fun _ => True) :=
  SatW.pre readline_up (fun _ _ h => h.1)

end

/-- one step of the walk through `makeheredoc` -/
macro "g_step" : tactic => `(tactic| first
  | with_reducible refine SatW.bindE readline_up (fun _ => ?_)
  | with_reducible refine SatW.bindE readline_keep (fun _ => ?_)
  | w_step)

section
variable {L : Str} {ps : List Nat}

set_option maxHeartbeats 1000000 in
/-- `makeheredoc` ends at a token boundary (its last `readline`) -/
theorem makeheredoc_up (id : Nat) (kill : Bool) :
    SatW (G2 L ps) (GB L ps) (makeheredoc id kill) (fun _ => True) := by
  unfold makeheredoc
  (try simp only [])
  repeat' g_step

/-- `_peekc()`: when nothing is delivered the cursor is at the end of the line -/
theorem peekc_gc : HT (G2 L ps) (peekc true)
    (fun p l e => (p = none → L.length ≤ (tapeOf l e).idx) ∧ G2 L ps l e) ET := by
  unfold peekc
  refine HT.bind (getc_gc true) (fun c => ?_)
  cases c with
  | none =>
    simp only [Option.isSome_none, Bool.false_eq_true, if_false, pure_bind]
    exact HT.pure (fun l e h => ⟨fun _ => h.1, h.2⟩)
  | some ch =>
    simp only [Option.isSome_some, if_true]
    refine HT.bind (Q := fun _ l e => G2 L ps l e) ?_ (fun _ => ?_)
    rotate_left
    · refine HT.pure (fun l e h => ⟨fun hh => ?_, h⟩)
      cases hh
    intro l e h
    obtain ⟨⟨hpos, hch⟩, hg⟩ := h
    have hg0 := hg
    obtain ⟨a1, a2, a3⟩ := hg
    have hlt : (tapeOf l e).idx - 1 < L.length := (List.getElem?_eq_some_iff.mp hch).1
    rw [run_ungetc]
    have hu : (tapeOf l e).ungetc = (true, { tapeOf l e with idx := (tapeOf l e).idx - 1 }) := by
      unfold Tape.ungetc
      rw [if_pos]
      rw [a1]
      have hne : L ≠ [] := by
        intro hl; rw [hl] at hlt; simp at hlt
      simp only [Bool.and_eq_true, Bool.not_eq_true', List.isEmpty_eq_false_iff, ne_eq, bne_iff_ne,
        decide_eq_true_eq]
      exact ⟨⟨hne, by omega⟩, by omega⟩
    rw [hu]
    exact hg0.put a1

set_option maxHeartbeats 1000000 in
/-- **`gatherheredocuments`** keeps the cursor at a token boundary -/
theorem gather_b : SatW (GB L ps) (GB L ps) gatherheredocuments (fun _ => True) := by
  unfold gatherheredocuments
  simp only []
  refine HT.get_bind (fun l00 => HTQAt.ofHT ?_)
  refine HT.loop (E := ET) (I := fun _ l e => GB L ps l e) True.intro (fun _ => ?_) _ ()
  refine HT.get_bind (fun l0 => ?_)
  split
  · exact HT.pure (fun l e h => ⟨True.intro, h.2⟩)
  · rename_i id kill rest _
    refine HTQAt.ofHT ?_
    refine HT.bind (HT.pre peekc_gc (fun l e h => h.1)) (fun p => ?_)
    have htail : HT (G2 L ps) (do
        modify fun l => { l with redirstack := rest }
        makeheredoc id kill
        pure (Sum.inl ()) : M (Unit ⊕ Unit))
        (fun r l e => ∃ u, r = .inl u ∧ GB L ps l e) ET := by
      refine HT.bind (Q := fun _ l e => G2 L ps l e) (HT.modify (fun l e h => h)) (fun _ => ?_)
      refine HT.bind (makeheredoc_up id kill) (fun _ => ?_)
      exact HT.pure (fun l e h => ⟨(), rfl, h.2⟩)
    cases p with
    | some ch =>
      simp only [Option.isNone_some, Bool.false_eq_true, if_false, pure_bind]
      refine HT.post (HT.pre htail (fun l e h => h.2)) ?_
      rintro r l e ⟨u, rfl, h⟩
      exact h
    | none =>
      simp only [Option.isNone_none, if_true]
      refine HT.bind (HT.reader run_optStrict) (fun s => ?_)
      cases s with
      | true =>
        simp only [Bool.not_true, Bool.false_eq_true, if_false, pure_bind]
        refine HT.post (HT.pre htail (fun l e h => h.2.2)) ?_
        rintro r l e ⟨u, rfl, h⟩
        exact h
      | false =>
        simp only [Bool.not_false, if_true]
        refine HT.bind (Q := fun _ l e => GB L ps l e) ?_
          (fun _ => HT.pure (fun l e h => ⟨True.intro, h⟩))
        intro l e h
        obtain ⟨_, hlen, hg⟩ := h
        rw [run_bumpIdx]
        refine ⟨hg.put hg.1, ?_⟩
        rw [tapeOf_put]
        exact bndB_of_len (by have := hlen (by trivial); show L.length ≤ (tapeOf l e).idx + 1; omega)

end

end Bashlex.C04.WB
