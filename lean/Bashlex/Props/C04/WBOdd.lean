/-
  C04, word boundaries, part 5: `_readtokenword` entered ON a break character that does not open
  a process substitution delivers no token (whatever the parser-state flags are: with
  `ps.regexp` / `ps.dblparen` set `_readtoken` would enter it so).

  The first iteration of the loop leaves it with an empty `tokenword` (`<` / `>`: the look-ahead
  of `handleshellexp` is put back, then the character itself), and `_readtokenword` raises on an
  empty word (`_is_assignment` indexes `value[0]`; the NUMBER, special-case and reserved-word
  exits need a non-empty word).
-/
import Bashlex.Props.C04.WBWord
import Bashlex.Props.C03.TokWNE

namespace Bashlex.C04.WB
open Bashlex Bashlex.M Bashlex.C10 Bashlex.C11 Bashlex.C03.Tok Bashlex.C04 Bashlex.C04.TTP
set_option linter.unusedSimpArgs false
set_option linter.unusedVariables false

/-! ## an empty word is not delivered -/

open C12 C01 in
theorem sat_specialcasetokens_ne (s : Str) :
    Sat (specialcasetokens s) (fun r => ∀ ty, r = some ty → s ≠ []) := by
  unfold specialcasetokens
  simp only []
  sat_walk_h
  all_goals (intro ty hty; cases hty <;> (rintro rfl; simp_all))

open C12 C01 in
set_option maxHeartbeats 1000000 in
/-- the part of `_readtokenword` after `# got_token` returns only for a non-empty word -/
theorem sat_finishWord_ne (st : RWState) : Sat (finishWord st) (fun _ => st.tokenword ≠ []) := by
  unfold finishWord
  simp only []
  refine Sat.bind_any (fun _ => ?_)
  refine Sat.bind_any (fun l => ?_)
  refine Sat.ite (fun hc => ?_) (fun _ => ?_)
  · have hne : st.tokenword ≠ [] := by
      intro h0
      rw [h0] at hc
      simp [legalNumber] at hc
    exact (Sat.trivial _).weaken (fun _ _ => hne) (fun _ h => h)
  refine Sat.bind (sat_specialcasetokens_ne _) (fun r hr => ?_)
  split
  · exact (Sat.trivial _).weaken (fun _ _ => hr _ rfl) (fun _ h => h)
  refine Sat.bind_any (fun l => ?_)
  refine Sat.ite (fun _ => ?_) (fun _ => ?_)
  · split
    · rename_i ttype hlook
      exact (Sat.trivial _).weaken (fun _ _ => C03.lookup_ne hlook) (fun _ h => h)
    · tf_walk
      all_goals (first
        | exact absurd (by assumption : legalIdentifier _ = true) Bool.false_ne_true
        | assumption)
  · tf_walk
    all_goals (first
      | exact absurd (by assumption : legalIdentifier _ = true) Bool.false_ne_true
      | assumption)

/-! ## the first iteration -/

instance : EnvStable (fun (_ : Local) (_ : Env) => True) := ⟨fun _ _ _ _ _ _ => True.intro⟩

/-- a break character in hand: put back, the loop is left -/
theorem rwBreak_brk {P : Local → Env → Prop} (st : RWState) (c : Char)
    (hb : (synClass c).brk = true) :
    HT P (rwBreak st c false)
      (fun r _ _ => ∃ st1, r = .inr st1 ∧ st1.tokenword = st.tokenword) ET := by
  unfold rwBreak
  simp only [Bool.not_false, if_true]
  have hv : SatW (fun _ _ => True) (fun _ _ => True) (shellbreak c)
      (fun r => r = (synClass c).brk) := by
    unfold shellbreak
    exact SatW.bind (syn_val c) (fun r hr => SatW.pure (fun _ _ h => h) (by rw [hr]))
  refine HT.pre (P := fun _ _ => True) ?_ (fun _ _ _ => True.intro)
  refine HT.bind hv (fun b => ?_)
  refine HT.forget (fun hbv => ?_)
  subst hbv
  rw [hb]
  simp only [if_true]
  refine HT.skip (fun _ => ?_)
  exact HT.pure (fun _ _ _ => ⟨_, rfl, rfl⟩)

/-- `handleshellexp` on `<` / `>` not followed by `(`: the look-ahead is put back -/
theorem hse_back {L : Str} {ps : List Nat} {i : Nat} (st : RWState) (c : Char) (cd : Option Char)
    (hc : c ≠ '$') (hpk : peekC L i ≠ some '(') :
    HT (Tp L ps i) (handleshellexp st c cd) (fun x _ _ => x = (st, true)) ET := by
  unfold handleshellexp
  simp only []
  refine HT.bind getc_peek (fun peek => ?_)
  refine HT.forget (fun hp => ?_)
  have hcd : (c == '$') = false := by simpa using hc
  have hpp : (peek == some '(') = false := by
    rw [hp]; simpa using hpk
  rw [hcd, hpp]
  simp only [Bool.false_and, Bool.or_false, Bool.false_eq_true, if_false]
  refine HT.skip (fun _ => ?_)
  exact HT.pure (fun _ _ _ => rfl)

section
variable {L : Str} {a : Nat}

theorem brk_nquote {c : Char} (h : (synClass c).brk = true) : (synClass c).quote = false := by
  cases hq : (synClass c).quote with
  | false => rfl
  | true => rw [quote_nonbreak hq] at h; cases h

set_option maxHeartbeats 1000000 in
/-- the first iteration of the loop, entered on a break character that does not open a process
    substitution: the loop is left with the empty word -/
theorem first_step_brk (st : RWState) (ch : Char) (hc : st.c = some ch)
    (hpn : st.passNext = false) (htw : st.tokenword = [])
    (hch : L[a]? = some ch) (hbrk : (synClass ch).brk = true) (hnp : procSubAtB L a = false) :
    HT (Tp L [a] (a + 1)) (readtokenwordStep st)
      (fun r _ _ => ∃ st1, r = .inr st1 ∧ st1.tokenword = []) ET := by
  have hfin : ∀ {P : Local → Env → Prop}, HT P (rwBreak st ch false)
      (fun r _ _ => ∃ st1, r = .inr st1 ∧ st1.tokenword = []) ET := by
    intro P
    refine HT.post (rwBreak_brk st ch hbrk) ?_
    rintro r _ _ ⟨st1, h1, h2⟩
    exact ⟨st1, h1, by rw [h2, htw]⟩
  rw [readtokenwordStep_eq, hc]
  simp only []
  rw [if_neg (by rw [hpn]; exact Bool.false_ne_true)]
  refine keep_bind k_currentDelimiter (fun cd _ => ?_)
  refine HT.ite (fun hbs => ?_) (fun hbs => ?_)
  · exfalso
    have : ch = '\\' := by simpa using hbs
    subst this
    revert hbrk; decide
  refine keep_bind (v_shellquote ch) (fun b hb => ?_)
  subst hb
  rw [brk_nquote hbrk]
  simp only [Bool.false_eq_true, if_false]
  refine keep_bind (v_shellexp ch) (fun b hb => ?_)
  subst hb
  refine HT.ite (fun hx => ?_) (fun hx => hfin)
  have hcc := exp_brk hx hbrk
  have hpk : peekC L (a + 1) ≠ some '(' := by
    intro hp
    unfold procSubAtB at hnp
    rw [hch, hp] at hnp
    rcases hcc with rfl | rfl <;> simp at hnp
  have hne : ch ≠ '$' := by rcases hcc with rfl | rfl <;> decide
  refine HT.bind (hse_back st ch cd hne hpk) (fun x => ?_)
  refine HT.pre (P := fun _ _ => x = (st, true) ∧ True) ?_ (fun _ _ h => ⟨h, True.intro⟩)
  refine HT.forget (fun hx' => ?_)
  subst hx'
  show HT _ (rwBreak st ch (!true)) _ _
  rw [Bool.not_true]
  exact hfin

/-- **`_readtokenword(c)` entered on a break character that does not open a process
    substitution delivers no token** -/
theorem readtokenword_brk (ch : Char) (hch : L[a]? = some ch)
    (hbrk : (synClass ch).brk = true) (hnp : procSubAtB L a = false) {β : Type}
    {k : Token → M β} {Q : β → Local → Env → Prop} :
    HT (Tp L [a] (a + 1)) (readtokenword ch >>= k) Q ET := by
  refine HT.bind (Q := fun _ _ _ => False) ?_ (fun _ => HT.pre_false)
  unfold readtokenword
  refine HT.bind (Q := fun _ l e => Tp L [a] (a + 1) l e) (HT.pure (fun _ _ h => h)) (fun fuel => ?_)
  refine HT.bind (Q := fun st _ _ => st.tokenword = []) ?_ (fun st => ?_)
  · refine HT.pre (HT.loop (E := ET)
      (I := fun st l e => (st.c = some ch ∧ st.passNext = false ∧ st.tokenword = []) ∧
        Tp L [a] (a + 1) l e) True.intro (fun st => ?_) fuel _) (fun l e h => ⟨⟨rfl, rfl, rfl⟩, h⟩)
    refine HT.pre_pure (fun hst => ?_)
    refine HT.post (first_step_brk st ch hst.1 hst.2.1 hst.2.2 hch hbrk hnp) ?_
    rintro r l e ⟨st1, rfl, h⟩
    exact h
  · intro l e h
    have := sat_finishWord_ne st l e
    rcases hr : (finishWord st).run l e with ⟨r, e'⟩
    rw [hr] at this
    cases r with
    | ok v => exact absurd h this
    | error x => exact True.intro

end

end Bashlex.C04.WB
