/-
  C04, word boundaries (the clauses `word-starts-late`, `word-cut-short` and — for plain words —
  `word-not-whole` of `Spec.localTextViol`) at TOKEN level.

  `nextToken_wb`: from a cursor at a token boundary (`bndB L i0`) `token()` delivers a token such
  that
    * a WORD / ASSIGNMENT_WORD token at `(a, k)` satisfies `WBTok`:
        `tokStartsOK`  it starts at the start of the line, after a break character (a blank, a
                       metacharacter, the newline of a skipped line continuation), or after a `-`
                       (DASH after `<&` / `>&`, `<<-`): `startsB L a`;
        `tokEndsOK`    it ends at the end of the line, on a break character that does not open a
                       process substitution (the character `_readtokenword` put back; after the
                       double `_ungetc` of D32 — `a<\⏎b` — this is the NEWLINE of the
                       continuation and the span keeps `<\`), or before the final continuation
                       (D31 + D32, `a<\`): `exitB L k`;
        `tokWhole_plain`  a value in which none of `\ ' " backquote $ < >` occurs holds no break
                       character (`plainOKB`; `WBPlain.lean`: a break character enters
                       `tokenword` only after a backslash, inside what a quote or an expansion
                       returns, or as the `<` / `>` of a process substitution);
      every token read by `_readtokenword` (reserved words, NUMBER, … too) satisfies these: `wbOK`
      excuses the operators `_readtoken` returns bare (`opTyB`) and EOF only;
    * the cursor after the token is at a token boundary again (`BI`); a token is never read
      starting ON a break character that does not open a process substitution (`WBOdd.lean`:
      whatever `ps.regexp` / `ps.dblparen` are, `_readtokenword` delivers nothing then).
  `TokWB`: the statement about the token source used by `Props/C04Words.lean`, with
  `tokWB : TokWB` for the real tokenizer.

  Validation by evaluation of the model: `WBValidate.lean` (corpus and three grids: 0 failures).
-/
import Bashlex.Props.C04.WBRead
import Bashlex.Props.C04.TokTextProof

namespace Bashlex.C04
open Bashlex Bashlex.M Bashlex.C10 Bashlex.C11 Bashlex.C03.Tok Bashlex.C04.TTP Bashlex.C04.WB
set_option linter.unusedSimpArgs false
set_option linter.unusedVariables false

/-- the token is an operator returned bare by `_readtoken` (its spelling ends in a break
    character or `-`), or EOF -/
def opTyB (t : Token) : Bool :=
  match t.ttype with
  | some ty => opEnd ty || ty == .EOF
  | none => false

/-- **the word-boundary facts of a delivered token** (decidable): every token that is not an
    operator or EOF — i.e. every token read by `_readtokenword` — starts and ends at a boundary -/
def wbOK (L : Str) (t : Token) : Bool :=
  opTyB t || (startsB L t.lexpos && exitB L t.endlexpos && plainOKB t.valueStr)

def WBTok (L : Str) (t : Token) : Prop := wbOK L t = true

instance (L : Str) (t : Token) : Decidable (WBTok L t) := inferInstanceAs (Decidable (_ = true))

theorem opTyB_word {t : Token} (hw : isWordTy t = true) : opTyB t = false := by
  unfold isWordTy Token.is at hw
  unfold opTyB
  cases hty : t.ttype with
  | none => rfl
  | some ty =>
    rw [hty] at hw
    simp only [Bool.or_eq_true, beq_iff_eq, Option.some.injEq] at hw
    rcases hw with rfl | rfl <;> decide

theorem WBTok.facts {L : Str} {t : Token} (h : WBTok L t) (hw : opTyB t = false) :
    startsB L t.lexpos = true ∧ exitB L t.endlexpos = true ∧ plainOKB t.valueStr = true := by
  unfold WBTok wbOK at h
  rw [hw] at h
  simp only [Bool.false_or, Bool.and_eq_true] at h
  exact ⟨h.1.1, h.1.2, h.2⟩

theorem WBTok.word {L : Str} {t : Token} (h : WBTok L t) (hw : isWordTy t = true) :
    startsB L t.lexpos = true ∧ exitB L t.endlexpos = true ∧ plainOKB t.valueStr = true :=
  h.facts (opTyB_word hw)

theorem wbTok_of_ty {L : Str} {t : Token} {ty : TokType} (h : t.ttype = some ty)
    (h1 : opEnd ty = true) : WBTok L t := by
  unfold WBTok wbOK opTyB
  rw [h]
  simp only [h1, Bool.true_or]

theorem wbTok_eof (L : Str) : WBTok L eofTok := by
  unfold WBTok wbOK opTyB eofTok
  rfl

theorem wbTok_word {L : Str} {t : Token} {a k : Nat} {tw : Str} (h : WordTok a k tw t)
    (hs : startsB L a = true) (he : exitB L k = true) (hp : plainOKB tw = true) : WBTok L t := by
  unfold WBTok wbOK
  have e1 : t.lexpos = a := by simp [Token.lexpos, h.1]
  have e2 : t.endlexpos = k := by simp [Token.endlexpos, h.1]
  have e3 : plainOKB t.valueStr = true := by
    rcases h.2.2 with hv | ⟨hv, _, _⟩
    · simp only [Token.valueStr, hv]; exact hp
    · simp only [Token.valueStr, hv]; rfl
  rw [e1, e2, he, hs, e3]
  simp

section
variable {L : Str}

theorem bi_recordpos (rel : Nat) : SatW (BI L) (BI L) (recordpos rel) (fun _ => True) := by
  unfold recordpos; w_walk

theorem bi_createtoken (ty : TokType) (v : TVal) (fl : WordFlags) :
    SatW (BI L) (BI L) (createtoken ty v fl) (fun _ => True) := by
  unfold createtoken; (try simp only []); w_walk

/-- **`token()`** from a cursor at a token boundary -/
theorem nextToken_wb (hS : ScanHyp) (hnl : NL L) (hlast : L ≠ [] → L.getLast? = some '\n')
    {i0 : Nat} (hb : bndB L i0 = true) :
    HT (Tp L [] i0) nextToken (fun t l e => WBTok L t ∧ BI L l e) ET := by
  unfold nextToken
  simp only []
  refine HT.bind (Q := fun _ l e => Tp L [] i0 l e) (HT.modify (fun l e h => h)) (fun _ => ?_)
  refine HT.bind (readtoken_w hS hnl hlast hb) (fun r => ?_)
  have fin : ∀ (cur : Token), WBTok L cur →
      HT (BI L) (do
        modify fun l => { l with currentToken := cur }
        modify fun l => { l with ps := { l.ps with eoftoken := false } }
        pure cur : M Token) (fun t l e => WBTok L t ∧ BI L l e) ET := by
    intro cur hcur
    refine HT.bind (Q := fun _ l e => BI L l e) (HT.modify (fun l e h => h)) (fun _ => ?_)
    refine HT.bind (Q := fun _ l e => BI L l e) (HT.modify (fun l e h => h)) (fun _ => ?_)
    exact HT.pure (fun l e h => ⟨hcur, h⟩)
  cases r with
  | inl ty =>
    refine HT.pre (P := fun l e => opEnd ty = true ∧ BI L l e)
      (HT.pre_pure (fun hty => ?_)) (fun l e h => ⟨h.2, h.1⟩)
    have h1 : HT (BI L) (do recordpos; createtoken ty ty.enumValue : M Token)
        (fun t l e => (t.ttype = some ty ∧ t.value = ty.enumValue) ∧ BI L l e) ET := by
      refine HT.bind (Q := fun _ l e => BI L l e) (HT.post (bi_recordpos 0) (fun _ _ _ h => h.2))
        (fun _ => ?_)
      exact HT.exn (HT.and_sat (HT.post (bi_createtoken ty _ []) (fun _ _ _ h => h.2))
        sat_createtoken') (fun _ _ => True.intro)
    have h := HT.bind h1 (fun cur => HT.pre_pure (fun hc => fin cur (wbTok_of_ty hc.1 hty)))
    simpa only [bind_assoc] using h
  | inr t =>
    simp only [pure_bind]
    refine HT.pre (P := fun l e => WBTok L t ∧ BI L l e) (HT.pre_pure (fun ht => fin t ht)) ?_
    intro l e h
    obtain ⟨hbi, hcase⟩ := h
    refine ⟨?_, hbi⟩
    rcases hcase with rfl | ⟨a, k, ⟨tw, hw, hp⟩, hs, he⟩
    · exact wbTok_eof L
    · exact wbTok_word hw hs he hp

end

/-! ## the statement about the token source -/

/-- **the token source and word boundaries**.
    `next`: from every `Good` state of a parser object over the line `g.line` with an empty
    look-ahead slot and the cursor at a token boundary (`BI`), every token `token()` delivers
    satisfies `WBTok g.line`, and the cursor is at a token boundary again.
    (`gatherheredocuments` and the semantic actions keep `BI`: `WB.gather_b`, `WB.b_action`.) -/
structure TokWB : Prop where
  next : ∀ g, C11.WFG g →
    C11.HT (fun l e => C11.Good g [] l e ∧ l.eolLookahead = none ∧ BI g.line l e) nextToken
      (fun t l e => WBTok g.line t ∧ BI g.line l e) (fun _ => True)

theorem bi_of_dead {L : Str} {ps : List Nat} {l : Local} {e : Env} (h : C03.Tok.Dead L ps l e) :
    BI L l e := by
  obtain ⟨a1, a2, _⟩ := h
  exact ⟨a1, bndB_of_len (by omega)⟩

/-- **`TokWB` holds of the real tokenizer** (no hypotheses) -/
theorem tokWB : TokWB where
  next := by
    intro g hg
    refine HT.pre (P := fun l e => (∃ i, bndB g.line i = true ∧ Tp g.line [] i l e) ∨
      C03.DeadS g.line [] l.store l.redirstack l e) ?_ ?_
    · intro l e hp
      rcases hp with ⟨i, hb, hp⟩ | hp
      · have hfacts : NL g.line ∧ (g.line ≠ [] → g.line.getLast? = some '\n') := by
          rcases wfg_line hg with hl | ⟨hnl, hlast⟩
          · rw [hl]
            exact ⟨fun i ch h => by simp at h, fun h => absurd rfl h⟩
          · exact ⟨hnl, fun _ => hlast⟩
        exact nextToken_wb scanHyp hfacts.1 hfacts.2 hb l e hp
      · have h := C03.nextToken_dead (L := g.line) (sr := l.store) (rk := l.redirstack) l e hp
        revert h
        rcases nextToken.run l e with ⟨r, e'⟩
        cases r with
        | error x => exact fun _ => True.intro
        | ok v =>
          obtain ⟨t, l'⟩ := v
          intro h
          obtain ⟨rfl, hd, _, _⟩ := h
          exact ⟨wbTok_eof _, bi_of_dead hd⟩
    · intro l e ⟨hgood, hslot, hbi⟩
      obtain ⟨⟨_, hline, _⟩, _, hidx, hps⟩ := hgood
      rcases hidx with hidx | ⟨_, hstrict⟩
      · left
        exact ⟨(tapeOf l e).idx, hbi.2, hline, rfl, hidx, hslot, hps⟩
      · by_cases hle : (tapeOf l e).idx ≤ g.line.length
        · left
          exact ⟨(tapeOf l e).idx, hbi.2, hline, rfl, hle, hslot, hps⟩
        · right
          exact ⟨⟨hline, by omega, hslot, hps, hstrict⟩, rfl, rfl⟩

/-! ## the two token-level theorems, spelled out -/

/-- **`tokStartsOK`** -/
theorem tokStartsOK (g : C11.Ghost) (hg : C11.WFG g) :
    C11.HT (fun l e => C11.Good g [] l e ∧ l.eolLookahead = none ∧ BI g.line l e) nextToken
      (fun t _ _ => isWordTy t = true → startsB g.line t.lexpos = true) (fun _ => True) :=
  HT.post (tokWB.next g hg) (fun t _ _ h hw => (h.1.word hw).1)

/-- **`tokEndsOK`** -/
theorem tokEndsOK (g : C11.Ghost) (hg : C11.WFG g) :
    C11.HT (fun l e => C11.Good g [] l e ∧ l.eolLookahead = none ∧ BI g.line l e) nextToken
      (fun t l e => (isWordTy t = true → exitB g.line t.endlexpos = true) ∧ BI g.line l e)
      (fun _ => True) :=
  HT.post (tokWB.next g hg) (fun t _ _ h => ⟨fun hw => (h.1.word hw).2.1, h.2⟩)

/-- **`tokWhole_plain`**: the value of a WORD / ASSIGNMENT_WORD token in which none of
    `\ ' " backquote $ < >` occurs holds no break character -/
theorem tokWhole_plain (g : C11.Ghost) (hg : C11.WFG g) :
    C11.HT (fun l e => C11.Good g [] l e ∧ l.eolLookahead = none ∧ BI g.line l e) nextToken
      (fun t _ _ => isWordTy t = true → plainV t.valueStr = true → nbV t.valueStr = true)
      (fun _ => True) := by
  refine HT.post (tokWB.next g hg) (fun t _ _ h hw hp => ?_)
  have := (h.1.word hw).2.2
  unfold plainOKB at this
  rw [hp] at this
  simpa using this

end Bashlex.C04

#print axioms Bashlex.C04.tokWB
#print axioms Bashlex.C04.tokStartsOK
#print axioms Bashlex.C04.tokEndsOK
#print axioms Bashlex.C04.tokWhole_plain
