/-
  C04, part 7: the LR engine, one parser run at every nesting budget, `parse`.
-/
import Bashlex.Props.C04.Tree
import Bashlex.Props.C04.Eol

namespace Bashlex.C04
open Bashlex Bashlex.M Bashlex.Node Bashlex.LR
set_option linter.unusedSimpArgs false
set_option linter.unusedVariables false
set_option linter.unnecessarySimpa false

/-! ## the invariant along the LR stack -/

/-- the value invariant: C11's (tokens start inside the line), C12's sort of the grammar symbol,
    and the provenance of textual nodes / token text of tokens -/
def VIall (g : C11.Ghost) (src : Str) (sym : Nat) (v : SVal) : Prop :=
  C11.VI g v ∧ C12.VI sym v ∧ GV (deepP src 0) (Tk (Tape.ofInput src).line) v ∧
    GV (spineP (Tape.ofInput src).line 0) (Tk (Tape.ofInput src).line) v

/-- the state invariant: C11's `Good` (the tape holds the line, cursor inside) and an empty
    `_eol_ungetc_lookahead` slot -/
def I4 (g : C11.Ghost) (l : Local) (e : Env) : Prop := C11.Good g [] l e ∧ l.eolLookahead = none

/-- the relational stack invariant for `run_sound_ord` -/
def SI (g : C11.Ghost) (src : Str) (vs : List (Nat × SVal)) (la : Option (Nat × SVal))
    (l : Local) (e : Env) : Prop :=
  I4 g l e ∧ (∀ x ∈ vs, VIall g src x.1 x.2) ∧ (∀ x, la = some x → VIall g src x.1 x.2)

def Fin4 (g : C11.Ghost) (src : Str) (v : SVal) (l : Local) (e : Env) : Prop :=
  ∃ sym, VIall g src sym v

theorem forall2_of_mem {VI : Nat → SVal → Prop} :
    ∀ (args : List (Nat × SVal)), (∀ x ∈ args, VI x.1 x.2) →
      Forall2 VI (args.map (·.1)) (args.map (·.2))
  | [], _ => .nil
  | x :: xs, h => .cons (h x List.mem_cons_self)
      (forall2_of_mem xs (fun y hy => h y (List.mem_cons_of_mem _ hy)))

theorem forall2_imp {α β} {R S : α → β → Prop} (hRS : ∀ a b, R a b → S a b) {l₁ : List α}
    {l₂ : List β} (h : Forall2 R l₁ l₂) : Forall2 S l₁ l₂ := by
  induction h with
  | nil => exact .nil
  | cons h1 _ ih => exact .cons (hRS _ _ h1) ih

/-- a delivered token that has a string value has a type other than EOF -/
theorem tk_str {line : Str} {t : Token} (h : Tk line t) (v : Str) (hv : t.value = .str v) :
    ∃ ty, t.ttype = some ty ∧ ty ≠ .EOF := by
  obtain ⟨a, e, _, _, _, _, heof, hsome, _⟩ := h.1.str hv
  cases hty : t.ttype with
  | none => rw [hty] at hsome; cases hsome
  | some ty =>
    refine ⟨ty, rfl, ?_⟩
    rintro rfl
    simp [Token.is, hty] at heof

section hooks
variable {g : C11.Ghost} {src : Str} {d : Nat}

/-- the nested parser runs on a parser object of its own: the caller's slot is untouched -/
theorem keepsEol_nestedOf (d : Nat) (s : Str) (b : Bool) : C10.KeepsEol (C07.nestedOf d s b) := by
  unfold C07.nestedOf
  refine KeepsEol.get_bind (fun outer ho => ?_)
  refine C10.EndsEol.keeps ?_
  refine C10.EndsEol.bind_right (fun _ => C10.EndsEol.bind_right (fun r =>
    C10.EndsEol.bind_right (fun inner => ?_)))
  exact endsEol_set_bind ho (C10.KeepsEol.pure _)

/-- what `token()` delivers from a state satisfying the invariant -/
theorem next_C04 (hT : TokText) (hg : C11.WFG g) (hline : g.line = (Tape.ofInput src).line) :
    C11.HT (I4 g) nextToken
      (fun t l e => I4 g l e ∧ C11.TokOK g t ∧ Tk (Tape.ofInput src).line t) (fun _ => True) := by
  intro l e hI
  have a1 := C11.nextToken_good (g := g) l e hI.1
  have a2 := hT.next g hg l e hI
  have a3 := C12.sat_nextToken l e
  rcases hr : nextToken.run l e with ⟨r, e'⟩
  rw [hr] at a1 a2 a3
  cases r with
  | error x => trivial
  | ok v =>
    obtain ⟨t, l'⟩ := v
    simp only [] at a1 a2 a3 ⊢
    refine ⟨⟨a1.2, a2.2⟩, ⟨a1.1, a2.1.tl⟩, ?_, a3⟩
    rw [← hline]; exact a2.1

/-- what a semantic action does to the state, given C11's facts about its arguments -/
theorem act_state (hT : TokText) (hnp11 : C11.NPOK g (fun _ => True) (C07.nestedOf d))
    (f : String) (args : List SVal) (hv11 : C11.ArgsOK g args) :
    C11.HT (I4 g) (action (C07.nestedOf d) f args)
      (fun r l e => I4 g l e ∧ C11.VI g r.1) (fun _ => True) := by
  intro l e hI
  have a1 := C11.g_action hnp11 f args hv11 l e hI.1
  have a2 := keepsEol_action (keepsEol_nestedOf d) hT.gather f args l e
  rcases hr : (action (C07.nestedOf d) f args).run l e with ⟨r, e'⟩
  rw [hr] at a1
  cases r with
  | error x => trivial
  | ok v =>
    obtain ⟨r, l'⟩ := v
    exact ⟨⟨a1.2, a2 r l' e' hI.2 hr⟩, a1.1⟩

theorem hooks_C04 (hT : TokText) (hg : C11.WFG g) (hline : g.line = (Tape.ofInput src).line)
    (ih : ∀ body dp n, C07.RNested d body dp n → Tree4 body 0 n)
    (hnp11 : C11.NPOK g (fun _ => True) (C07.nestedOf d)) :
    HooksOrd realTables (lrHooks (C07.nestedOf d)) (SI g src) (Fin4 g src) (fun _ => True) := by
  have hnp12 : C12.NPOK (C07.nestedOf d) := by
    intro s b
    refine Sat.bind_any (fun _ => Sat.bind_any (fun _ => Sat.bind (C12.parserRun_ok C12.sat_nextToken d)
      (fun r hr => ?_)))
    exact Sat.bind_any (fun _ => Sat.bind_any (fun _ => Sat.pure hr))
  have h12 := C12.hooks_ok C12.sat_nextToken hnp12
  have hC := ctx_C04 src d ih
  have hC0 := ctx_spine (Tape.ofInput src).line d
  refine ⟨?_, ?_, ?_, ?_, ?_, fun la => Sat.trivial _⟩
  · -- next
    intro vs l e hsi
    obtain ⟨hI, hvs, _⟩ := hsi
    have a2 := h12.next l e
    have a3 : C11.HT (I4 g) (lrHooks (C07.nestedOf d)).next
        (fun la l e => I4 g l e ∧ C11.VI g la.2 ∧
          GV (deepP src 0) (Tk (Tape.ofInput src).line) la.2 ∧
          GV (spineP (Tape.ofInput src).line 0) (Tk (Tape.ofInput src).line) la.2)
        (fun _ => True) := by
      show C11.HT _ (nextToken >>= fun t => pure (symOfTok t, SVal.tok t)) _ _
      refine C11.HT.bind (next_C04 hT hg hline) (fun t => C11.HT.pure (fun l e hp => ?_))
      refine ⟨hp.1, ?_, hp.2.2, hp.2.2⟩
      intro t' ht'; cases ht'; exact hp.2.1
    have a3' := a3 l e hI
    rcases hr : (lrHooks (C07.nestedOf d)).next.run l e with ⟨r, e'⟩
    rw [hr] at a2 a3'
    cases r with
    | error x => trivial
    | ok v =>
      obtain ⟨la, l'⟩ := v
      exact ⟨a3'.1, hvs, fun x hx => by cases hx; exact ⟨a3'.2.1, a2, a3'.2.2.1, a3'.2.2.2⟩⟩
  · -- shift
    rintro vs la l e ⟨hgood, hvs, hla⟩
    refine ⟨hgood, ?_, fun x hx => by cases hx⟩
    intro x hx
    rcases List.mem_append.mp hx with hx | hx
    · exact hvs x hx
    · simp at hx; subst hx; exact hla _ rfl
  · -- a NEWLINE shifted in state 0
    rintro la l e ⟨hgood, hvs, _⟩
    exact ⟨hgood, hvs, fun x hx => by cases hx⟩
  · -- act
    intro p lhs rhs rest args la hp hargs _ _ l e hsi
    obtain ⟨hI, hvs, hla⟩ := hsi
    have hA : ∀ x ∈ args, VIall g src x.1 x.2 := fun x hx => hvs x (List.mem_append_right _ hx)
    have hf2 : Forall2 (VIall g src) rhs (args.map (·.2)) := by
      rw [← hargs]; exact forall2_of_mem args hA
    have hv11 : ∀ a, a ∈ args.map (·.2) → C11.VI g a := by
      intro a ha
      obtain ⟨x, hx, rfl⟩ := List.mem_map.mp ha
      exact (hA x hx).1
    have hv4 : ∀ a ∈ args.map (·.2), GV (deepP src 0) (Tk (Tape.ofInput src).line) a := by
      intro a ha
      obtain ⟨x, hx, rfl⟩ := List.mem_map.mp ha
      exact (hA x hx).2.2.1
    have hv5 : ∀ a ∈ args.map (·.2),
        GV (spineP (Tape.ofInput src).line 0) (Tk (Tape.ofInput src).line) a := by
      intro a ha
      obtain ⟨x, hx, rfl⟩ := List.mem_map.mp ha
      exact (hA x hx).2.2.2
    have hf12 : Forall2 C12.VI rhs (args.map (·.2)) := forall2_imp (fun _ _ h => h.2.1) hf2
    have a1 := act_state hT hnp11 (Gen.prodFuncs.getD p "") _ hv11 l e hI
    have a2 := h12.act p lhs rhs _ hp hf12 l e
    have a3 := sat_action hC (fun t ht => ht.2) (fun t ht => tk_str ht) hp hf12 hv4 l e
    have a4 := sat_action hC0 (fun t ht => ht.2) (fun t ht => tk_str ht) hp hf12 hv5 l e
    rcases hr : ((lrHooks (C07.nestedOf d)).act p (args.map (·.2))).run l e with ⟨r, e'⟩
    have hr' : (action (C07.nestedOf d) (Gen.prodFuncs.getD p "") (args.map (·.2))).run l e = (r, e') := hr
    rw [hr] at a2 ⊢
    rw [hr'] at a1 a3 a4
    cases r with
    | error x => trivial
    | ok v =>
      obtain ⟨r, l'⟩ := v
      simp only [] at a1 a2 a3 a4 ⊢
      have hall : VIall g src lhs r.1 := ⟨a1.2, a2.1, a3, a4⟩
      split
      · exact ⟨lhs, hall⟩
      · refine ⟨a1.1, ?_, hla⟩
        intro x hx
        rcases List.mem_append.mp hx with hx | hx
        · exact hvs x (List.mem_append_left _ hx)
        · simp at hx; subst hx; exact hall
  · -- accept
    rintro vs x la l e ⟨_, hvs, _⟩
    exact ⟨x.1, hvs x (List.mem_append_right _ (by simp))⟩

/-- the engine keeps the state invariant on every normal return (C11's engine lemma) -/
theorem hooksOK_state (hT : TokText) (hg : C11.WFG g) (hline : g.line = (Tape.ofInput src).line)
    (hnp11 : C11.NPOK g (fun _ => True) (C07.nestedOf d)) :
    C11.HooksOK (I4 g) (lrHooks (C07.nestedOf d)) (C11.VI g) (fun _ => True) := by
  refine ⟨?_, ?_, ?_, fun _ => ⟨trivial, trivial⟩, trivial⟩
  · show C11.SatI (I4 g) (nextToken >>= fun t => pure (symOfTok t, SVal.tok t)) _ _
    refine C11.HT.bind (next_C04 hT hg hline) (fun t => C11.HT.pure (fun l e hp => ⟨?_, hp.1⟩))
    intro t' ht'; cases ht'; exact hp.2.1
  · intro p args hargs
    exact C11.HT.post (act_state hT hnp11 _ args hargs) (fun r l e h => ⟨h.2, h.1⟩)
  · rintro ⟨sym, v⟩ hv
    show C11.HT _ (match v with | .tok t => pError t | _ => M.foreign "AssertionError" "p_error") _ _
    split
    · rename_i t
      exact C11.HT.weaken (C11.pError_ht (g := g) (N := fun _ => True) (ps := []) t (hv t rfl).1)
        (fun l e h => h.1) (fun _ _ _ h => h) (fun _ _ => trivial)
    · exact C11.HT.foreign trivial

end hooks

/-! ## one parser run -/

/-- a node value of a sort of the grammar is a conformant tree -/
theorem treeOK_of_vi {sym : Nat} {n : Node} (h : C12.VI sym (.node n)) : C12.TreeOK n := by
  unfold C12.VI at h
  cases hσ : C12.sortOfSymbol sym with
  | none => rw [hσ] at h; cases h
  | tok ty => rw [hσ] at h; obtain ⟨t, ht, _⟩ := h; cases ht
  | node c => rw [hσ] at h; obtain ⟨n', hn', hin⟩ := h; cases hn'; exact hin.tree
  | optNode c =>
    rw [hσ] at h
    rcases h with h | ⟨n', hn', hin⟩
    · cases h
    · cases hn'; exact hin.tree
  | nodes k => rw [hσ] at h; obtain ⟨l, hl, _⟩ := h; cases hl

theorem nestedStart_eq (outer : Local) (body : Str) (dp : Bool) :
    C07.nestedStart outer body dp = C11.nestedLocal outer body dp := rfl

/-- the nested-parse function seen from the calling parser (C11's `NPOK`), from a run that keeps
    `Good` from every start state satisfying the invariant -/
theorem npok_of_run {d : Nat}
    (hin : ∀ g', C11.WFG g' →
      C11.HT (I4 g') (parserRun d) (fun _ l e => C11.Good g' [] l e) (fun _ => True))
    (g : C11.Ghost) : C11.NPOK g (fun _ => True) (C07.nestedOf d) := by
  intro s b l e hgood
  have hrw : M.run (C07.nestedOf d s b) l e =
      match M.run (parserRun d) (C11.nestedLocal l s b) e with
      | (.ok (r, l'), e') => (.ok (r, { l with ps := l'.ps }), e')
      | (.error x, e') => (.error x, e') := C11.run_nestedOf (parserRun d) s b l e
  rw [hrw]
  have hwf : C11.WFG (C11.nestedGhost s e) := ⟨s, rfl, rfl⟩
  have h := hin (C11.nestedGhost s e) hwf (C11.nestedLocal l s b) e
    ⟨C11.good_nested l s b e, rfl⟩
  rcases hr : M.run (parserRun d) (C11.nestedLocal l s b) e with ⟨r, e'⟩
  rw [hr] at h
  cases r with
  | error x => exact Or.inr trivial
  | ok v =>
    obtain ⟨r, l'⟩ := v
    obtain ⟨⟨⟨hfr, hstrict⟩, _, _⟩, _⟩ := h
    have htape : e'.tape = e.tape := hfr.2
    have hst : e'.strict = e.strict := hstrict
    exact ⟨True.intro, C11.Good.env (l := { l with ps := l'.ps }) hgood htape hst⟩

/-- **every parser run, at every nesting budget**: from a `Good` state of a parser object over
    the source `src` with an empty look-ahead slot, every textual node of the returned tree — at
    any depth — has its provenance (`Tree4`), the nodes outside words in the root frame
    (`Spine4`); the state stays `Good` -/
theorem parserRun_C04 (hT : TokText) : ∀ d src g, C11.WFG g → g.line = (Tape.ofInput src).line →
    C11.HT (I4 g) (parserRun d)
      (fun r l e => (∀ n, r = some n → Tree4 src 0 n ∧ Spine4 (Tape.ofInput src).line 0 n) ∧
        C11.Good g [] l e)
      (fun _ => True) := by
  intro d
  induction d with
  | zero => intro src g _ _; exact C11.HT.raise trivial
  | succ d ih =>
    intro src g hg hline
    have ih' : ∀ body dp n, C07.RNested d body dp n → Tree4 body 0 n := by
      rintro body dp n ⟨outer, e, l', e', hrun⟩
      have hwf : C11.WFG (C11.nestedGhost body e) := ⟨body, rfl, rfl⟩
      have := ih body (C11.nestedGhost body e) hwf rfl
      rw [nestedStart_eq] at hrun
      exact ((C11.HT.ok this ⟨C11.good_nested outer body dp e, rfl⟩ hrun).1 n rfl).1
    have hnp11 : C11.NPOK g (fun _ => True) (C07.nestedOf d) := by
      refine npok_of_run (fun g' hg' => ?_) g
      obtain ⟨s', hl', _⟩ := hg'
      exact C11.HT.post (ih s' g' ⟨s', hl', by assumption⟩ hl') (fun _ _ _ h => h.2)
    rw [C07.parserRun_succ]
    have hrun := run_sound_ord real_WF (lrHooks (C07.nestedOf d))
      (hooks_C04 hT hg hline ih' hnp11) 1073741824
    have hrunI := C11.run_ok realTables (lrHooks (C07.nestedOf d))
      (hooksOK_state hT hg hline hnp11) 1073741824
    have hrun' : C11.HT (I4 g) (LR.run realTables (lrHooks (C07.nestedOf d)) 1073741824)
        (fun res l e => GoodO (Fin4 g src) res l e ∧ I4 g l e) (fun _ => True) := by
      intro l e hI
      have h1 := hrun l e ⟨hI, fun x hx => (by cases hx), fun x hx => (by cases hx)⟩
      have h2 := hrunI l e hI
      rcases hr : (LR.run realTables (lrHooks (C07.nestedOf d)) 1073741824).run l e with ⟨r, e'⟩
      rw [hr] at h1 h2
      cases r with
      | ok v => exact ⟨h1, h2.2⟩
      | error x => trivial
    refine C11.HT.bind hrun' (fun res => ?_)
    refine C11.HT.bind C11.HT.get (fun l0 => ?_)
    split
    · rename_i n _ _ _
      refine C11.HT.pure ?_
      rintro l e ⟨_, hfin, hI⟩
      refine ⟨?_, hI.1⟩
      intro m hm
      cases hm
      obtain ⟨sym, _, h12, h4, h5⟩ := hfin
      have hh := hidT_of_treeOK (treeOK_of_vi h12)
      exact ⟨G_resolve (resolveOK_deep src 0) _ n h4 hh, G_resolve (resolveOK_spine _ 0) _ n h5 hh⟩
    · exact C11.HT.pure (fun _ _ h => ⟨fun n hn => (by cases hn), h.2.2.1⟩)

/-! ## the entry points -/

theorem runParser_C04 (hT : TokText) {s : Str} {o : Opts} {t : List Char} {n : Node}
    (h : (runParser s o t).1 = .ok (some n)) : Tree4 s 0 n ∧ Spine4 (Tape.ofInput s).line 0 n := by
  unfold runParser at h
  simp only [] at h
  rcases hrun : (parserRun maxDepth).run { limit := o.limit }
      { tape := Tape.ofInput s, strict := o.strict, proceed := o.proceed, touched := t } with ⟨r, env'⟩
  rw [hrun] at h
  simp only [] at h
  cases r with
  | error x => cases h
  | ok v =>
    obtain ⟨a, l'⟩ := v
    have ha : a = some n := by
      simp only [Except.map] at h
      cases h; rfl
    exact (C11.HT.ok (parserRun_C04 hT maxDepth s (C11.topGhost s o) (C11.topGhost_wf s o) rfl)
      ⟨C11.good_top s o t, rfl⟩ hrun).1 n ha

/-- the provenance of a top-level part of `parse s`: it was found by a parser run over the suffix
    `s.drop index` and moved by `index` -/
def PartOK (s : Str) (n : Node) : Prop :=
  ∃ index, index ≤ s.length ∧ Tree4 (s.drop index) index n ∧
    Spine4 (Tape.ofInput (s.drop index)).line index n

theorem parseLoop_C04 (hT : TokText) (s : Str) (o : Opts) :
    ∀ (fuel index : Nat) (parts : List Node) (touched : List Char) (ps : List Node),
      (∀ n, n ∈ parts → PartOK s n) → (parseLoop s o fuel index parts touched).1 = .ok ps →
      ∀ n, n ∈ ps → PartOK s n := by
  intro fuel
  induction fuel with
  | zero => intro index parts touched ps _ h; simp [parseLoop] at h
  | succ fuel ih =>
    intro index parts touched ps hparts h
    unfold parseLoop at h
    split at h
    · rename_i hidx
      rcases hr : runParser (s.drop index) o touched with ⟨r, t⟩
      rw [hr] at h
      cases r with
      | error e => simp only [] at h; cases h
      | ok v =>
        cases v with
        | none => simp only [] at h; cases h; exact hparts
        | some part =>
          simp only [] at h
          have hp := runParser_C04 hT (s := s.drop index) (n := part) (by rw [hr])
          refine ih _ _ _ ps ?_ h
          intro n hn
          rcases List.mem_append.mp hn with hn | hn
          · exact hparts n hn
          · simp at hn; subst hn
            refine ⟨index, Nat.le_of_lt hidx, ?_, ?_⟩
            · have := hp.1.shift index
              simpa using this
            · have := hp.2.shift index
              simpa using this
    · cases h; exact hparts

/-- **provenance for `parse`** (all inputs, all options, under `TokText`) -/
theorem parse_C04 (hT : TokText) (s : Str) (o : Opts) (parts : List Node)
    (h : (parse s o).1 = .parts parts) : ∀ n ∈ parts, PartOK s n := by
  unfold parse at h
  rcases hr : runParser s o [] with ⟨r, t⟩
  rw [hr] at h
  cases r with
  | error e => simp only [] at h; cases h
  | ok v =>
    cases v with
    | none => simp only [] at h; cases h; intro n hn; cases hn
    | some first =>
      simp only [] at h
      have hp := runParser_C04 hT (s := s) (n := first) (by rw [hr])
      rcases hl : parseLoop s o (s.length + 1) (max (nextIndex first) 1) [first] t with ⟨r2, t2⟩
      rw [hl] at h
      cases r2 with
      | error e => simp only [] at h; cases h
      | ok ps =>
        simp only [] at h
        cases h
        exact parseLoop_C04 hT s o (s.length + 1) (max (nextIndex first) 1) [first] t _
          (by intro n hn; simp at hn; subst hn
              exact ⟨0, Nat.zero_le _, by simpa using hp.1, by simpa using hp.2⟩)
          (by rw [hl])

theorem parsesingle_C04 (hT : TokText) (s : Str) (o : Opts) (n : Node)
    (h : (parsesingle s o).1 = .single (some n)) :
    Tree4 s 0 n ∧ Spine4 (Tape.ofInput s).line 0 n := by
  unfold parsesingle at h
  rcases hr : runParser s o [] with ⟨r, t⟩
  rw [hr] at h
  cases r with
  | error e => simp only [] at h; cases h
  | ok v =>
    simp only [] at h
    cases h
    exact runParser_C04 hT (by rw [hr])

end Bashlex.C04
