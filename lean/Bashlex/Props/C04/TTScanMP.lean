/-
  C04, token text, part 12 (layer D): `_parse_matched_pair`.

  One iteration: `_getc` (the only tape access of `mpPre`), then a PURE computation on the
  scanner's state (`mpHead`, restated from the model by `rfl`): the character read is appended to
  `ret`; the iteration ends the scan (`done`) only on the closing character.  `mpPost`: nested
  scanners, whose return value is appended.
-/
import Bashlex.Props.C04.TTScan1

namespace Bashlex.C04.TTP
open Bashlex Bashlex.M Bashlex.C10 Bashlex.C11 Bashlex.C03.Tok Bashlex.C04
set_option linter.unusedSimpArgs false
set_option linter.unusedVariables false

/-- walk through a program without tape access, towards a fact about its result; the guards of
    the conditionals are kept -/
macro "sat_auto" : tactic => `(tactic| repeat' (first
  | with_reducible refine Sat.ite (fun h => ?_) (fun h => ?_)
  | with_reducible exact Sat.foreign trivial
  | with_reducible exact Sat.raise trivial
  | with_reducible refine Sat.bind_any (fun _ => ?_)
  | with_reducible refine Sat.pure ?_
  | with_reducible split))

/-! ## `mpPre`, restated -/

/-- the end of `mpPre`: backslash, the state of `${…}`; the state keeps `ret` and `count` -/
def mpTail (P : MPParams) (st : MPState) (c : Char) : M (Step MPState) := do
  let mut st := st
  if c == '\\' then st := { st with passnextchar := true }
  if P.dolbrace then
    if st.dolbracestate == .param then
      if st.ret.length > 1 then
        if c == '%' || c == '#' || c == '^' || c == ',' then st := { st with dolbracestate := .quote }
        else if c == '/' then st := { st with dolbracestate := .quote2 }
      else if isDolOp c then st := { st with dolbracestate := .op }
    if st.dolbracestate == .op && isDolOp c then st := { st with dolbracestate := .word }
  if st.dolbracestate.notInQuote2 && P.dquote && P.dolbrace && c == '\'' then
    return .cont st
  return .next st c

/-- `mpPre` after its `_getc` -/
def mpHead (P : MPParams) (lookforcomments : Bool) (st : MPState) (c : Char) : M (Step MPState) := do
  let mut st := st
  if st.insidecomment then
    st := { st with ret := st.ret ++ [c] }
    if c == '\n' then st := { st with insidecomment := false }
    return .cont st
  else if lookforcomments && !st.insidecomment && c == '#' &&
      (st.ret.isEmpty || st.ret.getLast? == some '\n' || (st.ret.getLast?.map shellblank).getD false) then
    st := { st with insidecomment := true }
  if st.passnextchar then
    return .cont { st with passnextchar := false, ret := st.ret ++ [c] }
  else if c == P.close then
    st := { st with count := st.count - 1 }
  else if P.opn != P.close && st.sawdollar && P.opn == '{' && c == P.opn then
    st := { st with count := st.count + 1 }
  else if !P.firstclose && c == P.opn then
    st := { st with count := st.count + 1 }
  st := { st with ret := st.ret ++ [c] }
  if st.count == 0 then return .done st.ret
  if P.opn == '\'' then
    if P.allowesc && c == '\\' then st := { st with passnextchar := true }
    return .cont st
  mpTail P st c

theorem mpPre_eq (P : MPParams) (lfc : Bool) (st : MPState) : mpPre P lfc st = (do
    let c0 ← getc (P.doublequotes != some '\'' && !st.passnextchar)
    let c ← match c0 with
      | none => matchedPairError P.close
      | some c => pure c
    mpHead P lfc st c) := by
  unfold mpPre mpHead mpTail
  rfl

/-- the state keeps `ret` and `count` -/
abbrev MKeep (st : MPState) (c : Char) (r : Step MPState) : Prop :=
  match r with
  | .cont s => s.ret = st.ret ∧ s.count = st.count
  | .next s c' => c' = c ∧ s.ret = st.ret ∧ s.count = st.count
  | .done _ => False

theorem sat_mpTail (P : MPParams) (st : MPState) (c : Char) : Sat (mpTail P st c) (MKeep st c) := by
  unfold mpTail
  simp only []
  sat_auto
  all_goals first | exact ⟨rfl, rfl⟩ | exact ⟨rfl, rfl, rfl⟩

/-- what one iteration does to the state: the character is appended; the scan ends on the
    closing character only -/
abbrev MPreR (P : MPParams) (st : MPState) (c : Char) (r : Step MPState) : Prop :=
  match r with
  | .cont s => s.ret = st.ret ++ [c] ∧ (st.count ≠ 0 → s.count ≠ 0)
  | .next s c' => c' = c ∧ s.ret = st.ret ++ [c] ∧ (st.count ≠ 0 → s.count ≠ 0)
  | .done r => r = st.ret ++ [c] ∧ (st.count ≠ 0 → c = P.close)

theorem mkeep_mpre {P : MPParams} {st st1 : MPState} {c : Char} {r : Step MPState}
    (h : MKeep st1 c r) (h1 : st1.ret = st.ret ++ [c]) (h2 : st.count ≠ 0 → st1.count ≠ 0) :
    MPreR P st c r := by
  cases r with
  | cont s => exact ⟨h.1.trans h1, fun h0 => by rw [h.2]; exact h2 h0⟩
  | next s c' => exact ⟨h.1, h.2.1.trans h1, fun h0 => by rw [h.2.2]; exact h2 h0⟩
  | done r => exact h.elim

set_option maxHeartbeats 2000000 in
theorem sat_mpHead (P : MPParams) (lfc : Bool) (st : MPState) (c : Char) :
    Sat (mpHead P lfc st c) (MPreR P st c) := by
  unfold mpHead
  simp only []
  sat_auto
  all_goals first
    | exact ⟨rfl, fun h => h⟩
    | (refine Sat.weaken (sat_mpTail _ _ _) (fun r hr => mkeep_mpre hr rfl ?_) (fun _ h => h);
       simp_all)
    | (simp only [MPreR]; simp_all; try (intro _; assumption))

/-! ## one iteration -/

section
variable {L : Str} {ps : List Nat}

theorem k_mpHead {k : Nat} (P : MPParams) (lfc : Bool) (st : MPState) (c : Char) :
    KSat L ps k (mpHead P lfc st c) := by
  unfold mpHead mpTail; (try simp only []); w_walk

/-- `MatchedPairError` always raises -/
theorem mpe_bind_ht {α β : Type} {I : Local → Env → Prop} {Q : β → Local → Env → Prop}
    (close : Char) {k : α → M β} : HT I ((matchedPairError close : M α) >>= k) Q ET := by
  refine HT.bind (Q := fun _ _ _ => False) ?_ (fun _ => HT.pre_false)
  intro l e _
  have hrun : ∃ x, M.run (matchedPairError close : M α) l e = (.error x, e) := by
    unfold matchedPairError
    simp only [M.run_bind, run_tapeSource, run_curIdx, M.run_raise]
    exact ⟨_, rfl⟩
  obtain ⟨x, hx⟩ := hrun
  rw [hx]; exact True.intro

/-- **`mpPre`**: one `_getc`, the character is appended -/
theorem mpPre_tt (P : MPParams) (lfc : Bool) (st : MPState) {k : Nat} :
    HT (Tp L ps k) (mpPre P lfc st)
      (fun r l e => ∃ k', (∃ rqn c, GetcR rqn L k k' (some c) ∧ MPreR P st c r) ∧ Tp L ps k' l e)
      ET := by
  rw [mpPre_eq]
  refine getc_bind (fun c0 k' hg => ?_)
  cases c0 with
  | none => simp only []; exact mpe_bind_ht _
  | some c =>
    simp only [pure_bind]
    have h := HT.and_sat (k_mpHead (L := L) (ps := ps) (k := k') P lfc st c) (sat_mpHead P lfc st c)
    exact HT.weaken h (fun _ _ h => h) (fun r l e h => ⟨k', ⟨_, c, hg, h.1⟩, h.2.2⟩)
      (fun _ _ => True.intro)

/-- the scanners of the next depth (induction hypothesis) -/
structure ScanIH (L : Str) (ps : List Nat) (pmp : MPParams → M Str) (pcs : CSParams → M Str) :
    Prop where
  pmp : ∀ i P, i < L.length → MPGood P → HT (Tp L ps i) (pmp P) (ScanQ L ps i) ET
  pcs : ∀ i P, i < L.length → CSGood P → HT (Tp L ps i) (pcs P) (ScanQ L ps i) ET

/-- what the second half of an iteration (nested scanners) does: nothing, or the value of a
    nested scanner is appended -/
def PostR (L : Str) (k : Nat) (c : Char) (ret0 : Str) (cnt0 : Nat) (ret1 : Str) (cnt1 : Nat)
    (k'' : Nat) : Prop :=
  k ≤ k'' ∧ ((ret1 = ret0 ∧ k'' = k ∧ cnt1 = cnt0) ∨
    (c ≠ '\n' ∧ k'' < L.length ∧ ∃ x, ret1 = ret0 ++ x ∧ Sp L k k'' x))

theorem rec_leaf {σ : Type} {m : M Str} {k : Nat} (hm : HT (Tp L ps k) m (ScanQ L ps k) ET)
    {f : Str → σ} {Q : σ → Local → Env → Prop}
    (hQ : ∀ r j, k ≤ j → j < L.length → Sp L k j r → ∀ l e, Tp L ps j l e → Q (f r) l e) :
    HT (Tp L ps k) (m >>= fun r => pure (f r)) Q ET := by
  refine HT.bind hm (fun r => ?_)
  refine HT.pre_exists (fun j => HT.pre_pure (fun hj => ?_))
  exact HT.pure (fun l e h => hQ r j hj.1 hj.2.1 hj.2.2 l e h)

theorem rec_leaf_pop {σ : Type} {m : M Str} {k : Nat} (hm : HT (Tp L ps k) m (ScanQ L ps k) ET)
    {f : Str → σ} {Q : σ → Local → Env → Prop} {d : Char}
    (hQ : ∀ r j, k ≤ j → j < L.length → Sp L k j r → ∀ l e, Tp L ps j l e → Q (f r) l e) :
    HT (Tp L ps k) (do pushDelimiter d; let r ← m; popDelimiter; pure (f r)) Q ET := by
  refine keep_bind (k_pushDelimiter d) (fun _ _ => ?_)
  refine HT.bind hm (fun r => ?_)
  refine HT.pre_exists (fun j => HT.pre_pure (fun hj => ?_))
  refine keep_bind k_popDelimiter (fun _ _ => ?_)
  exact HT.pure (fun l e h => hQ r j hj.1 hj.2.1 hj.2.2 l e h)

theorem dolOpen_ne_nl {c : Char} (h : isDolOpen c = true) : c ≠ '\n' := by
  rintro rfl; revert h; decide

theorem handledollarword_tt {pmp : MPParams → M Str} {pcs : CSParams → M Str}
    (ih : ScanIH L ps pmp pcs) (P : MPParams) (rdq : Bool) (c : Char) {k : Nat} (hk : k < L.length) :
    HT (Tp L ps k) (handledollarword pmp pcs P rdq c) (ScanQ L ps k) ET := by
  unfold handledollarword
  simp only []
  refine HT.ite (fun _ => HT.foreign True.intro) (fun _ => ?_)
  refine HT.ite (fun _ => ?_) (fun _ => ?_)
  · exact ih.pcs k _ hk (csgood (c := ')') (o := '(') rfl rfl (by decide) (by decide))
  refine HT.ite (fun _ => ?_) (fun _ => ?_)
  · exact ih.pmp k _ hk (mpgood (c := '}') (o := '{') rfl rfl (by decide) (by decide))
  refine HT.ite (fun _ => ?_) (fun _ => HT.foreign True.intro)
  · exact ih.pmp k _ hk (mpgood (c := ']') (o := '[') rfl rfl (by decide) (by decide))

/-- **`mpPost`** -/
theorem mpPost_tt {pmp : MPParams → M Str} {pcs : CSParams → M Str} (ih : ScanIH L ps pmp pcs)
    (P : MPParams) (rdq : Bool) (st : MPState) (c : Char) {k : Nat}
    (hlt : c ≠ '\n' → k < L.length) :
    HT (Tp L ps k) (mpPost pmp pcs P rdq st c)
      (fun s' l e => ∃ k'', PostR L k c st.ret st.count s'.ret s'.count k'' ∧ Tp L ps k'' l e)
      ET := by
  unfold mpPost
  simp only []
  have same : ∀ (s' : MPState), s'.ret = st.ret → s'.count = st.count →
      HT (Tp L ps k) (pure s' : M MPState)
        (fun s' l e => ∃ k'', PostR L k c st.ret st.count s'.ret s'.count k'' ∧ Tp L ps k'' l e)
        ET := by
    intro s' h1 h2
    exact HT.pure (fun l e h => ⟨k, ⟨Nat.le_refl _, Or.inl ⟨h1, rfl, h2⟩⟩, h⟩)
  have recq : ∀ (hc : c ≠ '\n') (f : Str → MPState), (∀ r, (f r).ret = st.ret ++ r) →
      ∀ r j, k ≤ j → j < L.length → Sp L k j r → ∀ l e, Tp L ps j l e →
        ∃ k'', PostR L k c st.ret st.count (f r).ret (f r).count k'' ∧ Tp L ps k'' l e := by
    intro hc f hf r j h1 h2 h3 l e h
    exact ⟨j, ⟨h1, Or.inr ⟨hc, h2, r, hf r, h3⟩⟩, h⟩
  refine HT.ite (fun _ => ?_) (fun _ => ?_)
  · refine keep_bind (v_shellquote c) (fun b hb => ?_)
    subst hb
    refine HT.ite (fun hq => ?_) (fun _ => ?_)
    · have hc := quote_ne_nl hq
      exact rec_leaf_pop (ih.pmp k _ (hlt hc) (mpgood (c := c) (o := c) rfl rfl hc hc))
        (recq hc _ (fun r => rfl))
    refine HT.ite (fun hd => ?_) (fun _ => same _ rfl rfl)
    have hc : c ≠ '\n' := by
      simp only [Bool.and_eq_true] at hd
      exact dolOpen_ne_nl hd.2
    exact rec_leaf (handledollarword_tt ih P rdq c (hlt hc)) (recq hc _ (fun r => rfl))
  refine HT.ite (fun hb => ?_) (fun _ => ?_)
  · have hc : c ≠ '\n' := by
      simp only [Bool.and_eq_true, beq_iff_eq] at hb
      rw [hb.2]; decide
    exact rec_leaf (ih.pmp k _ (hlt hc) (mpgood (c := '`') (o := '`') rfl rfl (by decide) (by decide)))
      (recq hc _ (fun r => rfl))
  refine HT.ite (fun hd => ?_) (fun _ => same _ rfl rfl)
  have hc : c ≠ '\n' := by
    simp only [Bool.and_eq_true] at hd
    exact dolOpen_ne_nl hd.2
  exact rec_leaf (handledollarword_tt ih P rdq c (hlt hc)) (recq hc _ (fun r => rfl))

end

end Bashlex.C04.TTP
