/-
  C04, part 6: from tokens to trees.

  `ctx_C04`: the concrete provenance predicate `NodeOK src 0` satisfies `Ctx` over the real nested
  parser (word nodes: `C07_nested` + the induction hypothesis on the nesting budget for the
  substitution commands, moved into a nested frame).
  `hooks_C04`: the hooks of the real parser maintain, along the LR stack, the conjunction of
  C11's state invariant (`Good g []`: the tape holds the line; needed to apply `TokText`), C12's
  sorts of the grammar symbols, and the provenance invariant (`LR.run_sound_ord`).
  `G_resolve`: resolving pending here-document redirects keeps it.
  `parserRun_C04` (induction on the nesting budget), `parse_C04`.
-/
import Bashlex.Props.C04.Frames
import Bashlex.Props.C11
import Bashlex.LR.SoundOrd

namespace Bashlex.C04
open Bashlex Bashlex.M Bashlex.Node Bashlex.LR
set_option linter.unusedSimpArgs false
set_option linter.unusedVariables false

/-! ## the context of the action lemmas -/

theorem G_shift_mem {W W' : Pred} {j : Nat} {n : Node} (hd : W'.deep = true) (hd' : W.deep = true)
    (hW : ∀ w ∈ n.preorder, W w → W' (Node.shift j w)) (hn : G W n) : G W' (n.shift j) := by
  intro w hw hww
  rw [hd, Node.shift, nodesOf_mapPos] at hw
  obtain ⟨w0, hw0, rfl⟩ := List.mem_map.mp hw
  have hww' : isTextual w0 = true := by
    have := isTextual_shift j w0
    rw [Node.shift] at this; rw [← this]; exact hww
  have hw0' : w0 ∈ nodesOf W.deep n := by rw [hd']; exact hw0
  have hw0p : w0 ∈ n.preorder := by simpa [nodesOf] using hw0
  exact hW w0 hw0p (hn w0 hw0' hww')

theorem isBody_drop (v : Str) (k : Nat) : IsBody v (v.drop k) k := ⟨[], by simp⟩

theorem isBody_slice (v : Str) (a b : Nat) : IsBody v (Str.slice v a b) a := by
  refine ⟨(v.drop b).drop (a - (v.take b).length), ?_⟩
  unfold Str.slice
  have h := List.drop_append (l₁ := v.take b) (l₂ := v.drop b) (i := a)
  rw [List.take_append_drop] at h
  exact h

/-- a value holding a substitution opener is not the value of a NEWLINE token -/
theorem ne_nl_of_getElem {v : Str} {i : Nat} {c : Char} (h : v[i + 1]? = some c) : v ≠ ['\n'] := by
  rintro rfl
  simp at h

theorem ne_nl_of_getElem0 {v : Str} {i : Nat} {c : Char} (h : v[i]? = some c) (hc : c ≠ '\n') :
    v ≠ ['\n'] := by
  rintro rfl
  cases i with
  | zero => simp at h; exact hc h.symm
  | succ i => simp at h

theorem ctx_C04 (src : Str) (d : Nat)
    (ih : ∀ body dp n, C07.RNested d body dp n → Tree4 body 0 n) :
    Ctx (deepP src 0) (Tk (Tape.ofInput src).line) (C07.nestedOf d) := by
  have hroot : ∀ m, LeafOK (Tape.ofInput src).line 0 m → NodeOK src 0 m :=
    fun m h => ⟨_, Src.root, by simpa using h, fun hn => by cases hn⟩
  refine ⟨?_, ?_, ?_, ?_, ?_, ?_, ?_⟩
  · -- words
    intro tok hT _
    refine (C07.C07_nested d tok).weaken ?_ (fun _ h => h)
    rintro w ⟨expanded, parts, rfl, hp⟩
    rw [G_word]
    refine ⟨hroot _ ⟨tok, hT, by simp, d, by simpa using hp⟩, fun _ => ?_⟩
    intro p hpm
    cases hs : isSubstitution p with
    | true =>
      have hnode : ∀ {body : Str} {dp : Bool} {n : Node} (k : Nat), C07.RNested d body dp n →
          IsBody tok.valueStr body k → tok.valueStr ≠ ['\n'] →
          (∀ m ∈ n.preorder, m.pos.2 ≤ body.length) →
          G (deepP src 0) (n.shift (tok.lexpos + k)) := by
        intro body dp n k hR hB hne hfit
        exact G_shift_mem (W := deepP body 0) (W' := deepP src 0) rfl rfl
          (fun m hm hok => NodeOK.sub hT hB hne hok (hfit m hm)) (ih body dp n hR)
      cases hp.subst p hpm hs with
      | @dollar i fl n ho hR hfit hlt =>
        rw [G_commandsubstitution]
        have h2 := (C07.opener_dollar_iff.mp ho).2
        have := hnode (i + 2) hR (isBody_drop _ _) (ne_nl_of_getElem h2) (by
          intro m hm
          have := hfit m hm
          rw [List.length_drop]; omega)
        rwa [Nat.add_comm] at this
      | @proc i fl n ho hR hfit hlt =>
        rw [G_processsubstitution]
        have h2 := (C07.opener_proc_iff.mp ho).2.1
        have := hnode (i + 2) hR (isBody_drop _ _) (ne_nl_of_getElem h2) (by
          intro m hm
          have := hfit m hm
          rw [List.length_drop]; omega)
        rwa [Nat.add_comm] at this
      | @backquote i fl x n ho hx hR hfit0 =>
        rw [G_commandsubstitution]
        have h1 := (C07.opener_backquote_iff.mp ho).1
        obtain ⟨_, hix, hxl, _⟩ := C07.stringextract_first hx
        have := hnode (i + 1) hR (isBody_slice _ _ _) (ne_nl_of_getElem0 h1 (by decide)) (by
          intro m hm
          have := hfit0 m hm
          rw [C07.slice_length _ _ _ (Nat.le_of_lt hxl)]; omega)
        rwa [Nat.add_comm] at this
    | false =>
      have := hp.other p hpm hs
      cases p <;> simp [C07.isParamOrTilde] at this <;> simp
  · -- assignment from word
    rintro p s ps ⟨fr, hs, hl, hb⟩
    exact ⟨fr, hs, hl, hb⟩
  · -- bare delimiter word
    intro tok hT _
    exact hroot _ ⟨tok, hT, by simp, 0, C07.PartsOK.nil⟩
  · -- leaves
    intro tok w hT hres hw
    exact ⟨hroot _ (Or.inl ⟨tok, hT, hres, hw, by simp⟩), hroot _ ⟨tok, hT, hres, hw, by simp⟩,
      hroot _ ⟨tok, hT, hres, hw, by simp⟩⟩
  · -- `;` of `for`
    rintro p w ⟨fr, hs, hl, hb⟩
    exact ⟨fr, hs, Or.inl hl, hb⟩
  · -- D19
    exact hroot _ (Or.inr ⟨rfl, rfl⟩)
  · -- redirects
    intro first op out o oa hd hid h1 h2 h3 ho p hp inp hi
    refine hroot _ ⟨first, op, out, h1, h2, h3, rfl, hi, ?_, ?_⟩
    · cases o with
      | none => simpa using ho
      | some w => simpa using ho
    · intro hh _
      simpa using hp hh

/-- the context for the spine: everything the running parser builds itself comes from its own
    tokens (root frame, no induction hypothesis needed) -/
theorem ctx_spine (line : Str) (d : Nat) : Ctx (spineP line 0) (Tk line) (C07.nestedOf d) := by
  refine ⟨?_, ?_, ?_, ?_, ?_, ?_, ?_⟩
  · intro tok hT _
    refine (C07.C07_nested d tok).weaken ?_ (fun _ h => h)
    rintro w ⟨expanded, parts, rfl, hp⟩
    rw [G_word]
    exact ⟨⟨tok, hT, by simp, d, by simpa using hp⟩, fun h => by cases h⟩
  · rintro p s ps h; exact h
  · intro tok hT _
    exact ⟨tok, hT, by simp, 0, C07.PartsOK.nil⟩
  · intro tok w hT hres hw
    exact ⟨Or.inl ⟨tok, hT, hres, hw, by simp⟩, ⟨tok, hT, hres, hw, by simp⟩,
      ⟨tok, hT, hres, hw, by simp⟩⟩
  · rintro p w h; exact Or.inl h
  · exact Or.inr ⟨rfl, rfl⟩
  · intro first op out o oa hd hid h1 h2 h3 ho p hp inp hi
    refine ⟨first, op, out, h1, h2, h3, rfl, hi, ?_, ?_⟩
    · cases o with
      | none => simpa using ho
      | some w => simpa using ho
    · intro hh _
      simpa using hp hh

/-! ## `resolve` -/

/-- every pending here-document redirect of the tree has a here-document operator as its type
    (C12's `hidOK`, for every node) -/
def HidT (n : Node) : Prop := ∀ m ∈ n.preorder, C12.hidOK m

theorem hidT_iff {n : Node} : HidT n ↔ C12.hidOK n ∧ ∀ c ∈ n.children, HidT c := by
  unfold HidT
  rw [C12.preorder_eq]
  constructor
  · intro h
    refine ⟨h n List.mem_cons_self, fun c hc m hm => h m (List.mem_cons_of_mem _ ?_)⟩
    exact C12.mem_preorderL.mpr ⟨c, hc, hm⟩
  · rintro ⟨h1, h2⟩ m hm
    rcases List.mem_cons.mp hm with rfl | hm
    · exact h1
    · obtain ⟨c, hc, hmc⟩ := C12.mem_preorderL.mp hm
      exact h2 c hc m hmc

theorem hidT_of_treeOK {n : Node} (h : C12.TreeOK n) : HidT n := fun m hm => (h m hm).2

/-- what `resolve` needs of the predicate: a pending here-document redirect may get any `pos`
    and body -/
def ResolveOK (W : Pred) : Prop :=
  ∀ p i t o oa hd id (p' : Span) (hd' : Option Node),
    W (.redirect p i t o oa hd (some id)) → C12.hidOK (.redirect p i t o oa hd (some id)) →
    W (.redirect p' i t o oa hd' none)

theorem resolveOK_deep (src : Str) (J : Nat) : ResolveOK (deepP src J) := by
  intro p i t o oa hd id p' hd' h hh
  obtain ⟨fr, hs, hl, hb⟩ := h
  simp only [LeafOK] at hl
  obtain ⟨first, op, out, h1, h2, h3, h4, h5, h6, h7⟩ := hl
  have hty : hereTy t := hh
  refine ⟨fr, hs, ?_, fun _ => Or.inl hty⟩
  simp only [LeafOK]
  exact ⟨first, op, out, h1, h2, h3, h4, h5, h6, fun _ hne => absurd hty hne⟩

theorem resolveOK_spine (line : Str) (J : Nat) : ResolveOK (spineP line J) := by
  intro p i t o oa hd id p' hd' h hh
  have hl : LeafOK line J (.redirect p i t o oa hd (some id)) := h
  simp only [LeafOK] at hl
  obtain ⟨first, op, out, h1, h2, h3, h4, h5, h6, h7⟩ := hl
  have hty : hereTy t := hh
  show LeafOK line J (.redirect p' i t o oa hd' none)
  simp only [LeafOK]
  exact ⟨first, op, out, h1, h2, h3, h4, h5, h6, fun _ hne => absurd hty hne⟩

def HidL (l : List Node) : Prop := ∀ c ∈ l, HidT c

theorem hidL_cons {n : Node} {l : List Node} : HidL (n :: l) ↔ HidT n ∧ HidL l := by
  simp [HidL]

theorem HidT.kids {n : Node} (h : HidT n) : HidL n.children := (hidT_iff.mp h).2

theorem HidL.left {a b : List Node} (h : HidL (a ++ b)) : HidL a :=
  fun c hc => h c (List.mem_append_left _ hc)
theorem HidL.right {a b : List Node} (h : HidL (a ++ b)) : HidL b :=
  fun c hc => h c (List.mem_append_right _ hc)

variable {W : Pred}

mutual
theorem G_resolve (hW : ResolveOK W) (st : List RedirCell) :
    (n : Node) → G W n → HidT n → G W (resolve st n)
  | .list p ps, h, hh => by
    simp only [resolve, G_list] at h ⊢; exact GL_resolveL hW st ps h hh.kids
  | .pipeline p ps, h, hh => by
    simp only [resolve, G_pipeline] at h ⊢; exact GL_resolveL hW st ps h hh.kids
  | .ifN p ps, h, hh => by simp only [resolve, G_ifN] at h ⊢; exact GL_resolveL hW st ps h hh.kids
  | .forN p ps, h, hh => by simp only [resolve, G_forN] at h ⊢; exact GL_resolveL hW st ps h hh.kids
  | .whileN p ps, h, hh => by
    simp only [resolve, G_whileN] at h ⊢; exact GL_resolveL hW st ps h hh.kids
  | .untilN p ps, h, hh => by
    simp only [resolve, G_untilN] at h ⊢; exact GL_resolveL hW st ps h hh.kids
  | .caseN p ps, h, hh => by
    simp only [resolve, G_caseN] at h ⊢; exact GL_resolveL hW st ps h hh.kids
  | .pattern p ps, h, hh => by
    simp only [resolve, G_pattern] at h ⊢; exact GL_resolveL hW st ps h hh.kids
  | .command p ps, h, hh => by
    simp only [resolve, G_command] at h ⊢; exact GL_resolveL hW st ps h hh.kids
  | .unimplemented p ps, h, hh => by
    simp only [resolve, G_unimplemented] at h ⊢; exact GL_resolveL hW st ps h hh.kids
  | .function p a b ps, h, hh => by
    simp only [resolve, G_function] at h ⊢; exact GL_resolveL hW st ps h hh.kids
  | .compound p l r, h, hh => by
    simp only [resolve, G_compound] at h ⊢
    have hk : HidL (l ++ r) := hh.kids
    exact ⟨GL_resolveL hW st l h.1 hk.left, GL_resolveL hW st r h.2 hk.right⟩
  | .redirect p i t o oa hd hid, h, hh => by
    rw [G_redirect] at h
    cases hid with
    | none => simp only [resolve]; rw [G_redirect]; exact h
    | some id =>
      have h0 : C12.hidOK (.redirect p i t o oa hd (some id)) := hh _ (C12.self_mem_preorder _)
      simp only [resolve]
      cases hs : st[id]? with
      | none =>
        simp only []
        rw [G_redirect]
        exact ⟨hW _ _ _ _ _ _ _ p hd h.1 h0, h.2.1, h.2.2⟩
      | some cell =>
        simp only []
        rw [G_redirect]
        refine ⟨hW _ _ _ _ _ _ _ _ _ h.1 h0, h.2.1, ?_⟩
        cases cell.heredoc <;> simp
  | .operator .., h, _ | .reservedword .., h, _ | .pipe .., h, _ | .word .., h, _
  | .assignment .., h, _ | .parameter .., h, _ | .tilde .., h, _ | .heredoc .., h, _
  | .commandsubstitution .., h, _ | .processsubstitution .., h, _ => by simpa [resolve] using h
theorem GL_resolveL (hW : ResolveOK W) (st : List RedirCell) :
    (l : List Node) → GL W l → HidL l → GL W (resolveL st l)
  | [], _, _ => by simp [resolveL]
  | n :: ns, h, hh => by
    simp only [resolveL, GL_cons] at h ⊢
    rw [hidL_cons] at hh
    exact ⟨G_resolve hW st n h.1 hh.1, GL_resolveL hW st ns h.2 hh.2⟩
end

end Bashlex.C04
