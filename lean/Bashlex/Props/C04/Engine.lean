/-
  C04, part 4: dispatch over the action functions of the generated grammar.

  What the action lemmas of `ProvActions.lean` assume about the tokens among the arguments is
  derived from C12's sorts of the grammar symbols (`C12.VI`) and a check of the production table
  decided by the kernel (`argCheck`): no NUMBER / EOF token outside the redirection productions,
  reserved types in the slots that become reserved-word / operator / pipe nodes, WORD /
  ASSIGNMENT_WORD in the slots handed to `_expandword`, WORD as the delimiter of a here-document
  redirect, BANG in slot 1 of `pipeline_command`, two or three symbols in a redirection production, no `None` value in
  `elif_clause`.
-/
import Bashlex.Props.C04.ProvActions
import Bashlex.Props.C07.Tree
import Bashlex.Props.C12

namespace Bashlex.C04
open Bashlex Bashlex.M Bashlex.Node Bashlex.LR
set_option linter.unusedSimpArgs false
set_option linter.unusedVariables false

variable {W : Pred} {T : Token → Prop} {np : NestedParse} {args : List SVal}

/-! ## the check of the production table -/

def isRedirF (f : String) : Bool := f == "p_redirection" || f == "p_redirection_heredoc"
/-- actions that build nothing from the tokens among their arguments but what they check
    themselves, or (the redirections) take any token -/
def isFreeF (f : String) : Bool :=
  isRedirF f || f == "p_inputunit" || f == "p_simple_list_terminator" || f == "p_list_terminator"
def isSce (f : String) : Bool := f == "p_simple_command_element"

/-- may a token of this sort occur among the arguments of `f` -/
def tokOKfor (f : String) (σ : C12.Srt) : Bool :=
  isFreeF f ||
  match σ with
  | .tok none => false
  | .tok (some ty) =>
    if isSce f then ty == .WORD || ty == .ASSIGNMENT_WORD else C12.resOK ty || ty == .WORD
  | _ => true

def resSort : Option C12.Srt → Bool
  | some (.tok (some ty)) => C12.resOK ty
  | some (.tok none) => false
  | _ => true

def elifSort : C12.Srt → Bool
  | .tok (some ty) => C12.resOK ty
  | .node _ | .nodes _ => true
  | _ => false

def bangSort : Option C12.Srt → Bool
  | some (.tok (some ty)) => ty == .BANG
  | some (.tok none) => false
  | _ => true

def semiSort : Option C12.Srt → Bool
  | some (.tok (some ty)) => C12.resOK ty || ty == .EOF
  | _ => true

/-- a slot handed to `_expandword`: a WORD / ASSIGNMENT_WORD token, or no token at all -/
def wordSort : Option C12.Srt → Bool
  | some (.tok (some ty)) => ty == .WORD || ty == .ASSIGNMENT_WORD
  | some (.tok none) => false
  | _ => true

/-- the delimiter of a here-document redirect: a WORD token -/
def hereSort : Option C12.Srt → Bool
  | some (.tok (some ty)) => ty == .WORD
  | _ => false

def argCheck1 (f : String) (σs : List C12.Srt) : Bool :=
  (wordSlots f).all (fun i => wordSort σs[i - 1]?) &&
  (!(f == "p_redirection_heredoc") || hereSort σs[σs.length - 1]?) &&
  σs.all (tokOKfor f) &&
  (resSlots f).all (fun i => resSort σs[i - 1]?) &&
  (!isRedirF f || σs.length == 2 || σs.length == 3) &&
  (!(f == "p_elif_clause") || σs.all elifSort) &&
  (!(f == "p_pipeline_command") || bangSort σs[0]?) &&
  (!(f == "p_list_terminator") || semiSort σs[0]?)

def argCheck : Bool :=
  (List.zip Gen.prodFuncs Gen.prodTable).all fun (f, (_, rhs)) =>
    argCheck1 f (rhs.map C12.sortOfSymbol)

theorem argCheck_ok : argCheck = true := by decide +kernel

/-! ## from sorts to facts about the arguments -/

theorem forall2_mem {α β} {R : α → β → Prop} {l₁ : List α} {l₂ : List β} (h : Forall2 R l₁ l₂) :
    ∀ b ∈ l₂, ∃ a ∈ l₁, R a b := by
  induction h with
  | nil => intro b hb; cases hb
  | cons h1 _ ih =>
    intro b hb
    rcases List.mem_cons.mp hb with rfl | hb
    · exact ⟨_, List.mem_cons_self, h1⟩
    · obtain ⟨a, ha, hr⟩ := ih b hb
      exact ⟨a, List.mem_cons_of_mem _ ha, hr⟩

theorem forall2_get {α β} {R : α → β → Prop} {l₁ : List α} {l₂ : List β} (h : Forall2 R l₁ l₂) :
    ∀ (i : Nat) (b : β), l₂[i]? = some b → ∃ a, l₁[i]? = some a ∧ R a b := by
  induction h with
  | nil => intro i b hb; simp at hb
  | cons h1 _ ih =>
    intro i b hb
    cases i with
    | zero => simp at hb; subst hb; exact ⟨_, rfl, h1⟩
    | succ i => simp at hb; simpa using ih i b hb

theorem forall2_length {α β} {R : α → β → Prop} {l₁ : List α} {l₂ : List β} (h : Forall2 R l₁ l₂) :
    l₁.length = l₂.length := by
  induction h with
  | nil => rfl
  | cons _ _ ih => simp [ih]

/-- a token has the sort of its type -/
theorem sort_of_tok {σ : C12.Srt} {t : Token} (h : C12.HasSort σ (.tok t)) : σ = .tok t.ttype := by
  cases σ with
  | none => cases h
  | tok ty => obtain ⟨t', ht', hty, _⟩ := h; cases ht'; rw [hty]
  | node c => obtain ⟨n, hn, _⟩ := h; cases hn
  | optNode c =>
    rcases h with h | ⟨n, hn, _⟩
    · cases h
    · cases hn
  | nodes k => obtain ⟨l, hl, _⟩ := h; cases hl

theorem getD_tok {i : Nat} {t : Token} (h : args.getD i .none = .tok t) : args[i]? = some (.tok t) := by
  rw [List.getD_eq_getElem?_getD] at h
  cases hx : args[i]? with
  | none => rw [hx] at h; cases h
  | some a => rw [hx] at h; simp at h; rw [h]

section derive
variable {f : String} {σs : List C12.Srt}

theorem partToks_of (hc : σs.all (tokOKfor f) = true) (hf : isFreeF f = false) (hs : isSce f = false)
    (h : Forall2 C12.HasSort σs args) : PartToks args := by
  intro t ht
  obtain ⟨σ, hσ, hsort⟩ := forall2_mem h _ ht
  have := List.all_eq_true.mp hc σ hσ
  rw [sort_of_tok hsort] at this
  unfold tokOKfor at this
  rw [hf, Bool.false_or] at this
  cases hty : t.ttype with
  | none => rw [hty] at this; simp at this
  | some ty =>
    rw [hty] at this
    simp only [hs, Bool.false_eq_true, if_false, Bool.or_eq_true, beq_iff_eq] at this
    rcases this with h | h
    · exact Or.inl ⟨ty, hty, h⟩
    · exact Or.inr (by rw [h])

theorem resSlot_of {i : Nat} (hc : resSort σs[i - 1]? = true) (h : Forall2 C12.HasSort σs args) :
    ResSlot args i := by
  intro t ht
  obtain ⟨σ, hσ, hsort⟩ := forall2_get h _ _ (getD_tok ht)
  rw [hσ, sort_of_tok hsort] at hc
  cases hty : t.ttype with
  | none => rw [hty] at hc; cases hc
  | some ty => rw [hty] at hc; exact ⟨ty, hty, hc⟩

theorem wordSlot_of {i : Nat} (hc : wordSort σs[i - 1]? = true) (h : Forall2 C12.HasSort σs args) :
    WordSlot args i := by
  intro t ht
  obtain ⟨σ, hσ, hsort⟩ := forall2_get h _ _ (getD_tok ht)
  rw [hσ, sort_of_tok hsort] at hc
  cases hty : t.ttype with
  | none => rw [hty] at hc; cases hc
  | some ty =>
    rw [hty] at hc
    simp only [wordSort, Bool.or_eq_true, beq_iff_eq] at hc
    rcases hc with rfl | rfl
    · left; simp [Token.is, hty]
    · right; simp [Token.is, hty]

theorem here_of (hc : hereSort σs[σs.length - 1]? = true) (h : Forall2 C12.HasSort σs args) :
    ∀ t, args.getD (args.length - 1) .none = .tok t → t.is .WORD = true := by
  intro t ht
  rw [forall2_length h] at hc
  obtain ⟨σ, hσ, hsort⟩ := forall2_get h _ _ (getD_tok ht)
  rw [hσ, sort_of_tok hsort] at hc
  cases hty : t.ttype with
  | none => rw [hty] at hc; cases hc
  | some ty =>
    rw [hty] at hc
    have : ty = .WORD := by simpa [hereSort] using hc
    subst this
    simp [Token.is, hty]

theorem elif_of (hc : σs.all elifSort = true) (h : Forall2 C12.HasSort σs args) :
    ∀ a ∈ args, a ≠ .none ∧ ∀ t, a = .tok t → Reserved t := by
  intro a ha
  obtain ⟨σ, hσ, hsort⟩ := forall2_mem h _ ha
  have hσ' := List.all_eq_true.mp hc σ hσ
  constructor
  · rintro rfl
    cases σ with
    | none => cases hσ'
    | tok ty => obtain ⟨t', ht', _⟩ := hsort; cases ht'
    | node c => obtain ⟨n, hn, _⟩ := hsort; cases hn
    | optNode c => cases hσ'
    | nodes k => obtain ⟨l, hl, _⟩ := hsort; cases hl
  · rintro t rfl
    rw [sort_of_tok hsort] at hσ'
    cases hty : t.ttype with
    | none => rw [hty] at hσ'; cases hσ'
    | some ty => rw [hty] at hσ'; exact ⟨ty, hty, hσ'⟩

theorem bang_of (hc : bangSort σs[0]? = true) (h : Forall2 C12.HasSort σs args) :
    ∀ t, args.getD 0 .none = .tok t → t.ttype = some .BANG := by
  intro t ht
  obtain ⟨σ, hσ, hsort⟩ := forall2_get h _ _ (getD_tok ht)
  rw [hσ, sort_of_tok hsort] at hc
  cases hty : t.ttype with
  | none => rw [hty] at hc; cases hc
  | some ty =>
    rw [hty] at hc
    have : ty = .BANG := by simpa [bangSort] using hc
    rw [this]

theorem semi_of (hc : semiSort σs[0]? = true) (h : Forall2 C12.HasSort σs args)
    (ha : ∀ a ∈ args, GV W T a)
    (hStr : ∀ t, T t → ∀ v, t.value = .str v → ∃ ty, t.ttype = some ty ∧ ty ≠ .EOF) :
    ∀ t, args.getD 0 .none = .tok t → t.value = .str [';'] → Reserved t := by
  intro t ht hv
  have hmem : SVal.tok t ∈ args := List.mem_of_getElem? (getD_tok ht)
  have hT : T t := ha _ hmem
  obtain ⟨ty, hty, hne⟩ := hStr t hT _ hv
  obtain ⟨σ, hσ, hsort⟩ := forall2_get h _ _ (getD_tok ht)
  rw [hσ, sort_of_tok hsort, hty] at hc
  simp only [semiSort, Bool.or_eq_true, beq_iff_eq] at hc
  rcases hc with hc | hc
  · exact ⟨ty, hty, hc⟩
  · exact absurd hc hne

end derive

/-! ## dispatch -/

/-- the arguments of `f` are as `argCheck1` says -/
structure ArgsOK (T : Token → Prop) (f : String) (args : List SVal) : Prop where
  parts : isFreeF f = false → isSce f = false → PartToks args
  res : ∀ i ∈ resSlots f, ResSlot args i
  len : isRedirF f = true → args.length = 2 ∨ args.length = 3
  elif : f = "p_elif_clause" → ∀ a ∈ args, a ≠ .none ∧ ∀ t, a = .tok t → Reserved t
  bang : f = "p_pipeline_command" → ∀ t, args.getD 0 .none = .tok t → t.ttype = some .BANG
  semi : f = "p_list_terminator" →
    ∀ t, args.getD 0 .none = .tok t → t.value = .str [';'] → Reserved t
  words : ∀ i ∈ wordSlots f, WordSlot args i
  here : f = "p_redirection_heredoc" →
    ∀ t, args.getD (args.length - 1) .none = .tok t → t.is .WORD = true

theorem argsOK_of {f : String} {σs : List C12.Srt} (hc : argCheck1 f σs = true)
    (h : Forall2 C12.HasSort σs args) (ha : ∀ a ∈ args, GV W T a)
    (hStr : ∀ t, T t → ∀ v, t.value = .str v → ∃ ty, t.ttype = some ty ∧ ty ≠ .EOF) :
    ArgsOK T f args := by
  unfold argCheck1 at hc
  simp only [Bool.and_eq_true, Bool.or_eq_true, Bool.not_eq_true', beq_iff_eq] at hc
  obtain ⟨⟨⟨⟨⟨⟨⟨h7, h8⟩, h1⟩, h2⟩, h3⟩, h4⟩, h5⟩, h6⟩ := hc
  refine ⟨fun hf hs => partToks_of h1 hf hs h, ?_, ?_, ?_, ?_, ?_, ?_, ?_⟩
  · intro i hi
    exact resSlot_of (List.all_eq_true.mp h2 i hi) h
  · intro hf
    have hl := forall2_length h
    rcases h3 with (h3 | h3) | h3
    · rw [hf] at h3; cases h3
    · left; omega
    · right; omega
  · intro hf
    rcases h4 with h4 | h4
    · exact absurd hf (by simpa using h4)
    · exact elif_of h4 h
  · intro hf
    rcases h5 with h5 | h5
    · exact absurd hf (by simpa using h5)
    · exact bang_of h5 h
  · intro hf
    rcases h6 with h6 | h6
    · exact absurd hf (by simpa using h6)
    · exact semi_of h6 h ha hStr
  · intro i hi
    exact wordSlot_of (List.all_eq_true.mp h7 i hi) h
  · intro hf
    rcases h8 with h8 | h8
    · exact absurd hf (by simpa using h8)
    · exact here_of h8 h

theorem sat_actionCore (hC : Ctx W T np) (hwf : ∀ t, T t → C12.TokWF t)
    (ha : ∀ a ∈ args, GV W T a) {fname : String} (h : fname ∈ C07.knownActions)
    (hA : ArgsOK T fname args) : Sat (actionCore np fname args) (Post W T) := by
  simp only [C07.knownActions, List.mem_cons, List.mem_nil_iff, or_false] at h
  rcases h with rfl | rfl | rfl | rfl | rfl | rfl | rfl | rfl | rfl | rfl | rfl | rfl | rfl | rfl | rfl | rfl | rfl | rfl | rfl | rfl | rfl | rfl | rfl | rfl | rfl | rfl | rfl | rfl | rfl | rfl | rfl | rfl | rfl | rfl | rfl | rfl | rfl | rfl | rfl
  · exact sound_arith_command hC hwf ha (hA.parts rfl rfl) hA.res
  · exact sound_arith_for_command hC hwf ha (hA.parts rfl rfl) hA.res
  · exact sound_case_clause hC hwf ha (hA.parts rfl rfl) hA.res
  · exact sound_case_clause_sequence hC hwf ha (hA.parts rfl rfl) hA.res
  · exact sound_case_command hC hwf ha (hA.parts rfl rfl) hA.res
  · exact sound_command hC hwf ha (hA.parts rfl rfl) hA.res
  · exact sound_compound_list hC hwf ha (hA.parts rfl rfl) hA.res
  · exact sound_cond_command hC hwf ha (hA.parts rfl rfl) hA.res
  · exact sound_coproc hC hwf ha (hA.parts rfl rfl) hA.res
  · exact sound_elif_clause hC hwf ha (hA.elif rfl)
  · exact sound_empty hC hwf ha (hA.parts rfl rfl) hA.res
  · exact sound_for_command hC hwf ha (hA.parts rfl rfl) hA.res
  · exact sound_function_body hC hwf ha (hA.parts rfl rfl) hA.res
  · exact sound_function_def hC hwf ha (hA.parts rfl rfl) hA.res
  · exact sound_group_command hC hwf ha (hA.parts rfl rfl) hA.res
  · exact sound_if_command hC hwf ha (hA.parts rfl rfl) hA.res
  · exact sound_inputunit hC hwf ha hA.res
  · exact sound_list hC hwf ha (hA.parts rfl rfl) hA.res
  · exact sound_list0 hC hwf ha (hA.parts rfl rfl) hA.res
  · exact sound_list1 hC hwf ha (hA.parts rfl rfl) hA.res
  · exact sound_list_terminator hC hwf ha (hA.semi rfl)
  · exact sound_newline_list hC hwf ha (hA.parts rfl rfl) hA.res
  · exact sound_pattern hC hwf ha (hA.parts rfl rfl) hA.res hA.words
  · exact sound_pattern_list hC hwf ha (hA.parts rfl rfl) hA.res
  · exact sound_pipeline hC hwf ha (hA.parts rfl rfl) hA.res
  · exact sound_pipeline_command hC hwf ha (hA.bang rfl)
  · exact sound_redirection hC ha (hA.len rfl)
  · exact sound_redirection_heredoc hC ha (hA.len rfl) (hA.here rfl)
  · exact sound_redirection_list hC hwf ha (hA.parts rfl rfl) hA.res
  · exact sound_select_command hC hwf ha (hA.parts rfl rfl) hA.res
  · exact sound_shell_command hC hwf ha (hA.parts rfl rfl) hA.res
  · exact sound_simple_command hC hwf ha (hA.parts rfl rfl) hA.res
  · exact sound_simple_command_element hC hwf ha hA.res hA.words
  · exact sound_simple_list hC hwf ha (hA.parts rfl rfl) hA.res
  · exact sound_simple_list1 hC hwf ha (hA.parts rfl rfl) hA.res
  · exact sound_simple_list_terminator hC hwf ha hA.res
  · exact sound_subshell hC hwf ha (hA.parts rfl rfl) hA.res
  · exact sound_timespec hC hwf ha (hA.parts rfl rfl) hA.res
  · exact sound_word_list hC hwf ha (hA.parts rfl rfl) hA.res hA.words

/-- **every semantic action of the generated grammar** preserves the provenance invariant, given
    C12's sorts of its arguments -/
theorem sat_action (hC : Ctx W T np) (hwf : ∀ t, T t → C12.TokWF t)
    (hStr : ∀ t, T t → ∀ v, t.value = .str v → ∃ ty, t.ttype = some ty ∧ ty ≠ .EOF)
    {p lhs : Nat} {rhs : List Nat} (hp : Gen.prodTable[p]? = some (lhs, rhs))
    (h12 : Forall2 C12.VI rhs args) (ha : ∀ a ∈ args, GV W T a) :
    Sat (action np (Gen.prodFuncs.getD p "") args) (Post W T) := by
  have hlt : p < Gen.prodFuncs.length := by
    rw [C12.prodFuncs_length]
    exact (List.getElem?_eq_some_iff.mp hp).1
  have hf : Gen.prodFuncs[p]? = some (Gen.prodFuncs.getD p "") := by
    simp [List.getD_eq_getElem?_getD, List.getElem?_eq_getElem hlt]
  have hz : (List.zip Gen.prodFuncs Gen.prodTable)[p]? = some (Gen.prodFuncs.getD p "", (lhs, rhs)) :=
    List.getElem?_zip_eq_some.mpr ⟨hf, hp⟩
  have hmem := List.mem_of_getElem? hz
  have hc := List.all_eq_true.mp argCheck_ok _ hmem
  simp only [] at hc
  have hA : ArgsOK T (Gen.prodFuncs.getD p "") args :=
    argsOK_of hc (C12.forall2_map_left h12) ha hStr
  have hk : Gen.prodFuncs.getD p "" = "" ∨ Gen.prodFuncs.getD p "" ∈ C07.knownActions :=
    C07.prodFuncs_known _ (List.mem_of_getElem? hf)
  unfold action
  rcases hk with h | h
  · rw [h]
    refine Sat.bind (P := fun _ => False) ?_ (fun _ hf => hf.elim)
    unfold actionCore; simp only []
    exact Sat.foreign trivial
  · refine Sat.bind (sat_actionCore hC hwf ha h hA) (fun r hr => ?_)
    split
    · exact Sat.foreign trivial
    · exact Sat.pure hr

end Bashlex.C04
