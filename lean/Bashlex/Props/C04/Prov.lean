/-
  C04, part 2: provenance of the textual nodes.

  `G W n`: every *textual* node of the tree `n` (reserved word, operator, pipe, redirect, word,
  assignment — at any depth, substitution commands included) satisfies `W`.  `Ctx W T np` lists
  what the walk through the semantic actions needs of `W` (`T`: what is known of a token on the
  LR stack): a reserved-word / operator / pipe node may be built from a token of a reserved type
  with the token's span and value; a redirect node from its two or three tokens; word nodes are
  built by `expandword` only (or are the part-less delimiter word of a here-document redirect,
  or the assignment copy of a word).  The invariant is the same for every grammar symbol.
  (Same architecture as `C07/Prov.lean`, with more node kinds.)
-/
import Bashlex.Props.C12.Tree
import Bashlex.Props.C12.Sorts
import Bashlex.Model.Actions
import Bashlex.Proofs.Hoare

namespace Bashlex.C04
open Bashlex Bashlex.M Bashlex.Node
set_option linter.unusedSimpArgs false
set_option linter.unusedVariables false

/-- the node kinds whose text C04 speaks about and that the parser builds from tokens -/
def isTextual : Node → Bool
  | .reservedword .. | .operator .. | .pipe .. | .redirect .. | .word .. | .assignment .. => true
  | _ => false

/-- token types of reserved words and operators: everything but WORD, ASSIGNMENT_WORD, NUMBER, EOF -/
def Reserved (t : Token) : Prop := ∃ ty, t.ttype = some ty ∧ C12.resOK ty = true

/-- `input` / `output` of a redirect node from a token value -/
def redirIn (v : TVal) : RedirIn :=
  match v with | .int k => .num k | .str s => .str s | .none => .none

/-! ## two traversals

  `deep = true`: the visitor's pre-order (every node, substitution commands inside words
  included).  `deep = false`: the *spine*: words and assignments are leaves — exactly the nodes
  the running parser builds itself, in its own coordinates. -/

mutual
/-- pre-order that does not descend into the parts of words and assignments -/
def spine : Node → List Node
  | n@(.operator ..) | n@(.reservedword ..) | n@(.pipe ..) | n@(.parameter ..) | n@(.tilde ..)
  | n@(.heredoc ..) | n@(.word ..) | n@(.assignment ..) => [n]
  | n@(.list _ ps) | n@(.pipeline _ ps) | n@(.ifN _ ps) | n@(.forN _ ps) | n@(.whileN _ ps)
  | n@(.untilN _ ps) | n@(.caseN _ ps) | n@(.pattern _ ps) | n@(.command _ ps)
  | n@(.unimplemented _ ps) | n@(.function _ _ _ ps) => n :: spineL ps
  | n@(.compound _ l r) => n :: (spineL l ++ spineL r)
  | n@(.redirect _ _ _ o _ h _) => n :: (spineO o ++ spineO h)
  | n@(.commandsubstitution _ c) | n@(.processsubstitution _ c) => n :: spine c
def spineL : List Node → List Node
  | [] => []
  | n :: ns => spine n ++ spineL ns
def spineO : Option Node → List Node
  | none => []
  | some n => spine n
end

/-- the children the traversal descends into -/
def kidsOf (deep : Bool) : Node → List Node
  | .word _ _ ps => if deep then ps else []
  | .assignment _ _ ps => if deep then ps else []
  | n => n.children

def nodesOf (deep : Bool) (n : Node) : List Node := if deep then n.preorder else spine n
def nodesOfL (deep : Bool) (l : List Node) : List Node := if deep then preorderL l else spineL l

theorem spineL_append (a b : List Node) : spineL (a ++ b) = spineL a ++ spineL b := by
  induction a with
  | nil => simp [spineL]
  | cons x xs ih => simp [spineL, ih, List.append_assoc]

theorem mem_spineL {m : Node} {l : List Node} : m ∈ spineL l ↔ ∃ c, c ∈ l ∧ m ∈ spine c := by
  induction l with
  | nil => simp [spineL]
  | cons x xs ih =>
    simp only [spineL, List.mem_append, ih, List.mem_cons]
    constructor
    · rintro (h | ⟨c, hc, hm⟩)
      · exact ⟨x, Or.inl rfl, h⟩
      · exact ⟨c, Or.inr hc, hm⟩
    · rintro ⟨c, (rfl | hc), hm⟩
      · exact Or.inl hm
      · exact Or.inr ⟨c, hc, hm⟩

theorem spine_eq (n : Node) : spine n = n :: spineL (kidsOf false n) := by
  cases n <;> simp [spine, kidsOf, children, spineL, spineL_append]
  case redirect p i t o oa h hid =>
    cases o <;> cases h <;> simp [spineO, spineL]

theorem kidsOf_true (n : Node) : kidsOf true n = n.children := by
  cases n <;> simp [kidsOf, children]

theorem nodesOf_eq (deep : Bool) (n : Node) :
    nodesOf deep n = n :: nodesOfL deep (kidsOf deep n) := by
  cases deep with
  | true => simp only [nodesOf, nodesOfL, if_true, kidsOf_true]; exact C12.preorder_eq n
  | false => simp only [nodesOf, nodesOfL, Bool.false_eq_true, if_false]; exact spine_eq n

theorem mem_nodesOfL {deep : Bool} {m : Node} {l : List Node} :
    m ∈ nodesOfL deep l ↔ ∃ c, c ∈ l ∧ m ∈ nodesOf deep c := by
  cases deep with
  | true => simp only [nodesOf, nodesOfL, if_true]; exact C12.mem_preorderL
  | false => simp only [nodesOf, nodesOfL, Bool.false_eq_true, if_false]; exact mem_spineL

/-- a traversal and a predicate on its textual nodes -/
structure Pred where
  deep : Bool
  W : Node → Prop

instance : CoeFun Pred (fun _ => Node → Prop) := ⟨Pred.W⟩

section
variable (W : Pred)

/-- every textual node of the tree (reached by the traversal) is `W` -/
def G (n : Node) : Prop := ∀ m ∈ nodesOf W.deep n, isTextual m = true → W m
def GL (l : List Node) : Prop := ∀ n ∈ l, G W n
/-- the invariant of a semantic value: nodes are good trees, tokens satisfy `T` -/
def GV (T : Token → Prop) : SVal → Prop
  | .node n => G W n
  | .nodes l => GL W l
  | .tok t => T t
  | .none => True
end

variable {W : Pred} {T : Token → Prop}

theorem G_iff {n : Node} : G W n ↔ (isTextual n = true → W n) ∧ GL W (kidsOf W.deep n) := by
  unfold G GL G
  rw [nodesOf_eq]
  constructor
  · intro h
    refine ⟨h n List.mem_cons_self, fun c hc w hw => h w (List.mem_cons_of_mem _ ?_)⟩
    exact mem_nodesOfL.mpr ⟨c, hc, hw⟩
  · rintro ⟨h1, h2⟩ w hw
    rcases List.mem_cons.mp hw with rfl | hw
    · exact h1
    · obtain ⟨c, hc, hwc⟩ := mem_nodesOfL.mp hw
      exact h2 c hc w hwc

@[simp] theorem GL_nil : GL W [] := fun _ h => absurd h List.not_mem_nil
@[simp] theorem GL_cons {n : Node} {l : List Node} : GL W (n :: l) ↔ G W n ∧ GL W l := by
  simp [GL]
@[simp] theorem GL_append {a b : List Node} : GL W (a ++ b) ↔ GL W a ∧ GL W b := by
  simp only [GL, List.mem_append]
  exact ⟨fun h => ⟨fun n hn => h n (Or.inl hn), fun n hn => h n (Or.inr hn)⟩,
    fun h n hn => hn.elim (h.1 n) (h.2 n)⟩

theorem G_operator {p a} : G W (.operator p a) ↔ W (.operator p a) := by
  rw [G_iff]; simp [isTextual, kidsOf, children]
theorem G_reservedword {p a} : G W (.reservedword p a) ↔ W (.reservedword p a) := by
  rw [G_iff]; simp [isTextual, kidsOf, children]
theorem G_pipe {p a} : G W (.pipe p a) ↔ W (.pipe p a) := by rw [G_iff]; simp [isTextual, kidsOf, children]
@[simp] theorem G_parameter {p a} : G W (.parameter p a) := by rw [G_iff]; simp [isTextual, kidsOf, children]
@[simp] theorem G_tilde {p a} : G W (.tilde p a) := by rw [G_iff]; simp [isTextual, kidsOf, children]
@[simp] theorem G_heredoc {p a} : G W (.heredoc p a) := by rw [G_iff]; simp [isTextual, kidsOf, children]
@[simp] theorem G_list {p ps} : G W (.list p ps) ↔ GL W ps := by rw [G_iff]; simp [isTextual, kidsOf, children]
@[simp] theorem G_pipeline {p ps} : G W (.pipeline p ps) ↔ GL W ps := by rw [G_iff]; simp [isTextual, kidsOf, children]
@[simp] theorem G_ifN {p ps} : G W (.ifN p ps) ↔ GL W ps := by rw [G_iff]; simp [isTextual, kidsOf, children]
@[simp] theorem G_forN {p ps} : G W (.forN p ps) ↔ GL W ps := by rw [G_iff]; simp [isTextual, kidsOf, children]
@[simp] theorem G_whileN {p ps} : G W (.whileN p ps) ↔ GL W ps := by rw [G_iff]; simp [isTextual, kidsOf, children]
@[simp] theorem G_untilN {p ps} : G W (.untilN p ps) ↔ GL W ps := by rw [G_iff]; simp [isTextual, kidsOf, children]
@[simp] theorem G_caseN {p ps} : G W (.caseN p ps) ↔ GL W ps := by rw [G_iff]; simp [isTextual, kidsOf, children]
@[simp] theorem G_pattern {p ps} : G W (.pattern p ps) ↔ GL W ps := by rw [G_iff]; simp [isTextual, kidsOf, children]
@[simp] theorem G_command {p ps} : G W (.command p ps) ↔ GL W ps := by rw [G_iff]; simp [isTextual, kidsOf, children]
@[simp] theorem G_unimplemented {p ps} : G W (.unimplemented p ps) ↔ GL W ps := by
  rw [G_iff]; simp [isTextual, kidsOf, children]
@[simp] theorem G_function {p a b ps} : G W (.function p a b ps) ↔ GL W ps := by
  rw [G_iff]; simp [isTextual, kidsOf, children]
@[simp] theorem G_compound {p l r} : G W (.compound p l r) ↔ GL W l ∧ GL W r := by
  rw [G_iff]; simp [isTextual, kidsOf, children]
theorem G_redirect {p i t o oa h hid} :
    G W (.redirect p i t o oa h hid) ↔
      W (.redirect p i t o oa h hid) ∧ GL W o.toList ∧ GL W h.toList := by
  rw [G_iff]; simp [isTextual, kidsOf, children]
@[simp] theorem G_commandsubstitution {p c} : G W (.commandsubstitution p c) ↔ G W c := by
  rw [G_iff]; simp [isTextual, kidsOf, children]
@[simp] theorem G_processsubstitution {p c} : G W (.processsubstitution p c) ↔ G W c := by
  rw [G_iff]; simp [isTextual, kidsOf, children]
theorem G_word {p s ps} :
    G W (.word p s ps) ↔ W (.word p s ps) ∧ (W.deep = true → GL W ps) := by
  rw [G_iff]
  cases hd : W.deep <;> simp [isTextual, kidsOf, children, hd]
theorem G_assignment {p s ps} :
    G W (.assignment p s ps) ↔ W (.assignment p s ps) ∧ (W.deep = true → GL W ps) := by
  rw [G_iff]
  cases hd : W.deep <;> simp [isTextual, kidsOf, children, hd]

@[simp] theorem GV_none : GV W T .none := trivial
@[simp] theorem GV_tok {t} : GV W T (.tok t) ↔ T t := Iff.rfl
@[simp] theorem GV_node {n} : GV W T (.node n) ↔ G W n := Iff.rfl
@[simp] theorem GV_nodes {l} : GV W T (.nodes l) ↔ GL W l := Iff.rfl

/-- what the walk needs of `W`, of the tokens and of the nested parser -/
structure Ctx (W : Pred) (T : Token → Prop) (np : NestedParse) : Prop where
  /-- words are built from tokens satisfying `T` only, of type WORD / ASSIGNMENT_WORD -/
  word : ∀ tok, T tok → (tok.is .WORD = true ∨ tok.is .ASSIGNMENT_WORD = true) →
    Sat (expandword np tok) (G W)
  asg : ∀ p s ps, W (.word p s ps) → W (.assignment p s ps)
  /-- the delimiter word of a here-document redirect (a WORD token) -/
  bare : ∀ tok, T tok → tok.is .WORD = true →
    W (.word (tok.lexpos, tok.endlexpos) tok.valueStr [])
  /-- a reserved-word / operator / pipe node with the span and the value of a reserved token -/
  res : ∀ tok w, T tok → Reserved tok → tok.value = .str w →
    W (.reservedword (tok.lexpos, tok.endlexpos) w) ∧ W (.operator (tok.lexpos, tok.endlexpos) w) ∧
    W (.pipe (tok.lexpos, tok.endlexpos) w)
  /-- the operator `;` of a `for` clause becomes a reserved word -/
  semi : ∀ p w, W (.operator p w) → W (.reservedword p w)
  /-- D19: the `!` of a pipeline built from a `timespec` sits at (0,0) -/
  d19 : W (.reservedword (0, 0) ['!'])
  /-- a redirect node from its tokens: `first` (file descriptor or operator), `op`, `out` -/
  redir : ∀ first op out o oa hd hid, T first → T op → T out →
    (match o with
     | some w => w.pos = (out.lexpos, out.endlexpos) ∧ oa = .none
     | none => oa = redirIn out.value) →
    ∀ p, (hid = none → p = (first.lexpos, out.endlexpos)) →
    ∀ inp, (first = op ∧ inp = .none) ∨ inp = redirIn first.value →
    W (.redirect p inp op.valueStr o oa hd hid)

variable {np : NestedParse} {args : List SVal}

/-- the token in slot `i` (if it is one) is of a reserved type -/
def ResSlot (args : List SVal) (i : Nat) : Prop :=
  ∀ t, args.getD (i - 1) .none = .tok t → Reserved t

/-- the token in slot `i` (if it is one) is a WORD / ASSIGNMENT_WORD -/
def WordSlot (args : List SVal) (i : Nat) : Prop :=
  ∀ t, args.getD (i - 1) .none = .tok t → (t.is .WORD = true ∨ t.is .ASSIGNMENT_WORD = true)

/-- every token among the arguments is of a reserved type or a WORD -/
def PartToks (args : List SVal) : Prop :=
  ∀ t, SVal.tok t ∈ args → Reserved t ∨ t.ttype = some .WORD

theorem slice_ok (ha : ∀ a ∈ args, GV W T a) (i : Nat) : GV W T (PCtx.slice ⟨np, args⟩ i) := by
  unfold PCtx.slice
  simp only [List.getD_eq_getElem?_getD]
  cases h : args[i - 1]? with
  | none => exact trivial
  | some a => exact ha a (List.mem_of_getElem? h)

theorem sat_nodeAt (ha : ∀ a ∈ args, GV W T a) (i : Nat) (site : String) :
    Sat (PCtx.nodeAt ⟨np, args⟩ i site) (G W) := by
  unfold PCtx.nodeAt
  have := slice_ok (np := np) ha i
  split
  · rename_i n h; rw [h] at this; exact Sat.pure this
  · exact Sat.foreign trivial

theorem sat_nodesAt (ha : ∀ a ∈ args, GV W T a) (i : Nat) (site : String) :
    Sat (PCtx.nodesAt ⟨np, args⟩ i site) (GL W) := by
  unfold PCtx.nodesAt
  have := slice_ok (np := np) ha i
  split
  · rename_i n h; rw [h] at this; exact Sat.pure this
  · exact Sat.foreign trivial

/-- the token in slot `i`, with its slot -/
theorem sat_tokAt2 (ha : ∀ a ∈ args, GV W T a) (i : Nat) :
    Sat (PCtx.tokAt ⟨np, args⟩ i) (fun t => T t ∧ args.getD (i - 1) .none = .tok t) := by
  unfold PCtx.tokAt
  have := slice_ok (np := np) ha i
  split
  · rename_i t h; rw [h] at this; exact Sat.pure ⟨this, h⟩
  · exact Sat.foreign trivial

theorem sat_tokAt (ha : ∀ a ∈ args, GV W T a) (i : Nat) :
    Sat (PCtx.tokAt ⟨np, args⟩ i) T := by
  unfold PCtx.tokAt
  have := slice_ok (np := np) ha i
  split
  · rename_i t h; rw [h] at this; exact Sat.pure this
  · exact Sat.foreign trivial

/-- a token of a reserved type has a string value -/
theorem Reserved.str {t : Token} (hr : Reserved t) (hwf : C12.TokWF t) : ∃ w, t.value = .str w := by
  obtain ⟨ty, hty, hres⟩ := hr
  obtain ⟨s, hs, _, _⟩ := (hwf ty hty).1 hres
  exact ⟨s, hs⟩

/-- the three leaf kinds from the token in slot `i` -/
theorem leaf_slot (hC : Ctx W T np) (hwf : ∀ t, T t → C12.TokWF t) (ha : ∀ a ∈ args, GV W T a)
    {i : Nat} (hr : ResSlot args i) {t : Token} (ht : PCtx.slice ⟨np, args⟩ i = .tok t) :
    W (.reservedword (PCtx.lexspan ⟨np, args⟩ i) t.valueStr) ∧
    W (.operator (PCtx.lexspan ⟨np, args⟩ i) t.valueStr) ∧
    W (.pipe (PCtx.lexspan ⟨np, args⟩ i) t.valueStr) := by
  have hT : T t := by
    have := slice_ok (np := np) ha i
    rw [ht] at this; exact this
  have hres : Reserved t := hr t ht
  obtain ⟨w, hw⟩ := hres.str (hwf t hT)
  have hsp : PCtx.lexspan ⟨np, args⟩ i = (t.lexpos, t.endlexpos) := by
    unfold PCtx.lexspan; rw [ht]; rfl
  have hv : t.valueStr = w := by unfold Token.valueStr; rw [hw]
  rw [hsp, hv]
  exact hC.res t w hT hres hw

theorem sat_reservedAt (hC : Ctx W T np) (hwf : ∀ t, T t → C12.TokWF t)
    (ha : ∀ a ∈ args, GV W T a) {i : Nat} (hr : ResSlot args i) :
    Sat (reservedAt ⟨np, args⟩ i) (G W) := by
  unfold reservedAt PCtx.strAt PCtx.tokAt
  simp only [bind_assoc, pure_bind]
  split
  · rename_i t ht
    simp only [pure_bind]
    exact Sat.pure (G_reservedword.mpr (leaf_slot hC hwf ha hr ht).1)
  · simp only [M.foreign, M.raise]
    exact Sat.bind (P := fun _ => False) (Sat.foreign trivial) (fun _ h => h.elim)

theorem sat_operatorAt (hC : Ctx W T np) (hwf : ∀ t, T t → C12.TokWF t)
    (ha : ∀ a ∈ args, GV W T a) {i : Nat} (hr : ResSlot args i) :
    Sat (operatorAt ⟨np, args⟩ i) (G W) := by
  unfold operatorAt PCtx.strAt PCtx.tokAt
  simp only [bind_assoc, pure_bind]
  split
  · rename_i t ht
    simp only [pure_bind]
    exact Sat.pure (G_operator.mpr (leaf_slot hC hwf ha hr ht).2.1)
  · exact Sat.bind (P := fun _ => False) (Sat.foreign trivial) (fun _ h => h.elim)

theorem sat_makeparts (hC : Ctx W T np) (hwf : ∀ t, T t → C12.TokWF t)
    (ha : ∀ a ∈ args, GV W T a) (hp : PartToks args) :
    Sat (makeparts ⟨np, args⟩) (GL W) := by
  unfold makeparts
  simp only [bind_pure]
  refine Sat.forIn_list (I := fun rest acc => (∀ a ∈ rest, GV W T a ∧ a ∈ args) ∧ GL W acc) ?_ ?_
    args [] ⟨fun a h => ⟨ha a h, h⟩, GL_nil⟩
  · rintro a rest b ⟨hrest, hb⟩
    have hr : ∀ a' ∈ rest, GV W T a' ∧ a' ∈ args :=
      fun a' h => hrest a' (List.mem_cons_of_mem _ h)
    have hav : GV W T a := (hrest a List.mem_cons_self).1
    have hmem : a ∈ args := (hrest a List.mem_cons_self).2
    split
    · exact Sat.pure ⟨hr, GL_append.mpr ⟨hb, GL_cons.mpr ⟨hav, GL_nil⟩⟩⟩
    · exact Sat.pure ⟨hr, GL_append.mpr ⟨hb, hav⟩⟩
    · rename_i t
      split
      · rename_i hisw
        exact Sat.bind (hC.word _ hav (Or.inl hisw))
          (fun w hw => Sat.pure ⟨hr, GL_append.mpr ⟨hb, GL_cons.mpr ⟨hw, GL_nil⟩⟩⟩)
      · rename_i hnw
        refine Sat.pure ⟨hr, ?_⟩
        have hT : T t := hav
        have hres : Reserved t := by
          rcases hp t hmem with h | h
          · exact h
          · exfalso; apply hnw; simp [Token.is, h]
        obtain ⟨w, hw⟩ := hres.str (hwf t hT)
        have : tvalStr t.value = w := by rw [hw]; rfl
        rw [this]
        simp only [GL_append, GL_cons, GL_nil, and_true]
        exact ⟨hb, G_reservedword.mpr (hC.res t w hT hres hw).1⟩
    · exact Sat.pure ⟨hr, hb⟩
  · rintro b ⟨_, hb⟩; exact hb

theorem sat_addRedirects {n : Node} {reds : List Node} (hn : G W n) (hr : GL W reds) :
    Sat (addRedirects n reds) (G W) := by
  unfold addRedirects
  refine Sat.bind_any (fun _ => ?_)
  split
  · simp only []
    split
    · exact Sat.foreign trivial
    · refine Sat.bind_any (fun _ => Sat.bind_any (fun _ => Sat.pure ?_))
      simp_all
  · exact Sat.foreign trivial

theorem sat_mkCompound1 {inner : Span → List Node → Node} {parts : List Node}
    (hi : ∀ sp, G W (inner sp parts)) : Sat (mkCompound1 inner parts) (GV W T) := by
  unfold mkCompound1
  exact Sat.bind_any (fun sp => Sat.pure (by simp [hi sp]))

/-- `x ++ [sep] ++ y` with an operator separator -/
theorem sat_joinLists_op (hC : Ctx W T np) (hwf : ∀ t, T t → C12.TokWF t)
    (ha : ∀ a ∈ args, GV W T a) (hr : ResSlot args 2) (site : String) :
    Sat (joinLists ⟨np, args⟩ .operator site) (GV W T) := by
  unfold joinLists
  refine Sat.ite (fun _ => ?_) (fun _ => ?_)
  · exact Sat.bind (sat_nodeAt ha _ _) (fun n hn => Sat.pure (by simp [hn]))
  · refine Sat.bind (sat_nodesAt ha _ _) (fun l hl => Sat.bind (sat_nodesAt ha _ _) (fun r hr' => ?_))
    unfold PCtx.strAt PCtx.tokAt
    simp only [bind_assoc, pure_bind]
    split
    · rename_i t ht
      simp only [pure_bind]
      refine Sat.pure ?_
      simp only [GV_nodes, GL_append, GL_cons, GL_nil, and_true]
      exact ⟨⟨hl, G_operator.mpr (leaf_slot hC hwf ha hr ht).2.1⟩, hr'⟩
    · exact Sat.bind (P := fun _ => False) (Sat.foreign trivial) (fun _ h => h.elim)

/-- `x ++ [sep] ++ y` with a pipe separator -/
theorem sat_joinLists_pipe (hC : Ctx W T np) (hwf : ∀ t, T t → C12.TokWF t)
    (ha : ∀ a ∈ args, GV W T a) (hr : ResSlot args 2) (site : String) :
    Sat (joinLists ⟨np, args⟩ .pipe site) (GV W T) := by
  unfold joinLists
  refine Sat.ite (fun _ => ?_) (fun _ => ?_)
  · exact Sat.bind (sat_nodeAt ha _ _) (fun n hn => Sat.pure (by simp [hn]))
  · refine Sat.bind (sat_nodesAt ha _ _) (fun l hl => Sat.bind (sat_nodesAt ha _ _) (fun r hr' => ?_))
    unfold PCtx.strAt PCtx.tokAt
    simp only [bind_assoc, pure_bind]
    split
    · rename_i t ht
      simp only [pure_bind]
      refine Sat.pure ?_
      simp only [GV_nodes, GL_append, GL_cons, GL_nil, and_true]
      exact ⟨⟨hl, G_pipe.mpr (leaf_slot hC hwf ha hr ht).2.2⟩, hr'⟩
    · exact Sat.bind (P := fun _ => False) (Sat.foreign trivial) (fun _ h => h.elim)

theorem sat_handleNotImplemented (hC : Ctx W T np) (hwf : ∀ t, T t → C12.TokWF t)
    (ha : ∀ a ∈ args, GV W T a) (hp : PartToks args) (ty : String) :
    Sat (handleNotImplemented ⟨np, args⟩ ty) (GV W T) := by
  unfold handleNotImplemented
  refine Sat.bind_any (fun b => ?_)
  split
  · exact Sat.bind (sat_makeparts hC hwf ha hp)
      (fun parts hp => Sat.bind_any (fun sp => Sat.pure (by simp [hp])))
  · exact Sat.raise trivial

theorem G_asg_of_word (hC : Ctx W T np) {p s ps} (h : G W (.word p s ps)) : G W (.assignment p s ps) := by
  rw [G_word] at h
  rw [G_assignment]
  exact ⟨hC.asg p s ps h.1, h.2⟩

theorem G_bare (hC : Ctx W T np) {tok : Token} (ht : T tok) (hw : tok.is .WORD = true) :
    G W (.word (tok.lexpos, tok.endlexpos) tok.valueStr []) := by
  rw [G_word]; exact ⟨hC.bare tok ht hw, fun _ => GL_nil⟩

theorem G_of_head? {l : List Node} {n : Node} (hl : GL W l) (h : l.head? = some n) : G W n :=
  hl n (List.mem_of_head? h)

/-- the post-condition of an action -/
abbrev Post (W : Pred) (T : Token → Prop) (r : SVal × Bool) : Prop := GV W T r.1

end Bashlex.C04
