/-
  C04, part 3: one lemma per semantic action — every textual node of the value returned is `W`.

  Hypotheses of the lemmas besides `Ctx`: what the generated grammar says about the tokens among
  the arguments (`PartToks`, `ResSlot`, … — discharged in `C04/Engine.lean` from C12's sorts of
  the grammar symbols by a kernel-decided check of the production table).
-/
import Bashlex.Props.C04.Prov

namespace Bashlex.C04
open Bashlex Bashlex.M Bashlex.Node
set_option linter.unusedSimpArgs false
set_option linter.unusedVariables false

variable {W : Pred} {T : Token → Prop} {np : NestedParse} {args : List SVal}

/-- the slots an action turns into a reserved-word / operator / pipe node without looking at the
    token's type (union over the right-hand-side lengths) -/
def resSlots (f : String) : List Nat :=
  match f with
  | "p_subshell" | "p_group_command" => [1, 3]
  | "p_pattern_list" => [2, 3, 4]
  | "p_case_clause_sequence" => [2, 3]
  | "p_pattern" => [2]
  | "p_list0" | "p_simple_list" | "p_list1" | "p_simple_list1" | "p_pipeline" => [2]
  | _ => []

/-- the slots an action hands to `_expandword` without looking at the token's type (union over
    the right-hand-side lengths; a slot that holds a node is harmless) -/
def wordSlots (f : String) : List Nat :=
  match f with
  | "p_word_list" => [1, 2]
  | "p_pattern" => [1, 3]
  | "p_simple_command_element" => [1]
  | _ => []

/-- the type of the token handed to `_expandword`, from the slot facts in the context -/
macro "word_ty" : tactic => `(tactic| first
  | exact ‹WordSlot _ 1› _ (And.right ‹_ ∧ _›)
  | exact ‹WordSlot _ 2› _ (And.right ‹_ ∧ _›)
  | exact ‹WordSlot _ 3› _ (And.right ‹_ ∧ _›))

/-- one step of the walk through an action -/
macro "c04_walk_step" W:ident T:ident hC:ident hwf:ident ha:ident hR:ident : tactic => `(tactic| first
  | exact Sat.foreign trivial
  | exact Sat.raise trivial
  | refine Sat.pure ?_
  | refine Sat.map ?_
  | refine Sat.bind (sat_nodeAt (W := $W) $ha _ _) (fun _ _ => ?_)
  | refine Sat.bind (sat_nodesAt (W := $W) $ha _ _) (fun _ _ => ?_)
  | refine Sat.bind (sat_reservedAt (W := $W) $hC $hwf $ha (by exact $hR _ (by decide))) (fun _ _ => ?_)
  | refine Sat.bind (sat_operatorAt (W := $W) $hC $hwf $ha (by exact $hR _ (by decide))) (fun _ _ => ?_)
  | refine Sat.bind (sat_makeparts (W := $W) $hC $hwf $ha (by assumption)) (fun _ _ => ?_)
  | refine Sat.bind (sat_handleNotImplemented (W := $W) $hC $hwf $ha (by assumption) _) (fun _ _ => ?_)
  | refine Sat.bind (sat_tokAt2 (W := $W) $ha _) (fun _ _ => ?_)
  | refine Sat.bind (Ctx.word (W := $W) $hC _ (by simp_all) (by word_ty)) (fun _ _ => ?_)
  | refine Sat.bind (sat_addRedirects (W := $W) (by simp_all) (by simp_all)) (fun _ _ => ?_)
  | refine Sat.bind (sat_mkCompound1 (W := $W) (T := $T) (by intro sp; simp_all)) (fun _ _ => ?_)
  | refine Sat.bind (sat_joinLists_op (W := $W) $hC $hwf $ha (by exact $hR _ (by decide)) _) (fun _ _ => ?_)
  | refine Sat.bind (sat_joinLists_pipe (W := $W) $hC $hwf $ha (by exact $hR _ (by decide)) _) (fun _ _ => ?_)
  | refine Sat.bind_any (fun _ => ?_)
  | refine Sat.ite (fun _ => ?_) (fun _ => ?_)
  | refine Sat.weaken (sat_nodeAt (W := $W) $ha _ _) (fun _ _ => ?_) (fun _ h => h)
  | refine Sat.weaken (sat_nodesAt (W := $W) $ha _ _) (fun _ _ => ?_) (fun _ h => h)
  | refine Sat.weaken (sat_reservedAt (W := $W) $hC $hwf $ha (by exact $hR _ (by decide))) (fun _ _ => ?_) (fun _ h => h)
  | refine Sat.weaken (sat_operatorAt (W := $W) $hC $hwf $ha (by exact $hR _ (by decide))) (fun _ _ => ?_) (fun _ h => h)
  | refine Sat.weaken (sat_makeparts (W := $W) $hC $hwf $ha (by assumption)) (fun _ _ => ?_) (fun _ h => h)
  | refine Sat.weaken (sat_handleNotImplemented (W := $W) $hC $hwf $ha (by assumption) _) (fun _ _ => ?_) (fun _ h => h)
  | refine Sat.weaken (sat_tokAt2 (W := $W) $ha _) (fun _ _ => ?_) (fun _ h => h)
  | refine Sat.weaken (Ctx.word (W := $W) $hC _ (by simp_all) (by word_ty)) (fun _ _ => ?_) (fun _ h => h)
  | refine Sat.weaken (sat_addRedirects (W := $W) (by simp_all) (by simp_all)) (fun _ _ => ?_) (fun _ h => h)
  | refine Sat.weaken (sat_mkCompound1 (W := $W) (T := $T) (by intro sp; simp_all)) (fun _ _ => ?_) (fun _ h => h)
  | refine Sat.weaken (sat_joinLists_op (W := $W) $hC $hwf $ha (by exact $hR _ (by decide)) _) (fun _ _ => ?_) (fun _ h => h)
  | refine Sat.weaken (sat_joinLists_pipe (W := $W) $hC $hwf $ha (by exact $hR _ (by decide)) _) (fun _ _ => ?_) (fun _ h => h)
  | (show M.Sat _ _ _; split)
  | refine Sat.weaken (Sat.trivial _) (fun _ _ => ?_) (fun _ h => h))

/-- the whole walk, for the actions without a value-carrying conditional -/
macro "c04_walk" W:ident T:ident np:ident hC:ident hwf:ident ha:ident hR:ident : tactic => `(tactic|
  (unfold actionCore; simp only [pure_bind]
   have h1 := slice_ok (W := $W) (np := $np) $ha 1
   have h2 := slice_ok (W := $W) (np := $np) $ha 2
   have h3 := slice_ok (W := $W) (np := $np) $ha 3
   have h4 := slice_ok (W := $W) (np := $np) $ha 4
   have h5 := slice_ok (W := $W) (np := $np) $ha 5
   repeat' c04_walk_step $W $T $hC $hwf $ha $hR
   all_goals try (first | (simp_all [Post]; done) | (split <;> simp_all [Post]; done))))

section actions
variable (hC : Ctx W T np) (hwf : ∀ t, T t → C12.TokWF t) (ha : ∀ a ∈ args, GV W T a)
  (hp : PartToks args)
include hC hwf ha hp
set_option linter.unusedSectionVars false

omit hp in
theorem sound_inputunit (hR : ∀ i ∈ resSlots "p_inputunit", ResSlot args i) :
    Sat (actionCore np "p_inputunit" args) (Post W T) := by
  c04_walk W T np hC hwf ha hR

theorem sound_word_list (hR : ∀ i ∈ resSlots "p_word_list", ResSlot args i)
    (hWS : ∀ i ∈ wordSlots "p_word_list", WordSlot args i) :
    Sat (actionCore np "p_word_list" args) (Post W T) := by
  have hw1 := hWS 1 (by decide)
  have hw2 := hWS 2 (by decide)
  c04_walk W T np hC hwf ha hR

theorem sound_redirection_list (hR : ∀ i ∈ resSlots "p_redirection_list", ResSlot args i) :
    Sat (actionCore np "p_redirection_list" args) (Post W T) := by
  c04_walk W T np hC hwf ha hR

theorem sound_simple_command (hR : ∀ i ∈ resSlots "p_simple_command", ResSlot args i) :
    Sat (actionCore np "p_simple_command" args) (Post W T) := by
  c04_walk W T np hC hwf ha hR

theorem sound_command (hR : ∀ i ∈ resSlots "p_command", ResSlot args i) :
    Sat (actionCore np "p_command" args) (Post W T) := by
  c04_walk W T np hC hwf ha hR

theorem sound_shell_command (hR : ∀ i ∈ resSlots "p_shell_command", ResSlot args i) :
    Sat (actionCore np "p_shell_command" args) (Post W T) := by
  c04_walk W T np hC hwf ha hR

theorem sound_arith_for_command (hR : ∀ i ∈ resSlots "p_arith_for_command", ResSlot args i) :
    Sat (actionCore np "p_arith_for_command" args) (Post W T) := by
  c04_walk W T np hC hwf ha hR

theorem sound_select_command (hR : ∀ i ∈ resSlots "p_select_command", ResSlot args i) :
    Sat (actionCore np "p_select_command" args) (Post W T) := by
  c04_walk W T np hC hwf ha hR

theorem sound_case_command (hR : ∀ i ∈ resSlots "p_case_command", ResSlot args i) :
    Sat (actionCore np "p_case_command" args) (Post W T) := by
  c04_walk W T np hC hwf ha hR

theorem sound_function_def (hR : ∀ i ∈ resSlots "p_function_def", ResSlot args i) :
    Sat (actionCore np "p_function_def" args) (Post W T) := by
  c04_walk W T np hC hwf ha hR

theorem sound_function_body (hR : ∀ i ∈ resSlots "p_function_body", ResSlot args i) :
    Sat (actionCore np "p_function_body" args) (Post W T) := by
  c04_walk W T np hC hwf ha hR

theorem sound_subshell (hR : ∀ i ∈ resSlots "p_subshell", ResSlot args i) :
    Sat (actionCore np "p_subshell" args) (Post W T) := by
  c04_walk W T np hC hwf ha hR

theorem sound_group_command (hR : ∀ i ∈ resSlots "p_group_command", ResSlot args i) :
    Sat (actionCore np "p_group_command" args) (Post W T) := by
  c04_walk W T np hC hwf ha hR

theorem sound_coproc (hR : ∀ i ∈ resSlots "p_coproc", ResSlot args i) :
    Sat (actionCore np "p_coproc" args) (Post W T) := by
  c04_walk W T np hC hwf ha hR

theorem sound_if_command (hR : ∀ i ∈ resSlots "p_if_command", ResSlot args i) :
    Sat (actionCore np "p_if_command" args) (Post W T) := by
  c04_walk W T np hC hwf ha hR

theorem sound_arith_command (hR : ∀ i ∈ resSlots "p_arith_command", ResSlot args i) :
    Sat (actionCore np "p_arith_command" args) (Post W T) := by
  c04_walk W T np hC hwf ha hR

theorem sound_cond_command (hR : ∀ i ∈ resSlots "p_cond_command", ResSlot args i) :
    Sat (actionCore np "p_cond_command" args) (Post W T) := by
  c04_walk W T np hC hwf ha hR

theorem sound_case_clause (hR : ∀ i ∈ resSlots "p_case_clause", ResSlot args i) :
    Sat (actionCore np "p_case_clause" args) (Post W T) := by
  c04_walk W T np hC hwf ha hR

theorem sound_case_clause_sequence (hR : ∀ i ∈ resSlots "p_case_clause_sequence", ResSlot args i) :
    Sat (actionCore np "p_case_clause_sequence" args) (Post W T) := by
  c04_walk W T np hC hwf ha hR

theorem sound_pattern (hR : ∀ i ∈ resSlots "p_pattern", ResSlot args i)
    (hWS : ∀ i ∈ wordSlots "p_pattern", WordSlot args i) :
    Sat (actionCore np "p_pattern" args) (Post W T) := by
  have hw1 := hWS 1 (by decide)
  have hw3 := hWS 3 (by decide)
  c04_walk W T np hC hwf ha hR

theorem sound_list (hR : ∀ i ∈ resSlots "p_list", ResSlot args i) :
    Sat (actionCore np "p_list" args) (Post W T) := by
  c04_walk W T np hC hwf ha hR

theorem sound_compound_list (hR : ∀ i ∈ resSlots "p_compound_list", ResSlot args i) :
    Sat (actionCore np "p_compound_list" args) (Post W T) := by
  c04_walk W T np hC hwf ha hR
  exact G_of_head? ‹_› ‹_›

theorem sound_list0 (hR : ∀ i ∈ resSlots "p_list0", ResSlot args i) :
    Sat (actionCore np "p_list0" args) (Post W T) := by
  c04_walk W T np hC hwf ha hR
  exact G_of_head? ‹_› ‹_›

theorem sound_list1 (hR : ∀ i ∈ resSlots "p_list1", ResSlot args i) :
    Sat (actionCore np "p_list1" args) (Post W T) := by
  c04_walk W T np hC hwf ha hR

omit hp in
theorem sound_simple_list_terminator (hR : ∀ i ∈ resSlots "p_simple_list_terminator", ResSlot args i) :
    Sat (actionCore np "p_simple_list_terminator" args) (Post W T) := by
  c04_walk W T np hC hwf ha hR

theorem sound_newline_list (hR : ∀ i ∈ resSlots "p_newline_list", ResSlot args i) :
    Sat (actionCore np "p_newline_list" args) (Post W T) := by
  c04_walk W T np hC hwf ha hR

theorem sound_simple_list1 (hR : ∀ i ∈ resSlots "p_simple_list1", ResSlot args i) :
    Sat (actionCore np "p_simple_list1" args) (Post W T) := by
  c04_walk W T np hC hwf ha hR

theorem sound_pipeline (hR : ∀ i ∈ resSlots "p_pipeline", ResSlot args i) :
    Sat (actionCore np "p_pipeline" args) (Post W T) := by
  c04_walk W T np hC hwf ha hR

theorem sound_timespec (hR : ∀ i ∈ resSlots "p_timespec", ResSlot args i) :
    Sat (actionCore np "p_timespec" args) (Post W T) := by
  c04_walk W T np hC hwf ha hR

theorem sound_empty (hR : ∀ i ∈ resSlots "p_empty", ResSlot args i) :
    Sat (actionCore np "p_empty" args) (Post W T) := by
  c04_walk W T np hC hwf ha hR

theorem sound_pattern_list (hR : ∀ i ∈ resSlots "p_pattern_list", ResSlot args i) :
    Sat (actionCore np "p_pattern_list" args) (Post W T) := by
  c04_walk W T np hC hwf ha hR

theorem sound_simple_list (hR : ∀ i ∈ resSlots "p_simple_list", ResSlot args i) :
    Sat (actionCore np "p_simple_list" args) (Post W T) := by
  c04_walk W T np hC hwf ha hR

omit hp in
theorem sound_simple_command_element
    (hR : ∀ i ∈ resSlots "p_simple_command_element", ResSlot args i)
    (hWS : ∀ i ∈ wordSlots "p_simple_command_element", WordSlot args i) :
    Sat (actionCore np "p_simple_command_element" args) (Post W T) := by
  have hw1 := hWS 1 (by decide)
  c04_walk W T np hC hwf ha hR
  simp only [Post, GV_nodes, GL_cons, GL_nil, and_true]
  exact G_asg_of_word hC ‹_›

omit hwf ha hp in
theorem GL_fix {l : List Node} (h : GL W l) : GL W (actionCore.fix l) := by
  induction l with
  | nil => simp [actionCore.fix]
  | cons n rest ih =>
    simp only [GL_cons] at h
    cases n <;> simp only [actionCore.fix] <;> try (simp [h.1, ih h.2])
    rename_i pos op
    split
    · simp only [GL_cons]
      refine ⟨?_, h.2⟩
      rename_i hop
      have : op = [';'] := by simpa using hop
      subst this
      exact G_reservedword.mpr (hC.semi _ _ (G_operator.mp h.1))
    · simp only [GL_cons]; exact ⟨h.1, ih h.2⟩

theorem sound_for_command (hR : ∀ i ∈ resSlots "p_for_command", ResSlot args i) :
    Sat (actionCore np "p_for_command" args) (Post W T) := by
  unfold actionCore; simp only [pure_bind]
  refine Sat.bind (sat_makeparts hC hwf ha hp) (fun parts hp' => ?_)
  have hfix := GL_fix hC hp'
  repeat' c04_walk_step W T hC hwf ha hR
  all_goals simp_all [Post]

omit hp in
/-- `p_elif_clause`: every token among the arguments is of a reserved type, none is `None` -/
theorem sound_elif_clause
    (hE : ∀ a ∈ args, a ≠ .none ∧ ∀ t, a = .tok t → Reserved t) :
    Sat (actionCore np "p_elif_clause" args) (Post W T) := by
  unfold actionCore; simp only []
  refine Sat.bind (P := GL W) ?_ (fun parts hp => Sat.pure hp)
  refine Sat.forIn_list (I := fun rest acc => (∀ a ∈ rest, GV W T a ∧ a ∈ args) ∧ GL W acc) ?_ ?_
    args [] ⟨fun a h => ⟨ha a h, h⟩, GL_nil⟩
  · rintro a rest b ⟨hrest, hb⟩
    have hr : ∀ a' ∈ rest, GV W T a' ∧ a' ∈ args := fun a' h => hrest a' (List.mem_cons_of_mem _ h)
    have hav : GV W T a := (hrest a List.mem_cons_self).1
    have hmem : a ∈ args := (hrest a List.mem_cons_self).2
    split
    · exact Sat.pure ⟨hr, GL_append.mpr ⟨hb, GL_cons.mpr ⟨hav, GL_nil⟩⟩⟩
    · exact Sat.pure ⟨hr, GL_append.mpr ⟨hb, hav⟩⟩
    · rename_i t
      refine Sat.pure ⟨hr, ?_⟩
      have hT : T t := hav
      have hres : Reserved t := (hE _ hmem).2 t rfl
      obtain ⟨w, hw⟩ := hres.str (hwf t hT)
      have : tvalStr t.value = w := by rw [hw]; rfl
      rw [this]
      simp only [GL_append, GL_cons, GL_nil, and_true]
      exact ⟨hb, G_reservedword.mpr (hC.res t w hT hres hw).1⟩
    · exact absurd rfl (hE _ hmem).1
  · rintro b ⟨_, hb⟩; exact hb

omit hp in
/-- `p_list_terminator`: a token valued `;` in slot 1 is of a reserved type -/
theorem sound_list_terminator
    (hS : ∀ t, args.getD 0 .none = .tok t → t.value = .str [';'] → Reserved t) :
    Sat (actionCore np "p_list_terminator" args) (Post W T) := by
  unfold actionCore; simp only [pure_bind]
  split
  · rename_i t ht
    split
    · rename_i hv
      refine Sat.pure ?_
      have hv' : t.value = .str [';'] := by simpa using hv
      have hT : T t := by
        have := slice_ok (W := W) (np := np) ha 1
        rw [ht] at this; exact this
      have hsp : PCtx.lexspan ⟨np, args⟩ 1 = (t.lexpos, t.endlexpos) := by
        unfold PCtx.lexspan; rw [ht]; rfl
      show G W (.operator (PCtx.lexspan ⟨np, args⟩ 1) [';'])
      rw [hsp]
      exact G_operator.mpr (hC.res t _ hT (hS t ht hv') hv').2.1
    · exact Sat.pure trivial
  · exact Sat.pure trivial

omit hp in
/-- the `!` of `p_pipeline_command`: a token in slot 1 is BANG; otherwise (a `timespec` value)
    the reserved word sits at (0,0) (D19) -/
theorem bang_ok (hB : ∀ t, args.getD 0 .none = .tok t → t.ttype = some .BANG) :
    G W (.reservedword (PCtx.lexspan ⟨np, args⟩ 1) ['!']) := by
  rw [G_reservedword]
  cases hs : PCtx.slice ⟨np, args⟩ 1 with
  | tok t =>
    have hT : T t := by
      have := slice_ok (W := W) (np := np) ha 1
      rw [hs] at this; exact this
    have hty := hB t hs
    have hres : Reserved t := ⟨_, hty, rfl⟩
    obtain ⟨s, hs', _, hval⟩ := (hwf t hT _ hty).1 rfl
    have : s = ['!'] := (hval ['!'] rfl).symm
    subst this
    have hsp : PCtx.lexspan ⟨np, args⟩ 1 = (t.lexpos, t.endlexpos) := by
      unfold PCtx.lexspan; rw [hs]; rfl
    rw [hsp]
    exact (hC.res t _ hT hres hs').1
  | none => unfold PCtx.lexspan; rw [hs]; exact hC.d19
  | node n => unfold PCtx.lexspan; rw [hs]; exact hC.d19
  | nodes l => unfold PCtx.lexspan; rw [hs]; exact hC.d19

omit hp in
theorem sound_pipeline_command
    (hB : ∀ t, args.getD 0 .none = .tok t → t.ttype = some .BANG) :
    Sat (actionCore np "p_pipeline_command" args) (Post W T) := by
  have hbang := bang_ok hC hwf ha hB
  have hR : ∀ i ∈ resSlots "p_pipeline_command", ResSlot args i := by
    intro i hi; simp [resSlots] at hi
  unfold actionCore; simp only [pure_bind]
  have h1 := slice_ok (W := W) (np := np) ha 1
  have h2 := slice_ok (W := W) (np := np) ha 2
  repeat' c04_walk_step W T hC hwf ha hR
  all_goals try (first | (simp_all [Post]; done) | (split <;> simp_all [Post]; done))

omit hC hwf ha hp in
/-- `_expandword` returns a node at the token's span -/
theorem sat_expandword_pos (np : NestedParse) (tok : Token) :
    Sat (expandword np tok) (fun w => w.pos = (tok.lexpos, tok.endlexpos)) := by
  unfold expandword
  refine Sat.bind_any (fun l => ?_)
  simp only []
  repeat' first
    | exact Sat.pure rfl
    | exact Sat.foreign trivial
    | refine Sat.ite (fun _ => ?_) (fun _ => ?_)
    | refine Sat.bind_any (fun _ => ?_)
    | (show M.Sat _ _ _; split)

omit hC hwf hp in
theorem sat_tokAt' (i : Nat) :
    Sat (PCtx.tokAt ⟨np, args⟩ i) (fun t => T t ∧ PCtx.slice ⟨np, args⟩ i = .tok t) := by
  unfold PCtx.tokAt
  have := slice_ok (W := W) (np := np) ha i
  split
  · rename_i t h; rw [h] at this; exact Sat.pure ⟨this, h⟩
  · exact Sat.foreign trivial

omit hC hwf hp in
theorem sat_strAt' (i : Nat) :
    Sat (PCtx.strAt ⟨np, args⟩ i)
      (fun s => ∃ t, T t ∧ PCtx.slice ⟨np, args⟩ i = .tok t ∧ s = t.valueStr) := by
  unfold PCtx.strAt
  exact Sat.bind (sat_tokAt' ha i) (fun t ht => Sat.pure ⟨t, ht.1, ht.2, rfl⟩)

omit hC hwf ha hp in
theorem lexspan_tok {i : Nat} {t : Token} (h : PCtx.slice ⟨np, args⟩ i = .tok t) :
    PCtx.lexspan ⟨np, args⟩ i = (t.lexpos, t.endlexpos) := by
  unfold PCtx.lexspan; rw [h]; rfl

/-- the part of `p_redirection` after the output has been computed -/
macro "redir_tail" hC:ident ha:ident hlen:ident hTo:ident hso:ident hout:term : tactic => `(tactic|
  (refine Sat.ite (fun h3 => ?_) (fun h3 => ?_)
   · have h3' : PCtx.len ⟨np, args⟩ = 3 := by simpa using h3
     rw [h3'] at $hso:ident
     refine Sat.bind (sat_strAt' $ha 1) (fun s hs => Sat.pure ?_)
     obtain ⟨t1, hT1, hs1, hseq⟩ := hs
     subst hseq
     show G W _
     rw [G_redirect, lexspan_tok hs1, lexspan_tok $hso]
     refine ⟨?_, ($hout).1, by simp⟩
     exact Ctx.redir $hC t1 t1 _ _ _ none none hT1 hT1 $hTo ($hout).2 _ (fun _ => rfl) _ (Or.inl ⟨rfl, rfl⟩)
   · have h4 : PCtx.len ⟨np, args⟩ = 4 := by
       have : PCtx.len ⟨np, args⟩ ≠ 3 := by simpa using h3
       unfold PCtx.len at this ⊢
       simp only [] at this ⊢
       omega
     rw [h4] at $hso:ident
     refine Sat.bind (sat_tokAt' $ha 1) (fun t1 ht1 => ?_)
     obtain ⟨hT1, hs1⟩ := ht1
     refine Sat.bind (sat_strAt' $ha 2) (fun s hs => Sat.pure ?_)
     obtain ⟨t2, hT2, hs2, hseq⟩ := hs
     subst hseq
     show G W _
     rw [G_redirect, lexspan_tok hs1, lexspan_tok $hso]
     refine ⟨?_, ($hout).1, by simp⟩
     exact Ctx.redir $hC t1 t2 _ _ _ none none hT1 hT2 $hTo ($hout).2 _ (fun _ => rfl) _ (Or.inr rfl)))

omit hwf hp in
theorem sound_redirection (hlen : args.length = 2 ∨ args.length = 3) :
    Sat (actionCore np "p_redirection" args) (Post W T) := by
  unfold actionCore; simp only []
  refine Sat.bind (sat_tokAt' ha _) (fun otok hot => ?_)
  obtain ⟨hTo, hso⟩ := hot
  refine Sat.ite (fun hw => ?_) (fun hw => ?_)
  · refine Sat.bind (Sat.and (hC.word _ hTo (Or.inl hw)) (sat_expandword_pos np otok)) (fun w hw => ?_)
    simp only [pure_bind]
    have hout : GL W (some w).toList ∧ (w.pos = (otok.lexpos, otok.endlexpos) ∧ RedirIn.none = RedirIn.none) :=
      ⟨by simp [hw.1], hw.2, rfl⟩
    redir_tail hC ha hlen hTo hso hout
  · simp only [pure_bind]
    have hout : GL W (none : Option Node).toList ∧
        (match otok.value with | .int k => RedirIn.num k | .str s => .str s | .none => .none) =
          redirIn otok.value := ⟨by simp, rfl⟩
    redir_tail hC ha hlen hTo hso hout

omit hwf hp in
theorem sound_redirection_heredoc (hlen : args.length = 2 ∨ args.length = 3)
    (hHere : ∀ t, args.getD (args.length - 1) .none = .tok t → t.is .WORD = true) :
    Sat (actionCore np "p_redirection_heredoc" args) (Post W T) := by
  unfold actionCore; simp only []
  refine Sat.bind (sat_tokAt' ha _) (fun wtok hot => ?_)
  obtain ⟨hTo, hso⟩ := hot
  have hwt : wtok.is .WORD = true := by
    apply hHere
    simpa [PCtx.slice, PCtx.len] using hso
  have hout : GL W (some (Node.word (wtok.lexpos, wtok.endlexpos) wtok.valueStr [])).toList := by
    simp [G_bare hC hTo hwt]
  refine Sat.ite (fun h3 => ?_) (fun h3 => ?_)
  · refine Sat.bind (sat_strAt' ha 1) (fun s hs => ?_)
    obtain ⟨t1, hT1, hs1, rfl⟩ := hs
    simp only [pure_bind]
    refine Sat.bind_any (fun l => Sat.bind_any (fun _ => Sat.pure ?_))
    show G W _
    rw [G_redirect]
    refine ⟨?_, hout, by simp⟩
    exact hC.redir t1 t1 wtok (some (Node.word (wtok.lexpos, wtok.endlexpos) wtok.valueStr []))
      RedirIn.none none _ hT1 hT1 hTo ⟨rfl, rfl⟩ _ (fun h => by cases h) _ (Or.inl ⟨rfl, rfl⟩)
  · refine Sat.bind (sat_tokAt' ha 1) (fun t1 ht1 => ?_)
    obtain ⟨hT1, hs1⟩ := ht1
    refine Sat.bind (sat_strAt' ha 2) (fun s hs => ?_)
    obtain ⟨t2, hT2, hs2, rfl⟩ := hs
    simp only [pure_bind]
    refine Sat.bind_any (fun l => Sat.bind_any (fun _ => Sat.pure ?_))
    show G W _
    rw [G_redirect]
    refine ⟨?_, hout, by simp⟩
    exact hC.redir t1 t2 wtok (some (Node.word (wtok.lexpos, wtok.endlexpos) wtok.valueStr []))
      RedirIn.none none _ hT1 hT2 hTo ⟨rfl, rfl⟩ _ (fun h => by cases h) _ (Or.inr rfl)

end actions

end Bashlex.C04
