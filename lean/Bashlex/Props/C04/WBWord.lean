/-
  C04, word boundaries, part 1: how the loop of `_readtokenword` is left.

  `step_x`: when an iteration of the loop leaves it (`break`), the cursor `k` satisfies `exitB`:
  it is at the end of the line, or on a break character that does not open a process
  substitution (the character that ended the word was put back with `_ungetc`; after the DOUBLE
  `_ungetc` of D32 it is the newline of the continuation), or before the final continuation
  (D31 + D32).  Conjoined with `step_tt` (same program, same pre-condition) this gives the loop
  and `_readtokenword` with both the text relation and the exit fact.
-/
import Bashlex.Props.C04.WBDefs

namespace Bashlex.C04.WB
open Bashlex Bashlex.M Bashlex.C10 Bashlex.C11 Bashlex.C03.Tok Bashlex.C04 Bashlex.C04.TTP
set_option linter.unusedSimpArgs false
set_option linter.unusedVariables false

/-- walk through code all of whose leaves return a pair with second component `false` -/
macro "peek_walk" : tactic => `(tactic| repeat' (first
  | ((with_reducible refine HT.pure (fun _ _ _ h => ?_)); cases h; done)
  | with_reducible refine HT.ite (fun _ => ?_) (fun _ => ?_)
  | with_reducible refine HT.skip (fun _ => ?_)))

/-- `handleshellexp` puts its look-ahead back (returns `True`) only when that look-ahead is not
    an opening parenthesis -/
theorem hse_peek {L : Str} {ps : List Nat} {i : Nat} (st : RWState) (c : Char) (cd : Option Char) :
    HT (Tp L ps i) (handleshellexp st c cd)
      (fun x _ _ => x.2 = true → peekC L i ≠ some '(') ET := by
  unfold handleshellexp
  simp only []
  refine HT.bind getc_peek (fun peek => ?_)
  refine HT.forget (fun hpk => ?_)
  refine HT.ite (fun h1 => ?_) (fun h1 => ?_)
  · peek_walk
  refine HT.ite (fun h2 => ?_) (fun h2 => ?_)
  · peek_walk
  refine HT.ite (fun h3 => ?_) (fun h3 => ?_)
  · refine HT.pure (fun _ _ _ h => ?_)
    cases h
  · refine HT.skip (fun _ => ?_)
    refine HT.pure (fun _ _ _ _ => ?_)
    rw [← hpk]
    intro hp
    apply h1
    rw [hp]; rfl

/-- what is known when an iteration leaves the loop -/
def XQ (L : Str) (a : Nat) (r : RWState ⊕ RWState) (l : Local) (e : Env) : Prop :=
  ∀ st', r = .inr st' → ∃ k, exitB L k = true ∧ Tp L [a] k l e

section
variable {L : Str} {a : Nat}

theorem rwTail_x {P : Local → Env → Prop} (st : RWState) : HT P (rwTail st) (XQ L a) ET := by
  unfold rwTail
  refine HT.skip (fun _ => HT.skip (fun _ => ?_))
  refine HT.pure (fun _ _ _ st' h => ?_)
  cases h

theorem rwBreak_true_x {P : Local → Env → Prop} (st : RWState) (c : Char) :
    HT P (rwBreak st c true) (XQ L a) ET := by
  rw [rwBreak_true]; exact rwTail_x st

theorem exitB_brk {k : Nat} {c : Char} (h : L[k]? = some c) (hb : (synClass c).brk = true)
    (hp : (c ≠ '<' ∧ c ≠ '>') ∨ peekC L (k + 1) ≠ some '(') : exitB L k = true := by
  unfold exitB
  simp only [Bool.or_eq_true, Bool.and_eq_true, Bool.not_eq_true']
  refine Or.inl (Or.inr ⟨brkAt_of h hb, ?_⟩)
  unfold procSubAtB
  rw [h]
  rcases hp with ⟨h1, h2⟩ | hp
  · have e1 : (some c == some '<') = false := by simpa using h1
    have e2 : (some c == some '>') = false := by simpa using h2
    rw [e1, e2]; rfl
  · have : (peekC L (k + 1) == some '(') = false := by simpa using hp
    rw [this]; simp

theorem exitB_pair {k : Nat} (h : L.drop k = ['\\', '\n']) : exitB L k = true := by
  unfold exitB; rw [h]; simp

theorem exitB_len {k : Nat} (h : L.length ≤ k) : exitB L k = true := by
  unfold exitB; simp [h]

theorem nexp_ne {c : Char} (h : (synClass c).exp = false) : c ≠ '<' ∧ c ≠ '>' := by
  constructor <;> (rintro rfl; revert h; decide)

/-- a character in hand that is no expansion character -/
theorem plain_x (hnl : NL L) (st : RWState) (c : Char) {i : Nat} (hc : st.c = some c)
    (hw : WInv L a st i) (hnexp : (synClass c).exp = false) :
    HT (Tp L [a] i) (rwBreak st c false) (XQ L a) ET := by
  obtain ⟨hhand, hlen, hwp, _⟩ := hw
  unfold rwBreak
  simp only [Bool.not_false, if_true]
  refine keep_bind (v_shellbreak c) (fun b hb => ?_)
  subst hb
  rw [hc] at hhand
  refine HT.ite (fun hbrk => ?_) (fun hbrk => rwTail_x _)
  cases hhand with
  | read i0 rqn _ h0 hdel hg =>
    obtain ⟨g1, g2, g3⟩ := hg.char c rfl
    refine ungetc_bind (by omega) ?_
    exact HT.pure (fun l e h st' _ => ⟨i - 1, exitB_brk g2 hbrk (Or.inl (nexp_ne hnexp)), h⟩)
  | procsub _ _ hcc =>
    exfalso
    rcases hcc with rfl | rfl <;> revert hnexp <;> decide
  | d31 hi hdrop hai hd =>
    have hpos : 0 < L.length := by
      have := congrArg List.length hdrop
      rw [List.length_drop] at this; simp at this; omega
    obtain ⟨q1, q2⟩ := drop_single hdrop
    refine ungetc_bind (by omega) ?_
    exact HT.pure (fun l e h st' _ => ⟨i - 1,
      exitB_brk q1 (by decide) (Or.inl ⟨by decide, by decide⟩), h⟩)

/-- after `handleshellexp` put its look-ahead back: the second `_ungetc` if the character in
    hand is `<` / `>` -/
theorem expBack_x (hnl : NL L) (st : RWState) (c : Char) {i : Nat} (hc : st.c = some c)
    (hw : WInv L a st i) (hexp : (synClass c).exp = true)
    {j1 : Nat} {peek : Option Char} (hg : GetcR true L i j1 peek) (hne : peek ≠ some '(')
    (hpk : peekC L i ≠ some '(') :
    HT (Tp L [a] (j1 - 1)) (rwBreak st c false) (XQ L a) ET := by
  obtain ⟨hhand, hlen, hwp, _⟩ := hw
  rw [hc] at hhand
  have hread : ∃ i0 rqn, a ≤ i0 ∧ Del (Str.slice L a i0) st.tokenword ∧ GetcR rqn L i0 i (some c) := by
    cases hhand with
    | read i0 rqn _ h0 hdel hg0 => exact ⟨i0, rqn, h0, hdel, hg0⟩
    | procsub _ _ _ _ _ _ hpar =>
      exfalso
      exact hne (hg.exact hpar (Or.inl (by decide))).1
    | d31 _ _ _ _ => exfalso; revert hexp; decide
  obtain ⟨i0, rqn, h0, hdel, hg0⟩ := hread
  obtain ⟨g1, g2, g3⟩ := hg0.char c rfl
  have hcn : c ≠ '\n' := by rintro rfl; revert hexp; decide
  have hi : i < L.length := nl_lt hnl g2 hcn (by omega)
  obtain ⟨b1, b2, b3, b4⟩ := back1 hg hi
  unfold rwBreak
  simp only [Bool.not_false, if_true]
  refine keep_bind (v_shellbreak c) (fun b hb => ?_)
  subst hb
  refine HT.ite (fun hbrk => ?_) (fun hbrk => rwTail_x _)
  refine ungetc_bind (by omega) ?_
  have hleaf : exitB L (j1 - 1 - 1) = true →
      HT (Tp L [a] (j1 - 1 - 1))
        (pure (Sum.inr { st with c := some c }) : M (RWState ⊕ RWState)) (XQ L a) ET :=
    fun hx => HT.pure (fun l e h st' _ => ⟨j1 - 1 - 1, hx, h⟩)
  rcases b4 with ⟨p, rfl, hp1, hp2⟩ | ⟨rfl, hj, hdrop, hp2⟩
  · by_cases hji : j1 - 1 = i
    · refine hleaf ?_
      have e1 : j1 - 1 - 1 = i - 1 := by omega
      rw [e1]
      refine exitB_brk g2 hbrk (Or.inr ?_)
      have e2 : i - 1 + 1 = i := by omega
      rw [e2]; exact hpk
    · obtain ⟨q1, q2, q3, q4, q5⟩ := pairs_back hp2 (by omega) (by omega)
      exact hleaf (exitB_brk q2 (by decide) (Or.inl ⟨by decide, by decide⟩))
  · obtain ⟨q0, q00⟩ := hg.atEnd rfl
    rw [q0] at q00
    obtain ⟨q1, q2, q3, q4, q5⟩ := pairs_back q00 (by omega) (Nat.le_refl _)
    have e1 : j1 - 1 - 1 = L.length - 2 := by omega
    rw [e1]
    rw [e1] at hleaf
    refine hleaf (exitB_pair (drop_last_two q3 ?_ (by omega)))
    have : L.length - 2 + 1 = L.length - 1 := by omega
    rw [this]; exact q2

set_option maxHeartbeats 1000000 in
/-- **one iteration of the loop of `_readtokenword`**: how it leaves the loop -/
theorem step_x (hS : ScanHyp) (hnl : NL L) (st : RWState) {i : Nat} (hw : WInv L a st i) :
    HT (Tp L [a] i) (readtokenwordStep st) (XQ L a) ET := by
  rw [readtokenwordStep_eq]
  have hw0 := hw
  obtain ⟨hhand, hlen, hwp, hpn⟩ := hw
  cases hc : st.c with
  | none =>
    simp only []
    rw [hc] at hhand
    cases hhand with
    | read i0 rqn _ h0 hdel hg =>
      obtain ⟨e1, e2⟩ := hg.atEnd rfl
      exact HT.pure (fun l e h st' _ => ⟨i, exitB_len (by omega), h⟩)
  | some c0 =>
    simp only []
    rw [hc] at hhand
    by_cases hp : st.passNext = true
    · rw [if_pos hp]
      exact rwTail_x _
    · rw [if_neg hp]
      have hpf : st.passNext = false := by
        cases h : st.passNext with
        | true => exact absurd h hp
        | false => rfl
      refine keep_bind k_currentDelimiter (fun cd _ => ?_)
      refine HT.ite (fun hbs => ?_) (fun hbs => ?_)
      · -- a backslash
        have hc0 : c0 = '\\' := by simpa using hbs
        subst hc0
        obtain ⟨i0, rqn, h0, hdel, hg⟩ := hhand.read_of (by decide) (by decide) (by decide)
        obtain ⟨g1, g2, g3⟩ := hg.char '\\' rfl
        have hi : i < L.length := nl_lt hnl g2 (by decide) (by omega)
        refine getc_bind (fun peek j2 hg2 => ?_)
        have hp' : L[i]? = some L[i] := List.getElem?_eq_getElem hi
        obtain ⟨e1, e2⟩ := hg2.exact hp' (Or.inr rfl)
        subst e1 e2
        refine HT.ite (fun hn => rwBreak_true_x _ _) (fun hn => ?_)
        refine ungetc_bind (Nat.succ_pos i) ?_
        show HT (Tp L [a] i) _ _ _
        refine keep_bind (k_rwCond cd _) (fun cond _ => ?_)
        refine HT.ite (fun _ => rwBreak_true_x _ _) (fun _ => ?_)
        exact plain_x hnl st '\\' hc hw0 (by decide)
      · refine keep_bind (v_shellquote c0) (fun b hb => ?_)
        subst hb
        refine HT.ite (fun hq => ?_) (fun hq => ?_)
        · exact HT.skip (fun st' => rwBreak_true_x _ _)
        · refine keep_bind (v_shellexp c0) (fun b hb => ?_)
          subst hb
          refine HT.ite (fun hx => ?_) (fun hx => ?_)
          · -- `$`, `<`, `>`
            have hcn : c0 ≠ '\n' := by rintro rfl; revert hx; decide
            obtain ⟨d1, d2, d3⟩ := hhand.del_some hnl hcn
            have hboth := HT.and (handleshellexp_tt hS hnl st c0 cd hx d1 d2 d3 hpf hwp)
              (hse_peek (L := L) (ps := [a]) (i := i) st c0 cd)
            refine HT.bind (HT.pre hboth (fun l e h => ⟨h, h⟩)) (fun x => ?_)
            obtain ⟨st', r⟩ := x
            cases r with
            | false =>
              show HT _ (rwBreak st' c0 (!false)) _ _
              rw [Bool.not_false]
              exact rwBreak_true_x _ _
            | true =>
              refine HT.pre (P := fun l e => (peekC L i ≠ some '(') ∧
                (st' = st ∧ ∃ j1, (∃ peek, GetcR true L i j1 peek ∧ peek ≠ some '(' ∧ 0 < j1) ∧
                  Tp L [a] (j1 - 1) l e)) ?_ ?_
              · refine HT.pre_pure (fun hpk => HT.pre_pure (fun hst => ?_))
                refine HT.pre_exists (fun j1 => HT.pre_pure (fun hj => ?_))
                obtain ⟨peek, hg, hne, _⟩ := hj
                show HT _ (rwBreak st' c0 (!true)) _ _
                rw [Bool.not_true, hst]
                exact expBack_x hnl st c0 hc hw0 hx hg hne hpk
              · rintro l e ⟨hq, hpk⟩
                refine ⟨hpk rfl, ?_⟩
                rcases hq with ⟨hf, _⟩ | ⟨_, hst, hrest⟩
                · cases hf
                · exact ⟨hst, hrest⟩
          · exact plain_x hnl st c0 hc hw0 (by simpa using hx)

/-- the word read, the cursor at its end `k`, and how the loop was left -/
def ExitQ' (L : Str) (a : Nat) (st : RWState) (l : Local) (e : Env) : Prop :=
  ∃ k, (SpanW L a k st.tokenword ∧ exitB L k = true) ∧ Tp L [a] k l e

/-- the loop of `_readtokenword` -/
theorem rtwLoop_wb (hS : ScanHyp) (hnl : NL L) (fuel : Nat) (st : RWState) :
    HT (RWI L a st) (M.loop "_readtokenword" readtokenwordStep fuel st) (ExitQ' L a) ET := by
  refine HT.loop (I := RWI L a) True.intro (fun s => ?_) fuel st
  refine HT.pre_exists (fun i => HT.pre_pure (fun hw => ?_))
  refine HT.post (HT.pre (HT.and (step_tt hS hnl s hw) (step_x hS hnl s hw)) (fun l e h => ⟨h, h⟩)) ?_
  intro r l e h
  cases r with
  | inl s' => exact h.1
  | inr s' =>
    obtain ⟨⟨k, hk, htp⟩, hx⟩ := h
    obtain ⟨k', hk', htp'⟩ := hx s' rfl
    have : k' = k := by rw [← htp'.2.1, ← htp.2.1]
    subst this
    exact ⟨k', ⟨hk, hk'⟩, htp⟩

/-- **`_readtokenword(c)`**, entered with the invariant of its loop -/
theorem readtokenword_wb (hS : ScanHyp) (hnl : NL L) (c : Char) (a : Nat) :
    HT (RWI L a { c := some c, allDigit := isDigit c }) (readtokenword c)
      (fun t l e => ∃ k, (∃ tw, SpanW L a k tw ∧ WordTok a k tw t ∧ exitB L k = true) ∧
        Tp L [] k l e) ET := by
  unfold readtokenword
  refine HT.bind (Q := fun _ l e => RWI L a { c := some c, allDigit := isDigit c } l e)
    (HT.pure (fun _ _ h => h)) (fun fuel => ?_)
  refine HT.bind (rtwLoop_wb hS hnl fuel _) (fun st => ?_)
  refine HT.pre_exists (fun k => HT.pre_pure (fun hk => ?_))
  refine HT.post (finishWord_tt st a) ?_
  intro t l e h
  exact ⟨k, ⟨st.tokenword, hk.1, h.1, hk.2⟩, h.2⟩

end

end Bashlex.C04.WB
