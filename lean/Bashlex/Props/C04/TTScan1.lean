/-
  C04, token text, part 11 (layer D): the ghost relation of the two recursive scanners.

  `Sp L i k w`: the text `L[i:k]` spells `w` up to deleted backslash-newline pairs, possibly
  followed by the D31 residue (`_ungetc(None)` after a look-ahead that ran through a continuation
  into the end of the line left the cursor on the newline of that pair).
  `Dm L k`: the cursor is on the last character of the line or behind it ("doomed": a scanner in
  such a state reads the final newline, then `None`, and raises `MatchedPairError`; it is entered
  through `_ungetc(None)`, after which the relation `Sp` may be lost — the newline is read twice).
-/
import Bashlex.Props.C04.TTWord3

namespace Bashlex.C04.TTP
open Bashlex Bashlex.M Bashlex.C10 Bashlex.C11 Bashlex.C03.Tok Bashlex.C04
set_option linter.unusedSimpArgs false
set_option linter.unusedVariables false

def Sp (L : Str) (i k : Nat) (w : Str) : Prop :=
  ∃ res ∈ residues false L k, Del (Str.slice L i k) (w ++ res)

def Dm (L : Str) (k : Nat) : Prop := L.length ≤ k + 1

section
variable {L : Str}

theorem nl_last (hnl : NL L) (hpos : 0 < L.length) : L[L.length - 1]? = some '\n' := by
  have hlt : L.length - 1 < L.length := by omega
  have h := List.getElem?_eq_getElem hlt
  by_cases hc : L[L.length - 1] = '\n'
  · rw [h, hc]
  · have := hnl _ _ h hc
    omega

theorem sp_nil (i : Nat) : Sp L i i [] :=
  ⟨[], res_nil _ _ _, by rw [slice_self]; exact .nil⟩

/-- the D31 residue sits at the last character -/
theorem sp_cases {i k : Nat} {w : Str} (h : Sp L i k w) :
    Del (Str.slice L i k) w ∨
      (k + 1 = L.length ∧ L[k]? = some '\n' ∧ L.drop k = ['\n'] ∧
        Del (Str.slice L i k) (w ++ ['\\'])) := by
  obtain ⟨res, hr, hd⟩ := h
  rcases res_false_cases hr with rfl | ⟨rfl, hdrop⟩
  · exact Or.inl (by simpa using hd)
  · obtain ⟨q1, q2⟩ := drop_single hdrop
    exact Or.inr ⟨q2, q1, hdrop, hd⟩

/-- one `_getc` that delivers a character -/
theorem sp_getc {rqn : Bool} {i k k' : Nat} {w : Str} {c : Char} (h : Sp L i k w) (hik : i ≤ k)
    (hg : GetcR rqn L k k' (some c)) : Sp L i k' (w ++ [c]) ∨ (Dm L k' ∧ c = '\n') := by
  rcases sp_cases h with hd | ⟨h1, h2, _, _⟩
  · left
    refine ⟨[], res_nil _ _ _, ?_⟩
    rw [List.append_nil, ← slice_cat L hik hg.le hg.le']
    exact hd.append hg.del
  · right
    obtain ⟨e1, e2⟩ := hg.exact h2 (Or.inl (by decide))
    cases e1
    exact ⟨by unfold Dm; omega, rfl⟩

theorem dm_getc (hnl : NL L) {rqn : Bool} {k k' : Nat} {c : Char} (h : Dm L k)
    (hg : GetcR rqn L k k' (some c)) : Dm L k' ∧ c = '\n' := by
  obtain ⟨g1, g2, _⟩ := hg.char c rfl
  have := hg.le'
  unfold Dm at h ⊢
  have hk' : k' = L.length := by omega
  refine ⟨by omega, ?_⟩
  have hl := nl_last hnl (by omega)
  rw [hk'] at g2
  rw [hl] at g2
  cases g2; rfl

/-- `_getc` … `_ungetc` -/
theorem sp_back {rqn : Bool} {i k j : Nat} {w : Str} {x : Option Char} (h : Sp L i k w)
    (hik : i ≤ k) (hk : k < L.length) (hg : GetcR rqn L k j x) :
    Sp L i (j - 1) w ∧ 0 < j ∧ k ≤ j - 1 ∧ j - 1 < L.length := by
  rcases sp_cases h with hd | ⟨h1, h2, h3, h4⟩
  · obtain ⟨b1, b2, r, hr, hd', _⟩ := del_back1 hd hik hg hk
    obtain ⟨c1, c2, c3, _⟩ := back1 hg hk
    exact ⟨⟨r, hr, hd'⟩, b1, c2, b2⟩
  · obtain ⟨e1, e2⟩ := hg.exact h2 (Or.inl (by decide))
    have : j - 1 = k := by omega
    rw [this]
    exact ⟨h, by omega, Nat.le_refl _, hk⟩

theorem dm_back {rqn : Bool} {k j : Nat} {x : Option Char} (h : Dm L k) (hpos : 0 < L.length)
    (hg : GetcR rqn L k j x) : Dm L (j - 1) ∧ 0 < j := by
  have h1 := hg.le
  have h2 := hg.le'
  unfold Dm at h ⊢
  have hj : j = L.length := by
    cases x with
    | none => exact (hg.atEnd rfl).1
    | some ch => have := (hg.char ch rfl).1; omega
  exact ⟨by omega, by omega⟩

/-- a nested scanner -/
theorem sp_scan {i k j : Nat} {w x : Str} (h : Sp L i k w) (hik : i ≤ k) (hkj : k ≤ j)
    (hj : j < L.length) (hx : Sp L k j x) : Sp L i j (w ++ x) := by
  rcases sp_cases h with hd | ⟨h1, h2, h3, h4⟩
  · obtain ⟨res, hr, hd'⟩ := hx
    refine ⟨res, hr, ?_⟩
    rw [← slice_cat L hik hkj (by omega), List.append_assoc]
    exact hd.append hd'
  · -- the cursor was on the last character: the nested scanner consumed nothing
    have hjk : j = k := by omega
    subst hjk
    obtain ⟨res, hr, hd'⟩ := hx
    rw [slice_self] at hd'
    have hnil := hd'.nil_left
    have hx0 : x = [] := (List.append_eq_nil_iff.mp hnil).1
    subst hx0
    exact ⟨['\\'], res_d31 h3, by simpa using h4⟩

theorem sp_append_nil {i k : Nat} {w : Str} (h : Sp L i k w) : Sp L i k (w ++ []) := by
  simpa using h

end

end Bashlex.C04.TTP
