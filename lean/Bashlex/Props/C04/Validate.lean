/-
  C04: cross-check of the statement `TokText` (proved in `TokTextProof.lean`) by evaluation of
  the model.

  `chkRun` is `parserRun` with one change: the token source checks `ttOK line t` on every token it
  delivers (`line` read from the tape the tokenizer reads) and raises a marked exception when the
  check fails; it also checks that the `_eol_ungetc_lookahead` slot is empty before and after
  every `token()` and after every semantic action (`TokText.gather`).  Nested parsers (substitution bodies) run the same check on their own line, so
  every token of every parser object involved in a run is checked, in the parser states that
  really occur.  `chkInput s` runs it on `s` and on suffixes of `s` (all suffixes for `|s| ≤ 40`,
  otherwise the suffixes starting after a newline: the restarts of the loop of `parse`).

  Inputs: `corpus` (1173 strings: bashlex's tests, the harness's hand-written list and regression
  corpus, 600 generated / mutated scripts) and `gridInputs` (3730 strings: all strings of length
  ≤ 4 over `a 1 < & ; \ ⏎ ␣ $ '` that contain a backslash — the alphabet of the defect shapes
  D31 / D32).  The `#eval`s below print the number of failing inputs: `0`.
-/
import Bashlex.Props.C04.TokText
import Bashlex.Props.C04.Corpus
import Bashlex.Model.Parse

namespace Bashlex.C04
open Bashlex

def chkHooks (np : NestedParse) : LR.Hooks SVal :=
  { lrHooks np with
    next := do
      -- the pre-condition of `TokText.next`: the look-ahead slot is empty whenever the parser
      -- asks for a token (this also checks `TokText.gather` and `keepsEol_action`)
      if (← get).eolLookahead.isSome then M.raise (.foreign "TT" "slot not empty before token()")
      let t ← nextToken
      let line ← tapeLine
      if (← get).eolLookahead.isSome then M.raise (.foreign "TT" "slot not empty after token()")
      if ttOK line t then pure (symOfTok t, .tok t)
      else M.raise (.foreign "TT" s!"{repr t} line={repr (String.ofList line)}")
    act := fun p args => do
      let r ← (lrHooks np).act p args
      if (← get).eolLookahead.isSome then M.raise (.foreign "TT" "slot not empty after an action")
      pure r }

def chkRun : Nat → M (Option Node)
  | 0 => M.raise (.outOfFuel "nesting")
  | depth + 1 => do
    let np : NestedParse := fun string dolparen => do
      let outer ← get
      let ps := if dolparen then { outer.ps with cmdsubst := true, eoftoken := true } else outer.ps
      set ({ tape := some (Tape.ofInput string), opts := some (true, false)
             lastReadToken := outer.lastReadToken, tokenBeforeThat := outer.tokenBeforeThat
             twoTokensAgo := outer.twoTokensAgo, ps := ps
             eofToken := if dolparen then some rparenEofToken else none
             limit := outer.limit.map (· - 1) } : Local)
      let r ← chkRun depth
      let inner ← get
      set { outer with ps := inner.ps }
      pure r
    let res ← LR.run LR.realTables (chkHooks np) 1073741824
    let store := (← get).store
    match res with
    | .accepted (.node n) _ _ _ => pure (some (resolve store n))
    | _ => pure none

/-- one checked run; `some msg` if a delivered token failed `ttOK` -/
def chkOne (s : Str) (o : Opts) : Option String :=
  let env : Env := { tape := Tape.ofInput s, strict := o.strict, proceed := o.proceed }
  match (chkRun 8).run { limit := o.limit } env with
  | (.error (.foreign "TT" m), _) => some m
  | _ => none

def suffixStarts (l : Str) : List Nat :=
  if l.length ≤ 40 then List.range (l.length + 1)
  else 0 :: (l.zipIdx.filterMap fun (c, i) => if c == '\n' then some (i + 1) else none)

def chkInput (s : String) : List String :=
  let l := s.toList
  (suffixStarts l).filterMap fun i =>
    ((chkOne (l.drop i) {}).map (fun m => s!"[{i}] {m}")).orElse fun _ =>
      (chkOne (l.drop i) { strict := false, proceed := true }).map (fun m => s!"[{i},proceed] {m}")

def gridAlpha : List Char := ['a', '1', '<', '&', ';', '\\', '\n', ' ', '$', '\'']
def gridN : Nat → List (List Char)
  | 0 => [[]]
  | n+1 => (gridN n).flatMap fun w => gridAlpha.map fun c => c :: w
def gridInputs : List String :=
  ((List.range 5).flatMap gridN).filter (·.contains '\\') |>.map String.ofList

def failing (l : List String) : List (String × List String) :=
  (l.map fun s => (s, chkInput s)).filter (fun p => !p.2.isEmpty)

/-- number of inputs, number of failing inputs, the first failures (truncated) -/
def report (l : List String) : Nat × Nat × List (String × List String) :=
  let f := failing l
  (l.length, f.length, (f.take 5).map fun p => (p.1, (p.2.take 1).map fun m => (m.take 240).toString))

#eval report corpus
#eval report gridInputs

/-! ## second grid, and the witnesses against the first version of the relation

  `TokText` is now PROVED (`Props/C04/TokTextProof.lean`); the evaluation stays as a cross-check of
  the statement.  `gridInputs2`: all strings of length ≤ 4 over `a < ; \ ⏎ $ " ( ) backquote` that
  contain a backslash (the first grid had no double quote and no parentheses, which is why it
  missed the witnesses below).  `oldFailing`: the first version of the relation
  (`stripContinuations sl == stripContinuations v ++ r`, `wordPathV v := !(v.all isBreakChar)`)
  FAILS on the three witnesses; the corrected relation holds on them. -/

def gridAlpha2 : List Char := ['a', '<', ';', '\\', '\n', '$', '"', '(', ')', '`']
def gridM : Nat → List (List Char)
  | 0 => [[]]
  | n+1 => (gridM n).flatMap fun w => gridAlpha2.map fun c => c :: w
def gridInputs2 : List String :=
  ((List.range 5).flatMap gridM).filter (·.contains '\\') |>.map String.ofList

def witnesses : List String :=
  ["\"\\\\\\\n\n\"", "$(\\\\\\\n\n)", "$(cat <<E\n\\\\\n\nE\n)", "<()<\\", "<()<\\\nb",
   "a<\\\nb", "a<\\", "a &\\", "$\\", "$(A)\\", "a;\\"]

/-- the first version of the text relation -/
def textRelOld (sl v r : Str) : Bool :=
  Spec.stripContinuations sl == Spec.stripContinuations v ++ r &&
    (Spec.hasContinuation sl || sl == v ++ r)

/-- does the first token of the input satisfy the first version of the relation? -/
def oldOK (s : String) : Bool :=
  let env : Env := { tape := Tape.ofInput s.toList }
  match (do let t ← nextToken; let line ← tapeLine; pure (t, line) : M (Token × Str)).run {} env with
  | (.ok ((t, line), _), _) =>
    (match t.value, t.pos with
     | .str v, some (a, e) =>
       (residues (!(v.all Spec.isBreakChar)) line e).any (textRelOld (Str.slice line a e) v)
     | _, _ => true)
  | _ => true

#eval report gridInputs2
#eval report witnesses
-- the first version fails on the first four witnesses: [false, false, false, false]
#eval (witnesses.take 4).map oldOK

end Bashlex.C04
