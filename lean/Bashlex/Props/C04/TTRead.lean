/-
  C04, token text, part 10: `_discard_until`, `_readtoken`, `token()` from an exact cursor.
-/
import Bashlex.Props.C04.TTNext

namespace Bashlex.C04.TTP
open Bashlex Bashlex.M Bashlex.C10 Bashlex.C11 Bashlex.C03.Tok Bashlex.C04
set_option linter.unusedSimpArgs false
set_option linter.unusedVariables false

section
variable {L : Str}

/-- `_discard_until('\n')`: the cursor is on a newline, or at the end of the line -/
theorem discardUntil_tt {i : Nat} :
    HT (Tp L [] i) (discardUntil '\n')
      (fun _ l e => ∃ j, (L[j]? = some '\n' ∨ j = L.length) ∧ Tp L [] j l e) ET := by
  unfold discardUntil
  refine keep_bind w_loopFuel (fun fuel _ => ?_)
  refine getc_bind (fun c0 i1 hg0 => ?_)
  refine HT.bind (Q := fun c l e => ∃ j, ((∃ j', GetcR false L j' j c) ∧
      ∀ ch, c = some ch → ch = '\n') ∧ Tp L [] j l e) ?_ (fun c1 => ?_)
  · refine HT.pre (HT.loop (E := ET)
      (I := fun c l e => ∃ j, (∃ j', GetcR false L j' j c) ∧ Tp L [] j l e) True.intro
      (fun c => ?_) fuel c0) (fun l e h => ⟨i1, ⟨i, hg0⟩, h⟩)
    refine HT.pre_exists (fun j => HT.pre_pure (fun hj => ?_))
    cases c with
    | none => exact HT.pure (fun l e h => ⟨j, ⟨hj, fun ch hch => by cases hch⟩, h⟩)
    | some ch =>
      simp only []
      refine HT.ite (fun _ => ?_) (fun hne => ?_)
      · refine getc_bind (fun c' j' hg' => ?_)
        exact HT.pure (fun l e h => ⟨j', ⟨j, hg'⟩, h⟩)
      · refine HT.pure (fun l e h => ⟨j, ⟨hj, fun ch' hch => ?_⟩, h⟩)
        cases hch
        simpa using hne
  refine HT.pre_exists (fun j => HT.pre_pure (fun hj => ?_))
  obtain ⟨⟨j', hg⟩, hch⟩ := hj
  cases c1 with
  | none =>
    simp only [Option.isSome_none, Bool.false_eq_true, if_false]
    exact HT.pure (fun l e h => ⟨j, Or.inr (hg.atEnd rfl).1, h⟩)
  | some ch =>
    simp only [Option.isSome_some, if_true]
    have := hch ch rfl
    subst this
    obtain ⟨g1, g2, g3⟩ := hg.char '\n' rfl
    exact HT.post (ungetc_tp (j := j) _ (by omega)) (fun _ l e h => ⟨j - 1, Or.inl g2, h⟩)

/-! ## `_readtoken` -/

/-- what `_readtoken` returns bare: the start `a` is on the position stack; a NEWLINE at `a`
    (`gatherheredocuments` may have moved the cursor anywhere), or an operator spelled by the text
    up to the cursor (up to the D31 residue) -/
def BareQ (L : Str) (ty : TokType) (l : Local) (e : Env) : Prop :=
  ∃ a v, (ty.strValueChars = some v ∧ ty ≠ .EOF) ∧ G2 L [a] l e ∧
    ((ty = .NEWLINE ∧ L[a]? = some '\n') ∨
     ((tapeOf l e).idx ≤ L.length ∧ a + v.length < L.length ∧
        ∃ r ∈ residues false L (tapeOf l e).idx,
          Del (Str.slice L a (tapeOf l e).idx) (v ++ r)))

/-- the stateful and the stateless facts about a token read by `_readtokenword` -/
def WordQ (L : Str) (t : Token) (l : Local) (e : Env) : Prop :=
  (WTy t ∧ ∃ a k tw, SpanW L a k tw ∧ WordTok a k tw t) ∧ G2 L [] l e

def ReadQ2 (L : Str) (r : TokType ⊕ Token) (l : Local) (e : Env) : Prop :=
  match r with
  | .inl ty => BareQ L ty l e
  | .inr t => (t = eofTok ∧ G2 L [] l e) ∨ WordQ L t l e

theorem readtokenword_leaf (hS : ScanHyp) (hnl : NL L) (c : Char) (a : Nat) :
    HT (RWI L a { c := some c, allDigit := isDigit c })
      (do let t ← readtokenword c; pure (Sum.inr t) : M (TokType ⊕ Token)) (ReadQ2 L) ET := by
  have h := HT.and_sat (readtokenword_tt hS hnl c a) (sat_readtokenword_ty c)
  refine HT.bind (HT.exn h (fun _ _ => True.intro)) (fun t => ?_)
  refine HT.pure (fun l e h => Or.inr ?_)
  obtain ⟨hty, k, ⟨tw, h1, h2⟩, h3⟩ := h
  exact ⟨⟨hty, a, k, tw, h1, h2⟩, h3.g2⟩

theorem bare_leaf {a j : Nat} {ty : TokType} {v r : Str} (hv : ty.strValueChars = some v)
    (hne : ty ≠ .EOF)
    (hlen : a + v.length < L.length) (hr : r ∈ residues false L j)
    (hd : Del (Str.slice L a j) (v ++ r)) :
    HT (Tp L [a] j) (pure (Sum.inl ty) : M (TokType ⊕ Token)) (ReadQ2 L) ET := by
  refine HT.pure (fun l e h => ⟨a, v, ⟨hv, hne⟩, h.g2, Or.inr ?_⟩)
  rw [h.2.1]
  exact ⟨h.2.2.1, hlen, r, hr, hd⟩

/-- the first character of a word: read at `a`, the cursor behind it -/
theorem winv_init {a : Nat} {c : Char} (hc : L[a]? = some c) (hne : c ≠ '\n') (hnl : NL L) :
    WInv L a { c := some c, allDigit := isDigit c } (a + 1) := by
  have hlt := hnl _ _ hc hne
  refine ⟨Hand.read a false (some c) (Nat.le_refl _) (by rw [slice_self]; exact .nil) ?_,
    by show a + 0 < L.length; omega, rfl, fun h => by cases h⟩
  refine ⟨Nat.le_succ _, by omega, (fun h => by cases h), (fun ch hch => ?_), (fun _ => by omega)⟩
  cases hch
  refine ⟨Nat.lt_succ_self _, by simpa using hc, ?_⟩
  simp only [Nat.add_sub_cancel, slice_self]
  exact .nil

set_option maxHeartbeats 2000000 in
/-- **`_readtoken`** -/
theorem readtoken_tt (hS : ScanHyp) (hnl : NL L) (hlast : L ≠ [] → L.getLast? = some '\n')
    {i0 : Nat} :
    HT (Tp L [] i0) readtoken (ReadQ2 L) ET := by
  unfold readtoken
  simp only []
  refine keep_bind w_loopFuel (fun fuel _ => ?_)
  refine getc_bind (fun c0 i1 hg0 => ?_)
  refine HT.bind (Q := fun c l e => ∃ i, (∃ i', GetcR true L i' i c) ∧ Tp L [] i l e) ?_
    (fun c1 => ?_)
  · -- skipping blanks
    refine HT.pre (HT.loop (E := ET)
      (I := fun c l e => ∃ i, (∃ i', GetcR true L i' i c) ∧ Tp L [] i l e) True.intro
      (fun c => ?_) fuel c0) (fun l e h => ⟨i1, ⟨i0, hg0⟩, h⟩)
    refine HT.pre_exists (fun i => HT.pre_pure (fun hi => ?_))
    cases c with
    | none => exact HT.pure (fun l e h => ⟨i, hi, h⟩)
    | some ch =>
      simp only []
      refine HT.ite (fun _ => ?_) (fun _ => HT.pure (fun l e h => ⟨i, hi, h⟩))
      refine getc_bind (fun c' i' hg' => ?_)
      exact HT.pure (fun l e h => ⟨i', ⟨i, hg'⟩, h⟩)
  refine HT.pre_exists (fun i => HT.pre_pure (fun hi => ?_))
  obtain ⟨i', hg⟩ := hi
  -- the newline branch, from a state with the start recorded on a newline
  have nlTail : ∀ (a j : Nat) (u : Local → Local), (∀ l e, G2 L [a] l e → G2 L [a] (u l) e) →
      L[a]? = some '\n' →
      HT (Tp L [a] j) (do
        gatherheredocuments
        modify u
        let t ← tokentypeOfChar '\n'
        pure (Sum.inl t) : M (TokType ⊕ Token)) (ReadQ2 L) ET := by
    intro a j u hu hLa
    refine HT.pre (P := G2 L [a]) ?_ (fun l e h => h.g2)
    refine keep_bind gather_g2 (fun _ _ => ?_)
    refine HT.bind (Q := fun _ l e => G2 L [a] l e) (HT.modify hu) (fun _ => ?_)
    refine keep_bind (v_tokentypeOfChar '\n') (fun t ht => ?_)
    have : t = .NEWLINE := by
      have : TokType.ofChar '\n' = some .NEWLINE := rfl
      rw [this] at ht; cases ht; rfl
    subst this
    exact HT.pure (fun l e h => ⟨a, ['\n'], ⟨rfl, by decide⟩, h, Or.inl ⟨rfl, hLa⟩⟩)
  cases c1 with
  | none => exact HT.pure (fun l e h => Or.inl ⟨rfl, h.g2⟩)
  | some ch =>
    simp only [pure_bind]
    obtain ⟨g1, g2, g3⟩ := hg.char ch rfl
    refine HT.ite (fun hsharp => ?_) (fun hsharp => ?_)
    · -- a comment: skipped, then the newline
      refine HT.bind discardUntil_tt (fun _ => ?_)
      refine HT.pre_exists (fun j => HT.pre_pure (fun hj => ?_))
      refine getc_bind (fun c2 j2 hg2 => ?_)
      refine HT.bind (recordpos_tp 1) (fun _ => ?_)
      show HT (Tp L [j2 - 1] j2) _ _ _
      have hLa : L[j2 - 1]? = some '\n' := by
        rcases hj with hj | hj
        · obtain ⟨e1, e2⟩ := hg2.exact hj (Or.inr rfl)
          rw [e2]; simpa using hj
        · have hj2 : j2 = L.length := by
            have := hg2.le; have := hg2.le'; omega
          have hpos : 0 < L.length := by
            have := hg.le'; omega
          rw [hj2, ← List.getLast?_eq_getElem?]
          exact hlast (by intro h0; rw [h0] at hpos; simp at hpos)
      refine HT.ite (fun _ => ?_) (fun h => absurd rfl h)
      exact nlTail _ _ _ (fun _ _ h => h) hLa
    · refine HT.bind (recordpos_tp 1) (fun _ => ?_)
      show HT (Tp L [i - 1] i) _ _ _
      have hii : i = i - 1 + 1 := by omega
      generalize i - 1 = a at g2 hii
      subst hii
      refine HT.ite (fun hn => ?_) (fun hn => ?_)
      · have : ch = '\n' := by simpa using hn
        subst this
        exact nlTail _ _ _ (fun _ _ h => h) g2
      have hne : ch ≠ '\n' := by simpa using hn
      have hlt : a + 2 ≤ L.length := hnl _ _ g2 hne
      have hword : HT (Tp L [a] (a + 1))
          (do let t ← readtokenword ch; pure (Sum.inr t) : M (TokType ⊕ Token)) (ReadQ2 L) ET :=
        HT.pre (readtokenword_leaf hS hnl ch a) (fun l e h => ⟨a + 1, winv_init g2 hne hnl, h⟩)
      have hdash : HT (Tp L [a] (a + 1))
          (do let t ← tokentypeOfChar ch; pure (Sum.inl t) : M (TokType ⊕ Token)) (ReadQ2 L) ET := by
        refine keep_bind (v_tokentypeOfChar ch) (fun t ht => ?_)
        refine bare_leaf (ofChar_str ht) (ofChar_ne_eof ht)
          (by simp only [List.length_cons, List.length_nil]; omega)
          (res_nil _ _ _) ?_
        rw [slice_one L g2]; exact Del.refl _
      refine HT.get_bind (fun l1 => ?_)
      refine HTQAt.ite (fun _ => HTQAt.ofHT hword) (fun _ => HTQAt.ofHT ?_)
      refine keep_bind (v_shellmeta ch) (fun b hb => ?_)
      subst hb
      refine HT.get_bind (fun l2 => ?_)
      refine HTQAt.ite (fun hm => HTQAt.ofHT ?_) (fun _ => HTQAt.ofHT ?_)
      · refine HT.bind (HT.exn (HT.and_sat (readtokenMeta_tt hnl g2 hne) (sat_readtokenMeta_ne ch))
          (fun _ _ => True.intro)) (fun r => ?_)
        refine HT.pre_pure (fun hneof => ?_)
        refine HT.pre_exists (fun j => ?_)
        cases r with
        | some ty =>
          simp only []
          refine HT.pre (P := fun l e => (∃ v, ty.strValueChars = some v ∧ a + v.length < L.length ∧
            ∃ r ∈ residues false L j, Del (Str.slice L a j) (v ++ r)) ∧ Tp L [a] j l e)
            (HT.pre_pure (fun hv => ?_)) (fun l e h => ⟨h.2, h.1⟩)
          obtain ⟨v, h1, h2, r, h3, h4⟩ := hv
          exact bare_leaf h1 (hneof ty rfl) h2 h3 h4
        | none =>
          simp only []
          refine HT.pre (P := fun l e => ((ch = '<' ∨ ch = '>') ∧ a + 1 ≤ j ∧
            Del (Str.slice L (a + 1) j) [] ∧ L[j]? = some '(') ∧ Tp L [a] j l e)
            (HT.pre_pure (fun hv => ?_)) (fun l e h => ⟨h.2, h.1⟩)
          obtain ⟨hcc, h1, h2, h3⟩ := hv
          refine HT.get_bind (fun l3 => ?_)
          refine HTQAt.ite (fun hd => ?_) (fun _ => HTQAt.ofHT ?_)
          · exfalso
            simp only [Bool.and_eq_true, beq_iff_eq] at hd
            rcases hcc with rfl | rfl <;> exact absurd hd.1 (by decide)
          · refine HT.pre (readtokenword_leaf hS hnl ch a) (fun l e h => ⟨j, ?_, h⟩)
            exact ⟨Hand.procsub ch rfl hcc g2 h1 h2 h3, by show a + 0 < L.length; omega, rfl,
              fun h => by cases h⟩
      · refine HT.get_bind (fun l3 => ?_)
        exact HTQAt.ite (fun _ => HTQAt.ofHT hdash) (fun _ => HTQAt.ofHT hword)

end

end Bashlex.C04.TTP
