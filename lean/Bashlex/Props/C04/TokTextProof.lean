/-
  C04: **proof of `TokText`** for the real tokenizer.

  `tokText_of (hD : ScanHyp) : TokText` — layers A (operators, NEWLINE, EOF, `gather`), B (plain
  words, reserved words, NUMBER, assignment words) and C (quotes, backslashes, `$…`, `<(`: the
  words around what the scanners return) are proved; what is used of the two recursive scanners
  `_parse_matched_pair` / `_parse_comsub` is the hypothesis `ScanHyp` (layer D, `TTWord.lean`):
  called at cursor `i` they return, at a cursor `j` inside the line, a string that spells the text
  `L[i:j]` up to deleted backslash-newline pairs, possibly followed by the D31 residue.
  `TTScan*.lean` proves `ScanHyp` (`scanHyp`), hence `tokText : TokText` without hypotheses.

  How the proof goes (files `TT*.lean`): an exact-cursor tape invariant `Tp L ps i`
  (`TTTape.lean`), the relation `GetcR` for one `_getc` (a run of backslash-newline pairs, then the
  character delivered), `_ungetc` = cursor - 1; the residues arise where `_ungetc` follows a
  `_getc` that skipped pairs or ran into the end of the line (`TTRes.lean`: `back1`,
  `pairs_back`); operators `TTOps.lean`; the loop of `_readtokenword` with the ghost invariant
  `WInv` (`TTWord*.lean`); `finishWord` (`TTFinish.lean`); token types (`TTTypes.lean`, stateless);
  `gatherheredocuments`, `_readtoken`, `token()` (`TTNext.lean`, `TTRead.lean`).
-/
import Bashlex.Props.C04.TTRead
import Bashlex.Props.C04.TTScan

namespace Bashlex.C04
open Bashlex Bashlex.M Bashlex.C10 Bashlex.C11 Bashlex.C03.Tok Bashlex.C04.TTP
set_option linter.unusedSimpArgs false
set_option linter.unusedVariables false

section
variable {L : Str}

theorem enumValue_str {ty : TokType} {v : Str} (h : ty.strValueChars = some v) :
    ty.enumValue = .str v := by
  unfold TokType.enumValue; rw [h]

/-- a bare token type: the end is recorded, the token is created -/
theorem bare_tok_tt (ty : TokType) :
    HT (BareQ L ty) (do recordpos; createtoken ty ty.enumValue : M Token)
      (fun t l _ => TT L t ∧ l.eolLookahead = none) ET := by
  intro l e h
  obtain ⟨a, v, ⟨hv, hne⟩, ⟨g1, g2, g3⟩, hcase⟩ := h
  simp only [M.run_bind, C11.run_recordpos]
  rw [run_createtoken ty ty.enumValue [] _ e a ((tapeOf l e).idx - 0)
    (by show l.positions ++ _ = _; rw [g3]; rfl)]
  by_cases hab : a < (tapeOf l e).idx - 0
  · rw [if_pos hab]
    refine ⟨tt_bare (ty := ty) (v := v) rfl hab (enumValue_str hv) rfl hv hne ?_, g2⟩
    simpa using hcase
  · rw [if_neg hab]; exact True.intro

theorem bare_tok_bind {β : Type} (ty : TokType) {k : Token → M β} {Q : β → Local → Env → Prop}
    (hk : ∀ cur, HT (fun l _ => TT L cur ∧ l.eolLookahead = none) (k cur) Q ET) :
    HT (BareQ L ty) (recordpos >>= fun _ => createtoken ty ty.enumValue >>= k) Q ET := by
  have h := HT.bind (bare_tok_tt (L := L) ty) hk
  simpa only [bind_assoc] using h

/-- **`token()`** from a state with the cursor inside the line -/
theorem nextToken_tt (hS : ScanHyp) (hnl : NL L) (hlast : L ≠ [] → L.getLast? = some '\n')
    {i0 : Nat} :
    HT (Tp L [] i0) nextToken (fun t l _ => TT L t ∧ l.eolLookahead = none) ET := by
  unfold nextToken
  simp only []
  refine HT.bind (Q := fun _ l e => Tp L [] i0 l e) (HT.modify (fun l e h => h)) (fun _ => ?_)
  refine HT.bind (readtoken_tt hS hnl hlast) (fun r => ?_)
  -- the two writes after the token was read
  have fin : ∀ (cur : Token),
      HT (fun l _ => TT L cur ∧ l.eolLookahead = none) (do
        modify fun l => { l with currentToken := cur }
        modify fun l => { l with ps := { l.ps with eoftoken := false } }
        pure cur : M Token) (fun t l _ => TT L t ∧ l.eolLookahead = none) ET := by
    intro cur
    refine HT.bind (Q := fun _ l _ => TT L cur ∧ l.eolLookahead = none)
      (HT.modify (fun l e h => h)) (fun _ => ?_)
    refine HT.bind (Q := fun _ l _ => TT L cur ∧ l.eolLookahead = none)
      (HT.modify (fun l e h => h)) (fun _ => HT.pure (fun l e h => h))
  cases r with
  | inl ty => exact bare_tok_bind ty (fun cur => fin cur)
  | inr t =>
    simp only [pure_bind]
    refine HT.pre (fin t) ?_
    intro l e h
    rcases h with ⟨rfl, hg⟩ | ⟨⟨hty, a, k, tw, h1, h2⟩, hg⟩
    · exact ⟨tt_eof L, hg.2.1⟩
    · exact ⟨tt_word h1 h2 hty, hg.2.1⟩

end

/-- **`TokText`, above the hypothesis on the recursive scanners (layer D)** -/
theorem tokText_of (hD : ScanHyp) : TokText where
  gather := keepsEol_gather
  next := by
    intro g hg
    refine HT.pre (P := fun l e => (∃ i, Tp g.line [] i l e) ∨
      C03.DeadS g.line [] l.store l.redirstack l e) ?_ ?_
    · intro l e hp
      rcases hp with ⟨i, hp⟩ | hp
      · have hfacts : NL g.line ∧ (g.line ≠ [] → g.line.getLast? = some '\n') := by
          rcases wfg_line hg with hl | ⟨hnl, hlast⟩
          · rw [hl]
            exact ⟨fun i ch h => by simp at h, fun h => absurd rfl h⟩
          · exact ⟨hnl, fun _ => hlast⟩
        exact nextToken_tt hD hfacts.1 hfacts.2 (i0 := i) l e hp
      · have h := C03.nextToken_dead (L := g.line) (sr := l.store) (rk := l.redirstack) l e hp
        revert h
        rcases nextToken.run l e with ⟨r, e'⟩
        cases r with
        | error x => exact fun _ => True.intro
        | ok v =>
          obtain ⟨t, l'⟩ := v
          intro h
          obtain ⟨rfl, hd, _, _⟩ := h
          exact ⟨tt_eof _, hd.2.2.1⟩
    · intro l e ⟨hgood, hslot⟩
      obtain ⟨⟨_, hline, _⟩, _, hidx, hps⟩ := hgood
      rcases hidx with hidx | ⟨_, hstrict⟩
      · left
        exact ⟨(tapeOf l e).idx, hline, rfl, hidx, hslot, hps⟩
      · by_cases hle : (tapeOf l e).idx ≤ g.line.length
        · left
          exact ⟨(tapeOf l e).idx, hline, rfl, hle, hslot, hps⟩
        · right
          exact ⟨⟨hline, by omega, hslot, hps, hstrict⟩, rfl, rfl⟩

/-- **`TokText` holds of the real tokenizer** (no hypotheses) -/
theorem tokText : TokText := tokText_of TTP.scanHyp

end Bashlex.C04

#print axioms Bashlex.C04.TTP.scanHyp
#print axioms Bashlex.C04.tokText_of
#print axioms Bashlex.C04.tokText
