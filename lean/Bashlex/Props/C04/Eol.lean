/-
  C04: the semantic actions keep the tokenizer's `_eol_ungetc_lookahead` slot empty.

  `TokText` speaks about `token()` called with an empty slot (with a character in the slot that
  did not come from the tape the token text relation is plainly false).  The slot is written by
  `_ungetc` only; above the tokenizer nothing touches it but `gatherheredocuments` (called by
  `p_simple_list`; hypothesis `TokText.gather`) and the nested parsers, which run on a parser
  object of their own.  `keepsEol_action`: a walk through all action functions with C10's
  `KeepsEol` combinators.
-/
import Bashlex.Props.C10.Entry
import Bashlex.Model.Actions

namespace Bashlex.C04
open Bashlex Bashlex.C10
set_option linter.unusedSimpArgs false
set_option linter.unusedVariables false

variable {α β γ : Type}

theorem keepsEol_raise (x : Exn) : KeepsEol (M.raise x : M α) := by
  intro l e a l' e' _ hr
  rw [M.run_raise] at hr; cases hr

theorem keepsEol_foreign (a b : String) : KeepsEol (M.foreign a b : M α) := keepsEol_raise _

theorem KeepsEol.ite {c : Prop} [Decidable c] {a b : M α} (ha : KeepsEol a) (hb : KeepsEol b) :
    KeepsEol (if c then a else b) := by
  split
  · exact ha
  · exact hb

theorem KeepsEol.get_bind {f : Local → M β} (h : ∀ l0, l0.eolLookahead = none → KeepsEol (f l0)) :
    KeepsEol ((get : M Local) >>= f) := by
  intro l e b l2 e2 hl hr
  rw [M.run_bind, run_get] at hr
  exact h l hl l e b l2 e2 hl hr

theorem keepsEol_get : KeepsEol (get : M Local) := by
  intro l e a l' e' hl hr
  rw [run_get] at hr
  simp only [Prod.mk.injEq, Except.ok.injEq] at hr
  rw [← hr.1.2]; exact hl

theorem keepsEol_set {l1 : Local} (h : l1.eolLookahead = none) : KeepsEol (set l1 : M Unit) := by
  intro l e a l' e' _ hr
  rw [run_set] at hr
  simp only [Prod.mk.injEq, Except.ok.injEq] at hr
  rw [← hr.1.2]; exact h

theorem keepsEol_modify {f : Local → Local}
    (h : ∀ l, l.eolLookahead = none → (f l).eolLookahead = none) : KeepsEol (modify f : M Unit) := by
  intro l e a l' e' hl hr
  rw [run_modify] at hr
  simp only [Prod.mk.injEq, Except.ok.injEq] at hr
  rw [← hr.1.2]; exact h l hl

theorem keepsEol_ask (q : Query) : KeepsEol (M.ask q) := by
  intro l e a l' e' hl hr
  rw [run_ask] at hr
  simp only [Prod.mk.injEq, Except.ok.injEq] at hr
  rw [← hr.1.2]; exact hl

theorem keepsEol_forIn {f : γ → β → M (ForInStep β)} (h : ∀ a b, KeepsEol (f a b)) :
    ∀ (l : List γ) (b : β), KeepsEol (forIn l b f)
  | [], b => by rw [List.forIn_nil]; exact KeepsEol.pure b
  | a :: rest, b => by
    rw [List.forIn_cons]
    refine KeepsEol.bind (h a b) (fun r => ?_)
    cases r with
    | done b' => exact KeepsEol.pure b'
    | yield b' => exact keepsEol_forIn h rest b'

theorem KeepsEol.map {m : M α} {f : α → β} (h : KeepsEol m) : KeepsEol (f <$> m) := by
  rw [map_eq_pure_bind]
  exact KeepsEol.bind h (fun a => KeepsEol.pure _)

/-- a computation after which the slot is whatever `l1` says, followed by anything that keeps it -/
theorem keepsEol_of_ends {m : M α} (h : EndsEol m) : KeepsEol m := h.keeps

theorem endsEol_set_bind {l1 : Local} {k : Unit → M β} (h : l1.eolLookahead = none)
    (hk : KeepsEol (k ())) : EndsEol ((set l1 : M Unit) >>= k) := by
  intro l e b l2 e2 hr
  rw [M.run_bind, run_set] at hr
  exact hk l1 e b l2 e2 h hr

/-- one step of the walk -/
macro "eol_step" : tactic => `(tactic| first
  | with_reducible exact KeepsEol.pure _
  | with_reducible exact keepsEol_raise _
  | with_reducible exact keepsEol_foreign _ _
  | with_reducible assumption
  | with_reducible exact keepsEol_ask _
  | with_reducible exact keepsEol_get
  | with_reducible exact keepsEol_set (by assumption)
  | with_reducible exact keepsEol_modify (fun _ h => h)
  | with_reducible refine KeepsEol.ite ?_ ?_
  | with_reducible refine KeepsEol.get_bind (fun _ _ => ?_)
  | with_reducible refine KeepsEol.bind ?_ (fun _ => ?_)
  | with_reducible refine KeepsEol.map ?_
  | with_reducible refine KeepsEol.loop (fun _ => ?_) _ _
  | with_reducible refine keepsEol_forIn (fun _ _ => ?_) _ _
  | (show KeepsEol _; split)
  | (show KeepsEol _; dsimp only))

macro "eol_walk" : tactic => `(tactic| repeat' eol_step)

/-! ## readers -/

theorem keepsEol_optProceed : KeepsEol optProceed := by unfold optProceed; eol_walk
theorem keepsEol_tapeSource : KeepsEol tapeSource := by unfold tapeSource; eol_walk

/-! ## word expansion -/

section
variable {np : NestedParse} (hnp : ∀ s b, KeepsEol (np s b))
include hnp

omit hnp in
theorem keepsEol_adjustpositions (n : Node) (a b : Nat) : KeepsEol (adjustpositions n a b) := by
  unfold adjustpositions; eol_walk

theorem keepsEol_recursiveparse (base : Str) (i : Nat) (b : Bool) :
    KeepsEol (recursiveparse np base i b) := by
  have h1 := keepsEol_adjustpositions
  unfold recursiveparse
  refine KeepsEol.bind (hnp _ _) (fun r => ?_)
  split
  · exact keepsEol_foreign _ _
  · exact KeepsEol.bind (h1 _ _ _) (fun _ => KeepsEol.pure _)

theorem keepsEol_parsedolparen (base : Str) (i : Nat) : KeepsEol (parsedolparen np base i) := by
  have h1 := keepsEol_recursiveparse hnp
  unfold parsedolparen
  simp only []
  refine KeepsEol.bind (h1 _ _ _) (fun r => ?_)
  eol_walk

theorem keepsEol_paramexpand (s : Str) (i : Nat) : KeepsEol (paramexpand np s i) := by
  have h1 := keepsEol_parsedolparen hnp
  unfold paramexpand
  simp only []
  repeat' first
    | with_reducible exact h1 _ _
    | eol_step

theorem keepsEol_expandStep (tok : Token) (s : Str) (qd : Bool) (st : ExpSt) :
    KeepsEol (expandStep np tok s qd st) := by
  have h1 := keepsEol_parsedolparen hnp
  have h2 := keepsEol_paramexpand hnp
  have h3 := keepsEol_recursiveparse hnp
  have h4 := keepsEol_tapeSource
  have h5 := keepsEol_adjustpositions
  unfold expandStep
  simp only []
  repeat' first
    | with_reducible exact h5 _ _ _
    | with_reducible exact h1 _ _
    | exact h2 _ _
    | with_reducible exact h3 _ _ _
    | exact h4
    | eol_step

theorem keepsEol_expandwordinternal (tok : Token) (qd : Bool) :
    KeepsEol (expandwordinternal np tok qd) := by
  have h1 := keepsEol_expandStep hnp
  unfold expandwordinternal
  simp only []
  repeat' first
    | with_reducible exact h1 _ _ _ _
    | eol_step

theorem keepsEol_expandword (tok : Token) : KeepsEol (expandword np tok) := by
  have h1 := keepsEol_expandwordinternal hnp
  unfold expandword
  simp only []
  repeat' first
    | with_reducible exact h1 _ _
    | eol_step

end

/-! ## the actions -/

theorem keepsEol_nodePos (n : Node) : KeepsEol (nodePos n) := by unfold nodePos; eol_walk

theorem keepsEol_partsspan (parts : List Node) : KeepsEol (partsspan parts) := by
  have h := keepsEol_nodePos
  unfold partsspan
  repeat' first
    | exact h _
    | eol_step

theorem keepsEol_tokAt (p : PCtx) (i : Nat) : KeepsEol (p.tokAt i) := by unfold PCtx.tokAt; eol_walk
theorem keepsEol_strAt (p : PCtx) (i : Nat) : KeepsEol (p.strAt i) := by
  have := keepsEol_tokAt p i
  unfold PCtx.strAt; eol_walk
theorem keepsEol_nodeAt (p : PCtx) (i : Nat) (s : String) : KeepsEol (p.nodeAt i s) := by
  unfold PCtx.nodeAt; eol_walk
theorem keepsEol_nodesAt (p : PCtx) (i : Nat) (s : String) : KeepsEol (p.nodesAt i s) := by
  unfold PCtx.nodesAt; eol_walk
theorem keepsEol_reservedAt (p : PCtx) (i : Nat) : KeepsEol (reservedAt p i) := by
  have := keepsEol_strAt p i
  unfold reservedAt; eol_walk
theorem keepsEol_operatorAt (p : PCtx) (i : Nat) : KeepsEol (operatorAt p i) := by
  have := keepsEol_strAt p i
  unfold operatorAt; eol_walk
theorem keepsEol_handleAssert (b : Bool) : KeepsEol (handleAssert b) := by
  unfold handleAssert; eol_walk

theorem keepsEol_addRedirects (n : Node) (reds : List Node) : KeepsEol (addRedirects n reds) := by
  have h1 := keepsEol_handleAssert
  have h2 := keepsEol_nodePos
  unfold addRedirects
  repeat' first
    | with_reducible exact h1 _
    | exact h2 _
    | eol_step

theorem keepsEol_mkCompound1 (inner : Span → List Node → Node) (parts : List Node) :
    KeepsEol (mkCompound1 inner parts) := by
  have h := keepsEol_partsspan
  unfold mkCompound1
  repeat' first
    | exact h _
    | eol_step

theorem keepsEol_joinLists (p : PCtx) (mk : Span → Str → Node) (s : String) :
    KeepsEol (joinLists p mk s) := by
  have h1 := keepsEol_nodeAt p
  have h2 := keepsEol_nodesAt p
  have h3 := keepsEol_strAt p
  unfold joinLists
  repeat' first
    | with_reducible exact h1 _ _
    | exact h2 _ _
    | with_reducible exact h3 _
    | eol_step

section
variable {np : NestedParse} (hnp : ∀ s b, KeepsEol (np s b))
include hnp

theorem keepsEol_makeparts (args : List SVal) : KeepsEol (makeparts ⟨np, args⟩) := by
  have h1 := keepsEol_expandword hnp
  unfold makeparts
  simp only []
  repeat' first
    | with_reducible exact h1 _
    | eol_step

theorem keepsEol_handleNotImplemented (args : List SVal) (ty : String) :
    KeepsEol (handleNotImplemented ⟨np, args⟩ ty) := by
  have h1 := keepsEol_makeparts hnp
  have h2 := keepsEol_partsspan
  have h3 := keepsEol_optProceed
  unfold handleNotImplemented
  repeat' first
    | with_reducible exact h1 _
    | exact h2 _
    | with_reducible exact h3
    | eol_step

set_option maxHeartbeats 2000000 in
/-- **every semantic action keeps the slot empty**, given that the nested parser and
    `gatherheredocuments` do -/
theorem keepsEol_actionCore (hg : KeepsEol gatherheredocuments) (fname : String)
    (args : List SVal) : KeepsEol (actionCore np fname args) := by
  have a1 := keepsEol_expandword hnp
  have a2 := keepsEol_makeparts hnp
  have a3 := keepsEol_handleNotImplemented hnp
  have a4 := keepsEol_partsspan
  have a5 := keepsEol_nodePos
  have a6 := keepsEol_addRedirects
  have a7 := keepsEol_mkCompound1
  have a8 := keepsEol_handleAssert
  unfold actionCore
  simp only []
  split
  all_goals repeat' first
    | with_reducible exact hg
    | exact a1 _
    | with_reducible exact a2 _
    | exact a3 _ _
    | with_reducible exact a4 _
    | exact a5 _
    | with_reducible exact a6 _ _
    | exact a7 _ _
    | with_reducible exact a8 _
    | exact keepsEol_tokAt _ _
    | with_reducible exact keepsEol_strAt _ _
    | exact keepsEol_nodeAt _ _ _
    | with_reducible exact keepsEol_nodesAt _ _ _
    | exact keepsEol_reservedAt _ _
    | with_reducible exact keepsEol_operatorAt _ _
    | exact keepsEol_joinLists _ _ _
    | eol_step

theorem keepsEol_action (hg : KeepsEol gatherheredocuments) (fname : String) (args : List SVal) :
    KeepsEol (action np fname args) := by
  unfold action
  refine KeepsEol.bind (keepsEol_actionCore hnp hg fname args) (fun r => ?_)
  eol_walk

end

end Bashlex.C04
