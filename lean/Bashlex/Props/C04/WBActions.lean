/-
  C04, word boundaries, part 4: the semantic actions keep the cursor at a token boundary.

  Above the tokenizer nothing moves the cursor but `gatherheredocuments` (called by
  `p_simple_list`; `gather_b`) and the nested parsers, which run on a parser object of their
  own (hypothesis `hnp`, discharged in `C04Words.lean`).  Same walk as `keepsEol_action`
  (`C04/Eol.lean`), with C03's `w_walk` and the invariant `GB L []`.
-/
import Bashlex.Props.C04.WBGather
import Bashlex.Model.Actions

namespace Bashlex.C04.WB
open Bashlex Bashlex.M Bashlex.C10 Bashlex.C11 Bashlex.C03.Tok Bashlex.C04 Bashlex.C04.TTP
set_option linter.unusedSimpArgs false
set_option linter.unusedVariables false

/-- keeps line, empty slot, empty position stack and the cursor at a token boundary -/
abbrev BSat {α : Type} (L : Str) (m : M α) : Prop :=
  SatW (GB L []) (GB L []) m (fun _ => True)

theorem satw_forIn {γ β : Type} {I : Local → Env → Prop} {f : γ → β → M (ForInStep β)}
    (h : ∀ a b, SatW I I (f a b) (fun _ => True)) :
    ∀ (l : List γ) (b : β), SatW I I (forIn l b f) (fun _ => True)
  | [], b => by rw [List.forIn_nil]; exact SatW.pure (fun _ _ h => h) True.intro
  | a :: rest, b => by
    rw [List.forIn_cons]
    refine SatW.bindE (h a b) (fun r => ?_)
    cases r with
    | done b' => exact SatW.pure (fun _ _ h => h) True.intro
    | yield b' => exact satw_forIn h rest b'

theorem satw_map {α β : Type} {I : Local → Env → Prop} {m : M α} {f : α → β}
    (h : SatW I I m (fun _ => True)) : SatW I I (f <$> m) (fun _ => True) := by
  rw [map_eq_pure_bind]
  exact SatW.bindE h (fun a => SatW.pure (fun _ _ h => h) True.intro)

set_option hygiene false in
macro_rules | `(tactic| w_atom) => `(tactic| exact hnp _ _)
macro_rules | `(tactic| w_atom) => `(tactic| exact gather_b)

/-- one step of the walk through an action -/
macro "a_step" : tactic => `(tactic| first
  | with_reducible refine satw_forIn (fun _ _ => ?_) _ _
  | with_reducible refine satw_map ?_
  | w_step)

macro "a_walk" : tactic => `(tactic| repeat' a_step)

section
variable {L : Str}

/-! ## word expansion -/

theorem b_adjustpositions (n : Node) (a b : Nat) : BSat L (adjustpositions n a b) := by
  unfold adjustpositions; (try simp only []); a_walk

end
macro_rules | `(tactic| w_atom) => `(tactic| exact b_adjustpositions _ _ _)

section
variable {L : Str} {np : NestedParse} (hnp : ∀ s b, BSat L (np s b))
include hnp

theorem b_recursiveparse (base : Str) (i : Nat) (b : Bool) :
    BSat L (recursiveparse np base i b) := by
  unfold recursiveparse; (try simp only []); a_walk

end
macro_rules | `(tactic| w_atom) => `(tactic| exact b_recursiveparse (by assumption) _ _ _)

section
variable {L : Str} {np : NestedParse} (hnp : ∀ s b, BSat L (np s b))
include hnp

theorem b_parsedolparen (base : Str) (i : Nat) : BSat L (parsedolparen np base i) := by
  unfold parsedolparen; (try simp only []); a_walk

end
macro_rules | `(tactic| w_atom) => `(tactic| exact b_parsedolparen (by assumption) _ _)

section
variable {L : Str} {np : NestedParse} (hnp : ∀ s b, BSat L (np s b))
include hnp

theorem b_paramexpand (s : Str) (i : Nat) : BSat L (paramexpand np s i) := by
  unfold paramexpand; (try simp only []); a_walk

end
macro_rules | `(tactic| w_atom) => `(tactic| exact b_paramexpand (by assumption) _ _)

section
variable {L : Str} {np : NestedParse} (hnp : ∀ s b, BSat L (np s b))
include hnp

set_option maxHeartbeats 2000000 in
theorem b_expandStep (tok : Token) (s : Str) (qd : Bool) (st : ExpSt) :
    BSat L (expandStep np tok s qd st) := by
  unfold expandStep; (try simp only []); a_walk

end
macro_rules | `(tactic| w_atom) => `(tactic| exact b_expandStep (by assumption) _ _ _ _)

section
variable {L : Str} {np : NestedParse} (hnp : ∀ s b, BSat L (np s b))
include hnp

theorem b_expandwordinternal (tok : Token) (qd : Bool) :
    BSat L (expandwordinternal np tok qd) := by
  unfold expandwordinternal; (try simp only []); a_walk

end
macro_rules | `(tactic| w_atom) => `(tactic| exact b_expandwordinternal (by assumption) _ _)

section
variable {L : Str} {np : NestedParse} (hnp : ∀ s b, BSat L (np s b))
include hnp

theorem b_expandword (tok : Token) : BSat L (expandword np tok) := by
  unfold expandword; (try simp only []); a_walk

end
macro_rules | `(tactic| w_atom) => `(tactic| exact b_expandword (by assumption) _)

/-! ## the actions -/

section
variable {L : Str}

theorem b_nodePos (n : Node) : BSat L (nodePos n) := by unfold nodePos; (try simp only []); a_walk
end
macro_rules | `(tactic| w_atom) => `(tactic| exact b_nodePos _)

section
variable {L : Str}
theorem b_partsspan (parts : List Node) : BSat L (partsspan parts) := by
  unfold partsspan; (try simp only []); a_walk
theorem b_tokAt (p : PCtx) (i : Nat) : BSat L (p.tokAt i) := by
  unfold PCtx.tokAt; (try simp only []); a_walk
theorem b_nodeAt (p : PCtx) (i : Nat) (s : String) : BSat L (p.nodeAt i s) := by
  unfold PCtx.nodeAt; (try simp only []); a_walk
theorem b_nodesAt (p : PCtx) (i : Nat) (s : String) : BSat L (p.nodesAt i s) := by
  unfold PCtx.nodesAt; (try simp only []); a_walk
theorem b_handleAssert (b : Bool) : BSat L (handleAssert b) := by
  unfold handleAssert; (try simp only []); a_walk
end
macro_rules | `(tactic| w_atom) => `(tactic| exact b_partsspan _)
macro_rules | `(tactic| w_atom) => `(tactic| exact b_tokAt _ _)
macro_rules | `(tactic| w_atom) => `(tactic| exact b_nodeAt _ _ _)
macro_rules | `(tactic| w_atom) => `(tactic| exact b_nodesAt _ _ _)
macro_rules | `(tactic| w_atom) => `(tactic| exact b_handleAssert _)

section
variable {L : Str}
theorem b_strAt (p : PCtx) (i : Nat) : BSat L (p.strAt i) := by
  unfold PCtx.strAt; (try simp only []); a_walk
end
macro_rules | `(tactic| w_atom) => `(tactic| exact b_strAt _ _)

section
variable {L : Str}
theorem b_reservedAt (p : PCtx) (i : Nat) : BSat L (reservedAt p i) := by
  unfold reservedAt; (try simp only []); a_walk
theorem b_operatorAt (p : PCtx) (i : Nat) : BSat L (operatorAt p i) := by
  unfold operatorAt; (try simp only []); a_walk
theorem b_addRedirects (n : Node) (reds : List Node) : BSat L (addRedirects n reds) := by
  unfold addRedirects; (try simp only []); a_walk
theorem b_mkCompound1 (inner : Span → List Node → Node) (parts : List Node) :
    BSat L (mkCompound1 inner parts) := by
  unfold mkCompound1; (try simp only []); a_walk
theorem b_joinLists (p : PCtx) (mk : Span → Str → Node) (s : String) :
    BSat L (joinLists p mk s) := by
  unfold joinLists; (try simp only []); a_walk
end
macro_rules | `(tactic| w_atom) => `(tactic| exact b_reservedAt _ _)
macro_rules | `(tactic| w_atom) => `(tactic| exact b_operatorAt _ _)
macro_rules | `(tactic| w_atom) => `(tactic| exact b_addRedirects _ _)
macro_rules | `(tactic| w_atom) => `(tactic| exact b_mkCompound1 _ _)
macro_rules | `(tactic| w_atom) => `(tactic| exact b_joinLists _ _ _)

section
variable {L : Str} {np : NestedParse} (hnp : ∀ s b, BSat L (np s b))
include hnp

theorem b_makeparts (args : List SVal) : BSat L (makeparts ⟨np, args⟩) := by
  unfold makeparts; (try simp only []); a_walk

end
macro_rules | `(tactic| w_atom) => `(tactic| exact b_makeparts (by assumption) _)

section
variable {L : Str} {np : NestedParse} (hnp : ∀ s b, BSat L (np s b))
include hnp

theorem b_handleNotImplemented (args : List SVal) (ty : String) :
    BSat L (handleNotImplemented ⟨np, args⟩ ty) := by
  unfold handleNotImplemented; (try simp only []); a_walk

end
macro_rules | `(tactic| w_atom) => `(tactic| exact b_handleNotImplemented (by assumption) _ _)

section
variable {L : Str} {np : NestedParse} (hnp : ∀ s b, BSat L (np s b))
include hnp

set_option maxHeartbeats 8000000 in
/-- **every semantic action keeps the cursor at a token boundary**, given that the nested parser
    does -/
theorem b_actionCore (fname : String) (args : List SVal) : BSat L (actionCore np fname args) := by
  unfold actionCore
  simp only []
  split
  all_goals a_walk

theorem b_action (fname : String) (args : List SVal) : BSat L (action np fname args) := by
  have h := b_actionCore hnp fname args
  unfold action
  (try simp only [])
  a_walk

end

end Bashlex.C04.WB
