/-
  C04, token text, part 14 (layer D): `_parse_comsub`, one iteration (continued): `csC`, `csD`,
  `csPre`, `csPost`.
-/
import Bashlex.Props.C04.TTScanCS

namespace Bashlex.C04.TTP
open Bashlex Bashlex.M Bashlex.C10 Bashlex.C11 Bashlex.C03.Tok Bashlex.C04
set_option linter.unusedSimpArgs false
set_option linter.unusedVariables false

section
variable {L : Str} {ps : List Nat}

theorem ite_bind_ht {α β : Type} {I : Local → Env → Prop} {Q : β → Local → Env → Prop}
    {c : Prop} [Decidable c] {a b : M α} {k : α → M β}
    (ha : c → HT I (a >>= k) Q ET) (hb : ¬ c → HT I (b >>= k) Q ET) :
    HT I ((if c then a else b) >>= k) Q ET := by
  split
  · exact ha ‹_›
  · exact hb ‹_›

theorem pure_bind_ht {α β : Type} {I : Local → Env → Prop} {Q : β → Local → Env → Prop}
    {a : α} {k : α → M β} (h : HT I (k a) Q ET) : HT I ((Pure.pure a : M α) >>= k) Q ET := by
  have : ((Pure.pure a : M α) >>= k) = k a := by simp
  rw [this]; exact h

macro "c_step" : tactic => `(tactic| first
  | exact foreign_bind_ht
  | with_reducible refine ite_bind_ht (fun _ => ?_) (fun _ => ?_)
  | with_reducible refine pure_bind_ht ?_
  | t_step)

/-! ## `csC` -/

set_option maxHeartbeats 1000000 in
/-- the head of `csC` (no tape access): a lower-case letter of a reserved word is appended, or the
    tail is entered with `ret` and `count` unchanged -/
theorem csChead_walk {Q : Step CSState → Local → Env → Prop} (P : CSParams) (b : Bool)
    (st : CSState) (c : Char) {k : Nat}
    (hcont : ∀ s', s'.ret = st.ret ++ [c] → s'.count = st.count →
      HT (Tp L ps k) (pure (Step.cont s') : M (Step CSState)) Q ET)
    (htail : ∀ s', s'.ret = st.ret → s'.count = st.count → HT (Tp L ps k) (csCtail P b s' c) Q ET) :
    HT (Tp L ps k) (csChead P b st c) Q ET := by
  unfold csChead
  simp only []
  repeat' (first | exact hcont _ rfl rfl | exact htail _ rfl rfl | exact foreign_bind_ht | t_step)

set_option maxHeartbeats 2000000 in
/-- the tail of `csC`: `<<`, `<<-`, `<<<` (two look-aheads), comments -/
theorem csCtail_tt (hnl : NL L) (P : CSParams) (b : Bool) (st : CSState) (c : Char) {i k : Nat}
    (hP : Pend L i k st.ret c) (hlt : c ≠ '\n' → k < L.length) (hik : i ≤ k) (hiL : i < L.length) :
    HT (Tp L ps k) (csCtail P b st c)
      (fun r l e => ∃ k', (i ≤ k' ∧ PQ L i st.count r k') ∧ Tp L ps k' l e) ET := by
  have hnext : ∀ s', s'.ret = st.ret → s'.count = st.count →
      HT (Tp L ps k) (pure (Step.next s' c) : M (Step CSState))
        (fun r l e => ∃ k', (i ≤ k' ∧ PQ L i st.count r k') ∧ Tp L ps k' l e) ET := by
    intro s' h1 h2
    refine HT.pure (fun l e h => ⟨k, ⟨hik, ?_, h2, hlt⟩, h⟩)
    show Pend L i k s'.ret c
    rw [h1]; exact hP
  unfold csCtail
  simp only []
  refine HT.ite (fun hlt' => ?_) (fun _ => ?_)
  · -- `<`
    have hc : c = '<' := by
      simp only [Bool.and_eq_true, beq_iff_eq] at hlt'
      exact hlt'.2
    subst hc
    have hsp : Sp L i k (st.ret ++ ['<']) := by
      rcases hP with h | h
      · exact h
      · exact absurd h.2 (by decide)
    refine getc_bind (fun peek0 j hg => ?_)
    cases peek0 with
    | none => simp only []; exact mpe_bind_ht _
    | some p =>
      simp only [pure_bind]
      have hkj : k < j := (hg.char p rfl).1
      have hA := sp_getc hsp hik hg
      refine HT.ite (fun hpc => ?_) (fun hpc => ?_)
      · -- `<<`
        have hp : p = '<' := by simpa using hpc
        subst hp
        have hsp2 : Sp L i j (st.ret ++ ['<'] ++ ['<']) := by
          rcases hA with h | h
          · exact h
          · exact absurd h.2 (by decide)
        have hj : j < L.length := lt_of_some hnl hg (by decide)
        refine getc_bind (fun peek20 j2 hg2 => ?_)
        cases peek20 with
        | none => simp only []; exact mpe_bind_ht _
        | some q =>
          simp only [pure_bind]
          have hjj : j < j2 := (hg2.char q rfl).1
          refine HT.ite (fun hq => ?_) (fun hq => ?_)
          · -- `<<-`
            have hM : Mid L i j2 (st.ret ++ ['<'] ++ ['<'] ++ [q]) :=
              (sp_getc hsp2 (by omega) hg2).elim Or.inl (fun h => Or.inr h.1)
            refine HT.ite (fun _ => ?_) (fun _ => ?_) <;>
              exact HT.pure (fun l e h => ⟨j2, ⟨by omega, hM, rfl⟩, h⟩)
          · obtain ⟨a1, a2, a3, a4⟩ := sp_back hsp2 (by omega) hj hg2
            refine ungetc_bind a2 ?_
            refine HT.ite (fun _ => ?_) (fun _ => ?_) <;>
              exact HT.pure (fun l e h => ⟨j2 - 1, ⟨by omega, Or.inl a1, rfl⟩, h⟩)
      · refine HT.pure (fun l e h => ⟨j, ⟨by omega, ?_, rfl, fun hp => lt_of_some hnl hg hp⟩, h⟩)
        exact hA
  · repeat' (first | exact hnext _ rfl rfl | c_step)

/-- **`csC`** -/
theorem csC_tt (hnl : NL L) (P : CSParams) (b : Bool) (st : CSState) (c : Char) {i k : Nat}
    (hP : Pend L i k st.ret c) (hlt : c ≠ '\n' → k < L.length) (hik : i ≤ k) (hiL : i < L.length) :
    HT (Tp L ps k) (csC P b st c)
      (fun r l e => ∃ k', (i ≤ k' ∧ PQ L i st.count r k') ∧ Tp L ps k' l e) ET := by
  rw [csC_eq]
  refine csChead_walk P b st c ?_ ?_
  · intro s' h1 h2
    refine HT.pure (fun l e h => ⟨k, ⟨hik, ?_, h2⟩, h⟩)
    show Mid L i k s'.ret
    rw [h1]; exact hP.mid
  · intro s' h1 h2
    have := csCtail_tt (ps := ps) hnl P b s' c (i := i) (k := k) (by rw [h1]; exact hP) hlt hik hiL
    rw [h2] at this
    exact this

/-! ## `csD` -/

abbrev CDR (P : CSParams) (st : CSState) (c : Char) (r : Step CSState) : Prop :=
  match r with
  | .done ret => ret = st.ret ++ [c] ∧ (st.count ≠ 0 → c = P.close)
  | .next s c' => c' = c ∧ s.ret = st.ret ++ [c] ∧ s.count ≠ 0
  | .cont _ => False

theorem sat_csD (P : CSParams) (st : CSState) (c : Char) : Sat (csD P st c) (CDR P st c) := by
  unfold csD
  simp only []
  sat_auto
  all_goals (simp only [CDR]; simp_all; try (intro _; assumption))

theorem k_csD {k : Nat} (P : CSParams) (st : CSState) (c : Char) : KSat L ps k (csD P st c) := by
  unfold csD; (try simp only []); w_walk

/-! ## `csPre` -/

/-- result of the first half of an iteration, at cursor `k` -/
def PreQ (L : Str) (i : Nat) (r : Step CSState) (k : Nat) : Prop :=
  match r with
  | .cont s => Mid L i k s.ret ∧ s.count ≠ 0
  | .done ret => Sp L i k ret ∧ k < L.length
  | .next s c => (Sp L i k s.ret ∨ (Dm L k ∧ c = '\n')) ∧ s.count ≠ 0 ∧ (c ≠ '\n' → k < L.length)

set_option maxHeartbeats 1000000 in
/-- **`csPre`** -/
theorem csPre_tt (hnl : NL L) (P : CSParams) (hP : CSGood P) (b : Bool) (st : CSState) {i k : Nat}
    (hM : Mid L i k st.ret) (hcnt : st.count ≠ 0) (hik : i ≤ k) (hiL : i < L.length) :
    HT (Tp L ps k) (csPre P b st)
      (fun r l e => ∃ k', (i ≤ k' ∧ PreQ L i r k') ∧ Tp L ps k' l e) ET := by
  unfold csPre
  refine HT.bind (csA_tt hnl P st hM hik) (fun r1 => ?_)
  refine HT.pre_exists (fun k1 => HT.pre_pure (fun h1 => ?_))
  obtain ⟨hk1, hq1⟩ := h1
  cases r1 with
  | cont s => exact HT.pure (fun l e h => ⟨k1, ⟨by omega, hq1.1, by rw [hq1.2]; exact hcnt⟩, h⟩)
  | done r => exact hq1.elim
  | next s1 c1 =>
    simp only []
    obtain ⟨p1, p2, p3⟩ := hq1
    refine HT.bind (csB_tt hnl b s1 c1 p1 p3 (by omega) hiL) (fun r2 => ?_)
    refine HT.pre_exists (fun k2 => HT.pre_pure (fun h2 => ?_))
    obtain ⟨hk2, hq2⟩ := h2
    rw [p2] at hq2
    cases r2 with
    | cont s => exact HT.pure (fun l e h => ⟨k2, ⟨hk2, hq2.1, by rw [hq2.2]; exact hcnt⟩, h⟩)
    | done r => exact hq2.elim
    | next s2 c2 =>
      simp only []
      obtain ⟨q1, q2, q3⟩ := hq2
      refine HT.bind (csC_tt hnl P b s2 c2 q1 q3 hk2 hiL) (fun r3 => ?_)
      refine HT.pre_exists (fun k3 => HT.pre_pure (fun h3 => ?_))
      obtain ⟨hk3, hq3⟩ := h3
      rw [q2] at hq3
      cases r3 with
      | cont s => exact HT.pure (fun l e h => ⟨k3, ⟨hk3, hq3.1, by rw [hq3.2]; exact hcnt⟩, h⟩)
      | done r => exact hq3.elim
      | next s3 c3 =>
        simp only []
        obtain ⟨t1, t2, t3⟩ := hq3
        have h := HT.and_sat (k_csD (L := L) (ps := ps) (k := k3) P s3 c3) (sat_csD P s3 c3)
        refine HT.weaken h (fun _ _ h => h) (fun r l e h => ⟨k3, ⟨hk3, ?_⟩, h.2.2⟩)
          (fun _ _ => True.intro)
        obtain ⟨hr, _⟩ := h
        cases r with
        | cont s => exact hr.elim
        | done ret =>
          obtain ⟨e1, e2⟩ := hr
          have hc : c3 = P.close := e2 (by rw [t2]; exact hcnt)
          have hcn : c3 ≠ '\n' := by rw [hc]; exact hP.1
          refine ⟨?_, t3 hcn⟩
          rw [e1]
          rcases t1 with h | h
          · exact h
          · exact absurd h.2 hcn
        | next s c' =>
          obtain ⟨rfl, e1, e2⟩ := hr
          refine ⟨?_, e2, t3⟩
          rw [e1]; exact t1

/-! ## `csPost` -/

set_option maxHeartbeats 1000000 in
/-- **`csPost`** -/
theorem csPost_tt {pmp : MPParams → M Str} {pcs : CSParams → M Str} (ih : ScanIH L ps pmp pcs)
    (P : CSParams) (st : CSState) (c : Char) {k : Nat} (hlt : c ≠ '\n' → k < L.length) :
    HT (Tp L ps k) (csPost pmp pcs P st c)
      (fun s' l e => ∃ k'', PostR L k c st.ret st.count s'.ret s'.count k'' ∧ Tp L ps k'' l e)
      ET := by
  unfold csPost
  simp only []
  have recq : ∀ (hc : c ≠ '\n') (f : Str → CSState), (∀ r, (f r).ret = st.ret ++ r) →
      ∀ r j, k ≤ j → j < L.length → Sp L k j r → ∀ l e, Tp L ps j l e →
        ∃ k'', PostR L k c st.ret st.count (f r).ret (f r).count k'' ∧ Tp L ps k'' l e := by
    intro hc f hf r j h1 h2 h3 l e h
    exact ⟨j, ⟨h1, Or.inr ⟨hc, h2, r, hf r, h3⟩⟩, h⟩
  refine keep_bind (v_shellquote c) (fun b hb => ?_)
  subst hb
  refine HT.ite (fun hq => ?_) (fun _ => ?_)
  · have hc := quote_ne_nl hq
    exact rec_leaf_pop (ih.pmp k _ (hlt hc) (mpgood (c := c) (o := c) rfl rfl hc hc))
      (recq hc _ (fun r => rfl))
  refine HT.ite (fun hd => ?_) (fun _ => ?_)
  · have hc : c ≠ '\n' := by
      simp only [Bool.and_eq_true] at hd
      exact dolOpen_ne_nl hd.2
    have hk := hlt hc
    refine HT.ite (fun _ => ?_) (fun _ => ?_)
    · refine HT.ite (fun _ => ?_) (fun _ => ?_)
      · exact rec_leaf (ih.pcs k _ hk (csgood (c := ')') (o := '(') rfl rfl (by decide) (by decide)))
          (recq hc _ (fun r => rfl))
      refine HT.ite (fun _ => ?_) (fun _ => ?_)
      · exact rec_leaf (ih.pmp k _ hk (mpgood (c := '}') (o := '{') rfl rfl (by decide) (by decide)))
          (recq hc _ (fun r => rfl))
      · exact rec_leaf (ih.pmp k _ hk (mpgood (c := ']') (o := '[') rfl rfl (by decide) (by decide)))
          (recq hc _ (fun r => rfl))
    · refine HT.ite (fun _ => ?_) (fun _ => ?_)
      · exact rec_leaf (ih.pcs k _ hk (csgood (c := ')') (o := '(') rfl rfl (by decide) (by decide)))
          (recq hc _ (fun r => rfl))
      refine HT.ite (fun _ => ?_) (fun _ => ?_)
      · exact rec_leaf (ih.pmp k _ hk (mpgood (c := '}') (o := '{') rfl rfl (by decide) (by decide)))
          (recq hc _ (fun r => rfl))
      · exact rec_leaf (ih.pmp k _ hk (mpgood (c := ']') (o := '[') rfl rfl (by decide) (by decide)))
          (recq hc _ (fun r => rfl))
  · exact HT.pure (fun l e h => ⟨k, ⟨Nat.le_refl _, Or.inl ⟨rfl, rfl, rfl⟩⟩, h⟩)

end

end Bashlex.C04.TTP
