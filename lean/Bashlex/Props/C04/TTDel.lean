/-
  C04, token text, part 0: the ghost relation of `_getc`.

  `Del s w`: the string `w` is the text `s` with some backslash-newline pairs (line continuations)
  deleted.  This is what `_getc` does to the text it consumes: with `remove_quoted_newline` it
  skips such pairs, without it (inside single quotes, after a backslash, in comments) it delivers
  them.  `delB` is the decidable form used in `ttOK`.

  Consequences used downstream: a value is not longer than its text; when the VALUE holds no
  adjacent backslash-newline, the naive `stripContinuations` of the text is the value; when the
  TEXT holds no continuation, text and value coincide.

  The naive equation `stripContinuations s = stripContinuations w` is FALSE in general
  (witness: the word `"\\\⏎⏎"`: value `"\\⏎"`; the backslash-newline of the value was not
  adjacent in the text, a real continuation stood between them): see `TokText.lean`.
-/
import Bashlex.Spec.Tree

namespace Bashlex.C04
open Bashlex Bashlex.Spec

/-- `w` is `s` with some backslash-newline pairs deleted -/
inductive Del : Str → Str → Prop
  | nil : Del [] []
  | keep (c : Char) {s w : Str} : Del s w → Del (c :: s) (c :: w)
  | skip {s w : Str} : Del s w → Del ('\\' :: '\n' :: s) w

/-- decidable form of `Del` -/
def delB : Str → Str → Bool
  | [], w => w.isEmpty
  | [c], w => w == [c]
  | c :: d :: s, w =>
    (match w with
     | x :: w' => c == x && delB (d :: s) w'
     | [] => false) ||
    (c == '\\' && d == '\n' && delB s w)

namespace Del

theorem refl : ∀ (s : Str), Del s s
  | [] => .nil
  | c :: s => .keep c (refl s)

theorem append {s w s' w' : Str} (h : Del s w) (h' : Del s' w') : Del (s ++ s') (w ++ w') := by
  induction h with
  | nil => exact h'
  | keep c _ ih => exact .keep c ih
  | skip _ ih => exact .skip ih

theorem length_le {s w : Str} (h : Del s w) : w.length ≤ s.length := by
  induction h with
  | nil => exact Nat.le_refl _
  | keep c _ ih => simp only [List.length_cons]; omega
  | skip _ ih => simp only [List.length_cons]; omega

theorem nil_left {w : Str} (h : Del [] w) : w = [] := by cases h; rfl

/-- the text of an empty value is made of pairs: it starts with a backslash -/
theorem nil_head {c : Char} {s : Str} (h : Del (c :: s) []) : c = '\\' ∧ s.head? = some '\n' := by
  cases h; exact ⟨rfl, rfl⟩

theorem snoc {s w : Str} (h : Del s w) (c : Char) : Del (s ++ [c]) (w ++ [c]) :=
  h.append (.keep c .nil)

theorem snoc_pair {s w : Str} (h : Del s w) : Del (s ++ ['\\', '\n']) w := by
  have := h.append (.skip .nil : Del ['\\', '\n'] [])
  simpa using this

theorem of_delB : ∀ (s w : Str), delB s w = true → Del s w
  | [], w, h => by
    have : w = [] := by simpa [delB] using h
    subst this; exact .nil
  | [c], w, h => by
    have : w = [c] := by simpa [delB] using h
    subst this; exact .keep c .nil
  | c :: d :: s, w, h => by
    unfold delB at h
    rw [Bool.or_eq_true] at h
    rcases h with h | h
    · cases w with
      | nil => simp at h
      | cons x w' =>
        simp only [Bool.and_eq_true, beq_iff_eq] at h
        obtain ⟨rfl, h2⟩ := h
        exact .keep c (of_delB (d :: s) w' h2)
    · simp only [Bool.and_eq_true, beq_iff_eq] at h
      obtain ⟨⟨rfl, rfl⟩, h2⟩ := h
      exact .skip (of_delB s w h2)

theorem delB {s w : Str} (h : Del s w) : delB s w = true := by
  induction h with
  | nil => rfl
  | @keep c s w h ih =>
    cases s with
    | nil => cases h; simp [C04.delB]
    | cons d s' =>
      unfold C04.delB
      simp only [beq_self_eq_true, Bool.true_and, ih, Bool.true_or]
  | @skip s w h ih =>
    unfold C04.delB
    simp only [beq_self_eq_true, Bool.true_and, ih, Bool.or_true]

end Del

theorem delB_iff {s w : Str} : delB s w = true ↔ Del s w := ⟨Del.of_delB s w, Del.delB⟩

/-! ## `stripContinuations`, `hasContinuation` -/

theorem strip_pair (s : Str) : stripContinuations ('\\' :: '\n' :: s) = stripContinuations s := by
  simp [stripContinuations]

theorem strip_cons {c : Char} {s : Str} (h : ¬ (c = '\\' ∧ s.head? = some '\n')) :
    stripContinuations (c :: s) = c :: stripContinuations s := by
  cases s with
  | nil => simp [stripContinuations]
  | cons d s' =>
    conv => lhs; unfold stripContinuations
    split
    · rename_i heq
      cases heq
      exact absurd ⟨rfl, rfl⟩ h
    · rename_i heq
      cases heq
      rfl
    · rename_i heq; cases heq

theorem hasCont_pair (s : Str) : hasContinuation ('\\' :: '\n' :: s) = true := by
  simp [hasContinuation]

theorem hasCont_cons {c : Char} {s : Str} (h : ¬ (c = '\\' ∧ s.head? = some '\n')) :
    hasContinuation (c :: s) = hasContinuation s := by
  cases s with
  | nil => simp [hasContinuation]
  | cons d s' =>
    conv => lhs; unfold hasContinuation
    split
    · rename_i heq
      cases heq
      exact absurd ⟨rfl, rfl⟩ h
    · rename_i heq
      cases heq
      rfl
    · rename_i heq; cases heq

theorem hasCont_cons_false {c : Char} {s : Str} (h : hasContinuation (c :: s) = false) :
    ¬ (c = '\\' ∧ s.head? = some '\n') ∧ hasContinuation s = false := by
  by_cases hc : c = '\\' ∧ s.head? = some '\n'
  · exfalso
    obtain ⟨rfl, hs⟩ := hc
    cases s with
    | nil => cases hs
    | cons d s' =>
      simp only [List.head?_cons, Option.some.injEq] at hs
      subst hs
      rw [hasCont_pair] at h; cases h
  · exact ⟨hc, by rw [hasCont_cons hc] at h; exact h⟩

theorem strip_of_noCont : ∀ (w : Str), hasContinuation w = false → stripContinuations w = w
  | [], _ => rfl
  | c :: s, h => by
    obtain ⟨h1, h2⟩ := hasCont_cons_false h
    rw [strip_cons h1, strip_of_noCont s h2]

/-- when the VALUE holds no adjacent backslash-newline, the naive strip of the text is the value -/
theorem Del.strip {s w : Str} (h : Del s w) (hw : hasContinuation w = false) :
    stripContinuations s = w := by
  induction h with
  | nil => rfl
  | @keep c s w h ih =>
    obtain ⟨h1, h2⟩ := hasCont_cons_false hw
    have h1' : ¬ (c = '\\' ∧ s.head? = some '\n') := by
      rintro ⟨rfl, hs⟩
      apply h1
      refine ⟨rfl, ?_⟩
      cases s with
      | nil => cases hs
      | cons d s' =>
        simp only [List.head?_cons, Option.some.injEq] at hs
        subst hs
        -- `Del ('\n' :: s') w`: the newline is kept
        cases h with
        | keep _ _ => rfl
    rw [strip_cons h1', ih h2]
  | skip _ ih => rw [strip_pair]; exact ih hw

/-- when the TEXT holds no continuation, nothing was deleted -/
theorem Del.eq_of_noCont {s w : Str} (h : Del s w) (hs : hasContinuation s = false) : s = w := by
  induction h with
  | nil => rfl
  | keep c _ ih =>
    obtain ⟨_, h2⟩ := hasCont_cons_false hs
    rw [ih h2]
  | skip _ _ => rw [hasCont_pair] at hs; cases hs

theorem hasCont_of_noBackslash : ∀ (w : Str), w.contains '\\' = false → hasContinuation w = false
  | [], _ => rfl
  | c :: s, h => by
    simp only [List.contains_cons, Bool.or_eq_false_iff, beq_eq_false_iff_ne, ne_eq] at h
    have hc : ¬ (c = '\\' ∧ s.head? = some '\n') := fun hh => h.1 hh.1.symm
    rw [hasCont_cons hc]
    exact hasCont_of_noBackslash s h.2

theorem hasCont_append_of_noNL {v r : Str} (hv : hasContinuation v = false)
    (hr : r.contains '\n' = false) : hasContinuation (v ++ r) = false := by
  induction v with
  | nil =>
    induction r with
    | nil => rfl
    | cons c r ih =>
      simp only [List.contains_cons, Bool.or_eq_false_iff, beq_eq_false_iff_ne, ne_eq] at hr
      have hc : ¬ (c = '\\' ∧ r.head? = some '\n') := by
        rintro ⟨_, hh⟩
        cases r with
        | nil => cases hh
        | cons d r' =>
          simp only [List.head?_cons, Option.some.injEq] at hh
          subst hh
          simp at hr
      simp only [List.nil_append] at ih ⊢
      rw [hasCont_cons hc]; exact ih hr.2
  | cons c v ih =>
    obtain ⟨h1, h2⟩ := hasCont_cons_false hv
    have hc : ¬ (c = '\\' ∧ (v ++ r).head? = some '\n') := by
      rintro ⟨rfl, hh⟩
      cases v with
      | nil =>
        simp only [List.nil_append] at hh
        cases r with
        | nil => cases hh
        | cons d r' =>
          simp only [List.head?_cons, Option.some.injEq] at hh
          subst hh
          simp at hr
      | cons d v' =>
        simp only [List.cons_append, List.head?_cons, Option.some.injEq] at hh
        subst hh
        exact h1 ⟨rfl, rfl⟩
    rw [List.cons_append, hasCont_cons hc]
    exact ih h2

/-! ## slices -/

theorem slice_self (L : Str) (i : Nat) : Str.slice L i i = [] := by
  unfold Str.slice
  apply List.drop_eq_nil_of_le
  exact List.length_take_le _ _

theorem slice_cat (L : Str) {a i j : Nat} (h1 : a ≤ i) (h2 : i ≤ j) (h3 : j ≤ L.length) :
    Str.slice L a i ++ Str.slice L i j = Str.slice L a j := by
  unfold Str.slice
  have e1 : L.take j = L.take i ++ (L.take j).drop i := by
    conv => lhs; rw [← List.take_append_drop i (L.take j)]
    rw [List.take_take, Nat.min_eq_left h2]
  conv => rhs; rw [e1]
  rw [List.drop_append_of_le_length (by rw [List.length_take]; omega)]

theorem slice_cons (L : Str) {i j : Nat} {c : Char} (h : L[i]? = some c) (hij : i < j) :
    Str.slice L i j = c :: Str.slice L (i + 1) j := by
  unfold Str.slice
  have hlt : i < L.length := (List.getElem?_eq_some_iff.mp h).1
  have h' : (L.take j)[i]? = some c := by rw [List.getElem?_take_of_lt hij]; exact h
  have hlt' : i < (L.take j).length := (List.getElem?_eq_some_iff.mp h').1
  rw [List.drop_eq_getElem_cons hlt']
  congr 1
  exact (List.getElem?_eq_some_iff.mp h').2

theorem slice_one (L : Str) {i : Nat} {c : Char} (h : L[i]? = some c) :
    Str.slice L i (i + 1) = [c] := by
  rw [slice_cons L h (Nat.lt_succ_self i), slice_self]

theorem slice_snoc (L : Str) {a j : Nat} {c : Char} (h : L[j]? = some c) (haj : a ≤ j) :
    Str.slice L a (j + 1) = Str.slice L a j ++ [c] := by
  have hlt : j < L.length := (List.getElem?_eq_some_iff.mp h).1
  rw [← slice_cat L haj (Nat.le_succ j) (by omega), slice_one L h]

theorem slice_length (L : Str) {a b : Nat} (h : b ≤ L.length) : (Str.slice L a b).length = b - a := by
  unfold Str.slice
  rw [List.length_drop, List.length_take, Nat.min_eq_left h]

theorem slice_head (L : Str) {a b : Nat} {c : Char} (h : L[a]? = some c) (hab : a < b) :
    (Str.slice L a b).head? = some c := by
  rw [slice_cons L h hab]; rfl

theorem slice_full_drop (L : Str) (e : Nat) : Str.slice L e L.length = L.drop e := by
  unfold Str.slice; rw [List.take_length]

end Bashlex.C04
