/-
  C04, token text, part 1: the tape with an EXACT cursor.

  `Tp L ps i`: the parser object reads the line `L`, the cursor is at `i ≤ |L|`, the
  `_eol_ungetc_lookahead` slot is empty, the position stack is `ps`.  (C03's `W` only has a lower
  bound of the cursor; the text relation needs the cursor itself.)

  `GetcR rqn L i j c`: what one `_getc(remove_quoted_newline = rqn)` does from cursor `i`: it ends
  at `j`, the text `L[i:j]` is a run of backslash-newline pairs (none when `rqn = false`)
  followed by the character delivered; `None` is delivered at the end of the line only.
  `_ungetc` moves the cursor back by ONE, whatever `_getc` skipped (the source of D31 / D32).
-/
import Bashlex.Props.C03.TokSpans
import Bashlex.Props.C04.TokText

namespace Bashlex.C04.TTP
open Bashlex Bashlex.M Bashlex.C10 Bashlex.C11 Bashlex.C03.Tok Bashlex.C04
set_option linter.unusedSimpArgs false
set_option linter.unusedVariables false

/-- the tape with an exact cursor -/
def Tp (L : Str) (ps : List Nat) (i : Nat) (l : Local) (e : Env) : Prop :=
  (tapeOf l e).line = L ∧ (tapeOf l e).idx = i ∧ i ≤ L.length ∧ l.eolLookahead = none ∧
  l.positions = ps

section
variable {L : Str} {ps : List Nat} {i : Nat}

theorem Tp.env {l : Local} {e e' : Env} (h : Tp L ps i l e) (h1 : e'.tape = e.tape) :
    Tp L ps i l e' := by
  unfold Tp at h ⊢
  rw [tapeOf_env h1]; exact h

instance : EnvStable (Tp L ps i) := ⟨fun _ _ _ h h1 _ => h.env h1⟩

theorem Tp.put {l : Local} {e : Env} (h : Tp L ps i l e) {t' : Tape} {j : Nat}
    (h1 : t'.line = L) (h2 : t'.idx = j) (h3 : j ≤ L.length) :
    Tp L ps j (putL l t') (putE l e t') := by
  obtain ⟨a1, a2, a3, a4, a5⟩ := h
  unfold Tp
  rw [tapeOf_put, putL_eol, putL_positions']
  exact ⟨h1, h2, h3, a4, a5⟩

end

/-- what one `_getc` does from cursor `i` (see the header) -/
structure GetcR (rqn : Bool) (L : Str) (i j : Nat) (c : Option Char) : Prop where
  le : i ≤ j
  le' : j ≤ L.length
  atEnd : c = none → j = L.length ∧ Del (Str.slice L i j) []
  char : ∀ ch, c = some ch → i < j ∧ L[j - 1]? = some ch ∧ Del (Str.slice L i (j - 1)) []
  raw : rqn = false → j = min (i + 1) L.length

theorem GetcR.del {rqn : Bool} {L : Str} {i j : Nat} {c : Option Char} (h : GetcR rqn L i j c) :
    Del (Str.slice L i j) c.toList := by
  cases c with
  | none => exact (h.atEnd rfl).2
  | some ch =>
    obtain ⟨h1, h2, h3⟩ := h.char ch rfl
    have hj : j = (j - 1) + 1 := by omega
    rw [hj, slice_snoc L h2 (by omega)]
    exact h3.snoc ch

/-- a character that is not a backslash (or any character when `rqn = false`) is delivered as
    it stands -/
theorem GetcR.exact {rqn : Bool} {L : Str} {i j : Nat} {c : Option Char} (h : GetcR rqn L i j c)
    {ch : Char} (hi : L[i]? = some ch) (hne : ch ≠ '\\' ∨ rqn = false) : c = some ch ∧ j = i + 1 := by
  have hlt : i < L.length := (List.getElem?_eq_some_iff.mp hi).1
  cases c with
  | none =>
    exfalso
    obtain ⟨h1, h2⟩ := h.atEnd rfl
    rw [h1, slice_cons L hi hlt] at h2
    obtain ⟨e1, e2⟩ := h2.nil_head
    rcases hne with hne | hne
    · exact hne e1
    · have := h.raw hne
      have hl := slice_length L (a := i + 1) (b := L.length) (Nat.le_refl _)
      cases hs : Str.slice L (i + 1) L.length with
      | nil => rw [hs] at e2; cases e2
      | cons x xs => rw [hs] at hl; simp only [List.length_cons] at hl; omega
  | some c' =>
    obtain ⟨h1, h2, h3⟩ := h.char c' rfl
    by_cases hj : j - 1 = i
    · rw [hj] at h2
      rw [hi] at h2
      exact ⟨by rw [← h2], by omega⟩
    · exfalso
      rw [slice_cons L hi (by omega)] at h3
      obtain ⟨e1, e2⟩ := h3.nil_head
      rcases hne with hne | hne
      · exact hne e1
      · have := h.raw hne; omega

theorem tape_getc_R (rqn : Bool) : ∀ (fuel : Nat) (t : Tape) (c : Option Char) (t' : Tape),
    t.getc rqn fuel = .ok (c, t') → t.idx ≤ t.line.length → t.line.length - t.idx < fuel →
      t'.line = t.line ∧ GetcR rqn t.line t.idx t'.idx c := by
  intro fuel
  induction fuel with
  | zero => intro t c t' h _ hf; exact absurd hf (Nat.not_lt_zero _)
  | succ fuel ih =>
    intro t c t' h hle hf
    unfold Tape.getc at h
    split at h
    · rename_i hlt
      split at h
      · rename_i hn
        have := List.getElem?_eq_none_iff.mp hn
        omega
      · rename_i c0 hc
        simp only [] at h
        have plain : (Except.ok (some c0, { t with idx := t.idx + 1 }) : Except Unit _) = .ok (c, t') →
            t'.line = t.line ∧ GetcR rqn t.line t.idx t'.idx c := by
          intro h
          cases h
          refine ⟨rfl, ⟨by simp only []; omega, by simp only []; omega, (fun h => by cases h), ?_, ?_⟩⟩
          · intro ch hch
            cases hch
            refine ⟨by simp only []; omega, by simpa using hc, ?_⟩
            simp only [Nat.add_sub_cancel, slice_self]
            exact .nil
          · intro _; simp only []; omega
        split at h
        · rename_i hbs
          split at h
          · cases h
          · rename_i d hd
            have hd' : t.idx + 1 < t.line.length := (List.getElem?_eq_some_iff.mp hd).1
            split at h
            · rename_i hdn
              have hc0 : c0 = '\\' := by
                simp only [Bool.and_eq_true, beq_iff_eq] at hbs; exact hbs.1
              have hrq : rqn = true := by
                simp only [Bool.and_eq_true, beq_iff_eq] at hbs; exact hbs.2
              have hdn' : d = '\n' := by simpa using hdn
              subst hc0 hdn'
              obtain ⟨a1, a2⟩ := ih _ _ _ h (by simp only []; omega) (by simp only []; omega)
              simp only [] at a1 a2 hd
              refine ⟨a1, ⟨by have := a2.le; omega, a2.le', ?_, ?_, ?_⟩⟩
              · intro hn
                obtain ⟨b1, b2⟩ := a2.atEnd hn
                refine ⟨b1, ?_⟩
                have hj := a2.le
                rw [slice_cons _ hc (by omega), slice_cons _ hd (by omega)]
                exact .skip b2
              · intro ch hch
                obtain ⟨b1, b2, b3⟩ := a2.char ch hch
                refine ⟨by omega, b2, ?_⟩
                rw [slice_cons _ hc (by omega), slice_cons _ hd (by omega)]
                exact .skip b3
              · intro hr; rw [hr] at hrq; cases hrq
            · exact plain h
        · exact plain h
    · rename_i hge
      cases h
      have : t.idx = t.line.length := by omega
      refine ⟨rfl, ⟨Nat.le_refl _, hle, (fun _ => ⟨this, by rw [slice_self]; exact .nil⟩),
        (fun ch h => by cases h), (fun _ => by omega)⟩⟩

section
variable {L : Str} {ps : List Nat} {i j : Nat}

/-- **`_getc`** from an exact cursor -/
theorem getc_tp (rqn : Bool) :
    HT (Tp L ps i) (getc rqn) (fun c l e => ∃ j, GetcR rqn L i j c ∧ Tp L ps j l e) ET := by
  intro l e h
  have h0 := h
  obtain ⟨a1, a2, a3, a4, a5⟩ := h
  rw [run_getc rqn l e a4]
  cases hgc : (tapeOf l e).getc rqn ((tapeOf l e).line.length + 1) with
  | error u => cases u; exact True.intro
  | ok v =>
    obtain ⟨c, t'⟩ := v
    obtain ⟨b1, b2⟩ := tape_getc_R rqn _ _ _ _ hgc (by rw [a1, a2]; exact a3) (by omega)
    rw [a1, a2] at b2
    exact ⟨t'.idx, b2, h0.put (b1.trans a1) rfl b2.le'⟩

/-- **`_ungetc`**: the cursor moves back by one -/
theorem ungetc_tp (c : Option Char) (hj : 0 < j) :
    HT (Tp L ps j) (ungetc c) (fun _ l e => Tp L ps (j - 1) l e) ET := by
  intro l e h
  have h0 := h
  obtain ⟨a1, a2, a3, a4, a5⟩ := h
  rw [run_ungetc]
  have hu : (tapeOf l e).ungetc = (true, { tapeOf l e with idx := (tapeOf l e).idx - 1 }) := by
    unfold Tape.ungetc
    rw [if_pos]
    rw [a1, a2]
    have hne : L ≠ [] := by
      intro hl; rw [hl] at a3; simp at a3; omega
    simp only [Bool.and_eq_true, Bool.not_eq_true', List.isEmpty_eq_false_iff, ne_eq, bne_iff_ne,
      decide_eq_true_eq]
    exact ⟨⟨hne, by omega⟩, a3⟩
  rw [hu]
  simp only []
  exact h0.put a1 (by show (tapeOf l e).idx - 1 = j - 1; rw [a2]) (by omega)

theorem getc_bind {β : Type} {rqn : Bool} {f : Option Char → M β} {Q : β → Local → Env → Prop}
    (h : ∀ c j, GetcR rqn L i j c → HT (Tp L ps j) (f c) Q ET) :
    HT (Tp L ps i) (getc rqn >>= f) Q ET :=
  HT.bind (getc_tp rqn) (fun c => HT.pre_exists (fun j => HT.pre_pure (fun hg => h c j hg)))

theorem ungetc_bind {β : Type} {c : Option Char} {f : Unit → M β} {Q : β → Local → Env → Prop}
    (hj : 0 < j) (h : HT (Tp L ps (j - 1)) (f ()) Q ET) :
    HT (Tp L ps j) (ungetc c >>= f) Q ET :=
  HT.bind (ungetc_tp c hj) (fun _ => h)

/-- bind after a computation that keeps the invariant and yields a fact -/
theorem keep_bind {α β : Type} {I : Local → Env → Prop} {m : M α} {f : α → M β} {φ : α → Prop}
    {Q : β → Local → Env → Prop} (hm : SatW I I m φ) (hf : ∀ a, φ a → HT I (f a) Q ET) :
    HT I (m >>= f) Q ET :=
  HT.bind hm (fun a => HT.pre_pure (fun ha => hf a ha))

end

/-! ## functions that do not touch the tape -/

/-- `m` keeps the exact cursor -/
abbrev KSat {α : Type} (L : Str) (ps : List Nat) (i : Nat) (m : M α) : Prop :=
  SatW (Tp L ps i) (Tp L ps i) m (fun _ => True)

macro_rules | `(tactic| w_atom) => `(tactic| exact SatW.pure (fun _ _ h => h) True.intro)
macro_rules | `(tactic| w_atom) => `(tactic| exact AtW.pure (fun _ _ h => h) True.intro)

section
variable {L : Str} {ps : List Nat} {i : Nat}

theorem k_shellmeta (c : Char) : KSat L ps i (shellmeta c) := by unfold shellmeta; w_walk
theorem k_shellquote (c : Char) : KSat L ps i (shellquote c) := by unfold shellquote; w_walk
theorem k_shellexp (c : Char) : KSat L ps i (shellexp c) := by unfold shellexp; w_walk
theorem k_shellbreak (c : Char) : KSat L ps i (shellbreak c) := by unfold shellbreak; w_walk
theorem k_pushDelimiter (c : Char) : KSat L ps i (pushDelimiter c) := by unfold pushDelimiter; w_walk
theorem k_popDelimiter : KSat L ps i popDelimiter := by unfold popDelimiter; (try simp only []); w_walk
theorem k_currentDelimiter : KSat L ps i currentDelimiter := by unfold currentDelimiter; w_walk
theorem k_mpInit (P : MPParams) : KSat L ps i (mpInit P) := by
  unfold mpInit; (try simp only []); w_walk
theorem k_csDelimMatches (st : CSState) : KSat L ps i (csDelimMatches st) := by
  unfold csDelimMatches; (try simp only []); w_walk
theorem k_isAssignment (s : Str) : KSat L ps i (isAssignment s) := by
  unfold isAssignment; (try simp only []); w_walk
theorem k_specialcasetokens (s : Str) : KSat L ps i (specialcasetokens s) := by
  unfold specialcasetokens; (try simp only []); w_walk
theorem k_tokentypeOfChar (c : Char) : KSat L ps i (tokentypeOfChar c) := by
  unfold tokentypeOfChar; (try simp only []); w_walk

/-- the values of the syntax-class queries -/
theorem v_shellmeta (c : Char) :
    SatW (Tp L ps i) (Tp L ps i) (shellmeta c) (fun r => r = (synClass c).metac) := by
  unfold shellmeta
  exact SatW.bind (syn_val c) (fun r hr => SatW.pure (fun _ _ h => h) (by rw [hr]))
theorem v_shellquote (c : Char) :
    SatW (Tp L ps i) (Tp L ps i) (shellquote c) (fun r => r = (synClass c).quote) := by
  unfold shellquote
  exact SatW.bind (syn_val c) (fun r hr => SatW.pure (fun _ _ h => h) (by rw [hr]))
theorem v_shellexp (c : Char) :
    SatW (Tp L ps i) (Tp L ps i) (shellexp c) (fun r => r = (synClass c).exp) := by
  unfold shellexp
  exact SatW.bind (syn_val c) (fun r hr => SatW.pure (fun _ _ h => h) (by rw [hr]))
theorem v_shellbreak (c : Char) :
    SatW (Tp L ps i) (Tp L ps i) (shellbreak c) (fun r => r = (synClass c).brk) := by
  unfold shellbreak
  exact SatW.bind (syn_val c) (fun r hr => SatW.pure (fun _ _ h => h) (by rw [hr]))

end

macro_rules | `(tactic| w_atom) => `(tactic| exact k_shellmeta _)
macro_rules | `(tactic| w_atom) => `(tactic| exact k_shellquote _)
macro_rules | `(tactic| w_atom) => `(tactic| exact k_shellexp _)
macro_rules | `(tactic| w_atom) => `(tactic| exact k_shellbreak _)
macro_rules | `(tactic| w_atom) => `(tactic| exact k_pushDelimiter _)
macro_rules | `(tactic| w_atom) => `(tactic| exact k_popDelimiter)
macro_rules | `(tactic| w_atom) => `(tactic| exact k_currentDelimiter)
macro_rules | `(tactic| w_atom) => `(tactic| exact k_mpInit _)
macro_rules | `(tactic| w_atom) => `(tactic| exact k_csDelimMatches _)
macro_rules | `(tactic| w_atom) => `(tactic| exact k_isAssignment _)
macro_rules | `(tactic| w_atom) => `(tactic| exact k_specialcasetokens _)
macro_rules | `(tactic| w_atom) => `(tactic| exact k_tokentypeOfChar _)

/-! ## the line -/

/-- the line of a parser object: empty, or ending in a newline -/
theorem wfg_line {g : Ghost} (hg : WFG g) : g.line = [] ∨ (NL g.line ∧ g.line.getLast? = some '\n') := by
  obtain ⟨s, h1, _⟩ := hg
  rw [h1]
  obtain ⟨_, k2⟩ := C03.ofInput_line s
  cases hl : (Tape.ofInput s).line.getLast? with
  | none => exact Or.inl (List.getLast?_eq_none_iff.mp hl)
  | some c =>
    have := k2 c hl
    subst this
    exact Or.inr ⟨C03.nl_of_getLast k2, rfl⟩

/-- the character before the cursor is not a newline: the cursor is not at the end -/
theorem nl_lt {L : Str} (hnl : NL L) {j : Nat} {ch : Char} (h : L[j - 1]? = some ch)
    (hne : ch ≠ '\n') (hj : 0 < j) : j < L.length := by
  have := hnl _ _ h hne; omega

end Bashlex.C04.TTP
