/-
  C04, part 9: the link to the executable specification `Spec.localTextViol` for operator and
  pipe nodes (for reserved words every signature `localTextViol` can raise is a recorded defect,
  see `C04.lean`).
-/
import Bashlex.Props.C04.Text

namespace Bashlex.C04
open Bashlex Bashlex.M Bashlex.Node Bashlex.Spec
set_option linter.unusedSimpArgs false
set_option linter.unusedVariables false

theorem strip_head_nl {t : Str} (h : t.head? = some '\n') :
    (stripContinuations t).head? = some '\n' := by
  cases t with
  | nil => cases h
  | cons c rest =>
    simp only [List.head?_cons, Option.some.injEq] at h
    subst h
    cases rest with
    | nil => simp [stripContinuations]
    | cons d r => simp [stripContinuations]

/-- the residues after a token made of metacharacters only: nothing, or (D31) the backslash of a
    continuation that ends the line -/
theorem residues_op {line : Str} {e : Nat} {r : Str} (h : r ∈ residues false line e) :
    r = [] ∨ (r = ['\\'] ∧ line.drop e = ['\n']) := by
  unfold residues at h
  simp only [Bool.false_and, Bool.false_eq_true, if_false, List.append_nil, List.mem_append,
    List.mem_cons, List.mem_nil_iff, or_false] at h
  rcases h with h | h
  · exact Or.inl h
  · split at h
    · rename_i hd
      simp only [List.mem_cons, List.mem_nil_iff, or_false] at h
      exact Or.inr ⟨h, by simpa using hd⟩
    · cases h

theorem listOps_facts {op : Str} (h : listOps.contains op = true) :
    wordPathV op = false ∧ op.contains '\\' = false := by
  have : ∀ x ∈ listOps, wordPathV x = false ∧ x.contains '\\' = false := by decide
  exact this op (by simpa using h)

theorem pipeOps_facts {op : Str} (h : pipeOps.contains op = true) :
    wordPathV op = false ∧ op.contains '\\' = false ∧ op ≠ ['\n'] := by
  have : ∀ x ∈ pipeOps, wordPathV x = false ∧ x.contains '\\' = false ∧ x ≠ ['\n'] := by decide
  exact this op (by simpa using h)

/-- the shape that is not excused by the specification: D31 at the end of a *nested* parser's
    input (the backslash of a continuation ending the substitution body is covered, but the
    caller's input goes on) -/
def NestedD31 (s : Str) (p : Span) (w : Str) : Prop :=
  stripContinuations (Str.slice s p.1 p.2) = w ++ ['\\'] ∧
    ¬ (s.drop p.2 = [] ∨ s.drop p.2 = ['\n'])

theorem localTextViol_operator (s : Str) (p : Span) (op : Str) :
    localTextViol s (.operator p op) =
      if stripContinuations (Str.slice s p.1 p.2) == op then []
      else if op == ['\n'] && (stripContinuations (Str.slice s p.1 p.2)).head? == some '\n' then
        ["newline-operator-extended-over-heredoc"]
      else if stripContinuations (Str.slice s p.1 p.2) == op ++ ['\\'] &&
          (s.drop p.2 == [] || s.drop p.2 == ['\n']) then
        ["operator-span-includes-final-backslash"]
      else ["operator-text"] := rfl

theorem localTextViol_pipe (s : Str) (p : Span) (w : Str) :
    localTextViol s (.pipe p w) =
      if stripContinuations (Str.slice s p.1 p.2) == w then []
      else if stripContinuations (Str.slice s p.1 p.2) == w ++ ['\\'] &&
          (s.drop p.2 == [] || s.drop p.2 == ['\n']) then
        ["operator-span-includes-final-backslash"]
      else ["pipe-text"] := rfl

/-- **operator nodes**: given the token-text relation for the text of the input under the span -/
theorem operator_sig {s : Str} {p : Span} {op line : Str} {e : Nat}
    (hop : listOps.contains op = true) (ht : TokTextAt line e (Str.slice s p.1 p.2) op) :
    ∀ v ∈ localTextViol s (.operator p op),
      v = "newline-operator-extended-over-heredoc" ∨
      v = "operator-span-includes-final-backslash" ∨
      (v = "operator-text" ∧ NestedD31 s p op ∧ line.drop e = ['\n']) := by
  obtain ⟨hwp, hnb⟩ := listOps_facts hop
  have hstrip := stripContinuations_of_no_backslash op hnb
  intro v hv
  rw [localTextViol_operator] at hv
  by_cases hne : (stripContinuations (Str.slice s p.1 p.2) == op) = true
  · rw [if_pos hne] at hv; cases hv
  rw [if_neg hne] at hv
  by_cases hnl : (op == ['\n'] && (stripContinuations (Str.slice s p.1 p.2)).head? == some '\n') = true
  · rw [if_pos hnl] at hv
    simp only [List.mem_cons, List.mem_nil_iff, or_false] at hv
    exact Or.inl hv
  rw [if_neg hnl] at hv
  by_cases hbs : (stripContinuations (Str.slice s p.1 p.2) == op ++ ['\\'] &&
      (s.drop p.2 == [] || s.drop p.2 == ['\n'])) = true
  · rw [if_pos hbs] at hv
    simp only [List.mem_cons, List.mem_nil_iff, or_false] at hv
    exact Or.inr (Or.inl hv)
  rw [if_neg hbs] at hv
  simp only [List.mem_cons, List.mem_nil_iff, or_false] at hv
  refine Or.inr (Or.inr ⟨hv, ?_⟩)
  rcases ht with ⟨r, hr, hrel, _⟩ | ⟨hw, hh⟩
  · rw [hwp] at hr
    rw [hstrip] at hrel
    rcases residues_op hr with rfl | ⟨rfl, hd⟩
    · exfalso; apply hne; simp [hrel]
    · refine ⟨⟨hrel, ?_⟩, hd⟩
      intro hrest
      apply hbs
      simp only [Bool.and_eq_true, beq_iff_eq, Bool.or_eq_true]
      exact ⟨hrel, hrest⟩
  · exfalso
    apply hnl
    simp only [Bool.and_eq_true, beq_iff_eq]
    exact ⟨hw, strip_head_nl hh⟩

/-- **pipe nodes** -/
theorem pipe_sig {s : Str} {p : Span} {w line : Str} {e : Nat}
    (hop : pipeOps.contains w = true) (ht : TokTextAt line e (Str.slice s p.1 p.2) w) :
    ∀ v ∈ localTextViol s (.pipe p w),
      v = "operator-span-includes-final-backslash" ∨
      (v = "pipe-text" ∧ NestedD31 s p w ∧ line.drop e = ['\n']) := by
  obtain ⟨hwp, hnb, hnl⟩ := pipeOps_facts hop
  have hstrip := stripContinuations_of_no_backslash w hnb
  intro v hv
  rw [localTextViol_pipe] at hv
  by_cases hne : (stripContinuations (Str.slice s p.1 p.2) == w) = true
  · rw [if_pos hne] at hv; cases hv
  rw [if_neg hne] at hv
  by_cases hbs : (stripContinuations (Str.slice s p.1 p.2) == w ++ ['\\'] &&
      (s.drop p.2 == [] || s.drop p.2 == ['\n'])) = true
  · rw [if_pos hbs] at hv
    simp only [List.mem_cons, List.mem_nil_iff, or_false] at hv
    exact Or.inl hv
  rw [if_neg hbs] at hv
  simp only [List.mem_cons, List.mem_nil_iff, or_false] at hv
  refine Or.inr ⟨hv, ?_⟩
  rcases ht with ⟨r, hr, hrel, _⟩ | ⟨hw, _⟩
  · rw [hwp] at hr
    rw [hstrip] at hrel
    rcases residues_op hr with rfl | ⟨rfl, hd⟩
    · exfalso; apply hne; simp [hrel]
    · refine ⟨⟨hrel, ?_⟩, hd⟩
      intro hrest
      apply hbs
      simp only [Bool.and_eq_true, beq_iff_eq, Bool.or_eq_true]
      exact ⟨hrel, hrest⟩
  · exact absurd hw hnl

/-- in the root frame D31 is the shape the specification excuses: the continuation ends the
    caller's input -/
theorem root_rest {s : Str} {J e : Nat} (hJ : J ≤ s.length) (he : e + J ≤ s.length)
    (h : (Tape.ofInput (s.drop J)).line.drop e = ['\n']) :
    s.drop (e + J) = [] ∨ s.drop (e + J) = ['\n'] := by
  have hd : s.drop (e + J) = (s.drop J).drop e := by rw [List.drop_drop, Nat.add_comm]
  rw [hd]
  rcases C13.ofInput_line (s.drop J) with hl | hl
  · rw [hl] at h; exact Or.inr h
  · rw [hl] at h
    have hle : e ≤ (s.drop J).length := by rw [List.length_drop]; omega
    rw [List.drop_append_of_le_length hle] at h
    left
    have := congrArg List.length h
    simp only [List.length_append, List.length_cons, List.length_nil] at this
    exact List.eq_nil_of_length_eq_zero (by omega)

end Bashlex.C04
