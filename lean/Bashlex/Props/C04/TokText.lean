/-
  C04, part 1: the token-text relation `TT` and the statement `TokText` about the token source
  (PROVED in `Props/C04/TokTextProof.lean`, see there for what is proved and what is left).

  `TT line t`: the text of `line` (the tokenizer's `_shell_input_line`: the parser's input plus the
  newline `tokenizer.__init__` appends) under the span of the delivered token `t` is the token's
  spelling, up to line continuations and up to the recorded defect shapes, which are spelled out
  as alternatives (`residues`, `nlOver`):

    * a token with a string value `v` spanning `sl = line[a:e]`:
        `Del sl (v ++ r)`: the value followed by the *residue* `r` is the text with some
        backslash-newline pairs deleted (`TTDel.lean`: the ghost relation of `_getc`; it implies
        `stripContinuations sl = v ++ r` when the value holds no adjacent backslash-newline, and
        `sl = v ++ r` when `sl` holds no line continuation), where `r` is empty, or
          D31      `r = "\"`            and the rest of the line is the final newline
                   (a continuation that ends the input: the backslash is covered),
          D32      `r = "<\"`, `">\"`   and the next character is a newline (word glued to a
                   redirection operator and a continuation: the double unget),
          D31+D32  `r = "<"`, `">"`     and the rest of the line is backslash newline;
        D32 residues only occur after tokens read by `_readtokenword` (recognisable by their
        value: not made of metacharacters only, or a process substitution `<(`…, `>(`…);
    * the NEWLINE token read while here-documents were pending spans the newline *and the bodies*
      (`newline-operator-extended-over-heredoc`): `sl` starts with the newline (in non-strict
      mode at the end of the input the span even ends one past the line: the here-document skip
      `_shell_input_line_index += 1`);
    * a NUMBER token `k`: the stripped text (minus a residue) is a string of digits denoting `k`;
    * the EOF token has no position.
  Values are not longer than the text they span; a token value holding a backslash belongs to a
  WORD / ASSIGNMENT_WORD token; only the value of a NEWLINE token reaches the last character of
  the line.

  CORRECTIONS with respect to the first version of this file (which was validated by evaluation
  only, on a grid without double quotes and parentheses, and is FALSE of the model):
    * the first version had `stripContinuations sl = stripContinuations v ++ r`.  Witness against
      it (checked with `#eval C04.chkInput` on the old definition): the 7-character input
      `"\\\⏎⏎"` (double quote, three backslashes, two newlines, double quote): the WORD value is
      `"\\⏎"` (the third backslash and the first newline are a continuation and are skipped by
      `_getc`); the naive strip of the VALUE removes its `\⏎`, which is not a continuation of the
      text.  Same for `$(\\\⏎⏎)` and `$(cat <<E⏎\\⏎⏎E⏎)`.
    * `wordPathV "<()"` was `false` (a process-substitution word is made of metacharacters
      only); witness `<()<\`: WORD `<()` at (0,4) on the line `<()<\⏎`, residue `<` (D31+D32).
    * `wordPathV []` is `true`: with `ps.regexp` / `ps.dblparen` set (states that the invariant
      does not exclude; unreachable) `_readtokenword` may deliver an empty word: `<\⏎x` gives the
      value `""` spanning `<\`.

  `TokText` says that `token()` delivers only such tokens, from every `Good` state of a parser
  object over `line` (C11's state invariant: the tape holds `line`, cursor inside) with an empty
  `_eol_ungetc_lookahead` slot, and that the slot stays empty.  It is a statement about the
  tokenizer alone.  Validation by evaluation of the model: `Props/C04/Validate.lean`.
-/
import Bashlex.Spec.Tree
import Bashlex.Props.C11.Parse
import Bashlex.Props.C12.Tokens
import Bashlex.Props.C10.Entry
import Bashlex.Props.C04.TTDel

namespace Bashlex.C04
open Bashlex Bashlex.Spec

/-- may a token with this value have been read by `_readtokenword` (reserved words, words) rather
    than returned bare by `_readtoken` (operators: metacharacters and newline only)?  Words made
    of metacharacters only are process substitutions (`<()`); the empty value only occurs with
    `ps.regexp` / `ps.dblparen` set. -/
def wordPathV (v : Str) : Bool :=
  v.isEmpty || !(v.all isBreakChar) || ['<', '('].isPrefixOf v || ['>', '('].isPrefixOf v

/-- what may follow the token's spelling inside its span -/
def residues (wordPath : Bool) (line : Str) (e : Nat) : List Str :=
  [[]] ++ (if line.drop e == ['\n'] then [['\\']] else []) ++
  (if wordPath && line[e]? == some '\n' then [['<', '\\'], ['>', '\\']] else []) ++
  (if wordPath && line.drop e == ['\\', '\n'] then [['<'], ['>']] else [])

/-- text relation between the spanned text `sl`, the value `v` and a residue `r`: the value and
    the residue are the text with some backslash-newline pairs deleted -/
def textRel (sl v r : Str) : Bool := delB sl (v ++ r)

def isWordTy (t : Token) : Bool := t.is .WORD || t.is .ASSIGNMENT_WORD

/-- the NEWLINE token that was extended over here-document bodies -/
def nlOver (t : Token) (v sl : Str) : Bool := t.is .NEWLINE && v == ['\n'] && sl.head? == some '\n'

/-- **the token-text relation** (decidable: it is evaluated on the model in `Validate.lean`) -/
def ttOK (line : Str) (t : Token) : Bool :=
  match t.value, t.pos with
  | .none, none => t.is .EOF
  | .int k, some (a, e) =>
    t.is .NUMBER && a < e && e ≤ line.length &&
    (residues true line e).any fun r =>
      let d := stripContinuations (Str.slice line a e)
      r.length ≤ d.length && d.drop (d.length - r.length) == r &&
      legalNumber (d.take (d.length - r.length)) && digitsToNat (d.take (d.length - r.length)) == k
  | .str v, some (a, e) =>
    !(t.is .NUMBER) && !(t.is .EOF) && t.ttype.isSome && a < e && a + v.length ≤ line.length &&
    (isWordTy t || !v.contains '\\') &&
    ((e ≤ line.length && v.length ≤ e - a && (v == ['\n'] || a + v.length < line.length) &&
        (residues (wordPathV v) line e).any (textRel (Str.slice line a e) v)) ||
      nlOver t v (Str.slice line a e))
  | _, _ => false

def TT (line : Str) (t : Token) : Prop := ttOK line t = true

instance (line : Str) (t : Token) : Decidable (TT line t) := inferInstanceAs (Decidable (_ = true))

/-- **the hypothesis on the token source**.
    `next`: from every `Good` state of a parser object whose tape holds `g.line` and whose
    `_eol_ungetc_lookahead` slot is empty, every token `token()` delivers satisfies `TT g.line`,
    and the slot is empty again.  (With a character in the slot that did not come from the tape
    the relation is plainly false; the slot is written by `_ungetc` only, when the cursor cannot
    move back, and read back by the next `_getc`.)
    `gather`: `gatherheredocuments` (called by `p_simple_list`) leaves an empty slot empty. -/
structure TokText : Prop where
  next : ∀ g, C11.WFG g →
    C11.HT (fun l e => C11.Good g [] l e ∧ l.eolLookahead = none) nextToken
      (fun t l _ => TT g.line t ∧ l.eolLookahead = none) (fun _ => True)
  gather : C10.KeepsEol gatherheredocuments

/-! ## consequences -/

theorem TT.str {line : Str} {t : Token} {v : Str} (h : TT line t) (hv : t.value = .str v) :
    ∃ a e, t.pos = some (a, e) ∧ a < e ∧ a + v.length ≤ line.length ∧
      t.is .NUMBER = false ∧ t.is .EOF = false ∧ t.ttype.isSome = true ∧
      (isWordTy t = true ∨ v.contains '\\' = false) ∧
      ((e ≤ line.length ∧ v.length ≤ e - a ∧ (v = ['\n'] ∨ a + v.length < line.length) ∧
          ∃ r ∈ residues (wordPathV v) line e, textRel (Str.slice line a e) v r = true) ∨
        nlOver t v (Str.slice line a e) = true) := by
  unfold TT ttOK at h
  rw [hv] at h
  cases hp : t.pos with
  | none => rw [hp] at h; simp at h
  | some p =>
    obtain ⟨a, e⟩ := p
    rw [hp] at h
    simp only [Bool.and_eq_true, Bool.or_eq_true, Bool.not_eq_true', decide_eq_true_eq,
      List.any_eq_true] at h
    obtain ⟨⟨⟨⟨⟨⟨h1, h2⟩, h3⟩, h4⟩, h5⟩, h7⟩, h8⟩ := h
    refine ⟨a, e, rfl, h4, h5, h1, h2, h3, ?_, ?_⟩
    · rcases h7 with h7 | h7
      · exact Or.inl h7
      · exact Or.inr h7
    · rcases h8 with ⟨⟨⟨g1, g2⟩, g3⟩, r, hr, hrel⟩ | h8
      · refine Or.inl ⟨g1, g2, ?_, r, hr, hrel⟩
        rcases g3 with g3 | g3
        · exact Or.inl (by simpa using g3)
        · exact Or.inr g3
      · exact Or.inr h8

theorem TT.int {line : Str} {t : Token} {k : Nat} (h : TT line t) (hv : t.value = .int k) :
    t.is .NUMBER = true ∧ ∃ a e, t.pos = some (a, e) ∧ a < e ∧ e ≤ line.length := by
  unfold TT ttOK at h
  rw [hv] at h
  cases hp : t.pos with
  | none => rw [hp] at h; simp at h
  | some p =>
    obtain ⟨a, e⟩ := p
    rw [hp] at h
    simp only [Bool.and_eq_true, decide_eq_true_eq] at h
    exact ⟨h.1.1.1, a, e, rfl, h.1.1.2, h.1.2⟩

theorem TT.none {line : Str} {t : Token} (h : TT line t) (hv : t.value = .none) :
    t.is .EOF = true ∧ t.pos = none := by
  unfold TT ttOK at h
  rw [hv] at h
  cases hp : t.pos with
  | none => rw [hp] at h; exact ⟨h, rfl⟩
  | some p => rw [hp] at h; simp at h

/-- a token that is not NUMBER / EOF has a string value -/
theorem TT.value_str {line : Str} {t : Token} (h : TT line t) (h1 : t.is .NUMBER = false)
    (h2 : t.is .EOF = false) : ∃ v, t.value = .str v := by
  cases hv : t.value with
  | none => rw [(h.none hv).1] at h2; cases h2
  | int k => rw [(h.int hv).1] at h1; cases h1
  | str v => exact ⟨v, rfl⟩

/-- the value of a delivered token is not longer than the rest of the line from its start -/
theorem TT.len {line : Str} {t : Token} (h : TT line t) :
    t.lexpos + t.valueStr.length ≤ line.length := by
  cases hv : t.value with
  | none =>
    have := (h.none hv).2
    simp [Token.lexpos, Token.valueStr, hv, this]
  | int k =>
    obtain ⟨_, a, e, hp, hae, hel⟩ := h.int hv
    simp only [Token.lexpos, Token.valueStr, hv, hp, Option.getD_some, List.length_nil]
    omega
  | str v =>
    obtain ⟨a, e, hp, hae, hlen, _⟩ := h.str hv
    simp only [Token.lexpos, Token.valueStr, hv, hp, Option.getD_some]
    omega

/-- C11's second token fact (`TL`: a backquote of the value sits inside the line) -/
theorem TT.tl {g : C11.Ghost} {t : Token} (h : TT g.line t) : C11.TL g t :=
  C11.tl_of_length h.len

end Bashlex.C04
