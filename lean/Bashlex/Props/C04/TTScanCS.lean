/-
  C04, token text, part 13 (layer D): `_parse_comsub`, one iteration.

  `csA`, `csB`, `csC` are restated (by `rfl`) as a head without tape access and a tail with the
  look-aheads: `csA` = `_getc` + `csArest`; `csB` = `csBhead` + `csBpeek` (one `_getc`, `_ungetc`
  of the look-ahead, possibly `None`); `csC` = `csChead` + `csCtail` (`<<`, `<<-`: two `_getc`,
  one `_ungetc`).  The ghost relation between the cursor and `ret`:
    `Mid L i k ret`     `L[i:k]` spells `ret` (`Sp`), or the state is doomed (`Dm`);
    `Pend L i k ret c`  the same for `ret ++ [c]`, `c` being the character read but not yet
                        appended; in a doomed state `c` is the final newline.
-/
import Bashlex.Props.C04.TTScanMP

namespace Bashlex.C04.TTP
open Bashlex Bashlex.M Bashlex.C10 Bashlex.C11 Bashlex.C03.Tok Bashlex.C04
set_option linter.unusedSimpArgs false
set_option linter.unusedVariables false

/-! ## the model functions, restated -/

def csArest (P : CSParams) (st : CSState) (c : Char) : M (Step CSState) := do
  let mut st := st
  if c == '\n' then
    if st.readingheredocdelim && !st.heredelim.isEmpty then
      st := { st with readingheredocdelim := false, insideheredoc := true,
                      lexfirstind := (st.ret.length : Int) + 1 }
    else if st.insideheredoc then
      if ← csDelimMatches st then st := csEndHeredoc st
      else st := { st with lexfirstind := (st.ret.length : Int) + 1 }
  if st.insideheredoc && c == P.close && st.count == 1 then
    if ← csDelimMatches st then st := csEndHeredoc st
  if st.insidecomment || st.insideheredoc then
    st := { st with ret := st.ret ++ [c] }
    if st.insidecomment && c == '\n' then st := { st with insidecomment := false }
    return .cont st
  if st.passnextchar then
    return .cont { st with passnextchar := false, ret := st.ret ++ [c] }
  return .next st c

theorem csA_eq (P : CSParams) (st : CSState) : csA P st = (do
    let c0 ← getc (P.doublequotes != some '\'' && !st.insidecomment && !st.passnextchar)
    let c ← match c0 with
      | none => matchedPairError P.close
      | some c => pure c
    csArest P st c) := by
  unfold csA csArest
  rfl

def csBpeek (checkcase : Bool) (st : CSState) (c : Char) : M (Step CSState) := do
  let mut st := st
  if !st.reservedwordok && checkcase && !st.insidecomment && ((← shellmeta c) || c == '\n') then
    st := { st with ret := st.ret ++ [c] }
    let peek ← getc true
    if some c == peek && isAndOrSemi c then
      return .cont { st with ret := st.ret ++ [c], reservedwordok := true, lexrwlen := 0 }
    else if c == '\n' || isAndOrSemi c then
      ungetc peek
      return .cont { st with reservedwordok := true, lexrwlen := 0 }
    else
      st := { st with ret := pyDropLastN st.ret 1 }
      ungetc peek
  return .next st c

def csBhead (checkcase : Bool) (st : CSState) (c : Char) : M (Step CSState) := do
  let mut st := st
  if ← shellbreak c then
    st := { st with insideword := false }
  else
    if st.insideword then
      match st.lexwlen with
      | none => M.foreign "UnboundLocalError" "_parse_comsub"
      | some n => st := { st with lexwlen := some (n + 1) }
    else
      st := { st with insideword := true, lexwlen := some 0 }
  if shellblank c && !st.readingheredocdelim && st.lexrwlen == 0 then
    return .cont { st with ret := st.ret ++ [c] }
  if st.readingheredocdelim then
    if st.lexfirstind == -1 && !(← shellbreak c) then
      st := { st with lexfirstind := (st.ret.length : Int) }
    else if st.lexfirstind ≥ 0 && !st.passnextchar && (← shellbreak c) then
      if st.heredelim.isEmpty then
        let nestret := pySliceFromInt st.ret st.lexfirstind
        st := { st with heredelim := removequotes nestret }
      if c == '\n' then
        st := { st with insideheredoc := true, readingheredocdelim := false,
                        lexfirstind := (st.ret.length : Int) + 1 }
      else
        st := { st with lexfirstind := -1 }
  csBpeek checkcase st c

theorem csB_eq (b : Bool) (st : CSState) (c : Char) : csB b st c = csBhead b st c := by
  unfold csB csBhead csBpeek
  rfl

def csCtail (P : CSParams) (checkcase : Bool) (st : CSState) (c : Char) : M (Step CSState) := do
  let checkcomment := checkcase
  let mut st := st
  if !st.insidecomment && checkcase && c == '<' then
    st := { st with ret := st.ret ++ [c] }
    let peek0 ← getc true
    let peek ← match peek0 with
      | none => matchedPairError P.close
      | some p => pure p
    if peek == c then
      st := { st with ret := st.ret ++ [peek] }
      let peek20 ← getc true
      let peek2 ← match peek20 with
        | none => matchedPairError P.close
        | some p => pure p
      if peek2 == '-' then
        st := { st with ret := st.ret ++ [peek2], stripdoc := true }
      else
        ungetc (some peek2)
      if peek2 != '<' then
        st := { st with readingheredocdelim := true, lexfirstind := -1 }
      return .cont st
    else
      return .next st peek
  else if checkcomment && !st.insidecomment && c == '#' then
    let b ← (do
      if st.reservedwordok && st.lexrwlen == 0 then pure true
      else if st.insideword then pure true
      else match st.lexwlen with
        | none => M.foreign "UnboundLocalError" "_parse_comsub"
        | some n => pure (n == 0) : M Bool)
    if b then st := { st with insidecomment := true }
  return .next st c

def csChead (P : CSParams) (checkcase : Bool) (st : CSState) (c : Char) : M (Step CSState) := do
  let checkcomment := checkcase
  let mut st := st
  if st.reservedwordok then
    if isLowerAscii c then
      return .cont { st with ret := st.ret ++ [c], lexrwlen := st.lexrwlen + 1 }
    else if st.lexrwlen == 4 && (← shellbreak c) then
      if pyLastN st.ret 4 == ['c', 'a', 's', 'e'] then st := { st with insidecase := true }
      else if pyLastN st.ret 4 == ['e', 's', 'a', 'c'] then st := { st with insidecase := false }
      st := { st with reservedwordok := false }
    else if checkcomment && c == '#' &&
        (st.lexrwlen == 0 || (st.insideword && st.lexwlen == some 0)) then
      pure ()
    else if !st.insidecase && (shellblank c || c == '\n') && st.lexrwlen == 2 &&
        pyLastN st.ret 2 == ['d', 'o'] then
      st := { st with lexrwlen := 0 }
    else if st.insidecase && c != '\n' then
      st := { st with reservedwordok := false }
    else if !(← shellbreak c) then
      st := { st with reservedwordok := false }
  csCtail P checkcase st c

theorem csC_eq (P : CSParams) (b : Bool) (st : CSState) (c : Char) : csC P b st c = csChead P b st c := by
  unfold csC csChead csCtail
  rfl

/-! ## the ghost relation -/

def Mid (L : Str) (i k : Nat) (ret : Str) : Prop := Sp L i k ret ∨ Dm L k
def Pend (L : Str) (i k : Nat) (ret : Str) (c : Char) : Prop :=
  Sp L i k (ret ++ [c]) ∨ (Dm L k ∧ c = '\n')

/-- result of `csA`, `csB`, `csC` at cursor `k` -/
def PQ (L : Str) (i cnt : Nat) (r : Step CSState) (k : Nat) : Prop :=
  match r with
  | .cont s => Mid L i k s.ret ∧ s.count = cnt
  | .next s c => Pend L i k s.ret c ∧ s.count = cnt ∧ (c ≠ '\n' → k < L.length)
  | .done _ => False

section
variable {L : Str} {ps : List Nat}

theorem Pend.mid {i k : Nat} {ret : Str} {c : Char} (h : Pend L i k ret c) :
    Mid L i k (ret ++ [c]) := by
  rcases h with h | h
  · exact Or.inl h
  · exact Or.inr h.1

theorem mid_getc (hnl : NL L) {rqn : Bool} {i k k' : Nat} {ret : Str} {c : Char}
    (h : Mid L i k ret) (hik : i ≤ k) (hg : GetcR rqn L k k' (some c)) : Pend L i k' ret c := by
  rcases h with h | h
  · exact sp_getc h hik hg
  · exact Or.inr (dm_getc hnl h hg)

theorem mid_back {rqn : Bool} {i k j : Nat} {ret : Str} {x : Option Char} (h : Mid L i k ret)
    (hik : i ≤ k) (hiL : i < L.length) (hkL : k ≤ L.length) (hg : GetcR rqn L k j x) :
    Mid L i (j - 1) ret ∧ 0 < j ∧ i ≤ j - 1 := by
  have hpos : 0 < L.length := by omega
  have hkj := hg.le
  by_cases hk : k < L.length
  · rcases h with h | h
    · obtain ⟨a1, a2, a3, a4⟩ := sp_back h hik hk hg
      exact ⟨Or.inl a1, a2, by omega⟩
    · obtain ⟨a1, a2⟩ := dm_back h hpos hg
      have a1' := a1
      unfold Dm at a1'
      exact ⟨Or.inr a1, a2, by omega⟩
  · have hD : Dm L k := by unfold Dm; omega
    obtain ⟨a1, a2⟩ := dm_back hD hpos hg
    have a1' := a1
    unfold Dm at a1'
    exact ⟨Or.inr a1, a2, by omega⟩

theorem foreign_bind_ht {α β : Type} {I : Local → Env → Prop} {Q : β → Local → Env → Prop}
    {a b : String} {k : α → M β} : HT I ((M.foreign a b : M α) >>= k) Q ET := by
  intro l e _; rw [M.run_bind, C10.run_foreign]; exact True.intro

theorem pyDropLastN_snoc (w : Str) (c : Char) : pyDropLastN (w ++ [c]) 1 = w := by
  unfold pyDropLastN
  simp

/-! ## `csA` -/

abbrev CAR (st : CSState) (c : Char) (r : Step CSState) : Prop :=
  match r with
  | .cont s => s.ret = st.ret ++ [c] ∧ s.count = st.count
  | .next s c' => c' = c ∧ s.ret = st.ret ∧ s.count = st.count
  | .done _ => False

set_option maxHeartbeats 1000000 in
theorem sat_csArest (P : CSParams) (st : CSState) (c : Char) : Sat (csArest P st c) (CAR st c) := by
  unfold csArest
  simp only []
  sat_auto
  all_goals first | exact ⟨rfl, rfl⟩ | exact ⟨rfl, rfl, rfl⟩

theorem k_csArest {k : Nat} (P : CSParams) (st : CSState) (c : Char) :
    KSat L ps k (csArest P st c) := by
  unfold csArest; (try simp only []); w_walk

/-- **`csA`** -/
theorem csA_tt (hnl : NL L) (P : CSParams) (st : CSState) {i k : Nat} (hM : Mid L i k st.ret)
    (hik : i ≤ k) :
    HT (Tp L ps k) (csA P st)
      (fun r l e => ∃ k', (k < k' ∧ PQ L i st.count r k') ∧ Tp L ps k' l e) ET := by
  rw [csA_eq]
  refine getc_bind (fun c0 k' hg => ?_)
  cases c0 with
  | none => simp only []; exact mpe_bind_ht _
  | some c =>
    simp only [pure_bind]
    have hP := mid_getc hnl hM hik hg
    have hkk : k < k' := (hg.char c rfl).1
    have h := HT.and_sat (k_csArest (L := L) (ps := ps) (k := k') P st c) (sat_csArest P st c)
    refine HT.weaken h (fun _ _ h => h) (fun r l e h => ⟨k', ⟨hkk, ?_⟩, h.2.2⟩)
      (fun _ _ => True.intro)
    obtain ⟨hr, _⟩ := h
    cases r with
    | cont s =>
      refine ⟨?_, hr.2⟩
      show Mid L i k' s.ret
      rw [hr.1]; exact hP.mid
    | next s c' =>
      obtain ⟨rfl, h1, h2⟩ := hr
      refine ⟨?_, h2, fun hc => lt_of_some hnl hg hc⟩
      show Pend L i k' s.ret c'
      rw [h1]; exact hP
    | done r => exact hr.elim

/-! ## `csB` -/

set_option maxHeartbeats 1000000 in
/-- the head of `csB` (no tape access): a blank is appended, or the tail is entered with `ret` and
    `count` unchanged -/
theorem csBhead_walk {Q : Step CSState → Local → Env → Prop} (b : Bool) (st : CSState) (c : Char)
    {k : Nat}
    (hcont : ∀ s', s'.ret = st.ret ++ [c] → s'.count = st.count →
      HT (Tp L ps k) (pure (Step.cont s') : M (Step CSState)) Q ET)
    (hpeek : ∀ s', s'.ret = st.ret → s'.count = st.count → HT (Tp L ps k) (csBpeek b s' c) Q ET) :
    HT (Tp L ps k) (csBhead b st c) Q ET := by
  unfold csBhead
  simp only []
  repeat' (first | exact hcont _ rfl rfl | exact hpeek _ rfl rfl | exact foreign_bind_ht | t_step)

/-- the tail of `csB`: the look-ahead for `;;`, `&&`, `||` -/
theorem csBpeek_tt (hnl : NL L) (b : Bool) (st : CSState) (c : Char) {i k : Nat}
    (hP : Pend L i k st.ret c) (hlt : c ≠ '\n' → k < L.length) (hik : i ≤ k) (hiL : i < L.length) :
    HT (Tp L ps k) (csBpeek b st c)
      (fun r l e => ∃ k', (i ≤ k' ∧ PQ L i st.count r k') ∧ Tp L ps k' l e) ET := by
  unfold csBpeek
  simp only []
  refine keep_bind (k_shellmeta c) (fun m _ => ?_)
  refine HT.ite (fun _ => ?_) (fun _ => ?_)
  · refine HT.pre (P := fun l e => k ≤ L.length ∧ Tp L ps k l e) (HT.pre_pure (fun hkL => ?_))
      (fun l e h => ⟨h.2.2.1, h⟩)
    refine getc_bind (fun peek j hg => ?_)
    have hkj := hg.le
    refine HT.ite (fun h1 => ?_) (fun h1 => ?_)
    · -- the doubled operator
      have hpk : peek = some c := by
        simp only [Bool.and_eq_true, beq_iff_eq] at h1
        exact h1.1.symm
      subst hpk
      have := mid_getc hnl hP.mid hik hg
      refine HT.pure (fun l e h => ⟨j, ⟨by omega, ?_, rfl⟩, h⟩)
      exact this.mid
    refine HT.ite (fun h2 => ?_) (fun h2 => ?_)
    · obtain ⟨a1, a2, a3⟩ := mid_back hP.mid hik hiL hkL hg
      refine ungetc_bind a2 ?_
      exact HT.pure (fun l e h => ⟨j - 1, ⟨a3, a1, rfl⟩, h⟩)
    · have hc : c ≠ '\n' := by
        intro hc; apply h2; rw [hc]; rfl
      have hk := hlt hc
      have hsp : Sp L i k (st.ret ++ [c]) := by
        rcases hP with h | h
        · exact h
        · exact absurd h.2 hc
      obtain ⟨a1, a2, a3, a4⟩ := sp_back hsp hik hk hg
      refine ungetc_bind a2 ?_
      refine HT.pure (fun l e h => ⟨j - 1, ⟨by omega, ?_, rfl, fun _ => a4⟩, h⟩)
      show Pend L i (j - 1) (pyDropLastN (st.ret ++ [c]) 1) c
      rw [pyDropLastN_snoc]
      exact Or.inl a1
  · exact HT.pure (fun l e h => ⟨k, ⟨hik, hP, rfl, hlt⟩, h⟩)

/-- **`csB`** -/
theorem csB_tt (hnl : NL L) (b : Bool) (st : CSState) (c : Char) {i k : Nat}
    (hP : Pend L i k st.ret c) (hlt : c ≠ '\n' → k < L.length) (hik : i ≤ k) (hiL : i < L.length) :
    HT (Tp L ps k) (csB b st c)
      (fun r l e => ∃ k', (i ≤ k' ∧ PQ L i st.count r k') ∧ Tp L ps k' l e) ET := by
  rw [csB_eq]
  refine csBhead_walk b st c ?_ ?_
  · intro s' h1 h2
    refine HT.pure (fun l e h => ⟨k, ⟨hik, ?_, h2⟩, h⟩)
    show Mid L i k s'.ret
    rw [h1]; exact hP.mid
  · intro s' h1 h2
    have := csBpeek_tt (ps := ps) hnl b s' c (i := i) (k := k) (by rw [h1]; exact hP) hlt hik hiL
    rw [h2] at this
    exact this

end

end Bashlex.C04.TTP
