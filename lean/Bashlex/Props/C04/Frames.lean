/-
  C04, part 5: the concrete provenance predicate.

  A parser run over the source `src` reads the line `(Tape.ofInput src).line`; the nodes it builds
  from its own tokens live in the *root frame*.  A substitution inside a word token `tok` is
  parsed by a nested parser over a piece `body` of the token's VALUE (`IsBody`), whose nodes are
  shifted to `tok.lexpos + k`: they live in a *nested frame* (`Src.sub`), and so on.  `Frame.cont`
  records whether, on the way down, some enclosing word's value is not a prefix of the text the
  word spans (a line continuation inside the word, D10): then offsets below are offsets into the
  value, not into the source.

  `LeafOK line j m`: the textual node `m` was built from tokens delivered on `line` (`Tk`), its
  span being the tokens' span moved by `j`:
    * reserved word / operator / pipe: one token of a reserved type, span and value
      (or, D19, the `!` of a pipeline built from a `timespec`, at `(j, j)`);
    * redirect: `first` (file-descriptor NUMBER or the operator), `op`, `out`; `type` is the
      operator's value; the output word sits at `out`'s span; unless it is a here-document
      redirect (whose `pos` is read back from the redirect store after `makeheredoc`), the span
      runs from the start of `first` to the end of `out`;
    * word / assignment: the token's span, and C07's `PartsOK` for the parts with respect to the
      VALUE of that same token (substitution parts at explicit offsets into the value).
  `NodeOK src J m`: `m` is `LeafOK` in some frame of `src`, everything moved by `J`.
-/
import Bashlex.Props.C04.Engine
import Bashlex.Props.C04.TokText
import Bashlex.Props.C13.Shift

namespace Bashlex.C04
open Bashlex Bashlex.M Bashlex.Node Bashlex.Spec
set_option linter.unusedSimpArgs false
set_option linter.unusedVariables false

/-- what is known of a token delivered on `line` -/
def Tk (line : Str) (t : Token) : Prop := TT line t ∧ C12.TokWF t

/-- a leaf built from one token of a reserved type -/
def FromTok (line : Str) (j : Nat) (p : Span) (w : Str) : Prop :=
  ∃ tok, Tk line tok ∧ Reserved tok ∧ tok.value = .str w ∧ p = (tok.lexpos + j, tok.endlexpos + j)

def hereTy (ty : Str) : Prop := ty = ['<', '<'] ∨ ty = ['<', '<', '-']

def LeafOK (line : Str) (j : Nat) : Node → Prop
  | .reservedword p w => FromTok line j p w ∨ (p = (j, j) ∧ w = ['!'])
  | .operator p w => FromTok line j p w
  | .pipe p w => FromTok line j p w
  | .redirect p inp ty o oa _ hid =>
    ∃ first op out, Tk line first ∧ Tk line op ∧ Tk line out ∧ ty = op.valueStr ∧
      ((first = op ∧ inp = .none) ∨ inp = redirIn first.value) ∧
      (match o with
       | some w => w.pos = (out.lexpos + j, out.endlexpos + j) ∧ oa = .none
       | none => oa = redirIn out.value) ∧
      (hid = none → ¬ hereTy ty → p = (first.lexpos + j, out.endlexpos + j))
  | .word p _ ps => ∃ tok, Tk line tok ∧ p = (tok.lexpos + j, tok.endlexpos + j) ∧
      ∃ d, C07.PartsOK (C07.RNested d) tok.valueStr (C07.qOf tok) p.1 p.2 ps
  | .assignment p _ ps => ∃ tok, Tk line tok ∧ p = (tok.lexpos + j, tok.endlexpos + j) ∧
      ∃ d, C07.PartsOK (C07.RNested d) tok.valueStr (C07.qOf tok) p.1 p.2 ps
  | _ => True

/-- the text a nested parser runs over: a piece of the token value `v`, at offset `k` -/
def IsBody (v body : Str) (k : Nat) : Prop := ∃ rest, v.drop k = body ++ rest

/-- the value of `tok` is a prefix of the text it spans -/
def faithful (line : Str) (tok : Token) : Bool :=
  tok.valueStr.isPrefixOf (Str.slice line tok.lexpos tok.endlexpos)

structure Frame where
  /-- the tokenizer's line of the parser run -/
  line : Str
  /-- where the run's input starts, in the coordinates of the outermost run -/
  off : Nat
  /-- where it ends (`off` + length of the run's input) -/
  lim : Nat
  /-- some enclosing word's value is not a prefix of its source text -/
  cont : Bool
  nested : Bool

/-- the frames of a parser run over `src` -/
inductive Src (src : Str) : Frame → Prop
  | root : Src src ⟨(Tape.ofInput src).line, 0, src.length, false, false⟩
  | sub {fr fr' : Frame} {tok : Token} {body : Str} {k : Nat} : Src src fr → Tk fr.line tok →
      IsBody tok.valueStr body k → tok.valueStr ≠ ['\n'] →
      fr'.line = (Tape.ofInput body).line → fr'.off = fr.off + tok.lexpos + k →
      fr'.lim = fr.off + tok.lexpos + k + body.length →
      fr'.cont = (fr.cont || !faithful fr.line tok) → fr'.nested = true → Src src fr'

/-- the node ends at or before `lim` (not claimed for a here-document redirect, whose `pos` is
    rewritten by `makeheredoc`) -/
def EndsBy (lim : Nat) : Node → Prop
  | .redirect p _ ty _ _ _ _ => hereTy ty ∨ p.2 ≤ lim
  | m => m.pos.2 ≤ lim

theorem endsBy_of_le {lim : Nat} {m : Node} (h : m.pos.2 ≤ lim) : EndsBy lim m := by
  cases m <;> first | exact Or.inr h | exact h

theorem EndsBy.shift {lim : Nat} {m : Node} (h : EndsBy lim m) (k : Nat) :
    EndsBy (lim + k) (m.shift k) := by
  cases m with
  | redirect p i t o oa hd hid =>
    simp only [Node.shift, Node.mapPos, EndsBy] at h ⊢
    rcases h with h | h
    · exact Or.inl h
    · exact Or.inr (by omega)
  | _ =>
    simp only [Node.shift, Node.mapPos, EndsBy, Node.pos] at h ⊢
    omega

def NodeOK (src : Str) (J : Nat) (m : Node) : Prop :=
  ∃ fr, Src src fr ∧ LeafOK fr.line (fr.off + J) m ∧ (fr.nested = true → EndsBy (fr.lim + J) m)

/-- all nodes (pre-order): provenance in some frame -/
def deepP (src : Str) (J : Nat) : Pred := ⟨true, NodeOK src J⟩
/-- the spine (words are leaves): provenance in the root frame, i.e. from tokens of the running
    parser itself, delivered on `line` -/
def spineP (line : Str) (J : Nat) : Pred := ⟨false, LeafOK line J⟩

/-- the provenance invariant of a tree built by a parser run over `src` -/
abbrev Tree4 (src : Str) (J : Nat) (n : Node) : Prop := G (deepP src J) n
/-- the same for the nodes the running parser built itself -/
abbrev Spine4 (line : Str) (J : Nat) (n : Node) : Prop := G (spineP line J) n

/-! ## moving nodes -/

theorem LeafOK.shift {line : Str} {j : Nat} {m : Node} (h : LeafOK line j m) (k : Nat) :
    LeafOK line (j + k) (m.shift k) := by
  cases m with
  | reservedword p w =>
    simp only [Node.shift, Node.mapPos, LeafOK] at h ⊢
    rcases h with ⟨tok, h1, h2, h3, rfl⟩ | ⟨rfl, rfl⟩
    · exact Or.inl ⟨tok, h1, h2, h3, by simp [Nat.add_assoc]⟩
    · exact Or.inr ⟨rfl, rfl⟩
  | operator p w =>
    simp only [Node.shift, Node.mapPos, LeafOK] at h ⊢
    obtain ⟨tok, h1, h2, h3, rfl⟩ := h
    exact ⟨tok, h1, h2, h3, by simp [Nat.add_assoc]⟩
  | pipe p w =>
    simp only [Node.shift, Node.mapPos, LeafOK] at h ⊢
    obtain ⟨tok, h1, h2, h3, rfl⟩ := h
    exact ⟨tok, h1, h2, h3, by simp [Nat.add_assoc]⟩
  | redirect p inp ty o oa hd hid =>
    simp only [Node.shift, Node.mapPos, LeafOK] at h ⊢
    obtain ⟨first, op, out, h1, h2, h3, h4, h5, h6, h7⟩ := h
    refine ⟨first, op, out, h1, h2, h3, h4, h5, ?_, ?_⟩
    · cases o with
      | none => simpa [Node.mapPosO] using h6
      | some w =>
        simp only [Node.mapPosO] at h6 ⊢
        refine ⟨?_, h6.2⟩
        rw [Node.pos_mapPos, h6.1]
        simp [Nat.add_assoc]
    · intro hh ht
      rw [h7 hh ht]
      simp [Nat.add_assoc]
  | word p w ps =>
    simp only [Node.shift, Node.mapPos, LeafOK] at h ⊢
    obtain ⟨tok, h1, rfl, d, hp⟩ := h
    refine ⟨tok, h1, by simp [Nat.add_assoc], d, ?_⟩
    rw [Node.mapPosL_eq_map]
    exact hp.shift k
  | assignment p w ps =>
    simp only [Node.shift, Node.mapPos, LeafOK] at h ⊢
    obtain ⟨tok, h1, rfl, d, hp⟩ := h
    refine ⟨tok, h1, by simp [Nat.add_assoc], d, ?_⟩
    rw [Node.mapPosL_eq_map]
    exact hp.shift k
  | _ => simp [Node.shift, Node.mapPos, LeafOK]

theorem NodeOK.shift {src : Str} {J : Nat} {m : Node} (h : NodeOK src J m) (k : Nat) :
    NodeOK src (J + k) (m.shift k) := by
  obtain ⟨fr, hs, hl, hb⟩ := h
  refine ⟨fr, hs, ?_, ?_⟩
  · have := hl.shift k
    simpa [Nat.add_assoc] using this
  · intro hn
    have := (hb hn).shift k
    simpa [Nat.add_assoc] using this

theorem isTextual_shift (j : Nat) (w : Node) : isTextual (w.shift j) = isTextual w := by
  cases w <;> simp [Node.shift, Node.mapPos, isTextual]

mutual
theorem spine_mapPos_eq (f : Span → Span) : ∀ n : Node,
    spine (mapPos f n) = (spine n).map (mapPos f)
  | .operator .. | .reservedword .. | .pipe .. | .parameter .. | .tilde .. | .heredoc ..
  | .word .. | .assignment .. => by
    simp [mapPos, spine]
  | .list _ ps | .pipeline _ ps | .ifN _ ps | .forN _ ps | .whileN _ ps | .untilN _ ps
  | .caseN _ ps | .pattern _ ps | .command _ ps | .unimplemented _ ps | .function _ _ _ ps => by
    simp [mapPos, spine, spineL_mapPos_eq f ps]
  | .compound _ l r => by
    simp [mapPos, spine, spineL_mapPos_eq f l, spineL_mapPos_eq f r]
  | .redirect _ _ _ o _ h _ => by
    simp [mapPos, spine, spineO_mapPos_eq f o, spineO_mapPos_eq f h]
  | .commandsubstitution _ c | .processsubstitution _ c => by
    simp [mapPos, spine, spine_mapPos_eq f c]
theorem spineL_mapPos_eq (f : Span → Span) : ∀ l : List Node,
    spineL (mapPosL f l) = (spineL l).map (mapPos f)
  | [] => rfl
  | n :: ns => by simp [mapPosL, spineL, spine_mapPos_eq f n, spineL_mapPos_eq f ns]
theorem spineO_mapPos_eq (f : Span → Span) : ∀ o : Option Node,
    spineO (mapPosO f o) = (spineO o).map (mapPos f)
  | none => rfl
  | some n => by simp [mapPosO, spineO, spine_mapPos_eq f n]
end

theorem nodesOf_mapPos (deep : Bool) (f : Span → Span) (n : Node) :
    nodesOf deep (mapPos f n) = (nodesOf deep n).map (mapPos f) := by
  cases deep with
  | true => simp only [nodesOf, if_true]; exact Node.preorder_mapPos_eq f n
  | false => simp only [nodesOf, Bool.false_eq_true, if_false]; exact spine_mapPos_eq f n

theorem G_shift {W W' : Pred} {j : Nat} (hd : W'.deep = W.deep)
    (hW : ∀ w, W w → W' (Node.shift j w)) {n : Node} (hn : G W n) : G W' (n.shift j) := by
  intro w hw hww
  rw [hd, Node.shift, nodesOf_mapPos] at hw
  obtain ⟨w0, hw0, rfl⟩ := List.mem_map.mp hw
  have hww' : isTextual w0 = true := by
    have := isTextual_shift j w0
    rw [Node.shift] at this; rw [← this]; exact hww
  exact hW w0 (hn w0 hw0 hww')

theorem Tree4.shift {src : Str} {J : Nat} {n : Node} (h : Tree4 src J n) (k : Nat) :
    Tree4 src (J + k) (n.shift k) :=
  G_shift (W := deepP src J) (W' := deepP src (J + k)) rfl (fun w hw => NodeOK.shift hw k) h

theorem Spine4.shift {line : Str} {J : Nat} {n : Node} (h : Spine4 line J n) (k : Nat) :
    Spine4 line (J + k) (n.shift k) :=
  G_shift (W := spineP line J) (W' := spineP line (J + k)) rfl (fun w hw => LeafOK.shift hw k) h

/-! ## composing frames -/

/-- a frame of a run over `body`, seen from the run over `src` one of whose word tokens holds
    `body` (frame `frA` of `src`) -/
theorem Src.trans {src body : Str} {frA : Frame} (hA : Src src frA)
    (hline : frA.line = (Tape.ofInput body).line) (hlim : frA.lim = frA.off + body.length)
    (hnest : frA.nested = true) {fr : Frame} (h : Src body fr) :
    ∃ fr', Src src fr' ∧ fr'.line = fr.line ∧ fr'.off = fr.off + frA.off ∧
      fr'.lim = fr.lim + frA.off ∧ fr'.nested = true := by
  induction h with
  | root =>
    refine ⟨frA, hA, hline, by simp, ?_, hnest⟩
    rw [hlim]; simp only []; omega
  | @sub fr0 fr1 tok b k h0 hT hB hne e1 e2 e3 e4 e5 ih =>
    obtain ⟨fr0', hs0, l0, o0, m0, n0⟩ := ih
    refine ⟨⟨fr1.line, fr1.off + frA.off, fr1.lim + frA.off,
      (fr0'.cont || !faithful fr0'.line tok), true⟩, ?_, rfl, rfl, rfl, rfl⟩
    refine Src.sub hs0 (by rw [l0]; exact hT) hB hne e1 ?_ ?_ ?_ rfl
    · simp only []; rw [e2, o0]; omega
    · simp only []; rw [e3, o0]; omega
    · simp only []

/-- a node of the tree a nested parser returned for the piece `body` of the value of the word
    token `tok` of the run over `src`, moved to its place -/
theorem NodeOK.sub {src body : Str} {tok : Token} {k : Nat}
    (hT : Tk (Tape.ofInput src).line tok) (hB : IsBody tok.valueStr body k)
    (hne : tok.valueStr ≠ ['\n']) {m : Node} (h : NodeOK body 0 m) (hfit : m.pos.2 ≤ body.length) :
    NodeOK src 0 (m.shift (tok.lexpos + k)) := by
  obtain ⟨fr, hs, hl, hb⟩ := h
  let frA : Frame := ⟨(Tape.ofInput body).line, 0 + tok.lexpos + k, 0 + tok.lexpos + k + body.length,
    (false || !faithful (Tape.ofInput src).line tok), true⟩
  have hA : Src src frA := Src.sub Src.root hT hB hne rfl rfl rfl rfl rfl
  obtain ⟨fr', hs', l', o', m', n'⟩ := Src.trans hA rfl (by simp [frA]) rfl hs
  refine ⟨fr', hs', ?_, ?_⟩
  · have := hl.shift (tok.lexpos + k)
    rw [l', o']
    simp only [frA, Nat.add_zero, Nat.zero_add] at this ⊢
    exact this
  · intro _
    rw [m']
    simp only [frA, Nat.add_zero, Nat.zero_add]
    cases hn : fr.nested with
    | true =>
      have := (hb hn).shift (tok.lexpos + k)
      simpa using this
    | false =>
      -- the root frame of the nested run: its limit is the length of the body
      cases hs with
      | root =>
        have := (endsBy_of_le hfit).shift (tok.lexpos + k)
        simpa using this
      | sub _ _ _ _ _ _ _ _ e5 => rw [e5] at hn; cases hn

end Bashlex.C04
