/-
  C14 — "layout only moves spans": translation invariance of ONE parser run, at model level, and
  the missing piece of C13 (`BlankSkip`).

  ## Result

  **`runParser_shift`**: let `pre` be a string of blanks, tabs and newlines, `B` any input other
  than `""` and `"\n"`, `proceedonerror` off, and suppose the run on `pre ++ B` does not run out
  of (model) fuel.  Then one parser run on `pre ++ B` ends like one parser run on `B`, moved by
  `|pre|` (`RunRel pre`):
    * both return no node, or the run on `B` returns the node `n` and the run on `pre ++ B`
      returns `n.shift |pre|` (every span of every node of the tree moved; kinds, words, order
      unchanged);
    * or both raise: the same exception, except that a `ParsingError m src p` raised by the
      TOP-LEVEL parser (its `src` is the source of the tape) becomes
      `ParsingError m (pre ++ src) (p + |pre|)`; `ParsingError`s raised by nested parsers (their
      `src` is the text of the substitution) and all other exceptions are identical.
  Corollaries: `runParser_shift_ok`, `blankSkip_run` (the clause `run` of `C13.BlankSkip`),
  `BlankSkip_conditional` (all of `BlankSkip`, given its clause `pos`), `C13_partial_blank`.

  ## How (files of `Props/C14/`)

  * `Rel.lean`, `Access.lean`, `Walk.lean`: a relational Hoare logic for two runs of an `M`
    program (`Sim pre top n n' m₁ m₂ V`), one lemma per tape accessor, a walker `rel_walk` (with
    join-point handling `rel_jp`) for programs run on equal inputs in related states.
  * `Pair.lean`, `Heredoc.lean`, `Word.lean`, `Finish.lean`, `Token.lean`: the walk through the
    WHOLE tokenizer: `readline`, `makeheredoc`, `gatherheredocuments`, `mpInit`, `mpPre`,
    `handledollarword`, `mpPost`, `csDelimMatches`, `csA`–`csD`, `csPre`, `csPost`,
    `parseMatchedPair`, `parseComsub`, `isAssignment`, `specialcasetokens`, `handleshellquote`,
    `handleshellexp`, `readtokenwordStep`, `finishWord`, `readtokenword`, `discardUntil`,
    `tokentypeOfChar`, `readtokenMeta`, `readtoken`, `nextToken` (`sim_nextToken`), plus
    `getc`, `ungetc`, `peekc`, `curIdx`, `bumpIdx`, `tapeLine`, `tapeSource`, `tapeAdded`,
    `optStrict`, `optProceed`, `syn`/`shell*`, `recordpos`, `createtoken`, `matchedPairError`,
    the delimiter stack.
  * `ActBase.lean`, `ActSample.lean`, `Act1.lean`, `Act2.lean`, `Expand.lean`, `Actions.lean`: all
    39 action functions of `Model/Actions.lean` and word expansion (`Model/Subst.lean`).
  * `Engine.lean`: the LR engine (`step`, `doReduce`, `run`), nested parsers, `resolve`,
    `parserRun` at every nesting depth (`sim_parserRun`).
  * `Prefix.lean`: consuming the prefix (`consume`).

  ## Exclusions (each needed)

  * `o.proceed = false` — defect D19: with `proceedonerror` the unsupported `time` prefix becomes
    `reservedword (0,0) "!"` with a CONSTANT span: `p_pipeline_command` builds it from
    `p.lexspan 1`, and position 1 holds the YaccSymbol of `timespec`, not a token
    (`getattr(sym, 'lexpos', 0)`).  Witness (kernel-checked below, `D19_witness`):
    `B = "time a"`, `pre = "\n"`: the run on `B` returns
    `pipeline (0,6) [reservedword (0,0) "!", command (5,6) …]`, the run on `"\ntime a"` returns
    `pipeline (0,7) [reservedword (0,0) "!", command (6,7) …]` — not the shift
    `pipeline (1,7) [reservedword (1,1) "!", command (6,7) …]`.
    With `proceedonerror` off, `p_timespec` raises and no `timespec` value ever sits on the stack;
    for all other productions the kernel checks on the generated grammar that the action is
    `shiftSafe` (`Engine.shiftSafe_ok`).  (`o.proceed = false` is stronger than necessary: an input
    without a TIME token would do; not proved.)
  * `2 ≤ len(tape of B)`, i.e. `B ∉ {"", "\n"}` — a proof artefact (the level discipline of the
    relational logic uses that the end of the first tape is at index ≥ 2); for both inputs the
    conclusion holds on every `pre` tried (`#eval`: both runs return no node).
  * the run on `pre ++ B` does not run out of fuel — a model artefact: the model's loops carry
    2^30 fuel; skipping the prefix costs one iteration of the loop at the head of `_readtoken` per
    blank and one iteration of the engine loop per newline, so for astronomically long inputs the
    longer run could hit the bound first.
  * comments (`# …⏎`) in `pre` are NOT covered (`BlankNL`: blank, tab, newline only).

  ## Observations
  * The token history (`_last_read_token`, …) of the run on `pre ++ B` holds NEWLINE tokens where
    the run on `B` holds the placeholder `token(None, None)`: every reader of the history
    (`_reserved_word_acceptable`, `_command_token_position`, `_assignment_acceptable`,
    `_specialcasetokens`, the `tok.ttype ==` tests, `p_simple_list`'s eof-token test) answers
    the same for both (`HEq`, `Neutral`; no finding).
  * Error positions: `runParser ")"` raises `ParsingError "unexpected token ')'" ")" 0`,
    `runParser " ⏎)"` raises `… " ⏎)" 2` (top-level: moved); `runParser "$(a |)"` and
    `runParser "⏎ $(a |)"` both raise `… "a |)" 3` (nested parser: identical).
-/
import Bashlex.Props.C14.Prefix
import Bashlex.Props.C13

namespace Bashlex.C14
open Bashlex Bashlex.C10 Bashlex.C12 Bashlex.LR
set_option linter.unusedSimpArgs false
set_option linter.unusedVariables false

/-! ## the tape of `pre ++ B` -/

theorem getLast?_append_ne_nil {α : Type} (a : List α) {b : List α} (hb : b ≠ []) :
    (a ++ b).getLast? = b.getLast? := by
  rw [List.getLast?_append]
  cases h : b.getLast? with
  | none => exact absurd (List.getLast?_eq_none_iff.1 h) hb
  | some c => rfl

theorem ofInput_append (pre B : Str) (hB : B ≠ []) :
    Tape.ofInput (pre ++ B) =
      { line := pre ++ (Tape.ofInput B).line, idx := 0, added := (Tape.ofInput B).added } := by
  unfold Tape.ofInput
  rw [getLast?_append_ne_nil pre hB]
  cases h : B.getLast? with
  | none => exact absurd (List.getLast?_eq_none_iff.1 h) hB
  | some c =>
    simp only []
    split
    · rfl
    · simp only [List.append_assoc]

theorem ofInput_idx (s : Str) : (Tape.ofInput s).idx = 0 := by
  unfold Tape.ofInput
  split
  · rfl
  · split <;> rfl

/-! ## the theorem -/

/-- the environment of `runParser s o t` -/
def envOf (s : Str) (o : Opts) (t : List Char) : Env :=
  { tape := Tape.ofInput s, strict := o.strict, proceed := o.proceed, touched := t }

theorem runParser_fst (s : Str) (o : Opts) (t : List Char) :
    (runParser s o t).1 = resOf (M.run (parserRun maxDepth) (initL o.limit) (envOf s o t)) := rfl

/-- **C14, one parser run**: see the header -/
theorem runParser_shift (pre B : Str) (o : Opts) (t : List Char) (hpre : BlankNL pre)
    (hB : 2 ≤ (Tape.ofInput B).line.length) (hproc : o.proceed = false)
    (hfuel : ∀ site, (runParser (pre ++ B) o t).1 ≠ .error (.outOfFuel site)) :
    RunRel pre (runParser B o t).1 (runParser (pre ++ B) o t).1 := by
  have hBne : B ≠ [] := by
    intro h; subst h
    simp [Tape.ofInput] at hB
  rw [runParser_fst, runParser_fst]
  have hmax : maxDepth = 63 + 1 := rfl
  rw [hmax]
  -- the run on `pre ++ B` from cursor 0 ends like the run from cursor `|pre|`
  have hoof : ¬ IsOOF (M.run (parserRun (63 + 1)) (initL o.limit) (envOf (pre ++ B) o t)) := by
    rw [isOOF_iff_resOf]
    rintro ⟨site, h⟩
    exact hfuel site (by rw [runParser_fst, hmax]; exact h)
  have hcons := consume 63 pre (Tape.ofInput B).line (Tape.ofInput B).added o.limit hB hpre
    pre.length 0 (by omega) 1073741824 {} (initL o.limit) (envOf (pre ++ B) o t) ⟨rfl, rfl⟩
    (by
      exact { tape := rfl, opts := rfl, eol := rfl, before := HEq.refl _, last := HEq.refl _
              cur := HEq.refl _, curFlags := rfl, ps := rfl, obc := rfl, esacs := rfl
              dstack := rfl, positions := rfl, eofToken := rfl, eofOK := Or.inl rfl
              redirstack := rfl, store := rfl, limit := rfl })
    (by simp only [envOf]; exact ofInput_append pre B hBne) hproc (Nat.le_refl _)
    (by rw [← parserRun_succ']; exact hoof)
  rw [parserRun_succ' 63, hcons, ← parserRun_succ' 63]
  -- the main relational theorem, from the start of `B` and from behind the prefix
  refine runRel_of_outRel (n' := 0) ?_
  refine sim_parserRun actionsHyp (63 + 1) true _ _ _ _ ?_
  exact
    { env := ⟨⟨by simp only [envAt, envOf]; rw [ofInput_append pre B hBne],
                by simp only [envAt, envOf]; rw [ofInput_idx]; omega,
                by simp only [envAt, envOf]; rw [ofInput_append pre B hBne], hB⟩, rfl, rfl, rfl⟩
      loc := { tape := rfl, opts := rfl, eol := rfl, before := HEq.refl _, last := HEq.refl _
               cur := HEq.refl _, curFlags := rfl, ps := rfl, obc := rfl, esacs := rfl
               dstack := rfl, positions := rfl, eofToken := rfl, eofOK := Or.inl rfl
               redirstack := rfl, store := rfl, limit := rfl }
      mode := rfl
      room := fun _ => Room.zero _
      eolOK := fun _ h => by cases h
      proc := hproc }

/-- … when the run on `B` returns normally: the run on `pre ++ B` returns the moved result -/
theorem runParser_shift_ok (pre B : Str) (o : Opts) (t : List Char) (hpre : BlankNL pre)
    (hB : 2 ≤ (Tape.ofInput B).line.length) (hproc : o.proceed = false)
    (hfuel : ∀ site, (runParser (pre ++ B) o t).1 ≠ .error (.outOfFuel site))
    (r : Option Node) (hr : (runParser B o t).1 = .ok r) :
    (runParser (pre ++ B) o t).1 = .ok (r.map (Node.shift pre.length)) := by
  have h := runParser_shift pre B o t hpre hB hproc hfuel
  rw [hr] at h
  cases h2 : (runParser (pre ++ B) o t).1 with
  | error x => rw [h2] at h; exact h.elim
  | ok b =>
    rw [h2] at h
    have : b = r.map (Node.shift pre.length) := h
    rw [this]

/-- the clause `run` of `C13.BlankSkip` -/
theorem blankSkip_run (pre B : Str) (o : Opts) (hpre : BlankNL pre)
    (hB : 2 ≤ (Tape.ofInput B).line.length) (hproc : o.proceed = false)
    (hfuel : ∀ site, (runParser (pre ++ B) o []).1 ≠ .error (.outOfFuel site))
    (r : Option Node) (hr : (runParser B o []).1 = .ok r) :
    (runParser (pre ++ B) o []).1 =
      (runParser B o []).1.map (fun n => n.map (Node.shift pre.length)) := by
  rw [runParser_shift_ok pre B o [] hpre hB hproc hfuel r hr, hr]
  rfl

/-- **`C13.BlankSkip`**, for a prefix of blanks and newlines, given its clause `pos` (the first
    part of `B` does not end at 0; the only parts with `nextIndex = 0` known are the `time`
    nodes of D19, which need `proceedonerror`) -/
theorem BlankSkip_conditional (pre B : Str) (o : Opts) (hpre : BlankNL pre)
    (hB : 2 ≤ (Tape.ofInput B).line.length) (hproc : o.proceed = false)
    (hfuel : ∀ site, (runParser (pre ++ B) o []).1 ≠ .error (.outOfFuel site))
    (r : Option Node) (hr : (runParser B o []).1 = .ok r)
    (hpos : pre = [] ∨ ∀ part, r = some part → 0 < nextIndex part) :
    C13.BlankSkip pre B o :=
  ⟨blankSkip_run pre B o hpre hB hproc hfuel r hr, by
    rcases hpos with h | h
    · exact .inl h
    · refine .inr (fun part hp => h part ?_)
      rw [hr] at hp
      cases hp; rfl⟩

/-- the prefix left over by `parse A` inside `A ++ sep` is made of blanks and newlines when `sep`
    is, and `parse A` stopped at the end of `A` or later -/
theorem blankNL_drop {A sep : Str} {j : Nat} (hsep : BlankNL sep) (hj : A.length ≤ j) :
    BlankNL ((A ++ sep).drop j) := by
  intro c hc
  have : (A ++ sep).drop j = sep.drop (j - A.length) := by
    rw [List.drop_append, List.drop_eq_nil_of_le hj, List.nil_append]
  rw [this] at hc
  exact hsep c (List.mem_of_mem_drop hc)

/-- **C13 for a blank separator, without the hypothesis `BlankSkip.run`**: if `parse A = psA`,
    `parse B = psB`, `A`'s runs are local, the loop of `parse A` stopped at the end of `A`
    (or inside `sep`), `sep` is made of blanks and newlines (starting with a newline, or `A`
    ends in one: `Joinable`), `proceedonerror` is off, `B ∉ {"", "⏎"}`, the first part of `B`
    does not end at 0, and the first run on the remaining text does not run out of fuel, then
    `parse (A ++ sep ++ B) = parse A ++ shift (len A + len sep) (parse B)`. -/
theorem C13_partial_blank (A sep B : Str) (o : Opts) (psA psB : List Node)
    (hj : C13.Joinable A (sep ++ B))
    (hA : (parse A o).1 = .parts psA) (hB : (parse B o).1 = .parts psB)
    (hloc : C13.parseLocal A o = true)
    (hstop : C13.parseStop A o ≤ (A ++ sep).length) (hstop' : A.length ≤ C13.parseStop A o)
    (hsep : BlankNL sep) (hproc : o.proceed = false)
    (hB2 : 2 ≤ (Tape.ofInput B).line.length)
    (hfuel : ∀ site, (runParser ((A ++ sep).drop (C13.parseStop A o) ++ B) o []).1 ≠
      .error (.outOfFuel site))
    (hpos : ∀ part, (runParser B o []).1 = .ok (some part) → 0 < nextIndex part) :
    (parse (A ++ sep ++ B) o).1 =
      .parts (psA ++ psB.map (Node.shift (A.length + sep.length))) := by
  refine C13.C13_partial_conditional A sep B o psA psB hj hA hB hloc hstop ?_
  -- `parse B` returned parts, so the first run on `B` returned normally
  cases hr : (runParser B o []).1 with
  | error x =>
    exfalso
    unfold parse at hB
    rcases hrun : runParser B o [] with ⟨r, t⟩
    rw [hrun] at hr hB
    simp only [] at hr
    subst hr
    simp only [] at hB
    cases hB
  | ok r =>
    exact BlankSkip_conditional _ B o (blankNL_drop hsep hstop') hB2 hproc hfuel r hr
      (.inr (fun part hp => hpos part (by rw [hr, hp])))

/-! ## the witness of D19 (kernel evaluation) -/

/-- `"time a"` -/
def Btime : Str := ['t', 'i', 'm', 'e', ' ', 'a']

/-- with `proceedonerror`, the run on `"⏎time a"` is NOT the run on `"time a"` moved by 1
    (`C13.blankSkipB` checks `BlankSkip`, whose clause `run` is the conclusion of
    `blankSkip_run`) -/
theorem D19_witness : C13.blankSkipB ['\n'] Btime { proceed := true } = false := by
  decide +kernel

/-- … and without `proceedonerror` both runs raise `NotImplementedError` -/
theorem D19_off : (runParser Btime {} []).1 = .error (.notImplemented "time command") ∧
    (runParser ('\n' :: Btime) {} []).1 = .error (.notImplemented "time command") :=
  ⟨eq_of_runResBeq (by decide +kernel), eq_of_runResBeq (by decide +kernel)⟩

/-! ## non-vacuity: the hypotheses hold on a concrete input -/

/-- `⏎ ␣` in front of `c | d` (the hypotheses are decided by the kernel; the conclusion is the
    theorem's) -/
theorem example_shift :
    (runParser (['\n', ' '] ++ C13.Examples.B1) {} []).1 =
      .ok ((C13.Examples.psB1.head?).map (Node.shift 2)) := by
  have hr : (runParser C13.Examples.B1 {} []).1 = .ok C13.Examples.psB1.head? :=
    eq_of_runResBeq (by decide +kernel)
  have hne : ∀ site, (runParser (['\n', ' '] ++ C13.Examples.B1) {} []).1 ≠
      .error (.outOfFuel site) := by
    intro site h
    have : runResBeq (runParser (['\n', ' '] ++ C13.Examples.B1) {} []).1
        (.error (.outOfFuel site)) = false := by
      generalize (Exn.outOfFuel site) = x
      revert x
      have hk : ∃ v, (runParser (['\n', ' '] ++ C13.Examples.B1) {} []).1 = .ok v := by
        cases hv : (runParser (['\n', ' '] ++ C13.Examples.B1) {} []).1 with
        | ok v => exact ⟨v, rfl⟩
        | error y =>
          exfalso
          have : (match (runParser (['\n', ' '] ++ C13.Examples.B1) {} []).1 with
            | .ok _ => true | .error _ => false) = true := by decide +kernel
          rw [hv] at this
          cases this
      obtain ⟨v, hv⟩ := hk
      intro x; rw [hv]; rfl
    rw [h] at this
    simp [runResBeq] at this
  exact runParser_shift_ok ['\n', ' '] C13.Examples.B1 {} []
    (by intro c hc; simp at hc; rcases hc with rfl | rfl <;> simp)
    (by decide) rfl hne _ hr

end Bashlex.C14

/-! ## Axioms -/
#print axioms Bashlex.C14.sim_nextToken
#print axioms Bashlex.C14.expRel_of_npRel
#print axioms Bashlex.C14.actionsHyp
#print axioms Bashlex.C14.shiftSafe_ok
#print axioms Bashlex.C14.sim_parserRun
#print axioms Bashlex.C14.consume
#print axioms Bashlex.C14.runParser_shift
#print axioms Bashlex.C14.runParser_shift_ok
#print axioms Bashlex.C14.blankSkip_run
#print axioms Bashlex.C14.BlankSkip_conditional
#print axioms Bashlex.C14.C13_partial_blank
#print axioms Bashlex.C14.D19_witness
#print axioms Bashlex.C14.example_shift
