/-
  Property C01 ("disciplined totality"), tightened: `C01_partial_tight`, `C01_partial_single_tight`,
  `C01_partial_split_tight` -- `C01_partial` with smaller lists, for every input and all options.

  `Props/C01.lean` lists 14 raise sites of the tokenizer as "not analysed for reachability"
  (`tokForeign`).  ALL FOURTEEN are excluded here (`tokForeignTight = []`):
    (1) seven from facts about the PARAMETERS and LOOP STATES of the tokenizer's functions alone
        (state-agnostic logic `Sat`; `t1_nextToken`, `t1_gatherheredocuments`; `Props/C01/TightExn.lean`,
        `TightTok.lean`, `TightMP.lean`, `TightWord.lean`):
          TypeError|_parse_matched_pair        `parsingcommand` is passed only with a string `doublequotes` (`MPOK.pc`)
          UnboundLocalError|handledollarword   `open == close` only for quote characters, `arraysub` is never passed
          AssertionError|handledollarword      the callers test `c in '({['`
          IndexError|_parse_comsub             inside a here-document `lexfirstind ≥ 0` (`CSInv`)
          UnboundLocalError|_parse_comsub      inside a word `lexwlen` is bound, and `#` does not break a word
          TypeError|_readtokenword             `d['compound_assignment']` is never set
          ValueError|_readtoken                `tokentype(c)` is called on newline, `-` and meta characters only
    (2) two that depend on the state but are excluded LOCALLY, from whatever state `token()` is entered in
        (state-aware logic `HT` of C11, invariant `PD n d`; `sat2_nextToken`; `TightState*.lean`):
          AssertionError|_createtoken          two positions are recorded before two are popped
          IndexError|_pop_delimiter            every pop follows a push with a balanced scan in between
    (3) two with an invariant of the whole parser object (`KI`: the line never ends in a backslash, the ids
        on `redirstack` are in the redirect store), carried through the tokenizer, word expansion, ALL
        semantic actions, the LR engine (`C11.run_ok`), the nested parsers at every depth and the entry
        points (`k_parserRun`, `parse_e3`, `parsesingle_e3`, `split_e3`; `TightK*.lean`):
          IndexError|_getc                     the look-ahead `line[idx+1]` after a backslash
          IndexError|makeheredoc               three sub-sites (store lookup; tab stripping; `fullline[len(word)]`)
    (4) two with C11's invariant `Good4` (line of `tokenizer.__init__`, cursor inside the line or dead, empty
        look-ahead slot) and "the flags `regexp` / `dblparen` are off" (nothing sets them: `Fl`, frame walk
        through tokenizer, expansion, actions), exact facts about `_getc` (`GX`), the level lemmas of
        `Props/C03/Tok*.lean` at the level of the token's start (`TightF8.lean`, `TightLvl*.lean`, `TightFl*.lean`,
        `TightMo.lean`; `readtokenword8`, `next8_good`, `parserRun8`, `parse_f8`, `parsesingle_f8`, `split_f8`):
          AssertionError|token.__init__        the cursor at the end of a token is beyond its recorded start
          IndexError|_is_assignment            `tokenword` is not empty: the first iteration of `_readtokenword`
                                               appends something (a `\` in hand is not followed by a newline; `<` / `>`
                                               reach `_readtokenword` only with `(` under the cursor)
        Neither holds state-agnostically: kernel-checked state witnesses in `TightWitness.lean`.
    (5) AssertionError|ParsingError.__init__ by `C11.C11_parse`, `C11.C11_parsesingle` and, for `split`,
        `C11.C11_split` (`TightSplit.lean`: the same pieces as for `parse`).
  Termination: the loop of `gatherheredocuments` never runs out of fuel (`f_gatherheredocuments`,
  `TightFuel.lean`); the other seven loops of the tokenizer stay in `tokFuelTight` (they need a bound on the
  length of the tape and cursor measures).
  `knownForeignTight` = `knownForeign` without `ParsingError.__init__`: three recorded defects (witnesses in
  `Props/C01/Witness.lean`) and `visitnode`, `_extractcommandsubst`, `_expandwordinternal` (need facts about
  token VALUES: no value ends in `$(` or in an odd number of backslashes, and span bounds; not done).
-/
import Bashlex.Props.C01
import Bashlex.Props.C01.TightFuel
import Bashlex.Props.C11Total
import Bashlex.Props.C01.TightWitness
import Bashlex.Props.C01.TightSplit
import Bashlex.Props.C01.TightLvlParse

namespace Bashlex.C01
open Bashlex Bashlex.M

/-- foreign exceptions above the tokenizer: `knownForeign` without `AssertionError|ParsingError.__init__` -/
def knownForeignTight : List Exn :=
  [ .foreign "AttributeError" "_recursiveparse",     -- D24, witness "` `"
    .foreign "AssertionError" "handleAssert",        -- D18
    .foreign "IndexError" "_parsedolparen",          -- D35
    .foreign "AssertionError" "visitnode",           -- not excluded, no witness
    .foreign "IndexError" "_extractcommandsubst",    -- not excluded, no witness
    .foreign "IndexError" "_expandwordinternal" ]    -- not excluded, no witness

/-- the raise sites of the tokenizer that are left: NONE -- all 14 entries of `tokForeign` are excluded -/
def tokForeignTight : List Exn := []

/-- the loops of the tokenizer still covered by the 2^30 fuel only (`gatherheredocuments` is not
    among them any more: `f_gatherheredocuments`) -/
def tokFuelTight : List String :=
  ["readline", "makeheredoc", "_parse_matched_pair", "_parse_comsub", "_readtokenword",
   "_discard_until", "_readtoken"]

/-- what `token()` and `gatherheredocuments` may raise, all exclusions together -/
def TokExn3 (x : Exn) : Prop := TokExn2 x ∧ FG x

theorem t3_nextToken : Sat nextToken (fun _ => True) TokExn3 := sat_andE t2_nextToken f_nextToken
theorem t3_gatherheredocuments : Sat gatherheredocuments (fun _ => True) TokExn3 :=
  sat_andE t2_gatherheredocuments f_gatherheredocuments

/-- the tightened discipline -/
def Tight (x : Exn) : Prop :=
  (∃ m s p, x = .parsing m s p) ∨ (∃ w, x = .notImplemented w) ∨
  x ∈ knownForeignTight ∨ x ∈ tokForeignTight ∨
  (∃ site, x = .outOfFuel site ∧ (site ∈ fuelSites ∨ site ∈ tokFuelTight))

theorem tight_of_allowed {x : Exn} (h : Allowed TokExn3 x) (h3 : E3 x) (h8 : F8 x)
    (hne : x ≠ .foreign "AssertionError" "ParsingError.__init__") : Tight x := by
  rcases h with ⟨⟨h | h | ⟨site, rfl, h⟩, h2⟩, hf⟩ | h | h | h | ⟨site, rfl, h⟩
  · exact Or.inl h
  · refine Or.inr (Or.inr (Or.inr (Or.inl ?_)))
    simp only [tokForeign1, List.mem_cons, List.mem_nil_iff, or_false] at h
    rcases h with rfl | rfl | rfl | rfl | rfl | rfl | rfl
    all_goals first
      | exact absurd rfl hne
      | exact absurd rfl h2.1
      | exact absurd rfl h2.2
      | exact absurd rfl h3.1
      | exact absurd rfl h3.2
      | exact absurd rfl h8.1
      | exact absurd rfl h8.2
  · refine Or.inr (Or.inr (Or.inr (Or.inr ⟨site, rfl, Or.inr ?_⟩)))
    simp only [tokFuel, List.mem_cons, List.mem_nil_iff, or_false] at h
    rcases h with rfl | rfl | rfl | rfl | rfl | rfl | rfl | rfl
    all_goals first | exact absurd rfl hf | simp [tokFuelTight]
  · exact Or.inl h
  · exact Or.inr (Or.inl h)
  · refine Or.inr (Or.inr (Or.inl ?_))
    simp only [knownForeign, List.mem_cons, List.mem_nil_iff, or_false] at h
    rcases h with rfl | rfl | rfl | rfl | rfl | rfl | rfl
    all_goals first | exact absurd rfl hne | simp [knownForeignTight]
  · exact Or.inr (Or.inr (Or.inr (Or.inr ⟨site, rfl, Or.inl h⟩)))

/-- the tightened discipline is included in the old one -/
theorem tight_disciplined {x : Exn} (h : Tight x) : Disciplined x := by
  rw [disciplined_iff]
  rcases h with h | h | h | h | h
  · exact Or.inl h
  · exact Or.inr (Or.inl h)
  · refine Or.inr (Or.inr (Or.inl ?_))
    simp only [knownForeignTight, List.mem_cons, List.mem_nil_iff, or_false] at h
    rcases h with rfl | rfl | rfl | rfl | rfl | rfl <;> simp [knownForeign]
  · simp [tokForeignTight] at h
  · obtain ⟨site, rfl, h | h⟩ := h
    · exact Or.inr (Or.inr (Or.inr (Or.inr ⟨site, rfl, Or.inl h⟩)))
    · refine Or.inr (Or.inr (Or.inr (Or.inr ⟨site, rfl, Or.inr ?_⟩)))
      simp only [tokFuelTight, List.mem_cons, List.mem_nil_iff, or_false] at h
      rcases h with rfl | rfl | rfl | rfl | rfl | rfl | rfl <;> simp [tokFuel]

/-- every exception escaping one parser run, at every nesting depth -/
theorem C01_parserRun_tight (d : Nat) : Sat (parserRun d) (fun _ => True) (Allowed TokExn3) :=
  parserRun_exn t3_nextToken t3_gatherheredocuments d

/-- **C01 tight, `parse`**: for every input and all options, `parse` returns a list of nodes or
    raises an exception in `Tight` -/
theorem C01_partial_tight (s : Str) (o : Opts) :
    match (parse s o).1 with
    | .parts _ => True
    | .exn x => Tight x
    | _ => False := by
  have h1 := parse_ok t3_nextToken t3_gatherheredocuments s o
  have h2 := fun x => C11.C11_parse s o (x := x)
  have h3 := fun x => parse_e3 s o (x := x)
  have h8 := fun x => parse_f8 s o (x := x)
  revert h1 h2 h3 h8
  cases (parse s o).1 with
  | exn x => exact fun h1 h2 h3 h8 => tight_of_allowed h1 (h3 x rfl) (h8 x rfl) (h2 x rfl).1
  | parts _ => exact fun h1 _ _ _ => h1
  | single _ => exact fun h1 _ _ _ => h1
  | strs _ => exact fun h1 _ _ _ => h1

/-- **C01 tight, `parsesingle`** -/
theorem C01_partial_single_tight (s : Str) (o : Opts) :
    match (parsesingle s o).1 with
    | .single _ => True
    | .exn x => Tight x
    | _ => False := by
  have h1 := parsesingle_ok t3_nextToken t3_gatherheredocuments s o
  have h2 := fun x => C11.C11_parsesingle s o (x := x)
  have h3 := fun x => parsesingle_e3 s o (x := x)
  have h8 := fun x => parsesingle_f8 s o (x := x)
  revert h1 h2 h3 h8
  cases (parsesingle s o).1 with
  | exn x => exact fun h1 h2 h3 h8 => tight_of_allowed h1 (h3 x rfl) (h8 x rfl) (h2 x rfl).1
  | parts _ => exact fun h1 _ _ _ => h1
  | single _ => exact fun h1 _ _ _ => h1
  | strs _ => exact fun h1 _ _ _ => h1

/-- **C01 tight, `split`**: strings, or an exception in `Tight`, or the out-of-fuel marker of its
    token loop -/
theorem C01_partial_split_tight (s : Str) :
    match (split s).1 with
    | .strs _ => True
    | .exn x => Tight x ∨ x = .outOfFuel "split"
    | _ => False := by
  have h := split_ok t3_nextToken t3_gatherheredocuments s
  have h2 := fun x => C11.C11_split s (x := x)
  have h3 := fun x => split_e3 s (x := x)
  have h8 := fun x => split_f8 s (x := x)
  revert h h2 h3 h8
  cases (split s).1 with
  | exn x =>
    intro h h2 h3 h8
    rcases h with h | h
    · exact Or.inl (tight_of_allowed h (h3 x rfl) (h8 x rfl) (h2 x rfl).1)
    · exact Or.inr h
  | parts _ => exact fun h _ _ _ => h
  | single _ => exact fun h _ _ _ => h
  | strs _ => exact fun h _ _ _ => h

end Bashlex.C01

#print axioms Bashlex.C01.t1_nextToken
#print axioms Bashlex.C01.t1_gatherheredocuments
#print axioms Bashlex.C01.t2_nextToken
#print axioms Bashlex.C01.t2_gatherheredocuments
#print axioms Bashlex.C01.f_gatherheredocuments
#print axioms Bashlex.C01.t3_nextToken
#print axioms Bashlex.C01.k_parserRun
#print axioms Bashlex.C01.parse_e3
#print axioms Bashlex.C01.split_e3
#print axioms Bashlex.C01.readtokenword8
#print axioms Bashlex.C01.next8_good
#print axioms Bashlex.C01.parserRun8
#print axioms Bashlex.C01.parse_f8
#print axioms Bashlex.C01.split_f8
#print axioms Bashlex.C11.C11_split
#print axioms Bashlex.C01.sat2_nextToken
#print axioms Bashlex.C01.sat_tokeninit_false
#print axioms Bashlex.C01.sat_isassignment_false
#print axioms Bashlex.C01.C01_parserRun_tight
#print axioms Bashlex.C01.C01_partial_tight
#print axioms Bashlex.C01.C01_partial_single_tight
#print axioms Bashlex.C01.C01_partial_split_tight
