/-
  Property C05 (token-level half) at model level, with the hypothesis on the token source
  (`TokLog`, `Props/C05/Hooks.lean`) DISCHARGED for the real tokenizer: the ghost invariant is
  C03's `TI` (`Props/C03/TokSpans.lean`) together with a log of the delivered tokens, each of
  which is an EOF token without a value or has a non-empty span that starts inside the input and
  ends at or before the frontier (a WORD token has a non-empty value).  What remains a
  hypothesis is `RootEnds` alone (see `Props/C03Total.lean`).
-/
import Bashlex.Props.C05.Gaps
import Bashlex.Props.C03Total

namespace Bashlex.C05
open Bashlex Bashlex.Spec Bashlex.Node Bashlex.M Bashlex.LR Bashlex.C03
set_option linter.unusedVariables false

/-- what is known of a token `token()` delivered, at frontier `f` -/
def Delivered (len f : Nat) (t : Token) : Prop :=
  (t.ttype = some .EOF ∧ t.value = .none) ∨
  ∃ a b, t.pos = some (a, b) ∧ a < b ∧ a ≤ len ∧ b ≤ f ∧ WNE t

theorem Delivered.mono {len f f' : Nat} {t : Token} (h : Delivered len f t) (hf : f ≤ f') :
    Delivered len f' t := by
  rcases h with h | ⟨a, b, h1, h2, h3, h4, h5⟩
  · exact Or.inl h
  · exact Or.inr ⟨a, b, h1, h2, h3, by omega, h5⟩

/-- **the logged ghost invariant of the real tokenizer** -/
def TLog (ts : List Token) (len f : Nat) (l : Local) (e : Env) : Prop :=
  C03.TI len f l e ∧ ∀ t ∈ ts, Delivered len f t

/-- a pure fact rides along a state-aware triple -/
theorem satS_with' {α : Type} {m : M α} {P : Local → Env → Prop} {Q : α → Local → Env → Prop}
    {C : Prop} (h : SatS m P Q) :
    SatS m (fun l e => C ∧ P l e) (fun a l e => C ∧ Q a l e) := by
  refine SatS.assume (fun hc => ?_)
  exact SatS.post h (fun _ _ _ hq => ⟨hc, hq⟩)

/-- **the hypothesis `TokLog` holds of the real tokenizer** -/
theorem tokLog : TokLog TLog := by
  refine ⟨?_, ?_, ?_⟩
  · intro ts len f st
    have := satS_with' (C := ∀ t ∈ ts, Delivered len f t) (tokSpans_next len f st)
    refine SatS.weaken this ?_ ?_ (fun _ h => h)
    · rintro l e ⟨⟨h1, h2⟩, h3⟩; exact ⟨h2, h1, h3⟩
    · rintro t l e ⟨hs, a, b, h1, h2, h3, h4⟩
      refine ⟨a, b, h1, h2, ⟨h3, ?_⟩, h4⟩
      intro t' ht'
      rcases List.mem_append.mp ht' with ht' | ht'
      · exact (hs t' ht').mono (by have := h2.1; omega)
      · simp only [List.mem_singleton] at ht'
        subst ht'
        rcases h2.2 with h5 | ⟨h5, h6, h7⟩
        · exact Or.inl h5
        · exact Or.inr ⟨a, b, h5, h2.1, h6, Nat.le_refl _, h7⟩
  · intro ts
    refine ⟨?_, ?_, ?_, ?_⟩
    · intro len f st
      have := satS_with' (C := ∀ t ∈ ts, Delivered len f t) (tokSpans_gather len f st)
      refine SatS.weaken this ?_ ?_ (fun _ h => h)
      · rintro l e ⟨⟨h1, h2⟩, h3⟩; exact ⟨h2, h1, h3⟩
      · rintro _ l e ⟨hs, h1, h2⟩; exact ⟨⟨h1, hs⟩, h2⟩
    · rintro len f l e cell kill ⟨h1, h2⟩ h3 h4 h5
      exact ⟨tokSpans_queue len f l e cell kill h1 h3 h4 h5, h2⟩
    · rintro len f l e ps ⟨h1, h2⟩
      exact ⟨tokSpans_ps len f l e ps h1, h2⟩
    · intro d len f st s b
      have := satS_with' (C := ∀ t ∈ ts, Delivered len f t) (tokSpans_nested d len f st s b)
      refine SatS.weaken this ?_ ?_ (fun _ h => h)
      · rintro l e ⟨⟨h1, h2⟩, h3⟩; exact ⟨h2, h1, h3⟩
      · rintro _ l e ⟨hs, h1, h2⟩; exact ⟨⟨h1, hs⟩, h2⟩
  · intro s l e hi
    exact ⟨tokSpans_init s l e hi, fun t ht => by cases ht⟩

theorem tokLogAll_of_rootEnds (hR : RootEnds) : TokLogAll TLog := ⟨tokLog, hR⟩

/-- **C05 (model level, token-level half), `parse`**, for the real tokenizer; the only hypothesis
    left is `RootEnds` -/
theorem C05_total_conditional (hR : RootEnds) (s : Str) (o : Opts) (parts : List Node)
    (h : (parse s o).1 = .parts parts) : PartsFrom TLog s 0 parts :=
  C05_partial s o parts (tokLogAll_of_rootEnds hR) h

/-- **C05 (model level, token-level half), `parsesingle`**, for the real tokenizer -/
theorem C05_total_single_conditional (hR : RootEnds) (s : Str) (o : Opts) (n : Node)
    (h : (parsesingle s o).1 = .single (some n)) : RunOK TLog s n :=
  C05_partial_single s o n (tokLogAll_of_rootEnds hR) h

/-- **C05, token level, spatially**, for the real tokenizer -/
theorem C05_total_tokens_in_leaves (hR : RootEnds) (s : Str) (o : Opts) (parts : List Node)
    (h : (parse s o).1 = .parts parts) : ∀ part ∈ parts,
      ∃ k n, k ≤ s.length ∧ part = n.shift k ∧
        ∃ ts la F l e, TLog (ts ++ la) (s.drop k).length F l e ∧ la.length ≤ 1 ∧ TokSorted ts ∧
          (∀ t ∈ ts, Droppable t ∨ IsTimeTok t ∨ InLeaf t (Spec.leaves n)) ∧
          (∀ x ∈ Spec.leaves n, (∃ t ∈ ts, x.1.1 = t.lexpos) ∨ x.2 = true ∨ x.1 = (0, 0)) :=
  C05_tokens_in_leaves s o parts (tokLogAll_of_rootEnds hR) h

end Bashlex.C05

#print axioms Bashlex.C05.tokLog
#print axioms Bashlex.C05.C05_total_conditional
#print axioms Bashlex.C05.C05_total_single_conditional
#print axioms Bashlex.C05.C05_total_tokens_in_leaves
