/-
  C14Interior — layout INSIDE a command (goal 3 of task c14mid): target, validation, and what is
  proved towards it.

  ## Target (executable: `Props/C14/ISpec.lean`)
  `B = X ++ Y`, `ins` inserted at `x = |X|`.  `interiorB B x ins o` checks
      `runParser (X ++ ins ++ Y)  =  (runParser B).map (Node.mapPos (spanMap x |ins|))`
  where `spanMap x k (a, b) = (if a < x then a else a + k, if b ≤ x then b else b + k)`: a START
  at the insertion point moves, an END at the insertion point stays.  A top-level `ParsingError`
  carries the edited source and the position moved as a start.
  Boundary conditions (decidable):
  * `WidenGap B x o` — WIDENING an existing gap: `B[x-1]` and `B[x]` are blanks or tabs and `x` is
    not inside a leaf of the tree (a quoted or escaped blank, a here-document body).
  * end of a line (`x = |B|` or `B[x] = '\n'`, not inside a leaf), for `ins = " #c"`.
  Validation (`widen_validated`, `eol_validated` below re-check a part at every build with
  `decide +kernel`; the
  full runs were done with `#eval`):
  * widening — 39 inputs (simple and compound commands: `if`/`for`/`while`/`until`/`case`/`select`/
    functions/subshell/group/coproc/`[[ ]]`, pipelines, lists, redirections, here-documents,
    `$(…)`, backquotes, `$((…))`, `<(…)`, quotes, arrays, comments, continuations), every
    widenable position, insertions `" "`, `"\t "`, `"\\\n"`, `" \\\n "`: ONE failure,
    `B = "a  \  b"`, `x = 5`, `ins = "\\\n"` — the blank before `x` is the ESCAPED blank that ends
    the word `\ `, and a continuation directly behind a token is defect D31 (`_getc; _ungetc` over
    a skipped pair does not restore the cursor) — `D31_widen_witness`.  Fix of the condition:
    `x` must not be the END of a leaf either when `ins` starts with a continuation.
  * end of line, `ins ∈ {" #c", "\t# x y", "  "}` — 27 inputs: failures only at the two lines of
    a here-document: behind `<<E` (the redirect span is extended over the body only when the body
    is ADJACENT, C10/C03 `+heredoc`; `heredoc_adjacent_witness`) and behind the delimiter line
    (`E #c` is no delimiter), and after a trailing backslash.

  ## Proved (files `Props/C14/IEngine.lean`, `IAct.lean`)
  For EVERY span map `f : Span → Span`, in C16's two-run logic `Rel S S m₁ m₂ R` ("if run 1
  returns, run 2 returns a related result"; state relation `S` and environment relation — C16's
  `EnvRel` class — are parameters):
  * `engine_from`, **`interior_from_conditional`**, `interior_run_conditional`: the LR engine and
    the tail of `_parser.parse()` (`resolve`) from ANY pair of related engine configurations —
    stacks related entry-wise by `v₂ = mapS f v₁` — return `b = a.map (Node.mapPos f)`.  This is
    the mixed-stack statement a two-phase argument needs: for `f = spanMap x k`, values created
    before the insertion point are fixed by `f`, later ones are moved by `k`.
  * **naturality of ALL 39 action functions** (`actNat_all`, one lemma `nat_*` per function,
    `actions_covered` decided by the kernel on the generated grammar): the actions never do
    arithmetic on positions; they read `lexspan`/`nodePos`, pair a first start with a last end
    (`Comp f`), and `addRedirects` asserts `start < end` (`Mono f`); the constant span `(0,0)` of
    a non-token must be a fixed point.  `spanMap x k` satisfies all three for `0 < x`
    (`spanMap_zero/_comp/_mono`).  In particular D19 is NO exclusion here (`D19_no_exclusion`).
    The lemmas use four facts about the surroundings (`ActEnv`): word expansion is natural on
    tokens lying on one side of `x` (`word`), the state relation keeps flags equal / pending
    here-document cells related and is closed under the three state updates the actions make
    (`state : SGood f S`), both runs see the same `proceedonerror` (`proceed`), and
    `gatherheredocuments` keeps the states related (`gather`).
  * **`C14_interior_conditional`**, `C14_interior_from_conditional`: the statement for
    `f = spanMap x k`, from `InteriorResidual` = `tok` + `ActEnv`.
  * `Props/C14/IBridge.lean`: `mapPos_fix`, `cfgR_self` — a configuration whose spans all lie below
    `x` is related to itself (`spanMap x k` fixes them): the start of phase 2;
    `C14_interior_phase2_conditional`.
  * `Props/C14/IPhase2.lean` (no hypotheses): the DOUBLE SIMULATION.  `sim_double`: a program
    simulated under every prefix (`C14.Sim pre`), run on `X ++ Y` and on `(X ++ ins) ++ Y` from
    states that are both images of one state on the tape `Y` (`J2`): if the first run returns, so
    does the second, and `J2` holds again.  `tok_double_map`: `token()` in phase 2 delivers in
    the second run the token of the first under `spanMapR |X| |ins|` (= `spanMap` on spans not
    ending exactly at `|X|`, `spanMapR_eq`), every such token lies behind the insertion point;
    `gather_double`: the same for `gatherheredocuments`.  So `htok`/`hgather` hold for the JOINT
    invariant `J2`; they are not yet fed into the engine theorem (see below).
  * `Props/C14/IInst.lean`: a concrete state relation `SI f` (same parser object; remembered
    tokens and pending here-document cells under `f`) and environment relations `envRelOf T`
    (same options; tapes related by any `T`) for which `ActEnv.state` and `ActEnv.proceed` are
    PROVED (`sgood_SI`, `proceed_SI`); **`C14_interior_SI_conditional`** and
    **`C14_interior_runParser_conditional`**: if `runParser B` returns `a` then `runParser B'`
    returns `a.map (Node.mapPos (spanMap x k))`, given only `htok`, `hword`, `hgather`.

  ## Hypotheses left (`InteriorResidual`) — NOT proved; all are statements about the TOKENIZER
  side (no hypothesis about the engine or about any action function is left)
  * `tok`: the token source of the second run delivers the tokens of the first under `f`, each on
    one side of `x` — the relational walk of the tokenizer for the tapes `X ++ Y` /
    `X ++ ins ++ Y` (for widening: identical runs while the cursor is `≤ x`, then `k` more
    iterations of the blank loop of `_readtoken`, then C14's `Sim`-style walk with the cursor
    `≥ x`), which also has to maintain `S`;
  * `env.word`: word expansion (C14's `expRel_of_npRel` is the shift version: a token on one side
    of `x` is moved rigidly); it is NOT independent of `tok`: the nested parser inherits the
    remembered tokens, whose spans differ in the two runs, so `word` at depth `d + 1` needs the
    whole statement at depth `d` with `f = id` on spans (induction on the nesting depth, as in
    C14's `npRel_npOf`);  `env.gather`: the here-document reader (C10's equations);
    `env.proceed`, `env.state`: proved for `SI f` / `envRelOf T` (`IInst.lean`).
  Why `tok` cannot be a single state-independent invariant: before the insertion point tokens
  may straddle any given `x`; that `x` is a gap is a property of THIS run.  Hence two phases:
  (1) the runs are identical until the token before the gap is delivered (tapes agree below `x`);
  (2) from there `C14_interior_from_conditional` applies to the two (equal, hence related:
  old positions are `< x`) engine configurations with
  `T t₁ t₂ := x ≤ t₁.idx ∧ t₂.idx = t₁.idx + k ∧ ∀ i ≥ x, t₂.line[i + k]? = t₁.line[i]?` — C14's
  `TapeRel`/`Room` discipline with the origin moved from `0` to `x`; the relational walk of
  `Props/C14/Access … Token` goes through verbatim for it (not redone here: 1300 lines).
  A SHORTER ROUTE to `tok` in phase 2, found too late to carry out: `Sim pre` does not care what
  `pre` contains.  Let run A be `nextToken` on the tape `Y` from cursor `i - x`, run B on `X ++ Y`
  from `i`, run C on `(X ++ ins) ++ Y` from `i + k`.  `C14.sim_nextToken` with `pre := X` relates
  A to B (spans `+ |X|`), with `pre := X ++ ins` it relates A to C (spans `+ |X| + k`); A is
  deterministic, so the token of C is the token of B moved by `k`, i.e. under `spanMap x k`
  (its start is `≥ x`), and the states stay related.  Needed for it: at the boundary
  `positions = []` and `store = []` (no here-document before the gap in this run: the cells of the
  store would have to be moved DOWN by `|X|`), `_eol_ungetc_lookahead = none` (kept by the
  tokenizer: the invariant of `Props/C04/TokTextProof`), and C16's `Rel` with a joint relation on
  (state, environment) instead of the two separate ones.  The ENGINE cannot be treated this way
  (old spans `< x` cannot be moved down by `|X|`), which is why it is done here for an arbitrary
  span map.
-/
import Bashlex.Props.C14.IPhase2

namespace Bashlex.C14I
open Bashlex Bashlex.LR Bashlex.C16 Bashlex.C14
set_option linter.unusedSimpArgs false
set_option linter.unusedVariables false

/-! ## `spanMap` satisfies what the action lemmas need -/

theorem spanMap_zero {x : Nat} (hx : 0 < x) (k : Nat) : spanMap x k (0, 0) = (0, 0) := by
  simp [spanMap, phiS, phiE, hx]

theorem spanMap_comp (x k : Nat) : Comp (spanMap x k) := fun p q => rfl

theorem spanMap_mono (x k : Nat) : Mono (spanMap x k) := by
  intro p q h
  simp only [spanMap, phiS, phiE]
  split <;> split <;> omega

/-! ## the conditional theorem -/

section
variable [EnvRel] {Q : Token → Prop} {S : Local → Local → Prop}

/-- **C14 interior, conditional**: an insertion of `k` characters at `x > 0`.  Under
    `InteriorResidual` (token source, word expansion, 15 action functions), if the first run
    returns a result, the second returns it with every span under `spanMap x k` — from any pair
    of related engine configurations, in particular from the start. -/
theorem C14_interior_conditional (x k : Nat) (hx : 0 < x) (depth : Nat)
    (h : InteriorResidual (spanMap x k) Q S (npOf depth) (npOf depth)) :
    Rel S S (parserRun (depth + 1)) (parserRun (depth + 1))
      (fun a b => b = a.map (Node.mapPos (spanMap x k))) :=
  interior_run_conditional depth
    (interiorHyp_of_residual (spanMap_zero hx k) (spanMap_comp x k) (spanMap_mono x k) h)

theorem C14_interior_from_conditional (x k : Nat) (hx : 0 < x) (depth fuel : Nat)
    (h : InteriorResidual (spanMap x k) Q S (npOf depth) (npOf depth)) (c₁ c₂ : Cfg SVal)
    (hc : CfgR (VRf (spanMap x k) Q) c₁ c₂) :
    Rel S S
      (M.loop "LRParser.parse" (step realTables (lrHooks (npOf depth))) fuel c₁ >>= parserTail)
      (M.loop "LRParser.parse" (step realTables (lrHooks (npOf depth))) fuel c₂ >>= parserTail)
      (fun a b => b = a.map (Node.mapPos (spanMap x k))) :=
  interior_from_conditional
    (interiorHyp_of_residual (spanMap_zero hx k) (spanMap_comp x k) (spanMap_mono x k) h) fuel c₁ c₂ hc

end

/-- **phase 2 of the two-phase argument**: both runs have reached the SAME engine configuration
    `c` (no look-ahead; every span on the stack below `x`, every token on it satisfies `Q`) — the
    configuration after the token in front of the gap was shifted.  From there the second run
    returns the result of the first with every span under `spanMap x k` (old spans are fixed by
    it, new ones moved: `cfgR_self`). -/
theorem C14_interior_phase2_conditional [EnvRel] {Q : Token → Prop} {S : Local → Local → Prop}
    (x k : Nat) (hx : 0 < x) (depth fuel : Nat)
    (h : InteriorResidual (spanMap x k) Q S (npOf depth) (npOf depth)) (c : Cfg SVal)
    (hla : c.la = none)
    (hst : ∀ e ∈ c.stack, (∀ p ∈ spansOfS e.val, Below x p) ∧ QV Q e.val) :
    Rel S S
      (M.loop "LRParser.parse" (step realTables (lrHooks (npOf depth))) fuel c >>= parserTail)
      (M.loop "LRParser.parse" (step realTables (lrHooks (npOf depth))) fuel c >>= parserTail)
      (fun a b => b = a.map (Node.mapPos (spanMap x k))) :=
  C14_interior_from_conditional x k hx depth fuel h c c (cfgR_self x k Q c hla hst)

/-! ## the same with the concrete relations of `IInst.lean`, down to `runParser` -/

/-- **C14 interior, conditional, concrete relations**: states related by `SI f` (same parser
    object, remembered tokens and pending here-documents under `f`), environments with the same
    options and tapes related by ANY `T`.  Hypotheses left: the token source (`htok`), word
    expansion (`hword`) and the here-document reader (`hgather`) respect these relations. -/
theorem C14_interior_SI_conditional (x k : Nat) (hx : 0 < x) (T : Tape → Tape → Prop)
    (Q : Token → Prop) (depth : Nat)
    (htok : Rel (er := envRelOf T) (SI (spanMap x k)) (SI (spanMap x k)) nextToken nextToken
      (fun t₁ t₂ => t₂ = mapTok (spanMap x k) t₁ ∧ Q t₁))
    (hword : @WordNat (envRelOf T) (spanMap x k) Q (SI (spanMap x k)) (npOf depth) (npOf depth))
    (hgather : Rel (er := envRelOf T) (SI (spanMap x k)) (SI (spanMap x k))
      gatherheredocuments gatherheredocuments (fun _ _ => True)) :
    Rel (er := envRelOf T) (SI (spanMap x k)) (SI (spanMap x k))
      (parserRun (depth + 1)) (parserRun (depth + 1))
      (fun a b => b = a.map (Node.mapPos (spanMap x k))) :=
  @C14_interior_conditional (envRelOf T) Q (SI (spanMap x k)) x k hx depth
    (@InteriorResidual.mk (envRelOf T) _ _ _ _ _ htok
      (@ActEnv.mk (envRelOf T) _ _ _ _ _ hword (sgood_SI _) (proceed_SI _ T) hgather))

theorem si_init (f : Span → Span) (lim : Option Int) : SI f (initL lim) (initL lim) :=
  { tape := rfl, opts := rfl, eol := rfl, before := rfl, last := rfl, cur := rfl, ps := rfl
    obc := rfl, esacs := rfl, dstack := rfl, eofToken := rfl, redirstack := rfl, store := rfl
    limit := rfl }

/-- … for `runParser`: `B = X ++ Y`, `B' = X ++ ins ++ Y` (any two inputs, in fact, whose tapes
    are related by `T`): if the run on `B` returns `a`, the run on `B'` returns `a` with every
    span under `spanMap x k` -/
theorem C14_interior_runParser_conditional (x k : Nat) (hx : 0 < x) (T : Tape → Tape → Prop)
    (Q : Token → Prop) (B B' : Str) (o : Opts) (t : List Char)
    (hT : T (Tape.ofInput B) (Tape.ofInput B'))
    (htok : Rel (er := envRelOf T) (SI (spanMap x k)) (SI (spanMap x k)) nextToken nextToken
      (fun t₁ t₂ => t₂ = mapTok (spanMap x k) t₁ ∧ Q t₁))
    (hword : @WordNat (envRelOf T) (spanMap x k) Q (SI (spanMap x k)) (npOf 63) (npOf 63))
    (hgather : Rel (er := envRelOf T) (SI (spanMap x k)) (SI (spanMap x k))
      gatherheredocuments gatherheredocuments (fun _ _ => True))
    (a : Option Node) (ha : (runParser B o t).1 = .ok a) :
    (runParser B' o t).1 = .ok (a.map (Node.mapPos (spanMap x k))) := by
  have h := C14_interior_SI_conditional x k hx T Q 63 htok hword hgather
  rw [runParser_fst] at ha ⊢
  have hmax : maxDepth = 63 + 1 := rfl
  rw [hmax] at ha ⊢
  rcases hr : M.run (parserRun (63 + 1)) (initL o.limit) (envOf B o t) with ⟨r, e₁'⟩
  rw [hr] at ha
  cases r with
  | error x => cases ha
  | ok v =>
    obtain ⟨a₁, l₁'⟩ := v
    have ha' : a₁ = a := by
      have : (Except.ok a₁ : Except Exn (Option Node)) = .ok a := ha
      exact Except.ok.inj this
    subst ha'
    obtain ⟨a₂, l₂', e₂', hr₂, ha₂, _, _⟩ :=
      h (initL o.limit) (initL o.limit) (envOf B o t) (envOf B' o t) (si_init _ _)
        ⟨rfl, rfl, rfl, hT⟩ a₁ l₁' e₁' hr
    rw [hr₂, ha₂]
    rfl

/-- … for `parsesingle` -/
theorem C14_interior_parsesingle_conditional (x k : Nat) (hx : 0 < x) (T : Tape → Tape → Prop)
    (Q : Token → Prop) (B B' : Str) (o : Opts)
    (hT : T (Tape.ofInput B) (Tape.ofInput B'))
    (htok : Rel (er := envRelOf T) (SI (spanMap x k)) (SI (spanMap x k)) nextToken nextToken
      (fun t₁ t₂ => t₂ = mapTok (spanMap x k) t₁ ∧ Q t₁))
    (hword : @WordNat (envRelOf T) (spanMap x k) Q (SI (spanMap x k)) (npOf 63) (npOf 63))
    (hgather : Rel (er := envRelOf T) (SI (spanMap x k)) (SI (spanMap x k))
      gatherheredocuments gatherheredocuments (fun _ _ => True))
    (a : Option Node) (ha : (parsesingle B o).1 = .single a) :
    (parsesingle B' o).1 = .single (a.map (Node.mapPos (spanMap x k))) := by
  have hrun : (runParser B o []).1 = .ok a := by
    unfold parsesingle at ha
    rcases h : runParser B o [] with ⟨r, t⟩
    rw [h] at ha
    cases r with
    | error e => cases ha
    | ok v => cases ha; rfl
  have h2 := C14_interior_runParser_conditional x k hx T Q B B' o [] hT htok hword hgather a hrun
  unfold parsesingle
  rcases h : runParser B' o [] with ⟨r, t⟩
  rw [h] at h2
  simp only at h2
  subst h2
  rfl

/-- … for `parse`: the FIRST part (the later parts are runs on suffixes, which an insertion in
    front of them moves as a whole: goals 1/2) -/
theorem C14_interior_parse_first_conditional (x k : Nat) (hx : 0 < x) (T : Tape → Tape → Prop)
    (Q : Token → Prop) (B B' : Str) (o : Opts)
    (hT : T (Tape.ofInput B) (Tape.ofInput B'))
    (htok : Rel (er := envRelOf T) (SI (spanMap x k)) (SI (spanMap x k)) nextToken nextToken
      (fun t₁ t₂ => t₂ = mapTok (spanMap x k) t₁ ∧ Q t₁))
    (hword : @WordNat (envRelOf T) (spanMap x k) Q (SI (spanMap x k)) (npOf 63) (npOf 63))
    (hgather : Rel (er := envRelOf T) (SI (spanMap x k)) (SI (spanMap x k))
      gatherheredocuments gatherheredocuments (fun _ _ => True))
    (a : Node) (ha : (runParser B o []).1 = .ok (some a)) (ps : List Node)
    (hps : (parse B' o).1 = .parts ps) :
    ps.head? = some (a.mapPos (spanMap x k)) := by
  have h2 := C14_interior_runParser_conditional x k hx T Q B B' o [] hT htok hword hgather _ ha
  have hsp := C13.parse_spec B' o
  generalize parse B' o = res at hsp hps
  cases hsp with
  | raise hr => rw [hr] at h2; cases h2
  | empty hr => rw [hr] at h2; cases h2
  | @loop first t r hr hl =>
    rw [hr] at h2
    simp only [Option.map_some, Except.ok.injEq, Option.some.injEq] at h2
    subst h2
    obtain ⟨y, u⟩ := r
    cases y with
    | error e => cases hps
    | ok qs =>
      have : ps = a.mapPos (spanMap x k) :: qs := by
        have h3 : Outcome.parts (a.mapPos (spanMap x k) :: qs) = .parts ps := hps
        cases h3; rfl
      rw [this]; rfl

/-! ## validation of the target at every build, and the witnesses of the exclusions -/

/-- insertions tried -/
def insList : List Str := [[' '], ['\\', '\n'], ['\t', ' ']]

/-- a part of the validation corpus, re-checked by the kernel: no widenable position of these
    inputs fails for these insertions -/
theorem widen_validated :
    (["a  b  c", "a  |  b", "if  a ;  then  b ;  fi", "for  x  in  a  b ;  do  c ;  done",
      "case  x  in  a )  b ;;  esac", "f ()  {  a ;  }", "a  >  f  2>  g",
      "cat  <<E  \nfoo  bar\nE\n", "a  \"b  c\"  $(d  e)  f", "!  a  |  b  &&  c"].all
      fun s => (widenFails s.toList insList {}).isEmpty) = true := by
  decide +kernel

/-- adding a comment at the end of a line (inputs without here-documents), re-checked by the
    kernel -/
theorem eol_validated :
    (["a b", "a |\nb", "if a\nthen b\nfi", "a \"b\nc\" d", "a b # c\ne f"].all
      fun s => (eolFails s.toList [" #c".toList] {}).isEmpty) = true := by
  decide +kernel

/-- exclusion: the delimiter line of a here-document (`E #c` is no delimiter) -/
theorem heredoc_delim_witness :
    EolGap "cat <<E\nfoo\nE\n".toList 13 {} = true ∧
    interiorB "cat <<E\nfoo\nE\n".toList 13 " #c".toList {} = false := by
  decide +kernel

/-- exclusion (D31): a continuation inserted directly behind a token that ends in an escaped
    blank -/
theorem D31_widen_witness :
    WidenGap "a  \\  b".toList 5 {} = true ∧
    interiorB "a  \\  b".toList 5 ['\\', '\n'] {} = false ∧
    interiorB "a  \\  b".toList 5 [' '] {} = true := by
  decide +kernel

/-- exclusion (here-document adjacency): blanks inserted between `<<E` and the newline in front of
    the body change the redirect's span (it is extended over the body only when adjacent) -/
theorem heredoc_adjacent_witness :
    interiorB "cat <<E\nfoo\nE\n".toList 7 [' ', ' '] {} = false ∧
    interiorB "cat <<E  \nfoo\nE\n".toList 9 [' ', ' '] {} = true := by
  decide +kernel

/-- D19 is no exclusion for an interior insertion: with `proceedonerror`, `time  a` widened -/
theorem D19_no_exclusion :
    interiorB "time  a".toList 5 [' ', ' '] { proceed := true } = true := by
  decide +kernel

end Bashlex.C14I

/-! ## Axioms -/
#print axioms Bashlex.C14I.engine_from
#print axioms Bashlex.C14I.interior_from_conditional
#print axioms Bashlex.C14I.interior_run_conditional
#print axioms Bashlex.C14I.actNat_all
#print axioms Bashlex.C14I.actions_covered
#print axioms Bashlex.C14I.interiorHyp_of_residual
#print axioms Bashlex.C14I.C14_interior_conditional
#print axioms Bashlex.C14I.C14_interior_from_conditional
#print axioms Bashlex.C14I.cfgR_self
#print axioms Bashlex.C14I.C14_interior_phase2_conditional
#print axioms Bashlex.C14I.C14_interior_SI_conditional
#print axioms Bashlex.C14I.C14_interior_runParser_conditional
#print axioms Bashlex.C14I.C14_interior_parsesingle_conditional
#print axioms Bashlex.C14I.C14_interior_parse_first_conditional
#print axioms Bashlex.C14I.sim_double
#print axioms Bashlex.C14I.tok_double_map
#print axioms Bashlex.C14I.gather_double
#print axioms Bashlex.C14I.sgood_SI
#print axioms Bashlex.C14I.proceed_SI
#print axioms Bashlex.C14I.widen_validated
#print axioms Bashlex.C14I.eol_validated
#print axioms Bashlex.C14I.heredoc_delim_witness
#print axioms Bashlex.C14I.D31_widen_witness
#print axioms Bashlex.C14I.heredoc_adjacent_witness
#print axioms Bashlex.C14I.D19_no_exclusion
