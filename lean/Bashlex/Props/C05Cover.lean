/-
  Property C05, the link to the EXECUTABLE `Spec.coverOK` (residual R2), for the WHOLE result of
  `parse`.

  `C05_coverOK_plain` (all options, every input below the model's fuel; no `rootEndsChecked`:
  `Totals.rootEndsChecked_all`): if
      * `SortOK (leavesL parts)`     `Array.qsort` returned a sorted permutation (decidable; the
                                      kernel cannot run `qsort`; `#eval` true on 5912 inputs),
      * `plainLeaves parts`          no leaf is flagged as a here-document body, none is empty
                                      (D19), every leaf ends inside the input (decidable on the
                                      result),
      * `rootsAtLeaves parts`        every part ends where its last leaf ends:
                                      `nextIndex part = end of the last leaf` (decidable on the
                                      result; the structural fact (i) that is still unproved:
                                      `Props/C03/RE` proves that the text before the end of a root
                                      does not end in two newlines (`EG`), not that the root ends
                                      at a token end),
  then `Spec.coverOK s parts` reports nothing between the leaves of ALL parts: every signature
  is `trailing-text-not-layout` -- no `leaf-overlap`, no `gap-not-layout`, across runs.
  `C05_coverOK_plain_nil`: under the same conditions even `Spec.coverOK s parts = []`.

  How: every run tiles its own line (`Props/C05/FTiled.lean`, for the real tokenizer; the chain
  now survives the "dead" state, so no condition on the cursor is left); the tiling is moved to
  the coordinates of `s` (`tiled_shift`); the next run starts where the last leaf of the part
  ends (`rootsAtLeaves`), so its leading layout is the gap between the parts (`tiled_append`);
  on a tiled list the leaves are strictly ordered, so the sorted permutation `sortSpans` returns
  is the list itself (`List.Perm.eq_of_pairwise`).

  Witnesses of the exclusions (`#eval` in `Props/C05/FValidate.lean`, `FValidate2.lean`): body leaf
  `cat <<E⏎x⏎E⏎`; empty leaf (D19) `time a` with `proceedonerror`: `coverOK = ["gap-not-layout"]`;
  `rootsAtLeaves` fails for `cat <<E; b⏎x⏎E⏎c` (the body, not the last leaf in tree order, ends
  the part): 34 of the 839 accepted corpus inputs, none of them with plain leaves.
  Evaluation: of the 839 accepted inputs of the corpus 779 have plain leaves; on all of them
  `rootsAtLeaves`, `SortOK` hold and `coverOK = []` (1424 / 1424 on the grid).
  `C05_coverOK_plain_nil`: under the same conditions `Spec.coverOK s parts = []`: the text behind
  the last leaf is layout too (`trail_parts`: the loop ends at the end of the input, or with a
  run that returns `None`, whose whole text is layout, `CharsNone`, also in the dead state).
-/
import Bashlex.Props.C05Final
import Bashlex.Props.Totals

namespace Bashlex.C05
open Bashlex Bashlex.Spec Bashlex.C05.TG Bashlex.C05.TGT
set_option linter.unusedSimpArgs false
set_option linter.unusedVariables false

/-! ## slices of the line and of the input -/

theorem line_prefix (s0 : Str) : ∃ x, (Tape.ofInput s0).line = s0 ++ x := by
  unfold Tape.ofInput
  split
  · exact ⟨[], by simp⟩
  · split
    · exact ⟨[], by simp⟩
    · exact ⟨['\n'], rfl⟩

theorem slice_append_left (s x : Str) {a e : Nat} (h : e ≤ s.length) :
    Str.slice (s ++ x) a e = Str.slice s a e := by
  unfold Str.slice
  rw [List.take_append_of_le_length h]

theorem slice_drop (s : Str) (i a e : Nat) :
    Str.slice (s.drop i) a e = Str.slice s (a + i) (e + i) := by
  unfold Str.slice
  rw [List.take_drop, List.drop_drop, Nat.add_comm i e, Nat.add_comm i a]

/-- layout of the run's line, in the coordinates of the input -/
theorem LF.shift {s : Str} {i a e : Nat} (h : LF (Tape.ofInput (s.drop i)).line a e)
    (hi : i ≤ s.length) (he : e + i ≤ s.length) : LF s (a + i) (e + i) := by
  obtain ⟨h1, _, h3⟩ := h
  obtain ⟨x, hx⟩ := line_prefix (s.drop i)
  have hel : e ≤ (s.drop i).length := by rw [List.length_drop]; omega
  refine ⟨by omega, he, fun fuel hf => ?_⟩
  have := h3 fuel (by omega)
  rw [hx, slice_append_left _ _ hel, slice_drop] at this
  exact this

theorem tiled_shift {s : Str} {i : Nat} (hi : i ≤ s.length) :
    ∀ (ls : List (Span × Bool)) (j : Nat), Tiled (Tape.ofInput (s.drop i)).line j ls →
      (∀ x ∈ ls, x.1.2 + i ≤ s.length) → Tiled s (j + i) (ls.map (shL i))
  | [], _, _, _ => True.intro
  | (p, b) :: rest, j, h, hr => by
    obtain ⟨h1, h2, h3⟩ := h
    have hp := hr (p, b) List.mem_cons_self
    refine ⟨by simp only [shL]; omega, ?_, ?_⟩
    · simp only [shL]
      exact LF.shift h2 hi (by simp only [] at hp; omega)
    · simp only [shL]
      exact tiled_shift hi rest p.2 h3 (fun x hx => hr x (List.mem_cons_of_mem _ hx))

theorem tiled_append {L : Str} : ∀ (ls1 ls2 : List (Span × Bool)) (i : Nat) (x : Span × Bool),
    Tiled L i ls1 → ls1.getLast? = some x → Tiled L x.1.2 ls2 → Tiled L i (ls1 ++ ls2)
  | [], _, _, _, _, hl, _ => by cases hl
  | [y], ls2, i, x, h, hl, h2 => by
    simp only [List.getLast?_singleton, Option.some.injEq] at hl
    subst hl
    obtain ⟨p, b⟩ := y
    exact ⟨h.1, h.2.1, h2⟩
  | y :: z :: rest, ls2, i, x, h, hl, h2 => by
    obtain ⟨p, b⟩ := y
    rw [List.getLast?_cons_cons] at hl
    exact ⟨h.1, h.2.1, tiled_append (z :: rest) ls2 p.2 x h.2.2 hl h2⟩

/-- on a tiled list the leaves are strictly ordered, at or after the start -/
theorem tiled_strict {L : Str} : ∀ (ls : List (Span × Bool)) (i : Nat), Tiled L i ls →
    (∀ x ∈ ls, i ≤ x.1.1) ∧ ls.Pairwise (fun a b => a.1.1 < b.1.1)
  | [], _, _ => ⟨fun x hx => (by cases hx), List.Pairwise.nil⟩
  | (p, b) :: rest, i, h => by
    obtain ⟨h1, h2, h3⟩ := h
    obtain ⟨ih1, ih2⟩ := tiled_strict rest p.2 h3
    have hip : i ≤ p.1 := h2.1
    refine ⟨?_, List.pairwise_cons.mpr ⟨?_, ih2⟩⟩
    · intro x hx
      rcases List.mem_cons.mp hx with rfl | hx
      · exact hip
      · have := ih1 x hx; omega
    · intro x hx
      have := ih1 x hx
      show p.1 < x.1.1
      omega

theorem eq_of_start {ls : List (Span × Bool)} (h : ls.Pairwise (fun a b => a.1.1 < b.1.1)) :
    ∀ a ∈ ls, ∀ b ∈ ls, a.1.1 = b.1.1 → a = b := by
  induction ls with
  | nil => intro a ha; cases ha
  | cons y ys ih =>
    obtain ⟨h1, h2⟩ := List.pairwise_cons.mp h
    intro a ha b hb hab
    rcases List.mem_cons.mp ha with ha | ha
    · rcases List.mem_cons.mp hb with hb | hb
      · rw [ha, hb]
      · have := h1 b hb; rw [ha] at hab; omega
    · rcases List.mem_cons.mp hb with hb | hb
      · have := h1 a ha; rw [hb] at hab; omega
      · exact ih h2 a ha b hb hab

/-- on a tiled list `sortSpans` (if it sorts) changes nothing -/
theorem sortSpans_tiled {L : Str} {ls : List (Span × Bool)} {i : Nat} (h : Tiled L i ls)
    (hs : SortOK ls) : sortSpans ls = ls := by
  have hst := (tiled_strict ls i h).2
  have hsd : (sortSpans ls).Pairwise (fun a b : Span × Bool => a.1.1 ≤ b.1.1) := hs.sorted
  refine List.Perm.eq_of_pairwise (le := fun a b : Span × Bool => a.1.1 ≤ b.1.1) ?_ hsd ?_ hs.perm
  · intro a b ha hb h1 h2
    exact eq_of_start hst a (hs.perm.mem_iff.mp ha) b hb (by omega)
  · exact hst.imp (fun h => Nat.le_of_lt h)

/-! ## the decidable conditions on the result -/

/-- no leaf is flagged as a here-document body, none is empty, all end inside the input -/
def plainLeaves (s : Str) (parts : List Node) : Bool :=
  (leavesL parts).all fun x => !x.2 && decide (x.1.1 < x.1.2) && decide (x.1.2 ≤ s.length)

/-- every part ends where its last leaf ends -/
def rootsAtLeaves (parts : List Node) : Bool :=
  parts.all fun part =>
    match (leaves part).getLast? with
    | some x => nextIndex part == x.1.2
    | none => false

theorem leavesL_cons (n : Node) (ns : List Node) : leavesL (n :: ns) = leaves n ++ leavesL ns := by
  simp [leavesL]

/-- **the leaves of all parts tile the input** -/
theorem tiled_parts {s : Str} : ∀ {i : Nat} {parts : List Node}, PartsFinal s i parts →
    plainLeaves s parts = true → rootsAtLeaves parts = true → Tiled s i (leavesL parts) := by
  intro i parts h
  induction h with
  | done i _ => intro _ _; simp [leavesL]; exact True.intro
  | stop i _ => intro _ _; simp [leavesL]; exact True.intro
  | @cons i n rest hi _ hrun _ ih =>
    intro hpl hroot
    rw [leavesL_cons]
    have hls : leaves (n.shift i) = (leaves n).map (shL i) := leaves_shift i n
    unfold plainLeaves at hpl
    rw [leavesL_cons, List.all_append, Bool.and_eq_true] at hpl
    obtain ⟨hpl1, hpl2⟩ := hpl
    unfold rootsAtLeaves at hroot
    rw [List.all_cons, Bool.and_eq_true] at hroot
    obtain ⟨hroot1, hroot2⟩ := hroot
    have hfacts : ∀ x ∈ leaves n, x.2 = false ∧ x.1.1 < x.1.2 ∧ x.1.2 + i ≤ s.length := by
      intro x hx
      have hm : shL i x ∈ leaves (n.shift i) := by rw [hls]; exact List.mem_map_of_mem hx
      have hb := List.all_eq_true.mp hpl1 _ hm
      rw [Bool.and_eq_true, Bool.and_eq_true] at hb
      obtain ⟨⟨q1, q2⟩, q3⟩ := hb
      have q2' := of_decide_eq_true q2
      have q3' := of_decide_eq_true q3
      simp only [shL] at q1 q2' q3'
      exact ⟨by simpa using q1, by omega, q3'⟩
    obtain ⟨ts, la, B, st, hdata⟩ := hrun
    obtain ⟨_, _, _, _, _, _, _, _, _, _, htile⟩ := hdata
    have ht0 := htile (fun x hx => (hfacts x hx).1)
      (by unfold noEmptyLeaf; exact List.all_eq_true.mpr (fun x hx => by
            simpa using (hfacts x hx).2.1))
    have ht1 := tiled_shift hi (leaves n) 0 ht0 (fun x hx => (hfacts x hx).2.2)
    rw [Nat.zero_add, ← hls] at ht1
    cases hlast : (leaves (n.shift i)).getLast? with
    | none => rw [hlast] at hroot1; cases hroot1
    | some x =>
      rw [hlast] at hroot1
      simp only [beq_iff_eq] at hroot1
      have hxm : x ∈ leaves (n.shift i) := List.mem_of_getLast? hlast
      have hxi : i ≤ x.1.1 := (tiled_strict _ i ht1).1 x hxm
      have hxne : x.1.1 < x.1.2 := by
        rw [hls] at hxm
        obtain ⟨x0, hx0, rfl⟩ := List.mem_map.mp hxm
        have := (hfacts x0 hx0).2.1
        simp only [shL]; omega
      have hk : max (nextIndex (n.shift i)) (i + 1) = x.1.2 := by rw [hroot1]; omega
      have ih' := ih (by unfold plainLeaves; exact hpl2) (by unfold rootsAtLeaves; exact hroot2)
      rw [hk] at ih'
      exact tiled_append _ _ i x ht1 hlast ih'

/-- **C05, the executable `Spec.coverOK`, results without here-document bodies and D19**
    (see the header) -/
theorem C05_coverOK_plain (s : Str) (o : Opts) (parts : List Node)
    (hlen : s.length + 1 < 1073741824) (h : (parse s o).1 = .parts parts)
    (hsort : SortOK (leavesL parts)) (hpl : plainLeaves s parts = true)
    (hroot : rootsAtLeaves parts = true) :
    ∀ v ∈ coverOK s parts, v = "trailing-text-not-layout" := by
  have hpf := C05_final s o parts hlen (Totals.rootEndsChecked_all s o parts h) h
  have ht := tiled_parts hpf hpl hroot
  intro v hv
  unfold coverOK at hv
  rw [sortSpans_tiled ht hsort] at hv
  exact gapsOK_of_tiled s _ 0 false ht v hv

/-! ## the text behind the last leaf -/

theorem isLayout_nil (fuel : Nat) : isLayout fuel [] = true := by cases fuel <;> rfl

theorem dropWhile_snoc_nl : ∀ (r : Str),
    (r ++ ['\n']).dropWhile (· != '\n') =
      if r.dropWhile (· != '\n') = [] then ['\n'] else r.dropWhile (· != '\n') ++ ['\n']
  | [] => by simp
  | d :: r => by
    by_cases hd : d = '\n'
    · subst hd; simp
    · have hd' : (d != '\n') = true := by simpa using hd
      simp only [List.cons_append, List.dropWhile_cons, hd', if_true]
      exact dropWhile_snoc_nl r

/-- removing the final newline keeps a text layout (a final backslash is a continuation against
    the implicit newline, a final comment needs no newline: the two clauses of `isLayout`) -/
theorem isLayout_strip_nl : ∀ (fuel : Nat) (t : Str), isLayout fuel (t ++ ['\n']) = true →
    isLayout fuel t = true
  | _, [], _ => isLayout_nil _
  | 0, c :: r, h => by simp [isLayout] at h
  | f + 1, c :: r, h => by
    simp only [List.cons_append] at h
    unfold isLayout at h ⊢
    by_cases h1 : (c == ' ' || c == '\t' || c == '\n') = true
    · rw [if_pos h1] at h ⊢
      exact isLayout_strip_nl f r h
    · rw [if_neg h1] at h ⊢
      by_cases hb : c = '\\'
      · subst hb
        cases r with
        | nil => simp
        | cons d r' =>
          by_cases hd : d = '\n'
          · subst hd
            simp only [List.cons_append, List.head?_cons, beq_self_eq_true, Bool.and_self, if_true,
              List.drop_succ_cons, List.drop_zero] at h ⊢
            exact isLayout_strip_nl f r' h
          · exfalso
            simp [hd] at h
      · have hb' : (c == '\\') = false := by simpa using hb
        simp only [hb', Bool.false_and, Bool.false_eq_true, if_false] at h ⊢
        by_cases hh : (c == '#') = true
        · rw [if_pos hh] at h ⊢
          rw [dropWhile_snoc_nl] at h
          by_cases he : r.dropWhile (· != '\n') = []
          · rw [he]; exact isLayout_nil _
          · rw [if_neg he] at h
            exact isLayout_strip_nl f _ h
        · rw [if_neg hh] at h
          cases h

/-- the text of a run that returned `None` is layout -/
theorem none_text_layout {s0 : Str} (h : CharsNone s0) : ∀ fuel, s0.length + 1 ≤ fuel →
    isLayout fuel s0 = true := by
  obtain ⟨_, _, _, _, _, _, _, _, hLF⟩ := h
  intro fuel hf
  unfold Tape.ofInput at hLF
  split at hLF
  · exact hLF.whole fuel (by simp only []; omega)
  · split at hLF
    · exact hLF.whole fuel (by simp only []; omega)
    · exact isLayout_strip_nl fuel s0 (hLF.whole fuel (by simp; omega))

/-- the end of the last leaf, or `i` -/
def lastEnd (i : Nat) (ls : List (Span × Bool)) : Nat := (ls.getLast?.map (·.1.2)).getD i

theorem lastEnd_append {ls1 ls2 : List (Span × Bool)} {x : Span × Bool} (i : Nat)
    (h : ls1.getLast? = some x) : lastEnd i (ls1 ++ ls2) = lastEnd x.1.2 ls2 := by
  unfold lastEnd
  cases ls2 with
  | nil => simp [h]
  | cons y ys =>
    have hne : (y :: ys).getLast? = some ((y :: ys).getLast (by simp)) :=
      List.getLast?_eq_some_getLast (by simp)
    rw [List.getLast?_append, hne]
    simp

theorem gapsOK_tiled_nil (L : Str) : ∀ (ls : List (Span × Bool)) (i : Nat) (pb : Bool),
    Tiled L i ls → isLayout (L.length + 1) (L.drop (lastEnd i ls)) = true →
    gapsOK L i pb ls = []
  | [], i, pb, _, h => by
    unfold gapsOK
    have : lastEnd i [] = i := rfl
    rw [this] at h
    rw [if_pos h]
  | (p, b) :: rest, i, pb, ht, h => by
    obtain ⟨h2, h3, h4⟩ := ht
    have h1 := h3.1
    have hle := h3.2.1
    unfold gapsOK
    rw [if_neg (by omega), if_pos (h3.2.2 _ (by omega))]
    simp only [List.nil_append]
    have e : max i p.2 = p.2 := by omega
    rw [e]
    have hl : lastEnd i ((p, b) :: rest) = lastEnd p.2 rest := by
      have := lastEnd_append (ls1 := [(p, b)]) (ls2 := rest) (x := (p, b)) i rfl
      simpa using this
    rw [hl] at h
    exact gapsOK_tiled_nil L rest p.2 _ h4 h

/-- the text behind the last leaf of all parts is layout -/
theorem trail_parts {s : Str} : ∀ {i : Nat} {parts : List Node}, PartsFinal s i parts →
    plainLeaves s parts = true → rootsAtLeaves parts = true →
    isLayout (s.length + 1) (s.drop (lastEnd i (leavesL parts))) = true := by
  intro i parts h
  induction h with
  | done i hi =>
    intro _ _
    have : lastEnd i (leavesL []) = i := by simp [leavesL, lastEnd]
    rw [this, List.drop_eq_nil_of_le hi]
    rfl
  | stop i hn =>
    intro _ _
    have : lastEnd i (leavesL []) = i := by simp [leavesL, lastEnd]
    rw [this]
    exact none_text_layout hn _ (by rw [List.length_drop]; omega)
  | @cons i n rest hi _ hrun _ ih =>
    intro hpl hroot
    have ht := tiled_parts (PartsFinal.cons hi (by assumption) hrun (by assumption)) hpl hroot
    rw [leavesL_cons] at ht ⊢
    unfold plainLeaves at hpl
    rw [leavesL_cons, List.all_append, Bool.and_eq_true] at hpl
    unfold rootsAtLeaves at hroot
    rw [List.all_cons, Bool.and_eq_true] at hroot
    cases hlast : (leaves (n.shift i)).getLast? with
    | none => rw [hlast] at hroot; cases hroot.1
    | some x =>
      have hr1 := hroot.1
      rw [hlast] at hr1
      simp only [beq_iff_eq] at hr1
      have hxm : x ∈ leaves (n.shift i) := List.mem_of_getLast? hlast
      have hxm' : x ∈ leaves (n.shift i) ++ leavesL rest := List.mem_append_left _ hxm
      have hxi : i ≤ x.1.1 := (tiled_strict _ i ht).1 x hxm'
      have hxne : x.1.1 < x.1.2 := by
        have hb := List.all_eq_true.mp hpl.1 x hxm
        rw [Bool.and_eq_true, Bool.and_eq_true] at hb
        exact of_decide_eq_true hb.1.2
      have hk : max (nextIndex (n.shift i)) (i + 1) = x.1.2 := by rw [hr1]; omega
      have ih' := ih (by unfold plainLeaves; exact hpl.2) (by unfold rootsAtLeaves; exact hroot.2)
      rw [hk] at ih'
      rw [lastEnd_append i hlast]
      exact ih'

/-- **C05, the executable `Spec.coverOK` reports NOTHING** on results without here-document
    bodies and D19 (conditions as for `C05_coverOK_plain`): also the text behind the last leaf is
    layout (the loop of `parse` ends at the end of the input or with a run over layout) -/
theorem C05_coverOK_plain_nil (s : Str) (o : Opts) (parts : List Node)
    (hlen : s.length + 1 < 1073741824) (h : (parse s o).1 = .parts parts)
    (hsort : SortOK (leavesL parts)) (hpl : plainLeaves s parts = true)
    (hroot : rootsAtLeaves parts = true) : coverOK s parts = [] := by
  have hpf := C05_final s o parts hlen (Totals.rootEndsChecked_all s o parts h) h
  have ht := tiled_parts hpf hpl hroot
  unfold coverOK
  rw [sortSpans_tiled ht hsort]
  exact gapsOK_tiled_nil s _ 0 false ht (trail_parts hpf hpl hroot)

/-- the per-run statement, without `rootEndsChecked` -/
theorem C05_run_gapsOK (s : Str) (o : Opts) (parts : List Node)
    (hlen : s.length + 1 < 1073741824) (h : (parse s o).1 = .parts parts) :
    ∀ part ∈ parts, ∃ k n, k ≤ s.length ∧ part = n.shift k ∧
      ((∀ x ∈ leaves n, x.2 = false) → noEmptyLeaf (leaves n) = true →
        ∀ v ∈ gapsOK (Tape.ofInput (s.drop k)).line 0 false (leaves n),
          v = "trailing-text-not-layout") := by
  intro part hp
  obtain ⟨k, n, _, hk, rfl, _, ⟨ts, la, B, st, hd⟩⟩ :=
    (C05_final s o parts hlen (Totals.rootEndsChecked_all s o parts h) h).mem part hp
  exact ⟨k, n, hk, rfl, fun hfl hne => run_gapsOK hd hfl hne⟩

end Bashlex.C05

#print axioms Bashlex.C05.C05_coverOK_plain
#print axioms Bashlex.C05.C05_coverOK_plain_nil
#print axioms Bashlex.C05.C05_run_gapsOK
