/-
  Property C05, `Spec.coverOK`, follow-up to `Props/C05Cover.lean`: the condition `rootsAtLeaves`
  ("every part ends where its last leaf ends") DERIVED, for parts whose LAST SPINE -- the chain
  root, last child, last child of that, … down to a leaf -- consists of `list` / `pipeline` /
  `command` nodes only (`spineOK`, decidable on the result; true of every part that does not
  END in a compound command, a function definition or a here-document).

  Source: C03's span invariant (`TopOK` of every run, in `C05_final`): `LocOK.fl` says that a
  `list` / `pipeline` / `command` node ends where its last child ends (unless that child is a
  redirect carrying a here-document body).  C03 has no such clause for `compound`, `if`, `for`,
  `while`, `case`, `function` nodes (nor has `Spec.spansWF`), which is why the spine is
  restricted; for those the fact needs the pass of `Props/C03/RE` with a predicate indexed by the
  token log (RE proves the fixed text predicate `EG` only) -- NOT done.

  `rootsAtLeaves_of_spine`, `C05_coverOK_spine_nil`: `Spec.coverOK s parts = []` under `SortOK`,
  `plainLeaves`, `spineOK`.
  `Array.qsort`: neither core Lean 4.33 nor Mathlib has lemmas about it (grep: only uses in
  tactics); `SortOK` stays a decidable per-input condition.
-/
import Bashlex.Props.C05Cover

namespace Bashlex.C05
open Bashlex Bashlex.Spec Bashlex.Node Bashlex.C03
set_option linter.unusedSimpArgs false
set_option linter.unusedVariables false

/-- the last spine of `n` runs through `list` / `pipeline` / `command` nodes down to a node that
    is a leaf of `Spec.leaves` at its own span (fuel: the depth) -/
def lastSpine : Nat → Node → Bool
  | 0, _ => false
  | f + 1, n =>
    match n with
    | .command _ ps | .pipeline _ ps | .list _ ps =>
      (match ps.getLast? with
       | some c => lastSpine f c
       | none => false)
    | .word .. | .assignment .. | .operator .. | .reservedword .. | .pipe .. => true
    | .redirect _ _ _ _ _ none _ => true
    | _ => false

theorem leavesL_append : ∀ (a b : List Node), leavesL (a ++ b) = leavesL a ++ leavesL b
  | [], b => by simp [leavesL]
  | n :: a, b => by simp [leavesL, leavesL_append a b, List.append_assoc]

theorem leavesL_single (c : Node) : leavesL [c] = leaves c := by simp [leavesL]

/-- a redirect that carries a body has a flagged leaf -/
theorem flagged_of_heredoc {c : Node} (h : isRedirectWithHeredoc c = true) :
    ∃ x ∈ leaves c, x.2 = true := by
  cases c with
  | redirect p i t o oa hd hid =>
    cases hd with
    | none => simp [isRedirectWithHeredoc] at h
    | some b =>
      simp only [leaves]
      split
      · exact ⟨(p, true), by simp, rfl⟩
      · exact ⟨(b.pos, true), by simp, rfl⟩
  | _ => simp [isRedirectWithHeredoc] at h

/-- one step down the spine -/
theorem spine_step {len : Nat} {n c : Node} {ps : List Node} (hch : n.children = ps)
    (hlv : leaves n = leavesL ps) (hsp : spansItsParts n = true) (hrw : isRW n = false)
    (hs : Strict len n) (ht : tainted n = false) (hfl : ∀ x ∈ leaves n, x.2 = false)
    (hlast : ps.getLast? = some c)
    (ih : Strict len c → tainted c = false → (∀ x ∈ leaves c, x.2 = false) →
      ∃ x, (leaves c).getLast? = some x ∧ x.1.2 = c.pos.2) :
    ∃ x, (leaves n).getLast? = some x ∧ x.1.2 = n.pos.2 := by
  have hcm : c ∈ n.children := by rw [hch]; exact List.mem_of_getLast? hlast
  obtain ⟨hn, hkids⟩ := strict_iff.mp hs
  have hps : ps = ps.dropLast ++ [c] := by
    have hne : ps ≠ [] := by intro h0; rw [h0] at hlast; cases hlast
    have h1 := List.dropLast_concat_getLast hne
    have h2 : ps.getLast hne = c := by
      have := List.getLast?_eq_some_getLast hne
      rw [hlast] at this
      exact (Option.some.inj this).symm
    rw [h2] at h1
    exact h1.symm
  have hlc : ∀ x ∈ leaves c, x ∈ leaves n := by
    intro x hx
    rw [hlv, hps, leavesL_append, leavesL_single]
    exact List.mem_append_right _ hx
  obtain ⟨x, hx1, hx2⟩ := ih (hkids c hcm) (untainted_child hcm ht) (fun x hx => hfl x (hlc x hx))
  refine ⟨x, ?_, ?_⟩
  · rw [hlv, hps, leavesL_append, leavesL_single, List.getLast?_append, hx1]
    rfl
  · rw [hx2]
    rcases hn with h | h | h
    · rw [h] at ht; cases ht
    · obtain ⟨a, b, _, hb, _, hend⟩ := h.fl hsp
      rw [hch, hlast] at hb
      cases hb
      rcases hend with hend | hend
      · exact hend.symm
      · obtain ⟨y, hy, hyt⟩ := flagged_of_heredoc hend
        rw [hfl y (hlc y hy)] at hyt
        cases hyt
    · rw [hrw] at h; cases h.1

/-- **a node with a simple last spine ends where its last leaf ends** -/
theorem spine_end {len : Nat} : ∀ (f : Nat) (n : Node), Strict len n → tainted n = false →
    (∀ x ∈ leaves n, x.2 = false) → lastSpine f n = true →
    ∃ x, (leaves n).getLast? = some x ∧ x.1.2 = n.pos.2
  | 0, _, _, _, _, h => by simp [lastSpine] at h
  | f + 1, n, hs, ht, hfl, h => by
    cases n with
    | command p ps =>
      simp only [lastSpine] at h
      cases hl : ps.getLast? with
      | none => rw [hl] at h; cases h
      | some c =>
        rw [hl] at h
        exact spine_step (ps := ps) rfl (by simp [leaves]) rfl rfl hs ht hfl hl
          (fun a b c' => spine_end f c a b c' h)
    | pipeline p ps =>
      simp only [lastSpine] at h
      cases hl : ps.getLast? with
      | none => rw [hl] at h; cases h
      | some c =>
        rw [hl] at h
        exact spine_step (ps := ps) rfl (by simp [leaves]) rfl rfl hs ht hfl hl
          (fun a b c' => spine_end f c a b c' h)
    | list p ps =>
      simp only [lastSpine] at h
      cases hl : ps.getLast? with
      | none => rw [hl] at h; cases h
      | some c =>
        rw [hl] at h
        exact spine_step (ps := ps) rfl (by simp [leaves]) rfl rfl hs ht hfl hl
          (fun a b c' => spine_end f c a b c' h)
    | word p w ps => exact ⟨(p, false), by simp [leaves], rfl⟩
    | assignment p w ps => exact ⟨(p, false), by simp [leaves], rfl⟩
    | operator p w => exact ⟨(p, false), by simp [leaves], rfl⟩
    | reservedword p w => exact ⟨(p, false), by simp [leaves], rfl⟩
    | pipe p w => exact ⟨(p, false), by simp [leaves], rfl⟩
    | redirect p i t o oa hd hid =>
      cases hd with
      | none => exact ⟨(p, false), by simp [leaves], rfl⟩
      | some b => simp [lastSpine] at h
    | _ => simp [lastSpine] at h

/-- the decidable condition on the result: no D19 below the part, no here-document below it, a
    simple last spine -/
def spineOK (parts : List Node) : Bool :=
  parts.all fun p => !containsD19 p && p.lastHeredocEnd.isNone && lastSpine (p.preorder.length) p

/-- **`rootsAtLeaves` derived** (from C03's span invariant) -/
theorem rootsAtLeaves_of_spine {s : Str} : ∀ {i : Nat} {parts : List Node}, PartsFinal s i parts →
    plainLeaves s parts = true → spineOK parts = true → rootsAtLeaves parts = true := by
  intro i parts h
  induction h with
  | done i _ => intro _ _; rfl
  | stop i _ => intro _ _; rfl
  | @cons i n rest hi htop _ _ ih =>
    intro hpl hsp
    unfold plainLeaves at hpl
    rw [leavesL_cons, List.all_append, Bool.and_eq_true] at hpl
    unfold spineOK at hsp
    rw [List.all_cons, Bool.and_eq_true] at hsp
    obtain ⟨hsp1, hsp2⟩ := hsp
    simp only [Bool.and_eq_true, Bool.not_eq_true', Option.isNone_iff_eq_none] at hsp1
    obtain ⟨⟨hd19, hhd⟩, hspine⟩ := hsp1
    have hstrict : Strict s.length (n.shift i) :=
      strict_shift_top htop.strict (by rw [List.length_drop]; omega)
    have hfl : ∀ x ∈ leaves (n.shift i), x.2 = false := by
      intro x hx
      have hb := List.all_eq_true.mp hpl.1 x hx
      rw [Bool.and_eq_true, Bool.and_eq_true] at hb
      simpa using hb.1.1
    obtain ⟨x, hx1, hx2⟩ := spine_end _ _ hstrict hd19 hfl hspine
    unfold rootsAtLeaves
    rw [List.all_cons, Bool.and_eq_true]
    refine ⟨?_, ih (by unfold plainLeaves; exact hpl.2) (by unfold spineOK; exact hsp2)⟩
    rw [hx1]
    simp only [beq_iff_eq]
    unfold nextIndex
    rw [hhd]
    exact hx2.symm

/-- **C05, `Spec.coverOK s parts = []`** for results without here-document bodies and D19 whose
    parts have a simple last spine: conditions `SortOK`, `plainLeaves`, `spineOK`, all decidable
    on the result; `rootsAtLeaves` is derived -/
theorem C05_coverOK_spine_nil (s : Str) (o : Opts) (parts : List Node)
    (hlen : s.length + 1 < 1073741824) (h : (parse s o).1 = .parts parts)
    (hsort : SortOK (leavesL parts)) (hpl : plainLeaves s parts = true)
    (hsp : spineOK parts = true) : coverOK s parts = [] := by
  have hpf := C05_final s o parts hlen (Totals.rootEndsChecked_all s o parts h) h
  exact C05_coverOK_plain_nil s o parts hlen h hsort hpl (rootsAtLeaves_of_spine hpf hpl hsp)

end Bashlex.C05

#print axioms Bashlex.C05.rootsAtLeaves_of_spine
#print axioms Bashlex.C05.C05_coverOK_spine_nil
