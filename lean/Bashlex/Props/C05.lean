/-
  Property C05 ("complete AST: no token of an accepted input is dropped or duplicated") at model
  level, TOKEN-LEVEL half, for the parser above the tokenizer:

    for every input and all options, every tree `parse` / `parsesingle` returns has leaves
    (`Spec.leaves`, in tree order) that are accounted for -- group by group, in order, nothing
    left over on either side (`FCovers`) -- by the tokens the tokenizer delivered to that parser
    run, except for at most one unconsumed look-ahead token;

  and the parts `parse` returns are exactly the successive parser runs, each restarted where the
  previous part (and its here-document bodies) ended (`PartsFrom`).

  The groups (`FGroup`, `Props/C05/Cover.lean`) say precisely which tokens become which leaves:
    leaf    one token ↦ one leaf at the token's span (words, assignments, reserved words incl.
            `(` `)` `{` `}` `!` `;;` `;&` `;;&` and `|` in patterns, operators `;` `&` `&&` `||`
            and NEWLINE where it separates commands, pipes `|` `|&`);
    redir   `[fd] op target` ↦ ONE leaf from the start of the first token to the end of the target;
    here    the same for `<<` / `<<-`; the leaf may have been extended to the right over the body
            (`HereOK`), and the body -- which is not a token -- is a leaf of its own when the
            redirect was not extended over it (`redirLeaves`);
    drop    one NEWLINE token ↦ no leaf.  THE ONLY TOKENS DROPPED ARE NEWLINES, in exactly these
            places (each witnessed in `C05/Witness.lean`):
              - NEWLINEs before the first command of a parser run (shifted in state 0);
              - `simple_list_terminator : NEWLINE` (the end of a top-level command);
              - `newline_list : newline_list NEWLINE` (blank lines after `&&`, `||`, `|`, `;`,
                NEWLINE, keywords, `in`, `)` of a case pattern, ...);
              - `list_terminator : NEWLINE` (after `for x in words`, after `!` / `time`);
              - `list0 : list1 NEWLINE newline_list` when `list1` is a single command
                (`{ a⏎}`, `if a⏎then`): with two or more commands the NEWLINE IS an operator leaf;
            kept are: `;` everywhere (also `list_terminator : SEMICOLON`, reserved word in `for`),
            `;;` `;&` `;;&`, `(` `)` `{` `}`, all keywords;
    d19     DEFECT D19 (only with `proceedonerror`): the tokens of a `time` specification
            (TIME / TIMEOPT / TIMEIGN) ↦ ONE leaf at (0, 0) (`p_pipeline_command` drops the
            `timespec` node and invents a `!` reserved word at `p.lexspan(1) = (0, 0)`).
            Excluded by the decidable predicate `noEmptyLeaf` (`fcovers_strict`).

  Hypothesis (named, explicit): `TokLog TL` -- C03's hypothesis on the token source `TokSpans`,
  for a ghost tokenizer invariant `TL ts …` that also pins the *log* `ts` of delivered tokens --
  and C03's `RootEnds`.  The theorem holds for EVERY such `TL`: whatever the tokenizer guarantees
  about the sequence of delivered tokens (e.g. `TokGaps`: it skips only layout between tokens)
  transfers to the leaves.  The character-level half of C05 ("text outside leaf spans is layout")
  needs exactly such a tokenizer fact and is NOT proved here; D11 (a here-document body inside
  `( )`, `{ }`, … is also tokenized as commands: `leaf-overlap+heredoc-body`) is a defect of that
  half: at token level the statement holds for those inputs too.

  Architecture (same as C03; robust against renumbering of productions):
    LR/SoundOrdH.lean   `run_sound_ordH`: `run_sound_ord` with two more hints for the client
    C05/Cover.lean      `aleaves`, `leaves_resolve`, `Covers` / `FCovers`
    C05/Actions.lean    one lemma per action function of parser.py (state-agnostic)
    C05/Grammar.lean    grammar / table facts decided by the kernel
    C05/Engine.lean     `Acc`, `act_leaves` (dispatch)
    C05/Hooks.lean      `TokLog`, `SIL`, `leaves_hooks : HooksOrdH …`
    C05/Run.lean        `parserRun_leaves`
    C05/Witness.lean    witnesses
    C05/Gaps.lean       (imports this file) `TokLog.sorted`: the consumed tokens have ordered
                        spans; `C05_tokens_in_leaves`: spatially, every consumed token is a dropped
                        NEWLINE, a D19 `time` token, or lies inside a leaf, and every leaf but
                        here-document bodies and D19's starts at a consumed token; `TokGaps`
                        (stated only)
-/
import Bashlex.Props.C05.Run
import Bashlex.Props.C13.Shift

namespace Bashlex.C05
open Bashlex Bashlex.Spec Bashlex.Node Bashlex.M Bashlex.LR Bashlex.C03
set_option linter.unusedSimpArgs false
set_option linter.unusedVariables false

/-! ## leaves of a shifted tree -/

def shL (k : Nat) (x : Span × Bool) : Span × Bool := ((x.1.1 + k, x.1.2 + k), x.2)

theorem spanIn_sh (k : Nat) (b p : Span) : spanIn (b.1 + k, b.2 + k) (p.1 + k, p.2 + k) = spanIn b p := by
  simp [spanIn]

mutual
theorem leaves_shift (k : Nat) : (n : Node) → leaves (n.shift k) = (leaves n).map (shL k)
  | .operator .. | .reservedword .. | .pipe .. | .word .. | .assignment .. | .parameter ..
  | .tilde .. | .heredoc .. | .commandsubstitution .. | .processsubstitution .. => by
    simp [Node.shift, mapPos, leaves, shL]
  | .list _ ps | .pipeline _ ps | .ifN _ ps | .forN _ ps | .whileN _ ps | .untilN _ ps
  | .caseN _ ps | .pattern _ ps | .command _ ps | .unimplemented _ ps | .function _ _ _ ps => by
    simp only [Node.shift, mapPos, leaves]
    exact leavesL_shift k ps
  | .compound _ l r => by
    simp only [Node.shift, mapPos, leaves, List.map_append]
    have h1 := leavesL_shift k l
    have h2 := leavesL_shift k r
    rw [h1, h2]
  | .redirect p i t o oa h hid => by
    cases h with
    | none => simp [Node.shift, mapPos, mapPosO, leaves, shL]
    | some b =>
      simp only [Node.shift, mapPos, mapPosO, leaves]
      rw [C03.pos_mapPos]
      simp only [spanIn_sh]
      split <;> simp [shL]
theorem leavesL_shift (k : Nat) :
    (l : List Node) → leavesL (mapPosL (fun p => (p.1 + k, p.2 + k)) l) = (leavesL l).map (shL k)
  | [] => by simp [mapPosL, leavesL]
  | n :: ns => by
    simp only [mapPosL, leavesL, List.map_append]
    have h1 := leaves_shift k n
    have h2 := leavesL_shift k ns
    unfold Node.shift at h1
    rw [h1, h2]
end

/-! ## the parts of `parse` -/

/-- **the parts `parse` returns from index `i` on**: each part is what a parser run over
    `s[i:]` returned (`RunOK`: fine, and its leaves are covered by the tokens delivered to that
    run), moved by `i`; the next run starts where the part, and its here-document bodies, end
    (`max(part.pos[1], ef.end, i + 1)`).  One part per run, in order, nothing in between. -/
inductive PartsFrom (TL : List Token → Nat → Nat → Local → Env → Prop) (s : Str) :
    Nat → List Node → Prop
  | nil (i : Nat) : PartsFrom TL s i []
  | cons {i : Nat} {n : Node} {rest : List Node} : i ≤ s.length → RunOK TL (s.drop i) n →
      PartsFrom TL s (max (nextIndex (n.shift i)) (i + 1)) rest →
      PartsFrom TL s i (n.shift i :: rest)

/-- every part is a parser run's result, moved -/
theorem PartsFrom.mem {TL : List Token → Nat → Nat → Local → Env → Prop} {s : Str} :
    ∀ {i : Nat} {ps : List Node}, PartsFrom TL s i ps → ∀ part ∈ ps,
      ∃ k n, i ≤ k ∧ k ≤ s.length ∧ part = n.shift k ∧ RunOK TL (s.drop k) n := by
  intro i ps h
  induction h with
  | nil i => intro part hp; cases hp
  | @cons i n rest hi hrun _ ih =>
    intro part hp
    rcases List.mem_cons.mp hp with rfl | hp
    · exact ⟨i, n, Nat.le_refl i, hi, rfl, hrun⟩
    · obtain ⟨k, m, h1, h2, h3, h4⟩ := ih part hp
      refine ⟨k, m, ?_, h2, h3, h4⟩
      have : i + 1 ≤ max (nextIndex (n.shift i)) (i + 1) := Nat.le_max_right _ _
      omega

/-- the named hypotheses, bundled -/
structure TokLogAll (TL : List Token → Nat → Nat → Local → Env → Prop) : Prop where
  tok : TokLog TL
  rootEnds : RootEnds

section
variable {TL : List Token → Nat → Nat → Local → Env → Prop}

theorem runParser_leaves (hL : TokLog TL) (hR : RootEnds) {s : Str} {o : Opts} {t : List Char}
    {n : Node} (h : (runParser s o t).1 = .ok (some n)) : RunOK TL s n := by
  unfold runParser at h
  simp only [] at h
  rcases hrun : (parserRun maxDepth).run { limit := o.limit }
      { tape := Tape.ofInput s, strict := o.strict, proceed := o.proceed, touched := t } with ⟨r, env'⟩
  rw [hrun] at h
  simp only [] at h
  cases r with
  | error x => cases h
  | ok v =>
    obtain ⟨a, l'⟩ := v
    have ha : a = some n := by
      simp only [Except.map] at h
      cases h; rfl
    have hinit : InitState s ({ limit := o.limit } : Local)
        { tape := Tape.ofInput s, strict := o.strict, proceed := o.proceed, touched := t } :=
      ⟨rfl, rfl, rfl, rfl, Or.inr ⟨rfl, rfl⟩⟩
    exact (parserRun_leaves hL hR maxDepth s).ok hinit hrun n ha

theorem parseLoop_leaves (hL : TokLog TL) (hR : RootEnds) (s : Str) (o : Opts) :
    ∀ (fuel index : Nat) (acc : List Node) (touched : List Char) (ps : List Node),
      (parseLoop s o fuel index acc touched).1 = .ok ps →
      ∃ rest, ps = acc ++ rest ∧ PartsFrom TL s index rest := by
  intro fuel
  induction fuel with
  | zero => intro index acc touched ps h; simp [parseLoop] at h
  | succ fuel ih =>
    intro index acc touched ps h
    unfold parseLoop at h
    split at h
    · rename_i hidx
      rcases hr : runParser (s.drop index) o touched with ⟨r, t⟩
      rw [hr] at h
      cases r with
      | error e => simp only [] at h; cases h
      | ok v =>
        cases v with
        | none => simp only [] at h; cases h; exact ⟨[], by simp, .nil _⟩
        | some part =>
          simp only [] at h
          have hp : RunOK TL (s.drop index) part := runParser_leaves hL hR (by rw [hr])
          obtain ⟨rest, hps, hrest⟩ := ih _ _ _ ps h
          exact ⟨part.shift index :: rest, by simp [hps], .cons (Nat.le_of_lt hidx) hp hrest⟩
    · cases h; exact ⟨[], by simp, .nil _⟩

/-- C05 (token level) for `parse`, for every token source satisfying `TokLog` -/
theorem parse_leaves (hL : TokLog TL) (hR : RootEnds) (s : Str) (o : Opts) (parts : List Node)
    (h : (parse s o).1 = .parts parts) : PartsFrom TL s 0 parts := by
  unfold parse at h
  rcases hr : runParser s o [] with ⟨r, t⟩
  rw [hr] at h
  cases r with
  | error e => simp only [] at h; cases h
  | ok v =>
    cases v with
    | none => simp only [] at h; cases h; exact .nil _
    | some first =>
      simp only [] at h
      have hp : RunOK TL s first := runParser_leaves hL hR (by rw [hr])
      rcases hl : parseLoop s o (s.length + 1) (max (nextIndex first) 1) [first] t with ⟨r2, t2⟩
      rw [hl] at h
      cases r2 with
      | error e => simp only [] at h; cases h
      | ok ps =>
        simp only [] at h
        cases h
        obtain ⟨rest, hps, hrest⟩ := parseLoop_leaves hL hR s o _ _ _ _ parts (by rw [hl])
        rw [hps]
        have h0 : first.shift 0 = first := Node.shift_zero first
        have := PartsFrom.cons (TL := TL) (s := s) (i := 0) (n := first) (rest := rest)
          (Nat.zero_le _) (by simpa using hp) (by rw [h0]; simpa using hrest)
        rw [h0] at this
        simpa using this

end

/-- **C05 (model level, token-level half), `parse`**: under the hypothesis on the token source,
    for every input and all options, the parts returned are the successive parser runs'
    results, and the leaves of each are covered -- no token dropped (other than NEWLINEs) or
    duplicated, no leaf invented (other than D19's) -- by the tokens delivered to its run. -/
theorem C05_partial (s : Str) (o : Opts) (parts : List Node)
    {TL : List Token → Nat → Nat → Local → Env → Prop} :
    TokLogAll TL → (parse s o).1 = .parts parts → PartsFrom TL s 0 parts := by
  rintro ⟨hL, hR⟩ h
  exact parse_leaves hL hR s o parts h

/-- the same, part by part: every returned part is a tree `n` a parser run over `s[k:]`
    returned, moved by `k`; its leaves are `Spec.leaves n` moved by `k` (`leaves_shift`), and
    `FCovers` relates them to the tokens of that run -/
theorem C05_partial_parts (s : Str) (o : Opts) (parts : List Node)
    {TL : List Token → Nat → Nat → Local → Env → Prop} :
    TokLogAll TL → (parse s o).1 = .parts parts → ∀ part ∈ parts,
      ∃ k n, k ≤ s.length ∧ part = n.shift k ∧ Spec.leaves part = (Spec.leaves n).map (shL k) ∧
        ∃ ts la F l e, TL (ts ++ la) (s.drop k).length F l e ∧ la.length ≤ 1 ∧ NoEOF ts ∧
          FCovers (s.drop k).length ts (Spec.leaves n) := by
  intro hA h part hp
  obtain ⟨k, n, _, hk, rfl, _, hcov⟩ := (C05_partial s o parts hA h).mem part hp
  exact ⟨k, n, hk, rfl, leaves_shift k n, hcov⟩

/-- the same theorem under the name the ground rules ask for when a hypothesis is left open -/
theorem C05_partial_conditional (s : Str) (o : Opts) (parts : List Node)
    {TL : List Token → Nat → Nat → Local → Env → Prop} (h : TokLogAll TL)
    (hp : (parse s o).1 = .parts parts) : PartsFrom TL s 0 parts :=
  C05_partial s o parts h hp

/-- **C05 (model level, token-level half), `parsesingle`** -/
theorem C05_partial_single (s : Str) (o : Opts) (n : Node)
    {TL : List Token → Nat → Nat → Local → Env → Prop} :
    TokLogAll TL → (parsesingle s o).1 = .single (some n) → RunOK TL s n := by
  rintro ⟨hL, hR⟩ h
  unfold parsesingle at h
  rcases hr : runParser s o [] with ⟨r, t⟩
  rw [hr] at h
  cases r with
  | error e => simp only [] at h; cases h
  | ok v' =>
    simp only [] at h
    cases h
    exact runParser_leaves hL hR (by rw [hr])

/-! ## the exclusion of D19, as a decidable predicate on the returned leaves -/

/-- no leaf has an empty span -/
def noEmptyLeaf (ls : List (Span × Bool)) : Bool := ls.all fun x => x.1.1 < x.1.2

/-- `FCovers` without the D19 group -/
inductive FCoversStrict (len : Nat) : List Token → List (Span × Bool) → Prop
  | nil : FCoversStrict len [] []
  | cons {ts ls ts' ls'} : FGroup len ts ls → ls ≠ [((0, 0), false)] →
      FCoversStrict len ts' ls' → FCoversStrict len (ts ++ ts') (ls ++ ls')

/-- if no returned leaf is empty, no token was replaced by an invented leaf: every group is a
    leaf, a dropped NEWLINE, or a redirection -/
theorem fcovers_strict {len : Nat} {ts : List Token} {ls : List (Span × Bool)}
    (h : FCovers len ts ls) (hne : noEmptyLeaf ls = true) : FCoversStrict len ts ls := by
  induction h with
  | nil => exact .nil
  | @cons ts1 ls1 ts2 ls2 hg _ ih =>
    unfold noEmptyLeaf at hne ih
    rw [List.all_append, Bool.and_eq_true] at hne
    refine .cons hg ?_ (ih hne.2)
    intro hc
    rw [hc] at hne
    simp at hne

end Bashlex.C05

#print axioms Bashlex.LR.run_sound_ordH
#print axioms Bashlex.C05.leaves_resolve
#print axioms Bashlex.C05.act_leaves
#print axioms Bashlex.C05.leaves_hooks
#print axioms Bashlex.C05.parserRun_leaves
#print axioms Bashlex.C05.C05_partial
#print axioms Bashlex.C05.C05_partial_parts
#print axioms Bashlex.C05.C05_partial_single
#print axioms Bashlex.C05.fcovers_strict
