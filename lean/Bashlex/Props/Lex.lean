/-
  Tie of the hand-written lexical constants of the model to the source (translator side).

  `Gen/Lex.lean` is regenerated on every run from the IMPORTED package: the token-type enumeration,
  `tokenizer._reserved`, `valid_reserved_first_command`, `sh_syntaxtab` as it stands after import, the
  flag enumerations, and the parameter lists with defaults of `parse`, `parsesingle`, `split`,
  `_parser.__init__` and `tokenizer.__init__`.  The model holds the same constants by hand
  (`Basic.lean`: `TokType`, `strValue`, `reservedTypes`, `reservedChars`, `reservedFirstCommand`,
  `synClass`, `WordFlag`, `PState`; `Model/Tokenizer.lean`: `enumValue`; `Model/Parse.lean`: the defaults
  of `Opts`).  The theorems below are decided by the kernel against the regenerated file, so an edit of a
  table, of an enum value or of a default in the source breaks a proof obligation at once (and the
  property's check then searches for a failing input).
-/
import Bashlex.Gen.Lex
import Bashlex.Model.Tokenizer
import Bashlex.Model.Parse

namespace Bashlex.Props.Lex
open Bashlex

/-- equal as sets -/
def sameSet {α : Type} [BEq α] (a b : List α) : Bool := a.all (b.contains ·) && b.all (a.contains ·)

/-- the model's view of `tokenizer.tokentype` -/
def modelTokenTypes : List (String × Option String × Nat) :=
  TokType.all.map fun t =>
    (t.name, t.strValue, match t.enumValue with | .int n => n | _ => 0)

/-- every member of `tokentype` is a constructor of `TokType` with the same value, and conversely; no
    two members share a value (aliases would be dropped by the enumeration and change the count) -/
theorem tokenTypes_agree :
    sameSet Gen.tokenTypes modelTokenTypes = true ∧ Gen.tokenTypes.length = TokType.all.length := by
  decide

/-- the constructor list `TokType.all` is complete -/
theorem tokType_all_complete (t : TokType) : t ∈ TokType.all := by
  cases t <;> decide

theorem reservedTypes_agree : sameSet Gen.reservedTypes (reservedTypes.map TokType.name) = true := by
  decide

theorem reservedChars_agree : sameSet Gen.reservedChars reservedChars = true := by decide

theorem reservedFirstCommand_agree :
    sameSet Gen.reservedFirstCommand (reservedFirstCommand.map fun p => (p.1, p.2.name)) = true ∧
    Gen.reservedFirstCommand.length = reservedFirstCommand.length := by
  decide

/-- the syntax class the generated table gives a character -/
def genSyn (c : Char) : SynClass :=
  match Gen.syntab.lookup c with
  | none => {}
  | some l => { dquote := l.contains "dquote", metac := l.contains "meta", quote := l.contains "quote",
                exp := l.contains "exp", brk := l.contains "break" }

/-- on ASCII the hand-written `synClass` is the imported `sh_syntaxtab`; all its keys are ASCII -/
theorem syntab_agree_ascii :
    (∀ n, n < 128 → synClass (Char.ofNat n) = genSyn (Char.ofNat n)) ∧
    Gen.syntab.all (fun p => p.1.toNat < 128) = true := by
  refine ⟨?_, by decide⟩
  decide

/-- the word flags the model uses exist in `flags.word` -/
theorem wordFlags_known :
    ([WordFlag.HASDOLLAR, .QUOTED, .ASSIGNMENT, .NOSPLIT, .NOGLOB, .COMPASSIGN, .ITILDE, .DQUOTE,
      .NOPROCSUB, .NOTILDE, .NOCOMSUB, .ASSIGNRHS, .TILDEEXP].all
        (fun f => Gen.wordFlags.contains f.name)) = true := by
  decide

/-- the parser flags the model keeps (`PState`) exist in `flags.parser` -/
theorem parserFlags_known :
    (["CASEPAT", "ALLOWOPNBRC", "DBLPAREN", "SUBSHELL", "CMDSUBST", "CASESTMT", "CONDCMD", "CONDEXPR",
      "COMPASSIGN", "ASSIGNOK", "EOFTOKEN", "REGEXP", "REDIRLIST"].all
        (fun f => Gen.parserFlags.contains f)) = true := by
  decide

def pyBool (b : Bool) : String := if b then "True" else "False"

/-- the parameter list the model's `Opts` stands for, with ITS defaults -/
def modelSig : List (String × String) :=
  let o : Opts := {}
  [("s", "<required>"), ("strictmode", pyBool o.strict),
   ("expansionlimit", match o.limit with | none => "None" | some _ => "<int>"),
   ("convertpos", pyBool o.convertpos), ("proceedonerror", pyBool o.proceed)]

/-- `parse` and `parsesingle` take exactly the options of `Opts` with the same defaults; `split` takes the
    string only; the constructors have the parameters the model passes explicitly -/
theorem signatures_agree :
    Gen.sigParse = modelSig ∧ Gen.sigParsesingle = modelSig ∧ Gen.sigSplit = [("s", "<required>")] ∧
    Gen.sigParser = [("s", "<required>"), ("strictmode", "True"), ("expansionlimit", "None"),
                     ("tokenizerargs", "None"), ("proceedonerror", "None")] ∧
    Gen.sigTokenizer = [("s", "<required>"), ("parserstate", "<required>"), ("strictmode", "True"),
                        ("eoftoken", "None"), ("lastreadtoken", "None"), ("tokenbeforethat", "None"),
                        ("twotokensago", "None")] := by
  decide

/-- all of the above -/
theorem lex_tables_agree : True ∧
    (sameSet Gen.tokenTypes modelTokenTypes = true ∧ Gen.tokenTypes.length = TokType.all.length) ∧
    sameSet Gen.reservedTypes (reservedTypes.map TokType.name) = true ∧
    sameSet Gen.reservedChars reservedChars = true ∧
    (sameSet Gen.reservedFirstCommand (reservedFirstCommand.map fun p => (p.1, p.2.name)) = true ∧
      Gen.reservedFirstCommand.length = reservedFirstCommand.length) ∧
    ((∀ n, n < 128 → synClass (Char.ofNat n) = genSyn (Char.ofNat n)) ∧
      Gen.syntab.all (fun p => p.1.toNat < 128) = true) :=
  ⟨trivial, tokenTypes_agree, reservedTypes_agree, reservedChars_agree, reservedFirstCommand_agree,
   syntab_agree_ascii⟩

end Bashlex.Props.Lex

#print axioms Bashlex.Props.Lex.lex_tables_agree
#print axioms Bashlex.Props.Lex.signatures_agree
#print axioms Bashlex.Props.Lex.wordFlags_known
#print axioms Bashlex.Props.Lex.parserFlags_known
#print axioms Bashlex.Props.Lex.tokType_all_complete
