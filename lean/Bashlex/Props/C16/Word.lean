/-
  C16, part 3: word expansion in two runs whose nested parsers are related.
-/
import Bashlex.Props.C16.Rel
import Bashlex.Props.C16.MapW
import Bashlex.Model.Subst

namespace Bashlex.C16
open Bashlex Bashlex.Spec Bashlex.Node Bashlex.M Bashlex.LR
set_option linter.unusedSimpArgs false
set_option linter.unusedVariables false
set_option linter.unusedSectionVars false

variable [EnvRel]

/-- what the word level needs of the relation between the results of the nested parsers -/
structure NOK (N : Node → Node → Prop) : Prop where
  pos : ∀ {a b}, N a b → a.pos = b.pos
  bound : ∀ {a b}, N a b → ∀ P : Span → Bool,
    (a.preorder.all fun m => P m.pos) = true → (b.preorder.all fun m => P m.pos) = true
  shift : ∀ {a b}, N a b → ∀ k, N (a.shift k) (b.shift k)

def ORel (N : Node → Node → Prop) : Option Node → Option Node → Prop
  | none, none => True
  | some a, some b => N a b
  | _, _ => False

/-- the nested parsers of the two runs are related -/
def NPR (S : Local → Local → Prop) (N : Node → Node → Prop) (np₁ np₂ : NestedParse) : Prop :=
  ∀ s d, Rel S S (np₁ s d) (np₂ s d) (ORel N)

/-- parts of a word before filtering: substitutions carry related commands, everything else is
    identical -/
def PartR (N : Node → Node → Prop) (a b : Node) : Prop :=
  match a with
  | .commandsubstitution p c => ∃ c', b = .commandsubstitution p c' ∧ N c c'
  | .processsubstitution p c => ∃ c', b = .processsubstitution p c' ∧ N c c'
  | m => b = m

variable {S : Local → Local → Prop} {N : Node → Node → Prop}

theorem rel_adjustpositions (hN : NOK N) {a b : Node} (h : N a b) (base lim : Nat) :
    Rel S S (adjustpositions a base lim) (adjustpositions b base lim) N := by
  unfold adjustpositions
  by_cases hc : (a.preorder.all fun m => decide (m.pos.2 + base ≤ lim)) = true
  · have hc' := hN.bound h (fun p => decide (p.2 + base ≤ lim)) hc
    rw [if_pos hc, if_pos hc']; exact Rel.pure (hN.shift h base)
  · rw [if_neg hc]; exact Rel.foreign_left

theorem rel_recursiveparse (hN : NOK N) {np₁ np₂ : NestedParse} (hnp : NPR S N np₁ np₂)
    (base : Str) (sindex : Nat) (d : Bool) :
    Rel S S (recursiveparse np₁ base sindex d) (recursiveparse np₂ base sindex d)
      (fun r₁ r₂ => N r₁.1 r₂.1 ∧ r₁.2 = r₂.2) := by
  unfold recursiveparse
  refine Rel.bind (hnp _ _) ?_
  intro r₁ r₂ hr
  cases r₁ with
  | none => exact Rel.foreign_left
  | some a =>
    cases r₂ with
    | none => exact hr.elim
    | some b =>
      simp only []
      refine Rel.bind (rel_adjustpositions hN hr _ _) ?_
      intro a' b' h'
      exact Rel.pure ⟨h', by rw [hN.pos hr]⟩

theorem rel_parsedolparen (hN : NOK N) {np₁ np₂ : NestedParse} (hnp : NPR S N np₁ np₂)
    (base : Str) (sindex : Nat) :
    Rel S S (parsedolparen np₁ base sindex) (parsedolparen np₂ base sindex)
      (fun r₁ r₂ => N r₁.1 r₂.1 ∧ r₁.2 = r₂.2) := by
  unfold parsedolparen
  simp only []
  refine Rel.bind (rel_recursiveparse hN hnp _ _ _) ?_
  rintro ⟨a, e₁⟩ ⟨b, e₂⟩ ⟨h1, h2⟩
  simp only [] at h1 h2 ⊢
  subst h2
  cases (List.drop sindex base)[e₁]? with
  | none => exact Rel.foreign_left
  | some c => exact Rel.pure ⟨h1, rfl⟩

def OPartR (N : Node → Node → Prop) : Option Node → Option Node → Prop
  | none, none => True
  | some a, some b => PartR N a b
  | _, _ => False

theorem rel_paramexpand (hN : NOK N) {np₁ np₂ : NestedParse} (hnp : NPR S N np₁ np₂)
    (string : Str) (sindex : Nat) :
    Rel S S (paramexpand np₁ string sindex) (paramexpand np₂ string sindex)
      (fun r₁ r₂ => OPartR N r₁.1 r₂.1 ∧ r₁.2 = r₂.2) := by
  unfold paramexpand
  simp only []
  have hparam : ∀ (p : Span) (v : Str) (k : Nat),
      Rel S S (pure (some (Node.parameter p v), k) : M (Option Node × Nat))
        (pure (some (Node.parameter p v), k) : M (Option Node × Nat))
        (fun r₁ r₂ => OPartR N r₁.1 r₂.1 ∧ r₁.2 = r₂.2) := by
    intro p v k
    exact Rel.pure ⟨rfl, rfl⟩
  cases hc : string[sindex + 1]? with
  | none => exact hparam _ _ _
  | some c =>
    simp only []
    refine Rel.ite' (fun _ => hparam _ _ _) (fun _ => ?_)
    refine Rel.ite' (fun _ => ?_) (fun _ => ?_)
    · cases Str.findFrom string '}' (sindex + 1 + 1) with
      | none => exact Rel.pure ⟨trivial, rfl⟩
      | some z => exact hparam _ _ _
    refine Rel.ite' (fun _ => ?_) (fun _ => ?_)
    · cases string[sindex + 1 + 1]? with
      | none => exact Rel.foreign_left
      | some d =>
        simp only []
        refine Rel.ite' (fun _ => Rel.raise_left) (fun _ => ?_)
        refine Rel.bind (rel_parsedolparen hN hnp _ _) ?_
        rintro ⟨a, e₁⟩ ⟨b, e₂⟩ ⟨h1, h2⟩
        simp only [] at h1 h2 ⊢
        subst h2
        exact Rel.pure ⟨⟨b, rfl, h1⟩, rfl⟩
    refine Rel.ite' (fun _ => Rel.raise_left) (fun _ => hparam _ _ _)

/-! ### the expansion loop -/

def StR (N : Node → Node → Prop) (s t : ExpSt) : Prop :=
  s.istring = t.istring ∧ s.sindex = t.sindex ∧ s.flags = t.flags ∧ Forall2 (PartR N) s.parts t.parts

def FinR (N : Node → Node → Prop) (a b : List Node × Str × Bool) : Prop :=
  Forall2 (PartR N) a.1 b.1 ∧ a.2 = b.2

abbrev StepR (N : Node → Node → Prop) : ExpSt ⊕ (List Node × Str × Bool) →
    ExpSt ⊕ (List Node × Str × Bool) → Prop := SumR (StR N) (FinR N)

theorem forall2_snoc' {α β} {R : α → β → Prop} {l₁ : List α} {l₂ : List β} {a : α} {b : β}
    (h : Forall2 R l₁ l₂) (hab : R a b) : Forall2 R (l₁ ++ [a]) (l₂ ++ [b]) := by
  induction h with
  | nil => exact .cons hab .nil
  | cons h1 _ ih => exact .cons h1 ih

theorem rel_expandStep (hN : NOK N) {np₁ np₂ : NestedParse} (hnp : NPR S N np₁ np₂)
    (tok : Token) (string : Str) (qd : Bool) (st₁ st₂ : ExpSt) (hst : StR N st₁ st₂) :
    Rel S S (expandStep np₁ tok string qd st₁) (expandStep np₂ tok string qd st₂) (StepR N) := by
  obtain ⟨is, ps₁, si, fl⟩ := st₁
  obtain ⟨is', ps₂, si', fl'⟩ := st₂
  obtain ⟨h1, h2, h3, hps⟩ := hst
  simp only [] at h1 h2 h3 hps
  subst h1 h2 h3
  unfold expandStep
  simp only []
  have same : ∀ (is' : Str) (si' : Nat) (fl' : WordFlags),
      Rel S S (pure (Sum.inl { istring := is', parts := ps₁, sindex := si', flags := fl' }) :
          M (ExpSt ⊕ (List Node × Str × Bool)))
        (pure (Sum.inl { istring := is', parts := ps₂, sindex := si', flags := fl' })) (StepR N) :=
    fun _ _ _ => Rel.pure ⟨rfl, rfl, rfl, hps⟩
  have snoc : ∀ (a b : Node) (is' : Str) (si' : Nat) (fl' : WordFlags), PartR N a b →
      Rel S S (pure (Sum.inl { istring := is', parts := ps₁ ++ [a], sindex := si', flags := fl' }) :
          M (ExpSt ⊕ (List Node × Str × Bool)))
        (pure (Sum.inl { istring := is', parts := ps₂ ++ [b], sindex := si', flags := fl' })) (StepR N) :=
    fun _ _ _ _ _ h => Rel.pure ⟨rfl, rfl, rfl, forall2_snoc' hps h⟩
  refine Rel.ite' (fun _ => Rel.pure ⟨hps, rfl⟩) (fun _ => ?_)
  cases hc : string[si]? with
  | none => exact Rel.foreign_left
  | some c =>
  simp only []
  refine Rel.ite' (fun _ => Rel.ite' (fun _ => same _ _ _) (fun _ => ?_)) (fun _ => ?_)
  · refine Rel.bind (rel_parsedolparen hN hnp _ _) ?_
    rintro ⟨a, e₁⟩ ⟨b, e₂⟩ ⟨h1, h2⟩
    simp only [] at h1 h2 ⊢
    subst h2
    exact snoc _ _ _ _ _ ⟨b, rfl, h1⟩
  refine Rel.ite' (fun _ => Rel.ite' (fun _ => same _ _ _) (fun _ => ?_)) (fun _ => ?_)
  · refine Rel.pure ?_
    show StR N _ _
    refine ⟨rfl, rfl, rfl, ?_⟩
    simp only []
    split
    · exact forall2_snoc' hps rfl
    · exact hps
  refine Rel.ite' (fun _ => ?_) (fun _ => ?_)
  · refine Rel.bind (rel_paramexpand hN hnp _ _) ?_
    rintro ⟨a, e₁⟩ ⟨b, e₂⟩ ⟨h1, h2⟩
    simp only [] at h1 h2 ⊢
    subst h2
    refine Rel.pure ?_
    show StR N _ _
    refine ⟨rfl, rfl, rfl, ?_⟩
    simp only []
    cases a with
    | none =>
      cases b with
      | none => exact hps
      | some b => exact h1.elim
    | some a =>
      cases b with
      | none => exact h1.elim
      | some b => exact forall2_snoc' hps h1
  refine Rel.ite' (fun _ => Rel.ite' (fun _ => same _ _ _) (fun _ => ?_)) (fun _ => ?_)
  · cases stringextract string (si + 1) '`' with
    | none => exact Rel.noRet (NoRet.bind_right (fun _ => NoRet.raise))
    | some x =>
      simp only []
      refine Rel.bind (rel_recursiveparse hN hnp _ _ _) ?_
      rintro ⟨a, e₁⟩ ⟨b, e₂⟩ ⟨h1, h2⟩
      simp only [] at h1 h2 ⊢
      refine Rel.bind (rel_adjustpositions hN h1 _ _) ?_
      intro a' b' h'
      exact snoc _ _ _ _ _ ⟨b', rfl, h'⟩
  refine Rel.ite' (fun _ => same _ _ _) (fun _ => ?_)
  refine Rel.ite' (fun _ => same _ _ _) (fun _ => ?_)
  refine Rel.ite' (fun _ => Rel.ite' (fun _ => Rel.pure ⟨.nil, rfl⟩) (fun _ => Rel.ite' (fun _ => same _ _ _)
    (fun _ => same _ _ _))) (fun _ => same _ _ _)

/-! ### after the loop -/

theorem partR_bound (hN : NOK N) {a b : Node} (h : PartR N a b) (P : Span → Bool)
    (ha : (a.preorder.all fun m => P m.pos) = true) : (b.preorder.all fun m => P m.pos) = true := by
  cases a with
  | commandsubstitution p c =>
    obtain ⟨c', rfl, hc⟩ := h
    simp only [preorder, List.all_cons, Bool.and_eq_true] at ha ⊢
    exact ⟨ha.1, hN.bound hc P ha.2⟩
  | processsubstitution p c =>
    obtain ⟨c', rfl, hc⟩ := h
    simp only [preorder, List.all_cons, Bool.and_eq_true] at ha ⊢
    exact ⟨ha.1, hN.bound hc P ha.2⟩
  | _ => cases h; exact ha

theorem partR_shift (hN : NOK N) {a b : Node} (h : PartR N a b) (k : Nat) :
    PartR N (a.shift k) (b.shift k) := by
  cases a with
  | commandsubstitution p c =>
    obtain ⟨c', rfl, hc⟩ := h
    exact ⟨_, rfl, hN.shift hc k⟩
  | processsubstitution p c =>
    obtain ⟨c', rfl, hc⟩ := h
    exact ⟨_, rfl, hN.shift hc k⟩
  | _ => cases h; simp [PartR, Node.shift, mapPos]

theorem forall2_isEmpty {α β} {R : α → β → Prop} {l₁ : List α} {l₂ : List β}
    (h : Forall2 R l₁ l₂) : l₁.isEmpty = l₂.isEmpty := by
  cases h <;> rfl

theorem forall2_map {α β α' β'} {R : α → β → Prop} {R' : α' → β' → Prop} {f : α → α'} {g : β → β'}
    (hfg : ∀ a b, R a b → R' (f a) (g b)) {l₁ : List α} {l₂ : List β}
    (h : Forall2 R l₁ l₂) : Forall2 R' (l₁.map f) (l₂.map g) := by
  induction h with
  | nil => exact .nil
  | cons h1 _ ih => exact .cons (hfg _ _ h1) ih

theorem forall2_all {α β} {R : α → β → Prop} {p : α → Bool} {q : β → Bool}
    (hpq : ∀ a b, R a b → p a = true → q b = true) {l₁ : List α} {l₂ : List β}
    (h : Forall2 R l₁ l₂) (hp : l₁.all p = true) : l₂.all q = true := by
  induction h with
  | nil => rfl
  | cons h1 _ ih =>
    simp only [List.all_cons, Bool.and_eq_true] at hp ⊢
    exact ⟨hpq _ _ h1 hp.1, ih hp.2⟩

theorem rel_expandwordinternal (hN : NOK N) {np₁ np₂ : NestedParse} (hnp : NPR S N np₁ np₂)
    (tok : Token) (qd : Bool) :
    Rel S S (expandwordinternal np₁ tok qd) (expandwordinternal np₂ tok qd)
      (fun r₁ r₂ => Forall2 (PartR N) r₁.1 r₂.1 ∧ r₁.2 = r₂.2) := by
  unfold expandwordinternal
  simp only []
  refine Rel.bind (Rel.loop (I := StR N) (R := FinR N)
    (fun s t hst => rel_expandStep hN hnp tok _ qd s t hst) _ _ _ ⟨rfl, rfl, rfl, .nil⟩) ?_
  rintro ⟨ps₁, is₁, early₁⟩ ⟨ps₂, is₂, early₂⟩ ⟨hps, h2⟩
  simp only [] at hps h2 ⊢
  cases h2
  rw [forall2_isEmpty hps]
  refine Rel.ite' (fun _ => Rel.pure ⟨hps, rfl⟩) (fun _ => ?_)
  by_cases hok : (ps₁.all fun p => p.preorder.all fun m => decide (m.pos.2 + tok.lexpos ≤ tok.endlexpos)) = true
  · have hok' : (ps₂.all fun p => p.preorder.all fun m => decide (m.pos.2 + tok.lexpos ≤ tok.endlexpos)) = true :=
      forall2_all (p := fun p => p.preorder.all fun m => decide (m.pos.2 + tok.lexpos ≤ tok.endlexpos))
        (q := fun p => p.preorder.all fun m => decide (m.pos.2 + tok.lexpos ≤ tok.endlexpos))
        (fun a b hab ha => partR_bound hN hab (fun p => decide (p.2 + tok.lexpos ≤ tok.endlexpos)) ha)
        hps hok
    simp only [hok, hok', Bool.not_true, Bool.false_eq_true, if_false]
    exact Rel.pure ⟨forall2_map (f := fun x => shift tok.lexpos x) (g := fun x => shift tok.lexpos x)
      (fun a b h => partR_shift hN h tok.lexpos) hps, rfl⟩
  · simp only [hok, Bool.not_false, if_true, Bool.not_eq_true] 
    exact Rel.noRet (NoRet.bind_left NoRet.foreign)

/-! ### `expandword` -/

/-- `expandword` after the limit has been read -/
def expandwordWith (np : NestedParse) (tok : Token) (limit : Option Int) : M Node := do
  if limit == some (-1) then
    return .word (tok.lexpos, tok.endlexpos) tok.valueStr []
  let quoted := tok.flags.contains .QUOTED
  let doublequoted ←
    if quoted then
      match tok.valueStr.head? with
      | none => M.foreign "IndexError" "_expandword"
      | some c => pure (c == '"')
    else pure false
  let (parts, expanded) ← expandwordinternal np tok doublequoted
  let parts := if limit == some 0 then parts.filter (fun n => !isSubstitution n) else parts
  return .word (tok.lexpos, tok.endlexpos) expanded parts

theorem expandword_eq (np : NestedParse) (tok : Token) :
    expandword np tok = (do let l ← get; expandwordWith np tok l.limit) := rfl

def filt (x : Option Int) (ps : List Node) : List Node :=
  if x == some 0 then ps.filter (fun n => !isSubstitution n) else ps

theorem rel_expandwordWith (hN : NOK N) {np₁ np₂ : NestedParse} (hnp : NPR S N np₁ np₂)
    (tok : Token) (x₁ x₂ : Option Int) (W : Node → Node → Prop)
    (hskip : (x₁ == some (-1)) = (x₂ == some (-1)))
    (hraw : W (.word (tok.lexpos, tok.endlexpos) tok.valueStr [])
      (.word (tok.lexpos, tok.endlexpos) tok.valueStr []))
    (hfin : ∀ ps₁ ps₂ w, Forall2 (PartR N) ps₁ ps₂ →
      W (.word (tok.lexpos, tok.endlexpos) w (filt x₁ ps₁))
        (.word (tok.lexpos, tok.endlexpos) w (filt x₂ ps₂))) :
    Rel S S (expandwordWith np₁ tok x₁) (expandwordWith np₂ tok x₂) W := by
  unfold expandwordWith
  simp only []
  rw [← hskip]
  refine Rel.ite' (fun _ => Rel.pure hraw) (fun _ => ?_)
  have hfin' : ∀ qd, Rel S S
      (do let x ← expandwordinternal np₁ tok qd
          pure (word (tok.lexpos, tok.endlexpos) x.snd
            (if (x₁ == some 0) = true then List.filter (fun n => !isSubstitution n) x.fst else x.fst)) : M Node)
      (do let x ← expandwordinternal np₂ tok qd
          pure (word (tok.lexpos, tok.endlexpos) x.snd
            (if (x₂ == some 0) = true then List.filter (fun n => !isSubstitution n) x.fst else x.fst)) : M Node)
      W := by
    intro qd
    refine Rel.bind (rel_expandwordinternal hN hnp tok qd) ?_
    rintro ⟨ps₁, w₁⟩ ⟨ps₂, w₂⟩ ⟨h1, h2⟩
    simp only [] at h1 h2 ⊢
    subst h2
    exact Rel.pure (hfin ps₁ ps₂ w₁ h1)
  refine Rel.ite' (fun _ => ?_) (fun _ => ?_)
  · cases tok.valueStr.head? with
    | none => exact Rel.noRet (NoRet.bind_left NoRet.foreign)
    | some c => exact Rel.bind (Rel.pure (R := Eq) rfl) (fun a b hab => by subst hab; exact hfin' _)
  · exact Rel.bind (Rel.pure (R := Eq) rfl) (fun a b hab => by subst hab; exact hfin' _)

/-- with depth left, the nested results pruned one level less give the pruned parts -/
theorem parts_prune_succ (k : Nat) : ∀ {ps₁ ps₂ : List Node},
    Forall2 (PartR fun a b => b = pruneLimit k a) ps₁ ps₂ → ps₂ = pruneParts (k + 1) ps₁ := by
  intro ps₁ ps₂ h
  induction h with
  | nil => simp [pruneParts]
  | @cons a b l₁ l₂ hab _ ih =>
    subst ih
    cases a with
    | commandsubstitution p c =>
      obtain ⟨c', rfl, rfl⟩ := hab
      simp [pruneParts, pruneLimit]
    | processsubstitution p c =>
      obtain ⟨c', rfl, rfl⟩ := hab
      simp [pruneParts, pruneLimit]
    | _ => cases hab; simp [pruneParts]

/-- without depth left, the substitutions are filtered out whatever their commands are -/
theorem parts_prune_zero : ∀ {ps₁ ps₂ : List Node},
    Forall2 (PartR N) ps₁ ps₂ → ps₂.filter (fun n => !isSubstitution n) = pruneParts 0 ps₁ := by
  intro ps₁ ps₂ h
  induction h with
  | nil => simp [pruneParts]
  | @cons a b l₁ l₂ hab _ ih =>
    rw [List.filter_cons, ih]
    cases a with
    | commandsubstitution p c =>
      obtain ⟨c', rfl, _⟩ := hab
      simp [pruneParts, isSubstitution]
    | processsubstitution p c =>
      obtain ⟨c', rfl, _⟩ := hab
      simp [pruneParts, isSubstitution]
    | _ => cases hab; simp [pruneParts, isSubstitution]

end Bashlex.C16
