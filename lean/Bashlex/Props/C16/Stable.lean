/-
  C16, part 12: the hypothesis (E2) `heredocStable` of `C16_partial` discharged from span
  containment.

  Claim: for every part `p` returned by the unlimited `parse`, pruning the substitution nodes below
  depth `k` does not change `nextIndex p = max p.pos.2 (max of the here-document ends in p)`.

  `pruneLimit` removes substitution nodes *in the parts of words* (and what is below them) and
  nothing else; in particular it never touches the `heredoc` slot of a redirect.  So a
  here-document body that disappears lies below a word `w` of the tree.  Two facts bound it:

  (F1) `WEnd w`: every node below a word ends at or before the word's end.  This is what the visitor
       of `_expandwordinternal` asserts at run time (`foreign "AssertionError" "visitnode"`), so it
       holds of every word node of every returned tree, at every depth, UNCONDITIONALLY
       (`parse_wend`; proved with the generic provenance walk of `C07/Prov*.lean`).  It is NOT a
       consequence of `C03.Strict`: in `a $(cat <<E⏎x⏎E⏎) b` the tree is
       `word (2,17) [commandsubstitution (2,12) (command (4,11) [word (4,7), redirect (8,15)
       [word (10,11), heredoc (12,15)]])]` -- the body (12,15) sticks out of its redirect's
       command AND of the substitution node (D11 inside a substitution); only the word contains it.
  (F2) the word itself ends at or before `p.pos.2`, or at or before the end of a here-document body
       that survives pruning: by `C03.Strict` (child inside parent, `LocOK.kin`), except below a
       redirect extended over its body (`+heredoc`), where the delimiter word ends before the body
       starts (`LocOK.ord`) and the body survives.  `Strict` says nothing about the nodes above a
       D19 pipeline (`+emptydesc`, only with `proceedonerror`: `time -p a`); hence the extra
       condition `noD19 parts` (decidable).  No input violating `heredocStable` is known with or
       without it: the condition is a limit of the proof (C03's invariant forgets the ENDS of
       tainted nodes too, although D19 only corrupts starts), not a recorded defect.
  (C12) the `heredoc` slot of a redirect holds a `heredoc` node (`C12_only_pipelines`).

  Results: `parse_wend` (F1), `nextIndex_prune` (the tree lemma), `heredocStable_of_spans` and
  `C16_partial'` (under C03's hypothesis `RootEnds`), and `heredocStable_checked`,
  `C16_total_checked` (NO hypothesis: `RootEnds` replaced by the decidable per-input condition
  `C03.rootEndsChecked` of `Props/C03/RootEnds.lean`).

  Can `pruneLimit` remove a here-document that is not inside a substitution's span?  It removes
  only substitution nodes that are parts of words, with what is below them (`prune_children_sup`:
  below a node that is not a word every child survives, pruned or as it is; the `heredoc` slot of
  a redirect is never touched).  But "inside the substitution's SPAN" is false (see (F1): the
  body sticks out of the substitution node); what is true is "inside the enclosing WORD's span".
-/
import Bashlex.Props.C16
import Bashlex.Props.C03Total
import Bashlex.Props.C03.RootEnds
import Bashlex.Props.C07
import Bashlex.Props.C12
import Bashlex.Props.C13.Shift

namespace Bashlex.C16
open Bashlex Bashlex.Spec Bashlex.Node Bashlex.M
set_option linter.unusedSimpArgs false
set_option linter.unusedVariables false

/-! ## induction over the children -/

mutual
theorem childInd {P : Node → Prop} (h : ∀ n, (∀ c, c ∈ n.children → P c) → P n) : (n : Node) → P n
  | .operator p a => h _ (fun c hc => by simp [children] at hc)
  | .reservedword p a => h _ (fun c hc => by simp [children] at hc)
  | .pipe p a => h _ (fun c hc => by simp [children] at hc)
  | .parameter p a => h _ (fun c hc => by simp [children] at hc)
  | .tilde p a => h _ (fun c hc => by simp [children] at hc)
  | .heredoc p a => h _ (fun c hc => by simp [children] at hc)
  | .list p ps => h _ (fun c hc => childIndL h ps c (by simpa [children] using hc))
  | .pipeline p ps => h _ (fun c hc => childIndL h ps c (by simpa [children] using hc))
  | .ifN p ps => h _ (fun c hc => childIndL h ps c (by simpa [children] using hc))
  | .forN p ps => h _ (fun c hc => childIndL h ps c (by simpa [children] using hc))
  | .whileN p ps => h _ (fun c hc => childIndL h ps c (by simpa [children] using hc))
  | .untilN p ps => h _ (fun c hc => childIndL h ps c (by simpa [children] using hc))
  | .caseN p ps => h _ (fun c hc => childIndL h ps c (by simpa [children] using hc))
  | .pattern p ps => h _ (fun c hc => childIndL h ps c (by simpa [children] using hc))
  | .command p ps => h _ (fun c hc => childIndL h ps c (by simpa [children] using hc))
  | .unimplemented p ps => h _ (fun c hc => childIndL h ps c (by simpa [children] using hc))
  | .function p a b ps => h _ (fun c hc => childIndL h ps c (by simpa [children] using hc))
  | .word p a ps => h _ (fun c hc => childIndL h ps c (by simpa [children] using hc))
  | .assignment p a ps => h _ (fun c hc => childIndL h ps c (by simpa [children] using hc))
  | .compound p l r => h _ (fun c hc => by
      simp only [children, List.mem_append] at hc
      rcases hc with hc | hc
      · exact childIndL h l c hc
      · exact childIndL h r c hc)
  | .redirect p i t none oa none hid => h _ (fun c hc => by simp [children] at hc)
  | .redirect p i t (some o) oa none hid => h _ (fun c hc => by
      have : c = o := by simpa [children] using hc
      exact this ▸ childInd h o)
  | .redirect p i t none oa (some b) hid => h _ (fun c hc => by
      have : c = b := by simpa [children] using hc
      exact this ▸ childInd h b)
  | .redirect p i t (some o) oa (some b) hid => h _ (fun c hc => by
      have : c = o ∨ c = b := by simpa [children] using hc
      rcases this with e | e
      · exact e ▸ childInd h o
      · exact e ▸ childInd h b)
  | .commandsubstitution p c => h _ (fun k hk => by
      have : k = c := by simpa [children] using hk
      exact this ▸ childInd h c)
  | .processsubstitution p c => h _ (fun k hk => by
      have : k = c := by simpa [children] using hk
      exact this ▸ childInd h c)
theorem childIndL {P : Node → Prop} (h : ∀ n, (∀ c, c ∈ n.children → P c) → P n) :
    (l : List Node) → ∀ c, c ∈ l → P c
  | [] => by intro c hc; cases hc
  | n :: ns => by
    intro c hc
    rcases List.mem_cons.mp hc with heq | hc
    · exact heq ▸ childInd h n
    · exact childIndL h ns c hc
end

theorem mem_preorder_child {n c m : Node} (hc : c ∈ n.children) (hm : m ∈ c.preorder) :
    m ∈ n.preorder := by
  rw [C12.preorder_eq]
  exact List.mem_cons_of_mem _ (C12.mem_preorderL.mpr ⟨c, hc, hm⟩)

theorem mem_preorder_cases {n m : Node} (hm : m ∈ n.preorder) :
    m = n ∨ ∃ c, c ∈ n.children ∧ m ∈ c.preorder := by
  rw [C12.preorder_eq] at hm
  rcases List.mem_cons.mp hm with h | h
  · exact Or.inl h
  · exact Or.inr (C12.mem_preorderL.mp h)

/-! ## `nextIndex` as a least upper bound -/

/-- every here-document body of the tree ends at or before `B` -/
def HBound (B : Nat) (n : Node) : Prop := ∀ m ∈ n.preorder, isHeredoc m = true → m.pos.2 ≤ B

theorem HBound.child {B : Nat} {n c : Node} (h : HBound B n) (hc : c ∈ n.children) : HBound B c :=
  fun m hm hh => h m (mem_preorder_child hc hm) hh

theorem heredocEnd?_eq_some {m : Node} {e : Nat} :
    Node.heredocEnd? m = some e ↔ isHeredoc m = true ∧ m.pos.2 = e := by
  cases m <;> simp [Node.heredocEnd?, isHeredoc, Node.pos]

theorem foldl_max_le {B : Nat} : ∀ (es : List Nat) (e : Nat),
    es.foldl max e ≤ B ↔ e ≤ B ∧ ∀ x ∈ es, x ≤ B
  | [], e => by simp
  | x :: xs, e => by
    rw [List.foldl_cons, foldl_max_le xs (max e x)]
    simp only [List.mem_cons, forall_eq_or_imp]
    constructor
    · rintro ⟨h1, h2⟩; exact ⟨by omega, by omega, h2⟩
    · rintro ⟨h1, h2, h3⟩; exact ⟨by omega, h3⟩

theorem hbound_iff_ends {B : Nat} {n : Node} :
    HBound B n ↔ ∀ e ∈ n.preorder.filterMap Node.heredocEnd?, e ≤ B := by
  constructor
  · intro h e he
    obtain ⟨m, hm, hme⟩ := List.mem_filterMap.mp he
    obtain ⟨h1, h2⟩ := heredocEnd?_eq_some.mp hme
    rw [← h2]; exact h m hm h1
  · intro h m hm hh
    exact h m.pos.2 (List.mem_filterMap.mpr ⟨m, hm, heredocEnd?_eq_some.mpr ⟨hh, rfl⟩⟩)

/-- `nextIndex n` is the least bound of the root's end and of all here-document ends -/
theorem nextIndex_le_iff {B : Nat} {n : Node} : nextIndex n ≤ B ↔ n.pos.2 ≤ B ∧ HBound B n := by
  unfold nextIndex
  rw [Node.lastHeredocEnd_eq, hbound_iff_ends]
  cases h : n.preorder.filterMap Node.heredocEnd? with
  | nil => simp
  | cons e es =>
    simp only []
    rw [Nat.max_le, foldl_max_le]
    simp only [List.mem_cons, forall_eq_or_imp]

theorem nextIndex_root (n : Node) : n.pos.2 ≤ nextIndex n :=
  (nextIndex_le_iff.mp (Nat.le_refl _)).1

theorem nextIndex_hbound (n : Node) : HBound (nextIndex n) n :=
  (nextIndex_le_iff.mp (Nat.le_refl _)).2

/-! ## what pruning keeps -/

theorem prune_heredoc {n : Node} (k : Nat) (h : isHeredoc n = true) : pruneLimit k n = n := by
  cases n <;> simp [isHeredoc] at h
  simp [pruneLimit]

theorem mem_pruneParts {k : Nat} {x : Node} : ∀ {ps : List Node}, x ∈ pruneParts k ps →
    ∃ c, c ∈ ps ∧ (x = c ∨ x = pruneLimit k c)
  | [], h => by simp [pruneParts] at h
  | n :: ns, h => by
    unfold pruneParts at h
    rcases List.mem_append.mp h with h | h
    · refine ⟨n, List.mem_cons_self, ?_⟩
      cases n <;> simp only [] at h <;>
        first
          | (simp only [List.mem_singleton] at h; exact Or.inl h)
          | (split at h
             · cases h
             · simp only [List.mem_singleton] at h; exact Or.inr h)
    · obtain ⟨c, hc, hx⟩ := mem_pruneParts h
      exact ⟨c, List.mem_cons_of_mem _ hc, hx⟩

/-- every child of the pruned tree is a child of the tree, possibly pruned (at some depth) -/
theorem prune_children_sub (k : Nat) (n x : Node) (hx : x ∈ (pruneLimit k n).children) :
    ∃ c, c ∈ n.children ∧ (x = c ∨ ∃ k', x = pruneLimit k' c) := by
  cases n with
  | list _ ps | pipeline _ ps | ifN _ ps | forN _ ps | whileN _ ps | untilN _ ps | caseN _ ps
  | pattern _ ps | command _ ps | unimplemented _ ps | function _ _ _ ps =>
    simp only [pruneLimit, children, pruneLimitL_map, List.mem_map] at hx ⊢
    obtain ⟨c, hc, rfl⟩ := hx
    exact ⟨c, hc, Or.inr ⟨k, rfl⟩⟩
  | compound _ l r =>
    simp only [pruneLimit, children, pruneLimitL_map, List.mem_append, List.mem_map] at hx ⊢
    rcases hx with ⟨c, hc, rfl⟩ | ⟨c, hc, rfl⟩
    · exact ⟨c, Or.inl hc, Or.inr ⟨k, rfl⟩⟩
    · exact ⟨c, Or.inr hc, Or.inr ⟨k, rfl⟩⟩
  | redirect _ _ _ o _ hd _ =>
    simp only [pruneLimit, children, List.mem_append, Option.mem_toList] at hx ⊢
    rcases hx with hx | hx
    · cases o with
      | none => simp [pruneLimitO] at hx
      | some o' =>
        simp only [pruneLimitO, Option.some.injEq] at hx
        exact ⟨o', Or.inl rfl, Or.inr ⟨k, hx.symm⟩⟩
    · exact ⟨x, Or.inr hx, Or.inl rfl⟩
  | word _ _ ps | assignment _ _ ps =>
    simp only [pruneLimit, children] at hx ⊢
    obtain ⟨c, hc, h⟩ := mem_pruneParts hx
    rcases h with h | h
    · exact ⟨c, hc, Or.inl h⟩
    · exact ⟨c, hc, Or.inr ⟨k, h⟩⟩
  | commandsubstitution _ c | processsubstitution _ c =>
    cases k with
    | zero =>
      simp only [pruneLimit, children, List.mem_singleton] at hx ⊢
      exact ⟨c, rfl, Or.inl hx⟩
    | succ k' =>
      simp only [pruneLimit, children, List.mem_singleton] at hx ⊢
      exact ⟨c, rfl, Or.inr ⟨k', hx⟩⟩
  | operator _ _ | reservedword _ _ | pipe _ _ | parameter _ _ | tilde _ _ | heredoc _ _ =>
    simp [pruneLimit, children] at hx

/-- the here-document bodies of the pruned tree are bodies of the tree -/
theorem hbound_prune {B : Nat} : ∀ (n : Node), HBound B n → ∀ k, HBound B (pruneLimit k n) := by
  refine childInd (P := fun n => HBound B n → ∀ k, HBound B (pruneLimit k n)) ?_
  intro n ih hn k m hm hh
  rcases mem_preorder_cases hm with rfl | ⟨x, hx, hmx⟩
  · have h2 : (pruneLimit k n).pos = n.pos := pos_pruneLimit k n
    rw [h2]
    refine hn n (C12.self_mem_preorder n) ?_
    revert hh
    cases n <;> simp [pruneLimit, isHeredoc]
  · obtain ⟨c, hc, hxc⟩ := prune_children_sub k n x hx
    rcases hxc with rfl | ⟨k', rfl⟩
    · exact hn.child hc m hmx hh
    · exact ih c hc (hn.child hc) k' m hmx hh

/-- below a node that is not a word, every child survives pruning, itself pruned or as it is -/
theorem prune_children_sup (k : Nat) (n c : Node) (hw : C07.isWordLike n = false)
    (hc : c ∈ n.children) :
    c ∈ (pruneLimit k n).children ∨ ∃ k', pruneLimit k' c ∈ (pruneLimit k n).children := by
  cases n with
  | list _ ps | pipeline _ ps | ifN _ ps | forN _ ps | whileN _ ps | untilN _ ps | caseN _ ps
  | pattern _ ps | command _ ps | unimplemented _ ps | function _ _ _ ps =>
    simp only [pruneLimit, children, pruneLimitL_map, List.mem_map] at hc ⊢
    exact Or.inr ⟨k, c, hc, rfl⟩
  | compound _ l r =>
    simp only [pruneLimit, children, pruneLimitL_map, List.mem_append, List.mem_map] at hc ⊢
    rcases hc with hc | hc
    · exact Or.inr ⟨k, Or.inl ⟨c, hc, rfl⟩⟩
    · exact Or.inr ⟨k, Or.inr ⟨c, hc, rfl⟩⟩
  | redirect _ _ _ o _ hd _ =>
    simp only [pruneLimit, children, List.mem_append, Option.mem_toList] at hc ⊢
    rcases hc with hc | hc
    · subst hc
      exact Or.inr ⟨k, Or.inl rfl⟩
    · exact Or.inl (Or.inr hc)
  | word _ _ ps | assignment _ _ ps => simp [C07.isWordLike] at hw
  | commandsubstitution _ c' | processsubstitution _ c' =>
    simp only [children, List.mem_singleton] at hc
    subst hc
    cases k with
    | zero => left; simp [pruneLimit, children]
    | succ k' => right; exact ⟨k', by simp [pruneLimit, children]⟩
  | operator _ _ | reservedword _ _ | pipe _ _ | parameter _ _ | tilde _ _ | heredoc _ _ =>
    simp [children] at hc

/-! ## the tree lemma -/

/-- (F1) every node below the word ends at or before the word's end -/
def WEnd (w : Node) : Prop := ∀ m ∈ w.preorder, m.pos.2 ≤ w.pos.2

/-- the `heredoc` slot of a redirect -/
def heredocSlot : Node → Option Node
  | .redirect _ _ _ _ _ h _ => h
  | _ => none

/-- what is needed of every node: C03's local clauses, (F1) for words, (C12) for redirects -/
structure GoodN (len : Nat) (m : Node) : Prop where
  nodeS : C03.NodeS len m
  wend : C07.isWordLike m = true → WEnd m
  slot : ∀ b, heredocSlot m = some b → isHeredoc b = true

def GoodT (len : Nat) (n : Node) : Prop := ∀ m ∈ n.preorder, GoodN len m

theorem GoodT.child {len : Nat} {n c : Node} (h : GoodT len n) (hc : c ∈ n.children) : GoodT len c :=
  fun m hm => h m (mem_preorder_child hc hm)

/-- how far a node may reach to the right as far as its parent can tell: a here-document body and
    a redirect extended over one are exempt from containment -/
def endCap (n : Node) : Nat :=
  if isHeredoc n || isRedirectWithHeredoc n then 0 else n.pos.2

theorem endCap_le (n : Node) : endCap n ≤ n.pos.2 := by
  unfold endCap; split
  · exact Nat.zero_le _
  · exact Nat.le_refl _

theorem endCap_child {len : Nat} {n c : Node} (h : C03.LocOK len n) (hc : c ∈ n.children) :
    endCap c ≤ n.pos.2 := by
  unfold endCap
  cases hh : isHeredoc c with
  | true => simp
  | false =>
    cases hr : isRedirectWithHeredoc c with
    | true => simp
    | false =>
      simp only [Bool.or_self, Bool.false_eq_true, if_false]
      rcases (h.kin c hc hh).2 with h2 | h2
      · exact h2
      · rw [hr] at h2; cases h2

theorem locOK_of_parent {len : Nat} {n c : Node} (h : C03.NodeS len n)
    (ht : C03.tainted n = false) (hc : c ∈ n.children) : C03.LocOK len n := by
  rcases h with h | h | h
  · rw [h] at ht; cases ht
  · exact h
  · exfalso
    have := h.1
    cases n <;> simp [C03.isRW] at this
    simp [children] at hc

/-- **the tree lemma**: in an untainted fine tree, a here-document body ends at or before the
    root's end (`endCap`), or at or before the end of a body that survives pruning -/
theorem heredoc_bound {len : Nat} : ∀ (n : Node), GoodT len n → C03.tainted n = false →
    ∀ k B, HBound B (pruneLimit k n) →
      ∀ h ∈ n.preorder, isHeredoc h = true → h.pos.2 ≤ max (endCap n) B := by
  refine childInd (P := fun n => GoodT len n → C03.tainted n = false →
    ∀ k B, HBound B (pruneLimit k n) →
      ∀ h ∈ n.preorder, isHeredoc h = true → h.pos.2 ≤ max (endCap n) B) ?_
  intro n ih hg ht k B hB h hh hhd
  have hgn := hg n (C12.self_mem_preorder n)
  cases hw : C07.isWordLike n with
  | true =>
    -- (F1): everything below a word ends inside the word
    have h1 := hgn.wend hw h hh
    have h2 : endCap n = n.pos.2 := by
      cases n <;> simp [C07.isWordLike] at hw <;> simp [endCap, isHeredoc, isRedirectWithHeredoc]
    rw [h2]; omega
  | false =>
    rcases mem_preorder_cases hh with rfl | ⟨c, hc, hhc⟩
    · -- the node is itself a body: it is kept
      rw [prune_heredoc k hhd] at hB
      have := hB h (C12.self_mem_preorder h) hhd
      omega
    · have hloc := locOK_of_parent hgn.nodeS ht hc
      have htc : C03.tainted c = false := C03.untainted_child hc ht
      -- the bound through the child
      have hchild : h.pos.2 ≤ max (endCap c) B := by
        rcases prune_children_sup k n c hw hc with hk | ⟨k', hk⟩
        · -- the child is kept as it is
          have := (hB.child hk) h hhc hhd
          omega
        · exact ih c hc (hg.child hc) htc k' B (hB.child hk) h hhc hhd
      cases hr : isRedirectWithHeredoc n with
      | false =>
        have hcap : endCap n = n.pos.2 := by
          have hnh : isHeredoc n = false := by
            cases n <;> simp [isHeredoc] <;> simp [children] at hc
          simp [endCap, hnh, hr]
        have := endCap_child hloc hc
        rw [hcap]; omega
      | true =>
        -- a redirect extended over its body `b`: the body is kept, the target ends before it
        cases n with
        | redirect p i t o oa hd hid =>
          cases hd with
          | none => simp [isRedirectWithHeredoc] at hr
          | some b =>
            have hb : isHeredoc b = true := hgn.slot b rfl
            have hbk : b ∈ (pruneLimit k (.redirect p i t o oa (some b) hid)).children := by
              simp [pruneLimit, children]
            have hbB : b.pos.2 ≤ B := (hB.child hbk) b (C12.self_mem_preorder b) hb
            simp only [children, List.mem_append, Option.mem_toList, Option.toList_some,
              List.mem_singleton] at hc
            rcases hc with hc | hc
            · subst hc
              have hord := hloc.ord
              simp only [children, Option.toList_some, List.singleton_append, ordered,
                Bool.and_true, decide_eq_true_eq] at hord
              have hne := hloc.kne b (by simp [children])
              have := endCap_le c
              omega
            · subst hc
              have : endCap c = 0 := by simp [endCap, hb]
              omega
        | _ => simp [isRedirectWithHeredoc] at hr

/-- **pruning keeps the restart index** of an untainted fine tree -/
theorem nextIndex_prune {len : Nat} {n : Node} (hg : GoodT len n) (ht : C03.tainted n = false)
    (k : Nat) : nextIndex (pruneLimit k n) = nextIndex n := by
  apply Nat.le_antisymm
  · rw [nextIndex_le_iff, pos_pruneLimit]
    exact ⟨nextIndex_root n, hbound_prune n (nextIndex_hbound n) k⟩
  · rw [nextIndex_le_iff]
    have hr : n.pos.2 ≤ nextIndex (pruneLimit k n) := by
      have := nextIndex_root (pruneLimit k n)
      rwa [pos_pruneLimit] at this
    refine ⟨hr, ?_⟩
    intro h hh hhd
    have := heredoc_bound n hg ht k _ (nextIndex_hbound (pruneLimit k n)) h hh hhd
    have := endCap_le n
    omega

/-! ## (F1) for every word of every returned tree -/

section wend
open Bashlex.C07

theorem wend_shift (w : Node) (j : Nat) (h : WEnd w) : WEnd (Node.shift j w) := by
  intro m hm
  rw [Node.shift, Node.preorder_mapPos_eq] at hm
  obtain ⟨m0, hm0, rfl⟩ := List.mem_map.mp hm
  have := h m0 hm0
  rw [Node.pos_mapPos, Node.pos_shift]
  show m0.pos.2 + j ≤ w.pos.2 + j
  omega

/-- the parts of a good word are good trees (`C07.GL_parts`, for any shift-invariant predicate) -/
theorem GL_parts_of {W : Node → Prop} (hW : ∀ w j, W w → W (Node.shift j w)) {d : Nat}
    (ih : Sat (parserRun d) (fun r => ∀ n, r = some n → G W n))
    {v : Str} {q : Bool} {k kend : Nat} {parts : List Node}
    (hp : PartsOK (RNested d) v q k kend parts) : GL W parts := by
  intro p hpm
  cases hs : isSubstitution p with
  | true =>
    have hnode : ∀ {body : Str} {dp : Bool} {n : Node} (j : Nat), RNested d body dp n →
        G W (n.shift j) := by
      intro body dp n j hR
      obtain ⟨outer, e, l', e', hrun⟩ := hR
      exact G_shift hW (ih.ok hrun n rfl) j
    cases hp.subst p hpm hs with
    | dollar ho hR hfit hlt => rw [G_commandsubstitution]; exact hnode _ hR
    | proc ho hR hfit hlt => rw [G_processsubstitution]; exact hnode _ hR
    | backquote ho hx hR hfit0 => rw [G_commandsubstitution]; exact hnode _ hR
  | false =>
    have := hp.other p hpm hs
    cases p <;> simp [isParamOrTilde] at this <;> simp

/-- a word node whose parts all end inside it -/
theorem wend_word {p : Span} {e : Str} {parts : List Node}
    (h : ∀ c ∈ parts, ∀ m ∈ c.preorder, m.pos.2 ≤ p.2) : WEnd (.word p e parts) := by
  intro m hm
  rcases mem_preorder_cases hm with rfl | ⟨c, hc, hmc⟩
  · exact Nat.le_refl _
  · exact h c (by simpa [children] using hc) m hmc

theorem ctx_wend {d : Nat} (ih : Sat (parserRun d) (fun r => ∀ n, r = some n → G WEnd n)) :
    Ctx WEnd (fun _ => True) (nestedOf d) := by
  refine ⟨?_, ?_, ?_⟩
  · intro tok _
    refine (sat_expandword (npspec_nested d) tok).weaken ?_ (fun _ h => h)
    rintro w ⟨expanded, parts, rfl, hp⟩
    rw [G_word]
    have hok : PartsOK (RNested d) tok.valueStr (qOf tok) tok.lexpos tok.endlexpos parts := by
      rcases hp with rfl | ⟨full, hfull, rfl | rfl⟩
      · exact PartsOK.nil
      · exact partsOK_of_wordSpec hfull
      · exact (partsOK_of_wordSpec hfull).filter _
    refine ⟨wend_word ?_, GL_parts_of wend_shift ih hok⟩
    -- the visitor's assertion: every node of every part ends inside the token
    rcases hp with rfl | ⟨full, hfull, hpf⟩
    · intro c hc; cases hc
    · have hfullfit : ∀ c ∈ full, ∀ m ∈ c.preorder, m.pos.2 ≤ tok.endlexpos := by
        rcases hfull with ⟨_, rfl⟩ | ⟨fl, tr, _, hfits, rfl⟩
        · intro c hc; cases hc
        · intro c hc m hm
          obtain ⟨p0, hp0, rfl⟩ := List.mem_map.mp hc
          rw [Node.shift, Node.preorder_mapPos_eq] at hm
          obtain ⟨m0, hm0, rfl⟩ := List.mem_map.mp hm
          rw [Node.pos_mapPos]
          exact hfits p0 hp0 m0 hm0
      rcases hpf with rfl | rfl
      · exact hfullfit
      · intro c hc; exact hfullfit c (List.mem_filter.mp hc).1
  · intro p s ps h m hm
    rcases mem_preorder_cases hm with rfl | ⟨c, hc, hmc⟩
    · exact Nat.le_refl _
    · exact h m (mem_preorder_child (n := .word p s ps) (by simpa [children] using hc) hmc)
  · intro tok _
    exact wend_word (by intro c hc; cases hc)

/-- every parser run, at every nesting budget: all words of the returned tree are `WEnd` -/
theorem parserRun_wend : ∀ d, Sat (parserRun d) (fun r => ∀ n, r = some n → G WEnd n) := by
  intro d
  induction d with
  | zero => exact Sat.raise trivial
  | succ d ih =>
    exact sat_parserRun_of_ctx (T := fun _ => True)
      ((Sat.trivial _).weaken (fun _ _ => trivial) (fun _ h => h)) (ctx_wend ih)

theorem runParser_wend {s : Str} {o : Opts} {t : List Char} {n : Node}
    (h : (runParser s o t).1 = .ok (some n)) : G WEnd n := by
  unfold runParser at h
  simp only [] at h
  rcases hrun : (parserRun maxDepth).run { limit := o.limit }
      { tape := Tape.ofInput s, strict := o.strict, proceed := o.proceed, touched := t } with ⟨r, env'⟩
  rw [hrun] at h
  simp only [] at h
  cases r with
  | error x => cases h
  | ok v =>
    obtain ⟨a, l'⟩ := v
    have ha : a = some n := by
      simp only [Except.map] at h
      cases h; rfl
    exact (parserRun_wend maxDepth).ok hrun n ha

theorem parseLoop_wend (s : Str) (o : Opts) :
    ∀ (fuel index : Nat) (parts : List Node) (touched : List Char) (ps : List Node),
      (∀ n, n ∈ parts → G WEnd n) → (parseLoop s o fuel index parts touched).1 = .ok ps →
      ∀ n, n ∈ ps → G WEnd n := by
  intro fuel
  induction fuel with
  | zero => intro index parts touched ps _ h; simp [parseLoop] at h
  | succ fuel ih =>
    intro index parts touched ps hparts h
    unfold parseLoop at h
    split at h
    · rcases hr : runParser (s.drop index) o touched with ⟨r, t⟩
      rw [hr] at h
      cases r with
      | error e => simp only [] at h; cases h
      | ok v =>
        cases v with
        | none => simp only [] at h; cases h; exact hparts
        | some part =>
          simp only [] at h
          have hp : G WEnd part := runParser_wend (by rw [hr])
          refine ih _ _ _ ps ?_ h
          intro n hn
          rcases List.mem_append.mp hn with hn | hn
          · exact hparts n hn
          · simp at hn; subst hn; exact G_shift wend_shift hp _
    · cases h; exact hparts

/-- **(F1)** for `parse` (all inputs, all options, no hypothesis): in every returned tree, every
    node below a word or assignment node -- at any depth -- ends at or before that node's end -/
theorem parse_wend (s : Str) (o : Opts) (parts : List Node)
    (h : (parse s o).1 = .parts parts) : ∀ n ∈ parts, G WEnd n := by
  unfold parse at h
  rcases hr : runParser s o [] with ⟨r, t⟩
  rw [hr] at h
  cases r with
  | error e => simp only [] at h; cases h
  | ok v =>
    cases v with
    | none => simp only [] at h; cases h; intro n hn; cases hn
    | some first =>
      simp only [] at h
      have hp : G WEnd first := runParser_wend (by rw [hr])
      rcases hl : parseLoop s o (s.length + 1) (max (nextIndex first) 1) [first] t with ⟨r2, t2⟩
      rw [hl] at h
      cases r2 with
      | error e => simp only [] at h; cases h
      | ok ps =>
        simp only [] at h
        cases h
        exact parseLoop_wend s o (s.length + 1) (max (nextIndex first) 1) [first] t _
          (by intro n hn; simp at hn; subst hn; exact hp)
          (by rw [hl])

end wend

/-! ## (E2) discharged -/

/-- the extra condition: no returned part sits above a D19 pipeline (`time -p a` with
    `proceedonerror`; C03's `+emptydesc`) -/
def noD19 (parts : List Node) : Bool := parts.all fun p => !containsD19 p

/-- every returned part is a good tree -/
theorem parse_good (hR : C03.RootEnds) (s : Str) (o : Opts) (parts : List Node)
    (h : (parse s o).1 = .parts parts) : ∀ n ∈ parts, GoodT s.length n := by
  intro n hn m hm
  refine ⟨C03.parse_strict C03.tokSpans hR s o parts h n hn m hm,
    fun hw => parse_wend s o parts h n hn m hm hw, ?_⟩
  intro b hb
  cases m with
  | redirect p i t out oa hd hid =>
    simp only [heredocSlot] at hb
    subst hb
    have hv := C12.C12_only_pipelines s o parts h n hn _ hm (by intro p ps hc; cases hc)
    cases b <;> simp [localSchemaViol] at hv <;> rfl
  | _ => simp [heredocSlot] at hb

/-- **(E2) holds** of what the unlimited `parse` returns, under `RootEnds` (through C03's span
    theorem), for parts that do not sit above a D19 pipeline -/
theorem heredocStable_of_spans (hR : C03.RootEnds) (s : Str) (o : Opts) (k : Nat)
    (parts : List Node) (h : (parse s o).1 = .parts parts) (hD : noD19 parts = true) :
    heredocStable k parts = true := by
  unfold heredocStable
  rw [List.all_eq_true]
  intro p hp
  have ht : C03.tainted p = false := by
    have := List.all_eq_true.mp hD p hp
    simpa [C03.tainted] using this
  rw [beq_iff_eq]
  exact nextIndex_prune (parse_good hR s o parts h p hp) ht k

/-- **C16 (model level) without (E2)**: for every input, all options and every `k`, whenever the
    unlimited parse succeeds -- and (E1) no nested parse skipped by the limited run changes the
    shared flags, and no part sits above a D19 pipeline -- the parse with `expansionlimit = k`
    succeeds and returns the unlimited result with every substitution node nested deeper than `k`
    removed.  The only hypothesis is C03's `RootEnds`. -/
theorem C16_partial' (hR : C03.RootEnds) (s : Str) (o : Opts) (k : Nat) (parts : List Node) :
    o.limit = none → (parse s o).1 = .parts parts → flagsNeutral k s o = true →
    noD19 parts = true →
    (parse s { o with limit := some (k : Int) }).1 = .parts (Spec.pruneLimitL k parts) := by
  intro ho hp hn hD
  exact C16_partial s o k parts ho hp hn (heredocStable_of_spans hR s o k parts hp hD)

/-! ## the same without `RootEnds`: the per-input condition of `C03/RootEnds.lean` -/

/-- every returned part is a good tree, under the decidable per-input condition
    `C03.rootEndsChecked` instead of the hypothesis `RootEnds` -/
theorem parse_good_checked (s : Str) (o : Opts) (parts : List Node)
    (hc : C03.rootEndsChecked s o = true) (h : (parse s o).1 = .parts parts) :
    ∀ n ∈ parts, GoodT s.length n := by
  intro n hn m hm
  refine ⟨C03.parse_strict_checked s o parts hc h n hn m hm,
    fun hw => parse_wend s o parts h n hn m hm hw, ?_⟩
  intro b hb
  cases m with
  | redirect p i t out oa hd hid =>
    simp only [heredocSlot] at hb
    subst hb
    have hv := C12.C12_only_pipelines s o parts h n hn _ hm (by intro p ps hc; cases hc)
    cases b <;> simp [localSchemaViol] at hv <;> rfl
  | _ => simp [heredocSlot] at hb

/-- **(E2) holds**, no hypothesis: two decidable per-input conditions -/
theorem heredocStable_checked (s : Str) (o : Opts) (k : Nat) (parts : List Node)
    (hc : C03.rootEndsChecked s o = true) (h : (parse s o).1 = .parts parts)
    (hD : noD19 parts = true) : heredocStable k parts = true := by
  unfold heredocStable
  rw [List.all_eq_true]
  intro p hp
  have ht : C03.tainted p = false := by
    have := List.all_eq_true.mp hD p hp
    simpa [C03.tainted] using this
  rw [beq_iff_eq]
  exact nextIndex_prune (parse_good_checked s o parts hc h p hp) ht k

/-- **C16 (model level), no hypothesis left**: for every input, all options and every `k`, whenever
    the unlimited parse succeeds -- and the three decidable per-input conditions hold: (E1)
    `flagsNeutral`, no part above a D19 pipeline, the checked parse goes through
    (`C03.rootEndsChecked`) -- the parse with `expansionlimit = k` succeeds and returns the
    unlimited result with every substitution node nested deeper than `k` removed. -/
theorem C16_total_checked (s : Str) (o : Opts) (k : Nat) (parts : List Node) :
    o.limit = none → (parse s o).1 = .parts parts → flagsNeutral k s o = true →
    noD19 parts = true → C03.rootEndsChecked s o = true →
    (parse s { o with limit := some (k : Int) }).1 = .parts (Spec.pruneLimitL k parts) := by
  intro ho hp hn hD hc
  exact C16_partial s o k parts ho hp hn (heredocStable_checked s o k parts hc hp hD)

end Bashlex.C16

#print axioms Bashlex.C16.heredocStable_checked
#print axioms Bashlex.C16.C16_total_checked
#print axioms Bashlex.C16.parse_wend
#print axioms Bashlex.C16.nextIndex_prune
#print axioms Bashlex.C16.heredocStable_of_spans
#print axioms Bashlex.C16.C16_partial'
