/- the simp set of frame lemmas (`Props/C16/Frame.lean`) -/
import Lean
register_simp_attr fr
