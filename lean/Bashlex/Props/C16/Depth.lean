/-
  C16, part 7: induction over the nesting depth.  At every depth, the parser with
  `expansionlimit = k` returns the pruned result of the (instrumented) unlimited parser; the
  parser with `expansionlimit = -1` (one level below the cut) returns a tree with the same
  skeleton, leaves the same flags behind and consumes the same input.
-/
import Bashlex.Props.C16.Keeps

namespace Bashlex.C16
open Bashlex Bashlex.Spec Bashlex.Node Bashlex.M Bashlex.LR
set_option linter.unusedSimpArgs false
set_option linter.unusedVariables false
attribute [local instance] stdEnvRel

/-! ## facts about the state relation -/

theorem St.of_pres {j : Int} {b : Bool} {l₁ l₁' l₂ : Local} (h : St j b l₁ l₂) (hp : Pres l₁ l₁') :
    St j b l₁' l₂ := by
  obtain ⟨h1, h2, h3, h4⟩ := h
  obtain ⟨p1, p2, p3⟩ := hp
  refine ⟨p1.symm.trans h1, p2 ▸ h2, h3, ?_⟩
  cases b
  · simp only [Bool.false_eq_true, if_false] at h4 ⊢
    rw [← (core_fields p1).2.2.2.2.1]; exact h4
  · simp only [if_true] at h4 ⊢
    exact ⟨p3 h4.1, h4.2⟩

theorem core_nestedInit {o₁ o₂ : Local} (h : core o₁ = core o₂) (s : Str) (d : Bool) :
    core (nestedInit o₁ s d) = core (nestedInit o₂ s d) := by
  obtain ⟨_, _, _, _, _, _, hps, h8, h9, h10⟩ := core_fields h
  have hp : ∀ o : Local, coreP (nestedInit o s d).ps = coreP o.ps := by
    intro o; unfold nestedInit; cases d <;> rfl
  have : ∀ o : Local, core (nestedInit o s d) =
      { tape := some (Tape.ofInput s), opts := some (true, false), lastReadToken := o.lastReadToken,
        tokenBeforeThat := o.tokenBeforeThat, twoTokensAgo := o.twoTokensAgo, ps := coreP o.ps,
        eofToken := if d then some rparenEofToken else none, limit := none } := by
    intro o
    show ({ nestedInit o s d with limit := none, ps := coreP (nestedInit o s d).ps } : Local) = _
    rw [hp]; rfl
  rw [this, this, hps, h8, h9, h10]

theorem St.nested {j : Int} {b : Bool} {o₁ o₂ : Local} (h : St j b o₁ o₂) (s : Str) (d : Bool) :
    St (j - 1) (d || b) (nestedInit o₁ s d) (nestedInit o₂ s d) := by
  obtain ⟨h1, h2, h3, h4⟩ := h
  refine ⟨core_nestedInit h1 s d, ?_, ?_, ?_⟩
  · show o₁.limit.map (· - 1) = none
    rw [h2]; rfl
  · show o₂.limit.map (· - 1) = some (j - 1)
    rw [h3]; rfl
  · cases d
    · cases b
      · simp only [Bool.or_false, Bool.false_eq_true, if_false]; rfl
      · simp only [Bool.or_true, if_true] at h4 ⊢
        exact h4
    · simp only [Bool.true_or, if_true]
      exact ⟨rfl, rfl⟩

theorem St.restore {j j' : Int} {b b' : Bool} {o₁ o₂ i₁ i₂ : Local} (ho : St j b o₁ o₂)
    (hi : St j' b' i₁ i₂) (hb : b = true → b' = true) :
    St j b { o₁ with ps := i₁.ps } { o₂ with ps := i₂.ps } := by
  obtain ⟨h1, h2, h3, h4⟩ := ho
  obtain ⟨k1, _, _, k4⟩ := hi
  have hps := (core_fields k1).2.2.2.2.2.2.1
  refine ⟨?_, h2, h3, ?_⟩
  · show ({ core o₁ with ps := coreP i₁.ps } : Local) = { core o₂ with ps := coreP i₂.ps }
    rw [h1, hps]
  · cases b
    · simp only [Bool.false_eq_true, if_false] at h4 ⊢
      exact h4
    · simp only [if_true]
      rw [hb rfl] at k4
      simpa using k4

/-- the nested parsers of the two runs, above the cut -/
theorem rel_np_St {j : Int} {b : Bool} {N : Node → Node → Prop} {rec₁ rec₂ : M (Option Node)}
    (hrec : ∀ b', Rel (St (j - 1) b') (St (j - 1) b') rec₁ rec₂ (ORel N)) :
    NPR (St j b) N (npI false rec₁) (npPlain rec₂) := by
  rw [npPlain_eq]
  intro string dolparen
  unfold npI
  refine Rel.bind Rel.get ?_
  intro o₁ o₂ ho
  refine Rel.bind (Rel.set (S' := St (j - 1) (dolparen || b)) (ho.nested string dolparen)) ?_
  intro _ _ _
  refine Rel.bind (hrec _) ?_
  intro r₁ r₂ hr
  refine Rel.bind Rel.get ?_
  intro i₁ i₂ hi
  simp only [Bool.false_and, Bool.false_eq_true, if_false, pure_bind]
  refine Rel.bind (Rel.set (S' := St j b) (ho.restore hi (by intro hb; simp [hb]))) ?_
  intro _ _ _
  exact Rel.pure hr

/-! ## the two relations between nested results -/

theorem nok_prune (k : Nat) : NOK (fun a b => b = pruneLimit k a) where
  pos h := by rw [h, pos_pruneLimit]
  bound h P ha := by rw [h]; exact prune_all P _ k ha
  shift h n := by rw [h, prune_shift]

theorem nok_skel : NOK Skel where
  pos h := NR.pos h
  bound h := skel_bound h
  shift h := skel_shift h

/-! ## words -/

theorem expandwordWith_skip (np : NestedParse) (tok : Token) :
    expandwordWith np tok (some (-1)) =
      pure (.word (tok.lexpos, tok.endlexpos) tok.valueStr []) := by
  unfold expandwordWith
  simp

/-- one level below the cut: the unlimited run expands (and is checked to leave the flags
    alone), the limited run returns the token as it is -/
theorem rel_expandword_skip (hF : FrameHyp) (b : Bool) (j : Int) (depth : Nat) (np₂ : NestedParse)
    (tok : Token) :
    Rel (St (-1) b) (St (-1) b) (expandword (npI true (parserRunI j depth)) tok) (expandword np₂ tok)
      (WR eraseAll eraseVal) := by
  intro l₁ l₂ e₁ e₂ hl he w l₁' e₁' hr
  obtain ⟨hp, hq, v, ps, rfl⟩ := keeps_expandword (npI_keeps hF j depth) tok l₁ e₁ w l₁' e₁' hl.2.1 hr
  refine ⟨.word (tok.lexpos, tok.endlexpos) tok.valueStr [], l₂, e₂, ?_, ?_, hl.of_pres hp,
    hq.symm.trans he⟩
  · rw [expandword_eq, run_bind, run_get]
    simp only []
    rw [hl.2.2.1, expandwordWith_skip, run_pure]
  · exact ⟨_, _, _, _, _, rfl, rfl, rfl⟩

theorem rel_expandword_cut {b : Bool} {k : Nat} {N : Node → Node → Prop} (hN : NOK N)
    {np₁ np₂ : NestedParse} (hnp : NPR (St k b) N np₁ np₂)
    (hfin : ∀ ps₁ ps₂, Forall2 (PartR N) ps₁ ps₂ → filt (some (k : Int)) ps₂ = pruneParts k ps₁)
    (tok : Token) :
    Rel (St k b) (St k b) (expandword np₁ tok) (expandword np₂ tok) (WR (prunef k) idf) := by
  rw [expandword_eq, expandword_eq]
  refine Rel.bind Rel.get ?_
  intro l₁ l₂ hl
  rw [hl.2.1, hl.2.2.1]
  refine rel_expandwordWith hN hnp tok _ _ _ ?_ ?_ ?_
  · have : ((k : Int) == -1) = false := by
      rw [beq_eq_false_iff_ne]; omega
    simp [this]
  · exact ⟨_, _, _, _, _, rfl, rfl, by simp [prunef, idf, pruneParts]⟩
  · intro ps₁ ps₂ w h
    refine ⟨_, _, _, _, _, rfl, rfl, ?_⟩
    rw [hfin ps₁ ps₂ h]
    simp [prunef, idf, filt]

/-! ## the induction -/

theorem orel_prune {k : Nat} {r₁ r₂ : Option Node} (h : ORel (NR (prunef k) idf) r₁ r₂) :
    ORel (fun a b => b = pruneLimit k a) r₁ r₂ := by
  cases r₁ <;> cases r₂ <;> simp only [ORel] at h ⊢ <;> first | exact h | skip
  unfold NR at h
  rw [mapW_id] at h
  rw [pruneLimit_eq, h]

/-- **one parser run at every depth** -/
theorem parserRunI_rel (hF : FrameHyp) : ∀ d : Nat,
    (∀ b, Rel (St (-1) b) (St (-1) b) (parserRunI (-1) d) (parserRun d) (ORel Skel)) ∧
    (∀ (k : Nat) b, Rel (St k b) (St k b) (parserRunI k d) (parserRun d)
      (ORel fun a b => b = pruneLimit k a)) := by
  intro d
  induction d with
  | zero => exact ⟨fun _ => Rel.raise_left, fun _ _ => Rel.raise_left⟩
  | succ d ih =>
    refine ⟨?_, ?_⟩
    · intro b
      rw [parserRun_succ]
      show Rel _ _ (level (npI true (parserRunI (-1 - 1) d))) _ _
      exact rel_level (St.sok hF (-1) b) (f := eraseAll) (g := eraseVal) (fun _ _ => rfl)
        (rel_expandword_skip hF b _ d _)
    · intro k b
      rw [parserRun_succ]
      have hd : decide ((k : Int) ≤ -1) = false := by
        rw [decide_eq_false_iff_not]; omega
      show Rel _ _ (level (npI (decide ((k : Int) ≤ -1)) (parserRunI ((k : Int) - 1) d))) _ _
      rw [hd]
      refine (rel_level (St.sok hF k b) (f := prunef k) (g := idf)
        (by intro sp v; simp [prunef, idf, pruneParts]) ?_).conseq (fun _ _ => orel_prune)
      cases k with
      | zero =>
        refine rel_expandword_cut (N := Skel) nok_skel (rel_np_St ?_) ?_
        · intro b'
          have := ih.1 b'
          simpa using this
        · intro ps₁ ps₂ h
          simp only [filt, Int.natCast_zero, beq_self_eq_true, if_true]
          exact parts_prune_zero h
      | succ k' =>
        refine rel_expandword_cut (N := fun a b => b = pruneLimit k' a) (nok_prune k')
          (rel_np_St ?_) ?_
        · intro b'
          have := ih.2 k' b'
          have hk : ((k' + 1 : Nat) : Int) - 1 = (k' : Int) := by omega
          rw [hk]
          exact this
        · intro ps₁ ps₂ h
          have : (((k' + 1 : Nat) : Int) == 0) = false := by
            rw [beq_eq_false_iff_ne]; omega
          simp only [filt, Option.some_beq_some, this, Bool.false_eq_true, if_false]
          exact parts_prune_succ k' h

end Bashlex.C16
