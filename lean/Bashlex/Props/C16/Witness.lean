/-
  C16: kernel-evaluated witnesses for the exclusion (E1) of `C16_partial`.
-/
import Bashlex.Props.C16

namespace Bashlex.C16
open Bashlex

/-- does `parse` return trees? -/
def accepts (s : Str) (o : Opts := {}) : Bool :=
  match (parse s o).1 with
  | .parts _ => true
  | _ => false

/-- `$(case x in $(a)|b=1) c;; esac)`: a nested parse that the limited run skips clears the
    shared CASEPAT flag.  The unlimited parse FAILS (`b=1` becomes an ASSIGNMENT_WORD, which is
    not a pattern); `expansionlimit = 0` succeeds.  (The converse of C16 is false.) -/
def w1 : Str := "$(case x in $(a)|b=1) c;; esac)".toList

theorem witness_leak_unlimited_fails : accepts w1 = false := by decide +kernel
theorem witness_leak_limited_succeeds : accepts w1 { limit := some 0 } = true := by decide +kernel

/-- `$(case x in a) e $(b);; c) e;; esac)`: a harmless leak (CASEPAT is cleared one token early
    in the unlimited run only); (E1) excludes the input for `k = 0` although the outcomes agree -/
def w2 : Str := "$(case x in a) e $(b);; c) e;; esac)".toList

theorem witness_harmless_leak : flagsNeutral 0 w2 {} = false := by decide +kernel
theorem witness_harmless_leak_k1 : flagsNeutral 1 w2 {} = true := by decide +kernel
theorem witness_harmless_leak_accepts :
    accepts w2 = true ∧ accepts w2 { limit := some 0 } = true := by decide +kernel

end Bashlex.C16
