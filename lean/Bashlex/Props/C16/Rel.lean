/-
  C16, part 1: a relational ("two-run") program logic for the model monad `M`.

  `Rel S S' m₁ m₂ R`: started in local states related by `S` and in environments that agree up
  to the shared `sh_syntaxtab` store, *if run 1 returns normally* then run 2 returns normally,
  the results are related by `R`, the final states by `S'` and the final environments again agree
  up to the store.  Nothing is claimed when run 1 raises (the limited run does strictly less
  nested parsing than the unlimited run, so this is the right direction for C16).
-/
import Bashlex.Proofs.Hoare
import Bashlex.Proofs.QCongr
import Bashlex.LR.Sound

namespace Bashlex.C16
open Bashlex Bashlex.M Bashlex.LR
set_option linter.unusedVariables false

abbrev EnvR := Env.EqModStore

theorem EnvR.refl (e : Env) : EnvR e e := Env.EqModStore.refl e
theorem EnvR.symm {e e' : Env} (h : EnvR e e') : EnvR e' e := ⟨h.1.symm, h.2.1.symm, h.2.2.symm⟩
theorem EnvR.trans {a b c : Env} (h : EnvR a b) (h' : EnvR b c) : EnvR a c :=
  ⟨h.1.trans h'.1, h.2.1.trans h'.2.1, h.2.2.trans h'.2.2⟩

/-- the relation between the environments of the two runs (a parameter of the logic: the
    standard one is `EnvR`, "equal up to the shared store"; `Props/C16/Frame.lean` uses a second
    one to show that a parser over its own tape leaves the caller's tape alone) -/
class EnvRel where
  E : Env → Env → Prop

def Rel [er : EnvRel] {α β : Type} (S S' : Local → Local → Prop) (m₁ : M α) (m₂ : M β)
    (R : α → β → Prop) : Prop :=
  ∀ l₁ l₂ e₁ e₂, S l₁ l₂ → er.E e₁ e₂ →
    ∀ a₁ l₁' e₁', m₁.run l₁ e₁ = (.ok (a₁, l₁'), e₁') →
      ∃ a₂ l₂' e₂', m₂.run l₂ e₂ = (.ok (a₂, l₂'), e₂') ∧ R a₁ a₂ ∧ S' l₁' l₂' ∧ er.E e₁' e₂'

/-- the standard relation between the environments: equal up to the shared store -/
@[reducible] def stdEnvRel : EnvRel := ⟨EnvR⟩

section noret
variable {α β : Type}
/-- run 1 never returns normally -/
def NoRet (m : M α) : Prop := ∀ l e a l' e', m.run l e ≠ (.ok (a, l'), e')

theorem NoRet.raise {x : Exn} : NoRet (M.raise x : M α) := by
  intro l e a l' e' h; rw [run_raise] at h; cases h

theorem NoRet.foreign {a b : String} : NoRet (M.foreign a b : M α) := NoRet.raise

theorem NoRet.bind_right {m : M α} {f : α → M β} (h : ∀ a, NoRet (f a)) : NoRet (m >>= f) := by
  intro l e b l' e' hr
  rw [run_bind] at hr
  rcases h1 : m.run l e with ⟨r, e1⟩
  rw [h1] at hr
  cases r with
  | error x => cases hr
  | ok v => obtain ⟨a, l1⟩ := v; exact h a _ _ _ _ _ hr

theorem NoRet.bind_left {m : M α} {f : α → M β} (h : NoRet m) : NoRet (m >>= f) := by
  intro l e b l' e' hr
  rw [run_bind] at hr
  rcases h1 : m.run l e with ⟨r, e1⟩
  rw [h1] at hr
  cases r with
  | error x => cases hr
  | ok v => obtain ⟨a, l1⟩ := v; exact h _ _ _ _ _ h1

end noret

section generic
variable [EnvRel]
variable {α β γ δ : Type} {S S' S'' : Local → Local → Prop}

theorem Rel.pure {R : α → β → Prop} {a : α} {b : β} (h : R a b) :
    Rel S S (Pure.pure a : M α) (Pure.pure b : M β) R := by
  intro l₁ l₂ e₁ e₂ hS hE a₁ l₁' e₁' hr
  rw [run_pure] at hr
  cases hr
  exact ⟨b, l₂, e₂, run_pure _ _ _, h, hS, hE⟩

theorem Rel.bind {m₁ : M α} {m₂ : M β} {f : α → M γ} {g : β → M δ} {P : α → β → Prop}
    {R : γ → δ → Prop} (hm : Rel S S' m₁ m₂ P) (hf : ∀ a b, P a b → Rel S' S'' (f a) (g b) R) :
    Rel S S'' (m₁ >>= f) (m₂ >>= g) R := by
  intro l₁ l₂ e₁ e₂ hS hE c l₁'' e₁'' hr
  rw [run_bind] at hr
  rcases h1 : m₁.run l₁ e₁ with ⟨r, e₁'⟩
  rw [h1] at hr
  cases r with
  | error x => cases hr
  | ok v =>
    obtain ⟨a, l₁'⟩ := v
    simp only [] at hr
    obtain ⟨b, l₂', e₂', h2, hP, hS', hE'⟩ := hm l₁ l₂ e₁ e₂ hS hE a l₁' e₁' h1
    obtain ⟨d, l₂'', e₂'', h3, hR, hS'', hE''⟩ := hf a b hP l₁' l₂' e₁' e₂' hS' hE' c l₁'' e₁'' hr
    refine ⟨d, l₂'', e₂'', ?_, hR, hS'', hE''⟩
    rw [run_bind, h2]
    exact h3

theorem Rel.conseq {m₁ : M α} {m₂ : M β} {R R' : α → β → Prop} (h : Rel S S' m₁ m₂ R)
    (hR : ∀ a b, R a b → R' a b) : Rel S S' m₁ m₂ R' := by
  intro l₁ l₂ e₁ e₂ hS hE a₁ l₁' e₁' hr
  obtain ⟨a₂, l₂', e₂', h2, h3, h4, h5⟩ := h l₁ l₂ e₁ e₂ hS hE a₁ l₁' e₁' hr
  exact ⟨a₂, l₂', e₂', h2, hR _ _ h3, h4, h5⟩

theorem Rel.noRet {m₁ : M α} {m₂ : M β} {R : α → β → Prop} (h : NoRet m₁) : Rel S S' m₁ m₂ R := by
  intro l₁ l₂ e₁ e₂ hS hE a₁ l₁' e₁' hr
  exact absurd hr (h _ _ _ _ _)

theorem Rel.raise_left {m₂ : M β} {R : α → β → Prop} {x : Exn} :
    Rel S S' (M.raise x : M α) m₂ R := Rel.noRet NoRet.raise

theorem Rel.foreign_left {m₂ : M β} {R : α → β → Prop} {a b : String} :
    Rel S S' (M.foreign a b : M α) m₂ R := Rel.noRet NoRet.foreign

theorem Rel.ite {c₁ c₂ : Prop} [Decidable c₁] [Decidable c₂] {a₁ b₁ : M α} {a₂ b₂ : M β}
    {R : α → β → Prop} (hc : c₁ ↔ c₂) (ha : c₁ → Rel S S' a₁ a₂ R) (hb : ¬ c₁ → Rel S S' b₁ b₂ R) :
    Rel S S' (if c₁ then a₁ else b₁) (if c₂ then a₂ else b₂) R := by
  by_cases h : c₁
  · rw [if_pos h, if_pos (hc.mp h)]; exact ha h
  · rw [if_neg h, if_neg (fun h' => h (hc.mpr h'))]; exact hb h

/-- same condition on both sides -/
theorem Rel.ite' {c : Prop} [Decidable c] {a₁ b₁ : M α} {a₂ b₂ : M β}
    {R : α → β → Prop} (ha : c → Rel S S' a₁ a₂ R) (hb : ¬ c → Rel S S' b₁ b₂ R) :
    Rel S S' (if c then a₁ else b₁) (if c then a₂ else b₂) R :=
  Rel.ite Iff.rfl ha hb

theorem Rel.get : Rel S S (MonadState.get : M Local) (MonadState.get : M Local) S := by
  intro l₁ l₂ e₁ e₂ hS hE a₁ l₁' e₁' hr
  have : (MonadState.get : M Local).run l₁ e₁ = (.ok (l₁, l₁), e₁) := rfl
  rw [this] at hr; cases hr
  exact ⟨l₂, l₂, e₂, rfl, hS, hS, hE⟩

theorem Rel.set {l₁ l₂ : Local} (h : S' l₁ l₂) :
    Rel S S' (MonadStateOf.set l₁ : M Unit) (MonadStateOf.set l₂ : M Unit) (fun _ _ => True) := by
  intro k₁ k₂ e₁ e₂ hS hE a₁ l₁' e₁' hr
  have : (MonadStateOf.set l₁ : M Unit).run k₁ e₁ = (.ok ((), l₁), e₁) := rfl
  rw [this] at hr; cases hr
  exact ⟨(), l₂, e₂, rfl, trivial, h, hE⟩

theorem Rel.modify {f g : Local → Local} (h : ∀ l₁ l₂, S l₁ l₂ → S' (f l₁) (g l₂)) :
    Rel S S' (_root_.modify f : M Unit) (_root_.modify g : M Unit) (fun _ _ => True) := by
  intro k₁ k₂ e₁ e₂ hS hE a₁ l₁' e₁' hr
  have : (_root_.modify f : M Unit).run k₁ e₁ = (.ok ((), f k₁), e₁) := rfl
  rw [this] at hr; cases hr
  exact ⟨(), g k₂, e₂, rfl, trivial, h _ _ hS, hE⟩

def SumR {σ τ : Type} (I : σ → τ → Prop) (R : α → β → Prop) : σ ⊕ α → τ ⊕ β → Prop
  | .inl s, .inl t => I s t
  | .inr a, .inr b => R a b
  | _, _ => False

def ForInR {σ τ : Type} (I : σ → τ → Prop) : ForInStep σ → ForInStep τ → Prop
  | .yield s, .yield t => I s t
  | .done s, .done t => I s t
  | _, _ => False

theorem Rel.loop {σ τ : Type} {site : String} {body₁ : σ → M (σ ⊕ α)} {body₂ : τ → M (τ ⊕ β)}
    {I : σ → τ → Prop} {R : α → β → Prop}
    (hbody : ∀ s t, I s t → Rel S S (body₁ s) (body₂ t) (SumR I R)) :
    ∀ fuel s t, I s t → Rel S S (M.loop site body₁ fuel s) (M.loop site body₂ fuel t) R := by
  intro fuel
  induction fuel with
  | zero => intro s t _; exact Rel.raise_left
  | succ n ih =>
    intro s t hst
    show Rel S S (body₁ s >>= _) (body₂ t >>= _) R
    refine Rel.bind (hbody s t hst) ?_
    intro r₁ r₂ hr
    cases r₁ with
    | inl s' =>
      cases r₂ with
      | inl t' => exact ih s' t' hr
      | inr b => exact hr.elim
    | inr a =>
      cases r₂ with
      | inl t' => exact hr.elim
      | inr b => exact Rel.pure hr

/-- `for x in l do …` over two lists of the same length with pointwise related elements -/
theorem Rel.forIn_list {ι κ σ τ : Type} {f : ι → σ → M (ForInStep σ)} {g : κ → τ → M (ForInStep τ)}
    {A : ι → κ → Prop} {I : σ → τ → Prop}
    (hstep : ∀ a b s t, A a b → I s t → Rel S S (f a s) (g b t) (ForInR I)) :
    ∀ (l₁ : List ι) (l₂ : List κ), Forall2 A l₁ l₂ → ∀ s t, I s t →
      Rel S S (forIn l₁ s f) (forIn l₂ t g) I := by
  intro l₁ l₂ h
  induction h with
  | nil => intro s t hst; rw [List.forIn_nil, List.forIn_nil]; exact Rel.pure hst
  | cons hab _ ih =>
    intro s t hst
    rw [List.forIn_cons, List.forIn_cons]
    refine Rel.bind (hstep _ _ s t hab hst) ?_
    intro r₁ r₂ hr
    cases r₁ with
    | done s' =>
      cases r₂ with
      | done t' => exact Rel.pure hr
      | yield t' => exact hr.elim
    | yield s' =>
      cases r₂ with
      | done t' => exact hr.elim
      | yield t' => exact ih s' t' hr

end generic

section std
attribute [local instance] stdEnvRel
variable {α β : Type} {S : Local → Local → Prop}

/-- a query to the environment: same answer up to the store -/
theorem Rel.ask (q : Query) : Rel S S (M.ask q) (M.ask q) Eq := by
  intro l₁ l₂ e₁ e₂ hS hE a₁ l₁' e₁' hr
  have h1 : ∀ (l : Local) (e : Env), (M.ask q).run l e = (.ok ((e.answer q).1, l), (e.answer q).2) := by
    intro l e; rfl
  rw [h1] at hr; cases hr
  obtain ⟨ha, he⟩ := Env.answer_eqModStore hE q
  exact ⟨_, _, _, h1 _ _, ha, hS, he⟩

/-- the same program, run twice from the same local state -/
theorem Rel.same (m : M α) : Rel Eq Eq m m Eq := by
  intro l₁ l₂ e₁ e₂ hS hE a₁ l₁' e₁' hr
  cases hS
  obtain ⟨h1, h2, _⟩ := Q.run_eqModStore (m l₁) hE
  have hr' : Q.run (m l₁) e₁ = (.ok (a₁, l₁'), e₁') := hr
  rw [hr'] at h1 h2
  refine ⟨a₁, l₁', (Q.run (m l₁) e₂).2, ?_, rfl, rfl, h2⟩
  show Q.run (m l₁) e₂ = _
  rw [Prod.ext_iff]; exact ⟨h1.symm, rfl⟩

end std

end Bashlex.C16

