/-
  C16, part 2: word maps.  `mapW f` rewrites the value and the parts of every `word` /
  `assignment` node reachable without entering a word, and the command of a bare substitution
  node; everything else (kinds, spans, operators, redirect fields, here-documents) is kept.
  `pruneLimit k` is such a map; so is the "skeleton" comparison used one level below the cut.
  Two results are related when `mapW f a = mapW g b`.
-/
import Bashlex.Spec.Rel
import Bashlex.Props.C12.Tree

namespace Bashlex.C16
open Bashlex Bashlex.Spec Bashlex.Node
set_option linter.unusedSimpArgs false
set_option linter.unusedVariables false

structure WF where
  word : Span → Str → List Node → Str × List Node
  sub : Node → Node

mutual
def mapW (f : WF) : Node → Node
  | .list p ps => .list p (mapWL f ps)
  | .pipeline p ps => .pipeline p (mapWL f ps)
  | .compound p l r => .compound p (mapWL f l) (mapWL f r)
  | .ifN p ps => .ifN p (mapWL f ps)
  | .forN p ps => .forN p (mapWL f ps)
  | .whileN p ps => .whileN p (mapWL f ps)
  | .untilN p ps => .untilN p (mapWL f ps)
  | .caseN p ps => .caseN p (mapWL f ps)
  | .pattern p ps => .pattern p (mapWL f ps)
  | .command p ps => .command p (mapWL f ps)
  | .unimplemented p ps => .unimplemented p (mapWL f ps)
  | .function p a b ps => .function p a b (mapWL f ps)
  | .redirect p i t o oa h hid => .redirect p i t (mapWO f o) oa h hid
  | .word p w ps => .word p (f.word p w ps).1 (f.word p w ps).2
  | .assignment p w ps => .assignment p (f.word p w ps).1 (f.word p w ps).2
  | .commandsubstitution p c => .commandsubstitution p (f.sub c)
  | .processsubstitution p c => .processsubstitution p (f.sub c)
  | .operator p o => .operator p o
  | .reservedword p w => .reservedword p w
  | .pipe p w => .pipe p w
  | .parameter p v => .parameter p v
  | .tilde p v => .tilde p v
  | .heredoc p v => .heredoc p v
def mapWL (f : WF) : List Node → List Node
  | [] => []
  | n :: ns => mapW f n :: mapWL f ns
def mapWO (f : WF) : Option Node → Option Node
  | none => none
  | some n => some (mapW f n)
end

theorem mapWL_eq (f : WF) (l : List Node) : mapWL f l = l.map (mapW f) := by
  induction l with
  | nil => simp [mapWL]
  | cons a as ih => simp [mapWL, ih]

theorem mapWO_eq (f : WF) (o : Option Node) : mapWO f o = o.map (mapW f) := by
  cases o <;> simp [mapWO]

@[simp] theorem mapWL_nil (f : WF) : mapWL f [] = [] := rfl
@[simp] theorem mapWL_cons (f : WF) (a : Node) (l : List Node) :
    mapWL f (a :: l) = mapW f a :: mapWL f l := rfl
@[simp] theorem mapWL_append (f : WF) (l r : List Node) :
    mapWL f (l ++ r) = mapWL f l ++ mapWL f r := by simp [mapWL_eq]
@[simp] theorem mapWL_length (f : WF) (l : List Node) : (mapWL f l).length = l.length := by
  simp [mapWL_eq]

@[simp] theorem pos_mapW (f : WF) (n : Node) : (mapW f n).pos = n.pos := by
  cases n <;> simp [mapW, Node.pos]

/-- the identity as a word map -/
def idf : WF := ⟨fun _ w ps => (w, ps), id⟩

mutual
theorem mapW_id : (n : Node) → mapW idf n = n
  | .list _ ps | .pipeline _ ps | .ifN _ ps | .forN _ ps | .whileN _ ps | .untilN _ ps
  | .caseN _ ps | .pattern _ ps | .command _ ps | .unimplemented _ ps | .function _ _ _ ps => by
    simp [mapW, mapWL_id ps]
  | .compound _ l r => by simp [mapW, mapWL_id l, mapWL_id r]
  | .redirect _ _ _ o _ _ _ => by simp [mapW, mapWO_id o]
  | .word .. | .assignment .. | .commandsubstitution .. | .processsubstitution ..
  | .operator .. | .reservedword .. | .pipe .. | .parameter .. | .tilde .. | .heredoc .. => by
    simp [mapW, idf]
theorem mapWL_id : (l : List Node) → mapWL idf l = l
  | [] => rfl
  | n :: ns => by simp [mapW_id n, mapWL_id ns]
theorem mapWO_id : (o : Option Node) → mapWO idf o = o
  | none => rfl
  | some n => by simp [mapWO, mapW_id n]
end

/-! ## `pruneLimit` is a word map -/

def prunef (k : Nat) : WF :=
  ⟨fun _ w ps => (w, pruneParts k ps),
   fun c => match k with | 0 => c | k' + 1 => pruneLimit k' c⟩

mutual
theorem pruneLimit_eq (k : Nat) : (n : Node) → pruneLimit k n = mapW (prunef k) n
  | .list _ ps | .pipeline _ ps | .ifN _ ps | .forN _ ps | .whileN _ ps | .untilN _ ps
  | .caseN _ ps | .pattern _ ps | .command _ ps | .unimplemented _ ps | .function _ _ _ ps => by
    simp [pruneLimit, mapW, pruneLimitL_eq k ps]
  | .compound _ l r => by simp [pruneLimit, mapW, pruneLimitL_eq k l, pruneLimitL_eq k r]
  | .redirect _ _ _ o _ _ _ => by simp [pruneLimit, mapW, pruneLimitO_eq k o]
  | .word .. | .assignment .. => by simp [pruneLimit, mapW, prunef]
  | .commandsubstitution .. | .processsubstitution .. => by
    cases k <;> simp [pruneLimit, mapW, prunef]
  | .operator .. | .reservedword .. | .pipe .. | .parameter .. | .tilde .. | .heredoc .. => by
    simp [pruneLimit, mapW]
theorem pruneLimitL_eq (k : Nat) : (l : List Node) → pruneLimitL k l = mapWL (prunef k) l
  | [] => by simp [pruneLimitL]
  | n :: ns => by simp [pruneLimitL, pruneLimit_eq k n, pruneLimitL_eq k ns]
theorem pruneLimitO_eq (k : Nat) : (o : Option Node) → pruneLimitO k o = mapWO (prunef k) o
  | none => by simp [pruneLimitO, mapWO]
  | some n => by simp [pruneLimitO, mapWO, pruneLimit_eq k n]
end

theorem pruneLimitL_map (k : Nat) (l : List Node) : pruneLimitL k l = l.map (pruneLimit k) := by
  induction l with
  | nil => simp [pruneLimitL]
  | cons a as ih => simp [pruneLimitL, ih]

@[simp] theorem pos_pruneLimit (k : Nat) (n : Node) : (pruneLimit k n).pos = n.pos := by
  rw [pruneLimit_eq]; exact pos_mapW _ _

/-! ## `resolve` commutes with every word map -/

mutual
theorem mapW_resolve (f : WF) (st : List RedirCell) :
    (n : Node) → mapW f (resolve st n) = resolve st (mapW f n)
  | .list _ ps | .pipeline _ ps | .ifN _ ps | .forN _ ps | .whileN _ ps | .untilN _ ps
  | .caseN _ ps | .pattern _ ps | .command _ ps | .unimplemented _ ps | .function _ _ _ ps => by
    simp [resolve, mapW, mapWL_resolve f st ps]
  | .compound _ l r => by simp [resolve, mapW, mapWL_resolve f st l, mapWL_resolve f st r]
  | .redirect p i t o oa h hid => by
    cases hid with
    | none => simp [resolve, mapW]
    | some id => simp only [resolve, mapW]; cases st[id]? <;> simp [mapW]
  | .word .. | .assignment .. | .commandsubstitution .. | .processsubstitution ..
  | .operator .. | .reservedword .. | .pipe .. | .parameter .. | .tilde .. | .heredoc .. => by
    simp [resolve, mapW]
theorem mapWL_resolve (f : WF) (st : List RedirCell) :
    (l : List Node) → mapWL f (resolveL st l) = resolveL st (mapWL f l)
  | [] => by simp [resolveL]
  | n :: ns => by simp [resolveL, mapW_resolve f st n, mapWL_resolve f st ns]
end

end Bashlex.C16

namespace Bashlex.C16
open Bashlex Bashlex.Spec Bashlex.Node

/-! ## the relation between the results of the two runs -/

/-- two nodes with the same image -/
def NR (f g : WF) (a b : Node) : Prop := mapW f a = mapW g b
def LR (f g : WF) (l l' : List Node) : Prop := mapWL f l = mapWL g l'

theorem NR.pos {f g : WF} {a b : Node} (h : NR f g a b) : a.pos = b.pos := by
  have := congrArg Node.pos h
  simpa using this

theorem LR.length {f g : WF} {l l' : List Node} (h : LR f g l l') : l.length = l'.length := by
  have := congrArg List.length h
  simpa using this

theorem LR.nil {f g : WF} : LR f g [] [] := rfl
theorem LR.cons {f g : WF} {a b l l'} (h : NR f g a b) (hl : LR f g l l') :
    LR f g (a :: l) (b :: l') := by
  unfold LR NR at *; simp [h, hl]
theorem LR.append {f g : WF} {l l' r r'} (h : LR f g l l') (hr : LR f g r r') :
    LR f g (l ++ r) (l' ++ r') := by
  unfold LR at *; simp [h, hr]
theorem LR.single {f g : WF} {a b} (h : NR f g a b) : LR f g [a] [b] := LR.cons h LR.nil

theorem LR.cons_inv {f g : WF} {a l l'} (h : LR f g (a :: l) l') :
    ∃ b r, l' = b :: r ∧ NR f g a b ∧ LR f g l r := by
  cases l' with
  | nil => simp [LR] at h
  | cons b r =>
    simp only [LR, mapWL_cons, List.cons.injEq] at h
    exact ⟨b, r, rfl, h.1, h.2⟩

theorem LR.nil_inv {f g : WF} {l'} (h : LR f g [] l') : l' = [] := by
  cases l' with
  | nil => rfl
  | cons b r => simp [LR] at h

theorem LR.head? {f g : WF} {l l'} (h : LR f g l l') :
    match l.head?, l'.head? with
    | none, none => True
    | some a, some b => NR f g a b
    | _, _ => False := by
  cases l with
  | nil => cases LR.nil_inv h; trivial
  | cons a r => obtain ⟨b, r', rfl, h1, _⟩ := LR.cons_inv h; exact h1

theorem LR.getLast? {f g : WF} : ∀ {l l'}, LR f g l l' →
    match l.getLast?, l'.getLast? with
    | none, none => True
    | some a, some b => NR f g a b
    | _, _ => False := by
  intro l
  induction l with
  | nil => intro l' h; cases LR.nil_inv h; trivial
  | cons a r ih =>
    intro l' h
    obtain ⟨b, r', rfl, h1, h2⟩ := LR.cons_inv h
    cases r with
    | nil => cases LR.nil_inv h2; simpa using h1
    | cons a2 r2 =>
      obtain ⟨b2, r2', rfl, _, _⟩ := LR.cons_inv h2
      have := ih h2
      simpa [List.getLast?_cons_cons] using this

/-! ### inversion -/

theorem NR.compound_inv {f g : WF} {p l r b} (h : NR f g (.compound p l r) b) :
    ∃ l' r', b = .compound p l' r' ∧ LR f g l l' ∧ LR f g r r' := by
  cases b <;> simp [NR, mapW] at h
  obtain ⟨rfl, h1, h2⟩ := h
  exact ⟨_, _, rfl, h1, h2⟩

theorem NR.pipeline_inv {f g : WF} {p l b} (h : NR f g (.pipeline p l) b) :
    ∃ l', b = .pipeline p l' ∧ LR f g l l' := by
  cases b <;> simp [NR, mapW] at h
  obtain ⟨rfl, h1⟩ := h
  exact ⟨_, rfl, h1⟩

theorem NR.reservedword_inv {f g : WF} {p w b} (h : NR f g (.reservedword p w) b) :
    b = .reservedword p w := by
  cases b <;> simp [NR, mapW] at h
  obtain ⟨rfl, rfl⟩ := h; rfl

theorem NR.word_inv {f g : WF} {p w ps b} (h : NR f g (.word p w ps) b) :
    ∃ w' ps', b = .word p w' ps' ∧ f.word p w ps = g.word p w' ps' := by
  cases b <;> simp [NR, mapW] at h
  obtain ⟨rfl, h1, h2⟩ := h
  exact ⟨_, _, rfl, Prod.ext h1 h2⟩

def isWordN (n : Node) : Bool := match n with | .word .. => true | _ => false
def isPipelineN (n : Node) : Bool := match n with | .pipeline .. => true | _ => false
def isReservedN (n : Node) : Bool := match n with | .reservedword .. => true | _ => false

@[simp] theorem isWordN_mapW (f : WF) (n : Node) : isWordN (mapW f n) = isWordN n := by
  cases n <;> rfl
@[simp] theorem isCompound_mapW (f : WF) (n : Node) : isCompound (mapW f n) = isCompound n := by
  cases n <;> rfl
@[simp] theorem isPipelineN_mapW (f : WF) (n : Node) : isPipelineN (mapW f n) = isPipelineN n := by
  cases n <;> rfl
@[simp] theorem isReservedN_mapW (f : WF) (n : Node) : isReservedN (mapW f n) = isReservedN n := by
  cases n <;> rfl

theorem NR.isWordN {f g : WF} {a b} (h : NR f g a b) : isWordN a = isWordN b := by
  have := congrArg C16.isWordN h; simpa using this
theorem NR.isCompound {f g : WF} {a b} (h : NR f g a b) : isCompound a = isCompound b := by
  have := congrArg Bashlex.isCompound h; simpa using this
theorem NR.isPipelineN {f g : WF} {a b} (h : NR f g a b) : isPipelineN a = isPipelineN b := by
  have := congrArg C16.isPipelineN h; simpa using this
theorem NR.isReservedN {f g : WF} {a b} (h : NR f g a b) : isReservedN a = isReservedN b := by
  have := congrArg C16.isReservedN h; simpa using this

/-- the pending-here-document id and the stored span: all `nodePos` looks at -/
def posKey (n : Node) : Span × Option Nat :=
  match n with
  | .redirect p _ _ _ _ _ hid => (p, hid)
  | m => (m.pos, none)

@[simp] theorem posKey_mapW (f : WF) (n : Node) : posKey (mapW f n) = posKey n := by
  cases n <;> simp [posKey, mapW, Node.pos]

theorem NR.posKey {f g : WF} {a b} (h : NR f g a b) : posKey a = posKey b := by
  have := congrArg C16.posKey h; simpa using this

theorem LR.findIdx {f g : WF} {P : Node → Bool} (hP : ∀ f n, P (mapW f n) = P n) :
    ∀ {l l'}, LR f g l l' → l.findIdx? P = l'.findIdx? P := by
  intro l l' h
  have h1 : ∀ (f : WF) (l : List Node), (mapWL f l).findIdx? P = l.findIdx? P := by
    intro f l
    induction l with
    | nil => rfl
    | cons a r ih => simp [List.findIdx?_cons, hP, ih]
  rw [← h1 f l, ← h1 g l', h]

/-! ### semantic values -/

def SR (f g : WF) : SVal → SVal → Prop
  | .none, .none => True
  | .tok t, .tok t' => t = t'
  | .node a, .node b => NR f g a b
  | .nodes l, .nodes l' => LR f g l l'
  | _, _ => False

theorem SR.lexspan {f g : WF} {a b : SVal} (h : SR f g a b) : a.lexspan = b.lexspan := by
  cases a <;> cases b <;> simp [SR] at h <;> simp [SVal.lexspan, h]

end Bashlex.C16

